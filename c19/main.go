// C19 — mutable.CopyOnWriteMap is linearizable; ComputeIfAbsent is atomic per key.
// Many short concurrent histories recorded at the client boundary (one atomic counter as
// clock) are checked by porcupine against a sequential map model. Built with -race.
package main

import (
	"fmt"
	"math/rand/v2"
	"runtime"
	"sort"
	"strings"
	"sync"
	"sync/atomic"
	"time"

	"verif/vrt"

	"github.com/anishathalye/porcupine"
	"github.com/csgura/fp"
	"github.com/csgura/fp/mutable"
)

const nKeys = 3

var keyNames = [nKeys]string{"k0", "k1", "k2"}

type opKind int

const (
	opGet opKind = iota
	opUpdated
	opRemoved
	opUpdatedWith
	opComputeIfAbsent
	opComputeIf
	opSize
	opIterator
	nOpKinds
)

var opNames = []string{"Get", "Updated", "Removed", "UpdatedWith", "ComputeIfAbsent", "ComputeIf", "Size", "Iterator"}

type input struct {
	Op   opKind
	K    int
	K2   int // second key for Removed (-1 none)
	V    int
	Mode int // UpdatedWith: 0 set-if-absent, 1 delete, 2 replace-if-present
}

type output struct {
	V    int
	Ok   bool
	N    int
	Snap [nKeys]int
	Bad  bool // iterator yielded something impossible (duplicate / unknown key)
}

type state [nKeys]int // 0 = absent; stored values are > 0 and unique

func odd(v int) bool { return v%2 == 1 }

func step(st state, in input, out output) (bool, state) {
	switch in.Op {
	case opGet:
		if st[in.K] == 0 {
			return !out.Ok, st
		}
		return out.Ok && out.V == st[in.K], st
	case opUpdated:
		st[in.K] = in.V
		return true, st
	case opRemoved:
		st[in.K] = 0
		if in.K2 >= 0 {
			st[in.K2] = 0
		}
		return true, st
	case opUpdatedWith:
		switch in.Mode {
		case 0:
			if st[in.K] == 0 {
				st[in.K] = in.V
			}
		case 1:
			st[in.K] = 0
		case 2:
			if st[in.K] != 0 {
				st[in.K] = in.V
			}
		}
		return true, st
	case opComputeIfAbsent:
		if st[in.K] != 0 {
			return out.V == st[in.K], st
		}
		st[in.K] = in.V
		return out.V == in.V, st
	case opComputeIf:
		if st[in.K] != 0 && !odd(st[in.K]) {
			return out.V == st[in.K], st
		}
		st[in.K] = in.V
		return out.V == in.V, st
	case opSize:
		n := 0
		for _, v := range st {
			if v != 0 {
				n++
			}
		}
		return out.N == n, st
	case opIterator:
		return !out.Bad && out.Snap == [nKeys]int(st), st
	}
	return false, st
}

var model = porcupine.Model{
	Init: func() any { return state{} },
	Step: func(s, in, out any) (bool, any) {
		ok, ns := step(s.(state), in.(input), out.(output))
		return ok, ns
	},
	DescribeOperation: func(in, out any) string { return descOp(in.(input), out.(output)) },
}

func descOp(in input, out output) string {
	switch in.Op {
	case opGet:
		return fmt.Sprintf("Get(%s)->(%d,%v)", keyNames[in.K], out.V, out.Ok)
	case opUpdated:
		return fmt.Sprintf("Updated(%s,%d)", keyNames[in.K], in.V)
	case opRemoved:
		if in.K2 >= 0 {
			return fmt.Sprintf("Removed(%s,%s)", keyNames[in.K], keyNames[in.K2])
		}
		return fmt.Sprintf("Removed(%s)", keyNames[in.K])
	case opUpdatedWith:
		return fmt.Sprintf("UpdatedWith(%s,%s,%d)", keyNames[in.K], []string{"set-if-absent", "delete", "replace-if-present"}[in.Mode], in.V)
	case opComputeIfAbsent:
		return fmt.Sprintf("ComputeIfAbsent(%s,%d)->%d", keyNames[in.K], in.V, out.V)
	case opComputeIf:
		return fmt.Sprintf("ComputeIf(%s,odd?,%d)->%d", keyNames[in.K], in.V, out.V)
	case opSize:
		return fmt.Sprintf("Size()->%d", out.N)
	case opIterator:
		return fmt.Sprintf("Iterator()->%v bad=%v", out.Snap, out.Bad)
	}
	return "?"
}

// ---- workload -------------------------------------------------------------------------

type yielder struct {
	ctr  atomic.Uint64
	seed uint64
	prob uint64
}

func (y *yielder) maybe() {
	x := (y.ctr.Add(1) * 0x9e3779b97f4a7c15) ^ y.seed
	x ^= x >> 31
	n := 0
	if x%8 < y.prob {
		n = 1 + int(x>>8)%3
	}
	for i := 0; i < n; i++ {
		runtime.Gosched()
	}
}

type recOp struct {
	client    int
	in        input
	out       output
	call, ret int64
	panicked  string
}

func keyIdx(k string) int {
	for i, n := range keyNames {
		if n == k {
			return i
		}
	}
	return -1
}

func exec(m *mutable.CopyOnWriteMap[string, int], in input, y *yielder, viaWrapper bool) (out output) {
	k := keyNames[in.K]
	if viaWrapper {
		// the same map used through the generic fp.Map wrapper (fp.MakeMap(&cow)): the wrapper must
		// reach the map's own atomic operations
		wm := fp.MakeMap[string, int](m)
		switch in.Op {
		case opGet:
			o := wm.Get(k)
			if o.IsDefined() {
				out.Ok, out.V = true, o.Get()
			}
			return
		case opUpdated:
			wm.Updated(k, in.V)
			return
		case opRemoved:
			if in.K2 >= 0 {
				wm.Removed(k, keyNames[in.K2])
			} else {
				wm.Removed(k)
			}
			return
		case opUpdatedWith:
			wm.UpdatedWith(k, func(o fp.Option[int]) fp.Option[int] {
				y.maybe()
				switch in.Mode {
				case 0:
					if o.IsDefined() {
						return o
					}
					return fp.Some(in.V)
				case 1:
					return fp.None[int]()
				}
				if o.IsDefined() {
					return fp.Some(in.V)
				}
				return o
			})
			return
		case opSize:
			out.N = wm.Size()
			return
		case opIterator:
			it := wm.Iterator()
			for it.HasNext() {
				t := it.Next()
				i := keyIdx(t.I1)
				if i < 0 || out.Snap[i] != 0 || t.I2 == 0 {
					out.Bad = true
					continue
				}
				out.Snap[i] = t.I2
			}
			return
		}
	}
	switch in.Op {
	case opGet:
		o := m.Get(k)
		if o.IsDefined() {
			out.Ok, out.V = true, o.Get()
		}
	case opUpdated:
		m.Updated(k, in.V)
	case opRemoved:
		if in.K2 >= 0 {
			m.Removed(k, keyNames[in.K2])
		} else {
			m.Removed(k)
		}
	case opUpdatedWith:
		m.UpdatedWith(k, func(o fp.Option[int]) fp.Option[int] {
			y.maybe()
			switch in.Mode {
			case 0:
				if o.IsDefined() {
					return o
				}
				return fp.Some(in.V)
			case 1:
				return fp.None[int]()
			}
			if o.IsDefined() {
				return fp.Some(in.V)
			}
			return o
		})
	case opComputeIfAbsent:
		out.V = m.ComputeIfAbsent(k, func() int { y.maybe(); return in.V })
	case opComputeIf:
		out.V = m.ComputeIf(k, odd, func() int { y.maybe(); return in.V })
	case opSize:
		out.N = m.Size()
	case opIterator:
		it := m.Iterator()
		for it.HasNext() {
			t := it.Next()
			i := keyIdx(t.I1)
			if i < 0 || out.Snap[i] != 0 || t.I2 == 0 {
				out.Bad = true
				continue
			}
			out.Snap[i] = t.I2
		}
	}
	return
}

type plan struct {
	Wrapper  bool       `json:"via_fp_Map_wrapper,omitempty"`
	Palette  []string   `json:"op_kinds"`
	Keys     int        `json:"keys"`
	Prefill  []string   `json:"prefill"`
	Clients  [][]string `json:"clients"`
	YieldP   uint64     `json:"yield_prob_8ths"`
	prefill  []input
	clients  [][]input
	palette  []opKind
}

func genPlan(r *rand.Rand, focus int) plan {
	var p plan
	p.Keys = 1 + r.IntN(nKeys)
	if r.IntN(2) == 0 {
		p.Keys = 1
	}
	// palette: Get plus 2..3 write/observe kinds; focus modes force interesting mixes
	kinds := []opKind{opUpdated, opRemoved, opUpdatedWith, opComputeIfAbsent, opComputeIf, opSize, opIterator}
	switch focus {
	case 1: // ComputeIfAbsent only (atomicity per key)
		p.palette = []opKind{opComputeIfAbsent}
	case 2:
		p.palette = []opKind{opComputeIfAbsent, opRemoved, opGet}
	case 3:
		p.palette = []opKind{opComputeIf, opUpdated, opGet}
	default:
		r.Shuffle(len(kinds), func(a, b int) { kinds[a], kinds[b] = kinds[b], kinds[a] })
		p.palette = append([]opKind{opGet}, kinds[:2+r.IntN(2)]...)
	}
	for _, k := range p.palette {
		p.Palette = append(p.Palette, opNames[k])
	}
	sort.Strings(p.Palette)
	val := 0
	genOp := func(client int) input {
		val++
		in := input{Op: p.palette[r.IntN(len(p.palette))], K: r.IntN(p.Keys), K2: -1, V: (client+1)*1000 + val, Mode: r.IntN(3)}
		if in.Op == opRemoved && p.Keys > 1 && r.IntN(3) == 0 {
			in.K2 = r.IntN(p.Keys)
		}
		return in
	}
	if focus != 1 && r.IntN(2) == 0 {
		n := 1 + r.IntN(3)
		for i := 0; i < n; i++ {
			val++
			in := input{Op: opUpdated, K: r.IntN(p.Keys), K2: -1, V: 9000 + val}
			p.prefill = append(p.prefill, in)
			p.Prefill = append(p.Prefill, descOp(in, output{}))
		}
	}
	nc := 2 + r.IntN(3)
	for c := 0; c < nc; c++ {
		n := 3 + r.IntN(4)
		if focus == 1 {
			n = 1 + r.IntN(2)
		}
		var ops []input
		var ds []string
		for j := 0; j < n; j++ {
			in := genOp(c)
			ops = append(ops, in)
			ds = append(ds, opNames[in.Op]+"("+keyNames[in.K]+")")
		}
		p.clients = append(p.clients, ops)
		p.Clients = append(p.Clients, ds)
	}
	p.YieldP = uint64(1 + r.IntN(7))
	return p
}

func runHistory(w *vrt.W, i int) {
	r := w.Rand(i)
	focus := 0
	switch i % 8 {
	case 1:
		focus = 1
	case 3:
		focus = 2
	case 5:
		focus = 3
	}
	p := genPlan(r, focus)
	w.Begin(i, "CopyOnWriteMap")
	defer w.Done(i)
	y := &yielder{seed: r.Uint64(), prob: p.YieldP}
	mutable.VerifSetYield(func(site string) { y.maybe() })
	defer mutable.VerifSetYield(nil)

	m := &mutable.CopyOnWriteMap[string, int]{}
	viaWrapper := r.IntN(3) == 0
	p.Wrapper = viaWrapper
	if viaWrapper {
		w.Add("histories.through_fp.Map_wrapper", 1)
	}
	var clock atomic.Int64
	var mu sync.Mutex
	var recs []recOp
	record := func(client int, in input) {
		rec := recOp{client: client, in: in}
		func() {
			defer func() {
				if e := recover(); e != nil {
					rec.panicked = fmt.Sprint(e)
				}
			}()
			rec.call = clock.Add(1)
			rec.out = exec(m, in, y, viaWrapper)
			rec.ret = clock.Add(1)
		}()
		if rec.panicked != "" {
			rec.ret = clock.Add(1)
		}
		mu.Lock()
		recs = append(recs, rec)
		mu.Unlock()
	}
	for _, in := range p.prefill {
		record(0, in)
	}
	start := make(chan struct{})
	var wg sync.WaitGroup
	for c, ops := range p.clients {
		wg.Add(1)
		go func() {
			defer wg.Done()
			<-start
			for _, in := range ops {
				record(c, in)
			}
		}()
	}
	close(start)
	wg.Wait()
	// final observation by a single client: what ended up stored
	for k := 0; k < p.Keys; k++ {
		record(0, input{Op: opGet, K: k, K2: -1})
	}
	w.Add("histories", 1)
	w.Add("operations", int64(len(recs)))
	for _, k := range p.palette {
		w.Hit(opNames[k])
	}

	// ---- oracle ----
	desc := func() []string {
		sort.Slice(recs, func(a, b int) bool { return recs[a].call < recs[b].call })
		var out []string
		for _, rc := range recs {
			s := fmt.Sprintf("c%d [%d,%d] %s", rc.client, rc.call, rc.ret, descOp(rc.in, rc.out))
			if rc.panicked != "" {
				s += " PANIC: " + rc.panicked
			}
			out = append(out, s)
		}
		return out
	}
	for _, rc := range recs {
		if rc.panicked != "" {
			w.Violation(i, "CopyOnWriteMap."+opNames[rc.in.Op]+"/panic", "operation panicked under concurrency: "+rc.panicked+"\n"+strings.Join(desc(), "\n"), map[string]any{"plan": p, "history": desc()})
			return
		}
	}
	// overlap statistics (same key, overlapping intervals)
	overlap := false
	for a := 0; a < len(recs) && !overlap; a++ {
		for b := a + 1; b < len(recs); b++ {
			if recs[a].client != recs[b].client && recs[a].in.K == recs[b].in.K && recs[a].call <= recs[b].ret && recs[b].call <= recs[a].ret {
				overlap = true
				break
			}
		}
	}
	if overlap {
		w.Add("histories.with_overlap_on_a_key", 1)
	}
	// ComputeIfAbsent atomicity per key in write-free histories
	if focus == 1 {
		for k := 0; k < p.Keys; k++ {
			vals := map[int]bool{}
			final := 0
			for _, rc := range recs {
				if rc.in.K != k {
					continue
				}
				if rc.in.Op == opComputeIfAbsent {
					vals[rc.out.V] = true
				}
				if rc.in.Op == opGet {
					final = rc.out.V
				}
			}
			if len(vals) > 1 || (len(vals) == 1 && !vals[final]) {
				w.Violation(i, "CopyOnWriteMap.ComputeIfAbsent/not-atomic-per-key", fmt.Sprintf("concurrent ComputeIfAbsent(%s) calls returned %d different values, stored at the end: %d\n%s", keyNames[k], len(vals), final, strings.Join(desc(), "\n")), map[string]any{"plan": p, "history": desc()})
				return
			}
			w.Add("computeifabsent.groups_checked", 1)
		}
	}
	ops := make([]porcupine.Operation, len(recs))
	for j, rc := range recs {
		ops[j] = porcupine.Operation{ClientId: rc.client, Input: rc.in, Call: rc.call, Output: rc.out, Return: rc.ret}
	}
	res, _ := porcupine.CheckOperationsVerbose(model, ops, 10*time.Second)
	switch res {
	case porcupine.Ok:
		w.Add("porcupine.ok", 1)
	case porcupine.Unknown:
		w.Add("porcupine.unknown", 1)
		w.Add("inconclusive.checker_timeout", 1)
	case porcupine.Illegal:
		w.Add("porcupine.illegal", 1)
		via := ""
		if viaWrapper {
			via = "(via-fp.Map)"
		}
		w.Violation(i, "CopyOnWriteMap"+via+"/not-linearizable:"+strings.Join(p.Palette, "+"), "no linearization of this history exists against the sequential map model:\n"+strings.Join(desc(), "\n"), map[string]any{"plan": p, "history": desc()})
		return
	}
	if overlap {
		// fingerprint of the observed history: order of calls/returns and the outputs
		var sb strings.Builder
		for _, s := range desc() {
			sb.WriteString(s)
			sb.WriteByte('\n')
		}
		w.Distinct(sb.String())
		if w.WantSample() {
			w.Sample(map[string]any{"plan": p, "history": desc(), "verdict": "linearizable"})
		}
	}
}

func main() {
	vrt.Main(vrt.Config{
		Property: "C19",
		Batches: func(tier string) int {
			if tier == "thorough" {
				return 64
			}
			return 16
		},
		Cases: func(tier string, b int) int {
			if tier == "thorough" {
				return 6000
			}
			return 2400
		},
		RaceBatch:   func(string, int) bool { return true },
		WorkerProcs: 4,
		Run: func(w *vrt.W) {
			for i := w.From; i < w.To; i++ {
				switch i % 16 {
				case 7:
					valueKindCase(w, i)
				case 15:
					gcChurnCase(w, i)
				default:
					runHistory(w, i)
				}
			}
		},
		Rule: "case = one short concurrent history on a fresh CopyOnWriteMap: optional sequential prefill, then 2-4 goroutines released by a barrier each applying 3-6 operations drawn from a small palette (Get plus 2-3 of Updated/Removed(1-2 keys)/UpdatedWith{set-if-absent,delete,replace-if-present}/ComputeIfAbsent/ComputeIf(odd?)/Size/Iterator; every 8 cases include focused mixes: ComputeIfAbsent only, ComputeIfAbsent+Removed, ComputeIf+Updated) over 1-3 keys with unique written values; PRNG-chosen runtime.Gosched bursts at the verif hook points (entry of load/copyOnWrite) and inside the user callbacks; call/return ticks from one atomic counter at the client boundary; porcupine decides linearizability against a sequential map model (10 s timeout => inconclusive), a recovered panic or differing ComputeIfAbsent results are violations; worker built with -race. One history in three drives the map through the generic fp.Map wrapper (fp.MakeMap(&cow)). Every 16th case is a value-kind case (V = float64 with +0/-0, any / struct{any} holding uncomparable values, []int: every write must be observable bit/identity exact, concurrent writers must not panic) and every 16th a gc-churn case (a ComputeIfAbsent parked in f() while another call stores the key, GC cycles run and up to 400 unrelated writes publish new snapshots). distinct_nontrivial counts distinct observed histories (call/return order + outputs) in which two operations of different goroutines on the same key overlapped in time.",
		Assumptions: []string{
			"interleavings come from real goroutine scheduling with injected yields: sampled, not enumerated",
			"the sequential model: Get/Updated/Removed/UpdatedWith/ComputeIfAbsent/ComputeIf/Size/Iterator on a 3-key map with unique values",
		},
		Floors: func(tier string) map[string]int64 {
			return map[string]int64{"histories.with_overlap_on_a_key": 500, "porcupine.ok": 1000, "computeifabsent.groups_checked": 100, "histories.through_fp.Map_wrapper": 500, "valuekind.cases": 100, "hit.valuekind.float64": 20, "hit.valuekind.any": 20, "hit.valuekind.struct{any}": 20, "hit.valuekind.[]int": 20, "gc_churn.rounds": 100,
				"hit.ComputeIfAbsent": 100, "hit.ComputeIf": 100, "hit.Updated": 100, "hit.Removed": 100, "hit.UpdatedWith": 100, "hit.Size": 100, "hit.Iterator": 100, "hit.Get": 100}
		},
	})
}
