package main

import (
	"fmt"
	"math"
	"reflect"
	"runtime"
	"sync"

	"verif/vrt"

	"github.com/csgura/fp"
	"github.com/csgura/fp/mutable"
)

// ---- value kinds ------------------------------------------------------------------------
//
// "No update is lost" must hold for every value type, also when the new value looks like the
// old one under Go's == (+0.0 / -0.0) or cannot be compared with == at all (an interface
// holding a slice, map or func). Sequential last-write-wins with bit/identity exact
// observation, plus a small concurrent round that must not panic.

type valueKind[V any] struct {
	name string
	vals []V
	same func(a, b V) bool // exact (bit / identity) equality
}

func identical(a, b any) bool {
	va, vb := reflect.ValueOf(a), reflect.ValueOf(b)
	if !va.IsValid() || !vb.IsValid() {
		return va.IsValid() == vb.IsValid()
	}
	if va.Type() != vb.Type() {
		return false
	}
	switch va.Kind() {
	case reflect.Slice:
		return va.Len() == vb.Len() && va.Cap() == vb.Cap() && (va.Len() == 0 && va.IsNil() == vb.IsNil() || va.Pointer() == vb.Pointer())
	case reflect.Map, reflect.Func, reflect.Pointer, reflect.Chan:
		return va.Pointer() == vb.Pointer()
	case reflect.Float64:
		return math.Float64bits(va.Float()) == math.Float64bits(vb.Float())
	}
	return reflect.DeepEqual(a, b)
}

type boxed struct {
	Tag int
	Any any
}

func runValueKind[V any](w *vrt.W, i int, vk valueKind[V]) {
	r := w.Rand(i)
	site := "CopyOnWriteMap[" + vk.name + "]"
	w.Site(site)
	w.Hit("valuekind." + vk.name)
	fail := func(key, detail string) { w.Violation(i, site+"/"+key, detail, map[string]any{"value_kind": vk.name}) }
	m := &mutable.CopyOnWriteMap[string, V]{}
	wm := fp.MakeMap[string, V](m)
	ok := w.Guard(i, func() any { return map[string]any{"value_kind": vk.name} }, func() {
		// sequential: every write must be observable exactly, whatever was stored before
		var last [2]int
		has := [2]bool{}
		for step := 0; step < 24; step++ {
			k := r.IntN(2)
			key := keyNames[k]
			vi := r.IntN(len(vk.vals))
			switch r.IntN(5) {
			case 0:
				wm.Updated(key, vk.vals[vi])
			case 1:
				m.UpdatedWith(key, func(fp.Option[V]) fp.Option[V] { return fp.Some(vk.vals[vi]) })
			default:
				m.Updated(key, vk.vals[vi])
			}
			last[k], has[k] = vi, true
			for kk := 0; kk < 2; kk++ {
				got := m.Get(keyNames[kk])
				if got.IsDefined() != has[kk] {
					fail("update-lost", fmt.Sprintf("after step %d Get(%s) defined=%v, expected %v", step, keyNames[kk], got.IsDefined(), has[kk]))
					return
				}
				if has[kk] && !vk.same(got.Get(), vk.vals[last[kk]]) {
					fail("update-lost", fmt.Sprintf("after writing value #%d of kind %s to %s, Get returns a different value (%v)", last[kk], vk.name, keyNames[kk], got.Get()))
					return
				}
			}
			w.Add("valuekind.writes_observed", 1)
		}
		// concurrent: writers storing look-alike / uncomparable values must not panic, and the final
		// value must be one of the written ones
		var wg sync.WaitGroup
		var mu sync.Mutex
		panics := []string{}
		for g := 0; g < 4; g++ {
			wg.Add(1)
			seed := r.Uint64()
			go func() {
				defer wg.Done()
				defer func() {
					if e := recover(); e != nil {
						mu.Lock()
						panics = append(panics, fmt.Sprint(e))
						mu.Unlock()
					}
				}()
				x := seed
				for n := 0; n < 6; n++ {
					x = x*6364136223846793005 + 1442695040888963407
					m.Updated(keyNames[0], vk.vals[int(x>>33)%len(vk.vals)])
					runtime.Gosched()
				}
			}()
		}
		wg.Wait()
		if len(panics) > 0 {
			fail("panic", "concurrent Updated panicked: "+panics[0])
			return
		}
		got := m.Get(keyNames[0])
		found := false
		for _, v := range vk.vals {
			if got.IsDefined() && vk.same(got.Get(), v) {
				found = true
			}
		}
		if !found {
			fail("update-lost", "after concurrent writers the stored value is none of the written ones")
		}
	})
	_ = ok
}

func valueKindCase(w *vrt.W, i int) {
	w.Begin(i, "CopyOnWriteMap[value kinds]")
	defer w.Done(i)
	sa, sb := []string{"a"}, []string{"a"}
	ma := map[string]int{"x": 1}
	f1, f2 := func() int { return 1 }, func() int { return 1 }
	switch (i / 16) % 4 {
	case 0:
		runValueKind(w, i, valueKind[float64]{"float64", []float64{0.0, math.Copysign(0, -1), 1.5, -1.5, math.Inf(1), math.SmallestNonzeroFloat64}, func(a, b float64) bool { return math.Float64bits(a) == math.Float64bits(b) }})
	case 1:
		runValueKind(w, i, valueKind[any]{"any", []any{sa, sb, ma, map[string]int{"x": 1}, f1, f2, 3, "3", nil, 0.0, math.Copysign(0, -1)}, identical})
	case 2:
		runValueKind(w, i, valueKind[boxed]{"struct{any}", []boxed{{1, sa}, {1, sb}, {2, ma}, {2, nil}, {3, f1}, {3, 0.0}, {3, math.Copysign(0, -1)}}, func(a, b boxed) bool { return a.Tag == b.Tag && identical(a.Any, b.Any) }})
	case 3:
		runValueKind(w, i, valueKind[[]int]{"[]int", [][]int{nil, {}, {1}, {1}, make([]int, 0, 4)}, func(a, b []int) bool { return identical(a, b) }})
	}
	w.Add("valuekind.cases", 1)
}

// ---- snapshot-identity ABA ---------------------------------------------------------------
//
// A ComputeIfAbsent parked inside its f() while another call stores the key, a garbage
// collection runs and unrelated writes churn through many snapshots (so that the address of a
// collected snapshot can come back) must still notice that the key is taken.

func gcChurnCase(w *vrt.W, i int) {
	r := w.Rand(i)
	w.Begin(i, "CopyOnWriteMap.ComputeIfAbsent(gc-churn)")
	defer w.Done(i)
	w.Hit("gc_churn")
	m := &mutable.CopyOnWriteMap[string, int]{}
	if r.IntN(2) == 0 {
		m.Updated("seed", 1)
	}
	churn := 1 + r.IntN(400)
	gcs := 1 + r.IntN(2)
	parked := 4 + r.IntN(13)
	w.Guard(i, nil, func() {
		release := make(chan struct{})
		resA := make(chan int, parked)
		// several callers park inside f(), each having looked at a DIFFERENT snapshot (one
		// unrelated write between their starts), so that many snapshot identities are candidates
		for c := 0; c < parked; c++ {
			entered := make(chan struct{})
			own := 100 + c
			go func() {
				defer func() {
					if e := recover(); e != nil {
						resA <- -1
					}
				}()
				resA <- m.ComputeIfAbsent("k", func() int {
					close(entered)
					<-release
					return own
				})
			}()
			<-entered
			m.Updated("pad", -c)
		}
		b := m.ComputeIfAbsent("k", func() int { return 200 })
		for g := 0; g < gcs; g++ {
			runtime.GC()
		}
		for n := 0; n < churn; n++ {
			m.Updated("pad", n)
		}
		close(release)
		bad := -1
		for c := 0; c < parked; c++ {
			if a := <-resA; a != b {
				bad = a
			}
		}
		stored := m.Get("k")
		w.Add("gc_churn.rounds", 1)
		w.Add("gc_churn.parked_callers", int64(parked))
		w.Add("gc_churn.snapshots_published_while_parked", int64(churn))
		if bad != -1 || !stored.IsDefined() || stored.Get() != b {
			w.Violation(i, "CopyOnWriteMap.ComputeIfAbsent/not-atomic-per-key", fmt.Sprintf("a ComputeIfAbsent(k) parked in f() returned %d, the call that completed meanwhile returned %d, stored %v (%d parked callers, %d GC cycles, %d unrelated writes)", bad, b, stored, parked, gcs, churn), map[string]any{"parked": parked, "gcs": gcs, "churn": churn})
		}
	})
}
