// C07 — gombok @fp.Value output compiles and obeys accessor / round-trip laws.
//
// One case = one input package drawn from the struct grammar of verif/gbk. The worker runs
// the gombok binary built from the working tree on it (scratch module wired to /repo), then
// compiles the package TOGETHER WITH a law test written from the struct specs (same package:
// the private fields are the oracle) and runs it.
package main

import (
	"fmt"
	"os"
	"sort"
	"strings"
	"sync"

	"verif/gbk"
	"verif/vrt"
)

const property = "C07"

// Batch layout: the classic batches first (seed packages, probes, random packages), then - appended,
// so that the PRNG streams of the classic batches keep their numbers - the nil-able-kinds seed
// package and the annotation-combination case.
func classicBatches(tier string) int {
	if tier == "thorough" {
		return 160
	}
	return 13
}

func buildPkg(w *vrt.W, i int) *gbk.Pkg {
	r := w.Rand(i)
	name := fmt.Sprintf("pk%d", w.Batch)
	switch {
	case w.Batch == classicBatches(w.Tier):
		return gbk.NilableSeedPackage(r, name)
	case w.Batch < gbk.NumSeeds:
		return gbk.SeedPackage(r, w.Batch, name)
	case w.Batch == gbk.NumSeeds+1:
		// a small package of its own: the embedded-unexported-type shape costs an extra round while it is broken
		g := gbk.NewG(r, name, false)
		g.UnexportedEmbeddedProbe()
		return g.Pkg()
	}
	g := gbk.NewG(r, name, false)
	p := g.RandomPackage()
	if w.Batch == gbk.NumSeeds {
		g.RefusedProbe() // exercises the refusal path every run
	}
	return p
}

func position(i, n int) string {
	switch {
	case i == 0:
		return "first"
	case i == n-1:
		return "last"
	}
	return "middle"
}

func values(w *vrt.W) int {
	if w.Tier == "thorough" {
		return 96
	}
	return 64
}

func runCase(w *vrt.W, tool *gbk.Tool, i int) {
	if w.Batch == classicBatches(w.Tier)+1 {
		runCombos(w, tool, i)
		return
	}
	p := buildPkg(w, i)
	w.Begin(i, "gombok")
	var out *gbk.Outcome
	witness := func() any { return map[string]any{"input": p.Source()} }
	w.Guard(i, witness, func() {
		out = gbk.RunPackage(tool, p, gbk.Options{Prefix: "gombok/value", Seed: w.CaseSeed(i) % 1000000, Values: values(w), ValueLaws: true, KeepDir: os.Getenv("VERIF_KEEP")})
	})
	w.Done(i)
	if out == nil {
		return
	}
	record(w, i, p, out)
}

// runCombos is ONE case: every subset of gbk.ComboAnnotations (singles, pairs, triples, the full set, PRNG
// samples of larger ones) on one struct each, spread over several packages that are processed
// concurrently; compile errors are keyed over all of them by the minimal failing subsets.
func runCombos(w *vrt.W, tool *gbk.Tool, i int) {
	r := w.Rand(i)
	nPkg, extra := 6, 12
	if w.Tier == "thorough" {
		nPkg, extra = 8, 80
	}
	pkgs := gbk.ComboPackages(r, "cb", nPkg, extra)
	outs := make([]*gbk.Outcome, len(pkgs))
	w.Begin(i, "gombok")
	w.Guard(i, func() any { return map[string]any{"input": "annotation-combination packages"} }, func() {
		var wg sync.WaitGroup
		for k := range pkgs {
			wg.Add(1)
			go func(k int) {
				defer wg.Done()
				outs[k] = gbk.RunPackage(tool, pkgs[k], gbk.Options{Prefix: "gombok/value", Seed: (w.CaseSeed(i) + uint64(k)) % 1000000, Values: 24, ValueLaws: true, KeepDir: os.Getenv("VERIF_KEEP")})
			}(k)
		}
		wg.Wait()
	})
	w.Done(i)
	var errs []gbk.ComboCompileError
	owner := map[*gbk.Struct]*gbk.Pkg{}
	for k, p := range pkgs {
		for _, s := range p.Structs {
			owner[s] = p
		}
		if outs[k] == nil {
			continue
		}
		record(w, i, p, outs[k])
		errs = append(errs, outs[k].ComboErrs...)
		w.Add("combos.structs", int64(len(p.Structs)))
		for _, s := range outs[k].Tested {
			if s.Combo == nil {
				continue // the @fp.Value base of the derived declarations
			}
			w.Add("combos.structs.laws-ran", 1)
			w.Add(fmt.Sprintf("combos.laws-ran.size-%d", min(len(s.Combo.Anns), 4)), 1)
			w.Add("combos.laws-ran.layout."+s.Combo.Layout, 1)
		}
		w.Add("combos.structs.refused", int64(len(outs[k].Refused)))
	}
	failing := map[*gbk.Struct]bool{}
	for _, e := range errs {
		failing[e.Struct] = true
	}
	w.Add("combos.structs.generated-code-does-not-compile", int64(len(failing)))
	fs, explained := gbk.ComboFindings("gombok/value", errs, func(s *gbk.Struct) string { return s.Source(owner[s]) })
	w.Add("combos.failing-subsets.explained-by-a-failing-subset", int64(explained))
	w.Add("combos.failing-subsets.minimal", int64(len(fs)))
	for _, f := range fs {
		w.Violation(i, f.Key, f.Detail, f.Witness)
	}
}

func record(w *vrt.W, i int, p *gbk.Pkg, out *gbk.Outcome) {
	w.Add("packages", 1)
	w.Add("gombok_runs", int64(out.GombokRuns))
	w.Add("structs", int64(len(p.Structs)))
	w.Add("structs.tested", int64(len(out.Tested)))
	w.Add("structs.refused", int64(len(out.Refused)))
	w.Add("structs.lost_with_uncompilable_package", int64(len(out.Lost)))
	for k, v := range out.Counters {
		w.Add(k, v)
	}
	for _, n := range out.Notes {
		w.Note(n)
	}
	for _, s := range out.Tested {
		w.Distinct(s.Fingerprint())
		w.Hit("arity." + gbk.ArityClass(s.NApp()))
		for a := range s.Ann {
			w.Hit("annotation." + a)
		}
		seen := map[string]bool{}
		once := func(k string) {
			if !seen[k] {
				seen[k] = true
				w.Hit(k)
			}
		}
		for fi, f := range s.Fields {
			once("field." + f.Ty.FK + "/" + f.Vis())
			if f.Name == "_" {
				once("layout.blank-field." + position(fi, len(s.Fields)))
			}
			if !f.Embedded {
				continue
			}
			kind := f.EmbKind
			if kind == "" { // the Emb / EmbNE of the example shapes
				kind = "struct"
				if f.EmptyEmb {
					kind = "struct-empty"
				}
			}
			once("embedded." + kind)
			if f.Tag != "" {
				once("embedded-with-tag")
			}
			if !f.EmptyEmb {
				once("embedded-kept-position." + position(fi, len(s.Fields)))
				for _, o := range s.Fields {
					if !o.Embedded {
						once("embedded-kept-next-to." + o.Vis())
					}
				}
				if s.NApp() <= 21 && s.Ann["@fp.Value"] {
					once("embedded-kept-in-tuple")
				}
			}
		}
		for _, tp := range s.TParams {
			w.Hit("constraint." + tp.CK)
		}
		for _, h := range s.Hands {
			w.Hit("handwritten." + h.Kind)
		}
		if s.Derived != "" {
			w.Hit("layout.derived-type")
		}
		if s.InGroup {
			w.Hit("layout.type-group")
		}
		if len(s.Doc) > 0 {
			w.Hit("layout.doc-comment")
		}
		for fi, f := range s.Fields {
			if f.JoinNext && fi+1 < len(s.Fields) {
				once("layout.multi-name-field")
				once("layout.multi-name-field." + f.Vis() + "+" + s.Fields[fi+1].Vis())
			}
		}
	}
	for _, s := range out.Refused {
		w.Hit("refused-shape." + s.Origin)
	}
	for _, f := range out.Findings {
		w.Violation(i, f.Key, f.Detail, f.Witness)
	}
	if w.WantSample() && len(out.Tested) > 0 {
		var ss []string
		for _, s := range out.Tested {
			ss = append(ss, s.Summary())
		}
		w.Sample(map[string]any{"package": p.Name, "structs_tested": ss, "law_evaluations": out.Counters["law_evaluations"]})
	}
}

func main() {
	isWorker := false
	for _, a := range os.Args[1:] {
		if a == "-worker" || a == "--worker" {
			isWorker = true
		}
	}
	cleanup := func() {}
	for _, a := range os.Args[1:] {
		if a == "-replay" || a == "--replay" {
			isWorker = true // the replayed worker builds (and removes) its own gombok
		}
	}
	if !isWorker {
		c, err := gbk.ParentSetup()
		if err != nil {
			fmt.Println("BUILD-FAILED property=" + property + " (gombok does not build from the working tree)")
			fmt.Println(err)
			os.Exit(2)
		}
		cleanup = c
	}
	vrt.Main(vrt.Config{
		Property: property,
		Batches: func(tier string) int {
			return classicBatches(tier) + 2
		},
		Cases:    func(tier string, b int) int { return 1 },
		Parallel: 16,
		Run: func(w *vrt.W) {
			tool, done, err := gbk.WorkerTool()
			if err != nil {
				w.Note("cannot build gombok: " + err.Error())
				return
			}
			defer done()
			for i := w.From; i < w.To; i++ {
				runCase(w, tool, i)
			}
		},
		CaseCPUBudget: 600,
		Rule:          "case = one input package (1..6 struct declarations) drawn from the grammar in verif/gbk: field counts {1,2,3,8,9,20,21,22,30} (counted in applicable fields; `_`-prefixed and empty embedded fields are added on top), private / Public / _underscore / blank `_` / embedded fields (embedded: empty and non-empty struct, pointer to struct, pointer to empty struct, local and imported interface, named basic / slice / map / func type, instantiation of a local generic struct with a type or with the struct's own type parameter, generic non-struct, empty generic struct, imported struct, imported empty struct, alias of a struct / of a non-struct; 0..3 per struct in first / middle / last position, with and without struct tag), field types basic, named, imported, pointer, slice, []byte, array, map, func, chan (3 directions), interfaces (named, imported, inline, any), fp.Option/Seq/Map/Try/Either/Future/Tuple2/Func1, instantiations of local generic types (Cell[int], Cell[T], Bag[T], *Cell[T], Void[T]), aliases, anonymous structs, other annotated structs, type parameters with any / comparable / named-interface / inline method-set / named and inline type-set constraints and unused parameters, struct tags, annotation sets (@fp.Value alone and with @fp.Json/@fp.JsonTag/@fp.GenLabelled/@fp.String/constructors/PubField, stand-alone @fp.Getter/@fp.With/@fp.Builder/@fp.AllArgsConstructor/@fp.RequiredArgsConstructor), `type (...)` groups, doc comments, `a, b T` fields (any mix of private / public / underscore names), `type X Y` re-declarations, hand-written methods carrying generated names. Batches 0..2 are the shapes of the in-repo examples plus the tuple-limit and constraint shapes, batch 3 has one struct per embedded kind / position / sibling kind plus blank, multi-name and generic-instantiation fields, batch 4 adds a struct gombok refuses (error field), batch 5 is the embedded-unexported-type probe. Appended after the classic batches (13 quick / 160 thorough): batch nilable - structs with an Option / plain field of every nil-able element kind (pointer, pointer to pointer, slice, []byte, map, func, chan, interface, any, named slice, Option of Option, fp.Seq), private and public, under @fp.Value (+@fp.GenLabelled / @fp.Json / constructors / PubField accessors), under the stand-alone annotations and as instantiations of a type parameter; and ONE case annotation-combinations: every subset of {@fp.Value, @fp.Getter, @fp.With, @fp.Builder, @fp.AllArgsConstructor, @fp.RequiredArgsConstructor, @fp.GetterPubField, @fp.WithPubField, @fp.Json, @fp.GenLabelled, @fp.String, @fp.Deref} of size 1, 2 and 3, the full set and a PRNG sample of larger subsets, each on ONE struct (fields: private / public x plain / Option / pointer + an embedded pointer; singles and pairs also over the layouts only-private-Option, only-public, embedded+pointer; field names unique per struct), 545+ structs in 6 packages processed concurrently - generated code that does not compile is a violation keyed gombok/value/compile/<class>/annotations/<minimal failing subset> (a failing superset whose compiler messages are those of its failing subsets is only counted). Every law loop runs the PRNG values followed by a FORCED POOL of 24 iterations (lawrt.go lwPair): all fields nil / None / zero, Some(typed nil) + empty non-nil containers + pointer to zero, Some(empty) + empty slices with capacity, one nil element, deeper Some(...) nestings, each against a random partner, as the partner, and against the next class, then per-field random classes; payloads of WithSome / builder Some come from the same class. The expected field list of every view comes from the spec: every field except `_`-prefixed ones and embedded EMPTY structs is kept, in declaration order (typed assignments + reflected arities in the law test, and a static census of the generated views: tuple / labelled components, Unapply results, Apply parameters, AsMap / FromMap keys, Mutable twin fields, AsMutable / AsImmutable literals). gombok (built from the working tree) runs on the package; the package is compiled together with a law test written from the spec and the laws are evaluated on >=64 generated values per struct. distinct_nontrivial = number of distinct struct shapes (multiset of field kind x visibility, annotation set, arity class, constraint kinds, hand-written members) whose laws were actually evaluated (gombok accepted them and the package compiled).",
		Assumptions: []string{
			"field and type names are ordinary identifiers from a fixed pool: names whose derived method name collides with another member (build, builder, string, a private name next to a public Name), the receiver name r and names of imported packages are outside the grammar; so are fields named like a member promoted from an embedded field, and embedded types whose promoted methods carry generated names (an embedded fp.Option, an embedded @fp.Value struct)",
			"embedded kinds outside the grammar: alias of an EMPTY struct (gombok keeps it although the struct is empty; undocumented either way), sync.Mutex-like types (copylocks), the predeclared error (refused, like an error field)",
			"gombok refusing a declaration (panic such as can't summon / nil dereference, or no output for it) is not a violation; refused shapes are counted",
			"values are PRNG samples (64 per struct in quick, 96 in thorough), not all values; func values are compared by code pointer among three distinct functions per func type",
			"packages are PRNG samples of the grammar, not all packages",
			"annotation combinations: what gombok does for a subset is not assumed - the law-test expectations follow from the annotations one by one (@fp.Value / @fp.Getter -> getters of private fields, @fp.Value / @fp.With -> With + WithSome/WithNone, @fp.Value / @fp.Builder -> builder, AllArgs wins over RequiredArgs, PubField accessors for public fields, @fp.Json / @fp.GenLabelled only modify @fp.Value, @fp.String and @fp.Deref add no law); a struct none of whose annotations has anything to generate (e.g. @fp.Getter without private field, @fp.Json alone, @fp.Deref on a struct declaration) is expected to produce no output. @fp.Deref forwards only when the right-hand side is `pkg.T` or an instantiation `G[A]` (in-repo shapes MapEntry / OptionalInt, seed package 0); declarations `type D Base[int]` of a local generic struct are outside the grammar (gombok prints the uninstantiated field types there under every annotation)",
			"Option payloads: a defined Option must come back DEFINED from every round trip: Some(typed nil pointer / slice / map / func / chan) is recoverable through AsMap/FromMap by type assertion and is demanded; Some(nil interface) stores an untyped nil in the map and is not demanded (lwRecoverable)",
		},
		Floors: func(tier string) map[string]int64 {
			m := map[string]int64{"packages": 13, "structs.tested": 40, "law_evaluations": 20000, "distinct": 30,
				"hit.arity.21": 1, "hit.arity.22": 1, "hit.arity.>22": 1, "hit.handwritten.bsetter": 1, "hit.handwritten.getter": 1, "hit.handwritten.with": 1,
				"hit.annotation.@fp.GenLabelled": 1, "hit.annotation.@fp.Json": 1, "hit.annotation.@fp.Builder": 1, "hit.constraint.named-typeset": 1, "hit.constraint.inline-typeset": 1, "hit.constraint.typeset+method": 1,
				"structs.refused": 1}
			// every kind of embedded field, in every position, next to every kind of sibling; the other
			// field categories that could be dropped or mis-ordered without notice (seed package 3 has them all)
			for _, k := range gbk.EmbKinds() {
				m["hit.embedded."+k] = 1
			}
			for _, k := range []string{"embedded-kept-position.first", "embedded-kept-position.middle", "embedded-kept-position.last", "embedded-kept-next-to.private", "embedded-kept-next-to.public",
				"embedded-kept-next-to.underscore", "embedded-kept-in-tuple", "embedded-with-tag", "layout.blank-field.first", "layout.blank-field.middle", "layout.blank-field.last",
				"layout.multi-name-field.private+private", "layout.multi-name-field.public+public", "layout.multi-name-field.private+public", "layout.multi-name-field.underscore+underscore",
				"field.generic-local/private", "field.alias/private", "layout.type-group"} {
				m["hit."+k] = 1
			}
			m["census.structs"], m["census.views"] = 40, 300
			// the forced value pool reached every law of every struct, with every nil-able shape (batch "nilable"
			// has an Option / plain field of every nil-able kind): a run that did not see them is INCONCLUSIVE
			m["packages"] = 20
			m["pool.forced-iterations"] = 1000
			for _, k := range []string{"option.none", "option.some-nil-ptr", "option.some-nil-slice", "option.some-nil-map", "option.some-nil-func", "option.some-nil-chan", "option.some-nil-interface",
				"option.some-empty-slice", "option.some-empty-capacious-slice", "option.some-empty-map", "option.some-to-zero-ptr", "option.some-zero-int", "option.some-zero-string",
				"ptr.nil", "ptr.to-zero", "slice.nil", "slice.empty", "slice.empty-capacious", "slice.zero-element", "map.nil", "map.empty", "func.nil", "chan.nil", "interface.nil"} {
				m["pool."+k] = 10
			}
			m["frommap-asmap.option-some-typed-nil-demanded"], m["frommap-literal.option-some-typed-nil-demanded"] = 100, 100
			// annotation combinations: every single / pair / triple was generated and the laws ran for most of them
			m["combos.structs"], m["combos.structs.laws-ran"] = 500, 400
			m["combos.laws-ran.size-1"], m["combos.laws-ran.size-2"], m["combos.laws-ran.size-3"], m["combos.laws-ran.size-4"] = 20, 200, 180, 3
			for _, l := range gbk.ComboLayouts {
				m["combos.laws-ran.layout."+l] = 50
			}
			if tier == "thorough" {
				m["packages"], m["structs.tested"], m["law_evaluations"], m["distinct"] = 169, 400, 300000, 250
				m["census.structs"], m["census.views"] = 400, 3000
			}
			return m
		},
		Finish: func(tier string, m *vrt.Merged, cov map[string]any) {
			cleanup()
			var refused []string
			for k := range m.Counters {
				if strings.HasPrefix(k, "hit.refused-shape.") {
					refused = append(refused, strings.TrimPrefix(k, "hit.refused-shape."))
				}
			}
			sort.Strings(refused)
			cov["refused_shape_origins"] = refused
			cov["gombok_built_from"] = gbk.RepoPath()
		},
	})
}
