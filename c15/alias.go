package main

// Direct-call aliasing and concurrency parts of C15.
//
// Aliasing (sequential): MarshalJSON / UnmarshalJSON of fp.Option and fp.Unit are called
// directly, the way a hand-written MarshalJSON, a json.RawMessage field or a cache of
// encodings does. Every returned []byte is kept AS RETURNED next to a copy taken at return
// time while further Marshal calls run (same value, other values, other payload types,
// another goroutine, encoding/json over containers); at the end all kept results are compared
// with their copies. Then the caller overwrites the results it owns and marshals every value
// again. For Unmarshal the same input buffer is decoded twice, must come back unchanged, and is
// overwritten afterwards: the decoded value must not change (encoding/json: "UnmarshalJSON
// must copy the JSON data if it wishes to retain the data after returning").
//
// Concurrency: many goroutines marshal / unmarshal Options with payloads of 1 byte .. 1 MB at
// the same time (half of the batches in the -race build); every result must be the encoding
// of the goroutine's own value and decode back to it. Values are a pure function of (case
// seed, goroutine, iteration); the verdict of a correct library does not depend on timing.

import (
	"bytes"
	"encoding/json"
	"fmt"
	"math/rand/v2"
	"runtime"
	"strings"
	"sync"
	"time"

	"verif/vrt"

	"github.com/csgura/fp"
)

type aliasShape struct {
	name string
	run  func(w *vrt.W, i int, r *rand.Rand, n int, env *aliasEnv)
}

// aliasEnv: Marshal traffic of OTHER payload types, on this goroutine and on a helper goroutine
// (synchronous hand-off: deterministic, but a different goroutine and usually a different P).
type aliasEnv struct {
	req  chan uint64
	done chan struct{}
}

func noise(seed uint64) {
	r := rand.New(rand.NewPCG(seed, 0x15a11a5))
	for k := 1 + r.IntN(3); k > 0; k-- {
		switch r.IntN(5) {
		case 0:
			_, _ = fp.Some(strings.Repeat("n", 1+r.IntN(5000))).MarshalJSON()
		case 1:
			_, _ = fp.Some(int(genInt(r, 64))).MarshalJSON()
		case 2:
			_, _ = fp.Some(genPayload(r)).MarshalJSON()
		case 3:
			_, _ = json.Marshal(struct {
				A fp.Option[string]
				B []fp.Option[int]
			}{fp.Some(genStr(r)), []fp.Option[int]{fp.Some(1), fp.None[int](), fp.Some(int(genInt(r, 64)))}})
		default:
			_, _ = fp.Unit{}.MarshalJSON()
			_, _ = fp.None[string]().MarshalJSON()
		}
	}
}

func newAliasEnv() *aliasEnv {
	e := &aliasEnv{req: make(chan uint64), done: make(chan struct{})}
	go func() {
		for s := range e.req {
			noise(s)
			e.done <- struct{}{}
		}
	}()
	return e
}

func (e *aliasEnv) remote(seed uint64) { e.req <- seed; <-e.done }
func (e *aliasEnv) close()             { close(e.req) }

func scribble(b []byte) {
	for i := range b {
		b[i] = "#[{\"x\\0"[i%7]
	}
}

type keptResult struct {
	ret, cp []byte
	remake  func() ([]byte, error)
	what    string
}

// checkKept: phase 1 — nothing that ran later may have changed a returned result; phase 2 —
// the caller overwrites the slices it was handed, later Marshal calls must be unaffected.
func checkKept(w *vrt.W, i int, site, shape string, ks []keptResult) {
	for n, k := range ks {
		if !bytes.Equal(k.ret, k.cp) {
			w.Violation(i, site+"/marshal-result-changed-later", fmt.Sprintf("the []byte returned by %s (result %d of %d kept in this case, payload shape %s) was %s when it was returned and is %s after later Marshal calls ran: the result aliases storage that is reused", k.what, n, len(ks), shape, clipB(k.cp), clipB(k.ret)),
				map[string]any{"shape": shape, "result_at_return": string(k.cp), "result_later": string(k.ret), "call": k.what, "kept_results": len(ks)})
			return
		}
	}
	w.Add("alias.marshal_results_compared_later", int64(len(ks)))
	for _, k := range ks {
		scribble(k.ret)
	}
	for _, k := range ks {
		b, err := k.remake()
		if err != nil || !bytes.Equal(b, k.cp) {
			w.Violation(i, site+"/marshal-result-shared-with-later-calls", fmt.Sprintf("after the caller overwrote the slices earlier %s calls had returned to it, marshalling the same value again (payload shape %s) gives %s (err %v), expected %s: results share storage with later results", site, shape, clipB(b), err, clipB(k.cp)),
				map[string]any{"shape": shape, "want": string(k.cp), "got": string(b)})
			return
		}
	}
	w.Add("alias.marshal_results_overwritten_by_caller", int64(len(ks)))
}

func aliasOption[T any](name string, faithful bool, gen func(r *rand.Rand, nn bool) T) aliasShape {
	eqOpt := func(a, b fp.Option[T]) bool {
		if a.IsDefined() != b.IsDefined() {
			return false
		}
		return !a.IsDefined() || eqAny(a.Get(), b.Get())
	}
	genOpt := func(r *rand.Rand) fp.Option[T] {
		if r.IntN(6) == 0 {
			return fp.None[T]()
		}
		return fp.Some(gen(r, true))
	}
	type wrap struct {
		A fp.Option[T] `json:"a"`
		D []fp.Option[T]
	}
	return aliasShape{name: name, run: func(w *vrt.W, i int, r *rand.Rand, n int, env *aliasEnv) {
		var ks []keptResult
		keep := func(x fp.Option[T], what string) []byte {
			w.Site("fp.Option.MarshalJSON")
			ret, err := x.MarshalJSON()
			if err != nil {
				w.Violation(i, "fp.Option.MarshalJSON/error/"+name, fmt.Sprintf("direct MarshalJSON fails: %v", err), map[string]any{"shape": name})
				return nil
			}
			ks = append(ks, keptResult{ret: ret, cp: bytes.Clone(ret), remake: x.MarshalJSON, what: what})
			return ks[len(ks)-1].cp
		}
		for k := 0; k < n; k++ {
			x := genOpt(r)
			cp := keep(x, "Option.MarshalJSON()")
			if cp == nil {
				continue
			}
			switch r.IntN(6) {
			case 0:
				keep(x, "a second Option.MarshalJSON() of the same value")
			case 1:
				keep(genOpt(r), "Option.MarshalJSON() of another value")
			case 2:
				noise(r.Uint64())
			case 3:
				env.remote(r.Uint64())
			case 4:
				w.Site("fp.Option.json-in-container")
				_, _ = json.Marshal(wrap{A: x, D: []fp.Option[T]{x, genOpt(r), x}})
			}
			// ---- Unmarshal: same input twice, input untouched, no retained reference
			w.Site("fp.Option.UnmarshalJSON")
			in := bytes.Clone(cp)
			var y1, y2, y3, y4 fp.Option[T]
			e1 := y1.UnmarshalJSON(in)
			e2 := y2.UnmarshalJSON(in)
			e3 := y3.UnmarshalJSON(cp) // cp is never written to
			in2 := bytes.Clone(cp)
			e4 := json.Unmarshal(in2, &y4)
			wit := map[string]any{"shape": name, "input": string(cp)}
			if !bytes.Equal(in, cp) || !bytes.Equal(in2, cp) {
				w.Violation(i, "fp.Option.UnmarshalJSON/modifies-input", fmt.Sprintf("decoding changed the caller's input buffer from %s to %s / %s (payload shape %s)", clipB(cp), clipB(in), clipB(in2), name), wit)
			}
			if (e1 == nil) != (e2 == nil) || (e1 == nil) != (e3 == nil) || (e1 == nil) != (e4 == nil) || (e1 == nil && !eqOpt(y1, y2)) {
				w.Violation(i, "fp.Option.UnmarshalJSON/same-input-twice", fmt.Sprintf("decoding the same bytes %s repeatedly gives %v / %v / %v / %v (errors %v %v %v %v), payload shape %s", clipB(cp), y1, y2, y3, y4, e1, e2, e3, e4, name), wit)
				continue
			}
			scribble(in)
			scribble(in2)
			if e1 == nil && (!eqOpt(y1, y3) || !eqOpt(y2, y3) || !eqOpt(y4, y3)) {
				w.Violation(i, "fp.Option.UnmarshalJSON/retains-input", fmt.Sprintf("after the caller overwrote its input buffer the decoded value changed: now %v / %v / %v, decoded from an untouched copy of %s: %v (payload shape %s)", y1, y2, y4, clipB(cp), y3, name), wit)
			}
			w.Add("alias.unmarshal_inputs_overwritten", 1)
			if faithful && e3 == nil {
				pb := []byte("x")
				if x.IsDefined() {
					pb, _ = json.Marshal(x.Get())
				}
				if string(pb) != "null" && !eqOpt(y3, x) {
					w.Violation(i, "fp.Option.UnmarshalJSON/direct-roundtrip/"+name, fmt.Sprintf("UnmarshalJSON(x.MarshalJSON()) = %v, x = %v, bytes %s", y3, x, clipB(cp)), wit)
				}
			}
		}
		checkKept(w, i, "fp.Option.MarshalJSON", name, ks)
	}}
}

func aliasUnit() aliasShape {
	return aliasShape{name: "unit", run: func(w *vrt.W, i int, r *rand.Rand, n int, env *aliasEnv) {
		var ks []keptResult
		for k := 0; k < n; k++ {
			w.Site("fp.Unit.MarshalJSON")
			ret, err := fp.Unit{}.MarshalJSON()
			if err != nil {
				w.Violation(i, "fp.Unit.MarshalJSON/encoding", err.Error(), nil)
				continue
			}
			ks = append(ks, keptResult{ret: ret, cp: bytes.Clone(ret), remake: fp.Unit{}.MarshalJSON, what: "Unit.MarshalJSON()"})
			switch r.IntN(4) {
			case 0:
				noise(r.Uint64())
			case 1:
				env.remote(r.Uint64())
			case 2:
				_, _ = json.Marshal([]fp.Unit{{}, {}})
			}
			w.Site("fp.Unit.UnmarshalJSON")
			cp := ks[len(ks)-1].cp
			in := bytes.Clone(cp)
			var u fp.Unit
			e1 := u.UnmarshalJSON(in)
			e2 := u.UnmarshalJSON(in)
			if !bytes.Equal(in, cp) || e1 != nil || e2 != nil {
				w.Violation(i, "fp.Unit.UnmarshalJSON/modifies-input", fmt.Sprintf("decoding %s twice: errors %v %v, buffer afterwards %s", clipB(cp), e1, e2, clipB(in)), nil)
			}
			scribble(in)
			w.Add("alias.unmarshal_inputs_overwritten", 1)
		}
		checkKept(w, i, "fp.Unit.MarshalJSON", "unit", ks)
	}}
}

func genBig(r *rand.Rand) string {
	n := []int{1, 2, 17, 300, 4096, 70000, 300000}[r.IntN(7)]
	var sb strings.Builder
	for sb.Len() < n {
		sb.WriteString(strPieces[r.IntN(len(strPieces))])
		sb.WriteByte(byte(32 + r.IntN(95)))
	}
	return sb.String()
}

func genRaw(r *rand.Rand) json.RawMessage {
	switch r.IntN(5) {
	case 0:
		return json.RawMessage(`{"k":[1,2,{"z":"` + strings.Repeat("q", r.IntN(2000)) + `"}],"t":true}`)
	case 1:
		return json.RawMessage(fmt.Sprint(genInt(r, 64)))
	case 2:
		b, _ := json.Marshal(genStr(r))
		return b
	case 3:
		b, _ := json.Marshal(genPayload(r))
		return b
	}
	return json.RawMessage(`[]`)
}

// aliasShapes: every payload shape of the round-trip part plus payloads that make retention /
// reuse likely to show: large strings, raw JSON, byte slices.
func aliasShapes() []aliasShape {
	return []aliasShape{
		aliasOption("int", true, func(r *rand.Rand, nn bool) int { return int(genInt(r, 64)) }),
		aliasOption("uint8", true, func(r *rand.Rand, nn bool) uint8 { return uint8(genUint(r, 8)) }),
		aliasOption("float64", true, func(r *rand.Rand, nn bool) float64 { return genFloat(r, false) }),
		aliasOption("bool", true, func(r *rand.Rand, nn bool) bool { return r.IntN(2) == 0 }),
		aliasOption("string", true, func(r *rand.Rand, nn bool) string { return genStr(r) }),
		aliasOption("big-string", true, func(r *rand.Rand, nn bool) string { return genBig(r) }),
		aliasOption("named-string", true, func(r *rand.Rand, nn bool) MyStr { return MyStr(genStr(r)) }),
		aliasOption("[]int", true, func(r *rand.Rand, nn bool) []int {
			return genSlice(r, nn, func(r *rand.Rand) int { return int(genInt(r, 64)) })
		}),
		aliasOption("[]string", true, func(r *rand.Rand, nn bool) []string { return genSlice(r, nn, genStr) }),
		aliasOption("[]byte", true, func(r *rand.Rand, nn bool) []byte {
			return genSlice(r, nn, func(r *rand.Rand) byte { return byte(r.IntN(256)) })
		}),
		aliasOption("json.RawMessage", true, func(r *rand.Rand, nn bool) json.RawMessage { return genRaw(r) }),
		aliasOption("[3]int", true, func(r *rand.Rand, nn bool) [3]int {
			return [3]int{int(genInt(r, 64)), int(genInt(r, 64)), int(genInt(r, 64))}
		}),
		aliasOption("map[string][]string", true, func(r *rand.Rand, nn bool) map[string][]string {
			return genMap(r, nn, func(r *rand.Rand) []string { return genSlice(r, false, genStr) })
		}),
		aliasOption("*int", true, func(r *rand.Rand, nn bool) *int {
			v := int(genInt(r, 64))
			return &v
		}),
		aliasOption("time.Time", true, func(r *rand.Rand, nn bool) time.Time { return genTime(r) }),
		aliasOption("struct", true, func(r *rand.Rand, nn bool) payload { return genPayload(r) }),
		aliasOption("*struct", true, func(r *rand.Rand, nn bool) *payload {
			p := genPayload(r)
			return &p
		}),
		aliasOption("fp.Tuple2[int,string]", true, func(r *rand.Rand, nn bool) fp.Tuple2[int, string] {
			return fp.Tuple2[int, string]{I1: int(genInt(r, 64)), I2: genStr(r)}
		}),
		aliasOption("Option[Option[string]]", true, func(r *rand.Rand, nn bool) fp.Option[fp.Option[string]] {
			return fp.Some(fp.Some(genStr(r)))
		}),
		aliasOption("[]Option[int]", true, func(r *rand.Rand, nn bool) []fp.Option[int] {
			return genSlice(r, nn, func(r *rand.Rand) fp.Option[int] {
				if r.IntN(2) == 0 {
					return fp.None[int]()
				}
				return fp.Some(int(genInt(r, 64)))
			})
		}),
		aliasOption("fp.Unit", false, func(r *rand.Rand, nn bool) fp.Unit { return fp.Unit{} }),
		aliasOption("any", false, func(r *rand.Rand, nn bool) any {
			switch r.IntN(5) {
			case 0:
				return genStr(r)
			case 1:
				return genFloat(r, false)
			case 2:
				return []any{1.0, "x", nil}
			case 3:
				return map[string]any{"k": genStr(r)}
			}
			return true
		}),
		aliasUnit(),
	}
}

func runAliasCase(w *vrt.W, i int) {
	r := w.Rand(i)
	ss := aliasShapes()
	s := ss[(i+w.Batch*5)%len(ss)]
	n := 120
	if w.Tier == "thorough" {
		n = 300
	}
	w.Begin(i, "fp.Option.MarshalJSON")
	env := newAliasEnv()
	w.Guard(i, func() any { return map[string]any{"part": "direct-call aliasing", "shape": s.name} }, func() {
		s.run(w, i, r, n, env)
	})
	env.close()
	w.Done(i)
	w.Hit("alias." + s.name)
	w.Add("alias.cases", 1)
	w.Distinct(fmt.Sprintf("alias:%s:%d", s.name, w.CaseSeed(i)))
}

// ---- concurrent part ----------------------------------------------------------------------

type concPlan struct {
	Name       string `json:"name"`
	Goroutines int    `json:"goroutines"`
	Iters      int    `json:"iterations_per_goroutine"`
	MaxBytes   int    `json:"max_payload_bytes"`
	Mode       string `json:"mode"` // marshal | direct-hold | unmarshal-shared-input | container
}

var concPlans = []concPlan{
	{"json.Marshal, payloads 1 B .. 1 MB", 48, 14, 1 << 20, "marshal"},
	{"json.Marshal, small payloads, many goroutines", 128, 120, 2000, "marshal"},
	{"direct MarshalJSON, result held across a yield", 64, 40, 1 << 17, "direct-hold"},
	{"Unmarshal of one shared read-only input by all goroutines", 32, 30, 1 << 18, "unmarshal-shared-input"},
	{"struct / slice / map of Options through json.Marshal", 32, 40, 1 << 15, "container"},
}

// concValue: the payload of goroutine g at iteration k — pure ASCII without characters that
// JSON escapes, so the expected encoding is the text between two quotes (independent of
// encoding/json). The text names its owner: a foreign payload is recognisable.
func concValue(seed uint64, g, k, maxBytes int) string {
	r := rand.New(rand.NewPCG(seed, uint64(g)<<32|uint64(k)))
	sizes := []int{1, 2, 9, 64, 500, 4000, 30000, 250000, 1 << 20}
	n := sizes[r.IntN(len(sizes))]
	if n >= 250000 && r.IntN(3) != 0 {
		n = sizes[r.IntN(6)]
	}
	if n > maxBytes {
		n = 1 + r.IntN(maxBytes)
	}
	head := fmt.Sprintf("g%d.k%d.n%d:", g, k, n)
	if n <= len(head) {
		return head[:n]
	}
	b := make([]byte, n)
	copy(b, head)
	fill := byte('a' + (g*7+k)%26)
	for j := len(head); j < n; j++ {
		b[j] = fill
	}
	return string(b)
}

type concFail struct {
	key, detail string
	wit         map[string]any
}

func clipS(s string) string {
	if len(s) > 120 {
		return fmt.Sprintf("%q…(%d bytes)…%q", s[:60], len(s), s[len(s)-40:])
	}
	return fmt.Sprintf("%q", s)
}

func runConcCase(w *vrt.W, i int) {
	plan := concPlans[i%len(concPlans)]
	seed := w.CaseSeed(i)
	if runtime.GOMAXPROCS(0) < 8 {
		runtime.GOMAXPROCS(8)
	}
	w.Begin(i, "fp.Option.MarshalJSON(concurrent)")
	var mu sync.Mutex
	var fails []concFail
	var nMarshal, nUnmarshal, nBytes, maxPayload int64
	report := func(f concFail) {
		mu.Lock()
		if len(fails) < 8 {
			fails = append(fails, f)
		}
		mu.Unlock()
	}
	// the shared read-only input of mode unmarshal-shared-input
	sharedVal := concValue(seed, 9999, 0, plan.MaxBytes)
	sharedIn := []byte(`"` + sharedVal + `"`)
	sharedCopy := bytes.Clone(sharedIn)
	w.Guard(i, func() any { return plan }, func() {
		var wg sync.WaitGroup
		for g := 0; g < plan.Goroutines; g++ {
			wg.Add(1)
			go func(g int) {
				defer wg.Done()
				defer func() {
					if e := recover(); e != nil {
						report(concFail{"fp.Option.json/concurrent/panic", fmt.Sprintf("goroutine %d panicked: %v", g, e), nil})
					}
				}()
				var m, u, nb, mx int64
				for k := 0; k < plan.Iters; k++ {
					v := concValue(seed, g, k, plan.MaxBytes)
					mx = max(mx, int64(len(v)))
					want := `"` + v + `"`
					x := fp.Some(v)
					wit := map[string]any{"plan": plan, "goroutine": g, "iteration": k, "payload_bytes": len(v)}
					switch plan.Mode {
					case "marshal":
						b, err := json.Marshal(x)
						m++
						nb += int64(len(b))
						if err != nil {
							report(concFail{"fp.Option.MarshalJSON/concurrent/marshal-error", fmt.Sprintf("json.Marshal(Some(<%d-byte string of goroutine %d>)) fails while other goroutines marshal Options: %v", len(v), g, err), wit})
							continue
						}
						if string(b) != want {
							report(concFail{"fp.Option.MarshalJSON/concurrent/foreign-bytes", fmt.Sprintf("json.Marshal(Some(%s)) of goroutine %d returned %s: not the encoding of its own value", clipS(v), g, clipS(string(b))), wit})
							continue
						}
						var y fp.Option[string]
						err = json.Unmarshal(b, &y)
						u++
						if err != nil || !y.IsDefined() || y.Get() != v {
							report(concFail{"fp.Option/concurrent/json-roundtrip", fmt.Sprintf("Unmarshal(Marshal(x)) of goroutine %d: err %v, value %s, x = Some(%s)", g, err, clipS(y.OrZero()), clipS(v)), wit})
						}
					case "direct-hold":
						ret, err := x.MarshalJSON()
						m++
						nb += int64(len(ret))
						runtime.Gosched() // the result is held while the other goroutines marshal
						if k%4 == 0 {
							_, _ = fp.Some(k).MarshalJSON()
						}
						if err != nil || string(ret) != want {
							report(concFail{"fp.Option.MarshalJSON/marshal-result-changed-later", fmt.Sprintf("the []byte returned by Some(%s).MarshalJSON() to goroutine %d reads %s (err %v) after other goroutines marshalled Options: the result aliases storage that is reused", clipS(v), g, clipS(string(ret)), err), wit})
							continue
						}
						var y fp.Option[string]
						if err := y.UnmarshalJSON(ret); err != nil || y.OrZero() != v || !y.IsDefined() {
							report(concFail{"fp.Option/concurrent/json-roundtrip", fmt.Sprintf("UnmarshalJSON(MarshalJSON(x)) of goroutine %d: err %v, value %s", g, err, clipS(y.OrZero())), wit})
						}
						u++
					case "unmarshal-shared-input":
						var y fp.Option[string]
						var err error
						if k%2 == 0 {
							err = json.Unmarshal(sharedIn, &y)
						} else {
							err = y.UnmarshalJSON(sharedIn)
						}
						u++
						nb += int64(len(sharedIn))
						if err != nil || y.OrZero() != sharedVal {
							report(concFail{"fp.Option.UnmarshalJSON/concurrent/shared-input", fmt.Sprintf("decoding one read-only input from many goroutines: goroutine %d got err %v, value %s, expected %s", g, err, clipS(y.OrZero()), clipS(sharedVal)), wit})
						}
						var none fp.Option[string] = fp.Some("preset")
						if err := json.Unmarshal([]byte("null"), &none); err != nil || none.IsDefined() {
							report(concFail{"fp.Option/concurrent/json-roundtrip", fmt.Sprintf("null does not decode to None (err %v)", err), wit})
						}
					case "container":
						type box struct {
							A fp.Option[string]            `json:"a"`
							B []fp.Option[string]          `json:"b"`
							C map[string]fp.Option[string] `json:"c"`
							N fp.Option[int]               `json:"n"`
						}
						in := box{A: x, B: []fp.Option[string]{x, fp.None[string](), fp.Some("t")}, C: map[string]fp.Option[string]{"k": x}, N: fp.Some(g*1000 + k)}
						b, err := json.Marshal(in)
						m++
						nb += int64(len(b))
						wantDoc := fmt.Sprintf(`{"a":%s,"b":[%s,null,"t"],"c":{"k":%s},"n":%d}`, want, want, want, g*1000+k)
						if err != nil || string(b) != wantDoc {
							report(concFail{"fp.Option.MarshalJSON/concurrent/foreign-bytes", fmt.Sprintf("json.Marshal of a struct / slice / map of Options of goroutine %d: err %v, got %s, expected %s", g, err, clipS(string(b)), clipS(wantDoc)), wit})
							continue
						}
						var out box
						err = json.Unmarshal(b, &out)
						u++
						if err != nil || out.A.OrZero() != v || len(out.B) != 3 || out.B[0].OrZero() != v || out.B[1].IsDefined() || out.C["k"].OrZero() != v || out.N.OrZero() != g*1000+k {
							report(concFail{"fp.Option/concurrent/json-roundtrip", fmt.Sprintf("container of Options of goroutine %d does not round-trip (err %v)", g, err), wit})
						}
					}
				}
				mu.Lock()
				nMarshal, nUnmarshal, nBytes, maxPayload = nMarshal+m, nUnmarshal+u, nBytes+nb, max(maxPayload, mx)
				mu.Unlock()
			}(g)
		}
		wg.Wait()
		if !bytes.Equal(sharedIn, sharedCopy) {
			fails = append(fails, concFail{"fp.Option.UnmarshalJSON/modifies-input", "the shared input buffer was modified by Unmarshal", nil})
		}
	})
	w.Done(i)
	for _, f := range fails {
		w.Violation(i, f.key, f.detail, f.wit)
	}
	w.Hit("conc." + plan.Mode)
	w.Add("conc.cases", 1)
	w.Add("conc.goroutines", int64(plan.Goroutines))
	w.Add("conc.marshals", nMarshal)
	w.Add("conc.unmarshals", nUnmarshal)
	w.Add("conc.bytes", nBytes)
	w.Max("conc.max_goroutines", int64(plan.Goroutines))
	w.Max("conc.max_payload_bytes", maxPayload)
	if maxPayload >= 1<<20 {
		w.Add("conc.cases_with_1MB_payloads", 1)
	}
	w.Distinct(fmt.Sprintf("conc:%s:%d", plan.Mode, seed))
}
