// C15 — JSON round trips for fp.Option, fp.Unit and @fp.Json structs; the JSON of an
// @fp.Json struct is what encoding/json emits for its Mutable twin; decoding arbitrary bytes
// never panics and leaves the target unchanged on error.
//
// Batches 0..nPkg-1: one generated @fp.Json package each (grammar of verif/gbk restricted to
// faithfully encodable field types), gombok from the working tree, law test in a scratch
// module. The remaining batches run the Option / Unit part in-process against the fp
// package this worker is linked with.
package main

import (
	"bytes"
	"encoding/json"
	"fmt"
	"math"
	"math/rand/v2"
	"os"
	"reflect"
	"strings"
	"time"

	"verif/gbk"
	"verif/vrt"

	"github.com/csgura/fp"
)

const property = "C15"

func nPkg(tier string) int {
	if tier == "thorough" {
		return 64
	}
	return 8
}

func nInproc(tier string) int {
	if tier == "thorough" {
		return 16
	}
	return 4
}

// Batch layout (new families are appended so that the PRNG streams of the older batches keep
// their batch numbers): [0,nPkg) generated packages (batch 0 = seed package), then nInproc
// in-process Option/Unit batches, then 1 wide-struct seed package (21/22/23/30 fields), then
// nAlias batches of the direct-call aliasing part, then nConc concurrent batches, the first
// nConcRace of which run in the -race build of the worker.
func nAlias(tier string) int {
	if tier == "thorough" {
		return 8
	}
	return 2
}

func nConc(tier string) int {
	if tier == "thorough" {
		return 8
	}
	return 4
}

func nConcRace(tier string) int {
	if tier == "thorough" {
		return 4
	}
	return 2
}

func wideBatch(tier string) int    { return nPkg(tier) + nInproc(tier) }
func aliasBatch0(tier string) int  { return wideBatch(tier) + 1 }
func concBatch0(tier string) int   { return aliasBatch0(tier) + nAlias(tier) }
func customBatch0(tier string) int { return concBatch0(tier) + nConc(tier) }
func nBatches(tier string) int     { return customBatch0(tier) + nCustom(tier) }

// payload types with their own encodings (custom.go), appended after the concurrent batches
func nCustom(tier string) int {
	if tier == "thorough" {
		return 6
	}
	return 2
}

// ---- package part -----------------------------------------------------------------------

func runPackageCase(w *vrt.W, tool *gbk.Tool, i int) {
	r := w.Rand(i)
	name := fmt.Sprintf("jp%d", w.Batch)
	var p *gbk.Pkg
	if w.Batch == 0 {
		p = gbk.JSONSeedPackage(r, name)
	} else if w.Batch == wideBatch(w.Tier) {
		p = gbk.JSONWideSeedPackage(r, name)
	} else {
		p = gbk.NewG(r, name, true).RandomPackage()
	}
	w.Begin(i, "gombok.json")
	var out *gbk.Outcome
	values, hostile := 100, 260
	if w.Tier == "thorough" {
		values, hostile = 160, 400
	}
	w.Guard(i, func() any { return map[string]any{"input": p.Source()} }, func() {
		out = gbk.RunPackage(tool, p, gbk.Options{Prefix: "gombok/json", Seed: w.CaseSeed(i) % 1000000, Values: values, Hostile: hostile, ValueLaws: false, KeepDir: os.Getenv("VERIF_KEEP")})
	})
	w.Done(i)
	if out == nil {
		return
	}
	w.Add("packages", 1)
	w.Add("structs", int64(len(p.Structs)))
	w.Add("structs.tested", int64(len(out.Tested)))
	w.Add("structs.refused", int64(len(out.Refused)))
	w.Add("structs.lost_with_uncompilable_package", int64(len(out.Lost)))
	for k, v := range out.Counters {
		w.Add(k, v)
	}
	for _, n := range out.Notes {
		w.Note(n)
	}
	for _, s := range out.Tested {
		w.Distinct("struct:" + s.Fingerprint())
		if s.Faithful() {
			w.Add("structs.faithful", 1)
		} else {
			w.Add("structs.nopanic_only", 1)
		}
		seen := map[string]bool{}
		for _, f := range s.Fields {
			k := "field." + f.Ty.FK + "/" + f.Vis()
			if !seen[k] {
				seen[k] = true
				w.Hit(k)
			}
		}
	}
	for _, f := range out.Findings {
		w.Violation(i, f.Key, f.Detail, f.Witness)
	}
	if w.WantSample() && len(out.Tested) > 0 {
		var ss []string
		for _, s := range out.Tested {
			ss = append(ss, s.Summary())
		}
		w.Sample(map[string]any{"package": p.Name, "json_structs_tested": ss})
	}
}

// ---- in-process part: fp.Option / fp.Unit ----------------------------------------------------

// deepEq: == where comparable, element-wise for slices / maps with nil ≡ empty, pointers by
// pointee (the values compared here went through an encoder, identity cannot survive).
func deepEq(a, b reflect.Value, d int) bool {
	if !a.IsValid() || !b.IsValid() {
		return a.IsValid() == b.IsValid()
	}
	if a.Type() != b.Type() {
		return false
	}
	if d > 50 {
		return true
	}
	switch a.Kind() {
	case reflect.Bool:
		return a.Bool() == b.Bool()
	case reflect.Int, reflect.Int8, reflect.Int16, reflect.Int32, reflect.Int64:
		return a.Int() == b.Int()
	case reflect.Uint, reflect.Uint8, reflect.Uint16, reflect.Uint32, reflect.Uint64, reflect.Uintptr:
		return a.Uint() == b.Uint()
	case reflect.Float32, reflect.Float64:
		return a.Float() == b.Float()
	case reflect.String:
		return a.String() == b.String()
	case reflect.Ptr:
		if a.IsNil() || b.IsNil() {
			return a.IsNil() == b.IsNil()
		}
		return deepEq(a.Elem(), b.Elem(), d+1)
	case reflect.Interface:
		if a.IsNil() || b.IsNil() {
			return a.IsNil() == b.IsNil()
		}
		return deepEq(a.Elem(), b.Elem(), d+1)
	case reflect.Slice, reflect.Array:
		if a.Len() != b.Len() {
			return false
		}
		for i := 0; i < a.Len(); i++ {
			if !deepEq(a.Index(i), b.Index(i), d+1) {
				return false
			}
		}
		return true
	case reflect.Map:
		if a.Len() != b.Len() {
			return false
		}
		it := a.MapRange()
		for it.Next() {
			bv := b.MapIndex(it.Key())
			if !bv.IsValid() || !deepEq(it.Value(), bv, d+1) {
				return false
			}
		}
		return true
	case reflect.Struct:
		for i := 0; i < a.NumField(); i++ {
			if !deepEq(a.Field(i), b.Field(i), d+1) {
				return false
			}
		}
		return true
	}
	return false
}

func eqAny[T any](a, b T) bool {
	return deepEq(reflect.ValueOf(&a).Elem(), reflect.ValueOf(&b).Elem(), 0)
}

var strPieces = []string{"", "a", "hello world", "quote\"q", "back\\slash", "ctl\x00\x01\x1f\n\t\r\b\f", "<>&", "  ", "héllo",
	"日本語", "\U0001F600\U0001D11E", "null", "true", "123", "\x7f", "�", "{\"k\":[1]}", "'", "/", "  ", "\u0080߿ࠀ￿\U00010000\U0010FFFF"}

func genStr(r *rand.Rand) string {
	var sb strings.Builder
	for k := r.IntN(4); k > 0; k-- {
		if r.IntN(3) == 0 {
			for j := r.IntN(6); j >= 0; j-- {
				sb.WriteByte(byte(32 + r.IntN(95)))
			}
		} else {
			sb.WriteString(strPieces[r.IntN(len(strPieces))])
		}
	}
	return sb.String()
}

func genInt(r *rand.Rand, bits uint) int64 {
	min := int64(-1) << (bits - 1)
	switch r.IntN(8) {
	case 0:
		return min
	case 1:
		return ^min
	case 2:
		return 0
	case 3:
		return -1
	case 4, 5:
		return int64(r.IntN(200)) - 100
	}
	return int64(r.Uint64()) >> (64 - bits)
}

func genUint(r *rand.Rand, bits uint) uint64 {
	switch r.IntN(6) {
	case 0:
		return 0
	case 1:
		return ^uint64(0) >> (64 - bits)
	case 2, 3:
		return uint64(r.IntN(200))
	}
	return r.Uint64() >> (64 - bits)
}

func genFloat(r *rand.Rand, is32 bool) float64 {
	switch r.IntN(10) {
	case 0:
		return 0
	case 1:
		return 1.5
	case 2:
		return -2.25
	case 3:
		if is32 {
			return math.MaxFloat32
		}
		return math.MaxFloat64
	case 4:
		if is32 {
			return math.SmallestNonzeroFloat32
		}
		return math.SmallestNonzeroFloat64
	case 5:
		return 0.1
	case 6:
		return 1e21
	case 7:
		return -1e-7
	}
	for {
		var f float64
		if is32 {
			f = float64(math.Float32frombits(uint32(r.Uint64())))
		} else {
			f = math.Float64frombits(r.Uint64())
		}
		if !math.IsNaN(f) && !math.IsInf(f, 0) {
			return f
		}
	}
}

func genTime(r *rand.Rand) time.Time {
	switch r.IntN(6) {
	case 0:
		return time.Time{}
	case 1:
		return time.Unix(253402300799, 999999999).UTC()
	case 2:
		return time.Unix(0, 0).UTC()
	}
	return time.Unix(int64(r.Uint64()%253402300799), int64(r.IntN(1000000000))).UTC()
}

func genSlice[T any](r *rand.Rand, nn bool, e func(*rand.Rand) T) []T {
	switch k := r.IntN(6); {
	case k == 0 && !nn:
		return nil
	case k <= 1:
		return []T{}
	default:
		out := make([]T, 0, k)
		for i := 0; i < k-1; i++ {
			out = append(out, e(r))
		}
		return out
	}
}

func genMap[V any](r *rand.Rand, nn bool, e func(*rand.Rand) V) map[string]V {
	switch k := r.IntN(6); {
	case k == 0 && !nn:
		return nil
	case k <= 1:
		return map[string]V{}
	default:
		out := map[string]V{}
		for i := 0; i < k-1; i++ {
			out[genStr(r)] = e(r)
		}
		return out
	}
}

type MyStr string

type payload struct {
	A int
	B string
	C []float64
	T time.Time
	O fp.Option[int]      `json:"o,omitempty"`
	P *int64              `json:"p,omitempty"`
	M map[string]bool     `json:"m"`
	S fp.Seq[string]      `json:"s"`
	N fp.Option[[]string] `json:"n"`
}

func genPayload(r *rand.Rand) payload {
	p := payload{A: int(genInt(r, 64)), B: genStr(r), C: genSlice(r, false, func(r *rand.Rand) float64 { return genFloat(r, false) }), T: genTime(r),
		M: genMap(r, false, func(r *rand.Rand) bool { return r.IntN(2) == 0 }), S: genSlice(r, false, genStr)}
	if r.IntN(2) == 0 {
		p.O = fp.Some(int(genInt(r, 64)))
	}
	if r.IntN(2) == 0 {
		v := genInt(r, 64)
		p.P = &v
	}
	if r.IntN(2) == 0 {
		p.N = fp.Some(genSlice(r, true, genStr))
	}
	return p
}

type shape struct {
	name string
	run  func(w *vrt.W, i int, r *rand.Rand, values, hostile int)
}

type caseLog struct {
	shape string
	what  string
	input string
}

func clipB(b []byte) string {
	s := string(b)
	if len(s) > 300 {
		s = s[:300] + "…"
	}
	return fmt.Sprintf("%q", s)
}

// optionShape builds the checks for fp.Option[T]. gen(r, nn): nn asks for a payload that
// does not encode as null. faithful=false: only the never-panics part (e.g. T = any).
func optionShape[T any](name string, faithful bool, gen func(r *rand.Rand, nn bool) T) shape {
	type wrap struct {
		A fp.Option[T] `json:"a"`
		B fp.Option[T] `json:"b,omitempty"`
		C *fp.Option[T]
		D []fp.Option[T]
		E map[string]fp.Option[T]
	}
	eqOpt := func(a, b fp.Option[T]) bool {
		if a.IsDefined() != b.IsDefined() {
			return false
		}
		return !a.IsDefined() || eqAny(a.Get(), b.Get())
	}
	genOpt := func(r *rand.Rand, nn bool) fp.Option[T] {
		if r.IntN(3) == 0 {
			return fp.None[T]()
		}
		return fp.Some(gen(r, nn))
	}
	return shape{name: name, run: func(w *vrt.W, i int, r *rand.Rand, values, hostile int) {
		var last caseLog
		w.Guard(i, func() any { return map[string]any{"shape": last.shape, "step": last.what, "input": last.input} }, func() {
			var docs [][]byte
			for k := 0; k < values; k++ {
				x := genOpt(r, k%4 != 0) // every fourth value may carry a null-encoding payload
				last = caseLog{name, "Marshal", fmt.Sprintf("%v", x.IsDefined())}
				w.Site("fp.Option.MarshalJSON")
				b, err := json.Marshal(x)
				if err != nil {
					w.Violation(i, "fp.Option.MarshalJSON/error/"+name, fmt.Sprintf("json.Marshal(%v) fails: %v", x, err), map[string]any{"shape": name})
					continue
				}
				// None <-> null, Some(v) <-> encoding of v
				var want []byte
				if x.IsDefined() {
					want, _ = json.Marshal(x.Get())
				} else {
					want = []byte("null")
				}
				if x.IsDefined() && w.Batch >= customBatch0(w.Tier) {
					w.Add("custom.encoding_compared_with_bare_value", 1)
					if len(want) > 0 && want[0] == '"' {
						w.Add("custom.some_payload_encoded_as_json_string", 1)
					}
				}
				if !bytes.Equal(b, want) {
					w.Violation(i, "fp.Option.MarshalJSON/encoding/"+name, fmt.Sprintf("json.Marshal(option) = %s, expected the encoding of the payload (null for None): %s", clipB(b), clipB(want)), map[string]any{"shape": name, "got": string(b), "want": string(want)})
				}
				nullPayload := x.IsDefined() && string(want) == "null"
				last = caseLog{name, "Unmarshal", string(b)}
				w.Site("fp.Option.UnmarshalJSON")
				var y fp.Option[T]
				err = json.Unmarshal(b, &y)
				var y2 fp.Option[T]
				err2 := y2.UnmarshalJSON(b)
				// into a target that already holds something
				y3 := genOpt(r, true)
				err3 := json.Unmarshal(b, &y3)
				if faithful && !nullPayload {
					w.Add("roundtrip."+name, 1)
					w.Add("values_roundtripped", 1)
					if x.IsDefined() {
						w.Add("roundtrip.some", 1)
					} else {
						w.Add("roundtrip.none", 1)
					}
					if err != nil || !eqOpt(x, y) {
						w.Violation(i, "fp.Option/json-roundtrip/"+name, fmt.Sprintf("Unmarshal(Marshal(x)) = %v (err %v), x = %v, bytes %s", y, err, x, clipB(b)), map[string]any{"shape": name, "bytes": string(b)})
					}
					if err2 != nil || !eqOpt(x, y2) {
						w.Violation(i, "fp.Option.UnmarshalJSON/direct-roundtrip/"+name, fmt.Sprintf("UnmarshalJSON(Marshal(x)) = %v (err %v), x = %v, bytes %s", y2, err2, x, clipB(b)), map[string]any{"shape": name, "bytes": string(b)})
					}
					if err3 != nil || !eqOpt(x, y3) {
						// decoding into a pre-set target must still yield x (None <-> null resets it)
						w.Violation(i, "fp.Option/json-roundtrip-into-preset-target/"+name, fmt.Sprintf("Unmarshal(Marshal(x)) into a target holding another value = %v (err %v), x = %v, bytes %s", y3, err3, x, clipB(b)), map[string]any{"shape": name, "bytes": string(b)})
					}
				} else {
					w.Add("nopanic_only."+name, 1)
				}
				// inside containers
				x2 := genOpt(r, true)
				if x2.IsDefined() {
					if pb, _ := json.Marshal(x2.Get()); string(pb) == "null" {
						nullPayload = true // e.g. Option[Unit]: every payload encodes as null
					}
				}
				xp := x
				wv := wrap{A: x, B: x2, C: &xp, D: []fp.Option[T]{x, fp.None[T](), x2}, E: map[string]fp.Option[T]{"k": x, "": x2}}
				last = caseLog{name, "container", ""}
				w.Site("fp.Option.json-in-container")
				wb, err := json.Marshal(wv)
				if err != nil {
					w.Violation(i, "fp.Option.MarshalJSON/error-in-container/"+name, err.Error(), map[string]any{"shape": name})
					continue
				}
				last.input = string(wb)
				var wy wrap
				err = json.Unmarshal(wb, &wy)
				if faithful && !nullPayload {
					ok := err == nil && eqOpt(wy.A, wv.A) && eqOpt(wy.B, wv.B) && wy.C != nil && eqOpt(*wy.C, x) && len(wy.D) == 3 && eqOpt(wy.D[0], x) && eqOpt(wy.D[1], fp.None[T]()) && eqOpt(wy.D[2], x2) && len(wy.E) == 2 && eqOpt(wy.E["k"], x) && eqOpt(wy.E[""], x2)
					// a None pointee encodes as null, which decodes as a nil pointer: that is encoding/json's rule for pointers, not Option's
					if !x.IsDefined() && err == nil && wy.C == nil {
						ok = eqOpt(wy.A, wv.A) && eqOpt(wy.B, wv.B) && len(wy.D) == 3 && eqOpt(wy.D[0], x) && eqOpt(wy.D[1], fp.None[T]()) && eqOpt(wy.D[2], x2) && len(wy.E) == 2 && eqOpt(wy.E["k"], x) && eqOpt(wy.E[""], x2)
					}
					w.Add("roundtrip.in_container", 1)
					if !ok {
						w.Violation(i, "fp.Option/json-roundtrip-in-container/"+name, fmt.Sprintf("struct/slice/map/pointer of options does not round-trip (err %v): %s", err, clipB(wb)), map[string]any{"shape": name, "bytes": string(wb)})
					}
				}
				if len(docs) < 40 {
					docs = append(docs, b)
					if k%5 == 0 {
						docs = append(docs, wb)
					}
				}
			}
			// hostile inputs
			hs := gbk.LwHostile(r.IntN, docs, hostile)
			for _, h := range hs {
				for mode := 0; mode < 2; mode++ {
					sentinel := genOpt(r, true)
					target := sentinel
					last = caseLog{name, fmt.Sprintf("hostile mode %d", mode), string(h)}
					var err error
					if mode == 0 {
						w.Site("json.Unmarshal(fp.Option)")
						err = json.Unmarshal(h, &target)
					} else {
						w.Site("fp.Option.UnmarshalJSON")
						err = target.UnmarshalJSON(h)
					}
					w.Add("hostile_inputs", 1)
					if err != nil {
						w.Add("hostile_rejected", 1)
						if !eqOpt(target, sentinel) {
							w.Violation(i, "fp.Option.UnmarshalJSON/error-target-changed/"+name, fmt.Sprintf("decoding %s returned error %q but the target changed from %v to %v (mode %d: 0 = json.Unmarshal, 1 = direct UnmarshalJSON)", clipB(h), err.Error(), sentinel, target, mode), map[string]any{"shape": name, "input": string(h), "mode": mode})
						}
					} else {
						w.Add("hostile_accepted", 1)
					}
				}
			}
			var np *fp.Option[T]
			last = caseLog{name, "nil receiver", "null"}
			w.Site("fp.Option.UnmarshalJSON(nil receiver)")
			_ = np.UnmarshalJSON([]byte("null"))
		})
	}}
}

func unitShape() shape {
	type wrap struct {
		U fp.Unit `json:"u"`
		V []fp.Unit
		W map[string]fp.Unit
		P *fp.Unit
		X int
	}
	return shape{name: "unit", run: func(w *vrt.W, i int, r *rand.Rand, values, hostile int) {
		var last caseLog
		w.Guard(i, func() any { return map[string]any{"shape": "unit", "step": last.what, "input": last.input} }, func() {
			var docs [][]byte
			for k := 0; k < values/4+1; k++ {
				w.Site("fp.Unit.MarshalJSON")
				b, err := json.Marshal(fp.Unit{})
				if err != nil || string(b) != "null" {
					w.Violation(i, "fp.Unit.MarshalJSON/encoding", fmt.Sprintf("json.Marshal(Unit) = %s, %v", clipB(b), err), nil)
				}
				var u fp.Unit
				w.Site("fp.Unit.UnmarshalJSON")
				if err := json.Unmarshal(b, &u); err != nil || u != (fp.Unit{}) {
					w.Violation(i, "fp.Unit/json-roundtrip", fmt.Sprintf("Unmarshal(Marshal(Unit)) fails: %v", err), nil)
				}
				x := r.IntN(1000)
				wv := wrap{V: make([]fp.Unit, r.IntN(4)), W: map[string]fp.Unit{genStr(r): {}}, P: &fp.Unit{}, X: x}
				wb, err := json.Marshal(wv)
				last = caseLog{"unit", "container", string(wb)}
				var wy wrap
				if err == nil {
					err = json.Unmarshal(wb, &wy)
				}
				if err != nil || wy.X != x || len(wy.V) != len(wv.V) || len(wy.W) != len(wv.W) {
					w.Violation(i, "fp.Unit/json-roundtrip-in-container", fmt.Sprintf("container of Unit does not round-trip: %v %s", err, clipB(wb)), map[string]any{"bytes": string(wb)})
				}
				w.Add("roundtrip.unit", 1)
				w.Add("values_roundtripped", 1)
				docs = append(docs, b, wb)
			}
			for _, h := range gbk.LwHostile(r.IntN, docs, hostile) {
				last = caseLog{"unit", "hostile", string(h)}
				var u fp.Unit
				w.Site("json.Unmarshal(fp.Unit)")
				err := json.Unmarshal(h, &u)
				w.Site("fp.Unit.UnmarshalJSON")
				err2 := u.UnmarshalJSON(h)
				var wy wrap
				wy.X = 7
				w.Site("json.Unmarshal(struct of fp.Unit)")
				_ = json.Unmarshal(h, &wy)
				w.Add("hostile_inputs", 2)
				if err != nil {
					w.Add("hostile_rejected", 1)
				}
				if err2 != nil {
					w.Add("hostile_rejected", 1)
				}
			}
			var np *fp.Unit
			w.Site("fp.Unit.UnmarshalJSON(nil receiver)")
			_ = np.UnmarshalJSON([]byte("null"))
		})
	}}
}

func shapes() []shape {
	i64 := func(bits uint) func(r *rand.Rand, nn bool) int64 {
		return func(r *rand.Rand, nn bool) int64 { return genInt(r, bits) }
	}
	return []shape{
		optionShape("int", true, func(r *rand.Rand, nn bool) int { return int(genInt(r, 64)) }),
		optionShape("int8", true, func(r *rand.Rand, nn bool) int8 { return int8(genInt(r, 8)) }),
		optionShape("int16", true, func(r *rand.Rand, nn bool) int16 { return int16(genInt(r, 16)) }),
		optionShape("int32", true, func(r *rand.Rand, nn bool) int32 { return int32(genInt(r, 32)) }),
		optionShape("int64", true, i64(64)),
		optionShape("uint8", true, func(r *rand.Rand, nn bool) uint8 { return uint8(genUint(r, 8)) }),
		optionShape("uint16", true, func(r *rand.Rand, nn bool) uint16 { return uint16(genUint(r, 16)) }),
		optionShape("uint32", true, func(r *rand.Rand, nn bool) uint32 { return uint32(genUint(r, 32)) }),
		optionShape("uint64", true, func(r *rand.Rand, nn bool) uint64 { return genUint(r, 64) }),
		optionShape("float64", true, func(r *rand.Rand, nn bool) float64 { return genFloat(r, false) }),
		optionShape("float32", true, func(r *rand.Rand, nn bool) float32 { return float32(genFloat(r, true)) }),
		optionShape("bool", true, func(r *rand.Rand, nn bool) bool { return r.IntN(2) == 0 }),
		optionShape("string", true, func(r *rand.Rand, nn bool) string { return genStr(r) }),
		optionShape("named-string", true, func(r *rand.Rand, nn bool) MyStr { return MyStr(genStr(r)) }),
		optionShape("[]int", true, func(r *rand.Rand, nn bool) []int {
			return genSlice(r, nn, func(r *rand.Rand) int { return int(genInt(r, 64)) })
		}),
		optionShape("[]string", true, func(r *rand.Rand, nn bool) []string { return genSlice(r, nn, genStr) }),
		optionShape("[]byte", true, func(r *rand.Rand, nn bool) []byte {
			return genSlice(r, nn, func(r *rand.Rand) byte { return byte(r.IntN(256)) })
		}),
		optionShape("fp.Seq[float64]", true, func(r *rand.Rand, nn bool) fp.Seq[float64] {
			return genSlice(r, nn, func(r *rand.Rand) float64 { return genFloat(r, false) })
		}),
		optionShape("[3]int", true, func(r *rand.Rand, nn bool) [3]int {
			return [3]int{int(genInt(r, 64)), int(genInt(r, 64)), int(genInt(r, 64))}
		}),
		optionShape("map[string]int", true, func(r *rand.Rand, nn bool) map[string]int {
			return genMap(r, nn, func(r *rand.Rand) int { return int(genInt(r, 64)) })
		}),
		optionShape("map[string][]string", true, func(r *rand.Rand, nn bool) map[string][]string {
			return genMap(r, nn, func(r *rand.Rand) []string { return genSlice(r, false, genStr) })
		}),
		optionShape("*int", true, func(r *rand.Rand, nn bool) *int {
			if !nn && r.IntN(3) == 0 {
				return nil
			}
			v := int(genInt(r, 64))
			return &v
		}),
		optionShape("time.Time", true, func(r *rand.Rand, nn bool) time.Time { return genTime(r) }),
		optionShape("time.Duration", true, func(r *rand.Rand, nn bool) time.Duration { return time.Duration(genInt(r, 64)) }),
		optionShape("struct", true, func(r *rand.Rand, nn bool) payload { return genPayload(r) }),
		optionShape("*struct", true, func(r *rand.Rand, nn bool) *payload {
			if !nn && r.IntN(3) == 0 {
				return nil
			}
			p := genPayload(r)
			return &p
		}),
		optionShape("fp.Tuple2[int,string]", true, func(r *rand.Rand, nn bool) fp.Tuple2[int, string] {
			return fp.Tuple2[int, string]{I1: int(genInt(r, 64)), I2: genStr(r)}
		}),
		optionShape("Option[int]", true, func(r *rand.Rand, nn bool) fp.Option[int] {
			if !nn && r.IntN(3) == 0 {
				return fp.None[int]()
			}
			return fp.Some(int(genInt(r, 64)))
		}),
		optionShape("Option[Option[string]]", true, func(r *rand.Rand, nn bool) fp.Option[fp.Option[string]] {
			if !nn && r.IntN(3) == 0 {
				if r.IntN(2) == 0 {
					return fp.None[fp.Option[string]]()
				}
				return fp.Some(fp.None[string]())
			}
			return fp.Some(fp.Some(genStr(r)))
		}),
		optionShape("[]Option[int]", true, func(r *rand.Rand, nn bool) []fp.Option[int] {
			return genSlice(r, nn, func(r *rand.Rand) fp.Option[int] {
				if r.IntN(2) == 0 {
					return fp.None[int]()
				}
				return fp.Some(int(genInt(r, 64)))
			})
		}),
		optionShape("fp.Unit", true, func(r *rand.Rand, nn bool) fp.Unit { return fp.Unit{} }),
		optionShape("any", false, func(r *rand.Rand, nn bool) any {
			switch r.IntN(7) {
			case 0:
				if !nn {
					return nil
				}
				return 1
			case 1:
				return genStr(r)
			case 2:
				return genFloat(r, false)
			case 3:
				return []any{1, "x", nil}
			case 4:
				return map[string]any{"k": genStr(r)}
			case 5:
				return genInt(r, 64)
			}
			return true
		}),
		unitShape(),
	}
}

func runInprocCase(w *vrt.W, i int) {
	r := w.Rand(i)
	ss := shapes()
	if w.Batch >= customBatch0(w.Tier) {
		ss = customShapes()
		if i == w.From {
			if msg := selfCheckCustom(); msg != "" {
				w.Note("custom payload self-check failed (harness): " + msg)
				return
			}
		}
	}
	s := ss[(i+w.Batch*7)%len(ss)]
	values, hostile := 150, 300
	if w.Tier == "thorough" {
		values, hostile = 400, 800
	}
	w.Begin(i, "fp.Option.json")
	s.run(w, i, r, values, hostile)
	w.Done(i)
	w.Hit("shape." + s.name)
	w.Distinct(fmt.Sprintf("inproc:%s:%d", s.name, w.CaseSeed(i)))
}

func main() {
	isWorker := false
	for _, a := range os.Args[1:] {
		if a == "-worker" || a == "--worker" {
			isWorker = true
		}
	}
	cleanup := func() {}
	for _, a := range os.Args[1:] {
		if a == "-replay" || a == "--replay" {
			isWorker = true // the replayed worker builds (and removes) its own gombok
		}
	}
	if !isWorker {
		c, err := gbk.ParentSetup()
		if err != nil {
			fmt.Println("BUILD-FAILED property=" + property + " (gombok does not build from the working tree)")
			fmt.Println(err)
			os.Exit(2)
		}
		cleanup = c
	}
	nShapes := len(shapes())
	vrt.Main(vrt.Config{
		Property: property,
		Batches:  nBatches,
		Cases: func(tier string, b int) int {
			switch {
			case b < nPkg(tier) || b == wideBatch(tier):
				return 1
			case b >= customBatch0(tier):
				return len(customShapes()) // every such batch visits every custom-encoding shape once
			case b >= concBatch0(tier):
				return len(concPlans)
			case b >= aliasBatch0(tier):
				return len(aliasShapes()) // every aliasing batch visits every shape once
			}
			return nShapes // every in-process batch visits every shape once
		},
		RaceBatch: func(tier string, b int) bool {
			return b >= concBatch0(tier) && b < concBatch0(tier)+nConcRace(tier)
		},
		Parallel:    16,
		WorkerProcs: 4,
		Run: func(w *vrt.W) {
			switch {
			case w.Batch >= customBatch0(w.Tier):
				for i := w.From; i < w.To; i++ {
					runInprocCase(w, i)
				}
				return
			case w.Batch >= concBatch0(w.Tier):
				for i := w.From; i < w.To; i++ {
					runConcCase(w, i)
				}
				return
			case w.Batch >= aliasBatch0(w.Tier):
				for i := w.From; i < w.To; i++ {
					runAliasCase(w, i)
				}
				return
			case w.Batch >= nPkg(w.Tier) && w.Batch != wideBatch(w.Tier):
				for i := w.From; i < w.To; i++ {
					runInprocCase(w, i)
				}
				return
			}
			tool, done, err := gbk.WorkerTool()
			if err != nil {
				w.Note("cannot build gombok: " + err.Error())
				return
			}
			defer done()
			for i := w.From; i < w.To; i++ {
				runPackageCase(w, tool, i)
			}
		},
		CaseCPUBudget: 600,
		Rule:          "two kinds of cases. (a) in-process: one case = one payload type shape T (ints of every width, floats, bool, escape-heavy valid-UTF-8 strings, slices, []byte, arrays, maps, pointers, time.Time in UTC, structs, tuples, nested Options, Unit, any) with 150 (thorough 400) generated fp.Option[T] values: Marshal must give the payload's encoding / null, Unmarshal(Marshal(x)) must equal x (stand-alone, into a pre-set target, and inside struct/slice/map/pointer containers) whenever the payload's encoding is faithful and not null; then 300 (800) hostile inputs (classics, PRNG bytes, truncated / bit-flipped / type-swapped / number-inflated / structurally damaged mutations of the valid documents, 10001-deep nesting) go through json.Unmarshal and direct UnmarshalJSON: no panic, and on error the target equals the sentinel it held. (b) one case = one generated package of @fp.Value @fp.Json structs (grammar of C07 restricted to faithfully encodable field types, plus a few any / Option[*T] / Option[[]T] fields used for the never-panics part only): gombok from the working tree, then a law test in the same package checks per struct on 100 (160) values: Marshal(x) == Marshal(x.AsMutable()) == Marshal(&x) == x.MarshalJSON() byte for byte, the reflected field names / types / tags of the Mutable twin follow gombok's rule, Unmarshal(Marshal(x)) == x field by field (nil ≡ empty), and 260 (400) hostile inputs per struct never panic and leave the target unchanged on error. Every generated struct is additionally compared with an INDEPENDENT reference of its JSON object written from the spec (one member per non-underscore field, declaration order, key = copied json tag or json:\"<field>\", omitempty exactly for nilable / Option kinds, member value = the field's own encoding; nothing of AsMutable is consulted) and decoded from that reference document; 25 % extra values per struct carry a non-zero, non-empty value in every field; a second seed package holds @fp.Json structs with 21, 22, 23 and 30 fields. (c) direct-call aliasing: MarshalJSON / UnmarshalJSON of Option, Unit and the generated structs are called directly, every returned []byte is kept as returned next to a copy while later Marshal calls run (same value, other values, other payload types, a helper goroutine, encoding/json over containers) and re-compared at the end, then overwritten by the caller and every value marshalled again; the same input buffer is decoded twice, must come back unchanged, is overwritten afterwards and the decoded value must not change. (d) concurrent: 32..128 goroutines marshal / unmarshal Options whose payloads (1 B .. 1 MB, pure function of case seed, goroutine, iteration, text naming its owner) have an encoding known without encoding/json; every result must be the goroutine's own encoding and decode back; half of these batches run in the -race build (race reports inside csgura/fp are violations). distinct_nontrivial = distinct @fp.Json struct shapes whose laws ran + distinct (payload shape, case seed) pairs of the in-process and aliasing parts + distinct (plan, case seed) pairs of the concurrent part. (e) payloads with their own encoding (2 / 6 batches at the end, custom.go): part (a) again for 37 payload shapes: named int / int8 / uint16 / uint64 / uintptr / bool / string / float64 types implementing encoding.TextMarshaler+TextUnmarshaler only, json.Marshaler+Unmarshaler only, both, fmt.Stringer only, MarshalJSON or the text methods on the pointer receiver only, pointers to such types, named struct / slice / map types with MarshalJSON or MarshalText, slices of them, time.Month, slog.Level, net.IP, netip.Addr, *big.Int, json.Number, maps keyed by text-encoded / both / Stringer-only / netip.Addr keys, Option of them, and Option[any] holding any of them; json.Marshal(Some(v)) must be byte-identical to json.Marshal(v) for all of them, and the round trips of (a) must hold wherever the bare value round-trips through encoding/json (all but pointer-receiver text methods on a value, string-kind map keys with MarshalText, and any).",
		Assumptions: []string{
			"payload values are valid UTF-8 strings, finite floats, UTC times without monotonic reading in years 1..9999; other values are not faithfully encodable by encoding/json itself",
			"Some(v) with a null-encoding payload (nil pointer/slice/map, None, Unit, nil interface) and any-typed payloads are only used for the never-panics part",
			"for named or alias field types whose underlying type is nilable (any, fp.Seq, named interfaces, named strings) the documented tag rule does not say whether omitempty is added; both spellings are accepted and the observed choice is counted",
			"'unchanged on error' is decided on the struct value itself (scalars, pointer/map/slice identities); storage reachable through maps/slices/pointers shared with the previous value is checked separately under its own key",
			"hostile inputs and values are PRNG samples",
			"a []byte returned by MarshalJSON belongs to the caller (it may keep it and write to it) and an input passed to UnmarshalJSON belongs to the caller (it may be reused after the call): the unchanged library returns fresh slices and copies what it decodes, which is what encoding/json documents for Unmarshaler; both directions are checked under their own keys (marshal-result-changed-later, marshal-result-shared-with-later-calls, retains-input, modifies-input)",
			"the concurrent part reports content mismatches and race-detector reports only; goroutine scheduling decides how often a broken library is caught, never whether a correct one passes",
		},
		Floors: func(tier string) map[string]int64 {
			m := map[string]int64{"packages": 8, "structs.tested": 20, "structs.faithful": 12, "values_roundtripped": 10000, "hostile_inputs": 30000, "hostile_rejected": 10000,
				"json.roundtrip.struct-values": 1500, "json.hostile.inputs": 8000, "json.hostile.rejected": 3000, "roundtrip.some": 3000, "roundtrip.none": 1500}
			for _, s := range shapes() {
				m["hit.shape."+s.name] = 1
			}
			// payload types with custom encodings: every shape visited, faithful ones really round-tripped
			for _, s := range customShapes() {
				m["hit.shape."+s.name] = 2
				if s.name != "named-int(pointer-receiver-text)" && s.name != "any(custom-encodings)" && s.name != "map[named-string(text)]named-int(text)" {
					m["roundtrip."+s.name] = 100
				} else {
					m["nopanic_only."+s.name] = 100
				}
			}
			m["custom.encoding_compared_with_bare_value"] = 5000
			// direct-call aliasing part, concurrent part, wide structs and the independent reference object
			for _, s := range aliasShapes() {
				m["hit.alias."+s.name] = 1
			}
			for _, p := range concPlans {
				m["hit.conc."+p.Mode] = 1
			}
			m["alias.marshal_results_compared_later"], m["alias.marshal_results_overwritten_by_caller"], m["alias.unmarshal_inputs_overwritten"] = 4000, 4000, 4000
			m["json.alias.marshal-results-kept"], m["json.alias.unmarshal-inputs-overwritten"] = 2000, 1000
			m["conc.marshals"], m["conc.unmarshals"], m["conc.cases_with_1MB_payloads"], m["conc.goroutines"] = 20000, 20000, 1, 500
			m["json.reference-object.struct-values"], m["json.reference-decode.struct-values"] = 1500, 1000
			for _, n := range gbk.WideFieldCounts {
				m[fmt.Sprintf("json.wide.fields-%d.all-nonzero-values", n)] = 20
			}
			if tier == "thorough" {
				m["packages"], m["structs.tested"], m["structs.faithful"] = 64, 180, 100
			}
			return m
		},
		Finish: func(tier string, m *vrt.Merged, cov map[string]any) {
			cleanup()
			cov["gombok_built_from"] = gbk.RepoPath()
		},
	})
}
