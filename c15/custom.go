package main

import (
	"encoding/json"
	"errors"
	"fmt"
	"log/slog"
	"math/big"
	"math/rand/v2"
	"net"
	"net/netip"
	"sort"
	"strconv"
	"strings"
	"time"

	"github.com/csgura/fp"
)

// Payload types that bring their own encoding (batches appended after the concurrent ones).
//
// encoding/json asks a value for its encoding in this order: json.Marshaler, then
// encoding.TextMarshaler (a JSON string), then the kind of the type; map keys of a non-string
// kind use TextMarshaler (never MarshalJSON). "Some(v) <-> encoding of v" must hold whatever
// way v is encoded: the reference for json.Marshal(Some(v)) is json.Marshal(v), byte for byte,
// and decoding must give v back whenever json.Unmarshal(json.Marshal(v)) gives v back for the
// bare value. The types below are named int / uint / bool / string / struct / slice / map types
// with every combination of the interfaces (text only, JSON only, both, fmt.Stringer only,
// value or pointer receivers), standard-library types of the same kinds, such values inside
// Option[any], and maps keyed by them. Every encoding is total and injective, so the
// payloads are faithfully encodable; Unmarshal methods assign only on success.

// ---- named scalar types -----------------------------------------------------------------

// text only (the usual enum idiom), int kind
type txColor int

func (c txColor) MarshalText() ([]byte, error) { return []byte("color:" + strconv.Itoa(int(c))), nil }
func (c *txColor) UnmarshalText(b []byte) error {
	s, ok := strings.CutPrefix(string(b), "color:")
	if !ok {
		return errors.New("txColor: no color: prefix")
	}
	n, err := strconv.Atoi(s)
	if err != nil {
		return err
	}
	*c = txColor(n)
	return nil
}

// text only, bool kind
type txFlag bool

func (f txFlag) MarshalText() ([]byte, error) {
	if f {
		return []byte("on"), nil
	}
	return []byte("off"), nil
}
func (f *txFlag) UnmarshalText(b []byte) error {
	switch string(b) {
	case "on":
		*f = true
	case "off":
		*f = false
	default:
		return errors.New("txFlag: want on/off")
	}
	return nil
}

// text only, unsigned kinds
type txHex uint16

func (h txHex) MarshalText() ([]byte, error) { return []byte(fmt.Sprintf("0x%04x", uint16(h))), nil }
func (h *txHex) UnmarshalText(b []byte) error {
	s, ok := strings.CutPrefix(string(b), "0x")
	if !ok || len(s) != 4 {
		return errors.New("txHex: want 0xhhhh")
	}
	n, err := strconv.ParseUint(s, 16, 16)
	if err != nil {
		return err
	}
	*h = txHex(n)
	return nil
}

type txU64 uint64

func (h txU64) MarshalText() ([]byte, error) {
	return []byte("u" + strconv.FormatUint(uint64(h), 10)), nil
}
func (h *txU64) UnmarshalText(b []byte) error {
	s, ok := strings.CutPrefix(string(b), "u")
	if !ok {
		return errors.New("txU64: want u<digits>")
	}
	n, err := strconv.ParseUint(s, 10, 64)
	if err != nil {
		return err
	}
	*h = txU64(n)
	return nil
}

type txPtrSize uintptr

func (h txPtrSize) MarshalText() ([]byte, error) {
	return []byte("p" + strconv.FormatUint(uint64(h), 10)), nil
}
func (h *txPtrSize) UnmarshalText(b []byte) error {
	s, ok := strings.CutPrefix(string(b), "p")
	if !ok {
		return errors.New("txPtrSize: want p<digits>")
	}
	n, err := strconv.ParseUint(s, 10, 64)
	if err != nil {
		return err
	}
	*h = txPtrSize(n)
	return nil
}

type txI8 int8

func (c txI8) MarshalText() ([]byte, error) { return []byte("i8:" + strconv.Itoa(int(c))), nil }
func (c *txI8) UnmarshalText(b []byte) error {
	s, ok := strings.CutPrefix(string(b), "i8:")
	if !ok {
		return errors.New("txI8: no prefix")
	}
	n, err := strconv.ParseInt(s, 10, 8)
	if err != nil {
		return err
	}
	*c = txI8(n)
	return nil
}

// text only, string kind
type txWord string

func (s txWord) MarshalText() ([]byte, error) { return []byte("w:" + string(s)), nil }
func (s *txWord) UnmarshalText(b []byte) error {
	t, ok := strings.CutPrefix(string(b), "w:")
	if !ok {
		return errors.New("txWord: no w: prefix")
	}
	*s = txWord(t)
	return nil
}

// text only, float kind
type txRatio float64

func (f txRatio) MarshalText() ([]byte, error) {
	return []byte("r" + strconv.FormatFloat(float64(f), 'g', -1, 64)), nil
}
func (f *txRatio) UnmarshalText(b []byte) error {
	s, ok := strings.CutPrefix(string(b), "r")
	if !ok {
		return errors.New("txRatio: no r prefix")
	}
	v, err := strconv.ParseFloat(s, 64)
	if err != nil {
		return err
	}
	*f = txRatio(v)
	return nil
}

// JSON only
type jsInt int

func (n jsInt) MarshalJSON() ([]byte, error) {
	return []byte(`{"n":` + strconv.Itoa(int(n)) + `}`), nil
}
func (n *jsInt) UnmarshalJSON(b []byte) error {
	var t struct {
		N *int `json:"n"`
	}
	if err := json.Unmarshal(b, &t); err != nil {
		return err
	}
	if t.N == nil {
		return errors.New("jsInt: no n")
	}
	*n = jsInt(*t.N)
	return nil
}

type jsBool bool

func (n jsBool) MarshalJSON() ([]byte, error) {
	if n {
		return []byte(`"yes"`), nil
	}
	return []byte(`"no"`), nil
}
func (n *jsBool) UnmarshalJSON(b []byte) error {
	switch string(b) {
	case `"yes"`:
		*n = true
	case `"no"`:
		*n = false
	default:
		return errors.New("jsBool: want yes/no")
	}
	return nil
}

type jsUint uint32

func (n jsUint) MarshalJSON() ([]byte, error) {
	return []byte(`[` + strconv.FormatUint(uint64(n), 10) + `]`), nil
}
func (n *jsUint) UnmarshalJSON(b []byte) error {
	var t []uint32
	if err := json.Unmarshal(b, &t); err != nil {
		return err
	}
	if len(t) != 1 {
		return errors.New("jsUint: want [n]")
	}
	*n = jsUint(t[0])
	return nil
}

// both: MarshalJSON decides for values, MarshalText for map keys
type bothInt int

func (n bothInt) MarshalJSON() ([]byte, error) { return []byte(`"J` + strconv.Itoa(int(n)) + `"`), nil }
func (n *bothInt) UnmarshalJSON(b []byte) error {
	var s string
	if err := json.Unmarshal(b, &s); err != nil {
		return err
	}
	// encoding/json hands a map KEY (written with MarshalText: T<n>) to UnmarshalJSON when the key
	// type has both interfaces, so the decoder takes both spellings
	t, ok := strings.CutPrefix(s, "J")
	if !ok {
		t, ok = strings.CutPrefix(s, "T")
	}
	if !ok {
		return errors.New("bothInt: no J/T prefix")
	}
	v, err := strconv.Atoi(t)
	if err != nil {
		return err
	}
	*n = bothInt(v)
	return nil
}
func (n bothInt) MarshalText() ([]byte, error) { return []byte("T" + strconv.Itoa(int(n))), nil }
func (n *bothInt) UnmarshalText(b []byte) error {
	t, ok := strings.CutPrefix(string(b), "T")
	if !ok {
		return errors.New("bothInt: no T prefix")
	}
	v, err := strconv.Atoi(t)
	if err != nil {
		return err
	}
	*n = bothInt(v)
	return nil
}

// fmt.Stringer only: no effect on JSON
type strOnly int

func (n strOnly) String() string { return "strOnly(" + strconv.Itoa(int(n)) + ")" }

type strOnlyBool bool

func (n strOnlyBool) String() string { return "flag!" }

// pointer receivers. MarshalJSON on the pointer only, no Unmarshaler: a bare (non-addressable)
// value is encoded by its kind, which is also what decodes: faithful
type ptrJS int

func (n *ptrJS) MarshalJSON() ([]byte, error) { return []byte(`"p` + strconv.Itoa(int(*n)) + `"`), nil }

// text methods on the pointer only: a bare value encodes as a number, the decoder (which has
// a pointer) wants the text form - not faithful for the bare value either: encoding identity
// and never-panics only
type ptrTx int

func (n *ptrTx) MarshalText() ([]byte, error) { return []byte("pt" + strconv.Itoa(int(*n))), nil }
func (n *ptrTx) UnmarshalText(b []byte) error {
	t, ok := strings.CutPrefix(string(b), "pt")
	if !ok {
		return errors.New("ptrTx: no pt prefix")
	}
	v, err := strconv.Atoi(t)
	if err != nil {
		return err
	}
	*n = ptrTx(v)
	return nil
}

// ---- named composite types with MarshalJSON ------------------------------------------------

type jsPoint struct{ X, Y int }

func (p jsPoint) MarshalJSON() ([]byte, error) {
	return []byte("[" + strconv.Itoa(p.X) + "," + strconv.Itoa(p.Y) + "]"), nil
}
func (p *jsPoint) UnmarshalJSON(b []byte) error {
	var t []int
	if err := json.Unmarshal(b, &t); err != nil {
		return err
	}
	if len(t) != 2 {
		return errors.New("jsPoint: want [x,y]")
	}
	*p = jsPoint{t[0], t[1]}
	return nil
}

// struct with text encoding only
type txVersion struct{ Major, Minor uint8 }

func (v txVersion) MarshalText() ([]byte, error) {
	return []byte(fmt.Sprintf("v%d.%d", v.Major, v.Minor)), nil
}
func (v *txVersion) UnmarshalText(b []byte) error {
	var ma, mi uint8
	if n, err := fmt.Sscanf(string(b), "v%d.%d", &ma, &mi); err != nil || n != 2 || fmt.Sprintf("v%d.%d", ma, mi) != string(b) {
		return errors.New("txVersion: want v<major>.<minor>")
	}
	*v = txVersion{ma, mi}
	return nil
}

type jsCSV []int

func (c jsCSV) MarshalJSON() ([]byte, error) {
	parts := make([]string, len(c))
	for i, v := range c {
		parts[i] = strconv.Itoa(v)
	}
	return []byte(`"` + strings.Join(parts, ",") + `"`), nil
}
func (c *jsCSV) UnmarshalJSON(b []byte) error {
	var s string
	if err := json.Unmarshal(b, &s); err != nil {
		return err
	}
	out := jsCSV{}
	if s != "" {
		for _, p := range strings.Split(s, ",") {
			v, err := strconv.Atoi(p)
			if err != nil {
				return err
			}
			out = append(out, v)
		}
	}
	*c = out
	return nil
}

type jsPairs map[string]int

type jsPair struct {
	K string `json:"k"`
	V int    `json:"v"`
}

func (m jsPairs) MarshalJSON() ([]byte, error) {
	ps := make([]jsPair, 0, len(m))
	for k, v := range m {
		ps = append(ps, jsPair{k, v})
	}
	sort.Slice(ps, func(i, j int) bool { return ps[i].K < ps[j].K })
	return json.Marshal(ps)
}
func (m *jsPairs) UnmarshalJSON(b []byte) error {
	var ps []jsPair
	if err := json.Unmarshal(b, &ps); err != nil {
		return err
	}
	if ps == nil {
		return errors.New("jsPairs: want an array")
	}
	out := jsPairs{}
	for _, p := range ps {
		out[p.K] = p.V
	}
	*m = out
	return nil
}

// ---- generators ---------------------------------------------------------------------------

func genIP(r *rand.Rand) net.IP {
	switch r.IntN(5) {
	case 0:
		return net.IPv4(byte(r.IntN(256)), byte(r.IntN(256)), byte(r.IntN(256)), byte(r.IntN(256))) // 16-byte form, which is what decoding yields
	case 1:
		return append(net.IP(nil), net.IPv6loopback...)
	case 2:
		return net.IPv4(0, 0, 0, 0)
	}
	ip := make(net.IP, 16)
	for i := range ip {
		ip[i] = byte(r.IntN(256))
	}
	ip[0] = 0x20 // never an IPv4-mapped address (those are written in dotted form and read back as such)
	return ip
}

func genAddr(r *rand.Rand) netip.Addr {
	switch r.IntN(4) {
	case 0:
		return netip.AddrFrom4([4]byte{byte(r.IntN(256)), byte(r.IntN(256)), byte(r.IntN(256)), byte(r.IntN(256))})
	case 1:
		return netip.IPv6Unspecified()
	}
	var a [16]byte
	for i := range a {
		a[i] = byte(r.IntN(256))
	}
	a[0] = 0x20
	return netip.AddrFrom16(a)
}

func genBigInt(r *rand.Rand) *big.Int {
	switch r.IntN(5) {
	case 0:
		return big.NewInt(0)
	case 1:
		return big.NewInt(genInt(r, 64))
	}
	b := new(big.Int).SetUint64(r.Uint64())
	b.Lsh(b, uint(r.IntN(200)))
	b.Add(b, new(big.Int).SetUint64(r.Uint64()))
	if r.IntN(2) == 0 {
		b.Neg(b)
	}
	return b
}

func genNumber(r *rand.Rand) json.Number {
	switch r.IntN(6) {
	case 0:
		return json.Number([]string{"0", "-0", "1.5", "1e10", "-2.5E-3", "123456789012345678901234567890", "0.1"}[r.IntN(7)])
	}
	return json.Number(strconv.FormatInt(genInt(r, 64), 10))
}

func genMapK[K comparable, V any](r *rand.Rand, nn bool, k func(*rand.Rand) K, e func(*rand.Rand) V) map[K]V {
	switch n := r.IntN(6); {
	case n == 0 && !nn:
		return nil
	case n <= 1:
		return map[K]V{}
	default:
		out := map[K]V{}
		for i := 0; i < n-1; i++ {
			out[k(r)] = e(r)
		}
		return out
	}
}

// customAny: a value of one of the custom-encoding types as the dynamic value of Option[any]
func customAny(r *rand.Rand) any {
	switch r.IntN(16) {
	case 0:
		return txColor(genInt(r, 64))
	case 1:
		return txFlag(r.IntN(2) == 0)
	case 2:
		return txHex(genUint(r, 16))
	case 3:
		return txWord(genStr(r))
	case 4:
		return jsInt(genInt(r, 64))
	case 5:
		return bothInt(genInt(r, 64))
	case 6:
		return strOnly(genInt(r, 64))
	case 7:
		return jsPoint{int(genInt(r, 64)), int(genInt(r, 64))}
	case 8:
		return jsCSV(genSlice(r, true, func(r *rand.Rand) int { return int(genInt(r, 64)) }))
	case 9:
		return time.Duration(genInt(r, 64))
	case 10:
		return genAddr(r)
	case 11:
		return genBigInt(r)
	case 12:
		return txU64(genUint(r, 64))
	case 13:
		return txI8(genInt(r, 8))
	case 14:
		return map[txColor]int{txColor(genInt(r, 64)): 1}
	}
	return slog.Level(r.IntN(41) - 20)
}

func customShapes() []shape {
	gi := func(r *rand.Rand) int { return int(genInt(r, 64)) }
	return []shape{
		optionShape("named-int(text)", true, func(r *rand.Rand, nn bool) txColor { return txColor(genInt(r, 64)) }),
		optionShape("named-int8(text)", true, func(r *rand.Rand, nn bool) txI8 { return txI8(genInt(r, 8)) }),
		optionShape("named-bool(text)", true, func(r *rand.Rand, nn bool) txFlag { return txFlag(r.IntN(2) == 0) }),
		optionShape("named-uint16(text)", true, func(r *rand.Rand, nn bool) txHex { return txHex(genUint(r, 16)) }),
		optionShape("named-uint64(text)", true, func(r *rand.Rand, nn bool) txU64 { return txU64(genUint(r, 64)) }),
		optionShape("named-uintptr(text)", true, func(r *rand.Rand, nn bool) txPtrSize { return txPtrSize(genUint(r, 64)) }),
		optionShape("named-string(text)", true, func(r *rand.Rand, nn bool) txWord { return txWord(genStr(r)) }),
		optionShape("named-float64(text)", true, func(r *rand.Rand, nn bool) txRatio { return txRatio(genFloat(r, false)) }),
		optionShape("named-int(json)", true, func(r *rand.Rand, nn bool) jsInt { return jsInt(genInt(r, 64)) }),
		optionShape("named-bool(json)", true, func(r *rand.Rand, nn bool) jsBool { return jsBool(r.IntN(2) == 0) }),
		optionShape("named-uint32(json)", true, func(r *rand.Rand, nn bool) jsUint { return jsUint(genUint(r, 32)) }),
		optionShape("named-int(json+text)", true, func(r *rand.Rand, nn bool) bothInt { return bothInt(genInt(r, 64)) }),
		optionShape("named-int(stringer)", true, func(r *rand.Rand, nn bool) strOnly { return strOnly(genInt(r, 64)) }),
		optionShape("named-bool(stringer)", true, func(r *rand.Rand, nn bool) strOnlyBool { return strOnlyBool(r.IntN(2) == 0) }),
		optionShape("named-int(pointer-receiver-MarshalJSON)", true, func(r *rand.Rand, nn bool) ptrJS { return ptrJS(genInt(r, 64)) }),
		optionShape("named-int(pointer-receiver-text)", false, func(r *rand.Rand, nn bool) ptrTx { return ptrTx(genInt(r, 64)) }),
		optionShape("*named-int(pointer-receiver-text)", true, func(r *rand.Rand, nn bool) *ptrTx {
			if !nn && r.IntN(3) == 0 {
				return nil
			}
			v := ptrTx(genInt(r, 64))
			return &v
		}),
		optionShape("*named-int(text)", true, func(r *rand.Rand, nn bool) *txColor {
			if !nn && r.IntN(3) == 0 {
				return nil
			}
			v := txColor(genInt(r, 64))
			return &v
		}),
		optionShape("named-struct(json)", true, func(r *rand.Rand, nn bool) jsPoint { return jsPoint{gi(r), gi(r)} }),
		optionShape("named-struct(text)", true, func(r *rand.Rand, nn bool) txVersion {
			return txVersion{uint8(genUint(r, 8)), uint8(genUint(r, 8))}
		}),
		optionShape("named-slice(json)", true, func(r *rand.Rand, nn bool) jsCSV { return jsCSV(genSlice(r, true, gi)) }),
		optionShape("named-map(json)", true, func(r *rand.Rand, nn bool) jsPairs { return jsPairs(genMap(r, true, gi)) }),
		optionShape("[]named-int(text)", true, func(r *rand.Rand, nn bool) []txColor {
			return genSlice(r, nn, func(r *rand.Rand) txColor { return txColor(genInt(r, 64)) })
		}),
		optionShape("time.Month", true, func(r *rand.Rand, nn bool) time.Month { return time.Month(r.IntN(14)) }),
		optionShape("slog.Level", true, func(r *rand.Rand, nn bool) slog.Level { return slog.Level(r.IntN(41) - 20) }),
		optionShape("net.IP", true, func(r *rand.Rand, nn bool) net.IP { return genIP(r) }),
		optionShape("netip.Addr", true, func(r *rand.Rand, nn bool) netip.Addr { return genAddr(r) }),
		optionShape("*big.Int", true, func(r *rand.Rand, nn bool) *big.Int {
			if !nn && r.IntN(3) == 0 {
				return nil
			}
			return genBigInt(r)
		}),
		optionShape("json.Number", true, func(r *rand.Rand, nn bool) json.Number { return genNumber(r) }),
		optionShape("map[named-int(text)]int", true, func(r *rand.Rand, nn bool) map[txColor]int {
			return genMapK(r, nn, func(r *rand.Rand) txColor { return txColor(genInt(r, 64)) }, gi)
		}),
		optionShape("map[named-bool(text)]string", true, func(r *rand.Rand, nn bool) map[txFlag]string {
			return genMapK(r, nn, func(r *rand.Rand) txFlag { return txFlag(r.IntN(2) == 0) }, genStr)
		}),
		// encoding/json writes a key of a string KIND as the plain string (MarshalText is not asked) but
		// reads it with UnmarshalText: the bare map is not faithful - encoding identity / never panics only
		optionShape("map[named-string(text)]named-int(text)", false, func(r *rand.Rand, nn bool) map[txWord]txColor {
			return genMapK(r, nn, func(r *rand.Rand) txWord { return txWord(genStr(r)) }, func(r *rand.Rand) txColor { return txColor(genInt(r, 64)) })
		}),
		optionShape("map[named-int(json+text)]bool", true, func(r *rand.Rand, nn bool) map[bothInt]bool {
			return genMapK(r, nn, func(r *rand.Rand) bothInt { return bothInt(genInt(r, 64)) }, func(r *rand.Rand) bool { return r.IntN(2) == 0 })
		}),
		optionShape("map[named-int(stringer)]int", true, func(r *rand.Rand, nn bool) map[strOnly]int {
			return genMapK(r, nn, func(r *rand.Rand) strOnly { return strOnly(genInt(r, 64)) }, gi)
		}),
		optionShape("map[netip.Addr]Option[named-int(text)]", true, func(r *rand.Rand, nn bool) map[netip.Addr]fp.Option[txColor] {
			return genMapK(r, nn, genAddr, func(r *rand.Rand) fp.Option[txColor] {
				if r.IntN(3) == 0 {
					return fp.None[txColor]()
				}
				return fp.Some(txColor(genInt(r, 64)))
			})
		}),
		optionShape("Option[named-bool(text)]", true, func(r *rand.Rand, nn bool) fp.Option[txFlag] {
			if !nn && r.IntN(3) == 0 {
				return fp.None[txFlag]()
			}
			return fp.Some(txFlag(r.IntN(2) == 0))
		}),
		optionShape("any(custom-encodings)", false, func(r *rand.Rand, nn bool) any { return customAny(r) }),
	}
}

// selfCheckCustom: the assumption "every custom payload type is faithfully encodable as a bare
// value" is established once per worker with encoding/json alone (no fp code involved); a type
// that fails is reported as a harness note, never as a violation.
func selfCheckCustom() string {
	chk := func(name string, v, target any, eq func() bool) string {
		b, err := json.Marshal(v)
		if err != nil {
			return name + ": " + err.Error()
		}
		if err := json.Unmarshal(b, target); err != nil || !eq() {
			return fmt.Sprintf("%s: bare value does not round-trip through %s (%v)", name, b, err)
		}
		return ""
	}
	var c txColor
	var f txFlag
	var bi bothInt
	var p ptrJS
	var m map[bothInt]bool
	for _, s := range []string{
		chk("txColor", txColor(-7), &c, func() bool { return c == -7 }),
		chk("txFlag", txFlag(true), &f, func() bool { return bool(f) }),
		chk("bothInt", bothInt(5), &bi, func() bool { return bi == 5 }),
		chk("ptrJS", ptrJS(9), &p, func() bool { return p == 9 }),
		chk("map[bothInt]bool", map[bothInt]bool{3: true}, &m, func() bool { return len(m) == 1 && m[3] }),
	} {
		if s != "" {
			return s
		}
	}
	return ""
}
