// C05 — Promise: single assignment and exactly-once callback delivery.
// (a) controlled schedules: a seeded cooperative scheduler owns every atomic step of the
//     promise (hooks fp.VerifSetAtomicHook / fp.VerifSetSpawn);
// (b) real goroutines under the race detector with injected yields.
package main

import (
	"errors"
	"fmt"
	"math/rand/v2"
	"runtime"
	"sync"
	"sync/atomic"

	"verif/sched"
	"verif/vrt"

	"github.com/csgura/fp"
)

var sentinelErrs = []error{errors.New("e0"), errors.New("e1"), errors.New("e2"), errors.New("e3")}

// ---- scenario -------------------------------------------------------------------------

type cbSpec struct {
	Method int `json:"method"` // 0 OnComplete 1 OnSuccess 2 OnFailure 3 Foreach
	Exec   int `json:"exec"`   // 0 default executor 1 inline 2 harness queue
}

type compSpec struct {
	Kind int `json:"kind"` // 0 Success 1 Failure 2 Complete(Success) 3 Complete(Failure)
	Val  int `json:"val"`
}

type scenario struct {
	Pre        []cbSpec   `json:"pre"`
	Registrars [][]cbSpec `json:"registrars"`
	Completers []compSpec `json:"completers"`
	Late       []cbSpec   `json:"late"`
	Mode       string     `json:"mode"`
	Depth      int        `json:"pct_depth"`
}

var methodNames = []string{"OnComplete", "OnSuccess", "OnFailure", "Foreach"}

func genCb(r *rand.Rand) cbSpec {
	e := 0
	switch r.IntN(6) {
	case 0:
		e = 1
	case 1:
		e = 2
	}
	return cbSpec{Method: r.IntN(4), Exec: e}
}

func genScenario(r *rand.Rand) scenario {
	var sc scenario
	npre := []int{0, 0, 1, 2, 3, 4, 5, 6, 8}[r.IntN(9)]
	if r.IntN(10) == 0 {
		// many pending listeners: slice-capacity / chunk boundaries 16, 32, 64, 128
		npre = []int{15, 16, 17, 31, 32, 33, 34, 35, 47, 63, 64, 65, 66, 96, 100, 127, 128, 129, 130}[r.IntN(19)]
	}
	for i := 0; i < npre; i++ {
		sc.Pre = append(sc.Pre, genCb(r))
	}
	nreg := r.IntN(7)
	for i := 0; i < nreg; i++ {
		n := 1 + r.IntN(3)
		var cbs []cbSpec
		for j := 0; j < n; j++ {
			cbs = append(cbs, genCb(r))
		}
		sc.Registrars = append(sc.Registrars, cbs)
	}
	ncomp := []int{0, 1, 1, 2, 2, 3}[r.IntN(6)]
	for i := 0; i < ncomp; i++ {
		sc.Completers = append(sc.Completers, compSpec{Kind: r.IntN(4), Val: 100 + i})
	}
	nlate := r.IntN(4)
	for i := 0; i < nlate; i++ {
		sc.Late = append(sc.Late, genCb(r))
	}
	if r.IntN(3) == 0 {
		sc.Mode = "pct"
		sc.Depth = 1 + r.IntN(3)
	} else {
		sc.Mode = "uniform"
	}
	return sc
}

func (c compSpec) try() fp.Try[int] {
	if c.Kind == 0 || c.Kind == 2 {
		return fp.Success(c.Val)
	}
	return fp.Failure[int](sentinelErrs[c.Val%len(sentinelErrs)])
}

func tryEq(a, b fp.Try[int]) bool {
	if a.IsSuccess() != b.IsSuccess() {
		return false
	}
	if a.IsSuccess() {
		return a.Get() == b.Get()
	}
	return a.Failed().Get() == b.Failed().Get()
}

func tryStr(t fp.Try[int]) string {
	if t.IsSuccess() {
		return fmt.Sprintf("Success(%d)", t.Get())
	}
	return fmt.Sprintf("Failure(%v)", t.Failed().Get())
}

// ---- observation state ----------------------------------------------------------------

type cbState struct {
	spec       cbSpec
	where      string
	count      atomic.Int32
	mu         sync.Mutex
	got        []fp.Try[int]
	incomplete atomic.Int32 // IsCompleted()==false observed inside the callback
	valueDiff  atomic.Int32 // p.Value() inside the callback differs from the argument
}

type inlineExec struct{}

func (inlineExec) ExecuteUnsafe(r fp.Runnable) { r.Run() }

type queueExec struct {
	mu sync.Mutex
	q  []fp.Runnable
}

func (q *queueExec) ExecuteUnsafe(r fp.Runnable) {
	q.mu.Lock()
	q.q = append(q.q, r)
	q.mu.Unlock()
}
func (q *queueExec) take() []fp.Runnable {
	q.mu.Lock()
	defer q.mu.Unlock()
	out := q.q
	q.q = nil
	return out
}

type run struct {
	p     fp.Promise[int]
	q     *queueExec
	cbs   []*cbState
	wins  []atomic.Int32 // per completer: 1 if returned true
}

func (rn *run) register(spec cbSpec, where string) {
	st := &cbState{spec: spec, where: where}
	rn.cbs = append(rn.cbs, st)
	rn.registerState(st)
}

func (rn *run) registerState(st *cbState) {
	p := rn.p
	var ex []fp.Executor
	switch st.spec.Exec {
	case 1:
		ex = []fp.Executor{inlineExec{}}
	case 2:
		ex = []fp.Executor{rn.q}
	}
	observe := func(t fp.Try[int]) {
		st.count.Add(1)
		st.mu.Lock()
		st.got = append(st.got, t)
		st.mu.Unlock()
		if !p.IsCompleted() {
			st.incomplete.Add(1)
		} else if !tryEq(p.Value(), t) {
			st.valueDiff.Add(1)
		}
	}
	f := p.Future()
	switch st.spec.Method {
	case 0:
		f.OnComplete(observe, ex...)
	case 1:
		f.OnSuccess(func(v int) { observe(fp.Success(v)) }, ex...)
	case 2:
		f.OnFailure(func(e error) { observe(fp.Failure[int](e)) }, ex...)
	case 3:
		f.Foreach(func(v int) { observe(fp.Success(v)) }, ex...)
	}
}

func (rn *run) complete(i int, c compSpec) {
	var ok bool
	switch c.Kind {
	case 0:
		ok = rn.p.Success(c.Val)
	case 1:
		ok = rn.p.Failure(sentinelErrs[c.Val%len(sentinelErrs)])
	default:
		ok = rn.p.Complete(c.try())
	}
	if ok {
		rn.wins[i].Store(1)
	}
}

// verify applies the oracle at quiescence. Returns the first violation (key, detail).
func (rn *run) verify(sc *scenario, stage string) (string, string) {
	nwin := 0
	winner := -1
	for i := range rn.wins {
		if rn.wins[i].Load() == 1 {
			nwin++
			winner = i
		}
	}
	completed := len(sc.Completers) > 0
	if completed && nwin != 1 {
		return "Promise.Complete/winner-count", fmt.Sprintf("%s: %d of %d concurrent completions returned true", stage, nwin, len(sc.Completers))
	}
	if !completed && nwin != 0 {
		return "Promise.Complete/winner-count", "completion returned true without completer"
	}
	if rn.p.IsCompleted() != completed || rn.p.Future().IsCompleted() != completed {
		return "Promise.IsCompleted/wrong", fmt.Sprintf("%s: IsCompleted=%v, expected %v", stage, rn.p.IsCompleted(), completed)
	}
	var want fp.Try[int]
	if completed {
		want = sc.Completers[winner].try()
		if !tryEq(rn.p.Value(), want) || !tryEq(rn.p.Future().Value(), want) {
			return "Promise.Value/not-the-winner", fmt.Sprintf("%s: Value()=%s but the completion that returned true carried %s", stage, tryStr(rn.p.Value()), tryStr(want))
		}
	}
	for ci, st := range rn.cbs {
		exp := int32(0)
		if completed {
			switch st.spec.Method {
			case 0:
				exp = 1
			case 1, 3:
				if want.IsSuccess() {
					exp = 1
				}
			case 2:
				if !want.IsSuccess() {
					exp = 1
				}
			}
		}
		got := st.count.Load()
		desc := fmt.Sprintf("%s: callback #%d (%s via %s, executor %d) invoked %d times, expected %d", stage, ci, st.where, methodNames[st.spec.Method], st.spec.Exec, got, exp)
		if got < exp {
			return "Promise.callback/lost", desc
		}
		if got > exp && exp == 1 {
			return "Promise.callback/duplicated", desc
		}
		if got > exp {
			return "Promise.callback/filter-ignored", desc
		}
		if st.incomplete.Load() > 0 {
			return "Promise.callback/before-completion", desc + "; IsCompleted() was false inside the callback"
		}
		if st.valueDiff.Load() > 0 {
			return "Promise.callback/value-differs-from-Value", desc + "; p.Value() inside the callback differed from the delivered value"
		}
		st.mu.Lock()
		for _, g := range st.got {
			if !tryEq(g, want) {
				st.mu.Unlock()
				return "Promise.callback/wrong-value", desc + fmt.Sprintf("; received %s, completion result is %s", tryStr(g), tryStr(want))
			}
		}
		st.mu.Unlock()
	}
	return "", ""
}

// ---- (a) controlled schedules ---------------------------------------------------------

func controlledCase(w *vrt.W, i int) {
	r := w.Rand(i)
	sc := genScenario(r)
	w.Begin(i, "Promise")
	defer w.Done(i)
	mode := sched.Uniform
	if sc.Mode == "pct" {
		mode = sched.PCT
	}
	s := sched.New(r, mode, sc.Depth, 40+20*len(sc.Registrars))
	// overlap detection: a CAS by one task while another task sits between its Get and its CAS
	pendingGet := map[int]bool{}
	overlaps := 0
	s.OnOp = func(task int, op string) {
		switch op {
		case "Get":
			pendingGet[task] = true
		case "CompareAndSwap":
			for t, p := range pendingGet {
				if p && t != task {
					overlaps++
					break
				}
			}
			pendingGet[task] = false
		}
	}
	fp.VerifSetAtomicHook(s.Yield)
	fp.VerifSetSpawn(func(task func()) { s.Spawn("executor-task", task) })
	defer fp.VerifSetAtomicHook(nil)
	defer fp.VerifSetSpawn(nil)

	rn := &run{p: fp.NewPromise[int](), q: &queueExec{}, wins: make([]atomic.Int32, len(sc.Completers))}
	fail := func(key, detail string) {
		w.Violation(i, key, detail+fmt.Sprintf("\nschedule: %d steps, %d switches, hash %x", s.Steps, s.Switches, s.Hash()), map[string]any{"scenario": sc, "trace": s.Trace()})
	}
	s.KeepTrace = w.Replay
	ok := w.Guard(i, func() any { return sc }, func() {
		for k, c := range sc.Pre {
			rn.register(c, fmt.Sprintf("pre-registered #%d", k))
		}
		// registering tasks: states are created up front so that verify sees them all
		for ti, cbs := range sc.Registrars {
			var sts []*cbState
			for k, c := range cbs {
				st := &cbState{spec: c, where: fmt.Sprintf("registrar %d #%d", ti, k)}
				rn.cbs = append(rn.cbs, st)
				sts = append(sts, st)
			}
			s.Spawn(fmt.Sprintf("registrar-%d", ti), func() {
				for _, st := range sts {
					rn.registerState(st)
				}
			})
		}
		for ci, c := range sc.Completers {
			s.Spawn(fmt.Sprintf("completer-%d", ci), func() { rn.complete(ci, c) })
		}
		drain := func(stage string) bool {
			for round := 0; round < 100; round++ {
				if err := s.Run(); err != nil {
					w.Add("inconclusive.stuck", 1)
					w.Note("schedule stuck: " + err.Error())
					return false
				}
				q := rn.q.take()
				if len(q) == 0 {
					return true
				}
				r.Shuffle(len(q), func(a, b int) { q[a], q[b] = q[b], q[a] })
				for _, t := range q {
					s.Spawn("queued-task", t.Run)
				}
			}
			return true
		}
		if !drain("main") {
			return
		}
		if s.Aborted {
			w.Add("inconclusive.step_cap", 1)
			return
		}
		if k, d := rn.verify(&sc, "at quiescence"); k != "" {
			fail(k, d)
			return
		}
		// late registrations (after completion or on a never-completed promise)
		for k, c := range sc.Late {
			rn.register(c, fmt.Sprintf("late #%d", k))
		}
		// a further completion attempt must lose and change nothing
		if len(sc.Completers) > 0 {
			if rn.p.Success(-1) || rn.p.Failure(errors.New("late")) || rn.p.Complete(fp.Success(-2)) {
				fail("Promise.Complete/second-assignment", "a completion attempt after completion returned true")
				return
			}
		}
		if !drain("late") {
			return
		}
		if k, d := rn.verify(&sc, "after late registrations"); k != "" {
			fail(k, d)
			return
		}
	})
	_ = ok
	w.Add("schedules", 1)
	w.Add("steps", int64(s.Steps))
	w.Add("switches", int64(s.Switches))
	w.Max("max_steps", int64(s.Steps))
	w.Add("callbacks", int64(len(rn.cbs)))
	if overlaps > 0 {
		w.Add("schedules.with_get_cas_overlap", 1)
		w.Add("get_cas_overlaps", int64(overlaps))
		w.DistinctHash(s.Hash() ^ vrt.Hash64(fmt.Sprint(sc)))
	}
	if len(sc.Completers) >= 2 {
		w.Add("schedules.racing_completers", 1)
	}
	if len(sc.Completers) == 0 {
		w.Add("schedules.never_completed", 1)
	}
	if len(rn.cbs) >= 34 {
		w.Add("schedules.with_34_or_more_callbacks", 1)
	}
	w.Max("max_callbacks_on_one_promise", int64(len(rn.cbs)))
	if w.WantSample() && overlaps > 0 {
		w.Sample(map[string]any{"scenario": sc, "steps": s.Steps, "switches": s.Switches, "get_cas_overlaps": overlaps, "schedule_hash": fmt.Sprintf("%x", s.Hash())})
	}
}

// ---- zero values ----------------------------------------------------------------------

func zeroValueCase(w *vrt.W, i int) {
	w.Begin(i, "Promise[zero]")
	defer w.Done(i)
	r := w.Rand(i)
	calls := atomic.Int32{}
	cb := func(fp.Try[int]) { calls.Add(1) }
	check := func(name string, f func() (bad string)) {
		w.Site("zero." + name)
		w.Hit("zero." + name)
		defer func() {
			if rec := recover(); rec != nil {
				w.Violation(i, "zero."+name+"/panic", fmt.Sprintf("zero-value %s panicked: %v", name, rec), nil)
			}
		}()
		if bad := f(); bad != "" {
			w.Violation(i, "zero."+name+"/wrong", bad, nil)
		}
	}
	var p fp.Promise[int]
	var f fp.Future[int]
	if r.IntN(2) == 0 {
		f = p.Future()
	}
	ops := []struct {
		n string
		f func() string
	}{
		{"Promise.Success", func() string {
			if p.Success(1) {
				return "Success returned true"
			}
			return ""
		}},
		{"Promise.Failure", func() string {
			if p.Failure(sentinelErrs[0]) {
				return "Failure returned true"
			}
			return ""
		}},
		{"Promise.Complete", func() string {
			if p.Complete(fp.Success(3)) {
				return "Complete returned true"
			}
			return ""
		}},
		{"Promise.IsCompleted", func() string {
			if p.IsCompleted() {
				return "IsCompleted true"
			}
			return ""
		}},
		{"Future.IsCompleted", func() string {
			if f.IsCompleted() {
				return "IsCompleted true"
			}
			return ""
		}},
		{"Future.OnComplete", func() string { f.OnComplete(cb); f.OnComplete(cb, inlineExec{}); return "" }},
		{"Future.OnSuccess", func() string { f.OnSuccess(func(int) { calls.Add(1) }); return "" }},
		{"Future.OnFailure", func() string { f.OnFailure(func(error) { calls.Add(1) }); return "" }},
		{"Future.Foreach", func() string { f.Foreach(func(int) { calls.Add(1) }); return "" }},
		{"Future.String", func() string { _ = f.String(); return "" }},
		{"Future.Map", func() string {
			if f.Map(func(x int) int { calls.Add(1); return x }).IsCompleted() {
				return "derived future completed"
			}
			return ""
		}},
		{"Future.FlatMap", func() string {
			if f.FlatMap(func(x int) fp.Future[int] { calls.Add(1); return f }).IsCompleted() {
				return "derived future completed"
			}
			return ""
		}},
		{"Future.Recover", func() string {
			if f.Recover(func(error) int { calls.Add(1); return 0 }).IsCompleted() {
				return "derived future completed"
			}
			return ""
		}},
		{"Future.RecoverWith", func() string {
			if f.RecoverWith(func(error) fp.Future[int] { calls.Add(1); return f }).IsCompleted() {
				return "derived future completed"
			}
			return ""
		}},
		{"Future.Failed", func() string {
			if f.Failed().IsCompleted() {
				return "derived future completed"
			}
			return ""
		}},
		{"Future.Or", func() string {
			if f.Or(func() fp.Future[int] { calls.Add(1); return f }).IsCompleted() {
				return "derived future completed"
			}
			return ""
		}},
		{"Future.OrFuture", func() string {
			if f.OrFuture(f).IsCompleted() {
				return "derived future completed"
			}
			return ""
		}},
		{"Promise.Future", func() string { _ = p.Future(); return "" }},
	}
	r.Shuffle(len(ops), func(a, b int) { ops[a], ops[b] = ops[b], ops[a] })
	for _, o := range ops {
		check(o.n, o.f)
	}
	// Value() may panic (as for any incomplete promise) but must not return
	w.Site("zero.Promise.Value")
	func() {
		defer func() { recover() }()
		v := p.Value()
		w.Violation(i, "zero.Promise.Value/returned", "Value() of a zero promise returned "+tryStr(v), nil)
	}()
	if calls.Load() != 0 {
		w.Violation(i, "zero.callback/invoked", fmt.Sprintf("%d callbacks invoked on a zero-value promise/future", calls.Load()), nil)
	}
	w.Add("zero_value_cases", 1)
}

// ---- (b) real goroutines under the race detector --------------------------------------

func raceCase(w *vrt.W, i int) {
	r := w.Rand(i)
	sc := genScenario(r)
	sc.Mode = "goroutines"
	w.Begin(i, "Promise(goroutines)")
	defer w.Done(i)
	reps := 10
	for rep := 0; rep < reps; rep++ {
		var tasks sync.WaitGroup
		var ctr atomic.Uint64
		seed := r.Uint64()
		prob := uint64(1 + r.IntN(6))
		fp.VerifSetAtomicHook(func(op string) {
			x := ctr.Add(1) * 0x9e3779b97f4a7c15
			x ^= seed
			x ^= x >> 29
			if x%8 < prob {
				runtime.Gosched()
			}
		})
		fp.VerifSetSpawn(func(task func()) {
			tasks.Add(1)
			go func() {
				defer tasks.Done()
				task()
			}()
		})
		rn := &run{p: fp.NewPromise[int](), q: &queueExec{}, wins: make([]atomic.Int32, len(sc.Completers))}
		for k, c := range sc.Pre {
			rn.register(c, fmt.Sprintf("pre-registered #%d", k))
		}
		start := make(chan struct{})
		var wg sync.WaitGroup
		for ti, cbs := range sc.Registrars {
			var sts []*cbState
			for k, c := range cbs {
				st := &cbState{spec: c, where: fmt.Sprintf("registrar %d #%d", ti, k)}
				rn.cbs = append(rn.cbs, st)
				sts = append(sts, st)
			}
			wg.Add(1)
			go func() {
				defer wg.Done()
				<-start
				for _, st := range sts {
					rn.registerState(st)
				}
			}()
		}
		for ci, c := range sc.Completers {
			wg.Add(1)
			go func() {
				defer wg.Done()
				<-start
				rn.complete(ci, c)
			}()
		}
		close(start)
		wg.Wait()
		drain := func() {
			for {
				tasks.Wait()
				q := rn.q.take()
				if len(q) == 0 {
					return
				}
				for _, t := range q {
					tasks.Add(1)
					go func() { defer tasks.Done(); t.Run() }()
				}
			}
		}
		drain()
		bad := false
		if k, d := rn.verify(&sc, "at quiescence (goroutines)"); k != "" {
			w.Violation(i, k, d, map[string]any{"scenario": sc, "rep": rep})
			bad = true
		}
		if !bad {
			for k, c := range sc.Late {
				rn.register(c, fmt.Sprintf("late #%d", k))
			}
			drain()
			if k, d := rn.verify(&sc, "after late registrations (goroutines)"); k != "" {
				w.Violation(i, k, d, map[string]any{"scenario": sc, "rep": rep})
			}
		}
		fp.VerifSetAtomicHook(nil)
		fp.VerifSetSpawn(nil)
		w.Add("race_mode.rounds", 1)
		w.Add("race_mode.atomic_steps", int64(ctr.Load()))
	}
	w.Add("race_mode.scenarios", 1)
	if len(sc.Registrars) >= 2 && len(sc.Pre) > 0 {
		w.Distinct("race:" + fmt.Sprint(sc))
	}
}

// ---- main -----------------------------------------------------------------------------

func nControlled(tier string) int {
	if tier == "thorough" {
		return 64
	}
	return 16
}

func main() {
	vrt.Main(vrt.Config{
		Property: "C05",
		Batches: func(tier string) int {
			if tier == "thorough" {
				return 64 + 32
			}
			return 16 + 8
		},
		Cases: func(tier string, b int) int {
			if b < nControlled(tier) {
				if tier == "thorough" {
					return 160000
				}
				return 12500
			}
			if tier == "thorough" {
				return 700
			}
			return 100
		},
		RaceBatch:   func(tier string, b int) bool { return b >= nControlled(tier) },
		WorkerProcs: 4,
		Run: func(w *vrt.W) {
			controlled := w.Batch < nControlled(w.Tier)
			for i := w.From; i < w.To; i++ {
				if controlled {
					if i%50 == 49 {
						zeroValueCase(w, i)
					} else {
						controlledCase(w, i)
					}
				} else {
					raceCase(w, i)
				}
			}
		},
		Rule: "controlled case = PRNG scenario (0..8 (one case in ten: 15..130, crossing the 16/32/64/128 boundaries) callbacks registered before start, 0..6 registering tasks x 1..3 callbacks via OnComplete/OnSuccess/OnFailure/Foreach on the default, an inline or a harness queue executor, 0..3 completers via Success/Failure/Complete with distinct results, 0..3 late registrations) executed under a seeded cooperative scheduler that owns every atomic Get/Load/Store/CompareAndSwap of the promise and every task of the default executor (uniform random choice at each step, or PCT with 1..3 priority change points); the oracle at quiescence checks exactly one winning completion, IsCompleted/Value, exactly-once delivery per callback subject to its filter, delivery never before completion, and that later completions lose. distinct_nontrivial counts distinct (scenario, schedule-hash) pairs in which a CompareAndSwap by one task happened while another task was between its Get and its CompareAndSwap (overlapping read-modify-write windows), plus — race batches — distinct scenarios with >=2 registering goroutines racing over pre-registered callbacks. Every 50th controlled case is a zero-value Promise/Future case. Race batches run the same scenarios 10 times each with real goroutines, PRNG-chosen Gosched at every atomic step, built with -race; any DATA RACE report whose accessing frame is in csgura/fp is a violation.",
		Assumptions: []string{
			"interleavings are explored at the granularity of the atomic steps of internal/atomic.Value (hook before each step); they are sampled (uniform + PCT), not enumerated",
			"the scheduler serialises tasks, so it explores sequentially consistent interleavings only; weak-memory effects are left to the -race batches",
		},
		Floors: func(tier string) map[string]int64 {
			return map[string]int64{"schedules.with_get_cas_overlap": 500, "schedules.racing_completers": 500, "schedules.never_completed": 100, "schedules.with_34_or_more_callbacks": 500, "zero_value_cases": 10, "race_mode.rounds": 100}
		},
	})
}
