// Package vrt is the runtime shared by every check: parent/worker split, seeded case
// streams, case log, CPU-budget watchdog, violation / known-finding reporting and the
// evidence writer. See DESIGN.md section 2.
package vrt

import (
	"encoding/base64"
	"encoding/binary"
	"encoding/json"
	"flag"
	"fmt"
	"hash/fnv"
	"math/rand/v2"
	"os"
	"os/exec"
	"path/filepath"
	"runtime"
	"runtime/debug"
	"sort"
	"strconv"
	"strings"
	"sync"
	"syscall"
	"time"
)

const VerifDir = "/verif"

// Config describes one check.
type Config struct {
	Property string
	// Batches returns the number of batches for a tier; Cases the number of cases in a batch.
	Batches func(tier string) int
	Cases   func(tier string, batch int) int
	// RaceBatch reports whether the batch must run in the race-detector build of the
	// worker (binary path + ".race"). nil = never.
	RaceBatch func(tier string, batch int) bool
	// Run executes cases w.From..w.To-1 of batch w.Batch inside a worker process.
	Run func(w *W)
	// Rule is the evidence "rule" text: how cases are generated and what is non-trivial.
	Rule        string
	Assumptions []string
	// Floors: counters that must reach at least this value (summed over all batches)
	// or the run is inconclusive. Per tier.
	Floors func(tier string) map[string]int64
	// CaseCPUBudget: CPU seconds one case may burn before it counts as non-terminating.
	CaseCPUBudget float64
	// Parallel: worker processes at a time (default: number of CPUs).
	Parallel int
	// WorkerProcs: GOMAXPROCS inside a worker (default 2; concurrency checks set more).
	WorkerProcs int
	// WallLimit per worker process (safety net only; firing = inconclusive).
	WallLimit time.Duration
	// Finish lets a check add property-specific keys to coverage.
	Finish func(tier string, m *Merged, coverage map[string]any)
	// Exhaustive marks the evidence as an exhaustive enumeration of a finite space.
	Exhaustive func(tier string) bool
	// Level for the evidence file (default "exploration").
	Level string
	// MaxStack for workers (default 64 MB).
	MaxStack int
}

// ViolationRec is one violation as reported by a worker (or synthesised by the parent).
type ViolationRec struct {
	Key    string `json:"key"`
	Detail string `json:"detail"`
	Replay string `json:"replay"`
	Batch  int    `json:"batch"`
	Index  int    `json:"index"`
	Count  int    `json:"count"`
}

// Result is what a worker hands back to the parent.
type Result struct {
	Batch      int              `json:"batch"`
	From       int              `json:"from"`
	To         int              `json:"to"`
	Cases      int64            `json:"cases"`
	Counters   map[string]int64 `json:"counters"`
	Maxes      map[string]int64 `json:"maxes"`
	Distinct   string           `json:"distinct"` // base64 of little-endian uint64 hashes
	Samples    []any            `json:"samples"`
	Violations []ViolationRec   `json:"violations"`
	Notes      []string         `json:"notes"`
	Completed  bool             `json:"completed"`
}

// Merged is the union of all worker results.
type Merged struct {
	Cases        int64
	Counters     map[string]int64
	Maxes        map[string]int64
	Distinct     map[uint64]struct{}
	Samples      []any
	Violations   []ViolationRec
	Notes        []string
	Inconclusive []string
}

// W is the worker-side handle.
type W struct {
	cfg      *Config
	Tier     string
	Seed     uint64
	Batch    int
	From, To int
	Replay   bool

	mu        sync.Mutex
	res       Result
	distinct  map[uint64]struct{}
	vioByKey  map[string]int
	curFile   *os.File
	outPath   string
	openIdx   int
	openSite  string
	openCPU   float64
	openSer   uint64
	isOpen    bool
	maxSample int
}

// ---- deterministic randomness ---------------------------------------------------------

func Hash64(s string) uint64 {
	h := fnv.New64a()
	h.Write([]byte(s))
	return h.Sum64()
}

func mix(a, b uint64) uint64 {
	x := a ^ (b + 0x9e3779b97f4a7c15 + (a << 6) + (a >> 2))
	x ^= x >> 30
	x *= 0xbf58476d1ce4e5b9
	x ^= x >> 27
	x *= 0x94d049bb133111eb
	x ^= x >> 31
	return x
}

// CaseSeed is the pure function (VERIF_SEED, property, batch, index) -> seed of a case.
func (w *W) CaseSeed(i int) uint64 {
	return mix(mix(mix(w.Seed, Hash64(w.cfg.Property)), uint64(w.Batch)), uint64(i))
}

// Rand returns the PRNG of case i.
func (w *W) Rand(i int) *rand.Rand {
	s := w.CaseSeed(i)
	return rand.New(rand.NewPCG(s, mix(s, 0x5851f42d4c957f2d)))
}

// ---- case log -------------------------------------------------------------------------

const curRecLen = 256

func (w *W) writeCur(s string) {
	if w.curFile == nil {
		return
	}
	b := make([]byte, curRecLen)
	for i := range b {
		b[i] = ' '
	}
	copy(b, s)
	b[curRecLen-1] = '\n'
	w.curFile.WriteAt(b, 0)
}

func cpuSeconds() float64 {
	var ru syscall.Rusage
	if err := syscall.Getrusage(syscall.RUSAGE_SELF, &ru); err != nil {
		return 0
	}
	return float64(ru.Utime.Sec) + float64(ru.Utime.Usec)/1e6 + float64(ru.Stime.Sec) + float64(ru.Stime.Usec)/1e6
}

// Begin marks case i as open at call site `site` (the case descriptor is written to the
// case log before the case executes).
func (w *W) Begin(i int, site string) {
	w.mu.Lock()
	w.openIdx, w.openSite, w.isOpen = i, site, true
	w.openSer++
	w.openCPU = cpuSeconds()
	w.mu.Unlock()
	w.writeCur("open " + strconv.Itoa(i) + " " + site)
}

// Site updates the call site of the open case (e.g. the combinator about to be called).
func (w *W) Site(site string) {
	w.mu.Lock()
	w.openSite = site
	i := w.openIdx
	w.mu.Unlock()
	w.writeCur("open " + strconv.Itoa(i) + " " + site)
}

// Done closes case i.
func (w *W) Done(i int) {
	w.mu.Lock()
	w.isOpen = false
	w.res.Cases++
	w.mu.Unlock()
	w.writeCur("idle " + strconv.Itoa(i))
}

// ---- observations ---------------------------------------------------------------------

func (w *W) Add(counter string, n int64) {
	w.mu.Lock()
	w.res.Counters[counter] += n
	w.mu.Unlock()
}

func (w *W) Hit(name string) { w.Add("hit."+name, 1) }

func (w *W) Max(counter string, v int64) {
	w.mu.Lock()
	if cur, ok := w.res.Maxes[counter]; !ok || v > cur {
		w.res.Maxes[counter] = v
	}
	w.mu.Unlock()
}

// Distinct records the fingerprint of a case that is non-trivial by the check's rule.
func (w *W) Distinct(fingerprint string) {
	h := Hash64(fingerprint)
	w.mu.Lock()
	w.distinct[h] = struct{}{}
	w.mu.Unlock()
}

func (w *W) DistinctHash(h uint64) {
	w.mu.Lock()
	w.distinct[h] = struct{}{}
	w.mu.Unlock()
}

// Sample keeps a few concrete cases for the evidence file.
func (w *W) Sample(v any) {
	w.mu.Lock()
	if len(w.res.Samples) < w.maxSample {
		w.res.Samples = append(w.res.Samples, v)
	}
	w.mu.Unlock()
}

func (w *W) WantSample() bool {
	w.mu.Lock()
	defer w.mu.Unlock()
	return len(w.res.Samples) < w.maxSample
}

func (w *W) Note(s string) {
	w.mu.Lock()
	if len(w.res.Notes) < 20 {
		w.res.Notes = append(w.res.Notes, s)
	}
	w.mu.Unlock()
}

func sanitize(s string) string {
	var b strings.Builder
	for _, r := range s {
		switch {
		case r >= 'a' && r <= 'z', r >= 'A' && r <= 'Z', r >= '0' && r <= '9', r == '.', r == '-', r == '_':
			b.WriteRune(r)
		default:
			b.WriteByte('_')
		}
	}
	if b.Len() > 80 {
		return b.String()[:80]
	}
	return b.String()
}

// Witness is the content of a replay file.
type Witness struct {
	Property string `json:"property"`
	Key      string `json:"key"`
	Tier     string `json:"tier"`
	Seed     uint64 `json:"seed"`
	Batch    int    `json:"batch"`
	Index    int    `json:"index"`
	Detail   string `json:"detail"`
	Case     any    `json:"case,omitempty"`
	Stderr   string `json:"stderr,omitempty"`
}

func writeWitness(wt Witness) string {
	dir := filepath.Join(VerifDir, "replay", wt.Property)
	os.MkdirAll(dir, 0o755)
	name := fmt.Sprintf("%s.s%d.%s.b%d.i%d.json", sanitize(wt.Key), wt.Seed, wt.Tier, wt.Batch, wt.Index)
	p := filepath.Join(dir, name)
	b, err := json.MarshalIndent(wt, "", " ")
	if err != nil {
		wt.Case = fmt.Sprintf("%+v", wt.Case)
		b, _ = json.MarshalIndent(wt, "", " ")
	}
	os.WriteFile(p, b, 0o644)
	return p
}

// Violation records a violation of the property found in case i. key is the stable name
// of the failing call site / input class (used for known findings), detail a human
// description, witness any JSON-serialisable description of the case.
func (w *W) Violation(i int, key, detail string, witness any) {
	// keys are matched token-wise against known_findings.txt: no whitespace inside a key
	key = strings.Join(strings.Fields(key), "_")
	w.mu.Lock()
	defer w.mu.Unlock()
	if idx, ok := w.vioByKey[key]; ok {
		w.res.Violations[idx].Count++
		return
	}
	if len(detail) > 4000 {
		detail = detail[:4000] + "…"
	}
	p := writeWitness(Witness{Property: w.cfg.Property, Key: key, Tier: w.Tier, Seed: w.Seed, Batch: w.Batch, Index: i, Detail: detail, Case: witness})
	w.vioByKey[key] = len(w.res.Violations)
	w.res.Violations = append(w.res.Violations, ViolationRec{Key: key, Detail: detail, Replay: p, Batch: w.Batch, Index: i, Count: 1})
	if w.Replay {
		fmt.Printf("replay: violation key=%s\n%s\n", key, detail)
	}
}

// BudgetExceeded is the sentinel panic raised by a logical-clock budget.
type BudgetExceeded struct{ What string }

func (b BudgetExceeded) Error() string { return "budget exceeded: " + b.What }

// Budget is a logical clock: Tick panics with BudgetExceeded once the budget is spent.
type Budget struct {
	Left int64
	What string
}

func NewBudget(n int64, what string) *Budget { return &Budget{Left: n, What: what} }
func (b *Budget) Tick() {
	b.Left--
	if b.Left < 0 {
		panic(BudgetExceeded{b.What})
	}
}

// Guard runs f as case i at site; a BudgetExceeded panic becomes a non-termination
// violation, any other panic a "<site>/panic" violation. Returns false if f panicked.
func (w *W) Guard(i int, witness func() any, f func()) (ok bool) {
	defer func() {
		if r := recover(); r != nil {
			ok = false
			w.mu.Lock()
			site := w.openSite
			w.mu.Unlock()
			var wt any
			if witness != nil {
				func() {
					defer func() { recover() }()
					wt = witness()
				}()
			}
			if be, isB := r.(BudgetExceeded); isB {
				w.Violation(i, site+"/nontermination", "logical budget exceeded: "+be.What, wt)
				return
			}
			st := string(debug.Stack())
			if len(st) > 3000 {
				st = st[:3000]
			}
			w.Violation(i, site+"/panic", fmt.Sprintf("unexpected panic: %v\n%s", r, st), wt)
		}
	}()
	f()
	return true
}

func (w *W) watchdog() {
	budget := w.cfg.CaseCPUBudget
	if budget <= 0 {
		budget = 30
	}
	var lastSer uint64
	for {
		time.Sleep(250 * time.Millisecond)
		w.mu.Lock()
		open, ser, idx, site, start := w.isOpen, w.openSer, w.openIdx, w.openSite, w.openCPU
		w.mu.Unlock()
		if !open {
			continue
		}
		_ = lastSer
		if cpuSeconds()-start > budget {
			w.Violation(idx, site+"/nontermination", fmt.Sprintf("case %d at %s burnt more than %.0f CPU-seconds without finishing", idx, site, budget), nil)
			w.mu.Lock()
			w.res.Notes = append(w.res.Notes, fmt.Sprintf("worker aborted at case %d (CPU budget)", idx))
			w.res.To = idx + 1
			w.mu.Unlock()
			w.flush(false)
			os.Exit(3)
		}
		lastSer = ser
	}
}

func (w *W) flush(completed bool) {
	w.mu.Lock()
	defer w.mu.Unlock()
	w.res.Completed = completed
	hs := make([]byte, 0, 8*len(w.distinct))
	for h := range w.distinct {
		hs = binary.LittleEndian.AppendUint64(hs, h)
	}
	w.res.Distinct = base64.StdEncoding.EncodeToString(hs)
	b, err := json.Marshal(&w.res)
	if err != nil {
		w.res.Samples = nil
		b, _ = json.Marshal(&w.res)
	}
	tmp := w.outPath + ".tmp"
	os.WriteFile(tmp, b, 0o644)
	os.Rename(tmp, w.outPath)
}

// ---- entry point ----------------------------------------------------------------------

// Main is called by every check's main().
func Main(cfg Config) {
	var (
		tier    = flag.String("tier", "", "quick|thorough")
		worker  = flag.Bool("worker", false, "run as worker")
		batch   = flag.Int("batch", 0, "batch number (worker)")
		from    = flag.Int("from", 0, "first case (worker)")
		to      = flag.Int("to", -1, "end case, exclusive (worker)")
		out     = flag.String("out", "", "result file (worker)")
		cur     = flag.String("cur", "", "case log (worker)")
		replay  = flag.String("replay", "", "witness file to replay")
		seedArg = flag.String("seed", "", "override VERIF_SEED")
		isRep   = flag.Bool("isreplay", false, "worker runs a replay")
	)
	flag.Parse()
	if *tier == "" {
		*tier = os.Getenv("VERIF_TIER")
	}
	if *tier == "" {
		*tier = "quick"
	}
	seed := uint64(1)
	if s := os.Getenv("VERIF_SEED"); s != "" {
		if v, err := strconv.ParseInt(s, 10, 64); err == nil {
			seed = uint64(v)
		}
	}
	if *seedArg != "" {
		if v, err := strconv.ParseUint(*seedArg, 10, 64); err == nil {
			seed = v
		}
	}
	if *worker {
		runWorker(&cfg, *tier, seed, *batch, *from, *to, *out, *cur, *isRep)
		return
	}
	if *replay != "" {
		os.Exit(runReplay(&cfg, *replay))
	}
	os.Exit(runParent(&cfg, *tier, seed))
}

func runWorker(cfg *Config, tier string, seed uint64, batch, from, to int, out, cur string, isReplay bool) {
	ms := cfg.MaxStack
	if ms == 0 {
		ms = 64 << 20
	}
	debug.SetMaxStack(ms)
	procs := cfg.WorkerProcs
	if procs <= 0 {
		procs = 2
	}
	runtime.GOMAXPROCS(procs)
	if to < 0 {
		to = cfg.Cases(tier, batch)
	}
	w := &W{cfg: cfg, Tier: tier, Seed: seed, Batch: batch, From: from, To: to, Replay: isReplay,
		distinct: map[uint64]struct{}{}, vioByKey: map[string]int{}, outPath: out, maxSample: 4}
	w.res = Result{Batch: batch, From: from, To: to, Counters: map[string]int64{}, Maxes: map[string]int64{}}
	if cur != "" {
		f, err := os.OpenFile(cur, os.O_CREATE|os.O_RDWR|os.O_TRUNC, 0o644)
		if err == nil {
			w.curFile = f
		}
	}
	w.writeCur("start")
	go w.watchdog()
	cfg.Run(w)
	w.writeCur("finished")
	if out != "" {
		w.flush(true)
	}
	if isReplay {
		w.mu.Lock()
		n := len(w.res.Violations)
		w.mu.Unlock()
		if n > 0 {
			os.Exit(1)
		}
	}
	os.Exit(0)
}

type job struct {
	batch, from, to int
	restarts        int
}

func readCur(path string) (state string, idx int, site string) {
	b, err := os.ReadFile(path)
	if err != nil {
		return "none", 0, ""
	}
	f := strings.Fields(string(b))
	if len(f) == 0 {
		return "none", 0, ""
	}
	state = f[0]
	if len(f) > 1 {
		idx, _ = strconv.Atoi(f[1])
	}
	if len(f) > 2 {
		site = strings.Join(f[2:], " ")
	}
	return
}

func firstFatalLines(stderr string) string {
	lines := strings.Split(stderr, "\n")
	var keep []string
	for _, l := range lines {
		if strings.HasPrefix(l, "fatal error:") || strings.HasPrefix(l, "panic:") || strings.HasPrefix(l, "runtime: goroutine stack exceeds") || strings.Contains(l, "all goroutines are asleep") {
			keep = append(keep, l)
		}
	}
	if len(keep) == 0 {
		if len(lines) > 12 {
			lines = lines[:12]
		}
		return strings.Join(lines, "\n")
	}
	return strings.Join(keep, "\n")
}

func tail(s string, n int) string {
	if len(s) <= n {
		return s
	}
	return s[:n/2] + "\n…\n" + s[len(s)-n/2:]
}

func runParent(cfg *Config, tier string, seed uint64) int {
	start := time.Now()
	self, err := os.Executable()
	if err != nil {
		self = os.Args[0]
	}
	tmp, err := os.MkdirTemp("", "verif-"+cfg.Property+"-")
	if err != nil {
		fmt.Println("cannot create temp dir:", err)
		return 2
	}
	defer os.RemoveAll(tmp)
	par := cfg.Parallel
	if par <= 0 {
		par = runtime.NumCPU()
	}
	wall := cfg.WallLimit
	if wall == 0 {
		wall = 40 * time.Minute
	}
	nb := cfg.Batches(tier)
	var jobs []job
	for b := 0; b < nb; b++ {
		jobs = append(jobs, job{batch: b, from: 0, to: cfg.Cases(tier, b)})
	}
	m := &Merged{Counters: map[string]int64{}, Maxes: map[string]int64{}, Distinct: map[uint64]struct{}{}}
	var mu sync.Mutex
	sem := make(chan struct{}, par)
	var wg sync.WaitGroup
	var runJob func(j job)
	runJob = func(j job) {
		defer wg.Done()
		sem <- struct{}{}
		tag := fmt.Sprintf("b%d.r%d", j.batch, j.restarts)
		out := filepath.Join(tmp, tag+".json")
		cur := filepath.Join(tmp, tag+".cur")
		errp := filepath.Join(tmp, tag+".err")
		bin := self
		race := cfg.RaceBatch != nil && cfg.RaceBatch(tier, j.batch)
		if race {
			bin = self + ".race"
		}
		cmd := exec.Command(bin, "-worker", "-tier", tier, "-seed", strconv.FormatUint(seed, 10), "-batch", strconv.Itoa(j.batch),
			"-from", strconv.Itoa(j.from), "-to", strconv.Itoa(j.to), "-out", out, "-cur", cur)
		ef, _ := os.Create(errp)
		cmd.Stderr = ef
		cmd.Stdout = ef
		cmd.Env = os.Environ()
		racelog := filepath.Join(tmp, tag+".race")
		if race {
			cmd.Env = append(cmd.Env, "GORACE=halt_on_error=0 exitcode=0 history_size=3 log_path="+racelog)
		}
		timedOut := false
		err := cmd.Start()
		var werr error
		if err == nil {
			done := make(chan error, 1)
			go func() { done <- cmd.Wait() }()
			select {
			case werr = <-done:
			case <-time.After(wall):
				timedOut = true
				cmd.Process.Signal(syscall.SIGQUIT)
				select {
				case werr = <-done:
				case <-time.After(10 * time.Second):
					cmd.Process.Kill()
					werr = <-done
				}
			}
		} else {
			werr = err
		}
		ef.Close()
		<-sem
		stderrB, _ := os.ReadFile(errp)
		stderr := string(stderrB)
		var res Result
		haveRes := false
		if b, e := os.ReadFile(out); e == nil {
			if json.Unmarshal(b, &res) == nil {
				haveRes = true
			}
		}
		mu.Lock()
		defer mu.Unlock()
		if haveRes {
			mergeResult(m, &res)
		}
		if race {
			reports := ParseRaceLogs(tmp, tag+".race")
			m.Counters["race.reports_total"] += int64(len(reports))
			for _, r := range reports {
				if !r.InFP {
					m.Counters["race.reports_outside_fp"]++
					continue
				}
				key := "race/" + r.Key
				found := false
				for k := range m.Violations {
					if m.Violations[k].Key == key {
						m.Violations[k].Count++
						found = true
					}
				}
				if !found {
					p := writeWitness(Witness{Property: cfg.Property, Key: key, Tier: tier, Seed: seed, Batch: j.batch, Index: -1, Detail: "DATA RACE inside github.com/csgura/fp", Stderr: r.Text})
					m.Violations = append(m.Violations, ViolationRec{Key: key, Detail: "DATA RACE reported by the Go race detector:\n" + tail(r.Text, 3000), Replay: p, Batch: j.batch, Index: -1, Count: 1})
				}
			}
		}
		if timedOut {
			m.Inconclusive = append(m.Inconclusive, fmt.Sprintf("batch %d: wall-clock watchdog (%s) fired", j.batch, wall))
			return
		}
		if werr == nil && haveRes && res.Completed {
			return
		}
		// worker ended abnormally
		state, idx, site := readCur(cur)
		exitCode := -1
		signaled := false
		if ee, ok := werr.(*exec.ExitError); ok {
			exitCode = ee.ExitCode()
			if ws, ok := ee.Sys().(syscall.WaitStatus); ok && ws.Signaled() && ws.Signal() == syscall.SIGKILL {
				signaled = true
			}
		}
		if exitCode == 3 && haveRes {
			// CPU-budget abort: violation already recorded by the worker; continue after it
			if res.To < j.to && j.restarts < 50 {
				wg.Add(1)
				go runJob(job{batch: j.batch, from: res.To, to: j.to, restarts: j.restarts + 1})
			}
			return
		}
		if signaled {
			m.Inconclusive = append(m.Inconclusive, fmt.Sprintf("batch %d: worker killed by SIGKILL (state %s %d)", j.batch, state, idx))
			return
		}
		if strings.Contains(stderr, "no space left on device") || strings.Contains(stderr, "cannot allocate memory") || strings.Contains(stderr, "resource temporarily unavailable") {
			m.Inconclusive = append(m.Inconclusive, fmt.Sprintf("batch %d: worker died of an environment fault (disk/memory/process limit), state %s %d: %s", j.batch, state, idx, firstFatalLines(stderr)))
			return
		}
		if state == "open" {
			kind := "crash"
			if strings.Contains(stderr, "stack overflow") || strings.Contains(stderr, "goroutine stack exceeds") {
				kind = "stack-overflow"
			} else if strings.Contains(stderr, "all goroutines are asleep") {
				kind = "deadlock"
			}
			key := site + "/" + kind
			found := false
			for k := range m.Violations {
				if m.Violations[k].Key == key {
					m.Violations[k].Count++
					found = true
				}
			}
			if !found {
				detail := fmt.Sprintf("worker died (exit %d) while case %d of batch %d was open at %s:\n%s", exitCode, idx, j.batch, site, firstFatalLines(stderr))
				p := writeWitness(Witness{Property: cfg.Property, Key: key, Tier: tier, Seed: seed, Batch: j.batch, Index: idx, Detail: detail, Stderr: tail(stderr, 6000)})
				m.Violations = append(m.Violations, ViolationRec{Key: key, Detail: detail, Replay: p, Batch: j.batch, Index: idx, Count: 1})
			}
			m.Cases++
			if idx+1 < j.to && j.restarts < 50 {
				wg.Add(1)
				go runJob(job{batch: j.batch, from: idx + 1, to: j.to, restarts: j.restarts + 1})
			}
			return
		}
		// died outside any case
		key := "worker/died-outside-case"
		detail := fmt.Sprintf("worker for batch %d died (exit %d, state %s %d) outside any case:\n%s", j.batch, exitCode, state, idx, tail(stderr, 3000))
		p := writeWitness(Witness{Property: cfg.Property, Key: key, Tier: tier, Seed: seed, Batch: j.batch, Index: idx, Detail: detail, Stderr: tail(stderr, 6000)})
		m.Violations = append(m.Violations, ViolationRec{Key: key, Detail: detail, Replay: p, Batch: j.batch, Index: idx, Count: 1})
	}
	for _, j := range jobs {
		wg.Add(1)
		go runJob(j)
	}
	wg.Wait()
	return report(cfg, tier, seed, m, time.Since(start))
}

func mergeResult(m *Merged, r *Result) {
	m.Cases += r.Cases
	for k, v := range r.Counters {
		m.Counters[k] += v
	}
	for k, v := range r.Maxes {
		if cur, ok := m.Maxes[k]; !ok || v > cur {
			m.Maxes[k] = v
		}
	}
	if b, err := base64.StdEncoding.DecodeString(r.Distinct); err == nil {
		for i := 0; i+8 <= len(b); i += 8 {
			m.Distinct[binary.LittleEndian.Uint64(b[i:])] = struct{}{}
		}
	}
	if len(m.Samples) < 6 {
		for _, s := range r.Samples {
			if len(m.Samples) < 6 {
				m.Samples = append(m.Samples, s)
			}
		}
	}
	m.Notes = append(m.Notes, r.Notes...)
	for _, v := range r.Violations {
		found := false
		for k := range m.Violations {
			if m.Violations[k].Key == v.Key {
				m.Violations[k].Count += v.Count
				found = true
			}
		}
		if !found {
			m.Violations = append(m.Violations, v)
		}
	}
}

// ---- known findings -------------------------------------------------------------------

type knownFinding struct{ property, key, text string }

func loadKnown() []knownFinding {
	b, err := os.ReadFile(filepath.Join(VerifDir, "known_findings.txt"))
	if err != nil {
		return nil
	}
	var out []knownFinding
	for _, l := range strings.Split(string(b), "\n") {
		l = strings.TrimSpace(l)
		if !strings.HasPrefix(l, "known:") {
			continue
		}
		kf := knownFinding{}
		rest := strings.TrimSpace(strings.TrimPrefix(l, "known:"))
		fs := strings.Fields(rest)
		var text []string
		for _, f := range fs {
			switch {
			case strings.HasPrefix(f, "property=") && kf.property == "":
				kf.property = strings.TrimPrefix(f, "property=")
			case strings.HasPrefix(f, "key=") && kf.key == "":
				kf.key = strings.TrimPrefix(f, "key=")
			default:
				text = append(text, f)
			}
		}
		kf.text = strings.Join(text, " ")
		if kf.property != "" && kf.key != "" {
			out = append(out, kf)
		}
	}
	return out
}

func report(cfg *Config, tier string, seed uint64, m *Merged, wall time.Duration) int {
	known := loadKnown()
	sort.Slice(m.Violations, func(i, j int) bool { return m.Violations[i].Key < m.Violations[j].Key })
	nViol, nKnown := 0, 0
	for _, v := range m.Violations {
		isKnown := false
		for _, k := range known {
			if k.property == cfg.Property && k.key == v.Key {
				isKnown = true
				fmt.Printf("KNOWN-FINDING: property=%s %s (key=%s, seen %d times)\n", cfg.Property, k.text, v.Key, v.Count)
			}
		}
		if isKnown {
			nKnown++
			continue
		}
		nViol++
		fmt.Printf("VIOLATION property=%s replay=%s\n", cfg.Property, v.Replay)
		fmt.Printf("  key=%s occurrences=%d\n", v.Key, v.Count)
		for _, l := range strings.Split(strings.TrimRight(v.Detail, "\n"), "\n") {
			fmt.Printf("  | %s\n", l)
		}
	}
	// floors
	if cfg.Floors != nil {
		fl := cfg.Floors(tier)
		names := make([]string, 0, len(fl))
		for k := range fl {
			names = append(names, k)
		}
		sort.Strings(names)
		for _, k := range names {
			got := m.Counters[k]
			if k == "distinct" {
				got = int64(len(m.Distinct))
			}
			if k == "cases" {
				got = m.Cases
			}
			if got < fl[k] {
				m.Inconclusive = append(m.Inconclusive, fmt.Sprintf("floor not met: %s=%d < %d", k, got, fl[k]))
			}
		}
	}
	for _, s := range m.Inconclusive {
		fmt.Printf("INCONCLUSIVE property=%s %s\n", cfg.Property, s)
	}
	// evidence
	cov := map[string]any{
		"evaluations":         m.Cases,
		"distinct_nontrivial": len(m.Distinct),
		"rule":                cfg.Rule,
		"samples":             m.Samples,
	}
	if len(m.Samples) == 0 {
		cov["samples"] = []any{}
	}
	counters := map[string]int64{}
	hits := map[string]int64{}
	for k, v := range m.Counters {
		if strings.HasPrefix(k, "hit.") {
			hits[strings.TrimPrefix(k, "hit.")] = v
		} else {
			counters[k] = v
		}
	}
	cov["counters"] = counters
	if len(hits) > 0 {
		cov["hits"] = hits
	}
	if len(m.Maxes) > 0 {
		cov["maxes"] = m.Maxes
	}
	if cfg.Exhaustive != nil && cfg.Exhaustive(tier) {
		cov["exhaustive"] = true
	}
	if cfg.Finish != nil {
		cfg.Finish(tier, m, cov)
	}
	level := cfg.Level
	if level == "" {
		level = "exploration"
	}
	ev := map[string]any{
		"property_id":    cfg.Property,
		"tier":           tier,
		"seed":           int64(seed),
		"level":          level,
		"coverage":       cov,
		"assumptions":    cfg.Assumptions,
		"wall_s":         float64(int(wall.Seconds()*10)) / 10,
		"violations":     nViol,
		"known_findings": nKnown,
		"inconclusive":   len(m.Inconclusive),
		"inconclusive_reasons": m.Inconclusive,
		"notes":          m.Notes,
	}
	if cfg.Assumptions == nil {
		ev["assumptions"] = []string{}
	}
	b, _ := json.MarshalIndent(ev, "", " ")
	os.MkdirAll(filepath.Join(VerifDir, "evidence"), 0o755)
	os.WriteFile(filepath.Join(VerifDir, "evidence", cfg.Property+".json"), append(b, '\n'), 0o644)
	verdict := "held on what was observed"
	if nViol > 0 {
		verdict = "VIOLATED"
	} else if len(m.Inconclusive) > 0 {
		verdict = "inconclusive"
	}
	fmt.Printf("%s %s seed=%d: %s — %d cases, %d distinct non-trivial, %d violations, %d known findings, %d inconclusive, %.1fs\n",
		cfg.Property, tier, seed, verdict, m.Cases, len(m.Distinct), nViol, nKnown, len(m.Inconclusive), wall.Seconds())
	if nViol > 0 {
		return 1
	}
	return 0
}

func runReplay(cfg *Config, path string) int {
	b, err := os.ReadFile(path)
	if err != nil {
		fmt.Println("cannot read witness:", err)
		return 2
	}
	var wt Witness
	if err := json.Unmarshal(b, &wt); err != nil {
		fmt.Println("bad witness:", err)
		return 2
	}
	if wt.Index < 0 {
		fmt.Println("witness is a race report; re-run the check to reproduce:\n" + wt.Stderr)
		return 1
	}
	self, _ := os.Executable()
	bin := self
	if cfg.RaceBatch != nil && cfg.RaceBatch(wt.Tier, wt.Batch) {
		bin = self + ".race"
	}
	cmd := exec.Command(bin, "-worker", "-isreplay", "-tier", wt.Tier, "-seed", strconv.FormatUint(wt.Seed, 10), "-batch", strconv.Itoa(wt.Batch),
		"-from", strconv.Itoa(wt.Index), "-to", strconv.Itoa(wt.Index+1))
	cmd.Stdout = os.Stdout
	cmd.Stderr = os.Stderr
	err = cmd.Run()
	if err != nil {
		fmt.Printf("replay of %s case batch=%d index=%d seed=%d: violation reproduced (%v)\n", wt.Property, wt.Batch, wt.Index, wt.Seed, err)
		return 1
	}
	fmt.Printf("replay of %s case batch=%d index=%d seed=%d: no violation\n", wt.Property, wt.Batch, wt.Index, wt.Seed)
	return 0
}
