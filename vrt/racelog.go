package vrt

import (
	"os"
	"path/filepath"
	"regexp"
	"sort"
	"strings"
)

// RaceReport is one "WARNING: DATA RACE" block of a race-detector log.
type RaceReport struct {
	Text string
	Key  string // the two outermost-in-fp source locations, line numbers kept, sorted
	InFP bool   // at least one of the two accessing stacks has its top fp frame inside csgura/fp
}

// A frame location line: absolute path, or a module-relative one when the worker was built
// with -trimpath (tools/with_mutant.sh does): "github.com/csgura/fp@v0.0.0/lazy/lazy.go:67".
var frameRe = regexp.MustCompile(`^\s+(\S+\.go):(\d+)`)

func isFPFile(p string) bool {
	return strings.HasPrefix(p, "/repo/") || strings.Contains(p, "github.com/csgura/fp")
}

// fpRel makes the location relative to the module root whatever the build mode was, so that
// the violation key of a race is the same for /repo and for a -trimpath build of a copy.
var fpModRe = regexp.MustCompile(`^.*github\.com/csgura/fp(@[^/]*)?/`)

func fpRel(p string) string {
	return fpModRe.ReplaceAllString(strings.TrimPrefix(p, "/repo/"), "")
}

func isHarnessFile(p string) bool {
	return strings.HasPrefix(p, "/verif/") || strings.HasPrefix(p, "verif/")
}

// ParseRaceLogs reads all files dir/prefix* and splits them into reports.
func ParseRaceLogs(dir, prefix string) []RaceReport {
	files, _ := filepath.Glob(filepath.Join(dir, prefix+"*"))
	var out []RaceReport
	for _, f := range files {
		b, err := os.ReadFile(f)
		if err != nil {
			continue
		}
		blocks := strings.Split(string(b), "==================")
		for _, blk := range blocks {
			if !strings.Contains(blk, "WARNING: DATA RACE") {
				continue
			}
			out = append(out, parseRaceBlock(blk))
		}
	}
	return out
}

func parseRaceBlock(blk string) RaceReport {
	r := RaceReport{Text: strings.TrimSpace(blk)}
	// sections are separated by blank lines; the first two are the conflicting accesses
	secs := strings.Split(strings.TrimSpace(blk), "\n\n")
	var locs []string
	for si, sec := range secs {
		if si >= 2 {
			break
		}
		// innermost frame that lies in csgura/fp
		lines := strings.Split(sec, "\n")
		loc := ""
		for _, l := range lines {
			m := frameRe.FindStringSubmatch(l)
			if m == nil {
				continue
			}
			if isFPFile(m[1]) {
				loc = fpRel(m[1]) + ":" + m[2]
				break
			}
			// a frame of the harness (or runtime) comes first: the access itself is not in fp
			if isHarnessFile(m[1]) {
				break
			}
		}
		if loc != "" {
			r.InFP = true
			locs = append(locs, loc)
		} else {
			locs = append(locs, "outside-fp")
		}
	}
	sort.Strings(locs)
	r.Key = strings.Join(locs, "+")
	return r
}
