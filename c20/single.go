package main

import (
	"errors"
	"fmt"
	"math/rand/v2"
	"slices"
	"strings"

	ir "verif/refmodel/iterref"
	"verif/vrt"

	"github.com/csgura/fp"
	"github.com/csgura/fp/as"
	"github.com/csgura/fp/hash"
	"github.com/csgura/fp/immutable"
	"github.com/csgura/fp/iterator"
	"github.com/csgura/fp/list"
	"github.com/csgura/fp/mutable"
	"github.com/csgura/fp/option"
	"github.com/csgura/fp/seq"
	"github.com/csgura/fp/try"
)

// ---- the script runner ------------------------------------------------------------------

type scriptStats struct {
	redundant, blind, probes, nexts int
	// between, when set, runs after the HasNext calls and before the Next of element pos
	// (family 4: runtime.GC() between HasNext and Next)
	between func(pos int)
}

func safeNext[T any](it fp.Iterator[T]) (v T, panicked bool) {
	defer func() {
		if r := recover(); r != nil {
			if _, is := r.(vrt.BudgetExceeded); is {
				panic(r)
			}
			panicked = true
		}
	}()
	v = it.Next()
	return
}

// runScript drives it by the call pattern: pre[i] HasNext calls before the i-th Next (pattern
// derived from seed when pre is shorter), then the exhaustion tail. ref is the expected
// sequence (or multiset if unordered).
func runScript[T comparable](it fp.Iterator[T], ref []T, unordered bool, pr *rand.Rand, st *scriptStats) *failure {
	remaining := map[T]int{}
	if unordered {
		for _, v := range ref {
			remaining[v]++
		}
	}
	var got []T
	for pos := 0; pos < len(ref); pos++ {
		nh := 1
		switch x := pr.IntN(10); {
		case x < 2:
			nh = 0
		case x < 5:
			nh = 1
		case x < 8:
			nh = 2
		default:
			nh = 3 + pr.IntN(2)
		}
		for j := 0; j < nh; j++ {
			if !it.HasNext() {
				if j > 0 {
					return failf("hasnext-not-idempotent", "HasNext call %d before element %d returned false after returning true (delivered so far %s, reference %s)", j+1, pos, clip(got), clip(ref))
				}
				return failf("hasnext-wrong", "HasNext = false with %d of %d elements delivered (delivered %s, reference %s)", pos, len(ref), clip(got), clip(ref))
			}
		}
		if nh >= 2 {
			st.redundant++
		}
		if nh == 0 {
			st.blind++
		}
		if st.between != nil {
			st.between(pos)
		}
		v, panicked := safeNext(it)
		st.nexts++
		suffix := ""
		kind := "next-wrong"
		if nh == 0 {
			kind, suffix = "blind-next-wrong", " (Next without a preceding HasNext)"
		}
		if panicked {
			return failf(kind, "Next panicked with %d of %d elements delivered after %d HasNext calls%s (reference %s)", pos, len(ref), nh, suffix, clip(ref))
		}
		got = append(got, v)
		if unordered {
			if remaining[v] == 0 {
				return failf(kind, "Next returned %v, which is not among the elements still to be delivered (duplicate or foreign); delivered %s, reference multiset %s%s", v, clip(got), clip(ref), suffix)
			}
			remaining[v]--
		} else if v != ref[pos] {
			return failf(kind, "element %d after %d HasNext calls: Next returned %v, reference %v (delivered %s, reference %s)%s", pos, nh, v, ref[pos], clip(got), clip(ref), suffix)
		}
	}
	// exhaustion: HasNext stays false, Next panics instead of returning
	rounds := 1 + pr.IntN(3)
	for k := 0; k < rounds; k++ {
		for j := 0; j <= pr.IntN(3); j++ {
			if it.HasNext() {
				return failf("exhausted-hasnext-true", "HasNext = true after all %d reference elements were delivered (round %d; delivered %s)", len(ref), k, clip(got))
			}
		}
		v, panicked := safeNext(it)
		st.probes++
		if !panicked {
			return failf("exhausted-next-returned", "Next on the exhausted iterator returned %v instead of panicking (round %d; all %d reference elements delivered: %s)", v, k, len(ref), clip(got))
		}
	}
	if it.HasNext() {
		return failf("exhausted-hasnext-true", "HasNext = true after a panicking Next on the exhausted iterator")
	}
	return nil
}

// ---- specs ------------------------------------------------------------------------------

type opSpec struct {
	Name string `json:"op"`
	A    int    `json:"a,omitempty"`
	B    int    `json:"b,omitempty"`
	Xs   []int  `json:"xs,omitempty"`
}

type singleSpec struct {
	Base    string   `json:"base"`
	Xs      []int    `json:"input"`
	Ops     []opSpec `json:"ops"`
	Final   string   `json:"final,omitempty"`
	FA      int      `json:"fa,omitempty"`
	PreSeed uint64   `json:"pattern_seed"`
}

// node: an Iterator[int] under construction with its reference.
type node struct {
	it        fp.Iterator[int]
	ref       []int
	unordered bool
	twin      bool // reference = canonical drain of an identically built twin
}

var intBasesOrdered = []string{"iterator.Of", "iterator.FromSeq", "iterator.FromSlice", "fp.IteratorOfSeq", "seq.Iterator", "iterator.ReverseSeq", "iterator.ReverseSlice",
	"iterator.FromOption", "fp.IteratorOfOption", "option.Iterator", "try.Iterator", "iterator.FromPtr", "iterator.FromList", "iterator.List", "iterator.Range", "iterator.RangeClosed",
	"iterator.Pull", "fp.MakePullIterator", "iterator.Empty", "iterator.Generate.Take", "fp.Iterator{}", "immutable.Set.Iterator", "fp.Map.Keys(immutable)", "fp.Map.Values(immutable)",
	"fp.Set{}.Iterator", "fp.Map{}.Keys", "fp.Map{}.Values", "option.Traverse", "try.Traverse"}
var intBasesUnordered = []string{"iterator.FromMapKey", "iterator.FromMapValue", "fp.Map.Keys(mutable)", "fp.Map.Values(mutable)", "mutable.Set.Iterator", "fp.Set.Iterator(UnsafeGoSet)",
	"fp.IteratorOfGoSet", "fp.Map.Keys(UnsafeGoMap)", "fp.Map.Values(UnsafeGoMap)"}
var tupleBases = []string{"iterator.FromMap", "fp.IteratorOfGoMap", "fp.Map.Iterator(mutable)", "fp.Map.Iterator(UnsafeGoMap)", "fp.Map.Iterator(immutable)", "CopyOnWriteMap.Iterator", "fp.Map{}.Iterator"}

type opDef struct {
	name string
	ms   bool // meaningful on a multiset (order-agnostic)
}

var opDefs = []opDef{
	{"Iterator.Take", false}, {"Iterator.TakeWhile", false}, {"Iterator.Drop", false}, {"Iterator.DropWhile", false}, {"Iterator.Filter", true}, {"Iterator.FilterNot", true},
	{"Iterator.TapEach", true}, {"Iterator.Appended", false}, {"Iterator.Concat(it,seq)", false}, {"Iterator.Concat(seq,it)", false}, {"Iterator.Concat(it,concat)", false},
	{"Iterator.Concat(concat,it)", false}, {"Iterator.Map", true}, {"Iterator.FlatMap", false}, {"iterator.Map", true}, {"iterator.FlatMap", false}, {"iterator.FilterMap", true},
	{"iterator.Flatten", false}, {"iterator.Concat", false}, {"iterator.Scan", false}, {"iterator.Lift", true}, {"iterator.Compose", false}, {"iterator.ComposePure", false}, {"iterator.Pull", true},
	{"iterator.ToList", true}, {"list.Collect", true}, {"iterator.Duplicate.left", true}, {"iterator.Duplicate.right", true}, {"iterator.Span.left", false}, {"iterator.Span.right", false},
	{"iterator.Partition.left", true}, {"iterator.Partition.right", true}, {"iterator.Ap", false}, {"iterator.Map2", false}, {"iterator.Flap", false}, {"iterator.Method1", false},
}
var finals = []string{"iterator.Zip(it,other)", "iterator.Zip(other,it)", "iterator.Zip3", "iterator.ZipWithIndex"}

func singleNames() []string {
	out := []string{}
	out = append(out, intBasesOrdered...)
	out = append(out, intBasesUnordered...)
	out = append(out, tupleBases...)
	for _, o := range opDefs {
		out = append(out, o.name)
	}
	out = append(out, finals...)
	return out
}

func dedupe(xs []int) []int {
	seen := map[int]bool{}
	out := []int{}
	for _, x := range xs {
		if !seen[x] {
			seen[x] = true
			out = append(out, x)
		}
	}
	return out
}

func valOf(k int) int { return k*7 + 1 }

var hs = hash.Number[int]()

func goMapOf(keys []int) map[int]int {
	m := map[int]int{}
	for _, k := range keys {
		m[k] = valOf(k)
	}
	return m
}

func drainInt(it fp.Iterator[int]) []int {
	out := []int{}
	for it.HasNext() {
		out = append(out, it.Next())
		if len(out) > 100000 {
			panic(vrt.BudgetExceeded{What: "canonical drain of the twin does not end"})
		}
	}
	return out
}

func pf(i, t int) func(int) bool {
	switch ((i % 6) + 6) % 6 {
	case 0:
		return func(x int) bool { return x%2 == 0 }
	case 1:
		return func(x int) bool { return true }
	case 2:
		return func(x int) bool { return false }
	case 3:
		return func(x int) bool { return x < t }
	case 4:
		return func(x int) bool { return x%3 != 0 }
	}
	return func(x int) bool { return x >= t }
}

func ff(i int) func(int) int {
	switch ((i % 3) + 3) % 3 {
	case 0:
		return func(x int) int { return x + 1 }
	case 1:
		return func(x int) int { return x * 2 }
	}
	return func(x int) int { return -x }
}

func ef(i int) func(int) []int {
	switch ((i % 4) + 4) % 4 {
	case 0:
		return func(x int) []int {
			if x%2 == 0 {
				return nil
			}
			return []int{x}
		}
	case 1:
		return func(x int) []int { return []int{x, x + 1} }
	case 2:
		return func(x int) []int { return nil }
	}
	return func(x int) []int {
		if x%3 == 0 {
			return []int{x, x, x}
		}
		return nil
	}
}

// buildBase builds an int base. For trie-ordered bases the order comes from a twin.
func buildBase(name string, xs []int) node {
	xs = append([]int(nil), xs...)
	switch name {
	case "iterator.Of":
		return node{it: iterator.Of(xs...), ref: xs}
	case "iterator.FromSeq":
		return node{it: iterator.FromSeq(xs), ref: xs}
	case "iterator.FromSlice":
		return node{it: iterator.FromSlice(xs), ref: xs}
	case "fp.IteratorOfSeq":
		return node{it: fp.IteratorOfSeq(xs), ref: xs}
	case "seq.Iterator":
		return node{it: seq.Iterator(xs), ref: xs}
	case "iterator.ReverseSeq":
		return node{it: iterator.ReverseSeq(xs), ref: ir.ReverseS(xs)}
	case "iterator.ReverseSlice":
		return node{it: iterator.ReverseSlice(xs), ref: ir.ReverseS(xs)}
	case "iterator.FromOption", "fp.IteratorOfOption", "option.Iterator", "try.Iterator", "iterator.FromPtr":
		if len(xs) > 1 {
			xs = xs[:1]
		}
		o := fp.None[int]()
		if len(xs) == 1 {
			o = fp.Some(xs[0])
		}
		switch name {
		case "iterator.FromOption":
			return node{it: iterator.FromOption(o), ref: xs}
		case "fp.IteratorOfOption":
			return node{it: fp.IteratorOfOption(o), ref: xs}
		case "option.Iterator":
			return node{it: option.Iterator(o), ref: xs}
		case "try.Iterator":
			if len(xs) == 1 {
				return node{it: try.Iterator(try.Success(xs[0])), ref: xs}
			}
			return node{it: try.Iterator(try.Failure[int](errors.New("x"))), ref: xs}
		}
		if len(xs) == 1 {
			return node{it: iterator.FromPtr(&xs[0]), ref: xs}
		}
		return node{it: iterator.FromPtr[int](nil), ref: xs}
	case "iterator.FromList":
		return node{it: iterator.FromList(list.Of(xs...)), ref: xs}
	case "iterator.List":
		l := list.Empty[int]()
		for i := len(xs) - 1; i >= 0; i-- {
			l = list.Apply(xs[i], l)
		}
		return node{it: iterator.List(l), ref: xs}
	case "iterator.Range", "iterator.RangeClosed", "iterator.Generate.Take":
		off := 0
		if len(xs) > 0 {
			off = xs[0]
		}
		ref := make([]int, len(xs))
		for i := range ref {
			ref[i] = off + i
		}
		switch name {
		case "iterator.Range":
			return node{it: iterator.Range(off, off+len(xs)), ref: ref}
		case "iterator.RangeClosed":
			return node{it: iterator.RangeClosed(off, off+len(xs)-1), ref: ref}
		}
		i := 0
		return node{it: iterator.Generate(func() int { i++; return off + i - 1 }).Take(len(xs)), ref: ref}
	case "iterator.Pull":
		return node{it: iterator.Pull(slices.Values(xs)), ref: xs}
	case "fp.MakePullIterator":
		return node{it: fp.MakePullIterator(slices.Values(xs)), ref: xs}
	case "iterator.Empty":
		return node{it: iterator.Empty[int](), ref: nil}
	case "fp.Iterator{}":
		return node{it: fp.Iterator[int]{}, ref: nil}
	case "fp.Set{}.Iterator":
		return node{it: fp.Set[int]{}.Iterator(), ref: nil}
	case "fp.Map{}.Keys":
		return node{it: fp.Map[int, int]{}.Keys(), ref: nil}
	case "fp.Map{}.Values":
		return node{it: fp.Map[int, int]{}.Values(), ref: nil}
	case "option.Traverse":
		return node{it: option.Traverse(iterator.FromSeq(xs), func(x int) fp.Option[int] { return fp.Some(x + 1) }).Get(), ref: ir.MapS(xs, func(x int) int { return x + 1 })}
	case "try.Traverse":
		return node{it: try.Traverse(iterator.FromSeq(xs), func(x int) fp.Try[int] { return fp.Success(x * 2) }).Get(), ref: ir.MapS(xs, func(x int) int { return x * 2 })}
	case "immutable.Set.Iterator":
		return node{it: immutable.Set(hs, xs...).Iterator(), twin: true}
	case "fp.Map.Keys(immutable)", "fp.Map.Values(immutable)":
		ts := make([]fp.Tuple2[int, int], len(xs))
		for i, k := range xs {
			ts[i] = as.Tuple(k, valOf(k))
		}
		m := immutable.Map(hs, ts...)
		if name == "fp.Map.Keys(immutable)" {
			return node{it: m.Keys(), twin: true}
		}
		return node{it: m.Values(), twin: true}

	// unordered
	case "iterator.FromMapKey":
		ks := dedupe(xs)
		return node{it: iterator.FromMapKey(goMapOf(ks)), ref: ks, unordered: true}
	case "iterator.FromMapValue":
		ks := dedupe(xs)
		return node{it: iterator.FromMapValue(goMapOf(ks)), ref: ir.MapS(ks, valOf), unordered: true}
	case "fp.Map.Keys(mutable)":
		ks := dedupe(xs)
		return node{it: mutable.MapOf(goMapOf(ks)).Keys(), ref: ks, unordered: true}
	case "fp.Map.Values(mutable)":
		ks := dedupe(xs)
		return node{it: mutable.MapOf(goMapOf(ks)).Values(), ref: ir.MapS(ks, valOf), unordered: true}
	case "mutable.Set.Iterator":
		ks := dedupe(xs)
		return node{it: mutable.SetOf(ks...).Iterator(), ref: ks, unordered: true}
	case "fp.Set.Iterator(UnsafeGoSet)":
		ks := dedupe(xs)
		s := fp.Set[int]{}
		for _, k := range ks {
			s = s.Incl(k)
		}
		return node{it: s.Iterator(), ref: ks, unordered: true}
	case "fp.IteratorOfGoSet":
		ks := dedupe(xs)
		m := map[int]bool{}
		for _, k := range ks {
			m[k] = true
		}
		return node{it: fp.IteratorOfGoSet(m), ref: ks, unordered: true}
	case "fp.Map.Keys(UnsafeGoMap)", "fp.Map.Values(UnsafeGoMap)":
		ks := dedupe(xs)
		m := fp.Map[int, int]{}
		for _, k := range ks {
			m = m.Updated(k, valOf(k))
		}
		if name == "fp.Map.Keys(UnsafeGoMap)" {
			return node{it: m.Keys(), ref: ks, unordered: true}
		}
		return node{it: m.Values(), ref: ir.MapS(ks, valOf), unordered: true}
	}
	panic("harness: unknown base " + name)
}

func tup(k int) fp.Tuple2[int, int] { return as.Tuple(k, valOf(k)) }

// buildTupleBase: iterators of key/value pairs.
func buildTupleBase(name string, xs []int) (it fp.Iterator[fp.Tuple2[int, int]], ref []fp.Tuple2[int, int], unordered, twin bool) {
	ks := dedupe(xs)
	ref = make([]fp.Tuple2[int, int], len(ks))
	for i, k := range ks {
		ref[i] = tup(k)
	}
	switch name {
	case "iterator.FromMap":
		return iterator.FromMap(goMapOf(ks)), ref, true, false
	case "fp.IteratorOfGoMap":
		return fp.IteratorOfGoMap(goMapOf(ks)), ref, true, false
	case "fp.Map.Iterator(mutable)":
		return mutable.MapOf(goMapOf(ks)).Iterator(), ref, true, false
	case "fp.Map.Iterator(UnsafeGoMap)":
		m := fp.Map[int, int]{}
		for _, k := range ks {
			m = m.Updated(k, valOf(k))
		}
		return m.Iterator(), ref, true, false
	case "fp.Map.Iterator(immutable)":
		return immutable.Map(hs, ref...).Iterator(), ref, false, true
	case "CopyOnWriteMap.Iterator":
		m := &mutable.CopyOnWriteMap[int, int]{}
		for _, k := range ks {
			m.Updated(k, valOf(k))
		}
		return m.Iterator(), ref, true, false
	case "fp.Map{}.Iterator":
		return fp.Map[int, int]{}.Iterator(), nil, false, false
	}
	panic("harness: unknown tuple base " + name)
}

func seqIt(xs []int) fp.Iterator[int] { return iterator.FromSeq(append([]int(nil), xs...)) }

// applyOp applies one combinator to an ordered (or multiset) node.
func applyOp(n node, o opSpec) node {
	it := n.it
	out := node{unordered: n.unordered, twin: n.twin}
	p := pf(o.A, o.B)
	np := func(x int) bool { return !p(x) }
	f := ff(o.A)
	e := ef(o.A)
	split := len(o.Xs) / 2
	var tr func([]int) []int
	switch o.Name {
	case "Iterator.Take":
		out.it, tr = it.Take(o.A), func(xs []int) []int { return ir.TakeS(xs, o.A) }
	case "Iterator.TakeWhile":
		out.it, tr = it.TakeWhile(p), func(xs []int) []int { return ir.TakeWhileS(xs, p) }
	case "Iterator.Drop":
		out.it, tr = it.Drop(o.A), func(xs []int) []int { return ir.DropS(xs, o.A) }
	case "Iterator.DropWhile":
		out.it, tr = it.DropWhile(p), func(xs []int) []int { return ir.DropWhileS(xs, p) }
	case "Iterator.Filter":
		out.it, tr = it.Filter(p), func(xs []int) []int { return ir.FilterS(xs, p) }
	case "Iterator.FilterNot":
		out.it, tr = it.FilterNot(p), func(xs []int) []int { return ir.FilterS(xs, np) }
	case "Iterator.TapEach":
		out.it, tr = it.TapEach(func(int) {}), func(xs []int) []int { return xs }
	case "Iterator.Appended":
		out.it, tr = it.Appended(o.B), func(xs []int) []int { return ir.ConcatS(xs, []int{o.B}) }
	case "Iterator.Concat(it,seq)":
		out.it, tr = it.Concat(seqIt(o.Xs)), func(xs []int) []int { return ir.ConcatS(xs, o.Xs) }
	case "Iterator.Concat(seq,it)":
		out.it, tr = seqIt(o.Xs).Concat(it), func(xs []int) []int { return ir.ConcatS(o.Xs, xs) }
	case "Iterator.Concat(it,concat)":
		out.it, tr = it.Concat(seqIt(o.Xs[:split]).Concat(seqIt(o.Xs[split:]))), func(xs []int) []int { return ir.ConcatS(xs, o.Xs) }
	case "Iterator.Concat(concat,it)":
		out.it, tr = seqIt(o.Xs[:split]).Concat(seqIt(o.Xs[split:])).Concat(it), func(xs []int) []int { return ir.ConcatS(o.Xs, xs) }
	case "Iterator.Map":
		out.it, tr = it.Map(f), func(xs []int) []int { return ir.MapS(xs, f) }
	case "iterator.Map":
		out.it, tr = iterator.Map(it, f), func(xs []int) []int { return ir.MapS(xs, f) }
	case "iterator.Lift":
		out.it, tr = iterator.Lift(f)(it), func(xs []int) []int { return ir.MapS(xs, f) }
	case "Iterator.FlatMap":
		out.it, tr = it.FlatMap(func(x int) fp.Iterator[int] { return seqIt(e(x)) }), func(xs []int) []int { return ir.FlatMapS(xs, e) }
	case "iterator.FlatMap":
		out.it, tr = iterator.FlatMap(it, func(x int) fp.Iterator[int] { return iterator.Of(e(x)...) }), func(xs []int) []int { return ir.FlatMapS(xs, e) }
	case "iterator.Flatten":
		out.it, tr = iterator.Flatten(iterator.Map(it, func(x int) fp.Iterator[int] { return seqIt(e(x)) })), func(xs []int) []int { return ir.FlatMapS(xs, e) }
	case "iterator.Compose":
		k := iterator.Compose(func(s fp.Iterator[int]) fp.Iterator[int] { return s }, func(x int) fp.Iterator[int] { return seqIt(e(x)) })
		out.it, tr = k(it), func(xs []int) []int { return ir.FlatMapS(xs, e) }
	case "iterator.ComposePure":
		// ComposePure(f)(a) = Of(f(a)); flat-mapped over the source it is a Map
		k := iterator.ComposePure(f)
		out.it, tr = iterator.FlatMap(it, k), func(xs []int) []int { return ir.MapS(xs, f) }
	case "iterator.FilterMap":
		om := func(x int) fp.Option[int] {
			if p(x) {
				return fp.Some(f(x))
			}
			return fp.None[int]()
		}
		out.it, tr = iterator.FilterMap(it, om), func(xs []int) []int { return ir.MapS(ir.FilterS(xs, p), f) }
	case "iterator.Concat":
		out.it, tr = iterator.Concat(o.B, it), func(xs []int) []int { return ir.ConcatS([]int{o.B}, xs) }
	case "iterator.Scan":
		g := func(acc, x int) int { return acc*3 + x }
		out.it, tr = iterator.Scan(it, o.B, g), func(xs []int) []int { return ir.ScanS(xs, o.B, g) }
	case "iterator.Pull":
		out.it, tr = iterator.Pull(it.All()), func(xs []int) []int { return xs }
	case "iterator.ToList":
		out.it, tr = iterator.FromList(iterator.ToList(it)), func(xs []int) []int { return xs }
	case "list.Collect":
		out.it, tr = iterator.List(list.Collect(it)), func(xs []int) []int { return xs }
	case "iterator.Duplicate.left":
		l, _ := iterator.Duplicate(it)
		out.it, tr = l, func(xs []int) []int { return xs }
	case "iterator.Duplicate.right":
		_, r := iterator.Duplicate(it)
		out.it, tr = r, func(xs []int) []int { return xs }
	case "iterator.Span.left":
		l, _ := iterator.Span(it, p)
		out.it, tr = l, func(xs []int) []int { return ir.TakeWhileS(xs, p) }
	case "iterator.Span.right":
		_, r := iterator.Span(it, p)
		out.it, tr = r, func(xs []int) []int { return ir.DropWhileS(xs, p) }
	case "iterator.Partition.left":
		l, _ := iterator.Partition(it, p)
		out.it, tr = l, func(xs []int) []int { return ir.FilterS(xs, p) }
	case "iterator.Partition.right":
		_, r := iterator.Partition(it, p)
		out.it, tr = r, func(xs []int) []int { return ir.FilterS(xs, np) }
	case "iterator.Ap":
		fs := iterator.Of[fp.Func1[int, int]](ff(0), ff(1), ff(2)).Take(o.A % 4)
		out.it, out.twin = iterator.Ap(fs, it), true
	case "iterator.Map2":
		out.it, out.twin = iterator.Map2(seqIt(o.Xs), it, func(a, b int) int { return a*100 + b }), true
	case "iterator.Flap":
		fs := iterator.Map(it, func(x int) fp.Func1[int, int] { return func(y int) int { return x*10 + y } })
		out.it, out.twin = iterator.Flap(fs)(o.B), true
	case "iterator.Method1":
		out.it, out.twin = iterator.Method1(it, func(a, b int) int { return a*10 + b })(o.B), true
	default:
		panic("harness: unknown op " + o.Name)
	}
	if tr != nil && !n.twin {
		out.ref = tr(n.ref)
	}
	return out
}

func buildChain(sp *singleSpec) node {
	n := buildBase(sp.Base, sp.Xs)
	for _, o := range sp.Ops {
		n = applyOp(n, o)
	}
	return n
}

func isTupleBase(name string) bool { return slices.Contains(tupleBases, name) }

// execSingle runs the spec once (fresh iterators) and returns the verdict.
func execSingle(sp *singleSpec, st *scriptStats) (f *failure, refLen int) {
	defer func() {
		if r := recover(); r != nil {
			if be, is := r.(vrt.BudgetExceeded); is {
				f = failf("nontermination", "logical budget exceeded: %s", be.What)
				return
			}
			f = failf("panic", "unexpected panic outside an exhausted Next: %v", r)
		}
	}()
	pr := pcg(sp.PreSeed)
	if isTupleBase(sp.Base) {
		it, ref, unordered, twin := buildTupleBase(sp.Base, sp.Xs)
		if twin {
			t2, _, _, _ := buildTupleBase(sp.Base, sp.Xs)
			order := []fp.Tuple2[int, int]{}
			for t2.HasNext() {
				order = append(order, t2.Next())
			}
			if f := sameMultiset(order, ref); f != nil {
				return f, len(ref)
			}
			ref = order
		}
		return runScript(it, ref, unordered, pr, st), len(ref)
	}
	n := buildChain(sp)
	if n.twin {
		t := buildChain(sp)
		n.ref = drainInt(t.it)
		n.unordered = false
		// trie-ordered bases: the twin's order must at least be a permutation of the inserted keys
		if len(sp.Ops) == 0 {
			var want []int
			switch sp.Base {
			case "immutable.Set.Iterator", "fp.Map.Keys(immutable)":
				want = dedupe(sp.Xs)
			case "fp.Map.Values(immutable)":
				want = ir.MapS(dedupe(sp.Xs), valOf)
			}
			if want != nil {
				if f := sameMultiset(n.ref, want); f != nil {
					return f, len(want)
				}
			}
		}
	}
	switch sp.Final {
	case "":
		return runScript(n.it, n.ref, n.unordered, pr, st), len(n.ref)
	case "iterator.ZipWithIndex":
		ref := make([]fp.Tuple2[int, int], len(n.ref))
		for i, v := range n.ref {
			ref[i] = as.Tuple(i, v)
		}
		if n.unordered {
			// indices are attached in iteration order: only the value multiset and 0..n-1 are fixed
			it := iterator.Map(iterator.ZipWithIndex(n.it), func(t fp.Tuple2[int, int]) int { return t.I2 })
			return runScript(it, n.ref, true, pr, st), len(ref)
		}
		return runScript(iterator.ZipWithIndex(n.it), ref, false, pr, st), len(ref)
	case "iterator.Zip(it,other)", "iterator.Zip(other,it)":
		m := sp.FA
		if m > len(n.ref) {
			m = len(n.ref) + sp.FA%3
		}
		other := make([]int, m)
		for i := range other {
			other[i] = 500 + i
		}
		k := min(m, len(n.ref))
		if n.unordered {
			// pair order depends on the random iteration order: check the projection on the map side
			if k < len(n.ref) {
				return nil, 0 // which elements are paired is not determined; skip
			}
			var it fp.Iterator[int]
			if sp.Final == "iterator.Zip(it,other)" {
				it = iterator.Map(iterator.Zip(n.it, seqIt(other)), func(t fp.Tuple2[int, int]) int { return t.I1 })
			} else {
				it = iterator.Map(iterator.Zip(seqIt(other), n.it), func(t fp.Tuple2[int, int]) int { return t.I2 })
			}
			return runScript(it, n.ref, true, pr, st), k
		}
		ref := make([]fp.Tuple2[int, int], k)
		if sp.Final == "iterator.Zip(it,other)" {
			for i := range ref {
				ref[i] = as.Tuple(n.ref[i], other[i])
			}
			return runScript(iterator.Zip(n.it, seqIt(other)), ref, false, pr, st), k
		}
		for i := range ref {
			ref[i] = as.Tuple(other[i], n.ref[i])
		}
		return runScript(iterator.Zip(seqIt(other), n.it), ref, false, pr, st), k
	case "iterator.Zip3":
		if n.unordered {
			it := iterator.Map(iterator.Zip3(n.it, iterator.Range(0, 1<<30), iterator.Range(7, 1<<30)), func(t fp.Tuple3[int, int, int]) int { return t.I1 })
			return runScript(it, n.ref, true, pr, st), len(n.ref)
		}
		ref := make([]fp.Tuple3[int, int, int], len(n.ref))
		for i, v := range n.ref {
			ref[i] = as.Tuple3(v, i, 7+i)
		}
		return runScript(iterator.Zip3(n.it, iterator.Range(0, 1<<30), iterator.Range(7, 1<<30)), ref, false, pr, st), len(ref)
	}
	panic("harness: unknown final " + sp.Final)
}

func sameMultiset[T comparable](got, want []T) *failure {
	m := map[T]int{}
	for _, v := range want {
		m[v]++
	}
	for _, v := range got {
		if m[v] == 0 {
			return failf("next-wrong", "canonical drain yields %v which was not inserted or is delivered twice (drain %s, inserted %s)", v, clip(got), clip(want))
		}
		m[v]--
	}
	if len(got) != len(want) {
		return failf("hasnext-wrong", "canonical drain yields %d elements, %d were inserted (drain %s, inserted %s)", len(got), len(want), clip(got), clip(want))
	}
	return nil
}

// ---- generation -----------------------------------------------------------------------

func genInput(r *rand.Rand) []int {
	n := 0
	switch x := r.IntN(10); {
	case x < 1:
		n = 0
	case x < 2:
		n = 1
	case x < 6:
		n = 2 + r.IntN(6)
	default:
		n = 8 + r.IntN(33)
	}
	xs := make([]int, n)
	switch r.IntN(3) {
	case 0:
		off := r.IntN(20) - 5
		for i := range xs {
			xs[i] = off + i
		}
	case 1:
		for i := range xs {
			xs[i] = r.IntN(60) - 10
		}
	default:
		for i := range xs {
			xs[i] = r.IntN(5)
		}
	}
	return xs
}

func genOp(r *rand.Rand, d opDef, n int) opSpec {
	o := opSpec{Name: d.name, A: r.IntN(12), B: r.IntN(n+6) - 2}
	switch d.name {
	case "Iterator.Take", "Iterator.Drop":
		o.A = []int{0, 1, n / 2, n, n + 2, r.IntN(n + 1)}[r.IntN(6)]
	}
	m := r.IntN(5)
	o.Xs = make([]int, m)
	for i := range o.Xs {
		o.Xs[i] = 300 + r.IntN(20)
	}
	return o
}

func genSingle(r *rand.Rand) *singleSpec {
	sp := &singleSpec{Xs: genInput(r), PreSeed: r.Uint64()}
	unordered := false
	switch x := r.IntN(100); {
	case x < 62:
		sp.Base = intBasesOrdered[r.IntN(len(intBasesOrdered))]
	case x < 85:
		sp.Base = intBasesUnordered[r.IntN(len(intBasesUnordered))]
		unordered = true
	default:
		sp.Base = tupleBases[r.IntN(len(tupleBases))]
		return sp
	}
	nops := []int{0, 1, 1, 1, 2, 2, 3}[r.IntN(7)]
	for len(sp.Ops) < nops {
		d := opDefs[r.IntN(len(opDefs))]
		if unordered && !d.ms {
			continue
		}
		sp.Ops = append(sp.Ops, genOp(r, d, len(sp.Xs)))
	}
	if r.IntN(6) == 0 {
		sp.Final = finals[r.IntN(len(finals))]
		sp.FA = r.IntN(len(sp.Xs) + 4)
	}
	return sp
}

func (sp *singleSpec) chain() []string {
	out := []string{sp.Base}
	for _, o := range sp.Ops {
		out = append(out, o.Name)
	}
	if sp.Final != "" {
		out = append(out, sp.Final)
	}
	return out
}

func shrinkSingle(sp *singleSpec, f *failure) (*singleSpec, *failure) {
	cur, cf := sp, f
	var st scriptStats
	try := func(c *singleSpec) bool {
		nf, _ := execSingle(c, &st)
		if nf != nil && nf.kind == cf.kind {
			cur, cf = c, nf
			return true
		}
		return false
	}
	for changed := true; changed; {
		changed = false
		if cur.Final != "" {
			c := *cur
			c.Final = ""
			if try(&c) {
				changed = true
				continue
			}
		}
		for i := range cur.Ops {
			c := *cur
			c.Ops = append(append([]opSpec{}, cur.Ops[:i]...), cur.Ops[i+1:]...)
			if try(&c) {
				changed = true
				break
			}
		}
	}
	if cur.Base != "iterator.FromSeq" && len(cur.Ops) > 0 && slices.Contains(intBasesOrdered, cur.Base) {
		c := *cur
		c.Base = "iterator.FromSeq"
		try(&c)
	}
	return cur, cf
}

func keySingle(sp *singleSpec, f *failure) string {
	names := sp.chain()
	if sp.Base == "iterator.FromSeq" && len(names) > 1 {
		names = names[1:]
	}
	if len(names) > 3 {
		names = names[:3]
	}
	return strings.Join(names, ">") + "/" + f.kind
}

func runSingle(w *vrt.W, i int, r *rand.Rand) {
	sp := genSingle(r)
	w.Begin(i, strings.Join(sp.chain(), ">"))
	var st scriptStats
	var f *failure
	refLen := 0
	w.Guard(i, func() any { return sp }, func() {
		f, refLen = execSingle(sp, &st)
		if f != nil {
			msp, mf := shrinkSingle(sp, f)
			w.Violation(i, keySingle(msp, mf), mf.detail+fmt.Sprintf("\nminimised case: %s input %s ops %+v\noriginal case:  %s input %s ops %+v", strings.Join(msp.chain(), ">"), clip(msp.Xs), msp.Ops, strings.Join(sp.chain(), ">"), clip(sp.Xs), sp.Ops),
				map[string]any{"minimised": msp, "original": sp})
		}
	})
	w.Done(i)
	if f != nil {
		return
	}
	for _, n := range sp.chain() {
		w.Hit(n)
	}
	w.Add("scripts.single", 1)
	if st.redundant > 0 {
		w.Add("scripts.redundant_hasnext", 1)
	}
	if st.blind > 0 {
		w.Add("scripts.blind_next", 1)
	}
	w.Add("probes.exhausted_next", int64(st.probes))
	w.Add("calls.next", int64(st.nexts))
	if refLen == 0 {
		w.Add("scripts.empty_reference", 1)
	}
	if refLen == 1 {
		w.Add("scripts.singleton_reference", 1)
	}
	if st.redundant > 0 && refLen > 0 {
		w.Distinct(fmt.Sprintf("single|%s|%d|%d", strings.Join(sp.chain(), ">"), refLen, sp.PreSeed%64))
		if w.WantSample() && len(sp.Xs) <= 8 && len(sp.Ops) > 0 {
			w.Sample(map[string]any{"family": "single", "chain": sp.chain(), "input": sp.Xs, "reference_len": refLen, "scripts_with_redundant_hasnext": st.redundant, "exhausted_next_probes": st.probes})
		}
	}
}
