// C20 — Iterator protocol: HasNext idempotent and non-consuming, Next after a true HasNext
// returns the next element, Next on an exhausted iterator panics, the zero-value Iterator is
// empty in every method; Duplicate / Span / Partition deliver both complete sequences for
// every interleaving of HasNext/Next between the two sides, pulling each source element once.
//
// Three case families: (1) scripted call patterns on one iterator built from a pure-data
// spec (base constructor, 0..3 stacked combinators, optional typed final combinator);
// (2) the zero-value Iterator through every method and package function; (3) two-sided
// scripts on Duplicate/Span/Partition — exhaustive for n <= 4 (batches 0..7), PRNG for n <= 40.
package main

import (
	"fmt"
	"math/rand/v2"
	"sort"
	"strings"

	"verif/vrt"
)

type failure struct {
	kind   string
	detail string
}

func failf(kind, format string, a ...any) *failure {
	return &failure{kind: kind, detail: fmt.Sprintf(format, a...)}
}

const exBatches = 8

func runCase(w *vrt.W, i int) {
	if w.Batch < exBatches {
		runExhaustive(w, i)
		return
	}
	r := w.Rand(i)
	switch x := r.IntN(100); {
	case x < 3:
		runZero(w, i)
	case x < 30:
		runTwoRandom(w, i, r)
	default:
		runSingle(w, i, r)
	}
}

func clip[T any](xs []T) string {
	if len(xs) <= 20 {
		return fmt.Sprint(xs)
	}
	return fmt.Sprintf("%v… (%d elements)", xs[:20], len(xs))
}

func allHitNames() []string {
	set := map[string]bool{}
	for _, n := range singleNames() {
		set[n] = true
	}
	for _, n := range zeroNames() {
		set[n] = true
	}
	for _, k := range twoKinds {
		set["two."+k] = true
		set["two.exhaustive."+k] = true
	}
	out := []string{}
	for n := range set {
		out = append(out, n)
	}
	sort.Strings(out)
	return out
}

func pcg(seed uint64) *rand.Rand { return rand.New(rand.NewPCG(seed, seed^0x9e3779b97f4a7c15)) }

func main() {
	vrt.Main(vrt.Config{
		Property: "C20",
		Batches: func(tier string) int {
			if tier == "thorough" {
				return exBatches + 248
			}
			return exBatches + 24
		},
		Cases: func(tier string, b int) int {
			if b < exBatches {
				n := len(exConfigs())
				return (n - b + exBatches - 1) / exBatches
			}
			if tier == "thorough" {
				return 30000
			}
			return 16000
		},
		Run: func(w *vrt.W) {
			for i := w.From; i < w.To; i++ {
				runCase(w, i)
			}
		},
		Rule: "three families. (1) single iterator: spec = base constructor (every constructor of package iterator, fp.IteratorOfSeq/Option/GoMap/GoSet, seq/option/try.Iterator, Pull, Generate+Take, the zero value, iterators/Keys/Values of immutable, mutable, UnsafeGoMap/UnsafeGoSet, CopyOnWriteMap, zero fp.Map/fp.Set) over an input of 0..40 ints, 0..3 stacked combinators (Take, TakeWhile, Drop, DropWhile, Filter, FilterNot, TapEach, Appended, Concat in 4 shapes, Map, FlatMap, iterator.Map/FlatMap/FilterMap/Flatten/Concat/Scan/Lift/Compose/Pull/ToList round trips, one side of Duplicate/Span/Partition, Ap/Map2/Flap/Method1 with a twin-drain reference) and optionally a typed final Zip/Zip3/ZipWithIndex; the script calls HasNext 0..3 times before every Next (0 = Next without HasNext), then after exhaustion alternates HasNext (must stay false) and Next (must panic). Reference: plain-slice semantics; canonical drain of an identically built twin where the combinator shares a single-use operand or the order is the trie's; multiset with no-duplicate/no-skip for Go-map-backed iterators. (2) zero value: every method of fp.Iterator[int]{} and every package function applied to it must behave as on an empty iterator without panicking (only Next may panic). (3) two-sided: Duplicate/Span/Partition over an instrumented source; events (side, HasNext|Next); batches 0..7 enumerate, for every n <= 4, every predicate mask and every interleaving of the two sides' Next events, every assignment of a HasNext pattern (none / own side once / own side twice / other side then own side) to each Next event (3 patterns in quick for 8-event scripts, 4 otherwise); the other batches draw PRNG scripts for n <= 40 with runs, probes of Next on an exhausted side and a final drain in either order. Both sides must deliver their reference sequences in order, the source must be pulled exactly n times once both sides are drained and never at exhaustion. distinct_nontrivial counts distinct fingerprints of (family 1) kind chain + HasNext pattern with at least one redundant HasNext and non-empty reference, and (family 3) kind + n + predicate + event script in which the leading side (the one with more Next calls) changes at least once — per script for the PRNG part, per (kind, n, predicate, Next order) configuration for the enumerated part, whose scripts are counted in two.exhaustive_scripts.",
		Assumptions: []string{
			"callbacks are pure; elements are ints or pairs of ints",
			"family 1 and the n <= 40 part of family 3 are PRNG samples; only the n <= 4 two-sided scripts are enumerated",
			"Next without a preceding HasNext is exercised only where an element exists (the statement promises Next after a true HasNext); a failure there would be keyed separately (/blind-next-wrong)",
		},
		Floors: func(tier string) map[string]int64 {
			fl := map[string]int64{"scripts.single": 10000, "scripts.redundant_hasnext": 5000, "scripts.blind_next": 1000, "probes.exhausted_next": 20000,
				"two.scripts": 100000, "two.exhaustive_scripts": 400000, "two.random_scripts": 5000, "zero.cases": 100, "distinct": 5000, "two.lead_changes": 100000}
			for _, n := range allHitNames() {
				fl["hit."+n] = 1
			}
			return fl
		},
		Exhaustive: func(tier string) bool { return false },
		Finish: func(tier string, m *vrt.Merged, cov map[string]any) {
			missing := []string{}
			for _, n := range allHitNames() {
				if m.Counters["hit."+n] == 0 {
					missing = append(missing, n)
				}
			}
			cov["iterator_kinds_registered"] = len(allHitNames())
			cov["iterator_kinds_never_hit"] = missing
			cov["two_sided_exhaustive_configs"] = len(exConfigs())
			cov["two_sided_exhaustive_scope"] = "n<=4, all predicate masks, all interleavings of Next events, all HasNext-pattern assignments"
		},
	})
}

var _ = strings.Join
