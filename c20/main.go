// C20 — Iterator protocol: HasNext idempotent and non-consuming, Next after a true HasNext
// returns the next element, Next on an exhausted iterator panics, the zero-value Iterator is
// empty in every method; Duplicate / Span / Partition deliver both complete sequences for
// every interleaving of HasNext/Next between the two sides, pulling each source element once.
//
// Four case families: (1) scripted call patterns on one iterator built from a pure-data
// spec (base constructor, 0..3 stacked combinators, optional typed final combinator);
// (2) the zero-value Iterator through every method and package function; (3) two-sided
// scripts on Duplicate/Span/Partition — exhaustive for n <= 4 (batches 0..7), PRNG for n <= 40;
// (4) the protocol script over adversarial shapes of the backing structure (shapes.go).
package main

import (
	"fmt"
	"math/rand/v2"
	"sort"
	"strings"

	"verif/vrt"
)

type failure struct {
	kind   string
	detail string
}

func failf(kind, format string, a ...any) *failure {
	return &failure{kind: kind, detail: fmt.Sprintf(format, a...)}
}

const exBatches = 8

// batch layout: 0..exBatches-1 enumerated two-sided scripts, then the PRNG batches of families
// 1-3, then (appended, so that the older PRNG streams keep their batch numbers) the batches of
// family 4 (adversarial shapes).
func randBatches(tier string) int {
	if tier == "thorough" {
		return 248
	}
	return 24
}

func shapeBatches(tier string) int {
	if tier == "thorough" {
		return 32
	}
	return 8
}

func runCase(w *vrt.W, i int) {
	if w.Batch < exBatches {
		runExhaustive(w, i)
		return
	}
	if w.Batch >= exBatches+randBatches(w.Tier) {
		runShape(w, i)
		return
	}
	r := w.Rand(i)
	switch x := r.IntN(100); {
	case x < 3:
		runZero(w, i)
	case x < 30:
		runTwoRandom(w, i, r)
	default:
		runSingle(w, i, r)
	}
}

func clip[T any](xs []T) string {
	if len(xs) <= 20 {
		return fmt.Sprint(xs)
	}
	return fmt.Sprintf("%v… (%d elements)", xs[:20], len(xs))
}

func allHitNames() []string {
	set := map[string]bool{}
	for _, n := range singleNames() {
		set[n] = true
	}
	for _, n := range zeroNames() {
		set[n] = true
	}
	for _, n := range shapeHitNames() {
		set[n] = true
	}
	for _, k := range twoKinds {
		set["two."+k] = true
		set["two.exhaustive."+k] = true
	}
	out := []string{}
	for n := range set {
		out = append(out, n)
	}
	sort.Strings(out)
	return out
}

func pcg(seed uint64) *rand.Rand { return rand.New(rand.NewPCG(seed, seed^0x9e3779b97f4a7c15)) }

func main() {
	vrt.Main(vrt.Config{
		Property: "C20",
		Batches: func(tier string) int {
			return exBatches + randBatches(tier) + shapeBatches(tier)
		},
		Cases: func(tier string, b int) int {
			if b < exBatches {
				n := len(exConfigs())
				return (n - b + exBatches - 1) / exBatches
			}
			if b >= exBatches+randBatches(tier) {
				// every shape batch runs the enumerated (kind x shape class x build / removal / gc)
				// combinations with its own PRNG parameters, then PRNG combinations
				if tier == "thorough" {
					return numFixedShapes() + 6000
				}
				return numFixedShapes() + 1500
			}
			if tier == "thorough" {
				return 30000
			}
			return 16000
		},
		Run: func(w *vrt.W) {
			for i := w.From; i < w.To; i++ {
				runCase(w, i)
			}
		},
		Rule: "four families. (1) single iterator: spec = base constructor (every constructor of package iterator, fp.IteratorOfSeq/Option/GoMap/GoSet, seq/option/try.Iterator, Pull, Generate+Take, the zero value, iterators/Keys/Values of immutable, mutable, UnsafeGoMap/UnsafeGoSet, CopyOnWriteMap, zero fp.Map/fp.Set) over an input of 0..40 ints, 0..3 stacked combinators (Take, TakeWhile, Drop, DropWhile, Filter, FilterNot, TapEach, Appended, Concat in 4 shapes, Map, FlatMap, iterator.Map/FlatMap/FilterMap/Flatten/Concat/Scan/Lift/Compose/Pull/ToList round trips, one side of Duplicate/Span/Partition, Ap/Map2/Flap/Method1 with a twin-drain reference) and optionally a typed final Zip/Zip3/ZipWithIndex; the script calls HasNext 0..3 times before every Next (0 = Next without HasNext), then after exhaustion alternates HasNext (must stay false) and Next (must panic). Reference: plain-slice semantics; canonical drain of an identically built twin where the combinator shares a single-use operand or the order is the trie's; multiset with no-duplicate/no-skip for Go-map-backed iterators. (2) zero value: every method of fp.Iterator[int]{} and every package function applied to it must behave as on an empty iterator without panicking (only Next may panic). (3) two-sided: Duplicate/Span/Partition over an instrumented source; events (side, HasNext|Next); batches 0..7 enumerate, for every n <= 4, every predicate mask and every interleaving of the two sides' Next events, every assignment of a HasNext pattern (none / own side once / own side twice / other side then own side) to each Next event (3 patterns in quick for 8-event scripts, 4 otherwise); the other batches draw PRNG scripts for n <= 40 with runs, probes of Next on an exhausted side and a final drain in either order. Both sides must deliver their reference sequences in order, the source must be pulled exactly n times once both sides are drained and never at exhaustion. (4) adversarial shapes (appended batches): the same protocol script over iterators whose backing structure has internal shape, built adversarially: immutable Map.Iterator/Keys/Values and Set.Iterator over tries built by varargs constructor, builder and persistent Updated/Incl, optionally followed by Removed/Excl down to 0/1/7/8/9/15/16/17 entries, with hashers hash.Number, identity, multiplicative, low-5-bit, constant, high-5-bit, top-2-bit, top-1-bit, k/2..k/5 (full 32-bit collisions of 2..5 keys) and key sets whose hashes agree in the low 30 / 31 bits (int keys 2^30, 2^31, 3*2^30 apart), in the low 10/15/20/25 bits, dense 9..1000, one root slot with 9..32 children (reference: the structure's own order from a canonical drain of a second iterator, which must be a permutation of a plain-Go model; the trie walker hook measures depth and node kinds); slice iterators over sub-slices of a larger backing array with spare capacity (0, 1, 8, 9, 1000 elements, nil); iterator.FromList/List over Seq-backed, cons, lazy (Generate, GenerateFrom, Range, Map, Collect, Combine, Concat, FilterMap, MakeList) lists; every Go-map-backed iterator over maps of 0, 1, 8, 9, 1000 entries, with runtime.GC() between the HasNext calls and Next at up to three script positions. Each shape batch first enumerates all (kind x shape class x build / removal / gc) combinations with PRNG parameters, then draws 1500 (thorough 6000) PRNG combinations. distinct_nontrivial counts distinct fingerprints of (family 1) kind chain + HasNext pattern with at least one redundant HasNext and non-empty reference, and (family 3) kind + n + predicate + event script in which the leading side (the one with more Next calls) changes at least once — per script for the PRNG part, per (kind, n, predicate, Next order) configuration for the enumerated part, whose scripts are counted in two.exhaustive_scripts — and (family 4) kind + shape class + build + hasher + sizes + HasNext pattern with at least one redundant HasNext.",
		Assumptions: []string{
			"callbacks are pure; elements are ints or pairs of ints",
			"family 1 and the n <= 40 part of family 3 are PRNG samples; only the n <= 4 two-sided scripts are enumerated",
			"family 4: the hashers are lawful (equal keys hash equally; Eqv is ==) and deterministic; the iteration order of a trie is not specified, so the reference order is the structure's own canonical drain, which must be a permutation of the plain-Go model; lazy-list generators are pure",
			"Next without a preceding HasNext is exercised only where an element exists (the statement promises Next after a true HasNext); a failure there would be keyed separately (/blind-next-wrong)",
		},
		Floors: func(tier string) map[string]int64 {
			fl := map[string]int64{"scripts.single": 10000, "scripts.redundant_hasnext": 5000, "scripts.blind_next": 1000, "probes.exhausted_next": 20000,
				"two.scripts": 100000, "two.exhaustive_scripts": 400000, "two.random_scripts": 5000, "zero.cases": 100, "distinct": 5000, "two.lead_changes": 100000,
				// family 4: the adversarial shapes were really built (trie census of hook immutable.VerifCheck) and driven
				"shape.scripts": 8000, "shape.scripts.trie": 4000, "shape.scripts.seq": 800, "shape.scripts.list": 1200, "shape.scripts.gomap": 1800,
				"shape.trie.depth7": 500, "shape.trie.depth3plus": 1000, "shape.trie.with_collision_leaf": 500, "shape.trie.with_hash_array_node": 200, "shape.trie.with_bitmap_node": 1000,
				"shape.trie.after_removals": 1000, "shape.trie.entries_gt32": 300, "shape.trie.entries_1000": 10, "shape.trie.array_root": 50,
				"shape.seq.spare_capacity": 500, "shape.list.lazy": 500, "shape.list.strict": 200, "shape.list.n1000": 100, "shape.gomap.n1000": 100, "shape.gc_between_hasnext_and_next": 1000}
			for _, n := range allHitNames() {
				fl["hit."+n] = 1
			}
			return fl
		},
		Exhaustive: func(tier string) bool { return false },
		Finish: func(tier string, m *vrt.Merged, cov map[string]any) {
			missing := []string{}
			for _, n := range allHitNames() {
				if m.Counters["hit."+n] == 0 {
					missing = append(missing, n)
				}
			}
			cov["iterator_kinds_registered"] = len(allHitNames())
			cov["iterator_kinds_never_hit"] = missing
			cov["two_sided_exhaustive_configs"] = len(exConfigs())
			cov["two_sided_exhaustive_scope"] = "n<=4, all predicate masks, all interleavings of Next events, all HasNext-pattern assignments"
		},
	})
}

var _ = strings.Join
