package main

import (
	"fmt"

	ir "verif/refmodel/iterref"
	"verif/vrt"

	"github.com/csgura/fp"
	"github.com/csgura/fp/iterator"
	"github.com/csgura/fp/lazy"
	"github.com/csgura/fp/list"
	"github.com/csgura/fp/seq"
)

type zeroCheck struct {
	name string
	run  func() string // "" = behaves as empty; otherwise what was wrong
}

func z() fp.Iterator[int] { return fp.Iterator[int]{} }

// emptyProto: the derived iterator must deliver exactly want under a fixed call pattern with
// redundant HasNext, and then behave as exhausted.
func proto[T comparable](it fp.Iterator[T], want []T) string {
	var st scriptStats
	if f := runScript(it, want, false, pcg(uint64(len(want))+11), &st); f != nil {
		return f.kind + ": " + f.detail
	}
	return ""
}

func expect(ok bool, format string, a ...any) string {
	if ok {
		return ""
	}
	return fmt.Sprintf(format, a...)
}

type sumM struct{}

func (sumM) Empty() int           { return 0 }
func (sumM) Combine(a, b int) int { return a + b }

var natOrd = fp.CompareFunc[int](func(a, b int) int { return a - b })

func zeroChecks() []zeroCheck {
	inc := func(x int) int { return x + 1 }
	tru := func(int) bool { return true }
	return []zeroCheck{
		{"zero.HasNext", func() string { return expect(!z().HasNext() && !z().HasNext(), "HasNext = true") }},
		{"zero.IsEmpty", func() string { return expect(z().IsEmpty(), "IsEmpty = false") }},
		{"zero.NonEmpty", func() string { return expect(!z().NonEmpty(), "NonEmpty = true") }},
		{"zero.NextOption", func() string { return expect(!z().NextOption().IsDefined(), "NextOption is defined") }},
		{"zero.ToSeq", func() string { return expect(len(z().ToSeq()) == 0, "ToSeq not empty") }},
		{"zero.Count", func() string { return expect(z().Count() == 0, "Count != 0") }},
		{"zero.All", func() string {
			n := 0
			for range z().All() {
				n++
			}
			return expect(n == 0, "All yielded %d elements", n)
		}},
		{"zero.Foreach", func() string {
			n := 0
			z().Foreach(func(int) { n++ })
			return expect(n == 0, "Foreach visited %d elements", n)
		}},
		{"zero.MakeString", func() string { return expect(z().MakeString(",") == "", "MakeString = %q", z().MakeString(",")) }},
		{"zero.Exists", func() string { return expect(!z().Exists(tru), "Exists = true") }},
		{"zero.ForAll", func() string { return expect(z().ForAll(func(int) bool { return false }), "ForAll = false") }},
		{"zero.Find", func() string { return expect(!z().Find(tru).IsDefined(), "Find is defined") }},
		{"zero.Take", func() string { return proto(z().Take(3), nil) + proto(z().Take(0), nil) }},
		{"zero.Drop", func() string { return proto(z().Drop(2), nil) + proto(z().Drop(0), nil) }},
		{"zero.TakeWhile", func() string { return proto(z().TakeWhile(tru), nil) }},
		{"zero.DropWhile", func() string {
			return proto(z().DropWhile(tru), nil) + proto(z().DropWhile(func(int) bool { return false }), nil)
		}},
		{"zero.Filter", func() string { return proto(z().Filter(tru), nil) }},
		{"zero.FilterNot", func() string { return proto(z().FilterNot(tru), nil) }},
		{"zero.TapEach", func() string { return proto(z().TapEach(func(int) {}), nil) }},
		{"zero.Map", func() string { return proto(z().Map(inc), nil) }},
		{"zero.FlatMap", func() string { return proto(z().FlatMap(func(x int) fp.Iterator[int] { return iterator.Of(x) }), nil) }},
		{"zero.Appended", func() string { return proto(z().Appended(5), []int{5}) }},
		{"zero.Concat(zero)", func() string { return proto(z().Concat(z()), nil) }},
		{"zero.Concat(seq)", func() string { return proto(z().Concat(iterator.Of(1, 2)), []int{1, 2}) }},
		{"seq.Concat(zero)", func() string { return proto(iterator.Of(1, 2).Concat(z()), []int{1, 2}) }},
		{"zero.Concat(zero).Concat(seq)", func() string { return proto(z().Concat(z()).Concat(iterator.Of(9)), []int{9}) }},
		{"iterator.Map(zero)", func() string { return proto(iterator.Map(z(), inc), nil) }},
		{"iterator.Lift(zero)", func() string { return proto(iterator.Lift(inc)(z()), nil) }},
		{"iterator.FlatMap(zero)", func() string {
			return proto(iterator.FlatMap(z(), func(x int) fp.Iterator[int] { return iterator.Of(x) }), nil)
		}},
		{"iterator.FlatMap(to zero)", func() string {
			return proto(iterator.FlatMap(iterator.Of(1, 2, 3), func(x int) fp.Iterator[int] {
				if x == 2 {
					return iterator.Of(7)
				}
				return z()
			}), []int{7})
		}},
		{"iterator.FilterMap(zero)", func() string {
			return proto(iterator.FilterMap(z(), func(x int) fp.Option[int] { return fp.Some(x) }), nil)
		}},
		{"iterator.Flatten(zero)", func() string { return proto(iterator.Flatten(fp.Iterator[fp.Iterator[int]]{}), nil) }},
		{"iterator.Flatten(of zeros)", func() string { return proto(iterator.Flatten(iterator.Of(z(), iterator.Of(4), z())), []int{4}) }},
		{"iterator.Concat(head,zero)", func() string { return proto(iterator.Concat(7, z()), []int{7}) }},
		{"iterator.Zip(zero,x)", func() string { return proto(iterator.Zip(z(), iterator.Of(1, 2)), nil) }},
		{"iterator.Zip(x,zero)", func() string { return proto(iterator.Zip(iterator.Of(1, 2), z()), nil) }},
		{"iterator.Zip3(zero)", func() string { return proto(iterator.Zip3(iterator.Of(1), z(), iterator.Of(2)), nil) }},
		{"iterator.ZipWithIndex(zero)", func() string { return proto(iterator.ZipWithIndex(z()), nil) }},
		{"iterator.Scan(zero)", func() string { return proto(iterator.Scan(z(), 4, func(a, x int) int { return a + x }), []int{4}) }},
		{"iterator.Pull(zero.All)", func() string { return proto(iterator.Pull(z().All()), nil) }},
		{"iterator.Ap(zero fs)", func() string { return proto(iterator.Ap(fp.Iterator[fp.Func1[int, int]]{}, iterator.Of(1)), nil) }},
		{"iterator.Ap(fs, zero)", func() string { return proto(iterator.Ap(iterator.Of[fp.Func1[int, int]](inc), z()), nil) }},
		{"iterator.Map2(zero)", func() string {
			return proto(iterator.Map2(z(), iterator.Of(1), func(a, b int) int { return a + b }), nil) + proto(iterator.Map2(iterator.Of(1), z(), func(a, b int) int { return a + b }), nil)
		}},
		{"iterator.Duplicate(zero)", func() string {
			l, r := iterator.Duplicate(z())
			return proto(l, nil) + proto(r, nil)
		}},
		{"iterator.Span(zero)", func() string {
			l, r := iterator.Span(z(), tru)
			return proto(l, nil) + proto(r, nil)
		}},
		{"iterator.Partition(zero)", func() string {
			l, r := iterator.Partition(z(), tru)
			return proto(r, nil) + proto(l, nil)
		}},
		{"iterator.Fold(zero)", func() string {
			return expect(iterator.Fold(z(), 3, func(a, x int) int { return a + x }) == 3, "Fold != zero")
		}},
		{"iterator.FoldTry(zero)", func() string {
			t := iterator.FoldTry(z(), 3, func(a, x int) fp.Try[int] { return fp.Success(a + x) })
			return expect(t.IsSuccess() && t.Get() == 3, "FoldTry = %v", t)
		}},
		{"iterator.FoldOption(zero)", func() string {
			t := iterator.FoldOption(z(), 3, func(a, x int) fp.Option[int] { return fp.Some(a + x) })
			return expect(t.IsDefined() && t.Get() == 3, "FoldOption = %v", t)
		}},
		{"iterator.FoldError(zero)", func() string {
			return expect(iterator.FoldError(z(), func(int) error { return fmt.Errorf("x") }) == nil, "FoldError != nil")
		}},
		{"iterator.FoldRight(zero)", func() string {
			v := iterator.FoldRight(z(), 3, func(x int, r lazy.Eval[int]) lazy.Eval[int] { return r }).Get()
			return expect(v == 3, "FoldRight = %d", v)
		}},
		{"iterator.Reduce(zero)", func() string { return expect(iterator.Reduce[int](z(), sumM{}) == 0, "Reduce != Empty") }},
		{"iterator.GroupBy(zero)", func() string { return expect(len(iterator.GroupBy(z(), inc)) == 0, "GroupBy not empty") }},
		{"iterator.Min(zero)", func() string { return expect(!iterator.Min[int](z(), natOrd).IsDefined(), "Min defined") }},
		{"iterator.Max(zero)", func() string { return expect(!iterator.Max[int](z(), natOrd).IsDefined(), "Max defined") }},
		{"iterator.Sort(zero)", func() string { return expect(len(iterator.Sort[int](z(), natOrd)) == 0, "Sort not empty") }},
		{"iterator.ToSeq(zero)", func() string {
			return expect(len(iterator.ToSeq(z())) == 0 && len(iterator.ToSlice(z())) == 0 && len(seq.Collect(z())) == 0, "ToSeq/ToSlice/seq.Collect not empty")
		}},
		{"iterator.ToList(zero)", func() string {
			return expect(iterator.ToList(z()).IsEmpty() && list.Collect(z()).IsEmpty(), "ToList/list.Collect not empty")
		}},
		{"iterator.ToMap(zero)", func() string {
			return expect(iterator.ToMap(fp.Iterator[fp.Tuple2[int, int]]{}, hs).Size() == 0 && len(iterator.ToGoMap(fp.Iterator[fp.Tuple2[int, int]]{})) == 0, "ToMap/ToGoMap not empty")
		}},
		{"iterator.ToSet(zero)", func() string {
			return expect(iterator.ToSet(z(), hs).Size() == 0 && len(iterator.ToGoSet(z())) == 0, "ToSet/ToGoSet not empty")
		}},
	}
}

func zeroNames() []string {
	out := []string{}
	for _, c := range zeroChecks() {
		out = append(out, c.name)
	}
	return out
}

func runZero(w *vrt.W, i int) {
	w.Begin(i, "fp.Iterator{}")
	for _, c := range zeroChecks() {
		c := c
		w.Site(c.name)
		var msg string
		panicked := false
		func() {
			defer func() {
				if r := recover(); r != nil {
					if _, is := r.(vrt.BudgetExceeded); is {
						panic(r)
					}
					panicked = true
					msg = fmt.Sprint(r)
				}
			}()
			msg = c.run()
		}()
		if panicked {
			w.Violation(i, c.name+"/panic", "the zero-value Iterator must behave as empty here, but the call panicked: "+msg, map[string]any{"check": c.name})
		} else if msg != "" {
			w.Violation(i, c.name+"/not-empty", "the zero-value Iterator does not behave as an empty iterator: "+msg, map[string]any{"check": c.name})
		} else {
			w.Hit(c.name)
		}
	}
	w.Done(i)
	w.Add("zero.cases", 1)
}

var _ = ir.EqualS
