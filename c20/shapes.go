package main

// Family 4 — adversarial shapes of the structure behind an iterator. The protocol oracle is
// the one of family 1 (runScript); what changes is the backing structure: hash tries built
// with colliding / deep hashers through varargs constructors, builders and persistent
// updates (also after removals that shrink nodes), sub-slices with spare capacity, lazy /
// cons / Seq-backed lists, Go maps of 0, 1, 8, 9, 1000 entries, pull-based iterators with a
// runtime.GC() between HasNext and Next.

import (
	"fmt"
	"maps"
	"math/rand/v2"
	"runtime"
	"slices"

	"verif/vrt"

	"github.com/csgura/fp"
	"github.com/csgura/fp/hash"
	"github.com/csgura/fp/immutable"
	"github.com/csgura/fp/iterator"
	"github.com/csgura/fp/list"
	"github.com/csgura/fp/mutable"
	"github.com/csgura/fp/seq"
)

type shapeSpec struct {
	Family  string `json:"family"` // trie | seq | list | gomap | pull
	Kind    string `json:"kind"`   // iterator kind (call site)
	Class   string `json:"shape"`  // shape class of the backing structure
	Hasher  string `json:"hasher,omitempty"`
	Build   string `json:"build,omitempty"` // varargs | builder | persistent
	Keys    []int  `json:"keys"`            // elements / keys in insertion order
	Removed []int  `json:"removed,omitempty"`
	Off     int    `json:"offset_in_backing_array,omitempty"`
	Spare   int    `json:"spare_capacity,omitempty"`
	GC      bool   `json:"gc_between_hasnext_and_next,omitempty"`
	PreSeed uint64 `json:"pattern_seed"`
}

// ---- hashers ----------------------------------------------------------------------------

type shHasher struct {
	name string
	f    func(int) uint32
}

func (h shHasher) Eqv(a, b int) bool { return a == b }
func (h shHasher) Hash(k int) uint32 { return h.f(k) }

var shHashers = map[string]fp.Hashable[int]{
	"hash.Number": hash.Number[int](),
	"identity":    shHasher{"identity", func(k int) uint32 { return uint32(k) }},
	"mul":         shHasher{"mul", func(k int) uint32 { return uint32(k) * 2654435761 }},
	"low5":        shHasher{"low5", func(k int) uint32 { return uint32(k) & 0x1f }},
	"const":       shHasher{"const", func(k int) uint32 { return 0x5a5a5a5a }},
	"high5":       shHasher{"high5", func(k int) uint32 { return uint32(k) << 27 }},
	"top2":        shHasher{"top2", func(k int) uint32 { return uint32(k)<<30 | 0x2aaaaaaa }},
	"top1":        shHasher{"top1", func(k int) uint32 { return uint32(k) << 31 }},
	"div2":        shHasher{"div2", func(k int) uint32 { return uint32(k/2) * 2654435761 }},
	"div3":        shHasher{"div3", func(k int) uint32 { return uint32(k/3) * 2654435761 }},
	"div4":        shHasher{"div4", func(k int) uint32 { return uint32(k/4) * 2654435761 }},
	"div5":        shHasher{"div5", func(k int) uint32 { return uint32(k/5) * 2654435761 }},
}

// ---- shape classes ----------------------------------------------------------------------

var trieKinds = []string{"immutable.Map.Iterator", "immutable.Map.Keys", "immutable.Map.Values", "immutable.Set.Iterator"}
var trieBuilds = []string{"varargs", "builder", "persistent"}
var trieClasses = []string{"apart30", "apart31", "prefix", "dense", "fan", "low5", "const", "high5", "top2", "top1", "collide"}

var seqKinds = []string{"iterator.Of", "iterator.FromSeq", "iterator.FromSlice", "fp.IteratorOfSeq", "seq.Iterator", "iterator.ReverseSeq", "iterator.ReverseSlice", "iterator.Pull(slices.Values)"}
var seqClasses = []string{"nil", "empty-with-capacity", "sub-1", "sub-8", "sub-9", "sub-1000", "sub-random"}

var listKinds = []string{"iterator.FromList", "iterator.List"}
var listClasses = []string{"list.Of", "list.FromSeq(sub-slice)", "list.FromSlice(sub-slice)", "list.ReverseSeq(sub-slice)", "list.Apply-chain", "list.Generate", "list.GenerateFrom", "list.Range",
	"list.Map(lazy)", "list.Collect(iterator)", "list.Combine(seq,lazy)", "list.Combine(lazy,seq)", "list.Concat(head,lazy)", "list.FilterMap(lazy)", "fp.MakeList", "list.Apply-on-seq-tail"}

var goMapKinds = []string{"iterator.FromMap", "fp.IteratorOfGoMap", "fp.Map.Iterator(mutable)", "fp.Map.Iterator(UnsafeGoMap)", "CopyOnWriteMap.Iterator",
	"iterator.FromMapKey", "iterator.FromMapValue", "fp.Map.Keys(mutable)", "fp.Map.Values(mutable)", "mutable.Set.Iterator", "fp.Set.Iterator(UnsafeGoSet)", "fp.IteratorOfGoSet",
	"fp.Map.Keys(UnsafeGoMap)", "fp.Map.Values(UnsafeGoMap)", "iterator.FromList(list.FromMapKey)", "iterator.Pull(maps.Keys)", "fp.MakePullIterator(maps.All)"}
var goMapSizes = []int{0, 1, 8, 9, 1000}

func sizeClass(n int) string {
	switch {
	case n <= 1:
		return fmt.Sprint(n)
	case n <= 8:
		return "2-8"
	case n <= 16:
		return "9-16"
	case n <= 32:
		return "17-32"
	case n < 1000:
		return "33-999"
	}
	return "1000+"
}

func pick[T any](r *rand.Rand, xs ...T) T { return xs[r.IntN(len(xs))] }

// genTrieKeys draws the key list (insertion order) and the hasher of one trie shape class.
func genTrieKeys(r *rand.Rand, class string) (hasher string, keys []int) {
	distinct := func(n, bound int) []int {
		seen := map[int]bool{}
		out := []int{}
		for len(out) < n {
			k := r.IntN(bound)
			if !seen[k] {
				seen[k] = true
				out = append(out, k)
			}
		}
		return out
	}
	upto := func(n, off int) []int {
		out := make([]int, n)
		for i := range out {
			out[i] = off + i
		}
		return out
	}
	switch class {
	case "apart30", "apart31":
		// keys whose hashes agree in the low 30 (31) bits: the trie branches on the last hash fragment
		hasher = pick(r, "hash.Number", "identity")
		keys = distinct(7+r.IntN(14), pick(r, 32, 1024, 1<<20))
		ds := []int{1 << 30, 1 << 31, 3 << 30}
		if class == "apart31" {
			ds = []int{1 << 31}
		}
		np := 1 + r.IntN(3)
		base := append([]int(nil), keys...)
		for j := 0; j < np; j++ {
			k := base[r.IntN(len(base))]
			if r.IntN(3) == 0 {
				for _, d := range ds {
					keys = append(keys, k+d)
				}
			} else {
				keys = append(keys, k+pick(r, ds...))
			}
		}
		keys = dedupe(keys)
		for len(keys) < 9 {
			keys = dedupe(append(keys, r.IntN(1<<20)))
		}
	case "prefix":
		// hashes agree in the low 10 / 15 / 20 / 25 bits: a chain of single-child branches, then a fan
		hasher = pick(r, "hash.Number", "identity")
		sh := pick(r, 10, 15, 20, 25)
		c := r.IntN(1 << sh)
		for j, n := 0, pick(r, 9, 17, 33, 64); j < n; j++ {
			keys = append(keys, c+j<<sh)
		}
		for j := r.IntN(4); j > 0; j-- {
			keys = append(keys, r.IntN(1<<20))
		}
		keys = dedupe(keys)
	case "dense":
		hasher = pick(r, "hash.Number", "identity", "mul")
		keys = upto(pick(r, 9, 16, 17, 32, 33, 40, 100, 1000), pick(r, 0, 0, 1, 31, 1000, -5))
	case "fan":
		// one slot of the root, many children one level down (> 8, > 16, all 32)
		hasher = pick(r, "hash.Number", "identity")
		c := r.IntN(32)
		n := pick(r, 9, 16, 17, 31, 32)
		for j := 0; j < n; j++ {
			keys = append(keys, c+32*j)
		}
		for j := r.IntN(4); j > 0; j-- {
			keys = append(keys, r.IntN(32))
		}
		keys = dedupe(keys)
	case "low5":
		hasher = "low5"
		keys = upto(pick(r, 9, 33, 64, 100, 160), 0)
	case "const":
		hasher = "const"
		keys = upto(pick(r, 2, 3, 5, 9, 17, 40), pick(r, 0, 100))
	case "high5":
		hasher = "high5"
		keys = upto(pick(r, 9, 32, 40, 64, 128), 0)
	case "top2":
		hasher = "top2"
		keys = upto(pick(r, 9, 12, 20), 0)
	case "top1":
		hasher = "top1"
		keys = upto(pick(r, 9, 10), 0)
	case "collide":
		hasher = pick(r, "div2", "div3", "div4", "div5")
		keys = upto(9+r.IntN(52), pick(r, 0, 7))
	default:
		panic("harness: unknown trie class " + class)
	}
	if r.IntN(2) == 0 {
		r.Shuffle(len(keys), func(i, j int) { keys[i], keys[j] = keys[j], keys[i] })
	}
	return
}

// genRemovals picks the keys removed after the build so that a node-size threshold is crossed
// downwards (0, 1, 8, 9, 16, 17 entries left, or half).
func genRemovals(r *rand.Rand, keys []int) []int {
	live := dedupe(keys)
	target := pick(r, 0, 1, 7, 8, 9, 15, 16, 17, len(live)/2, len(live)-1)
	if target >= len(live) {
		target = len(live) / 2
	}
	perm := r.Perm(len(live))
	out := []int{}
	for _, j := range perm[:len(live)-target] {
		out = append(out, live[j])
	}
	return out
}

func genSub(r *rand.Rand, class string) (xs []int, off, spare int) {
	n := 0
	switch class {
	case "nil":
		return nil, 0, 0
	case "empty-with-capacity":
		n = 0
	case "sub-1":
		n = 1
	case "sub-8":
		n = 8
	case "sub-9":
		n = 9
	case "sub-1000":
		n = 1000
	default:
		n = 2 + r.IntN(39)
	}
	xs = make([]int, n)
	for i := range xs {
		xs[i] = r.IntN(60) - 10
	}
	return xs, r.IntN(5), 1 + r.IntN(8)
}

// subSlice places xs inside a larger backing array: off sentinel elements before, spare
// sentinel elements of capacity behind. The sentinels must never be delivered.
func subSlice(xs []int, off, spare int) []int {
	if xs == nil {
		return nil
	}
	backing := make([]int, off+len(xs)+spare)
	for i := range backing {
		backing[i] = -777000 - i
	}
	copy(backing[off:], xs)
	return backing[off : off+len(xs)]
}

func genShape(r *rand.Rand, fixed int) *shapeSpec {
	sp := &shapeSpec{PreSeed: r.Uint64()}
	// the fixed part enumerates (kind x class x build / removal / gc); the rest is drawn
	nTrie := len(trieKinds) * len(trieBuilds) * len(trieClasses) * 2
	nSeq := len(seqKinds) * len(seqClasses)
	nList := len(listKinds) * len(listClasses) * 3
	nMap := len(goMapKinds) * len(goMapSizes) * 2
	sel := fixed
	if fixed < 0 || fixed >= nTrie+nSeq+nList+nMap {
		switch x := r.IntN(100); {
		case x < 55:
			sel = r.IntN(nTrie)
		case x < 65:
			sel = nTrie + r.IntN(nSeq)
		case x < 80:
			sel = nTrie + nSeq + r.IntN(nList)
		default:
			sel = nTrie + nSeq + nList + r.IntN(nMap)
		}
	}
	switch {
	case sel < nTrie:
		sp.Family = "trie"
		sp.Kind = trieKinds[sel%len(trieKinds)]
		sel /= len(trieKinds)
		sp.Build = trieBuilds[sel%len(trieBuilds)]
		sel /= len(trieBuilds)
		sp.Class = trieClasses[sel%len(trieClasses)]
		sel /= len(trieClasses)
		sp.Hasher, sp.Keys = genTrieKeys(r, sp.Class)
		if sel == 1 {
			sp.Removed = genRemovals(r, sp.Keys)
		}
	case sel < nTrie+nSeq:
		sel -= nTrie
		sp.Family = "seq"
		sp.Kind = seqKinds[sel%len(seqKinds)]
		sp.Class = seqClasses[sel/len(seqKinds)]
		sp.Keys, sp.Off, sp.Spare = genSub(r, sp.Class)
		sp.GC = sp.Kind == "iterator.Pull(slices.Values)" && r.IntN(2) == 0
	case sel < nTrie+nSeq+nList:
		sel -= nTrie + nSeq
		sp.Family = "list"
		sp.Kind = listKinds[sel%len(listKinds)]
		sel /= len(listKinds)
		sp.Class = listClasses[sel%len(listClasses)]
		sel /= len(listClasses)
		sp.Keys, sp.Off, sp.Spare = genSub(r, []string{"sub-random", pick(r, "empty-with-capacity", "sub-1", "sub-8", "sub-9"), "sub-1000"}[sel])
	default:
		sel -= nTrie + nSeq + nList
		sp.Family = "gomap"
		sp.Kind = goMapKinds[sel%len(goMapKinds)]
		sel /= len(goMapKinds)
		n := goMapSizes[sel%len(goMapSizes)]
		if fixed < 0 && r.IntN(3) == 0 {
			n = 2 + r.IntN(39)
		}
		sel /= len(goMapSizes)
		sp.GC = sel == 1
		sp.Class = "entries-" + sizeClass(n)
		off := pick(r, 0, 1, -3, 1000)
		sp.Keys = make([]int, n)
		for i := range sp.Keys {
			sp.Keys[i] = off + i
		}
	}
	return sp
}

func numFixedShapes() int {
	return len(trieKinds)*len(trieBuilds)*len(trieClasses)*2 + len(seqKinds)*len(seqClasses) + len(listKinds)*len(listClasses)*3 + len(goMapKinds)*len(goMapSizes)*2
}

func (sp *shapeSpec) site() string {
	switch sp.Family {
	case "trie":
		return fmt.Sprintf("shape:%s[%s,%s,%s]", sp.Kind, sp.Build, sp.Hasher, sp.Class)
	case "list":
		return fmt.Sprintf("shape:%s(%s)", sp.Kind, sp.Class)
	}
	return fmt.Sprintf("shape:%s[%s]", sp.Kind, sp.Class)
}

// ---- execution --------------------------------------------------------------------------

// shapeObs is what one execution observed about the structure (for the evidence).
type shapeObs struct {
	census   *immutable.VerifCensus
	gcs      int
	elements int
	lazy     bool
}

// drainSafe is the canonical HasNext/Next drain; a panic of Next after a true HasNext is a
// protocol failure, not a harness crash.
func drainSafe[T any](it fp.Iterator[T], limit int) ([]T, *failure) {
	out := []T{}
	for it.HasNext() {
		v, panicked := safeNext(it)
		if panicked {
			return out, failf("next-wrong", "canonical drain: Next panicked after a true HasNext with %d elements delivered", len(out))
		}
		out = append(out, v)
		if len(out) > limit {
			return out, failf("hasnext-wrong", "canonical drain: more than %d elements delivered, %d are in the structure", len(out)-1, limit)
		}
	}
	return out, nil
}

// drive runs the protocol script against a fresh iterator from mk. order: "fixed" (ref is the
// sequence), "twin" (the structure's own deterministic order: canonical drain of a second
// iterator over the same structure, which must be a permutation of ref) or "any" (multiset).
func drive[T comparable](mk func() fp.Iterator[T], ref []T, order string, pr *rand.Rand, st *scriptStats) *failure {
	switch order {
	case "twin":
		got, f := drainSafe(mk(), len(ref))
		if f != nil {
			return f
		}
		if f := sameMultiset(got, ref); f != nil {
			return f
		}
		return runScript(mk(), got, false, pr, st)
	case "any":
		return runScript(mk(), ref, true, pr, st)
	}
	return runScript(mk(), ref, false, pr, st)
}

func liveKeys(sp *shapeSpec) []int {
	gone := map[int]bool{}
	for _, k := range sp.Removed {
		gone[k] = true
	}
	out := []int{}
	for _, k := range dedupe(sp.Keys) {
		if !gone[k] {
			out = append(out, k)
		}
	}
	return out
}

func execTrie(sp *shapeSpec, pr *rand.Rand, st *scriptStats, obs *shapeObs) *failure {
	h := shHashers[sp.Hasher]
	live := liveKeys(sp)
	if sp.Kind == "immutable.Set.Iterator" {
		var s fp.Set[int]
		switch sp.Build {
		case "varargs":
			s = immutable.Set(h, sp.Keys...)
		case "builder":
			b := immutable.SetBuilder(h)
			for _, k := range sp.Keys {
				b.Add(k)
			}
			s = b.Build()
		default:
			s = immutable.Set(h)
			for _, k := range sp.Keys {
				s = s.Incl(k)
			}
		}
		for _, k := range sp.Removed {
			s = s.Excl(k)
		}
		if sm := fp.VerifSetMinimal(s); sm != nil {
			if c, err := immutable.VerifCheckSet(sm); err == nil {
				obs.census = &c
			}
		}
		return drive(func() fp.Iterator[int] { return s.Iterator() }, live, "twin", pr, st)
	}
	var m fp.Map[int, int]
	switch sp.Build {
	case "varargs":
		ts := make([]fp.Tuple2[int, int], len(sp.Keys))
		for i, k := range sp.Keys {
			ts[i] = tup(k)
		}
		m = immutable.Map(h, ts...)
	case "builder":
		b := immutable.MapBuilder[int, int](h)
		for _, k := range sp.Keys {
			b.Add(k, valOf(k))
		}
		m = b.Build()
	default:
		m = immutable.Map[int, int](h)
		for _, k := range sp.Keys {
			m = m.Updated(k, valOf(k))
		}
	}
	for _, k := range sp.Removed {
		m = m.Removed(k)
	}
	if m.Base != nil {
		if c, err := immutable.VerifCheck(m.Base); err == nil {
			obs.census = &c
		}
	}
	switch sp.Kind {
	case "immutable.Map.Keys":
		return drive(func() fp.Iterator[int] { return m.Keys() }, live, "twin", pr, st)
	case "immutable.Map.Values":
		vals := make([]int, len(live))
		for i, k := range live {
			vals[i] = valOf(k)
		}
		return drive(func() fp.Iterator[int] { return m.Values() }, vals, "twin", pr, st)
	}
	ts := make([]fp.Tuple2[int, int], len(live))
	for i, k := range live {
		ts[i] = tup(k)
	}
	return drive(func() fp.Iterator[fp.Tuple2[int, int]] { return m.Iterator() }, ts, "twin", pr, st)
}

func reversed(xs []int) []int {
	out := make([]int, len(xs))
	for i, v := range xs {
		out[len(xs)-1-i] = v
	}
	return out
}

func execSeq(sp *shapeSpec, pr *rand.Rand, st *scriptStats) *failure {
	ref := append([]int{}, sp.Keys...)
	mk := func() fp.Iterator[int] {
		xs := subSlice(sp.Keys, sp.Off, sp.Spare)
		switch sp.Kind {
		case "iterator.Of":
			return iterator.Of(xs...)
		case "iterator.FromSeq":
			return iterator.FromSeq(xs)
		case "iterator.FromSlice":
			return iterator.FromSlice(xs)
		case "fp.IteratorOfSeq":
			return fp.IteratorOfSeq(xs)
		case "seq.Iterator":
			return seq.Iterator(xs)
		case "iterator.ReverseSeq":
			return iterator.ReverseSeq(xs)
		case "iterator.ReverseSlice":
			return iterator.ReverseSlice(xs)
		case "iterator.Pull(slices.Values)":
			return iterator.Pull(slices.Values(xs))
		}
		panic("harness: unknown seq kind " + sp.Kind)
	}
	if sp.Kind == "iterator.ReverseSeq" || sp.Kind == "iterator.ReverseSlice" {
		ref = reversed(ref)
	}
	return drive(mk, ref, "fixed", pr, st)
}

func execList(sp *shapeSpec, pr *rand.Rand, st *scriptStats, obs *shapeObs) *failure {
	xs := sp.Keys
	n := len(xs)
	at := func(i int) fp.Option[int] {
		if i >= 0 && i < n {
			return fp.Some(xs[i])
		}
		return fp.None[int]()
	}
	ref := append([]int{}, xs...)
	cut := n / 2
	var mkList func() fp.List[int]
	obs.lazy = true
	switch sp.Class {
	case "list.Of":
		mkList, obs.lazy = func() fp.List[int] { return list.Of(subSlice(xs, sp.Off, sp.Spare)...) }, false
	case "list.FromSeq(sub-slice)":
		mkList, obs.lazy = func() fp.List[int] { return list.FromSeq(subSlice(xs, sp.Off, sp.Spare)) }, false
	case "list.FromSlice(sub-slice)":
		mkList, obs.lazy = func() fp.List[int] { return list.FromSlice(subSlice(xs, sp.Off, sp.Spare)) }, false
	case "list.ReverseSeq(sub-slice)":
		mkList, ref = func() fp.List[int] { return list.ReverseSeq(subSlice(xs, sp.Off, sp.Spare)) }, reversed(ref)
	case "list.Apply-chain":
		mkList, obs.lazy = func() fp.List[int] {
			l := list.Empty[int]()
			for i := n - 1; i >= 0; i-- {
				l = list.Apply(xs[i], l)
			}
			return l
		}, false
	case "list.Apply-on-seq-tail":
		mkList, obs.lazy = func() fp.List[int] {
			l := list.FromSeq(subSlice(xs[cut:], sp.Off, sp.Spare))
			for i := cut - 1; i >= 0; i-- {
				l = list.Apply(xs[i], l)
			}
			return l
		}, false
	case "list.Generate":
		mkList = func() fp.List[int] { return list.Generate(at) }
	case "list.GenerateFrom":
		mkList, ref = func() fp.List[int] { return list.GenerateFrom(cut, at) }, append([]int{}, xs[cut:]...)
	case "list.Range":
		off := sp.Off - 2
		ref = make([]int, n)
		for i := range ref {
			ref[i] = off + i
		}
		mkList = func() fp.List[int] { return list.Range(off, off+n) }
	case "list.Map(lazy)":
		ref = make([]int, n)
		for i, v := range xs {
			ref[i] = v*3 + 1
		}
		mkList = func() fp.List[int] { return list.Map(list.Generate(at), func(v int) int { return v*3 + 1 }) }
	case "list.Collect(iterator)":
		mkList = func() fp.List[int] { return list.Collect(iterator.FromSeq(subSlice(xs, sp.Off, sp.Spare))) }
	case "list.Combine(seq,lazy)":
		mkList = func() fp.List[int] {
			return list.Combine(list.FromSeq(subSlice(xs[:cut], sp.Off, sp.Spare)), list.GenerateFrom(cut, at))
		}
	case "list.Combine(lazy,seq)":
		mkList = func() fp.List[int] {
			return list.Combine(list.Generate(func(i int) fp.Option[int] {
				if i < cut {
					return at(i)
				}
				return fp.None[int]()
			}), list.FromSeq(subSlice(xs[cut:], sp.Off, sp.Spare)))
		}
	case "list.Concat(head,lazy)":
		ref = append([]int{4242}, ref...)
		mkList = func() fp.List[int] { return list.Concat(4242, list.Generate(at)) }
	case "list.FilterMap(lazy)":
		ref = []int{}
		for _, v := range xs {
			if v%3 != 0 {
				ref = append(ref, v+100)
			}
		}
		mkList = func() fp.List[int] {
			return list.FilterMap(list.Generate(at), func(v int) fp.Option[int] {
				if v%3 != 0 {
					return fp.Some(v + 100)
				}
				return fp.None[int]()
			})
		}
	case "fp.MakeList":
		var from func(i int) fp.List[int]
		from = func(i int) fp.List[int] {
			return fp.MakeList(func() fp.Option[int] { return at(i) }, func() fp.List[int] { return from(i + 1) })
		}
		mkList = func() fp.List[int] { return from(0) }
	default:
		panic("harness: unknown list class " + sp.Class)
	}
	mk := func() fp.Iterator[int] {
		if sp.Kind == "iterator.List" {
			return iterator.List(mkList())
		}
		return iterator.FromList(mkList())
	}
	return drive(mk, ref, "fixed", pr, st)
}

func execGoMap(sp *shapeSpec, pr *rand.Rand, st *scriptStats) *failure {
	ks := dedupe(sp.Keys)
	vals := make([]int, len(ks))
	ts := make([]fp.Tuple2[int, int], len(ks))
	for i, k := range ks {
		vals[i], ts[i] = valOf(k), tup(k)
	}
	unsafeMap := func() fp.Map[int, int] {
		m := fp.Map[int, int]{}
		for _, k := range ks {
			m = m.Updated(k, valOf(k))
		}
		return m
	}
	switch sp.Kind {
	case "iterator.FromMap":
		return drive(func() fp.Iterator[fp.Tuple2[int, int]] { return iterator.FromMap(goMapOf(ks)) }, ts, "any", pr, st)
	case "fp.IteratorOfGoMap":
		return drive(func() fp.Iterator[fp.Tuple2[int, int]] { return fp.IteratorOfGoMap(goMapOf(ks)) }, ts, "any", pr, st)
	case "fp.MakePullIterator(maps.All)":
		return drive(func() fp.Iterator[fp.Tuple2[int, int]] {
			m := goMapOf(ks)
			return fp.MakePullIterator(func(yield func(fp.Tuple2[int, int]) bool) {
				for k, v := range maps.All(m) {
					if !yield(fp.Tuple2[int, int]{I1: k, I2: v}) {
						return
					}
				}
			})
		}, ts, "any", pr, st)
	case "fp.Map.Iterator(mutable)":
		return drive(func() fp.Iterator[fp.Tuple2[int, int]] { return mutable.MapOf(goMapOf(ks)).Iterator() }, ts, "any", pr, st)
	case "fp.Map.Iterator(UnsafeGoMap)":
		return drive(func() fp.Iterator[fp.Tuple2[int, int]] { return unsafeMap().Iterator() }, ts, "any", pr, st)
	case "CopyOnWriteMap.Iterator":
		return drive(func() fp.Iterator[fp.Tuple2[int, int]] {
			m := &mutable.CopyOnWriteMap[int, int]{}
			for _, k := range ks {
				m.Updated(k, valOf(k))
			}
			return m.Iterator()
		}, ts, "any", pr, st)
	case "iterator.FromMapKey":
		return drive(func() fp.Iterator[int] { return iterator.FromMapKey(goMapOf(ks)) }, ks, "any", pr, st)
	case "iterator.FromMapValue":
		return drive(func() fp.Iterator[int] { return iterator.FromMapValue(goMapOf(ks)) }, vals, "any", pr, st)
	case "fp.Map.Keys(mutable)":
		return drive(func() fp.Iterator[int] { return mutable.MapOf(goMapOf(ks)).Keys() }, ks, "any", pr, st)
	case "fp.Map.Values(mutable)":
		return drive(func() fp.Iterator[int] { return mutable.MapOf(goMapOf(ks)).Values() }, vals, "any", pr, st)
	case "mutable.Set.Iterator":
		return drive(func() fp.Iterator[int] { return mutable.SetOf(ks...).Iterator() }, ks, "any", pr, st)
	case "fp.Set.Iterator(UnsafeGoSet)":
		return drive(func() fp.Iterator[int] {
			s := fp.Set[int]{}
			for _, k := range ks {
				s = s.Incl(k)
			}
			return s.Iterator()
		}, ks, "any", pr, st)
	case "fp.IteratorOfGoSet":
		return drive(func() fp.Iterator[int] {
			m := map[int]bool{}
			for _, k := range ks {
				m[k] = true
			}
			return fp.IteratorOfGoSet(m)
		}, ks, "any", pr, st)
	case "fp.Map.Keys(UnsafeGoMap)":
		return drive(func() fp.Iterator[int] { return unsafeMap().Keys() }, ks, "any", pr, st)
	case "fp.Map.Values(UnsafeGoMap)":
		return drive(func() fp.Iterator[int] { return unsafeMap().Values() }, vals, "any", pr, st)
	case "iterator.FromList(list.FromMapKey)":
		return drive(func() fp.Iterator[int] { return iterator.FromList(list.FromMapKey(goMapOf(ks))) }, ks, "any", pr, st)
	case "iterator.Pull(maps.Keys)":
		return drive(func() fp.Iterator[int] { return iterator.Pull(maps.Keys(goMapOf(ks))) }, ks, "any", pr, st)
	}
	panic("harness: unknown go-map kind " + sp.Kind)
}

// execShape runs the spec once (fresh structure, fresh iterators) and returns the verdict.
func execShape(sp *shapeSpec, st *scriptStats, obs *shapeObs) (f *failure) {
	defer func() {
		if r := recover(); r != nil {
			if be, is := r.(vrt.BudgetExceeded); is {
				f = failf("nontermination", "logical budget exceeded: %s", be.What)
				return
			}
			f = failf("panic", "unexpected panic outside an exhausted Next (while building the structure, in Iterator()/Keys()/Values() or in HasNext): %v", r)
		}
	}()
	pr := pcg(sp.PreSeed)
	if sp.GC {
		// at most three collections per script, at PRNG positions, between the HasNext calls and Next
		gr := pcg(sp.PreSeed ^ 0x6c62272e07bb0142)
		n := len(dedupe(sp.Keys))
		at := map[int]bool{}
		for k := 0; k < 3 && n > 0; k++ {
			at[[]int{0, n - 1, gr.IntN(n), gr.IntN(n)}[gr.IntN(4)]] = true
		}
		st.between = func(pos int) {
			if at[pos] {
				runtime.GC()
				obs.gcs++
			}
		}
	}
	obs.elements = len(sp.Keys)
	switch sp.Family {
	case "trie":
		return execTrie(sp, pr, st, obs)
	case "seq":
		return execSeq(sp, pr, st)
	case "list":
		return execList(sp, pr, st, obs)
	case "gomap":
		return execGoMap(sp, pr, st)
	}
	panic("harness: unknown shape family " + sp.Family)
}

// shrinkShape drops keys one at a time while the same kind of failure persists (bounded).
func shrinkShape(sp *shapeSpec, f *failure) (*shapeSpec, *failure) {
	cur, cf := sp, f
	if len(sp.Keys) > 200 || sp.Family == "gomap" {
		return cur, cf
	}
	budget := 600
	for changed := true; changed && budget > 0; {
		changed = false
		for i := 0; i < len(cur.Keys) && budget > 0; i++ {
			c := *cur
			c.Keys = append(append([]int{}, cur.Keys[:i]...), cur.Keys[i+1:]...)
			c.GC = false
			budget--
			var st scriptStats
			var obs shapeObs
			if nf := execShape(&c, &st, &obs); nf != nil && nf.kind == cf.kind {
				cur, cf, changed = &c, nf, true
				i--
			}
		}
	}
	return cur, cf
}

func shapeHitNames() []string {
	out := []string{}
	for _, k := range trieKinds {
		for _, c := range trieClasses {
			out = append(out, "shape."+k+"."+c)
		}
		for _, b := range trieBuilds {
			out = append(out, "shape."+k+"."+b)
		}
		out = append(out, "shape."+k+".after-removals")
	}
	for _, k := range seqKinds {
		for _, c := range seqClasses {
			out = append(out, "shape."+k+"."+c)
		}
	}
	for _, k := range listKinds {
		for _, c := range listClasses {
			out = append(out, "shape."+k+"."+c)
		}
	}
	for _, k := range goMapKinds {
		for _, n := range goMapSizes {
			out = append(out, "shape."+k+".entries-"+sizeClass(n))
		}
		out = append(out, "shape."+k+".gc")
	}
	return out
}

func runShape(w *vrt.W, i int) {
	r := w.Rand(i)
	fixed := -1
	if i < numFixedShapes() {
		fixed = i
	}
	sp := genShape(r, fixed)
	w.Begin(i, sp.site())
	var st scriptStats
	var obs shapeObs
	var f *failure
	w.Guard(i, func() any { return sp }, func() {
		f = execShape(sp, &st, &obs)
		if f != nil {
			msp, mf := shrinkShape(sp, f)
			key := "shape:" + sp.Kind + "/" + sp.Class + "/" + mf.kind
			w.Violation(i, key, mf.detail+fmt.Sprintf("\nminimised case: %s build=%s hasher=%s keys %v removed %v offset %d spare capacity %d\noriginal case: keys %s removed %s", msp.site(), msp.Build, msp.Hasher, msp.Keys, msp.Removed, msp.Off, msp.Spare, clip(sp.Keys), clip(sp.Removed)),
				map[string]any{"minimised": msp, "original": sp})
		}
	})
	w.Done(i)
	if f != nil {
		return
	}
	w.Hit("shape." + sp.Kind + "." + sp.Class)
	w.Add("shape.scripts", 1)
	w.Add("shape.scripts."+sp.Family, 1)
	w.Add("probes.exhausted_next", int64(st.probes))
	w.Add("calls.next", int64(st.nexts))
	if st.redundant > 0 {
		w.Add("shape.scripts.redundant_hasnext", 1)
	}
	switch sp.Family {
	case "trie":
		w.Hit("shape." + sp.Kind + "." + sp.Build)
		if len(sp.Removed) > 0 {
			w.Hit("shape." + sp.Kind + ".after-removals")
			w.Add("shape.trie.after_removals", 1)
		}
		if c := obs.census; c != nil {
			w.Max("shape.trie.max_depth", int64(c.MaxDepth))
			w.Max("shape.trie.max_entries", int64(c.Entries))
			w.Max("shape.trie.max_collision_entries", int64(c.CollisionEntries))
			if c.MaxDepth >= 7 {
				w.Add("shape.trie.depth7", 1) // a leaf below a branch on the last hash fragment
			}
			if c.MaxDepth >= 3 {
				w.Add("shape.trie.depth3plus", 1)
			}
			if c.Collision > 0 {
				w.Add("shape.trie.with_collision_leaf", 1)
			}
			if c.HashArray > 0 {
				w.Add("shape.trie.with_hash_array_node", 1)
			}
			if c.Bitmap > 0 {
				w.Add("shape.trie.with_bitmap_node", 1)
			}
			if c.Array > 0 {
				w.Add("shape.trie.array_root", 1)
			}
			if c.Entries > 32 {
				w.Add("shape.trie.entries_gt32", 1)
			}
			if c.Entries >= 1000 {
				w.Add("shape.trie.entries_1000", 1)
			}
		}
	case "seq":
		if sp.Spare > 0 {
			w.Add("shape.seq.spare_capacity", 1)
		}
	case "list":
		if obs.lazy {
			w.Add("shape.list.lazy", 1)
		} else {
			w.Add("shape.list.strict", 1)
		}
		if len(sp.Keys) >= 1000 {
			w.Add("shape.list.n1000", 1)
		}
	case "gomap":
		if len(sp.Keys) >= 1000 {
			w.Add("shape.gomap.n1000", 1)
		}
	}
	if sp.GC {
		if sp.Family == "gomap" {
			w.Hit("shape." + sp.Kind + ".gc")
		}
		w.Add("shape.gc_between_hasnext_and_next", int64(obs.gcs))
	}
	if st.redundant > 0 && st.nexts > 0 {
		w.Distinct(fmt.Sprintf("shape|%s|%s|%s|%s|%d|%d|%d", sp.Kind, sp.Class, sp.Build, sp.Hasher, len(sp.Keys), len(sp.Removed), sp.PreSeed%16))
		if w.WantSample() && len(sp.Keys) <= 24 && sp.Family == "trie" {
			s := map[string]any{"family": "shape", "kind": sp.Kind, "shape": sp.Class, "hasher": sp.Hasher, "build": sp.Build, "keys": sp.Keys, "removed": sp.Removed}
			if obs.census != nil {
				s["trie_census"] = *obs.census
			}
			w.Sample(s)
		}
	}
}
