package main

import (
	"fmt"
	"math/rand/v2"
	"strings"
	"sync"

	ir "verif/refmodel/iterref"
	"verif/vrt"

	"github.com/csgura/fp"
	"github.com/csgura/fp/iterator"
)

var twoKinds = []string{"iterator.Duplicate", "iterator.Span", "iterator.Partition"}

// ev is one scripted call: side 0 = left, 1 = right; op 'H' = HasNext, 'N' = Next.
type ev struct {
	Side int  `json:"side"`
	Op   byte `json:"op"`
}

func evString(es []ev) string {
	var b strings.Builder
	for _, e := range es {
		b.WriteByte("LR"[e.Side])
		b.WriteByte(e.Op)
		b.WriteByte(' ')
	}
	return b.String()
}

type twoSpec struct {
	Kind   string `json:"kind"`
	N      int    `json:"n"`
	Mask   uint64 `json:"predicate_mask"` // bit i set = predicate true on element i (elements are 10+i)
	Script string `json:"script"`
	Drain  int    `json:"drain_order"` // 0: left then right, 1: right then left, 2: alternating
}

type twoRun struct {
	pulls     int
	exhausted int // Next calls on the exhausted source
	sides     [2]fp.Iterator[int]
	ref       [2][]int
	pos       [2]int
	n         int
}

func newTwo(kind string, n int, mask uint64) *twoRun {
	t := &twoRun{n: n}
	vals := make([]int, n)
	for i := range vals {
		vals[i] = 10 + i
	}
	idx := 0
	hb := vrt.NewBudget(int64(100000+1000*n), "HasNext of the source called without bound")
	src := fp.MakeIterator(func() bool { hb.Tick(); return idx < n }, func() int {
		if idx < n {
			idx++
			t.pulls++
			return vals[idx-1]
		}
		t.exhausted++
		panic("next on empty iterator")
	})
	p := func(x int) bool { return mask>>(uint(x-10)&63)&1 == 1 }
	switch kind {
	case "iterator.Duplicate":
		t.sides[0], t.sides[1] = iterator.Duplicate(src)
		t.ref[0], t.ref[1] = vals, vals
	case "iterator.Span":
		t.sides[0], t.sides[1] = iterator.Span(src, p)
		t.ref[0], t.ref[1] = ir.TakeWhileS(vals, p), ir.DropWhileS(vals, p)
	case "iterator.Partition":
		t.sides[0], t.sides[1] = iterator.Partition(src, p)
		t.ref[0], t.ref[1] = ir.FilterS(vals, p), ir.FilterS(vals, func(x int) bool { return !p(x) })
	default:
		panic("harness: unknown two-sided kind " + kind)
	}
	return t
}

var sideName = []string{"left", "right"}

// step executes one event and compares with the reference.
func (t *twoRun) step(e ev, probes *int) *failure {
	s := e.Side
	it := t.sides[s]
	more := t.pos[s] < len(t.ref[s])
	if e.Op == 'H' {
		if h := it.HasNext(); h != more {
			return failf("hasnext-wrong", "%s.HasNext = %v with %d of %d elements of that side delivered", sideName[s], h, t.pos[s], len(t.ref[s]))
		}
		return nil
	}
	ex0 := t.exhausted
	v, panicked := safeNext(it)
	if more {
		if panicked {
			if t.exhausted > ex0 {
				return failf("source-pulled-at-exhaustion", "%s.Next pulled the exhausted source although element %d of that side (%d) was still due", sideName[s], t.pos[s], t.ref[s][t.pos[s]])
			}
			return failf("next-wrong", "%s.Next panicked with %d of %d elements of that side delivered", sideName[s], t.pos[s], len(t.ref[s]))
		}
		if v != t.ref[s][t.pos[s]] {
			return failf("next-wrong", "%s.Next returned %d, element %d of that side is %d (side reference %v)", sideName[s], v, t.pos[s], t.ref[s][t.pos[s]], t.ref[s])
		}
		t.pos[s]++
		return nil
	}
	*probes++
	if !panicked {
		return failf("exhausted-next-returned", "%s.Next returned %d after all %d elements of that side were delivered", sideName[s], v, len(t.ref[s]))
	}
	return nil
}

// finish drains both sides canonically in the given order, probes exhaustion and checks the pulls.
func (t *twoRun) finish(order int, probes *int) *failure {
	drain := func(s int) *failure {
		for t.pos[s] < len(t.ref[s]) {
			if f := t.step(ev{s, 'H'}, probes); f != nil {
				return f
			}
			if f := t.step(ev{s, 'N'}, probes); f != nil {
				return f
			}
		}
		return nil
	}
	switch order {
	case 0, 1:
		a := order
		if f := drain(a); f != nil {
			return f
		}
		if f := drain(1 - a); f != nil {
			return f
		}
	default:
		for t.pos[0] < len(t.ref[0]) || t.pos[1] < len(t.ref[1]) {
			for s := 0; s < 2; s++ {
				if t.pos[s] < len(t.ref[s]) {
					if f := t.step(ev{s, 'H'}, probes); f != nil {
						return f
					}
					if f := t.step(ev{s, 'N'}, probes); f != nil {
						return f
					}
				}
			}
		}
	}
	for _, e := range []ev{{0, 'H'}, {1, 'H'}, {0, 'N'}, {1, 'N'}, {1, 'H'}, {0, 'H'}, {1, 'N'}, {0, 'N'}, {0, 'H'}, {1, 'H'}} {
		if f := t.step(e, probes); f != nil {
			f.detail += " (after both sides were drained)"
			return f
		}
	}
	if t.pulls != t.n {
		return failf("source-pulls", "both sides drained: the source of %d elements was pulled %d times", t.n, t.pulls)
	}
	return nil
}

func execTwo(sp *twoSpec, script []ev, probes *int) (f *failure) {
	defer func() {
		if r := recover(); r != nil {
			if be, is := r.(vrt.BudgetExceeded); is {
				f = failf("nontermination", "logical budget exceeded: %s", be.What)
				return
			}
			f = failf("panic", "unexpected panic: %v", r)
		}
	}()
	t := newTwo(sp.Kind, sp.N, sp.Mask)
	for i, e := range script {
		if f := t.step(e, probes); f != nil {
			f.detail += fmt.Sprintf(" — event %d of script [%s]", i, evString(script))
			return f
		}
	}
	if f := t.finish(sp.Drain, probes); f != nil {
		f.detail += fmt.Sprintf(" — after script [%s], drain order %d", evString(script), sp.Drain)
		return f
	}
	return nil
}

func parseScript(s string) []ev {
	out := []ev{}
	for _, tok := range strings.Fields(s) {
		side := 0
		if tok[0] == 'R' {
			side = 1
		}
		out = append(out, ev{side, tok[1]})
	}
	return out
}

// leadChanges: how often the side that is ahead (in Next calls) changes.
func leadChanges(script []ev) int {
	var cnt [2]int
	lead, changes := -1, 0
	for _, e := range script {
		if e.Op != 'N' {
			continue
		}
		cnt[e.Side]++
		l := lead
		if cnt[0] > cnt[1] {
			l = 0
		} else if cnt[1] > cnt[0] {
			l = 1
		}
		if l != lead && lead != -1 {
			changes++
		}
		lead = l
	}
	return changes
}

func reportTwo(w *vrt.W, i int, sp *twoSpec, script []ev, f *failure) {
	sp.Script = evString(script)
	w.Violation(i, sp.Kind+"/"+f.kind, fmt.Sprintf("%s\n%s over %d elements (10..%d), predicate mask %b", f.detail, sp.Kind, sp.N, 9+sp.N, sp.Mask), sp)
}

// ---- PRNG scripts (n <= 40) --------------------------------------------------------------

func runTwoRandom(w *vrt.W, i int, r *rand.Rand) {
	sp := &twoSpec{Kind: twoKinds[r.IntN(3)], Drain: r.IntN(3)}
	switch x := r.IntN(10); {
	case x < 1:
		sp.N = 0
	case x < 2:
		sp.N = 1
	case x < 5:
		sp.N = 2 + r.IntN(5)
	default:
		sp.N = 7 + r.IntN(34)
	}
	switch r.IntN(6) {
	case 0:
		sp.Mask = ^uint64(0)
	case 1:
		sp.Mask = 0
	case 2:
		sp.Mask = 0x5555555555555555
	case 3:
		sp.Mask = (uint64(1) << uint(r.IntN(sp.N+1))) - 1 // true on a prefix
	default:
		sp.Mask = r.Uint64()
	}
	// script: runs on one side, HasNext noise on both, occasional Next on an exhausted side
	t := newTwo(sp.Kind, sp.N, sp.Mask)
	lens := [2]int{len(t.ref[0]), len(t.ref[1])}
	var pos [2]int
	script := []ev{}
	steps := r.IntN(3*sp.N + 6)
	side := r.IntN(2)
	for len(script) < steps {
		if r.IntN(3) == 0 {
			side = r.IntN(2)
		}
		switch x := r.IntN(10); {
		case x < 4:
			script = append(script, ev{side, 'H'})
		case x < 5:
			script = append(script, ev{1 - side, 'H'})
		default:
			if pos[side] < lens[side] {
				pos[side]++
				script = append(script, ev{side, 'N'})
			} else if r.IntN(4) == 0 {
				script = append(script, ev{side, 'N'}) // probe on the exhausted side
			} else {
				side = 1 - side
			}
		}
	}
	w.Begin(i, sp.Kind)
	probes := 0
	var f *failure
	w.Guard(i, func() any { sp.Script = evString(script); return sp }, func() {
		f = execTwo(sp, script, &probes)
		if f != nil {
			reportTwo(w, i, sp, script, f)
		}
	})
	w.Done(i)
	if f != nil {
		return
	}
	w.Hit("two." + sp.Kind)
	w.Add("two.scripts", 1)
	w.Add("two.random_scripts", 1)
	w.Add("probes.exhausted_next", int64(probes))
	if lc := leadChanges(script); lc > 0 {
		w.Add("two.lead_changes", int64(lc))
		w.Distinct(fmt.Sprintf("two|%s|%d|%x|%s|%d", sp.Kind, sp.N, sp.Mask, evString(script), sp.Drain))
		if w.WantSample() && sp.N <= 6 {
			sp.Script = evString(script)
			w.Sample(map[string]any{"family": "two-sided", "case": sp, "left_reference": t.ref[0], "right_reference": t.ref[1], "lead_changes": lc})
		}
	}
}

// ---- exhaustive scripts (n <= 4) ---------------------------------------------------------

type exConfig struct {
	Kind  string
	N     int
	Mask  uint64
	Order []int // the side of each Next event
}

var (
	exOnce sync.Once
	exList []exConfig
)

func orderings(a, b int) [][]int {
	if a == 0 && b == 0 {
		return [][]int{{}}
	}
	out := [][]int{}
	if a > 0 {
		for _, o := range orderings(a-1, b) {
			out = append(out, append([]int{0}, o...))
		}
	}
	if b > 0 {
		for _, o := range orderings(a, b-1) {
			out = append(out, append([]int{1}, o...))
		}
	}
	return out
}

func exConfigs() []exConfig {
	exOnce.Do(func() {
		for _, kind := range twoKinds {
			for n := 0; n <= 4; n++ {
				masks := uint64(1) << uint(n)
				if kind == "iterator.Duplicate" {
					masks = 1
				}
				for m := uint64(0); m < masks; m++ {
					t := newTwo(kind, n, m)
					for _, o := range orderings(len(t.ref[0]), len(t.ref[1])) {
						exList = append(exList, exConfig{kind, n, m, o})
					}
				}
			}
		}
	})
	return exList
}

// runExhaustive: case i of batch b is config i*exBatches+b; all HasNext-pattern vectors are run.
func runExhaustive(w *vrt.W, i int) {
	cfgs := exConfigs()
	ci := i*exBatches + w.Batch
	if ci >= len(cfgs) {
		return
	}
	cfg := cfgs[ci]
	npat := 4
	if w.Tier == "quick" && len(cfg.Order) >= 8 {
		npat = 3
	}
	total := 1
	for range cfg.Order {
		total *= npat
	}
	sp := &twoSpec{Kind: cfg.Kind, N: cfg.N, Mask: cfg.Mask}
	w.Begin(i, cfg.Kind)
	probes := 0
	failed := false
	script := make([]ev, 0, 4*len(cfg.Order))
	w.Guard(i, func() any { sp.Script = evString(script); return sp }, func() {
		for code := 0; code < total && !failed; code++ {
			script = script[:0]
			c := code
			for _, s := range cfg.Order {
				switch c % npat {
				case 1:
					script = append(script, ev{s, 'H'})
				case 2:
					script = append(script, ev{s, 'H'}, ev{s, 'H'})
				case 3:
					script = append(script, ev{1 - s, 'H'}, ev{s, 'H'})
				}
				script = append(script, ev{s, 'N'})
				c /= npat
			}
			sp.Drain = code % 3
			if f := execTwo(sp, script, &probes); f != nil {
				failed = true
				reportTwo(w, i, sp, script, f)
			}
		}
	})
	w.Done(i)
	if failed {
		return
	}
	w.Hit("two.exhaustive." + cfg.Kind)
	w.Add("two.scripts", int64(total))
	w.Add("two.exhaustive_scripts", int64(total))
	w.Add("two.exhaustive_configs", 1)
	w.Add("probes.exhausted_next", int64(probes))
	lc := leadChanges(script) // of the last script: same Next order for all scripts of the config
	if lc > 0 {
		w.Add("two.lead_changes", int64(lc)*int64(total))
		w.Distinct(fmt.Sprintf("ex|%s|%d|%x|%v", cfg.Kind, cfg.N, cfg.Mask, cfg.Order))
	}
	w.Max("two.max_events_exhaustive", int64(len(cfg.Order)))
}
