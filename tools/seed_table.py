#!/usr/bin/env python3
"""Regenerates the table of seeded changes in DESIGN.md (between the SEEDED-TABLE markers) from seeded/*/meta.json."""
import json, glob, os, re
rows = []
for d in sorted(glob.glob('/verif/seeded/*/')):
    mp = os.path.join(d, 'meta.json')
    if not os.path.exists(mp): continue
    m = json.load(open(mp))
    name = os.path.basename(d.rstrip('/'))
    cr = m.get('check_result', {})
    how = 'MISSED'
    for t in ('quick', 'thorough'):
        if t in cr and cr[t]['exit'] == 1 and cr[t]['violations'] > 0:
            keys = cr[t]['keys']
            how = "%s: %s%s" % (t, ', '.join('`%s`' % k for k in keys[:2]), ' …' if len(keys) > 2 else '')
            break
    if m.get('detected_after_strengthening'):
        how += ' → after strengthening: ' + m['detected_after_strengthening']
    summ = (m.get('summary') or '').replace('\n', ' ').replace('|', '\\|')
    summ = re.sub(r'\s+', ' ', summ)
    if len(summ) > 230: summ = summ[:227] + '…'
    rows.append("| %s | %s | %s | %s |" % (name, m.get('property'), summ, how))
table = "| seeded change | property | what it does | caught by |\n|---|---|---|---|\n" + "\n".join(rows) + "\n"
p = '/verif/DESIGN.md'
s = open(p).read()
b, e = '<!-- SEEDED-TABLE-BEGIN -->', '<!-- SEEDED-TABLE-END -->'
if b not in s:
    s += "\n### 9.5 Seeded changes from independent sub-agents and which check catches them\n\nEach change was written by a fresh sub-agent that saw only the property text and a scratch worktree of the repository (nothing from /verif); every one was confirmed here (demo passes without / fails with the change, builds, the pinned suite still 98/98) by `tools/seed_eval.py` before the check was run on it through `tools/with_mutant.sh`. Files: `seeded/<name>/{patch.diff, demo*, meta.json}`.\n\n" + b + "\n" + e + "\n"
s = s[:s.index(b) + len(b)] + "\n" + table + s[s.index(e):]
open(p, 'w').write(s)
print(len(rows), "rows")
