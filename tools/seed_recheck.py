#!/usr/bin/env python3
"""tools/seed_recheck.py <name>... : re-runs the check on seeded/<name>/patch.diff (after the check was strengthened)
and records the outcome in meta.json as detected_after_strengthening."""
import json, os, re, subprocess, sys
for name in sys.argv[1:]:
    d = os.path.join('/verif/seeded', name)
    m = json.load(open(os.path.join(d, 'meta.json')))
    pid = m['property']
    out_txt = None
    for t in ('quick', 'thorough'):
        p = subprocess.run(['/verif/tools/with_mutant.sh', pid, t, os.path.join(d, 'patch.diff')], cwd='/verif', stdout=subprocess.PIPE, stderr=subprocess.STDOUT, text=True)
        keys = sorted(set(re.findall(r'^\s+key=(\S+)', p.stdout, re.M)))
        viol = [l for l in p.stdout.splitlines() if l.startswith('VIOLATION')]
        if p.returncode == 1 and viol:
            out_txt = "%s: %s%s" % (t, ', '.join('`%s`' % k for k in keys[:3]), ' …' if len(keys) > 3 else '')
            break
    m['detected_after_strengthening'] = out_txt or 'still MISSED'
    json.dump(m, open(os.path.join(d, 'meta.json'), 'w'), indent=1)
    print(name, '->', m['detected_after_strengthening'])
