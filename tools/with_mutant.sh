#!/bin/bash
# tools/with_mutant.sh <Cnn> <tier> <patch.diff | -e 'shell edit cmd'>
# Runs a check against a scratch copy of /repo with a mutation applied (never touches /repo).
# The evidence file of that property is restored afterwards.
export GOFLAGS="-mod=mod -trimpath" GOPROXY=off GOSUMDB=off GOTOOLCHAIN=local
id=$1; tier=$2; shift 2
pkg=$(echo "$id" | tr 'C' 'c')
T=$(mktemp -d /tmp/fpmut.XXXXXX)
trap 'rm -rf "$T"' EXIT
rsync -a --exclude .git /repo/ "$T/repo/"
if [ "$1" = "-e" ]; then (cd "$T/repo" && bash -c "$2") || exit 3
else (cd "$T/repo" && patch -p1 -s < "$1") || { echo "patch failed"; exit 3; }
fi
(cd "$T/repo" && go build ./... ) || { echo "MUTANT DOES NOT COMPILE"; exit 4; }
cd /verif
sed "s#=> /repo#=> $T/repo#" go.mod > "$T/go.mod"; cp go.sum "$T/go.sum"
go build -modfile="$T/go.mod" -tags verif -o "$T/$pkg" "./$pkg" || exit 5
[ -f "$pkg/.race" ] && { go build -race -modfile="$T/go.mod" -tags verif -o "$T/$pkg.race" "./$pkg" || exit 5; }
cp evidence/$id.json "$T/ev.json" 2>/dev/null
VERIF_REPO="$T/repo" "$T/$pkg" -tier "$tier"
rc=$?
cp "$T/ev.json" evidence/$id.json 2>/dev/null
exit $rc
