#!/bin/bash
# Runs the repository's pinned baseline suite with the verif guard OFF and compares
# the set of passing top-level tests with /root/.vp/BASELINE.json (stable_pass).
# usage: tools/baseline.sh [repo-dir]
export GOFLAGS=-mod=mod GOPROXY=off GOSUMDB=off GOTOOLCHAIN=local
REPO=${1:-/repo}
OUT=$(mktemp)
trap 'rm -f "$OUT"' EXIT
(cd "$REPO" && go test -mod=mod -json -vet=off -count=1 -timeout 25m ./... ) > "$OUT" 2>/dev/null
python3 - "$OUT" <<'PY'
import json,sys
passed=set(); failed=set()
for l in open(sys.argv[1]):
    try: e=json.loads(l)
    except Exception: continue
    t=e.get('Test')
    if not t or '/' in t: continue
    k=e['Package']+'::'+t
    if e.get('Action')=='pass': passed.add(k)
    elif e.get('Action')=='fail': failed.add(k)
base=set(json.load(open('/root/.vp/BASELINE.json'))['stable_pass'])
missing=sorted(base-passed)
print("baseline: %d/%d stable tests pass; %d other failures"%(len(base&passed),len(base),len(failed-base)))
for m in missing: print("MISSING",m)
for f in sorted(failed): print("FAILED",f)
sys.exit(1 if missing else 0)
PY
