#!/usr/bin/env python3
"""tools/seed_eval.py <seed-dir> <orig-worktree-path> <name> [--tier quick|thorough|both] [--skip-suite]

Confirms a seeded change produced by an independent sub-agent and runs our check on it:
  1. scratch worktree of /repo HEAD (outside /repo and /verif), demo run WITHOUT the patch (must pass);
  2. patch applied: go build ./..., the pinned baseline suite (must still be 98/98), demo WITH the patch (must fail);
  3. the property's check against a scratch copy with the patch (tools/with_mutant.sh): VIOLATION expected;
  4. result recorded under /verif/seeded/<name>/ (patch.diff, demo, meta.json) ; worktree removed.
"""
import json, os, re, shutil, subprocess, sys, tempfile, time

ENV = dict(os.environ, GOFLAGS="-mod=mod", GOPROXY="off", GOSUMDB="off", GOTOOLCHAIN="local")

def sh(cmd, cwd=None, timeout=3600):
    p = subprocess.run(cmd, shell=True, cwd=cwd, env=ENV, stdout=subprocess.PIPE, stderr=subprocess.STDOUT, text=True, timeout=timeout)
    return p.returncode, p.stdout

def demo_ok(rc, out):
    # demo commands often end in a cleanup step, so the exit code alone is not reliable
    if re.search(r'^(--- FAIL|FAIL\b|panic:|fatal error:)', out, re.M):
        return False
    if re.search(r'^(ok\s|PASS\b)', out, re.M):
        return True
    return rc == 0

def main():
    seed, origwt, name = sys.argv[1], sys.argv[2].rstrip('/'), sys.argv[3]
    tier = 'both'
    if '--tier' in sys.argv:
        tier = sys.argv[sys.argv.index('--tier') + 1]
    skip_suite = '--skip-suite' in sys.argv
    meta = json.load(open(os.path.join(seed, 'meta.json')))
    pid = meta['property']
    wt = tempfile.mkdtemp(prefix='seedwt-', dir='/tmp')
    os.rmdir(wt)
    rc, out = sh(f"git -C /repo worktree add -q --detach {wt} HEAD")
    assert rc == 0, out
    res = {"property": pid, "summary": meta.get('summary'), "needs": meta.get('needs'), "files": meta.get('files'),
           "origin": "independent sub-agent given only the property text and a scratch worktree", "demo_cmd": meta.get('demo_cmd')}
    try:
        seedq = re.escape(seed.rstrip('/'))
        demo_cmd = meta['demo_cmd'].replace(origwt, wt)
        # demo without the patch
        rc0, out0 = sh(demo_cmd, cwd=wt, timeout=1800)
        sh("git checkout -q -- . && git clean -fdq", cwd=wt)
        res['demo_without_change'] = 'pass' if demo_ok(rc0, out0) else 'FAIL'
        rc, out = sh(f"git apply {seed}/patch.diff", cwd=wt)
        if rc != 0:
            res['apply'] = 'FAILED: ' + out[-500:]
            print(json.dumps(res, indent=1)); return 1
        rc, out = sh("go build ./... && go build -tags verif ./...", cwd=wt)
        res['builds'] = (rc == 0)
        if not skip_suite:
            rc, out = sh(f"/verif/tools/baseline.sh {wt}", timeout=3600)
            res['existing_suite_with_change'] = out.strip().splitlines()[0] if out.strip() else ''
            res['existing_suite_ok'] = (rc == 0)
            if rc != 0:
                res['existing_suite_first_run_missing'] = [l for l in out.splitlines() if l.startswith('MISSING')][:10]
                rc, out = sh(f"/verif/tools/baseline.sh {wt}", timeout=3600)
                res['existing_suite_second_run'] = out.strip().splitlines()[0] if out.strip() else ''
        rc1, out1 = sh(demo_cmd, cwd=wt, timeout=1800)
        res['demo_with_change'] = 'fail (as required)' if not demo_ok(rc1, out1) else 'PASSES (demo does not show the break)'
        sh("git checkout -q -- . && git clean -fdq", cwd=wt)
        # our check
        det = {}
        tiers = ['quick', 'thorough'] if tier == 'both' else [tier]
        for t in tiers:
            t0 = time.time()
            rc, out = sh(f"/verif/tools/with_mutant.sh {pid} {t} {seed}/patch.diff", cwd='/verif', timeout=7200)
            keys = sorted(set(re.findall(r'^\s+key=(\S+)', out, re.M)))
            viol = [l for l in out.splitlines() if l.startswith('VIOLATION')]
            det[t] = {"exit": rc, "violations": len(viol), "keys": keys[:12], "wall_s": round(time.time() - t0, 1),
                      "summary_line": (out.strip().splitlines() or [''])[-1]}
            if rc == 1 and viol:
                break
        res['check_result'] = det
        res['detected'] = any(d['exit'] == 1 and d['violations'] > 0 for d in det.values())
        dst = os.path.join('/verif/seeded', name)
        os.makedirs(dst, exist_ok=True)
        shutil.copy(os.path.join(seed, 'patch.diff'), dst)
        for f in os.listdir(seed):
            if f.startswith('demo') and os.path.isfile(os.path.join(seed, f)):
                shutil.copy(os.path.join(seed, f), dst)
            if f == 'demo' and os.path.isdir(os.path.join(seed, f)):
                shutil.copytree(os.path.join(seed, f), os.path.join(dst, 'demo'), dirs_exist_ok=True)
        res['what_we_ran'] = "tools/seed_eval.py: demo without/with the patch in a scratch worktree of /repo HEAD, go build, pinned baseline suite with the patch, then ./check via tools/with_mutant.sh on a scratch copy"
        json.dump(res, open(os.path.join(dst, 'meta.json'), 'w'), indent=1)
        print(json.dumps(res, indent=1))
    finally:
        sh(f"git -C /repo worktree remove --force {wt}")
        shutil.rmtree(wt, ignore_errors=True)
    return 0

if __name__ == '__main__':
    sys.exit(main())
