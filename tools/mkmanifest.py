#!/usr/bin/env python3
"""Writes /verif/MANIFEST.json from tools/manifest_checks.json (one entry per claimed property)."""
import json, os
here = os.path.dirname(os.path.abspath(__file__))
root = os.path.dirname(here)
spec = json.load(open(os.path.join(here, 'manifest_checks.json')))
props = [json.loads(l)['id'] for l in open(os.path.join(root, 'properties.jsonl')) if l.strip()]
checks = []
for pid in props:
    c = spec['checks'].get(pid)
    if not c:
        continue
    checks.append({
        "property_id": pid,
        "quick_cmd": "./check %s quick" % pid,
        "thorough_cmd": "./check %s thorough" % pid,
        "evidence_file": "/verif/evidence/%s.json" % pid,
        "replay_cmd_template": "./check %s quick --replay {path}" % pid,
        "engine": "vrt",
        "level_claimed": {"category": c.get("category", "exploration"), "text": c["text"], "design_ref": "DESIGN.md section 4, %s" % pid},
        "level_note": c["note"],
        "technique": c["technique"],
    })
na = [{"property_id": p, "reason": spec['not_applicable'].get(p, "check not built yet in this session; planned in DESIGN.md section 4")} for p in props if p not in spec['checks']]
m = {
    "version": 1,
    "setup_cmd": "./setup.sh",
    "hooks": {
        "guard": "verif",
        "enable": "go build -tags verif (the harness module /verif/go.mod uses: replace github.com/csgura/fp => /repo)",
        "baseline_off_cmd": "cd /repo && GOFLAGS=-mod=mod GOPROXY=off GOSUMDB=off GOTOOLCHAIN=local go test -mod=mod -json -vet=off -count=1 -timeout 25m ./...",
        "source_commits": spec["hook_commits"],
        "add_only": True,
    },
    "engines": [{"name": "vrt", "path": "/verif/vrt", "serves_properties": [c["property_id"] for c in checks],
                 "kind_free_text": "parent/worker runtime-monitoring harness: seeded case streams, case log, CPU-budget watchdog, reference-model oracles, race-detector log collection, evidence writer"}],
    "checks": checks,
    "not_applicable": na,
    "notes": spec.get("notes", ""),
}
json.dump(m, open(os.path.join(root, 'MANIFEST.json'), 'w'), indent=1)
print("MANIFEST.json: %d checks, %d not claimed" % (len(checks), len(na)))
