package main

// Reference semantics: the expression tree evaluated over a three-valued Try
// (pending | success v | failure e) with left-to-right short-circuit. This file imports
// nothing from csgura/fp. "Determined" = the result is not pending.

const modP = 1000003

// w31 is the position-weighted fold acc*31+v (mod a prime, all operands non-negative).
func w31(k int, xs ...int) int {
	acc := k % modP
	for _, x := range xs {
		acc = (acc*31 + x) % modP
	}
	return acc
}

// seqOf derives n pairwise distinct elements from v.
func seqOf(v, n int) []int {
	out := make([]int, n)
	for j := range out {
		out[j] = (v*8 + j) % modP
	}
	return out
}

const (
	pending = 0
	success = 1
	failure = 2
)

const (
	eSentinel    = 0 // sentinel error #K (compared by pointer)
	eNotFailed   = 1 // fp.ErrFutureNotFailed
	eOptionEmpty = 2 // fp.ErrOptionEmpty
	ePanic       = 3 // failure exposing panic value "boom-K"
)

type RErr struct {
	Kind int `json:"kind"`
	K    int `json:"k"`
}

type T3 struct {
	S int  `json:"s"`
	V int  `json:"v,omitempty"`
	E RErr `json:"e,omitempty"`
}

func succ(v int) T3       { return T3{S: success, V: v} }
func fail(e RErr) T3      { return T3{S: failure, E: e} }
func sentinel(k int) RErr { return RErr{eSentinel, k} }

// Sentinel table layout: 0..3 failure results of sources 0..3, 4..7 produced inside trees
// (userErr), 8 the poison error written into tampered inputs, 9.. the failure results of
// the sources 4..maxWideSrc-1 of wide trees.
const (
	poisonErr  = 8
	maxWideSrc = 72
	numErrs    = 9 + maxWideSrc - 4
)

// srcErr is the sentinel index of the failure result of source k.
func srcErr(k int) int {
	if k < 4 {
		return k
	}
	return k + 5
}

// poisonElem is the i-th value written over (or appended to) a caller-owned input of ints
// after the combinator returned.
func poisonElem(i int) int { return 900000 + i }

func (e RErr) code() int {
	switch e.Kind {
	case eSentinel:
		return 100 + e.K
	case eNotFailed:
		return 190
	case eOptionEmpty:
		return 191
	}
	return 200 + e.K
}

func isDef(k, code int) bool { return (k+code)%2 == 0 }

// userErr is the sentinel a user function of node n returns in its failing mode.
func userErr(k int, xs ...int) int { return 4 + w31(k, xs...)%4 }

type refEval struct {
	st []T3 // source states
}

func extend(env []int, xs ...int) []int {
	out := make([]int, 0, len(env)+len(xs))
	out = append(out, env...)
	return append(out, xs...)
}

func (re *refEval) plains(n *Node, env []int) []int {
	out := make([]int, len(n.Args))
	for i, a := range n.Args {
		out[i] = a.val(env)
	}
	return out
}

// kidsLTR evaluates the kids left to right and stops at the first non-success.
func (re *refEval) kidsLTR(kids []*Node, env []int) ([]int, T3) {
	vals := make([]int, 0, len(kids))
	for _, k := range kids {
		t := re.eval(k, env)
		if t.S != success {
			return nil, t
		}
		vals = append(vals, t.V)
	}
	return vals, T3{S: success}
}

// traverse evaluates body over the elements left to right.
func (re *refEval) traverse(body *Node, env []int, elems []int) ([]int, T3) {
	vals := make([]int, 0, len(elems))
	for _, x := range elems {
		t := re.eval(body, extend(env, x))
		if t.S != success {
			return nil, t
		}
		vals = append(vals, t.V)
	}
	return vals, T3{S: success}
}

func (re *refEval) eval(n *Node, env []int) T3 {
	k := n.K
	var t0 T3
	nk, _, _ := shape(entry{Fam: n.Fam, N: n.N, Mode: n.Mode})
	if nk >= 1 && n.Fam != "LiftA" && n.Fam != "LiftM" && n.Fam != "Sequence" && n.Fam != "SequenceIterator" {
		t0 = re.eval(n.Kids[0], env)
	}
	switch n.Fam {
	case "src":
		return re.st[k]
	case "srcidx":
		// the source selected by an environment slot (element value): src[env[K] % N]
		return re.st[env[len(env)-1-k]%n.N]
	case "ref":
		// a second use of the future of an earlier node instance (DAG edge)
		return re.eval(n.ref, env[:len(env)-k])
	case "expect":
		// second combinator call of the harness over immediate futures only
		if n.Mode == 1 {
			return fail(sentinel(k))
		}
		return succ(k)
	case "Successful":
		return succ(k)
	case "Failed":
		return fail(sentinel(k))
	case "arg":
		return succ(env[len(env)-1-k])
	case "FromTry":
		if n.Mode == 1 {
			return fail(sentinel(userErr(k)))
		}
		return succ(k)
	case "FromOption":
		if n.Mode == 1 {
			return fail(RErr{eOptionEmpty, 0})
		}
		return succ(k)
	case "Apply":
		if n.Mode == 1 {
			return fail(RErr{ePanic, k % 10})
		}
		return succ(k)
	case "Apply2":
		switch n.Mode {
		case 1:
			return fail(sentinel(userErr(k)))
		case 2:
			return fail(RErr{ePanic, k % 10})
		}
		return succ(k)
	case "Func", "Unit":
		xs := re.plains(n, env)
		switch n.Mode {
		case 1:
			return fail(sentinel(userErr(k, xs...)))
		case 2:
			return fail(RErr{ePanic, k % 10})
		}
		return succ(w31(k, xs...))

	case "Map", "Future.Map", "Lift", "Future.OnSuccess", "Future.Foreach":
		if t0.S != success {
			return t0
		}
		return succ(w31(k, t0.V))
	case "Replace":
		if t0.S != success {
			return t0
		}
		return succ(k)
	case "FlatMap", "Future.FlatMap":
		if t0.S != success {
			return t0
		}
		return re.eval(n.Body[0], extend(env, t0.V))
	case "Flatten":
		if n.Mode == 1 || t0.S != success {
			return t0
		}
		return re.eval(n.Body[0], extend(env, t0.V))
	case "Transform":
		switch t0.S {
		case pending:
			return t0
		case success:
			if n.Mode == 1 {
				return fail(sentinel(userErr(k)))
			}
			return succ(w31(k, t0.V))
		}
		switch n.Mode {
		case 0:
			return t0
		case 1:
			return succ(w31(k, t0.E.code()))
		}
		return succ(w31(k, t0.E.code()+1))
	case "TransformWith":
		switch t0.S {
		case pending:
			return t0
		case success:
			return re.eval(n.Body[0], extend(env, t0.V))
		}
		return re.eval(n.Body[1], extend(env, t0.E.code()))
	case "Future.Recover":
		if t0.S != failure {
			return t0
		}
		return succ(w31(k, t0.E.code()))
	case "Future.RecoverWith":
		if t0.S != failure {
			return t0
		}
		return re.eval(n.Body[0], extend(env, t0.E.code()))
	case "Future.RecoverCase":
		if t0.S != failure || !isDef(k, t0.E.code()) {
			return t0
		}
		return succ(w31(k, t0.E.code()))
	case "Future.RecoverCaseWith":
		if t0.S != failure || !isDef(k, t0.E.code()) {
			return t0
		}
		return re.eval(n.Body[0], extend(env, t0.E.code()))
	case "Future.Or":
		if t0.S != failure {
			return t0
		}
		return re.eval(n.Body[0], env)
	case "Future.OrFuture":
		if t0.S != failure {
			return t0
		}
		return re.eval(n.Kids[1], env)
	case "Future.Failed":
		switch t0.S {
		case pending:
			return t0
		case success:
			return fail(RErr{eNotFailed, 0})
		}
		return succ(t0.E.code())
	case "MapSeqLift", "MapSliceLift":
		if t0.S != success {
			return t0
		}
		var ys []int
		for _, x := range seqOf(t0.V, n.N) {
			ys = append(ys, w31(k, x))
		}
		return succ(w31(k+1, ys...))
	case "FlatMapTraverseSeq", "FlatMapTraverseSlice":
		if t0.S != success {
			return t0
		}
		vals, t := re.traverse(n.Body[0], env, seqOf(t0.V, n.N))
		if t.S != success {
			return t
		}
		return succ(w31(k, vals...))
	case "Map2", "Zip", "Zip3", "Ap", "LiftA", "Sequence", "SequenceIterator":
		vals, t := re.kidsLTR(n.Kids, env)
		if t.S != success {
			return t
		}
		return succ(w31(k, vals...))
	case "LiftM":
		vals, t := re.kidsLTR(n.Kids, env)
		if t.S != success {
			return t
		}
		return re.eval(n.Body[0], extend(env, vals...))
	case "ApFunc":
		if t0.S != success {
			return t0
		}
		t1 := re.eval(n.Body[0], env)
		if t1.S != success {
			return t1
		}
		return succ(w31(k, t0.V, t1.V))
	case "With":
		if t0.S != success {
			return t0
		}
		if n.Mode == 1 {
			return succ(w31(k, n.Args[0].val(env), t0.V))
		}
		t1 := re.eval(n.Kids[1], env)
		if t1.S != success {
			return t1
		}
		return succ(w31(k, t0.V, t1.V))
	case "Flap", "FlapMap", "Method":
		if t0.S != success {
			return t0
		}
		return succ(w31(k, append([]int{t0.V}, re.plains(n, env)...)...))
	case "FlatFlapMap", "FlatMethod":
		if t0.S != success {
			return t0
		}
		return re.eval(n.Body[0], extend(env, append([]int{t0.V}, re.plains(n, env)...)...))
	case "Compose":
		v := n.Args[0].val(env)
		for _, b := range n.Body {
			t := re.eval(b, extend(env, v))
			if t.S != success {
				return t
			}
			v = t.V
		}
		return succ(v)
	case "ComposeOption":
		if n.Mode == 1 {
			return fail(RErr{eOptionEmpty, 0})
		}
		return re.eval(n.Body[0], extend(env, w31(k, n.Args[0].val(env))))
	case "ComposeTry":
		if n.Mode == 1 {
			return fail(sentinel(userErr(k)))
		}
		return re.eval(n.Body[0], extend(env, w31(k, n.Args[0].val(env))))
	case "ComposePure":
		return succ(w31(k, n.Args[0].val(env)))
	case "Traverse", "TraverseSeq", "TraverseSlice", "TraverseFunc", "TraverseSeqFunc", "TraverseSliceFunc":
		vals, t := re.traverse(n.Body[0], env, seqOf(n.Args[0].val(env), n.N))
		if t.S != success {
			return t
		}
		return succ(w31(k, vals...))
	case "iterator.FoldFuture", "seq.FoldFuture", "list.FoldFuture":
		acc := k
		for _, x := range seqOf(n.Args[0].val(env), n.N) {
			t := re.eval(n.Body[0], extend(env, acc, x))
			if t.S != success {
				return t
			}
			acc = t.V
		}
		return succ(acc)
	case "Applicative", "Chain":
		var vals []int
		for i := range n.Steps {
			t := re.step(n, i, env, vals)
			if t.S != success {
				return t
			}
			vals = append(vals, t.V)
		}
		return succ(w31(k, vals...))
	}
	panic("ref: unknown family " + n.Fam)
}

// step evaluates argument i of a builder chain; vals are the earlier arguments, oldest first.
func (re *refEval) step(n *Node, i int, env []int, vals []int) T3 {
	st := &n.Steps[i]
	switch st.Kind {
	case stApFuture:
		return re.eval(st.Kid, env)
	case stAp, stApFunc:
		return succ(st.P.val(env))
	case stApTry, stApTryFunc:
		if st.Fail {
			return fail(sentinel(userErr(st.K)))
		}
		return succ(st.P.val(env))
	case stApOption, stApOptionFunc:
		if st.Fail {
			return fail(RErr{eOptionEmpty, 0})
		}
		return succ(st.P.val(env))
	case stApFutureFunc:
		return re.eval(st.Body, env)
	case stFlatMap:
		if i == 0 {
			return re.eval(st.Body, env)
		}
		return re.eval(st.Body, extend(env, vals[i-1]))
	case stMap:
		if i == 0 {
			return succ(w31(st.K))
		}
		return succ(w31(st.K, vals[i-1]))
	case stHListMap:
		return succ(w31(st.K, vals...))
	case stHListFlatMap:
		return re.eval(st.Body, extend(env, vals...))
	}
	panic("ref: unknown step kind")
}
