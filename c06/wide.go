package main

// Wide trees: ONE list-shaped combinator (or one chain of Zip3 / LiftA<m>) over n leaf
// operands, n from wideSizes, every operand a source promise (a few immediate or repeated
// ones in "mixed" trees). They exercise the list-shaped combinators with many sources -
// beyond any small-size special case - at a bounded scheduler cost: the tree has no other
// structure. Assignments and completion orders are chosen so that a source at a later
// position fails / completes while an earlier one is still pending.

import (
	"fmt"
	"math/rand/v2"
)

var wideSizes = []int{0, 1, 2, 3, 4, 5, 6, 7, 8, 9, 10, 15, 16, 17, 31, 32, 33, 64, 65}

type wideFam struct {
	Fam, Op string
}

var wideFams = []wideFam{
	{"Sequence", "future.Sequence"},
	{"SequenceIterator", "future.SequenceIterator"},
	{"Traverse", "future.Traverse"},
	{"TraverseSeq", "future.TraverseSeq"},
	{"TraverseSlice", "future.TraverseSlice"},
	{"TraverseFunc", "future.TraverseFunc"},
	{"TraverseSeqFunc", "future.TraverseSeqFunc"},
	{"TraverseSliceFunc", "future.TraverseSliceFunc"},
	{"FlatMapTraverseSeq", "future.FlatMapTraverseSeq"},
	{"FlatMapTraverseSlice", "future.FlatMapTraverseSlice"},
	{"iterator.FoldFuture", "iterator.FoldFuture"},
	{"seq.FoldFuture", "seq.FoldFuture"},
	{"list.FoldFuture", "list.FoldFuture"},
	{"Zip3", "future.Zip3"},
	{"LiftA", "future.LiftA"},
}

type wgen struct {
	r    *rand.Rand
	id   int
	nsrc int
}

func (g *wgen) nd(fam, op string) *Node {
	n := &Node{ID: g.id, Fam: fam, Op: op, K: 1 + g.r.IntN(9), size: 1}
	g.id++
	switch g.r.IntN(5) {
	case 0:
		n.Ex = 1
	case 1:
		n.Ex = 2
	}
	return n
}

func (g *wgen) leafNode(fam, op string, k int) *Node {
	n := &Node{ID: g.id, Fam: fam, Op: op, K: k}
	g.id++
	return n
}

func (g *wgen) src(k int) *Node { return g.leafNode("src", fmt.Sprintf("src%d", k), k) }

// operands makes n leaf operands: source promises in position order; in a mixed tree a few
// are immediate futures or a second use of an earlier source.
func (g *wgen) operands(n int) []*Node {
	mix := g.r.IntN(4) == 0
	var out []*Node
	for i := 0; i < n; i++ {
		x := g.r.IntN(100)
		switch {
		case mix && x < 10:
			out = append(out, g.leafNode("Successful", "future.Successful", 1+g.r.IntN(9)))
		case mix && x < 13:
			out = append(out, g.leafNode("Failed", "future.Failed", 4+g.r.IntN(4)))
		case mix && x < 28 && g.nsrc > 0:
			out = append(out, g.src(g.r.IntN(g.nsrc)))
		default:
			out = append(out, g.src(g.nsrc))
			g.nsrc++
		}
	}
	return out
}

func (g *wgen) pad(ops []*Node, want int) []*Node {
	for len(ops) < want {
		ops = append(ops, g.leafNode("Successful", "future.Successful", 1+g.r.IntN(9)))
	}
	return ops
}

func sumSize(n *Node) {
	n.size = 1
	for _, k := range n.Kids {
		n.size += k.size
	}
	for _, k := range n.Body {
		n.size += k.size
	}
}

// chain nests m-ary applicative nodes (Zip3: m = 3; LiftA: PRNG 2..9 per level) until all
// operands are used; the nested node goes to a PRNG position of the next level.
func (g *wgen) chain(fam string, ops []*Node) *Node {
	arity := func(rem int) int {
		if fam == "Zip3" {
			return 3
		}
		m := 2 + g.r.IntN(8)
		if m > rem {
			m = rem
		}
		return m
	}
	mk := func(kids []*Node) *Node {
		var n *Node
		if fam == "Zip3" {
			n = g.nd("Zip3", "future.Zip3")
		} else {
			n = g.nd("LiftA", fmt.Sprintf("future.LiftA%d", len(kids)))
			n.N = len(kids)
		}
		n.Kids = kids
		sumSize(n)
		return n
	}
	if fam == "Zip3" {
		ops = g.pad(ops, 3)
		if len(ops)%2 == 0 {
			ops = g.pad(ops, len(ops)+1)
		}
	} else {
		ops = g.pad(ops, 2)
	}
	m := arity(len(ops))
	cur := mk(append([]*Node(nil), ops[:m]...))
	ops = ops[m:]
	for len(ops) > 0 {
		m = arity(len(ops) + 1)
		take := ops[:m-1]
		ops = ops[m-1:]
		pos := g.r.IntN(m)
		kids := make([]*Node, 0, m)
		kids = append(kids, take[:pos]...)
		kids = append(kids, cur)
		kids = append(kids, take[pos:]...)
		cur = mk(kids)
	}
	return cur
}

// elemBody is the function body of a Traverse / FoldFuture node: the element x (slot xslot)
// selects source x % nsrc; a fold also uses the accumulator (slot accSlot).
func (g *wgen) elemBody(nsrc, xslot, accSlot int) *Node {
	if nsrc == 0 {
		return g.leafNode("arg", "arg", xslot)
	}
	sel := g.leafNode("srcidx", "srcidx", xslot)
	sel.N = nsrc
	arg := func(slot int) *Node { return g.leafNode("arg", "arg", slot) }
	var n *Node
	x := g.r.IntN(100)
	switch {
	case accSlot >= 0 && x < 60:
		n = g.nd("Map2", "future.Map2")
		n.Kids = []*Node{arg(accSlot), sel}
	case accSlot >= 0 && x < 80:
		n = g.nd("LiftA", "future.LiftA2")
		n.N = 2
		n.Kids = []*Node{sel, arg(accSlot)}
	case accSlot < 0 && x < 50:
		return sel
	case x < 75 || accSlot >= 0:
		n = g.nd("Map", "future.Map")
		n.Kids = []*Node{sel}
	default:
		n = g.nd("Map2", "future.Map2")
		n.Kids = []*Node{sel, arg(xslot)}
	}
	sumSize(n)
	return n
}

func genWide(r *rand.Rand, wf wideFam, n int) *Tree {
	g := &wgen{r: r}
	var root *Node
	switch wf.Fam {
	case "Sequence", "SequenceIterator":
		root = g.nd(wf.Fam, wf.Op)
		root.N = n
		root.Kids = g.operands(n)
	case "Zip3", "LiftA":
		root = g.chain(wf.Fam, g.operands(n))
	default:
		root = g.nd(wf.Fam, wf.Op)
		root.N = n
		nel := n // sources selected by the elements
		if n > 1 && r.IntN(4) == 0 {
			nel = 1 + r.IntN(n) // fewer sources than elements: one source feeds several elements
		}
		g.nsrc = nel
		switch wf.Fam {
		case "FlatMapTraverseSeq", "FlatMapTraverseSlice":
			if r.IntN(2) == 0 {
				root.Kids = []*Node{g.src(nel)}
				g.nsrc = nel + 1
			} else {
				root.Kids = []*Node{g.leafNode("Successful", "future.Successful", 1+r.IntN(9))}
			}
			root.Body = []*Node{g.elemBody(nel, 0, -1)}
		case "iterator.FoldFuture", "seq.FoldFuture", "list.FoldFuture":
			root.Args = []Plain{{K: 1 + r.IntN(9)}}
			root.Body = []*Node{g.elemBody(nel, 0, 1)}
		default:
			root.Args = []Plain{{K: 1 + r.IntN(9)}}
			root.Body = []*Node{g.elemBody(nel, 0, -1)}
		}
	}
	sumSize(root)
	if listInput(root.Fam) && r.IntN(2) == 0 {
		root.Cap = 1 + r.IntN(15)
		if root.Cap&7 == 0 {
			root.Cap |= capPoison | capAppend
		}
	}
	t := &Tree{Root: root, NSrc: g.nsrc, Kind: "wide", Wide: n, HasCap: root.Cap != 0}
	t.Text = root.String()
	t.Size = root.size
	return t
}

// wideAssignment: failure patterns for many sources.
func wideAssignment(r *rand.Rand, nsrc, pat int) []T3 {
	a := make([]T3, nsrc)
	for k := range a {
		a[k] = succ(11 * (k + 1))
	}
	f := func(k int) { a[k] = fail(sentinel(srcErr(k))) }
	if nsrc == 0 {
		return a
	}
	switch pat {
	case 0: // one failing source, not the first one when there is a choice
		if nsrc > 1 {
			f(1 + r.IntN(nsrc-1))
		} else {
			f(0)
		}
	case 1: // two failing sources
		f(r.IntN(nsrc))
		f(r.IntN(nsrc))
	case 2: // a quarter fails
		for k := range a {
			if r.IntN(4) == 0 {
				f(k)
			}
		}
	case 3: // all succeed
	case 4: // all fail
		for k := range a {
			f(k)
		}
	}
	return a
}

// wideSpec: completion orders for many sources.
func wideSpec(r *rand.Rand, a []T3, staged bool) schedSpec {
	nsrc := len(a)
	sp := genSpec(r, nsrc, staged)
	switch x := r.IntN(10); {
	case x < 4: // random (from genSpec)
	case x < 6: // last position first
		for k := range sp.Order {
			sp.Order[k] = nsrc - 1 - k
		}
	case x < 9: // the failing sources first, highest index first, then the others in PRNG order
		var fs, ss []int
		for _, k := range sp.Order {
			if a[k].S == failure {
				fs = append(fs, k)
			} else {
				ss = append(ss, k)
			}
		}
		for i := 0; i < len(fs); i++ {
			for j := i + 1; j < len(fs); j++ {
				if fs[j] > fs[i] {
					fs[i], fs[j] = fs[j], fs[i]
				}
			}
		}
		sp.Order = append(fs, ss...)
	default: // index order
		for k := range sp.Order {
			sp.Order[k] = k
		}
	}
	return sp
}
