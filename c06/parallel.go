package main

// Real-parallelism mode ("par" batches). The cooperative scheduler of the other batches
// interleaves tasks only at the instrumented atomic steps of a promise and serialises
// everything in between; a combinator that keeps state of its own (flags, try-locks,
// counters, pools next to the promises) is executed atomically between two such steps and a
// window of a few instructions inside it can never be hit. Here the same expression trees run
// on REAL goroutines on >= 8 processors:
//
//   - the default executors start real goroutines (fp.VerifSetSpawn -> tracker.Go),
//   - the sources are completed by several goroutines that leave a spin barrier at the same
//     instant (optionally together with the goroutine that builds the tree),
//   - executor variants: as generated / every node inline (callbacks run on the completers'
//     goroutines) / every node on the default executor,
//   - PRNG Gosched injection at every promise atomic step (fp.VerifSetAtomicHook), or none
//     ("tight" rounds: nothing but the library code between barrier and completion).
//
// Quiescence is exact and logical: every goroutine that can touch the tree (builder,
// completers, every default-executor task, every released queue task) is counted by the
// tracker; a task is counted before its parent finishes, so "count == 0" means nothing is
// running and nothing can start. The oracle is the one of the cooperative batches, applied
// at quiescence only: every node instance is completed iff its three-valued reference is
// determined, with the reference value; at the end (all sources complete) everything is
// completed, observers fired exactly once, no user function ran twice.
//
// A task that blocks forever (channel, semaphore, lock) would keep the count above zero;
// the tracker then inspects the goroutine states (runtime.Stack): when EVERY outstanding
// tracked goroutine is parked in a blocking wait and nothing moved between two looks, the
// system is quiescent-with-blocked-tasks, which is reported (never happens on the
// unchanged tree: no library task blocks). Time is used for pacing the looks only.
//
// One case = one tree, run for many rounds (fresh promises and builder each round).

import (
	"bytes"
	"fmt"
	"math/rand/v2"
	"regexp"
	"runtime"
	"strings"
	"sync"
	"sync/atomic"
	"time"

	"verif/vrt"

	"github.com/csgura/fp"
)

// ---- tracker: exact quiescence over real goroutines --------------------------------------

type tracker struct {
	n       atomic.Int64 // outstanding tracked goroutines (+1 while the controller holds its token)
	spawned atomic.Int64
	zero    chan struct{}
}

func newTracker() *tracker { return &tracker{zero: make(chan struct{}, 1)} }

// begin takes the controller's token: the count cannot reach zero while the controller is
// still starting tasks.
func (t *tracker) begin() { t.n.Add(1) }

func (t *tracker) Go(f func()) {
	t.n.Add(1)
	t.spawned.Add(1)
	go t.run(f)
}

// run is the marker frame by which tracked goroutines are recognised in a goroutine dump.
//
//go:noinline
func (t *tracker) run(f func()) {
	defer t.done()
	f()
}

func (t *tracker) done() {
	if t.n.Add(-1) == 0 {
		select {
		case t.zero <- struct{}{}:
		default:
		}
	}
}

// zombies: goroutines of earlier trackers that were found blocked forever (they stay in the
// process); only one tracker is in use at a time, on the worker's main goroutine.
var zombies = map[string]bool{}

var goroutineHdr = regexp.MustCompile(`^goroutine (\d+) \[([^\],]+)`)

// blockedStates: wait reasons from which a goroutine leaves only when another goroutine acts.
func blockedState(s string) bool {
	for _, p := range []string{"chan send", "chan receive", "select", "semacquire", "sync."} {
		if strings.HasPrefix(s, p) {
			return true
		}
	}
	return false
}

// look returns a description of the outstanding tracked goroutines when all `want` of them
// are parked in a blocking wait, "" otherwise.
func (t *tracker) look(want int64) (string, []string) {
	buf := make([]byte, 1<<20)
	for {
		n := runtime.Stack(buf, true)
		if n < len(buf) {
			buf = buf[:n]
			break
		}
		if len(buf) >= 64<<20 {
			return "", nil
		}
		buf = make([]byte, 2*len(buf))
	}
	var found int64
	var desc, ids []string
	for _, blk := range bytes.Split(buf, []byte("\n\n")) {
		if !bytes.Contains(blk, []byte("main.(*tracker).run(")) {
			continue
		}
		m := goroutineHdr.FindSubmatch(blk)
		if m == nil {
			return "", nil
		}
		if zombies[string(m[1])] {
			continue
		}
		if !blockedState(string(m[2])) {
			return "", nil
		}
		found++
		ids = append(ids, string(m[1]))
		if len(desc) < 3 {
			s := string(blk)
			if len(s) > 1500 {
				s = s[:1500] + " ..."
			}
			desc = append(desc, s)
		}
	}
	if found != want || found == 0 {
		return "", nil
	}
	return fmt.Sprintf("%d outstanding task goroutine(s), every one parked in a blocking wait; nothing else is running that could release them:\n%s", found, strings.Join(desc, "\n\n")), ids
}

// wait gives the controller's token back and waits for quiescence. It returns "" at
// quiescence, or the description of the blocked tasks when the remaining tasks can never
// finish. progress is a counter that moves whenever library code makes a step.
func (t *tracker) wait(progress func() uint64) string {
	t.done()
	tm := time.NewTimer(40 * time.Millisecond)
	defer tm.Stop()
	var prevSeen bool
	var prevProg uint64
	var prevN int64
	for {
		select {
		case <-t.zero:
			return ""
		case <-tm.C:
		}
		n := t.n.Load()
		prog := progress() + uint64(t.spawned.Load())
		if d, ids := t.look(n); d != "" && t.n.Load() == n {
			if prevSeen && prevProg == prog && prevN == n {
				for _, id := range ids {
					zombies[id] = true
				}
				return d
			}
			prevSeen, prevProg, prevN = true, prog, n
		} else {
			prevSeen = false
		}
		tm.Reset(40 * time.Millisecond)
	}
}

// ---- tier parameters ---------------------------------------------------------------------

var parSizes = []int{2, 3, 4, 2, 5, 8, 3, 9, 16, 2, 17, 32, 4, 33, 64}

// parSpec describes one burst: M fresh instances of the tree (own promises, own builder)
// are run through by the same goroutines, one spin barrier per instance.
type parSpec struct {
	Burst     int    `json:"burst"`
	M         int    `json:"instances_in_burst"`
	Tight     bool   `json:"tight"`
	G         int    `json:"completing_goroutines"`
	Order     []int  `json:"completion_order_of_instance_0"` // instance s uses the order rotated by s
	NPre      int    `json:"completed_before_build"`
	First     int    `json:"completed_in_first_wave"`
	RaceBuild bool   `json:"tree_built_concurrently_with_first_wave"`
	ExMode    string `json:"executors"`
	Deal      string `json:"deal"`
	Gosched   int    `json:"gosched_eighths"`
	ObsEx     int    `json:"observer_executor"`
	NObs      int    `json:"observers"`
}

type parWitness struct {
	Mode       string   `json:"mode"`
	Tree       *Tree    `json:"tree"`
	Assignment []string `json:"assignment,omitempty"`
	Instance   int      `json:"instance_of_burst"`
	Spec       parSpec  `json:"burst_spec"`
	Stage      string   `json:"stage,omitempty"`
	Rounds     int      `json:"instances_of_this_tree"`
}

var exModeNames = []string{"as-generated", "all-inline", "all-default", "all-queue"}

func genParSpec(r *rand.Rand, nsrc, burst, maxM int) parSpec {
	sp := parSpec{Burst: burst, Order: r.Perm(nsrc), NObs: 1 + r.IntN(2), ObsEx: r.IntN(3), Deal: "round-robin"}
	sp.ExMode = exModeNames[[]int{0, 1, 1, 2, 2, 3}[r.IntN(6)]]
	sp.G = 2 + r.IntN(5)
	if burst%2 == 0 {
		// tight burst: every source of an instance is completed at the same instant by
		// goroutines that do nothing else, nothing injected, many instances back to back
		sp.Tight = true
		if r.IntN(2) == 0 {
			sp.G = 2 + r.IntN(2)
		}
		sp.First = nsrc
		sp.M = maxM
		return sp
	}
	sp.M = []int{1, 2, 8}[r.IntN(3)]
	if sp.M > maxM {
		sp.M = maxM
	}
	if r.IntN(3) != 0 {
		sp.Gosched = 1 + r.IntN(5)
	}
	if nsrc > 0 && r.IntN(4) == 0 {
		sp.NPre = r.IntN(nsrc + 1)
	}
	rest := nsrc - sp.NPre
	sp.First = rest
	if rest > 0 && r.IntN(2) == 0 {
		sp.First = r.IntN(rest + 1)
	}
	sp.RaceBuild = r.IntN(3) == 0
	if r.IntN(3) == 0 {
		sp.Deal = "blocks"
	}
	return sp
}

// ---- one case ------------------------------------------------------------------------------

type parCtx struct {
	w      *vrt.W
	i      int
	tr     *Tree
	t      *tracker
	hits   map[string]int
	steps  atomic.Uint64
	rounds int
	trHash uint64
}

func (c *parCtx) progress() uint64 { return c.steps.Load() }

func genParTree(r *rand.Rand, p params, kidx, i int) *Tree {
	if i%4 == 3 {
		kind := ""
		if i%8 == 7 {
			kind = "dag"
		}
		tr := genTreeKind(r, entries[(i/4+kidx*37)%len(entries)], p.maxSize, kind)
		return tr
	}
	wj := i - (i+1)/4 + kidx*(p.parCases-p.parCases/4)
	nf, ns := len(wideFams), len(parSizes)
	fam := wj % nf
	tr := genWide(r, wideFams[fam], parSizes[(wj/nf+fam)%ns])
	// no tamper scripts in this mode
	var strip func(n *Node)
	strip = func(n *Node) {
		if n == nil {
			return
		}
		n.Cap = 0
		for _, k := range n.Kids {
			strip(k)
		}
		for _, k := range n.Body {
			strip(k)
		}
	}
	strip(tr.Root)
	tr.HasCap = false
	tr.Text = tr.Root.String()
	return tr
}

func parAssignment(r *rand.Rand, tr *Tree, round int) []T3 {
	nsrc := tr.NSrc
	if tr.Kind == "wide" {
		return wideAssignment(r, nsrc, []int{3, 0, 1, 2, 3, 4}[round%6])
	}
	a := make([]T3, nsrc)
	m := r.IntN(1 << nsrc)
	if round%2 == 0 {
		m &= r.IntN(1 << nsrc) // fewer failures: deeper evaluation
	}
	for k := range a {
		if m&(1<<k) != 0 {
			a[k] = fail(sentinel(k))
		} else {
			a[k] = succ(11 * (k + 1))
		}
	}
	return a
}

func parCase(w *vrt.W, i int) {
	r := w.Rand(i)
	p := tierParams(w.Tier)
	_, kidx := p.batchKind(w.Batch)
	tr := genParTree(r, p, kidx, i)
	w.Begin(i, tr.Root.Op)
	defer w.Done(i)
	nsrc := tr.NSrc
	cost := 8 + 3*nsrc + 2*tr.Size
	units, maxRounds := p.parUnits, p.parMaxRounds
	if p.raceBatch(w.Batch) {
		units, maxRounds = units/p.parRaceDiv, maxRounds/p.parRaceDiv
	}
	rounds := units / cost
	if rounds > maxRounds {
		rounds = maxRounds
	}
	if rounds < 16 {
		rounds = 16
	}
	maxM := 2400 / cost
	if maxM > 32 {
		maxM = 32
	}
	if maxM < 2 {
		maxM = 2
	}
	c := &parCtx{w: w, i: i, tr: tr, t: newTracker(), hits: map[string]int{}, rounds: rounds, trHash: vrt.Hash64(tr.Text)}
	fp.VerifSetSpawn(func(task func()) { c.t.Go(task) })
	defer fp.VerifSetSpawn(nil)
	defer fp.VerifSetAtomicHook(nil)
	var cur parWitness
	w.Guard(i, func() any { return cur }, func() {
		done := 0
		for burst := 0; done < rounds; burst++ {
			sp := genParSpec(r, nsrc, burst, maxM)
			if sp.M > rounds-done {
				sp.M = rounds - done
			}
			as := make([][]T3, sp.M)
			for s := range as {
				as[s] = parAssignment(r, tr, done+s)
			}
			seed := r.Uint64()
			cur = parWitness{Mode: "real goroutines", Tree: tr, Spec: sp, Rounds: rounds}
			if !c.burst(as, sp, seed, r) {
				break
			}
			done += sp.M
		}
	})
	w.Add("par.trees", 1)
	if tr.Kind == "wide" {
		w.Add("par.trees.wide", 1)
		w.Add(fmt.Sprintf("par.trees.wide.sources_%02d", tr.Wide), 1)
		w.Add("par.trees.wide."+tr.Root.Fam, 1)
	} else {
		w.Add("par.trees.classic_or_dag", 1)
	}
	for k, v := range c.hits {
		w.Add("par.hit."+k, int64(v))
	}
}

// deal distributes the sources ks over at most g goroutines.
func deal(ks []int, g int, how string) [][]int {
	if g > len(ks) {
		g = len(ks)
	}
	if g == 0 {
		return nil
	}
	out := make([][]int, g)
	if how == "blocks" {
		per := (len(ks) + g - 1) / g
		for j, k := range ks {
			out[j/per] = append(out[j/per], k)
		}
		var nz [][]int
		for _, o := range out {
			if len(o) > 0 {
				nz = append(nz, o)
			}
		}
		return nz
	}
	for j, k := range ks {
		out[j%g] = append(out[j%g], k)
	}
	return out
}

// pinst is one instance of the tree within a burst.
type pinst struct {
	b        *B
	a        []T3
	st       []T3
	re       *refEval
	order    []int
	omu      sync.Mutex
	F        fp.Future[int]
	built    bool
	obsCount []int
	obsVal   []fp.Try[int]
}

// burst runs sp.M fresh instances of the tree. It returns false when a violation was
// reported (the case is abandoned).
func (c *parCtx) burst(as [][]T3, sp parSpec, seed uint64, r *rand.Rand) bool {
	w, tr, t := c.w, c.tr, c.t
	nsrc := tr.NSrc
	M := sp.M
	exMode := 0
	for m, name := range exModeNames {
		if name == sp.ExMode {
			exMode = m
		}
	}
	if sp.Gosched > 0 {
		prob := uint64(sp.Gosched)
		fp.VerifSetAtomicHook(func(op string) {
			x := c.steps.Add(1) * 0x9e3779b97f4a7c15
			x ^= seed
			x ^= x >> 29
			if x%8 < prob {
				runtime.Gosched()
			}
		})
	} else {
		fp.VerifSetAtomicHook(nil)
	}
	nobs := sp.NObs
	ps := make([]*pinst, M)
	for s := range ps {
		b := newB(w, nsrc)
		b.memoOn = tr.NRef > 0
		b.exMode = exMode
		order := make([]int, nsrc)
		for j := range order {
			order[j] = sp.Order[(j+s)%nsrc]
		}
		st := make([]T3, nsrc)
		ps[s] = &pinst{b: b, a: as[s], st: st, re: &refEval{st: st}, order: order, obsCount: make([]int, nobs), obsVal: make([]fp.Try[int], nobs)}
	}
	defer func() {
		for _, pi := range ps {
			pi.b.mu.Lock()
			for k, v := range pi.b.hits {
				c.hits[k] += v
			}
			pi.b.mu.Unlock()
		}
	}()

	stageName := "build"
	wit := func(s int) any {
		return parWitness{Mode: "real goroutines", Tree: tr, Assignment: assignStrings(ps[s].a), Instance: s, Spec: sp, Stage: stageName, Rounds: c.rounds}
	}
	describe := func(s int) string {
		return fmt.Sprintf("tree: %s\nsources: %s\nreal goroutines, GOMAXPROCS=%d; burst %d (instance %d of %d fresh instances of the tree, %d instances in this case): per instance %d completing goroutines leave a spin barrier together (%s), completion order %v, first %d completed before the tree was built, %d in the first wave, tree built concurrently with the first wave: %v, executors: %s, Gosched injected at %d/8 of the promise atomic steps\nstage: %s",
			tr.Text, strings.Join(assignStrings(ps[s].a), " "), runtime.GOMAXPROCS(0), sp.Burst, s, M, c.rounds, sp.G, sp.Deal, ps[s].order, sp.NPre, sp.First, sp.RaceBuild, sp.ExMode, sp.Gosched, stageName)
	}
	report := func(s int, cd candidate) {
		n := cd.in.n
		detail := fmt.Sprintf("%s: subexpression #%d %s (env %v)\nreference (three-valued Try, left to right): %s\nlibrary future: %s\n%s",
			cd.kind, n.ID, n.String(), cd.in.env, cd.ref, cd.got, describe(s))
		w.Violation(c.i, opKey(n)+"/"+cd.kind+"(parallel)", detail, wit(s))
	}

	buildAll := func(pi *pinst) {
		b := pi.b
		f := b.build(tr.Root, nil)
		for j := 0; j < nobs; j++ {
			b.hit("Future.OnComplete")
			var ex []fp.Executor
			switch (sp.ObsEx + j) % 3 {
			case 1:
				ex = []fp.Executor{inlineExec{}}
			case 2:
				ex = []fp.Executor{b.q}
			}
			f.OnComplete(func(t fp.Try[int]) {
				pi.omu.Lock()
				pi.obsCount[j]++
				pi.obsVal[j] = t
				pi.omu.Unlock()
			}, ex...)
		}
		pi.omu.Lock()
		pi.F, pi.built = f, true
		pi.omu.Unlock()
	}

	// quiesce waits for exact quiescence, releasing the queue executors' tasks (as real
	// goroutines, all at once) until nothing is left. "" = quiescent.
	quiesce := func() string {
		for {
			if d := t.wait(c.progress); d != "" {
				return d
			}
			var q []fp.Runnable
			for _, pi := range ps {
				q = append(q, pi.b.q.take()...)
			}
			if len(q) == 0 {
				return ""
			}
			r.Shuffle(len(q), func(x, y int) { q[x], q[y] = q[y], q[x] })
			t.begin()
			// the released tasks are dealt to up to 6 goroutines that start together
			ng := len(q)
			if ng > 6 {
				ng = 6
			}
			var ready atomic.Int32
			for g := 0; g < ng; g++ {
				t.Go(func() {
					ready.Add(1)
					for n := 0; ready.Load() < int32(ng); n++ {
						if n > 1500 {
							runtime.Gosched()
						}
					}
					for j := g; j < len(q); j += ng {
						q[j].Run()
					}
				})
			}
			w.Add("par.queue_tasks_released_together", int64(len(q)))
		}
	}

	// wave: per instance, the sources order[lo:hi] are dealt to at most G goroutines (+ the
	// builder when withBuild); the same goroutines go through all instances, leaving one spin
	// barrier per instance together. The controller's token is held by the caller.
	wave := func(lo, hi int, withBuild bool) {
		ng := sp.G
		if ng > hi-lo {
			ng = hi - lo
		}
		total := int32(ng)
		if withBuild {
			total++
		}
		if total == 0 {
			return
		}
		ready := make([]atomic.Int32, M)
		barrier := func(s int) {
			ready[s].Add(1)
			for n := 0; ready[s].Load() < total; n++ {
				if n > 1500 {
					runtime.Gosched()
				}
			}
		}
		groups := make([][][]int, M) // [instance][goroutine] -> sources
		for s, pi := range ps {
			groups[s] = deal(pi.order[lo:hi], ng, sp.Deal)
		}
		if withBuild {
			t.Go(func() {
				for s, pi := range ps {
					barrier(s)
					buildAll(pi)
				}
			})
		}
		for g := 0; g < ng; g++ {
			t.Go(func() {
				for s, pi := range ps {
					barrier(s)
					// PRNG skew of 0..127 loads (up to ~100 ns): without it the goroutine that
					// arrives last at the barrier is ahead of the others by the same margin in
					// every instance
					x := (seed ^ uint64(s)*0x9e3779b97f4a7c15 ^ uint64(g+1)*0xc2b2ae3d27d4eb4f) * 0xd6e8feb86659fd93
					for d := x >> 57; d > 0; d-- {
						_ = ready[s].Load()
					}
					if g < len(groups[s]) {
						for _, k := range groups[s][g] {
							pi.b.src[k].Complete(pi.a[k].toTry())
						}
					}
				}
			})
		}
		w.Max("par.max_goroutines_released_together", int64(total))
		if total >= 2 {
			w.Add("par.instance_waves_with_2_or_more_goroutines", int64(M))
		}
	}

	blocked := func(d string) {
		c.t = newTracker() // the blocked goroutines keep the old one
		for s, pi := range ps {
			pi.b.mu.Lock()
			insts := append([]*inst(nil), pi.b.insts...)
			pi.b.mu.Unlock()
			var lates []candidate
			for _, in := range insts {
				if rr := pi.re.eval(in.n, in.env); rr.S != pending && !in.f.IsCompleted() {
					lates = append(lates, candidate{in, "never-completes", rr, "not completed; the task that should complete it is blocked forever"})
				}
			}
			if len(lates) > 0 {
				cd := pickSmallest(lates)
				n := cd.in.n
				w.Violation(c.i, opKey(n)+"/never-completes(parallel)", fmt.Sprintf("never-completes: subexpression #%d %s\nreference: %s\nlibrary future: %s\n%s\n%s", n.ID, n.String(), cd.ref, cd.got, describe(s), d), wit(s))
				return
			}
		}
		w.Violation(c.i, opKey(tr.Root)+"/task-blocks-forever(parallel)", describe(0)+"\n"+d, wit(0))
	}

	mark := func(lo, hi int) {
		for _, pi := range ps {
			for _, k := range pi.order[lo:hi] {
				pi.st[k] = pi.a[k]
			}
		}
	}

	check := func(final bool) bool {
		var nchk, npend int
		ok := true
		for s, pi := range ps {
			pi.b.mu.Lock()
			insts := append([]*inst(nil), pi.b.insts...)
			pi.b.mu.Unlock()
			var bad, lates []candidate
			for _, in := range insts {
				rr := pi.re.eval(in.n, in.env)
				comp := in.f.IsCompleted()
				switch {
				case comp && rr.S == pending:
					bad = append(bad, candidate{in, "early-completion", rr, "completed with " + tryStr(in.f.Value())})
				case !comp && rr.S != pending:
					lates = append(lates, candidate{in, "late-completion", rr, "not completed"})
				case !comp:
					npend++
				default:
					if v := in.f.Value(); !tryMatches(v, rr) {
						bad = append(bad, candidate{in, "wrong-value", rr, "completed with " + tryStr(v)})
					}
				}
			}
			nchk += len(insts)
			if len(bad) > 0 {
				report(s, pickSmallest(bad))
				ok = false
				break
			}
			if len(lates) > 0 {
				cd := pickSmallest(lates)
				if final {
					cd.kind = "never-completes"
					cd.got = "not completed at final quiescence (all sources completed, every goroutine that was started has finished, executor queue empty)"
				} else {
					cd.got = "not completed at quiescence (every goroutine that was started has finished, executor queue empty) although the completed sources determine it"
				}
				report(s, cd)
				ok = false
				break
			}
		}
		w.Add("par.instances_checked", int64(nchk))
		w.Add("par.instances_asserted_still_pending", int64(npend))
		return ok
	}

	// ---- run ----
	n1 := sp.NPre + sp.First
	t.begin()
	for _, pi := range ps {
		for _, k := range pi.order[:sp.NPre] {
			pi.b.src[k].Complete(pi.a[k].toTry())
		}
	}
	mark(0, sp.NPre)
	if sp.RaceBuild {
		mark(sp.NPre, n1)
		wave(sp.NPre, n1, true)
	} else {
		t.Go(func() {
			for _, pi := range ps {
				buildAll(pi)
			}
		})
		if d := quiesce(); d != "" {
			blocked(d)
			return false
		}
		stageName = fmt.Sprintf("after build, first %d sources of the order complete", sp.NPre)
		if !check(n1 == sp.NPre && n1 == nsrc) {
			return false
		}
		t.begin()
		mark(sp.NPre, n1)
		wave(sp.NPre, n1, false)
	}
	if d := quiesce(); d != "" {
		stageName = "first wave"
		blocked(d)
		return false
	}
	stageName = fmt.Sprintf("after the first wave (first %d sources of the order complete)", n1)
	for s, pi := range ps {
		pi.omu.Lock()
		isBuilt := pi.built
		pi.omu.Unlock()
		if !isBuilt {
			w.Violation(c.i, "harness/builder-did-not-run", describe(s), wit(s))
			return false
		}
	}
	if !check(n1 == nsrc) {
		return false
	}
	if n1 < nsrc {
		t.begin()
		mark(n1, nsrc)
		wave(n1, nsrc, false)
		if d := quiesce(); d != "" {
			stageName = "second wave"
			blocked(d)
			return false
		}
		stageName = "final quiescence (all sources complete)"
		if !check(true) {
			return false
		}
		w.Add("par.rounds.two_waves", int64(M))
	}
	maxInst := 0
	for s, pi := range ps {
		root := &inst{n: tr.Root, f: pi.F}
		for j := 0; j < nobs; j++ {
			pi.omu.Lock()
			oc, ov := pi.obsCount[j], pi.obsVal[j]
			pi.omu.Unlock()
			if oc != 1 {
				report(s, candidate{root, "observer-not-exactly-once", pi.re.eval(tr.Root, nil), fmt.Sprintf("completed with %s; OnComplete observer %d of %d fired %d times", tryStr(pi.F.Value()), j+1, nobs, oc)})
				return false
			}
			if canon(ov) != canon(pi.F.Value()) {
				report(s, candidate{root, "observer-value-differs", pi.re.eval(tr.Root, nil), fmt.Sprintf("Value()=%s but observer %d of %d received %s", tryStr(pi.F.Value()), j+1, nobs, tryStr(ov))})
				return false
			}
		}
		pi.b.mu.Lock()
		dup, dupK, ninst := pi.b.dup, pi.b.dupK, len(pi.b.insts)
		pi.b.mu.Unlock()
		if dup != nil {
			w.Violation(c.i, opKey(dup)+"/user-function-called-twice(parallel)", fmt.Sprintf("a user function of #%d %s ran twice for one evaluation (call key id/slot/env/args = %s)\n%s", dup.ID, dup.String(), dupK, describe(s)), wit(s))
			return false
		}
		if ninst > maxInst {
			maxInst = ninst
		}
		if nsrc >= 2 {
			w.DistinctHash(c.trHash*1099511628211 ^ vrt.Hash64(fmt.Sprint("par|", pi.a, "|", pi.order, "|", sp.G, sp.NPre, sp.First, sp.RaceBuild, sp.ExMode, sp.Deal)))
		}
	}
	// bookkeeping
	m64 := int64(M)
	w.Add("par.bursts", 1)
	w.Add("par.rounds", m64)
	w.Add("par.rounds."+sp.ExMode, m64)
	if sp.Gosched == 0 {
		w.Add("par.rounds.without_injection", m64)
	} else {
		w.Add("par.rounds.with_gosched_injection", m64)
	}
	if sp.RaceBuild {
		w.Add("par.rounds.tree_built_concurrently", m64)
	}
	if sp.Tight {
		w.Add("par.rounds.tight", m64)
	}
	if tr.Kind == "wide" {
		w.Add("par.rounds.wide", m64)
		w.Add("par.rounds.wide."+tr.Root.Fam, m64)
		if tr.Wide >= 9 {
			w.Add("par.rounds.wide.ge9_sources", m64)
		}
	}
	w.Max("par.max_instances", int64(maxInst))
	if w.WantSample() && sp.Burst == 1 && nsrc >= 2 && len(tr.Text) < 1500 {
		w.Sample(map[string]any{"kind": "par", "tree": tr.Text, "sources_of_instance_0": assignStrings(ps[0].a), "burst_spec": sp, "instances_of_this_tree": c.rounds, "result_of_instance_0": tryStr(ps[0].F.Value()), "node_instances": maxInst, "gomaxprocs": runtime.GOMAXPROCS(0)})
	}
	return true
}
