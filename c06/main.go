// C06 — Future combinators: schedule independence, completion "as soon as and never earlier".
//
// A case is one expression tree over 0..4 source promises. For several success/failure
// assignments of the sources and, per assignment, several schedules (staged / racing,
// uniform / PCT) the tree is built with the library and compared with the reference
// evaluation of the same tree over a three-valued Try (ref.go).
//
//go:generate go run ./gen
package main

import (
	"fmt"
	"math/rand/v2"
	"sort"
	"strings"
	"sync"

	"verif/sched"
	"verif/vrt"

	"github.com/csgura/fp"
)

// ---- tier parameters ------------------------------------------------------------------

type params struct {
	batches, cases     int
	maxSize            int
	maxAssign          int // assignments per tree (all 2^n when that is not more)
	schedPerAssignment int
}

func tierParams(tier string) params {
	if tier == "thorough" {
		return params{batches: 64, cases: 4000, maxSize: 12, maxAssign: 8, schedPerAssignment: 8}
	}
	return params{batches: 16, cases: 2500, maxSize: 6, maxAssign: 4, schedPerAssignment: 4}
}

// ---- schedule description -------------------------------------------------------------

type schedSpec struct {
	Staged bool   `json:"staged"`
	Mode   string `json:"mode"`
	Depth  int    `json:"pct_depth,omitempty"`
	Order  []int  `json:"completion_order"`
	NPre   int    `json:"completed_before_build"`
	ObsEx  int    `json:"observer_executor"`
}

type witness struct {
	Tree       *Tree     `json:"tree"`
	Assignment []string  `json:"assignment"`
	Schedule   schedSpec `json:"schedule"`
	Stage      string    `json:"stage,omitempty"`
	Trace      []uint16  `json:"trace,omitempty"`
}

// per-worker distinct sets (a worker runs its cases sequentially on one goroutine)
var seenPairs = map[uint64]struct{}{}
var seenHashes = map[uint64]struct{}{}

type caseCtx struct {
	w    *vrt.W
	i    int
	tr   *Tree
	p    params
	hits map[string]int
}

func assignStrings(a []T3) []string {
	out := make([]string, len(a))
	for i, t := range a {
		out[i] = fmt.Sprintf("src%d=%s", i, t)
	}
	return out
}

func canon(t fp.Try[int]) string {
	if t.IsSuccess() {
		return fmt.Sprintf("S:%d", t.Get())
	}
	e := t.Failed().Get()
	if c := codeOf(e); c >= 0 {
		return fmt.Sprintf("F:%d", c)
	}
	return fmt.Sprintf("F:%p:%v", e, e)
}

type candidate struct {
	in   *inst
	kind string
	ref  T3
	got  string
}

// pickSmallest blames the smallest failing subexpression.
func pickSmallest(cs []candidate) candidate {
	sort.SliceStable(cs, func(a, b int) bool {
		if cs[a].in.n.size != cs[b].in.n.size {
			return cs[a].in.n.size < cs[b].in.n.size
		}
		return cs[a].in.n.ID < cs[b].in.n.ID
	})
	return cs[0]
}

func opKey(n *Node) string {
	if n.Fam == "src" || n.Fam == "arg" {
		return "future.Successful"
	}
	return n.Op
}

// runSchedule executes one schedule of one (tree, assignment). It returns the canonical
// final value of the derived future, or "" when the schedule was inconclusive or a
// violation was already reported.
func (c *caseCtx) runSchedule(a []T3, spec schedSpec, sr *rand.Rand) string {
	w, i, tr := c.w, c.i, c.tr
	nsrc := tr.NSrc
	mode := sched.Uniform
	if spec.Mode == "pct" {
		mode = sched.PCT
	}
	s := sched.New(sr, mode, spec.Depth, 60+40*tr.Size)
	s.KeepTrace = w.Replay
	fp.VerifSetAtomicHook(s.Yield)
	fp.VerifSetSpawn(func(task func()) { s.Spawn("executor-task", task) })
	defer fp.VerifSetAtomicHook(nil)
	defer fp.VerifSetSpawn(nil)

	b := newB(w, nsrc)
	w.Site(tr.Root.Op)
	defer func() {
		b.mu.Lock()
		for k, v := range b.hits {
			c.hits[k] += v
		}
		b.mu.Unlock()
	}()
	st := make([]T3, nsrc)
	re := &refEval{st: st}
	stageName := "build"
	wit := func() any {
		return witness{Tree: tr, Assignment: assignStrings(a), Schedule: spec, Stage: stageName, Trace: s.Trace()}
	}
	describe := func() string {
		return fmt.Sprintf("tree: %s\nsources: %s\nschedule: %s/%s, completion order %v, first %d completed before the tree was built\nstage: %s\nscheduler: %d steps, %d switches, hash %x",
			tr.Text, strings.Join(assignStrings(a), " "), map[bool]string{true: "staged", false: "racing"}[spec.Staged], spec.Mode, spec.Order, spec.NPre, stageName, s.Steps, s.Switches, s.Hash())
	}
	report := func(cd candidate) {
		n := cd.in.n
		detail := fmt.Sprintf("%s: subexpression #%d %s (env %v)\nreference (three-valued Try, left to right): %s\nlibrary future: %s\n%s",
			cd.kind, n.ID, n.String(), cd.in.env, cd.ref, cd.got, describe())
		w.Violation(i, opKey(n)+"/"+cd.kind, detail, wit())
	}

	var omu sync.Mutex
	obsCount := 0
	var obsVal fp.Try[int]
	var F fp.Future[int]
	built := false
	buildAll := func() {
		F = b.build(tr.Root, nil)
		b.hit("Future.OnComplete")
		var ex []fp.Executor
		switch spec.ObsEx {
		case 1:
			ex = []fp.Executor{inlineExec{}}
		case 2:
			ex = []fp.Executor{b.q}
		}
		F.OnComplete(func(t fp.Try[int]) {
			omu.Lock()
			obsCount++
			obsVal = t
			omu.Unlock()
		}, ex...)
		built = true
	}
	complete := func(k int) { b.src[k].Complete(a[k].toTry()) }

	drain := func() bool {
		for round := 0; round < 10000; round++ {
			if err := s.Run(); err != nil {
				w.Add("inconclusive.stuck", 1)
				w.Note("schedule stuck: " + err.Error() + " tree " + tr.Text)
				return false
			}
			if s.Aborted {
				w.Add("inconclusive.step_cap", 1)
				return false
			}
			q := b.q.take()
			if len(q) == 0 {
				return true
			}
			sr.Shuffle(len(q), func(x, y int) { q[x], q[y] = q[y], q[x] })
			for _, t := range q {
				s.Spawn("queued-task", t.Run)
			}
		}
		w.Add("inconclusive.queue_rounds", 1)
		return false
	}

	var late *candidate
	lateStage := ""
	// check applies the oracle at a quiescent point. It returns false when a violation was
	// reported (the schedule is abandoned).
	check := func(final bool) bool {
		b.mu.Lock()
		insts := append([]*inst(nil), b.insts...)
		b.mu.Unlock()
		var bad []candidate
		var lates []candidate
		npend := 0
		for _, in := range insts {
			r := re.eval(in.n, in.env)
			comp := in.f.IsCompleted()
			switch {
			case comp && r.S == pending:
				bad = append(bad, candidate{in, "early-completion", r, "completed with " + tryStr(in.f.Value())})
			case !comp && r.S != pending:
				lates = append(lates, candidate{in, "late-completion", r, "not completed"})
			case !comp:
				npend++
			case comp:
				if v := in.f.Value(); !tryMatches(v, r) {
					bad = append(bad, candidate{in, "wrong-value", r, "completed with " + tryStr(v)})
				}
			}
		}
		w.Add("instances.checked", int64(len(insts)))
		w.Add("instances.asserted_still_pending", int64(npend))
		if final {
			for _, in := range insts {
				switch in.n.Fam {
				case "Apply", "Apply2", "Func", "Unit":
					if in.f.IsCompleted() {
						w.Add("apply_family.completed_at_final_quiescence", 1)
						if !in.f.Value().IsSuccess() && codeOf(in.f.Value().Failed().Get()) >= 200 {
							w.Add("apply_family.panic_exposed_as_failure", 1)
						}
					}
				}
			}
		}
		if len(bad) > 0 {
			report(pickSmallest(bad))
			return false
		}
		if len(lates) > 0 {
			cd := pickSmallest(lates)
			if final {
				cd.kind = "never-completes"
				cd.got = "not completed at final quiescence (all sources completed, scheduler idle, executor queue empty)"
				report(cd)
				return false
			}
			if late == nil {
				late, lateStage = &cd, stageName
			}
		}
		return true
	}
	countStage := func() {
		r := re.eval(tr.Root, nil)
		done, failed := 0, 0
		for _, t := range st {
			if t.S != pending {
				done++
			}
			if t.S == failure {
				failed++
			}
		}
		w.Add("staged.stages", 1)
		if r.S == pending && done > 0 {
			w.Add("staged.not_yet_determined_asserted", 1)
			if failed > 0 {
				w.Add("staged.not_yet_determined_with_failed_source_complete", 1)
			}
		}
		if r.S != pending && done < nsrc {
			w.Add("staged.determined_before_all_sources_asserted", 1)
		}
	}

	for _, k := range spec.Order[:spec.NPre] {
		complete(k)
		st[k] = a[k]
	}
	rest := spec.Order[spec.NPre:]
	if spec.Staged {
		buildAll()
		if !drain() {
			return ""
		}
		stageName = fmt.Sprintf("after build, sources %v complete", spec.Order[:spec.NPre])
		countStage()
		if !check(len(rest) == 0) {
			return ""
		}
		for j, k := range rest {
			s.Spawn(fmt.Sprintf("completer-%d", k), func() { complete(k) })
			st[k] = a[k]
			if !drain() {
				return ""
			}
			stageName = fmt.Sprintf("after completing src%d (sources complete: %v)", k, spec.Order[:spec.NPre+j+1])
			countStage()
			if !check(j == len(rest)-1) {
				return ""
			}
		}
	} else {
		s.Spawn("builder", buildAll)
		for _, k := range rest {
			s.Spawn(fmt.Sprintf("completer-%d", k), func() { complete(k) })
			st[k] = a[k]
		}
		if !drain() {
			return ""
		}
		stageName = "final quiescence (racing)"
		if !built {
			w.Violation(i, "harness/builder-did-not-run", describe(), wit())
			return ""
		}
		if !check(true) {
			return ""
		}
	}
	// final quiescence: all sources complete, everything above held
	if late != nil {
		stageName = lateStage
		report(*late)
		return ""
	}
	omu.Lock()
	oc, ov := obsCount, obsVal
	omu.Unlock()
	root := &inst{n: tr.Root, f: F}
	if oc != 1 {
		report(candidate{root, "observer-not-exactly-once", re.eval(tr.Root, nil), fmt.Sprintf("completed with %s; the OnComplete observer fired %d times", tryStr(F.Value()), oc)})
		return ""
	}
	if canon(ov) != canon(F.Value()) {
		report(candidate{root, "observer-value-differs", re.eval(tr.Root, nil), fmt.Sprintf("Value()=%s but the observer received %s", tryStr(F.Value()), tryStr(ov))})
		return ""
	}
	b.mu.Lock()
	dup, dupK, ncall := b.dup, b.dupK, b.ncall
	ninst := len(b.insts)
	b.mu.Unlock()
	if dup != nil {
		w.Violation(i, opKey(dup)+"/user-function-called-twice", fmt.Sprintf("a user function of #%d %s ran twice for one evaluation (call key id/slot/env/args = %s)\n%s", dup.ID, dup.String(), dupK, describe()), wit())
		return ""
	}
	// bookkeeping
	w.Add("schedules", 1)
	if spec.Staged {
		w.Add("schedules.staged", 1)
	} else {
		w.Add("schedules.racing", 1)
	}
	w.Add("schedules."+spec.Mode, 1)
	w.Add("steps", int64(s.Steps))
	w.Add("switches", int64(s.Switches))
	w.Max("max_steps", int64(s.Steps))
	w.Max("max_instances", int64(ninst))
	w.Add("user_function_calls", int64(ncall))
	pair := vrt.Hash64(fmt.Sprint(tr.Text, "|", a, "|", spec.Order, "|", spec.NPre, "|", spec.Staged))
	if _, ok := seenPairs[pair]; !ok {
		seenPairs[pair] = struct{}{}
		w.Add("distinct.tree_completion_order_pairs", 1)
	}
	if _, ok := seenHashes[s.Hash()]; !ok {
		seenHashes[s.Hash()] = struct{}{}
		w.Add("distinct.schedule_hashes", 1)
	}
	if nsrc >= 2 && s.Switches >= 1 {
		w.DistinctHash(pair*1099511628211 ^ s.Hash())
	}
	if w.WantSample() && nsrc >= 2 && spec.Staged && tr.Size >= 2 {
		w.Sample(map[string]any{"tree": tr.Text, "sources": assignStrings(a), "schedule": spec, "result": tryStr(F.Value()), "steps": s.Steps, "switches": s.Switches, "schedule_hash": fmt.Sprintf("%x", s.Hash()), "node_instances": ninst})
	}
	return canon(F.Value())
}

func genSpec(r *rand.Rand, nsrc int, staged bool) schedSpec {
	sp := schedSpec{Staged: staged, Mode: "uniform", Order: r.Perm(nsrc)}
	if r.IntN(3) == 0 {
		sp.Mode = "pct"
		sp.Depth = 1 + r.IntN(3)
	}
	if nsrc > 0 {
		switch r.IntN(4) {
		case 0:
			sp.NPre = r.IntN(nsrc + 1)
		case 1:
			sp.NPre = 1
		}
	}
	sp.ObsEx = []int{0, 0, 0, 1, 2}[r.IntN(5)]
	return sp
}

func runCase(w *vrt.W, i int) {
	r := w.Rand(i)
	p := tierParams(w.Tier)
	root := entries[(i+w.Batch*37)%len(entries)]
	tr := genTree(r, root, p.maxSize)
	w.Begin(i, tr.Root.Op)
	defer w.Done(i)
	c := &caseCtx{w: w, i: i, tr: tr, p: p, hits: map[string]int{}}
	nsrc := tr.NSrc
	// assignments: every success/failure combination when there are few, random ones otherwise
	var masks []int
	total := 1 << nsrc
	if total <= p.maxAssign {
		for m := 0; m < total; m++ {
			masks = append(masks, m)
		}
		w.Add("trees.all_assignments", 1)
	} else {
		perm := r.Perm(total)
		masks = perm[:p.maxAssign]
	}
	var cur witness
	w.Guard(i, func() any { return cur }, func() {
		for _, m := range masks {
			a := make([]T3, nsrc)
			for k := range a {
				if m&(1<<k) != 0 {
					a[k] = fail(sentinel(k))
				} else {
					a[k] = succ(11 * (k + 1))
				}
			}
			first := ""
			var firstSpec schedSpec
			for sidx := 0; sidx < p.schedPerAssignment; sidx++ {
				spec := genSpec(r, nsrc, sidx%2 == 0)
				cur = witness{Tree: tr, Assignment: assignStrings(a), Schedule: spec}
				sr := rand.New(rand.NewPCG(r.Uint64(), r.Uint64()))
				v := c.runSchedule(a, spec, sr)
				if v == "" {
					continue
				}
				if first == "" {
					first, firstSpec = v, spec
				} else if v != first {
					w.Violation(i, opKey(tr.Root)+"/schedule-dependent-value", fmt.Sprintf("tree: %s\nsources: %s\nresult %s under schedule %+v\nresult %s under schedule %+v", tr.Text, strings.Join(assignStrings(a), " "), first, firstSpec, v, spec), cur)
				}
			}
			w.Add("assignments", 1)
		}
	})
	w.Add("trees", 1)
	if nsrc == 0 {
		w.Add("trees.zero_sources", 1)
	}
	if nsrc >= 2 {
		w.Add("trees.two_or_more_sources", 1)
	}
	w.Max("max_tree_size", int64(tr.Size))
	for k, v := range c.hits {
		w.Add("hit."+k, int64(v))
	}
}

func main() {
	vrt.Main(vrt.Config{
		Property:    "C06",
		Batches:     func(tier string) int { return tierParams(tier).batches },
		Cases:       func(tier string, b int) int { return tierParams(tier).cases },
		WorkerProcs: 2,
		Run: func(w *vrt.W) {
			for i := w.From; i < w.To; i++ {
				runCase(w, i)
			}
		},
		Rule: "case = one expression tree (root combinator cycles through every exported function of the families, the rest is PRNG; size = number of combinator nodes, <=6 quick / <=12 thorough, leaves are source promises, Successful/Failed, bound arguments or Apply/FuncN/UnitN futures) over 0..4 source promises; for every success/failure assignment of the sources (all 2^n when <=4 quick / <=8 thorough, else that many random ones) 4 (quick) / 8 (thorough) schedules are run, alternately STAGED (PRNG subset of sources completed before the tree is built in controller context, then the others one at a time by a completer task, run-to-quiescence incl. the harness queue executor after each, oracle after each stage) and RACING (a builder task and one completer task per source start together), each under a fresh seeded cooperative scheduler (uniform, or PCT with 1..3 change points) that owns every atomic step of every promise and every default-executor task; nodes use the default, an inline or the harness queue executor (PRNG per node). Oracle at every quiescent point, for the root and for every intermediate node instance: IsCompleted == (three-valued left-to-right Try reference of that subexpression is determined); value == reference value (sentinel errors by pointer, panics by exposed panic value); at final quiescence additionally: completed (else never-completes), observer fired exactly once with that value, no user function ran twice, same value as in every other schedule of the same (tree, assignment). distinct_nontrivial = distinct (tree, assignment+completion order, schedule hash) triples with >=2 sources and >=1 context switch.",
		Assumptions: []string{
			"interleavings are explored at the granularity of the atomic steps of internal/atomic.Value (hook before each step) and of executor tasks; they are sampled (uniform + PCT), not enumerated",
			"the scheduler serialises tasks: only sequentially consistent interleavings are explored",
			"'always completes' is decided as a bounded safety property: at quiescence of a scheduler that owns every task, with all sources completed, the derived future is complete; futures completed by timers (future.Await, promise.WithTimeout) are out of scope",
			"distinct.* counters are distinct within each batch, summed over batches",
		},
		Floors: func(tier string) map[string]int64 {
			f := map[string]int64{
				"trees": 30000, "schedules": 200000,
				"staged.not_yet_determined_asserted":                    40000,
				"staged.not_yet_determined_with_failed_source_complete": 20000,
				"staged.determined_before_all_sources_asserted":         50000,
				"instances.asserted_still_pending":                      300000,
				"apply_family.panic_exposed_as_failure":                 20000,
				"distinct":                                              100000,
			}
			min := int64(1000)
			if tier == "thorough" {
				f = map[string]int64{
					"trees": 200000, "schedules": 3000000,
					"staged.not_yet_determined_asserted":                    1000000,
					"staged.not_yet_determined_with_failed_source_complete": 500000,
					"staged.determined_before_all_sources_asserted":         1300000,
					"instances.asserted_still_pending":                      5000000,
					"apply_family.panic_exposed_as_failure":                 400000,
					"distinct":                                              2000000,
				}
				min = 80000
			}
			for _, h := range hitNames() {
				f["hit."+h] = min
			}
			return f
		},
	})
}
