// C06 — Future combinators: schedule independence, completion "as soon as and never earlier".
//
// A case is one expression tree over 0..4 source promises. For several success/failure
// assignments of the sources and, per assignment, several schedules (staged / racing,
// uniform / PCT) the tree is built with the library and compared with the reference
// evaluation of the same tree over a three-valued Try (ref.go).
//
//go:generate go run ./gen
package main

import (
	"fmt"
	"math/rand/v2"
	"runtime"
	"sort"
	"strings"
	"sync"

	"verif/sched"
	"verif/vrt"

	"github.com/csgura/fp"
)

// ---- tier parameters ------------------------------------------------------------------

type params struct {
	batches, cases     int
	maxSize            int
	maxAssign          int // assignments per tree (all 2^n when that is not more)
	schedPerAssignment int
	// batches appended after the classic ones (the PRNG streams of the classic batches do
	// not move): wide trees, capture trees, dag trees
	wideBatches, wideCases, wideAssign int
	capBatches, capCases               int
	dagBatches, dagCases               int
	// real-parallelism batches (parallel.go; the first half runs in the -race build); the
	// last case of each is the Apply-family process-history case (history.go)
	parBatches, parCases, parUnits, parMaxRounds, parRaceDiv int
	histPanics                                   int
}

func tierParams(tier string) params {
	if tier == "thorough" {
		return params{batches: 64, cases: 4000, maxSize: 12, maxAssign: 8, schedPerAssignment: 8,
			wideBatches: 24, wideCases: 285, wideAssign: 6, capBatches: 8, capCases: 4000, dagBatches: 8, dagCases: 4000,
			parBatches: 24, parCases: 480, parUnits: 20000, parMaxRounds: 1600, parRaceDiv: 8, histPanics: 80000}
	}
	return params{batches: 16, cases: 2500, maxSize: 6, maxAssign: 4, schedPerAssignment: 4,
		wideBatches: 8, wideCases: 285, wideAssign: 4, capBatches: 6, capCases: 1000, dagBatches: 4, dagCases: 1500,
		parBatches: 16, parCases: 240, parUnits: 15000, parMaxRounds: 1000, parRaceDiv: 8, histPanics: 24000}
}

func (p params) totalBatches() int {
	return p.batches + p.wideBatches + p.capBatches + p.dagBatches + p.parBatches
}

// batchKind maps a batch number to its kind and its index within the kind.
func (p params) batchKind(b int) (string, int) {
	switch {
	case b < p.batches:
		return "classic", b
	case b < p.batches+p.wideBatches:
		return "wide", b - p.batches
	case b < p.batches+p.wideBatches+p.capBatches:
		return "capture", b - p.batches - p.wideBatches
	}
	if b < p.batches+p.wideBatches+p.capBatches+p.dagBatches {
		return "dag", b - p.batches - p.wideBatches - p.capBatches
	}
	return "par", b - p.batches - p.wideBatches - p.capBatches - p.dagBatches
}

// raceBatch: the first half of the par batches runs in the -race build.
func (p params) raceBatch(b int) bool {
	k, idx := p.batchKind(b)
	return k == "par" && idx < p.parBatches/2
}

func (p params) casesOf(b int) int {
	switch k, _ := p.batchKind(b); k {
	case "wide":
		return p.wideCases
	case "capture":
		return p.capCases
	case "dag":
		return p.dagCases
	case "par":
		return p.parCases + 1
	}
	return p.cases
}

// capEntries: the entries that take a slice / fp.Seq / iterator / list of inputs.
var capEntries = func() []entry {
	var out []entry
	for _, e := range entries {
		if listInput(e.Fam) {
			out = append(out, e)
		}
	}
	return out
}

const parProcs = 8

// ---- schedule description -------------------------------------------------------------

type schedSpec struct {
	Staged bool   `json:"staged"`
	Mode   string `json:"mode"`
	Depth  int    `json:"pct_depth,omitempty"`
	Order  []int  `json:"completion_order"`
	NPre   int    `json:"completed_before_build"`
	ObsEx  int    `json:"observer_executor"`
	NObs   int    `json:"observers,omitempty"` // observers on the root future (0 = 1)
}

type witness struct {
	Tree       *Tree     `json:"tree"`
	Assignment []string  `json:"assignment"`
	Schedule   schedSpec `json:"schedule"`
	Stage      string    `json:"stage,omitempty"`
	Trace      []uint16  `json:"trace,omitempty"`
	Tamper     []string  `json:"harness_actions_on_inputs,omitempty"`
}

// vio is a violation held back until the control run of a capture scenario has decided
// its key.
type vio struct {
	key, detail string
	wit         any
	node        *Node
	tlog        []string
}

// per-worker distinct sets (a worker runs its cases sequentially on one goroutine)
var seenPairs = map[uint64]struct{}{}
var seenHashes = map[uint64]struct{}{}

type caseCtx struct {
	w       *vrt.W
	i       int
	tr      *Tree
	p       params
	hits    map[string]int
	tamper  bool   // run the tamper scripts of the tree (capture scenarios)
	control bool   // ... on clones of the input objects (control run)
	collect *[]vio // non-nil: violations are held back
}

func (c *caseCtx) emit(node *Node, key, detail string, wit any, tlog []string) {
	if c.collect != nil {
		*c.collect = append(*c.collect, vio{key, detail, wit, node, tlog})
		return
	}
	c.w.Violation(c.i, key, detail, wit)
}

// runChecked runs one schedule. A tree with tamper scripts is run with the scripts on; if
// anything is violated the same (assignment, schedule seed) is run again with the inputs
// left alone: when that control run is clean, the violation is caused by what the caller
// did with its input after the call returned and is keyed <op>/reads-input-after-return.
func (c *caseCtx) runChecked(a []T3, spec schedSpec, s1, s2 uint64) string {
	if !c.tr.HasCap {
		c.tamper, c.control, c.collect = false, false, nil
		return c.runSchedule(a, spec, rand.New(rand.NewPCG(s1, s2)))
	}
	var vs, vs2 []vio
	c.tamper, c.control, c.collect = true, false, &vs
	v := c.runSchedule(a, spec, rand.New(rand.NewPCG(s1, s2)))
	c.collect = nil
	if len(vs) == 0 {
		return v
	}
	// control run: the same scripts act on clones, so the harness makes the same library
	// calls and - as long as the library behaves the same - the schedule is the same one
	c.tamper, c.control, c.collect = true, true, &vs2
	c.runSchedule(a, spec, rand.New(rand.NewPCG(s1, s2)))
	c.tamper, c.control, c.collect = false, false, nil
	if len(vs2) > 0 {
		c.w.Add("capture.control_run_violated_too", 1)
		for _, x := range vs2 {
			c.w.Violation(c.i, x.key, x.detail, x.wit)
		}
		return ""
	}
	for _, x := range vs {
		n := x.node
		if n.origin != nil {
			n = n.origin
		}
		if n.Cap == 0 {
			// the blamed subexpression has no input object the harness touched: keep the key
			c.w.Violation(c.i, x.key, x.detail, x.wit)
			continue
		}
		detail := fmt.Sprintf("the derived future depends on what the caller does with its input object AFTER the combinator returned (the reference is the expression over the inputs as they were at the call).\nharness actions after the call(s) returned:\n  %s\nwith the same actions applied to a clone of the input object (the combinator's own input left alone) the same tree, assignment and schedule seed satisfy every check.\nobserved as %s:\n%s",
			strings.Join(x.tlog, "\n  "), x.key, x.detail)
		c.w.Violation(c.i, opKey(n)+"/reads-input-after-return", detail, x.wit)
	}
	return ""
}

func assignStrings(a []T3) []string {
	out := make([]string, len(a))
	for i, t := range a {
		out[i] = fmt.Sprintf("src%d=%s", i, t)
	}
	return out
}

func canon(t fp.Try[int]) string {
	if t.IsSuccess() {
		return fmt.Sprintf("S:%d", t.Get())
	}
	e := t.Failed().Get()
	if c := codeOf(e); c >= 0 {
		return fmt.Sprintf("F:%d", c)
	}
	return fmt.Sprintf("F:%p:%v", e, e)
}

type candidate struct {
	in   *inst
	kind string
	ref  T3
	got  string
}

// pickSmallest blames the smallest failing subexpression.
func pickSmallest(cs []candidate) candidate {
	sort.SliceStable(cs, func(a, b int) bool {
		if cs[a].in.n.size != cs[b].in.n.size {
			return cs[a].in.n.size < cs[b].in.n.size
		}
		return cs[a].in.n.ID < cs[b].in.n.ID
	})
	return cs[0]
}

func opKey(n *Node) string {
	if n.Fam == "src" || n.Fam == "arg" {
		return "future.Successful"
	}
	return n.Op
}

// runSchedule executes one schedule of one (tree, assignment). It returns the canonical
// final value of the derived future, or "" when the schedule was inconclusive or a
// violation was already reported.
func (c *caseCtx) runSchedule(a []T3, spec schedSpec, sr *rand.Rand) string {
	w, tr := c.w, c.tr
	nsrc := tr.NSrc
	mode := sched.Uniform
	if spec.Mode == "pct" {
		mode = sched.PCT
	}
	horizon := 60 + 40*tr.Size
	if tr.Kind == "wide" {
		horizon += 40 * nsrc
	}
	s := sched.New(sr, mode, spec.Depth, horizon)
	if tr.Kind == "wide" {
		s.StepCap = 400000
	}
	s.KeepTrace = w.Replay
	fp.VerifSetAtomicHook(s.Yield)
	fp.VerifSetSpawn(func(task func()) { s.Spawn("executor-task", task) })
	defer fp.VerifSetAtomicHook(nil)
	defer fp.VerifSetSpawn(nil)

	b := newB(w, nsrc)
	b.tamper = c.tamper
	b.onClone = c.control
	b.memoOn = tr.NRef > 0
	w.Site(tr.Root.Op)
	defer func() {
		b.mu.Lock()
		for k, v := range b.hits {
			c.hits[k] += v
		}
		for k, v := range b.cnt {
			w.Add(k, v)
		}
		b.mu.Unlock()
	}()
	st := make([]T3, nsrc)
	re := &refEval{st: st}
	if spec.Staged {
		b.pendingAt = func(n *Node, env []int) bool { return re.eval(n, env).S == pending }
	}
	stageName := "build"
	tlog := func() []string {
		b.mu.Lock()
		defer b.mu.Unlock()
		return append([]string(nil), b.tlog...)
	}
	wit := func() any {
		return witness{Tree: tr, Assignment: assignStrings(a), Schedule: spec, Stage: stageName, Trace: s.Trace(), Tamper: tlog()}
	}
	describe := func() string {
		extra := ""
		if tl := tlog(); len(tl) > 0 {
			extra = "\nharness actions on caller-owned inputs after the call returned:\n  " + strings.Join(tl, "\n  ")
		}
		return fmt.Sprintf("tree: %s\nsources: %s\nschedule: %s/%s, completion order %v, first %d completed before the tree was built\nstage: %s\nscheduler: %d steps, %d switches, hash %x%s",
			tr.Text, strings.Join(assignStrings(a), " "), map[bool]string{true: "staged", false: "racing"}[spec.Staged], spec.Mode, spec.Order, spec.NPre, stageName, s.Steps, s.Switches, s.Hash(), extra)
	}
	report := func(cd candidate) {
		n := cd.in.n
		detail := fmt.Sprintf("%s: subexpression #%d %s (env %v)\nreference (three-valued Try, left to right): %s\nlibrary future: %s\n%s",
			cd.kind, n.ID, n.String(), cd.in.env, cd.ref, cd.got, describe())
		c.emit(n, opKey(n)+"/"+cd.kind, detail, wit(), tlog())
	}

	// observers on the root future: one, or several (dag batches) on different executors
	nobs := spec.NObs
	if nobs < 1 {
		nobs = 1
	}
	var omu sync.Mutex
	obsCount := make([]int, nobs)
	obsVal := make([]fp.Try[int], nobs)
	var F fp.Future[int]
	built := false
	buildAll := func() {
		F = b.build(tr.Root, nil)
		for j := 0; j < nobs; j++ {
			b.hit("Future.OnComplete")
			var ex []fp.Executor
			switch (spec.ObsEx + j) % 3 {
			case 1:
				ex = []fp.Executor{inlineExec{}}
			case 2:
				ex = []fp.Executor{b.q}
			}
			F.OnComplete(func(t fp.Try[int]) {
				omu.Lock()
				obsCount[j]++
				obsVal[j] = t
				omu.Unlock()
			}, ex...)
		}
		built = true
	}
	complete := func(k int) { b.src[k].Complete(a[k].toTry()) }

	drain := func() bool {
		for round := 0; round < 10000; round++ {
			if err := s.Run(); err != nil {
				w.Add("inconclusive.stuck", 1)
				w.Note("schedule stuck: " + err.Error() + " tree " + tr.Text)
				return false
			}
			if s.Aborted {
				w.Add("inconclusive.step_cap", 1)
				return false
			}
			q := b.q.take()
			if len(q) == 0 {
				return true
			}
			sr.Shuffle(len(q), func(x, y int) { q[x], q[y] = q[y], q[x] })
			for _, t := range q {
				s.Spawn("queued-task", t.Run)
			}
		}
		w.Add("inconclusive.queue_rounds", 1)
		return false
	}

	var late *candidate
	lateStage := ""
	// check applies the oracle at a quiescent point. It returns false when a violation was
	// reported (the schedule is abandoned).
	check := func(final bool) bool {
		b.mu.Lock()
		insts := append([]*inst(nil), b.insts...)
		b.mu.Unlock()
		var bad []candidate
		var lates []candidate
		npend := 0
		for _, in := range insts {
			r := re.eval(in.n, in.env)
			comp := in.f.IsCompleted()
			switch {
			case comp && r.S == pending:
				bad = append(bad, candidate{in, "early-completion", r, "completed with " + tryStr(in.f.Value())})
			case !comp && r.S != pending:
				lates = append(lates, candidate{in, "late-completion", r, "not completed"})
			case !comp:
				npend++
			case comp:
				if v := in.f.Value(); !tryMatches(v, r) {
					bad = append(bad, candidate{in, "wrong-value", r, "completed with " + tryStr(v)})
				}
			}
		}
		w.Add("instances.checked", int64(len(insts)))
		w.Add("instances.asserted_still_pending", int64(npend))
		if final {
			for _, in := range insts {
				switch in.n.Fam {
				case "Apply", "Apply2", "Func", "Unit":
					if in.f.IsCompleted() {
						w.Add("apply_family.completed_at_final_quiescence", 1)
						if !in.f.Value().IsSuccess() && codeOf(in.f.Value().Failed().Get()) >= 200 {
							w.Add("apply_family.panic_exposed_as_failure", 1)
						}
					}
				}
			}
		}
		if len(bad) > 0 {
			report(pickSmallest(bad))
			return false
		}
		if len(lates) > 0 {
			cd := pickSmallest(lates)
			if final {
				cd.kind = "never-completes"
				cd.got = "not completed at final quiescence (all sources completed, scheduler idle, executor queue empty)"
				report(cd)
				return false
			}
			if late == nil {
				late, lateStage = &cd, stageName
			}
		}
		return true
	}
	countStage := func() {
		r := re.eval(tr.Root, nil)
		done, failed := 0, 0
		for _, t := range st {
			if t.S != pending {
				done++
			}
			if t.S == failure {
				failed++
			}
		}
		w.Add("staged.stages", 1)
		if r.S == pending && done > 0 {
			w.Add("staged.not_yet_determined_asserted", 1)
			if failed > 0 {
				w.Add("staged.not_yet_determined_with_failed_source_complete", 1)
			}
		}
		if r.S != pending && done < nsrc {
			w.Add("staged.determined_before_all_sources_asserted", 1)
		}
		if tr.Kind == "wide" && tr.Wide >= 9 {
			w.Add("wide.ge9.stages", 1)
			if r.S == pending && failed > 0 {
				w.Add("wide.ge9.not_yet_determined_with_failed_source_complete", 1)
			}
			if r.S == failure && done < nsrc {
				w.Add("wide.ge9.failure_determined_before_all_sources", 1)
			}
		}
	}

	for _, k := range spec.Order[:spec.NPre] {
		complete(k)
		st[k] = a[k]
	}
	rest := spec.Order[spec.NPre:]
	if spec.Staged {
		buildAll()
		if !drain() {
			return ""
		}
		stageName = fmt.Sprintf("after build, sources %v complete", spec.Order[:spec.NPre])
		countStage()
		if !check(len(rest) == 0) {
			return ""
		}
		b.runDeferred()
		for j, k := range rest {
			s.Spawn(fmt.Sprintf("completer-%d", k), func() { complete(k) })
			st[k] = a[k]
			if !drain() {
				return ""
			}
			stageName = fmt.Sprintf("after completing src%d (sources complete: %v)", k, spec.Order[:spec.NPre+j+1])
			countStage()
			if !check(j == len(rest)-1) {
				return ""
			}
			b.runDeferred()
		}
	} else {
		s.Spawn("builder", buildAll)
		for _, k := range rest {
			s.Spawn(fmt.Sprintf("completer-%d", k), func() { complete(k) })
			st[k] = a[k]
		}
		if !drain() {
			return ""
		}
		stageName = "final quiescence (racing)"
		if !built {
			c.emit(tr.Root, "harness/builder-did-not-run", describe(), wit(), tlog())
			return ""
		}
		if !check(true) {
			return ""
		}
	}
	// final quiescence: all sources complete, everything above held
	if late != nil {
		stageName = lateStage
		report(*late)
		return ""
	}
	root := &inst{n: tr.Root, f: F}
	for j := 0; j < nobs; j++ {
		omu.Lock()
		oc, ov := obsCount[j], obsVal[j]
		omu.Unlock()
		if oc != 1 {
			report(candidate{root, "observer-not-exactly-once", re.eval(tr.Root, nil), fmt.Sprintf("completed with %s; OnComplete observer %d of %d fired %d times", tryStr(F.Value()), j+1, nobs, oc)})
			return ""
		}
		if canon(ov) != canon(F.Value()) {
			report(candidate{root, "observer-value-differs", re.eval(tr.Root, nil), fmt.Sprintf("Value()=%s but observer %d of %d received %s", tryStr(F.Value()), j+1, nobs, tryStr(ov))})
			return ""
		}
	}
	if nobs > 1 {
		w.Add("dag.schedules_with_several_observers", 1)
		w.Add("dag.extra_observers_fired_exactly_once", int64(nobs-1))
	}
	b.mu.Lock()
	dup, dupK, ncall := b.dup, b.dupK, b.ncall
	ninst := len(b.insts)
	nrefInst := 0
	for _, in := range b.insts {
		if in.n.Fam == "ref" {
			nrefInst++
		}
	}
	leftN, leftMsg := b.leftoverN, b.leftoverMsg
	b.mu.Unlock()
	if dup != nil {
		c.emit(dup, opKey(dup)+"/user-function-called-twice", fmt.Sprintf("a user function of #%d %s ran twice for one evaluation (call key id/slot/env/args = %s)\n%s", dup.ID, dup.String(), dupK, describe()), wit(), tlog())
		return ""
	}
	if leftN != nil {
		c.emit(leftN, opKey(leftN)+"/reads-input-after-return", leftMsg+"\n"+describe(), wit(), tlog())
		return ""
	}
	if nrefInst > 0 {
		w.Add("dag.schedules_with_shared_future", 1)
		w.Add("dag.second_uses_of_a_future_checked", int64(nrefInst))
	}
	if tr.Kind == "wide" {
		w.Add("wide.schedules", 1)
		if tr.Wide >= 9 {
			w.Add("wide.ge9.schedules", 1)
			if spec.Staged {
				w.Add("wide.ge9.schedules.staged", 1)
			} else {
				w.Add("wide.ge9.schedules.racing", 1)
			}
		}
	}
	if c.tamper && !c.control && tr.HasCap {
		w.Add("capture.schedules", 1)
	}
	// bookkeeping
	w.Add("schedules", 1)
	if spec.Staged {
		w.Add("schedules.staged", 1)
	} else {
		w.Add("schedules.racing", 1)
	}
	w.Add("schedules."+spec.Mode, 1)
	w.Add("steps", int64(s.Steps))
	w.Add("switches", int64(s.Switches))
	w.Max("max_steps", int64(s.Steps))
	w.Max("max_instances", int64(ninst))
	w.Add("user_function_calls", int64(ncall))
	pair := vrt.Hash64(fmt.Sprint(tr.Text, "|", a, "|", spec.Order, "|", spec.NPre, "|", spec.Staged))
	if _, ok := seenPairs[pair]; !ok {
		seenPairs[pair] = struct{}{}
		w.Add("distinct.tree_completion_order_pairs", 1)
	}
	if _, ok := seenHashes[s.Hash()]; !ok {
		seenHashes[s.Hash()] = struct{}{}
		w.Add("distinct.schedule_hashes", 1)
	}
	if nsrc >= 2 && s.Switches >= 1 {
		w.DistinctHash(pair*1099511628211 ^ s.Hash())
	}
	if w.WantSample() && nsrc >= 2 && spec.Staged && (tr.Size >= 2 || tr.Kind == "wide") && len(tr.Text) < 1500 {
		w.Sample(map[string]any{"kind": tr.Kind, "harness_actions_on_inputs": tlog(), "tree": tr.Text, "sources": assignStrings(a), "schedule": spec, "result": tryStr(F.Value()), "steps": s.Steps, "switches": s.Switches, "schedule_hash": fmt.Sprintf("%x", s.Hash()), "node_instances": ninst})
	}
	return canon(F.Value())
}

func genSpec(r *rand.Rand, nsrc int, staged bool) schedSpec {
	sp := schedSpec{Staged: staged, Mode: "uniform", Order: r.Perm(nsrc)}
	if r.IntN(3) == 0 {
		sp.Mode = "pct"
		sp.Depth = 1 + r.IntN(3)
	}
	if nsrc > 0 {
		switch r.IntN(4) {
		case 0:
			sp.NPre = r.IntN(nsrc + 1)
		case 1:
			sp.NPre = 1
		}
	}
	sp.ObsEx = []int{0, 0, 0, 1, 2}[r.IntN(5)]
	return sp
}

func runCase(w *vrt.W, i int) {
	r := w.Rand(i)
	p := tierParams(w.Tier)
	kind, kidx := p.batchKind(w.Batch)
	var tr *Tree
	switch kind {
	case "wide":
		// every (family, size) pair is hit in turn; consecutive cases differ in both
		nf, ns := len(wideFams), len(wideSizes)
		combo := (kidx*p.wideCases + i) % (nf * ns)
		fam := combo % nf
		tr = genWide(r, wideFams[fam], wideSizes[(combo/nf+fam*4)%ns])
	case "capture":
		ce := capEntries()
		tr = genTreeKind(r, ce[(i+kidx*5)%len(ce)], p.maxSize, "capture")
	case "dag":
		tr = genTreeKind(r, entries[(i+w.Batch*37)%len(entries)], p.maxSize+2, "dag")
	default:
		tr = genTree(r, entries[(i+w.Batch*37)%len(entries)], p.maxSize)
	}
	w.Begin(i, tr.Root.Op)
	defer w.Done(i)
	c := &caseCtx{w: w, i: i, tr: tr, p: p, hits: map[string]int{}}
	nsrc := tr.NSrc
	var assigns [][]T3
	if kind == "wide" {
		pats := []int{0, 1, 2, 3, 0, 4, 1, 2}[:p.wideAssign]
		if nsrc == 0 {
			pats = pats[:1]
		}
		for _, pat := range pats {
			assigns = append(assigns, wideAssignment(r, nsrc, pat))
		}
	} else {
		// assignments: every success/failure combination when there are few, random ones otherwise
		var masks []int
		total := 1 << nsrc
		if total <= p.maxAssign {
			for m := 0; m < total; m++ {
				masks = append(masks, m)
			}
			w.Add("trees.all_assignments", 1)
		} else {
			perm := r.Perm(total)
			masks = perm[:p.maxAssign]
		}
		for _, m := range masks {
			a := make([]T3, nsrc)
			for k := range a {
				if m&(1<<k) != 0 {
					a[k] = fail(sentinel(k))
				} else {
					a[k] = succ(11 * (k + 1))
				}
			}
			assigns = append(assigns, a)
		}
	}
	var cur witness
	w.Guard(i, func() any { return cur }, func() {
		for _, a := range assigns {
			first := ""
			var firstSpec schedSpec
			for sidx := 0; sidx < p.schedPerAssignment; sidx++ {
				var spec schedSpec
				if kind == "wide" {
					spec = wideSpec(r, a, sidx%2 == 0)
				} else {
					spec = genSpec(r, nsrc, sidx%2 == 0)
				}
				if kind == "dag" {
					spec.NObs = 1 + r.IntN(3)
				}
				cur = witness{Tree: tr, Assignment: assignStrings(a), Schedule: spec}
				s1, s2 := r.Uint64(), r.Uint64()
				v := c.runChecked(a, spec, s1, s2)
				if v == "" {
					continue
				}
				if first == "" {
					first, firstSpec = v, spec
				} else if v != first {
					w.Violation(i, opKey(tr.Root)+"/schedule-dependent-value", fmt.Sprintf("tree: %s\nsources: %s\nresult %s under schedule %+v\nresult %s under schedule %+v", tr.Text, strings.Join(assignStrings(a), " "), first, firstSpec, v, spec), cur)
				}
			}
			w.Add("assignments", 1)
		}
	})
	w.Add("trees", 1)
	w.Add("trees."+kind, 1)
	if nsrc == 0 {
		w.Add("trees.zero_sources", 1)
	}
	if nsrc >= 2 {
		w.Add("trees.two_or_more_sources", 1)
	}
	switch kind {
	case "wide":
		w.Add(fmt.Sprintf("wide.trees.elements_%02d", tr.Wide), 1)
		if tr.Wide >= 9 {
			w.Add("wide.ge9.trees."+tr.Root.Fam, 1)
			w.Max("wide.max_sources", int64(nsrc))
		}
		if tr.HasCap {
			w.Add("wide.trees_with_tampered_input", 1)
		}
	case "capture":
		if tr.HasCap {
			w.Add("capture.trees_with_tampered_input", 1)
		}
	case "dag":
		if tr.NRef > 0 {
			w.Add("dag.trees_with_shared_future", 1)
		}
	}
	w.Max("max_tree_size", int64(tr.Size))
	for k, v := range c.hits {
		w.Add("hit."+k, int64(v))
	}
}

func main() {
	vrt.Main(vrt.Config{
		Property:    "C06",
		Batches:     func(tier string) int { return tierParams(tier).totalBatches() },
		Cases:       func(tier string, b int) int { return tierParams(tier).casesOf(b) },
		WorkerProcs: 2,
		RaceBatch:   func(tier string, b int) bool { return tierParams(tier).raceBatch(b) },
		Run: func(w *vrt.W) {
			p := tierParams(w.Tier)
			if k, _ := p.batchKind(w.Batch); k == "par" {
				// real goroutines on 8 processors (the cooperative batches stay at 2)
				runtime.GOMAXPROCS(parProcs)
				for i := w.From; i < w.To; i++ {
					if i == p.parCases {
						historyCase(w, i)
					} else {
						parCase(w, i)
					}
				}
				return
			}
			for i := w.From; i < w.To; i++ {
				runCase(w, i)
			}
		},
		Rule: "case = one expression tree (root combinator cycles through every exported function of the families, the rest is PRNG; size = number of combinator nodes, <=6 quick / <=12 thorough, leaves are source promises, Successful/Failed, bound arguments or Apply/FuncN/UnitN futures) over 0..4 source promises; for every success/failure assignment of the sources (all 2^n when <=4 quick / <=8 thorough, else that many random ones) 4 (quick) / 8 (thorough) schedules are run, alternately STAGED (PRNG subset of sources completed before the tree is built in controller context, then the others one at a time by a completer task, run-to-quiescence incl. the harness queue executor after each, oracle after each stage) and RACING (a builder task and one completer task per source start together), each under a fresh seeded cooperative scheduler (uniform, or PCT with 1..3 change points) that owns every atomic step of every promise and every default-executor task; nodes use the default, an inline or the harness queue executor (PRNG per node). Oracle at every quiescent point, for the root and for every intermediate node instance: IsCompleted == (three-valued left-to-right Try reference of that subexpression is determined); value == reference value (sentinel errors by pointer, panics by exposed panic value); at final quiescence additionally: completed (else never-completes), observer fired exactly once with that value, no user function ran twice, same value as in every other schedule of the same (tree, assignment). distinct_nontrivial = distinct (tree, assignment+completion order, schedule hash) triples with >=2 sources and >=1 context switch. " +
			"Three further kinds of batches follow the classic ones. WIDE: one list-shaped node (Sequence, SequenceIterator, Traverse*, FlatMapTraverse*, iterator|seq|list.FoldFuture) or one chain of Zip3 / LiftA2..9 nodes over n leaf operands, every (family, n) pair with n in 0..8,9,10,15,16,17,31,32,33,64,65 in turn, one source promise per operand / element (a quarter of the trees: a few immediate or repeated operands, or fewer sources than elements); assignments: one failing source (not the first), two, a quarter, none, all; completion orders: PRNG, last position first, failing sources first (highest index first), index order; staged (one source per stage, oracle after each) and racing. " +
			"CAPTURE: classic generator with a list-input root, 0..8 elements, and a tamper script on every list-input node (also on half of the wide trees): right after the library call returned (FlatMapTraverse*: at the next quiescent point of a staged schedule) the harness overwrites the elements of the slice / of the buffer behind the iterator it passed with poison values, reads on from the iterator, appends to the slice in place / feeds further elements to the iterator, and calls a second, different combinator on the same input object (before or after the poisoning; own reference); the reference of the node is the expression over the inputs as they were at the call (a single-use iterator: drained at the call). Any violation in such a run is re-run with the same scripts acting on clones of the input objects (same library calls, same schedule): clean control run => key <op>/reads-input-after-return. " +
			"DAG: classic generator in which an operand may be a second use of the future of an earlier node instance of the same strict region (or of an enclosing one, from inside a function body), 1..3 OnComplete observers on the root on different executors, each of which must fire exactly once with the value. " +
			"PAR (real parallelism; first half of these batches in the -race build, GOMAXPROCS 8): one tree per case - three in four a wide tree (every (family, n) pair with n in 2,3,4,5,8,9,16,17,32,33,64 in turn), else a classic or dag tree - run for many instances (fresh promises and builder each; count = fixed work units / tree cost, 16..1000 quick) on REAL goroutines: the default executors start real goroutines, the sources of an instance are dealt to 2..6 goroutines that leave a spin barrier at the same instant (+ PRNG skew of <=100 ns), optionally together with the goroutine that builds the tree; executors as generated / every node inline (callbacks run on the completers' goroutines) / every node default / every node on the harness queue (released at quiescence, dealt to <= 6 goroutines that start together); Gosched injected at 0..5/8 of the promise atomic steps; sources completed before the build / in a first / in a second wave. Every second burst is 'tight': up to 32 instances back to back through the same goroutines, all sources at once, nothing injected. Oracle at EXACT quiescence (every goroutine that can touch the tree is counted, a task is counted before its parent ends; no timers): every node instance completed iff its reference is determined, reference value, at the end everything completed (else <op>/never-completes(parallel)), observers exactly once, no user function twice; a task parked forever in a blocking wait (decided from the goroutine states: every outstanding counted goroutine blocked, nothing moved between two looks) is reported too. DATA RACE reports of the -race batches inside csgura/fp are violations. " +
			"HISTORY (last case of every par batch): >= 24 000 (quick) / 80 000 (thorough) Apply/Apply2/Func0..9/Unit1..9 calls with a panicking body in ONE process, in waves of 16..127 calls mixed 7:1 with normal / error-returning ones, on the default (real goroutines), inline and queue executors; at the exact quiescence after every wave every future of the wave must be completed with its reference value (panic: Failure exposing the panic value); a final sweep runs a normal and a panicking call of every (function, executor) pair; a call that never returns / a task blocked forever is recognised from the goroutine states: <op>/never-completes(process-history).",
		Assumptions: []string{
			"interleavings are explored at the granularity of the atomic steps of internal/atomic.Value (hook before each step) and of executor tasks; they are sampled (uniform + PCT), not enumerated",
			"the scheduler serialises tasks: only sequentially consistent interleavings are explored",
			"'always completes' is decided as a bounded safety property: at quiescence of a scheduler that owns every task, with all sources completed, the derived future is complete; futures completed by timers (future.Await, promise.WithTimeout) are out of scope",
			"distinct.* counters are distinct within each batch, summed over batches",
			"input capture: a combinator must evaluate the inputs it was called with; for a single-use fp.Iterator argument this is modelled as what the unchanged library does - the iterator is drained before the call returns - so a later read by the caller finds nothing, elements fed later are never consumed, and a second combinator called on it sees exactly the later elements",
			"par batches: 'quiescence' counts the goroutines the harness starts and every task handed to fp.VerifSetSpawn; library code that starts a goroutine with a bare go statement (none in the unchanged tree) would escape the count",
			"par batches: whether two callbacks really overlap in time is up to the machine (true parallelism needs >= 2 free cores); the verdict never depends on it, only the chance to see a parallel-only defect does",
			"the second call on the input of list.FoldFuture (an fp.List view of the caller's slice) is always made before the slice is overwritten, so nothing is assumed about list.FromSlice sharing storage",
		},
		Floors: func(tier string) map[string]int64 {
			f := map[string]int64{
				"trees": 45000, "schedules": 350000,
				"staged.not_yet_determined_asserted":                    40000,
				"staged.not_yet_determined_with_failed_source_complete": 20000,
				"staged.determined_before_all_sources_asserted":         50000,
				"instances.asserted_still_pending":                      300000,
				"apply_family.panic_exposed_as_failure":                 20000,
				"distinct":                                              100000,
			}
			min := int64(1000)
			if tier == "thorough" {
				f = map[string]int64{
					"trees": 200000, "schedules": 3000000,
					"staged.not_yet_determined_asserted":                    1000000,
					"staged.not_yet_determined_with_failed_source_complete": 500000,
					"staged.determined_before_all_sources_asserted":         1300000,
					"instances.asserted_still_pending":                      5000000,
					"apply_family.panic_exposed_as_failure":                 400000,
					"distinct":                                              2000000,
				}
				min = 80000
			}
			for _, h := range hitNames() {
				f["hit."+h] = min
			}
			// wide / capture / dag batches: (quick, thorough)
			nf := map[string][2]int64{
				"trees.wide": {2000, 6000}, "trees.capture": {5000, 28000}, "trees.dag": {5000, 28000},
				"wide.ge9.schedules.staged":                               {7000, 70000},
				"wide.ge9.schedules.racing":                               {7000, 70000},
				"wide.ge9.not_yet_determined_with_failed_source_complete": {50000, 600000},
				"wide.ge9.failure_determined_before_all_sources":          {20000, 300000},
				"wide.trees_with_tampered_input":                          {700, 2000},
				"capture.calls_tampered":                                  {50000, 1000000},
				"capture.calls_tampered.deferred":                         {2000, 40000},
				"capture.tampered_while_result_pending":                   {12000, 250000},
				"capture.slices_overwritten":                              {20000, 400000},
				"capture.slices_appended":                                 {20000, 400000},
				"capture.iterator_found_drained":                          {10000, 200000},
				"capture.iterators_fed":                                   {10000, 200000},
				"capture.second_calls":                                    {25000, 500000},
				"dag.trees_with_shared_future":                            {1500, 10000},
				"dag.second_uses_of_a_future_checked":                     {30000, 600000},
				"dag.schedules_with_several_observers":                    {20000, 400000},
			}
			// par batches (real goroutines) and their process-history cases
			for k, v := range map[string][2]int64{
				"par.trees": {3400, 10000}, "par.rounds": {750000, 2600000}, "par.rounds.tight": {650000, 2300000},
				"par.rounds.all-inline": {250000, 850000}, "par.rounds.all-default": {250000, 850000},
				"par.rounds.as-generated": {120000, 400000}, "par.rounds.all-queue": {120000, 400000},
				"par.rounds.with_gosched_injection": {45000, 150000}, "par.rounds.tree_built_concurrently": {22000, 75000},
				"par.rounds.two_waves": {18000, 60000}, "par.rounds.wide.ge9_sources": {85000, 300000},
				"par.instance_waves_with_2_or_more_goroutines": {500000, 1700000}, "par.instances_asserted_still_pending": {2000000, 7000000},
				"par.queue_tasks_released_together": {1500000, 5000000},
				"history.cases_with_10000_or_more_panicking_calls": {16, 24}, "history.panicking_calls": {380000, 1900000},
				"history.normal_calls_checked_after_10000_panicking_calls": {25000, 150000}, "history.final_sweep_calls": {2000, 3000},
			} {
				nf[k] = v
			}
			for _, wf := range wideFams {
				nf["par.rounds.wide."+wf.Fam] = [2]int64{30000, 100000}
			}
			for _, n := range parSizes {
				nf[fmt.Sprintf("par.trees.wide.sources_%02d", n)] = [2]int64{150, 400}
			}
			for _, n := range wideSizes {
				nf[fmt.Sprintf("wide.trees.elements_%02d", n)] = [2]int64{100, 300}
			}
			for _, wf := range wideFams {
				nf["wide.ge9.trees."+wf.Fam] = [2]int64{60, 200}
			}
			for _, e := range capEntries() {
				nf["capture.op."+e.Op] = [2]int64{1000, 20000}
			}
			for k, v := range nf {
				if tier == "thorough" {
					f[k] = v[1]
				} else {
					f[k] = v[0]
				}
			}
			return f
		},
	})
}
