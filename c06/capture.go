package main

// Input capture. A combinator that takes a slice / fp.Seq / iterator / list of inputs is
// "the same expression over the sources' results" only for the inputs it was CALLED with:
// what the caller does with its slice or iterator after the call returned must not change
// the derived future. For a node with a tamper script (Node.Cap) the harness therefore goes
// on using the input object right after the library call returned (for FlatMapTraverse*,
// whose inner call happens in a callback: at the next quiescent point) - normally while the
// element futures are still pending:
//
//	capPoison  overwrite every element of the slice (of the buffer behind the iterator) with
//	           poison values; read up to two further elements from a single-use iterator
//	capAppend  append to the slice (in place: it has spare capacity); feed two further
//	           elements to the iterator
//	capSecond  call a second, different combinator on the same input object (before the
//	           poisoning, or after it with capSecondAfter); its result has its own reference
//
// Model of the single-use iterator argument: the unchanged library drains it at call time
// (the only behaviour consistent with evaluating the expression over the elements the
// iterator held at the call), so a later read by the caller finds nothing, elements fed
// later stay unread, and a second combinator called on it sees exactly the fed elements.

import (
	"fmt"
	"sync"

	"github.com/csgura/fp"
	"github.com/csgura/fp/future"
	"github.com/csgura/fp/iterator"
	"github.com/csgura/fp/list"
)

// roomy copies xs into a slice with spare capacity, so that a later append by the caller
// writes into the same backing array.
func roomy[T any](xs []T) []T {
	out := make([]T, len(xs), len(xs)+3)
	copy(out, xs)
	return out
}

// shared is the buffer behind a single-use iterator that the harness keeps a handle on.
type shared[T any] struct {
	mu  sync.Mutex
	buf []T
	pos int
}

func newShared[T any](elems []T) (*shared[T], fp.Iterator[T]) {
	sh := &shared[T]{buf: roomy(elems)}
	it := fp.MakeIterator(func() bool {
		sh.mu.Lock()
		defer sh.mu.Unlock()
		return sh.pos < len(sh.buf)
	}, func() T {
		sh.mu.Lock()
		defer sh.mu.Unlock()
		if sh.pos >= len(sh.buf) {
			panic("next on empty iterator")
		}
		v := sh.buf[sh.pos]
		sh.pos++
		return v
	})
	return sh, it
}

// overwrite replaces every element. f may call the library (and so yield to another task
// that reads the iterator): it runs outside the lock.
func (sh *shared[T]) overwrite(f func(i int) T) {
	sh.mu.Lock()
	n := len(sh.buf)
	sh.mu.Unlock()
	vals := make([]T, n)
	for i := range vals {
		vals[i] = f(i)
	}
	sh.mu.Lock()
	copy(sh.buf, vals)
	sh.mu.Unlock()
}

func (sh *shared[T]) feed(xs ...T) {
	sh.mu.Lock()
	sh.buf = append(sh.buf, xs...)
	sh.mu.Unlock()
}

func (b *B) active(n *Node) bool { return b.tamper && n.Cap != 0 }

// own returns the object the tamper script acts on: the caller's input itself, or - in a
// control run - a clone of it, so that the harness performs exactly the same library calls
// (the schedule stays the same) while the combinator's input is left alone.
func own[T any](b *B, n *Node, in []T) []T {
	if b.onClone && n.Cap != 0 {
		return roomy(in)
	}
	return in
}

// ownIter: the clone of a single-use iterator is an iterator that is already drained (the
// model of the original after the call).
func ownIter[T any](b *B, n *Node, sh *shared[T], it fp.Iterator[T]) (*shared[T], fp.Iterator[T]) {
	if b.onClone && n.Cap != 0 {
		sh.mu.Lock()
		elems := append([]T(nil), sh.buf...)
		sh.mu.Unlock()
		sh2, it2 := newShared(elems)
		sh2.pos = len(sh2.buf)
		return sh2, it2
	}
	return sh, it
}

func (b *B) count(name string, v int64) {
	b.mu.Lock()
	b.cnt[name] += v
	b.mu.Unlock()
}

func (b *B) logf(format string, a ...any) {
	b.mu.Lock()
	if len(b.tlog) < 24 {
		b.tlog = append(b.tlog, fmt.Sprintf(format, a...))
	}
	b.mu.Unlock()
}

func (b *B) newID() int {
	b.mu.Lock()
	defer b.mu.Unlock()
	b.synthID++
	return b.synthID
}

// begin counts one tampered call.
func (b *B) begin(n *Node, env []int, what string) {
	b.count("capture.calls_tampered", 1)
	b.count("capture.calls_tampered."+what, 1)
	b.count("capture.op."+n.Op, 1)
	if b.pendingAt != nil && b.pendingAt(n, env) {
		b.count("capture.tampered_while_result_pending", 1)
	}
}

func (b *B) expectNode(origin *Node, op string, want int) *Node {
	b.hit(op)
	b.count("capture.second_calls", 1)
	return &Node{ID: b.newID(), Fam: "expect", Op: op, K: want, origin: origin}
}

func plus1(xs []int) []int {
	out := make([]int, len(xs))
	for i, x := range xs {
		out[i] = x + 1
	}
	return out
}

func succPlus1(x int) fp.Future[int] { return future.Successful(x + 1) }

// tamperInts: the caller's []int / fp.Seq[int] (l: the fp.List view handed to list.FoldFuture).
func (b *B) tamperInts(n *Node, env []int, in []int, l fp.List[int]) {
	if !b.active(n) {
		return
	}
	b.begin(n, env, "slice")
	c := n.Cap
	cur := append([]int(nil), seqOf(n.Args[0].val(env), n.N)...) // plain-Go model of the content of in
	k2 := n.K + 1
	second := func() {
		var f fp.Future[int]
		var op string
		switch n.Fam {
		case "TraverseSeq", "TraverseSeqFunc", "seq.FoldFuture":
			op = "future.TraverseSlice"
			f = future.Map(future.TraverseSlice(in, succPlus1), func(s []int) int { return w31(k2, s...) })
		case "TraverseSlice", "TraverseSliceFunc":
			op = "future.TraverseSeq"
			f = future.Map(future.TraverseSeq(fp.Seq[int](in), succPlus1), fold(k2))
		default:
			op = "list.FoldFuture"
			f = list.FoldFuture(l, k2, func(acc, x int) fp.Future[int] { return future.Successful(w31(acc, x+1)) })
		}
		b.logf("#%d: second call %s on the same input object (content %v)", n.ID, op, cur)
		b.addInst(b.expectNode(n, op, w31(k2, plus1(cur)...)), env, f)
	}
	before := c&capSecond != 0 && (c&capSecondAfter == 0 || l != nil)
	if before {
		second()
	}
	if c&capPoison != 0 {
		for i := range in {
			in[i] = poisonElem(i)
			cur[i] = poisonElem(i)
		}
		b.count("capture.slices_overwritten", 1)
		b.logf("#%d: overwrote the %d elements of the caller's slice with %d..", n.ID, len(in), poisonElem(0))
	}
	if c&capAppend != 0 {
		for j := 0; j < 2; j++ {
			in = append(in, poisonElem(len(in)))
			cur = append(cur, poisonElem(len(cur)))
		}
		b.count("capture.slices_appended", 1)
		b.logf("#%d: appended 2 elements to the caller's slice", n.ID)
	}
	if c&capSecond != 0 && !before {
		second()
	}
}

// deferTamperInts: the slice delivered to FlatMapTraverse* through a future; the inner
// Traverse call happens in a callback, so the slice is tampered with at the next quiescent
// point of a staged schedule (every callback that started has returned by then).
func (b *B) deferTamperInts(n *Node, env []int, s []int) []int {
	if !b.active(n) {
		return s
	}
	lib := s // what the library gets
	if b.onClone {
		s = roomy(s)
	}
	b.mu.Lock()
	b.deferred = append(b.deferred, func() {
		b.begin(n, env, "deferred")
		if n.Cap&(capPoison|capSecond) != 0 {
			for i := range s {
				s[i] = poisonElem(i)
			}
			b.count("capture.slices_overwritten", 1)
			b.logf("#%d: overwrote the %d elements of the slice delivered through the future (at the quiescent point after its delivery)", n.ID, len(s))
		}
		if n.Cap&capAppend != 0 {
			s = append(s, poisonElem(len(s)), poisonElem(len(s)+1))
			b.count("capture.slices_appended", 1)
		}
	})
	b.mu.Unlock()
	return lib
}

// runDeferred is called by the controller at a quiescent point.
func (b *B) runDeferred() {
	b.mu.Lock()
	d := b.deferred
	b.deferred = nil
	b.mu.Unlock()
	for _, f := range d {
		f()
	}
}

// readFurther: the caller reads on from its iterator after the call returned. In the model
// there is nothing left; what is found was not taken by the combinator at the call.
func readFurther[T any](b *B, n *Node, it fp.Iterator[T]) {
	got := 0
	for got < 2 && it.HasNext() {
		it.Next()
		got++
	}
	b.count("capture.iterator_reads_after_return", 1)
	if got == 0 {
		b.count("capture.iterator_found_drained", 1)
		return
	}
	b.mu.Lock()
	if b.leftoverN == nil {
		b.leftoverN = n
		b.leftoverMsg = fmt.Sprintf("after %s (#%d) returned the caller read on from the iterator it had passed and still found %d element(s): they were not taken at the call", n.Op, n.ID, got)
	}
	b.mu.Unlock()
}

// tamperIntIter: the caller's single-use fp.Iterator[int].
func (b *B) tamperIntIter(n *Node, env []int, sh *shared[int], it fp.Iterator[int]) {
	if !b.active(n) {
		return
	}
	b.begin(n, env, "iterator")
	c := n.Cap
	var remain []int // model: what a reader of the iterator finds now
	k2 := n.K + 1
	second := func() {
		var f fp.Future[int]
		var op string
		if n.Fam == "iterator.FoldFuture" {
			op = "future.Traverse"
			f = future.Map(future.Traverse(it, succPlus1), func(r fp.Iterator[int]) int { return w31(k2, r.ToSeq()...) })
		} else {
			op = "iterator.FoldFuture"
			f = iterator.FoldFuture(it, k2, func(acc, x int) fp.Future[int] { return future.Successful(w31(acc, x+1)) })
		}
		b.logf("#%d: second call %s on the same iterator (model: it holds %v)", n.ID, op, remain)
		b.addInst(b.expectNode(n, op, w31(k2, plus1(remain)...)), env, f)
		remain = nil
	}
	if c&capSecond != 0 && c&capSecondAfter == 0 {
		second()
	}
	if c&capPoison != 0 {
		sh.overwrite(poisonElem)
		readFurther(b, n, it)
		b.logf("#%d: overwrote the buffer behind the iterator and read on from the iterator", n.ID)
	}
	if c&capAppend != 0 {
		sh.feed(poisonElem(100), poisonElem(101))
		remain = []int{poisonElem(100), poisonElem(101)}
		b.count("capture.iterators_fed", 1)
		b.logf("#%d: fed 2 further elements to the iterator", n.ID)
	}
	if c&capSecond != 0 && c&capSecondAfter != 0 {
		second()
	}
}

func (b *B) poisonFut(i int) (*Node, fp.Future[int]) {
	if i%3 == 1 {
		return &Node{ID: b.newID(), Fam: "Failed", Op: "future.Failed", K: poisonErr}, future.Failed[int](errs[poisonErr])
	}
	return &Node{ID: b.newID(), Fam: "Successful", Op: "future.Successful", K: 700 + i}, future.Successful(700 + i)
}

// seqNode describes a second Sequence-like call over the operands desc.
func (b *B) seqNode(origin *Node, op string, desc []*Node) *Node {
	b.hit(op)
	b.count("capture.second_calls", 1)
	// size of the origin: a failing operand (smaller) is blamed before this node
	return &Node{ID: b.newID(), Fam: "SequenceIterator", Op: op, N: len(desc), K: origin.K + 1, Kids: append([]*Node(nil), desc...), origin: origin, size: origin.size}
}

// tamperFutSlice: the caller's []fp.Future[int] given to future.Sequence.
func (b *B) tamperFutSlice(n *Node, env []int, in []fp.Future[int]) {
	if !b.active(n) {
		return
	}
	b.begin(n, env, "slice")
	c := n.Cap
	desc := append([]*Node(nil), n.Kids...)
	k2 := n.K + 1
	second := func() {
		sn := b.seqNode(n, "future.SequenceIterator", desc)
		f := future.Map(future.SequenceIterator(iterator.FromSeq(in)), func(r fp.Iterator[int]) int { return w31(k2, r.ToSeq()...) })
		b.logf("#%d: second call future.SequenceIterator over the same slice of futures", n.ID)
		b.addInst(sn, env, f)
	}
	if c&capSecond != 0 && c&capSecondAfter == 0 {
		second()
	}
	if c&capPoison != 0 {
		for i := range in {
			desc[i], in[i] = b.poisonFut(i)
		}
		b.count("capture.slices_overwritten", 1)
		b.logf("#%d: overwrote the %d futures in the caller's slice with Successful(700+i) / Failed(e%d)", n.ID, len(in), poisonErr)
	}
	if c&capAppend != 0 {
		pn, pf := b.poisonFut(len(in))
		in = append(in, pf)
		desc = append(desc, pn)
		b.count("capture.slices_appended", 1)
		b.logf("#%d: appended a future to the caller's slice", n.ID)
	}
	if c&capSecond != 0 && c&capSecondAfter != 0 {
		second()
	}
}

// tamperFutIter: the caller's single-use iterator of futures given to future.SequenceIterator.
func (b *B) tamperFutIter(n *Node, env []int, sh *shared[fp.Future[int]], it fp.Iterator[fp.Future[int]]) {
	if !b.active(n) {
		return
	}
	b.begin(n, env, "iterator")
	c := n.Cap
	var remain []*Node
	k2 := n.K + 1
	second := func() {
		sn := b.seqNode(n, "future.Traverse", remain)
		f := future.Map(future.Traverse(it, func(f fp.Future[int]) fp.Future[int] { return f }), func(r fp.Iterator[int]) int { return w31(k2, r.ToSeq()...) })
		b.logf("#%d: second call future.Traverse(identity) on the same iterator of futures (model: it holds %d)", n.ID, len(remain))
		b.addInst(sn, env, f)
		remain = nil
	}
	if c&capSecond != 0 && c&capSecondAfter == 0 {
		second()
	}
	if c&capPoison != 0 {
		sh.overwrite(func(i int) fp.Future[int] { _, f := b.poisonFut(i); return f })
		readFurther(b, n, it)
		b.logf("#%d: overwrote the buffer behind the iterator of futures and read on from the iterator", n.ID)
	}
	if c&capAppend != 0 {
		p0, f0 := b.poisonFut(100)
		p1, f1 := b.poisonFut(101)
		sh.feed(f0, f1)
		remain = []*Node{p0, p1}
		b.count("capture.iterators_fed", 1)
		b.logf("#%d: fed 2 further futures to the iterator", n.ID)
	}
	if c&capSecond != 0 && c&capSecondAfter != 0 {
		second()
	}
}
