package main

// Process-lifetime history of the Apply family. "A future created by Apply/Apply2/Func*
// always completes - with a Failure if the function panics" must hold for the n-th call of
// a process as it does for the first: whatever a call leaves behind in process-wide state
// (slots, pools, counters) when its body panics adds up. The last case of every "par" batch
// performs tens of thousands of Apply / Apply2 / Func0..9 / Unit1..9 calls in ONE process,
// most of them with a panicking body, in waves: a wave is built by one tracked goroutine,
// the default executor starts real goroutines (tracker), inline and queue executors are
// mixed in; at the exact quiescence after each wave every future of the wave - panicking,
// failing and normal ones alike - must be completed with its reference value (a panic: a
// Failure exposing the panic value). After the last wave one normal and one panicking call
// of every (function, executor) combination is checked once more.
//
// A call that never returns / a task that blocks forever is recognised by the tracker
// (goroutine states, see parallel.go), not by a timer.

import (
	"fmt"
	"math/rand/v2"

	"verif/vrt"

	"github.com/csgura/fp"
)

type histCall struct {
	n      *Node
	panics bool
}

func histEntries() []entry {
	var out []entry
	for _, e := range entries {
		switch e.Fam {
		case "Apply", "Apply2", "Func", "Unit":
			out = append(out, e)
		}
	}
	return out
}

func histNode(r *rand.Rand, id int, e entry, wantPanic bool, ex int) histCall {
	n := &Node{ID: id, Op: e.Op, Fam: e.Fam, N: e.N, K: 1 + r.IntN(9), Ex: ex}
	if wantPanic {
		n.Mode = 2
		if e.Fam == "Apply" {
			n.Mode = 1
		}
	} else if e.Fam != "Apply" {
		n.Mode = r.IntN(2) // success or error result
	}
	_, _, args := shape(entry{Fam: e.Fam, N: e.N, Mode: n.Mode})
	for j := 0; j < args; j++ {
		n.Args = append(n.Args, Plain{K: 1 + r.IntN(9)})
	}
	return histCall{n: n, panics: wantPanic}
}

func historyCase(w *vrt.W, i int) {
	r := w.Rand(i)
	p := tierParams(w.Tier)
	w.Begin(i, "future.Apply(process history)")
	defer w.Done(i)
	hes := histEntries()
	t := newTracker()
	fp.VerifSetAtomicHook(nil)
	fp.VerifSetSpawn(func(task func()) { t.Go(task) })
	defer fp.VerifSetSpawn(nil)
	re := &refEval{}
	npanic, ncalls, nwaves := 0, 0, 0
	id := 0
	var curWave []string
	w.Guard(i, func() any {
		return map[string]any{"mode": "process history", "panicking_calls_before_this_wave": npanic, "calls_before_this_wave": ncalls, "wave": curWave}
	}, func() {
		// runWave builds the calls on one tracked goroutine, waits for quiescence and checks
		// every future. false = violation reported, the case is abandoned.
		runWave := func(calls []histCall, what string) bool {
			b := newB(w, 0)
			curWave = curWave[:0]
			for _, hc := range calls {
				curWave = append(curWave, fmt.Sprintf("%s[mode=%d,ex=%s]", hc.n.Op, hc.n.Mode, exNames[hc.n.Ex]))
			}
			started := 0
			t.begin()
			t.Go(func() {
				for _, hc := range calls {
					b.build(hc.n, nil)
					b.mu.Lock()
					started++
					b.mu.Unlock()
				}
			})
			var stuck string
			for {
				if stuck = t.wait(func() uint64 { return 0 }); stuck != "" {
					break
				}
				q := b.q.take()
				if len(q) == 0 {
					break
				}
				t.begin()
				for _, task := range q {
					t.Go(task.Run)
				}
			}
			b.mu.Lock()
			insts := append([]*inst(nil), b.insts...)
			nstarted := started
			b.mu.Unlock()
			hist := fmt.Sprintf("%s; earlier in this process: %d Apply-family calls, %d of them with a panicking body (each completed with a Failure exposing the panic value), all checked complete with the reference value", what, ncalls, npanic)
			wit := map[string]any{"mode": "process history", "panicking_calls_before_this_wave": npanic, "calls_before_this_wave": ncalls, "wave": append([]string(nil), curWave...)}
			if stuck != "" {
				// the call that did not return (inline executor) or the first future left incomplete
				n := calls[0].n
				if nstarted < len(calls) {
					n = calls[nstarted].n
				}
				for _, in := range insts {
					if !in.f.IsCompleted() {
						n = in.n
						break
					}
				}
				t = newTracker()
				w.Violation(i, n.Op+"/never-completes(process-history)", fmt.Sprintf("%s\n%s: the call does not return / its future is never completed\n%s", n.String(), hist, stuck), wit)
				return false
			}
			for _, in := range insts {
				rr := re.eval(in.n, nil)
				if !in.f.IsCompleted() {
					w.Violation(i, in.n.Op+"/never-completes(process-history)", fmt.Sprintf("%s\n%s: not completed at quiescence (every goroutine that was started has finished, executor queue empty)\nreference: %s", in.n.String(), hist, rr), wit)
					return false
				}
				if v := in.f.Value(); !tryMatches(v, rr) {
					w.Violation(i, in.n.Op+"/wrong-value(process-history)", fmt.Sprintf("%s\n%s\nreference: %s\nlibrary future: completed with %s", in.n.String(), hist, rr, tryStr(v)), wit)
					return false
				}
			}
			if len(insts) != len(calls) {
				w.Violation(i, "harness/history-wave-incomplete", fmt.Sprintf("%d of %d calls were made", len(insts), len(calls)), wit)
				return false
			}
			for _, hc := range calls {
				ncalls++
				w.Add("history.calls."+hc.n.Fam, 1)
				if hc.panics {
					npanic++
					w.Add("history.panicking_calls."+hc.n.Fam, 1)
				} else {
					w.Add("history.normal_calls_checked", 1)
					if npanic >= 10000 {
						w.Add("history.normal_calls_checked_after_10000_panicking_calls", 1)
					}
				}
				w.Add("history.calls.executor_"+map[int]string{0: "default", 1: "inline", 2: "queue"}[hc.n.Ex], 1)
			}
			nwaves++
			return true
		}
		for npanic < p.histPanics {
			size := 16 + r.IntN(112)
			calls := make([]histCall, 0, size)
			for j := 0; j < size; j++ {
				e := hes[r.IntN(len(hes))]
				ex := []int{0, 0, 1, 1, 2}[r.IntN(5)]
				calls = append(calls, histNode(r, id, e, r.IntN(8) != 0, ex))
				id++
			}
			if !runWave(calls, "wave of mixed calls") {
				return
			}
			w.Max("history.max_panicking_calls_in_one_process", int64(npanic))
		}
		// afterwards: every function on every executor, normal and panicking
		var calls []histCall
		for _, e := range hes {
			for ex := 0; ex < 3; ex++ {
				calls = append(calls, histNode(r, id, e, false, ex), histNode(r, id+1, e, true, ex))
				id += 2
			}
		}
		if !runWave(calls, "final sweep over every Apply-family function x executor") {
			return
		}
		w.Add("history.final_sweep_calls", int64(len(calls)))
		if npanic >= 10000 {
			w.Add("history.cases_with_10000_or_more_panicking_calls", 1)
		}
	})
	w.Add("history.cases", 1)
	w.Add("history.calls", int64(ncalls))
	w.Add("history.panicking_calls", int64(npanic))
	w.Add("history.waves", int64(nwaves))
}
