package main

// Builder: turns an expression tree into library calls. Every node instance (node +
// environment) that is built is recorded together with the future the library returned, so
// that the oracle can look at every intermediate future, not only at the root.

import (
	"errors"
	"fmt"
	"strconv"
	"strings"
	"sync"

	"verif/vrt"

	"github.com/csgura/fp"
	"github.com/csgura/fp/future"
	"github.com/csgura/fp/iterator"
	"github.com/csgura/fp/list"
	"github.com/csgura/fp/seq"
)

// sentinel errors: 0..3 are the failure results of the sources, 4..7 are produced inside
// trees, 8 is the poison written into tampered inputs, 9.. belong to the sources of wide trees
// (layout: ref.go srcErr)
var errs = func() []error {
	out := make([]error, numErrs)
	for i := range out {
		out[i] = errors.New("e" + strconv.Itoa(i))
	}
	return out
}()

func panicVal(k int) string { return "boom-" + strconv.Itoa(k) }

// codeOf maps an error delivered by the library to the code the reference uses (RErr.code).
func codeOf(e error) int {
	for i, s := range errs {
		if e == s {
			return 100 + i
		}
	}
	if e == fp.ErrFutureNotFailed {
		return 190
	}
	if e == fp.ErrOptionEmpty {
		return 191
	}
	if p, ok := e.(interface{ Panic() any }); ok {
		if s, ok := p.Panic().(string); ok && strings.HasPrefix(s, "boom-") {
			if k, err := strconv.Atoi(s[5:]); err == nil {
				return 200 + k
			}
		}
	}
	return -1
}

// errMatches decides whether the error delivered by the library is the reference error.
func errMatches(e error, r RErr) bool {
	switch r.Kind {
	case eSentinel:
		return e == errs[r.K]
	case eNotFailed:
		return e == fp.ErrFutureNotFailed
	case eOptionEmpty:
		return e == fp.ErrOptionEmpty
	case ePanic:
		if e == nil {
			return false
		}
		if p, ok := e.(interface{ Panic() any }); ok && p.Panic() == any(panicVal(r.K)) {
			return true
		}
		return strings.Contains(e.Error(), panicVal(r.K))
	}
	return false
}

func tryMatches(t fp.Try[int], r T3) bool {
	switch r.S {
	case success:
		return t.IsSuccess() && t.Get() == r.V
	case failure:
		return !t.IsSuccess() && errMatches(t.Failed().Get(), r.E)
	}
	return false
}

func tryStr(t fp.Try[int]) string {
	if t.IsSuccess() {
		return fmt.Sprintf("Success(%d)", t.Get())
	}
	e := t.Failed().Get()
	if c := codeOf(e); c >= 200 {
		return fmt.Sprintf("Failure(panic %q)", panicVal(c-200))
	}
	s := e.Error()
	if len(s) > 60 {
		s = s[:60]
	}
	return fmt.Sprintf("Failure(%s)", s)
}

func (r T3) String() string {
	switch r.S {
	case pending:
		return "pending"
	case success:
		return fmt.Sprintf("Success(%d)", r.V)
	}
	switch r.E.Kind {
	case eSentinel:
		return fmt.Sprintf("Failure(e%d)", r.E.K)
	case eNotFailed:
		return "Failure(ErrFutureNotFailed)"
	case eOptionEmpty:
		return "Failure(ErrOptionEmpty)"
	}
	return fmt.Sprintf("Failure(panic %q)", panicVal(r.E.K))
}

func (r T3) toTry() fp.Try[int] {
	if r.S == success {
		return fp.Success(r.V)
	}
	return fp.Failure[int](errs[r.E.K])
}

// ---- executors ------------------------------------------------------------------------

type inlineExec struct{}

func (inlineExec) ExecuteUnsafe(r fp.Runnable) { r.Run() }

type queueExec struct {
	mu sync.Mutex
	q  []fp.Runnable
}

func (q *queueExec) ExecuteUnsafe(r fp.Runnable) {
	q.mu.Lock()
	q.q = append(q.q, r)
	q.mu.Unlock()
}

func (q *queueExec) take() []fp.Runnable {
	q.mu.Lock()
	defer q.mu.Unlock()
	out := q.q
	q.q = nil
	return out
}

// ---- builder --------------------------------------------------------------------------

type inst struct {
	n   *Node
	env []int
	f   fp.Future[int]
}

type B struct {
	w     *vrt.W
	src   []fp.Promise[int]
	q     *queueExec
	mu    sync.Mutex
	calls map[string]int
	ncall int
	dup   *Node // first user function observed to run twice for one evaluation
	dupK  string
	insts []*inst
	hits  map[string]int

	exMode int  // real-parallelism rounds: 0 executors as generated, 1 every node inline, 2 every node on the default executor, 3 every node on the harness queue
	memoOn bool // dag trees: remember the future of every node instance for "ref" leaves
	memo   map[string]fp.Future[int]

	// capture scenarios (capture.go)
	tamper      bool                    // run the tamper scripts
	onClone     bool                    // control run: the scripts act on a clone of the input object, the library's input is left alone
	pendingAt   func(*Node, []int) bool // staged mode: is the reference of this instance still pending?
	deferred    []func()                // tamper actions to run at the next quiescent point
	tlog        []string                // what the harness did to caller-owned inputs
	leftoverN   *Node                   // a single-use iterator still had elements after the call returned
	leftoverMsg string
	synthID     int
	cnt         map[string]int64
}

func newB(w *vrt.W, nsrc int) *B {
	b := &B{w: w, q: &queueExec{}, calls: map[string]int{}, hits: map[string]int{}, memo: map[string]fp.Future[int]{}, cnt: map[string]int64{}, synthID: 100000}
	for i := 0; i < nsrc; i++ {
		b.src = append(b.src, fp.NewPromise[int]())
	}
	return b
}

func (b *B) hit(name string) {
	b.mu.Lock()
	b.hits[name]++
	b.mu.Unlock()
}

func (b *B) ex(n *Node) []fp.Executor {
	e := n.Ex
	switch b.exMode {
	case 1:
		e = 1
	case 2:
		e = 0
	case 3:
		e = 2
	}
	switch e {
	case 1:
		return []fp.Executor{inlineExec{}}
	case 2:
		return []fp.Executor{b.q}
	}
	return nil
}

// call logs one invocation of user function `slot` of node n in environment env (+ its
// arguments where one node instance legitimately calls the function several times).
func (b *B) call(n *Node, slot int, env []int, extra []int) {
	key := fmt.Sprint(n.ID, "/", slot, "/", env, "/", extra)
	b.mu.Lock()
	b.calls[key]++
	b.ncall++
	if b.calls[key] == 2 && b.dup == nil {
		b.dup, b.dupK = n, key
	}
	b.mu.Unlock()
}

func (b *B) pure(n *Node, slot int, env []int, xs ...int) int {
	b.call(n, slot, env, nil)
	return w31(n.K, xs...)
}

func (b *B) body(n *Node, j int, env []int, xs ...int) fp.Future[int] {
	b.call(n, 10+j, env, xs)
	return b.build(n.Body[j], extend(env, xs...))
}

func (b *B) stepBody(n *Node, i int, env []int, xs ...int) fp.Future[int] {
	b.call(n, 100+i, env, xs)
	return b.build(n.Steps[i].Body, extend(env, xs...))
}

func (b *B) tryOf(st *Step, env []int) fp.Try[int] {
	if st.Fail {
		return fp.Failure[int](errs[userErr(st.K)])
	}
	return fp.Success(st.P.val(env))
}

func (b *B) optOf(st *Step, env []int) fp.Option[int] {
	if st.Fail {
		return fp.None[int]()
	}
	return fp.Some(st.P.val(env))
}

func (b *B) fnRes(n *Node, env []int, xs ...int) (int, error) {
	b.call(n, 0, env, nil)
	switch n.Mode {
	case 1:
		return 0, errs[userErr(n.K, xs...)]
	case 2:
		b.w.Site(n.Op) // a process-fatal panic is attributed to this call site
		panic(panicVal(n.K % 10))
	}
	return w31(n.K, xs...), nil
}

func (b *B) unitRes(n *Node, env []int, xs ...int) error {
	_, err := b.fnRes(n, env, xs...)
	return err
}

func (b *B) args(n *Node, env []int) []int {
	out := make([]int, len(n.Args))
	for i, a := range n.Args {
		out[i] = a.val(env)
	}
	return out
}

func (b *B) build(n *Node, env []int) fp.Future[int] {
	var f fp.Future[int]
	if n.Fam == "ref" {
		// second use of an existing future: nothing is built
		b.mu.Lock()
		g, ok := b.memo[fmt.Sprint(n.RefID, env[:len(env)-n.K])]
		b.mu.Unlock()
		if !ok {
			panic(fmt.Sprintf("harness: node #%d refers to #%d which has not been built in env %v", n.ID, n.RefID, env[:len(env)-n.K]))
		}
		f = g
	} else {
		f = b.build0(n, env)
	}
	b.mu.Lock()
	b.insts = append(b.insts, &inst{n: n, env: env, f: f})
	if b.memoOn && n.Fam != "ref" {
		b.memo[fmt.Sprint(n.ID, env)] = f
	}
	b.mu.Unlock()
	return f
}

// addInst registers a future built by the harness outside the tree (second call on a
// re-used input object) together with the synthetic node that describes it.
func (b *B) addInst(n *Node, env []int, f fp.Future[int]) {
	b.mu.Lock()
	b.insts = append(b.insts, &inst{n: n, env: env, f: f})
	b.mu.Unlock()
}

func fold(k int) func(s fp.Seq[int]) int { return func(s fp.Seq[int]) int { return w31(k, s...) } }

func (b *B) build0(n *Node, env []int) fp.Future[int] {
	k := n.K
	ex := b.ex(n)
	if n.Fam != "src" && n.Fam != "arg" {
		b.hit(n.Op)
	}
	kids := make([]fp.Future[int], len(n.Kids))
	for i, c := range n.Kids {
		kids[i] = b.build(c, env)
	}
	var k0 fp.Future[int]
	if len(kids) > 0 {
		k0 = kids[0]
	}
	f1 := func(v int) int { return b.pure(n, 0, env, v) }
	body0 := func(v int) fp.Future[int] { return b.body(n, 0, env, v) }
	elemBody := func(x int) fp.Future[int] { return b.body(n, 0, env, x) }
	ecode := func(e error) int { return b.pure(n, 0, env, codeOf(e)) }
	ebody := func(e error) fp.Future[int] { return b.body(n, 0, env, codeOf(e)) }
	defAt := func(e error) bool { return isDef(k, codeOf(e)) }

	switch n.Fam {
	case "src":
		return b.src[k].Future()
	case "srcidx":
		return b.src[env[len(env)-1-k]%n.N].Future()
	case "Successful":
		return future.Successful(k)
	case "Failed":
		return future.Failed[int](errs[k])
	case "arg":
		b.hit("future.Successful")
		return future.Successful(env[len(env)-1-k])
	case "FromTry":
		if n.Mode == 1 {
			return future.FromTry(fp.Failure[int](errs[userErr(k)]))
		}
		return future.FromTry(fp.Success(k))
	case "FromOption":
		if n.Mode == 1 {
			return future.FromOption(fp.None[int]())
		}
		return future.FromOption(fp.Some(k))
	case "Apply":
		return future.Apply(func() int {
			b.call(n, 0, env, nil)
			if n.Mode == 1 {
				b.w.Site(n.Op)
				panic(panicVal(k % 10))
			}
			return k
		}, ex...)
	case "Apply2":
		return future.Apply2(func() (int, error) {
			b.call(n, 0, env, nil)
			switch n.Mode {
			case 1:
				return 0, errs[userErr(k)]
			case 2:
				b.w.Site(n.Op)
				panic(panicVal(k % 10))
			}
			return k, nil
		}, ex...)
	case "Func":
		return b.genFunc(n, env, b.args(n, env))
	case "Unit":
		a := b.args(n, env)
		return future.Map(b.genUnit(n, env, a), func(fp.Unit) int { return w31(k, a...) })

	case "Map":
		return future.Map(k0, f1, ex...)
	case "Future.Map":
		return k0.Map(f1, ex...)
	case "Lift":
		return future.Lift(f1, ex...)(k0)
	case "Replace":
		return future.Replace(k0, k)
	case "FlatMap":
		return future.FlatMap(k0, body0, ex...)
	case "Future.FlatMap":
		return k0.FlatMap(body0, ex...)
	case "Flatten":
		if n.Mode == 1 {
			return future.Flatten(future.Successful(k0))
		}
		return future.Flatten(future.Map(k0, body0, ex...))
	case "Transform":
		return future.Transform(k0, func(t fp.Try[int]) fp.Try[int] {
			b.call(n, 0, env, nil)
			if t.IsSuccess() {
				if n.Mode == 1 {
					return fp.Failure[int](errs[userErr(k)])
				}
				return fp.Success(w31(k, t.Get()))
			}
			c := codeOf(t.Failed().Get())
			switch n.Mode {
			case 0:
				return t
			case 1:
				return fp.Success(w31(k, c))
			}
			return fp.Success(w31(k, c+1))
		}, ex...)
	case "TransformWith":
		return future.TransformWith(k0, func(t fp.Try[int]) fp.Future[int] {
			if t.IsSuccess() {
				return b.body(n, 0, env, t.Get())
			}
			return b.body(n, 1, env, codeOf(t.Failed().Get()))
		}, ex...)
	case "Future.Recover":
		return k0.Recover(ecode, ex...)
	case "Future.RecoverWith":
		return k0.RecoverWith(ebody, ex...)
	case "Future.RecoverCase":
		return k0.RecoverCase(defAt, ecode, ex...)
	case "Future.RecoverCaseWith":
		return k0.RecoverCaseWith(defAt, ebody, ex...)
	case "Future.Or":
		return k0.Or(func() fp.Future[int] { return b.body(n, 0, env) })
	case "Future.OrFuture":
		return k0.OrFuture(kids[1])
	case "Future.Failed":
		return future.Map(k0.Failed(), codeOf)
	case "Future.OnSuccess", "Future.Foreach":
		p := fp.NewPromise[int]()
		cb := func(v int) { p.Success(f1(v)) }
		if n.Fam == "Future.Foreach" {
			k0.Foreach(cb, ex...)
		} else {
			k0.OnSuccess(cb, ex...)
		}
		b.hit("Future.OnFailure")
		k0.OnFailure(func(e error) { p.Failure(e) }, ex...)
		return p.Future()
	case "MapSeqLift":
		s := future.Map(k0, func(v int) fp.Seq[int] { return seqOf(v, n.N) })
		return future.Map(future.MapSeqLift(s, func(x int) int { b.call(n, 0, env, []int{x}); return w31(k, x) }, ex...), fold(k+1))
	case "MapSliceLift":
		s := future.Map(k0, func(v int) []int { return seqOf(v, n.N) })
		return future.Map(future.MapSliceLift(s, func(x int) int { b.call(n, 0, env, []int{x}); return w31(k, x) }, ex...), func(s []int) int { return w31(k+1, s...) })
	case "FlatMapTraverseSeq":
		s := future.Map(k0, func(v int) fp.Seq[int] { return b.deferTamperInts(n, env, roomy(seqOf(v, n.N))) })
		return future.Map(future.FlatMapTraverseSeq(s, elemBody, ex...), fold(k))
	case "FlatMapTraverseSlice":
		s := future.Map(k0, func(v int) []int { return b.deferTamperInts(n, env, roomy(seqOf(v, n.N))) })
		return future.Map(future.FlatMapTraverseSlice(s, elemBody, ex...), func(s []int) int { return w31(k, s...) })
	case "Map2":
		return future.Map2(k0, kids[1], func(x, y int) int { return b.pure(n, 0, env, x, y) }, ex...)
	case "Zip":
		return future.Map(future.Zip(k0, kids[1]), func(t fp.Tuple2[int, int]) int { return w31(k, t.I1, t.I2) })
	case "Zip3":
		return future.Map(future.Zip3(k0, kids[1], kids[2]), func(t fp.Tuple3[int, int, int]) int { return w31(k, t.I1, t.I2, t.I3) })
	case "Ap":
		tf := future.Map(k0, func(v int) fp.Func1[int, int] {
			return func(x int) int { return b.pure(n, 0, env, v, x) }
		})
		return future.Ap(tf, kids[1], ex...)
	case "ApFunc":
		tf := future.Map(k0, func(v int) fp.Func1[int, int] {
			return func(x int) int { return b.pure(n, 0, env, v, x) }
		})
		return future.ApFunc(tf, func() fp.Future[int] { return b.body(n, 0, env) }, ex...)
	case "With":
		withf := func(a, v int) int { return b.pure(n, 0, env, a, v) }
		if n.Mode == 1 {
			return future.With(withf, k0, ex...)(n.Args[0].val(env))
		}
		return future.FlatMap(k0, future.With(withf, kids[1], ex...))
	case "LiftA":
		return b.genLiftA(n, env, kids)
	case "LiftM":
		return b.genLiftM(n, env, kids)
	case "Flap":
		return b.genFlap(n, env, k0, b.args(n, env))
	case "FlapMap":
		return future.FlapMap(func(x, y int) int { return b.pure(n, 0, env, x, y) }, k0, ex...)(n.Args[0].val(env))
	case "FlatFlapMap":
		return future.FlatFlapMap(func(x, y int) fp.Future[int] { return b.body(n, 0, env, x, y) }, k0, ex...)(n.Args[0].val(env))
	case "Method":
		return b.genMethod(n, env, k0, b.args(n, env))
	case "FlatMethod":
		return b.genFlatMethod(n, env, k0, b.args(n, env))
	case "Compose":
		return b.genCompose(n, env, n.Args[0].val(env))
	case "ComposeOption":
		return future.ComposeOption(func(a int) fp.Option[int] {
			b.call(n, 0, env, nil)
			if n.Mode == 1 {
				return fp.None[int]()
			}
			return fp.Some(w31(k, a))
		}, body0, ex...)(n.Args[0].val(env))
	case "ComposeTry":
		return future.ComposeTry(func(a int) fp.Try[int] {
			b.call(n, 0, env, nil)
			if n.Mode == 1 {
				return fp.Failure[int](errs[userErr(k)])
			}
			return fp.Success(w31(k, a))
		}, body0, ex...)(n.Args[0].val(env))
	case "ComposePure":
		return future.ComposePure(f1, ex...)(n.Args[0].val(env))
	// The list-shaped combinators: the input object (slice / fp.Seq / iterator / list) is
	// owned by the caller, i.e. by the harness, which goes on using it after the call
	// returned when the node carries a tamper script (capture.go). The reference is computed
	// from the node, i.e. from the inputs as they were at the call.
	case "Sequence":
		in := roomy(kids)
		r := future.Sequence(in, ex...)
		b.tamperFutSlice(n, env, own(b, n, in))
		return future.Map(r, func(s []int) int { return w31(k, s...) })
	case "SequenceIterator":
		sh, it := newShared(kids)
		r := future.SequenceIterator(it, ex...)
		sh, it = ownIter(b, n, sh, it)
		b.tamperFutIter(n, env, sh, it)
		return future.Map(r, func(it fp.Iterator[int]) int { return w31(k, it.ToSeq()...) })
	case "Traverse", "TraverseFunc":
		sh, it := newShared(seqOf(n.Args[0].val(env), n.N))
		var r fp.Future[fp.Iterator[int]]
		if n.Fam == "Traverse" {
			r = future.Traverse(it, elemBody, ex...)
		} else {
			r = future.TraverseFunc(elemBody, ex...)(it)
		}
		sh, it = ownIter(b, n, sh, it)
		b.tamperIntIter(n, env, sh, it)
		return future.Map(r, func(it fp.Iterator[int]) int { return w31(k, it.ToSeq()...) })
	case "TraverseSeq", "TraverseSeqFunc":
		elems := fp.Seq[int](roomy(seqOf(n.Args[0].val(env), n.N)))
		var r fp.Future[fp.Seq[int]]
		if n.Fam == "TraverseSeq" {
			r = future.TraverseSeq(elems, elemBody, ex...)
		} else {
			r = future.TraverseSeqFunc(elemBody, ex...)(elems)
		}
		b.tamperInts(n, env, own(b, n, elems), nil)
		return future.Map(r, fold(k))
	case "TraverseSlice", "TraverseSliceFunc":
		elems := roomy(seqOf(n.Args[0].val(env), n.N))
		var r fp.Future[[]int]
		if n.Fam == "TraverseSlice" {
			r = future.TraverseSlice(elems, elemBody, ex...)
		} else {
			r = future.TraverseSliceFunc(elemBody, ex...)(elems)
		}
		b.tamperInts(n, env, own(b, n, elems), nil)
		return future.Map(r, func(s []int) int { return w31(k, s...) })
	case "iterator.FoldFuture", "seq.FoldFuture", "list.FoldFuture":
		fn := func(acc, v int) fp.Future[int] { return b.body(n, 0, env, acc, v) }
		switch n.Fam {
		case "iterator.FoldFuture":
			sh, it := newShared(seqOf(n.Args[0].val(env), n.N))
			r := iterator.FoldFuture(it, k, fn, ex...)
			sh, it = ownIter(b, n, sh, it)
			b.tamperIntIter(n, env, sh, it)
			return r
		case "seq.FoldFuture":
			elems := roomy(seqOf(n.Args[0].val(env), n.N))
			r := seq.FoldFuture(elems, k, fn, ex...)
			b.tamperInts(n, env, own(b, n, elems), nil)
			return r
		}
		elems := roomy(seqOf(n.Args[0].val(env), n.N))
		l := list.FromSlice(elems)
		r := list.FoldFuture(l, k, fn, ex...)
		if b.onClone && n.Cap != 0 {
			elems = roomy(elems)
			l = list.FromSlice(elems)
		}
		b.tamperInts(n, env, elems, l)
		return r
	case "Applicative":
		return b.genApplicative(n, env)
	case "Chain":
		return b.genChain(n, env)
	}
	panic("build: unknown family " + n.Fam)
}
