package main

// Expression trees over int built from the future combinators. A Node denotes one call of
// a library combinator (Op is the exact exported name, Fam the family that selects the call
// site in build.go / zz_arity_gen.go and the rule in ref.go). Every node denotes a
// Future[int]; combinators with other result types (Seq, Tuple, Iterator, Unit, error) are
// followed by a fixed adapter that folds the result into an int with the position-weighted
// function w31, so that argument and element order is visible in the value.
//
//	Kids  : argument futures, built strictly (when the enclosing expression is built)
//	Body  : bodies of user functions returning a future; built when the library invokes the
//	        function, in an environment extended by the function's arguments
//	Args  : plain int arguments (constant or reference to an environment slot)
//	Steps : the method chain of an ApplicativeN / ChainN builder

import (
	"fmt"
	"math/rand/v2"
	"strings"
)

type Plain struct {
	Arg bool `json:"arg,omitempty"` // true: environment slot K (0 = innermost binding)
	K   int  `json:"k"`
}

func (p Plain) val(env []int) int {
	if p.Arg {
		return env[len(env)-1-p.K]
	}
	return p.K
}

func (p Plain) String() string {
	if p.Arg {
		return fmt.Sprintf("$%d", p.K)
	}
	return fmt.Sprint(p.K)
}

type Step struct {
	Kind int    `json:"kind"`
	Name string `json:"name"`
	Kid  *Node  `json:"kid,omitempty"`
	Body *Node  `json:"body,omitempty"`
	P    Plain  `json:"p"`
	Fail bool   `json:"fail,omitempty"`
	K    int    `json:"k"`
}

type Node struct {
	ID     int     `json:"id"`
	Op     string  `json:"op"`
	Fam    string  `json:"fam"`
	N      int     `json:"n,omitempty"`
	K      int     `json:"k"`
	Mode   int     `json:"mode,omitempty"`
	Ex     int     `json:"ex,omitempty"` // 0 default executor, 1 inline, 2 harness queue
	Kids   []*Node `json:"kids,omitempty"`
	Body   []*Node `json:"body,omitempty"`
	Args   []Plain `json:"args,omitempty"`
	Steps  []Step  `json:"steps,omitempty"`
	Cap    int     `json:"tamper_input,omitempty"` // capture scenario: what the harness does to the caller-owned input after the call (cap* bits)
	RefID  int     `json:"ref_id,omitempty"`       // Fam "ref": ID of the node whose future is used a second time
	size   int     // combinator nodes in the subtree (leaves count 0)
	ref    *Node   // Fam "ref": the target node
	origin *Node   // synthetic node of a second combinator call: the node whose input object it re-uses
}

// bits of Node.Cap
const (
	capPoison      = 1 // overwrite the elements of the caller's slice / of the buffer behind the iterator; read the iterator further
	capAppend      = 2 // append to the caller's slice / feed further elements to the iterator
	capSecond      = 4 // use the same input object for a second, different combinator call
	capSecondAfter = 8 // ... after the poisoning instead of before it
)

// listInput reports whether the family takes a slice / fp.Seq / iterator / list of inputs.
func listInput(fam string) bool {
	switch fam {
	case "Sequence", "SequenceIterator", "Traverse", "TraverseSeq", "TraverseSlice", "TraverseFunc", "TraverseSeqFunc", "TraverseSliceFunc",
		"FlatMapTraverseSeq", "FlatMapTraverseSlice", "iterator.FoldFuture", "seq.FoldFuture", "list.FoldFuture":
		return true
	}
	return false
}

// step kinds of the builders
const (
	stApFuture = iota
	stAp
	stApTry
	stApOption
	stApFutureFunc
	stApTryFunc
	stApOptionFunc
	stApFunc
	stFlatMap // Chain only from here
	stMap
	stHListMap
	stHListFlatMap
)

var stepNames = []string{"ApFuture", "Ap", "ApTry", "ApOption", "ApFutureFunc", "ApTryFunc", "ApOptionFunc", "ApFunc", "FlatMap", "Map", "HListMap", "HListFlatMap"}

// ---- shapes ---------------------------------------------------------------------------

// entry is one (family, arity, mode) combination = one exported library function.
type entry struct {
	Fam  string
	N    int
	Mode int
	Op   string
	Leaf bool // no argument future, no body: may be used where the budget is exhausted
}

// shape gives, for an entry, the number of strict kids, the environment extension of each
// body and the number of plain args.
func shape(e entry) (kids int, bodies []int, args int) {
	n := e.N
	switch e.Fam {
	case "src", "Successful", "Failed", "arg", "FromTry", "FromOption", "Apply", "Apply2", "srcidx", "ref", "expect":
		return 0, nil, 0
	case "Func", "Unit":
		return 0, nil, n
	case "Map", "Future.Map", "Lift", "Replace", "Transform", "Future.Recover", "Future.RecoverCase", "Future.Failed", "Future.OnSuccess", "Future.Foreach", "MapSeqLift", "MapSliceLift":
		return 1, nil, 0
	case "FlatMap", "Future.FlatMap", "Future.RecoverWith", "Future.RecoverCaseWith":
		return 1, []int{1}, 0
	case "Flatten":
		if e.Mode == 1 {
			return 1, nil, 0
		}
		return 1, []int{1}, 0
	case "TransformWith":
		return 1, []int{1, 1}, 0
	case "Future.Or":
		return 1, []int{0}, 0
	case "Future.OrFuture", "Map2", "Zip", "Ap":
		return 2, nil, 0
	case "Zip3":
		return 3, nil, 0
	case "ApFunc":
		return 1, []int{0}, 0
	case "With":
		if e.Mode == 1 {
			return 1, nil, 1
		}
		return 2, nil, 0
	case "LiftA":
		return n, nil, 0
	case "LiftM":
		return n, []int{n}, 0
	case "Flap":
		return 1, nil, n
	case "FlapMap":
		return 1, nil, 1
	case "FlatFlapMap":
		return 1, []int{2}, 1
	case "Method":
		return 1, nil, methodExtra(n)
	case "FlatMethod":
		return 1, []int{1 + methodExtra(n)}, methodExtra(n)
	case "Compose":
		b := make([]int, n)
		for i := range b {
			b[i] = 1
		}
		return 0, b, 1
	case "ComposeOption", "ComposeTry":
		return 0, []int{1}, 1
	case "ComposePure":
		return 0, nil, 1
	case "Sequence", "SequenceIterator":
		return n, nil, 0
	case "Traverse", "TraverseSeq", "TraverseSlice", "TraverseFunc", "TraverseSeqFunc", "TraverseSliceFunc":
		return 0, []int{1}, 1
	case "FlatMapTraverseSeq", "FlatMapTraverseSlice":
		return 1, []int{1}, 0
	case "iterator.FoldFuture", "seq.FoldFuture", "list.FoldFuture":
		return 0, []int{2}, 1
	case "Applicative", "Chain":
		return 0, nil, 0
	}
	panic("shape: unknown family " + e.Fam)
}

// Method1(ta, f(a,b))(b), Method2(ta, f(a,b,c))(b,c) are hand written; the generated
// MethodN (N>=3) takes an N-ary function and N-1 further arguments.
func methodExtra(n int) int {
	if n <= 2 {
		return n
	}
	return n - 1
}

func nameN(base string, n int, bare int) string {
	if n == bare {
		return base
	}
	return fmt.Sprintf("%s%d", base, n)
}

var entries []entry
var leafEntries []entry

func init() {
	add := func(fam string, n, mode int, op string) {
		e := entry{Fam: fam, N: n, Mode: mode, Op: op}
		k, b, _ := shape(e)
		e.Leaf = k == 0 && len(b) == 0 && fam != "Applicative" && fam != "Chain" && fam != "Sequence" && fam != "SequenceIterator"
		entries = append(entries, e)
	}
	for _, f := range []string{"Map", "Lift", "Replace", "FlatMap", "Transform", "TransformWith", "Map2", "Zip", "Zip3", "Ap", "ApFunc", "FlapMap", "FlatFlapMap", "ComposeOption", "ComposeTry", "ComposePure", "SequenceIterator", "Traverse", "TraverseSeq", "TraverseSlice", "TraverseFunc", "TraverseSeqFunc", "TraverseSliceFunc", "FlatMapTraverseSeq", "FlatMapTraverseSlice", "Apply", "Apply2"} {
		add(f, 0, 0, "future."+f)
	}
	add("Flatten", 0, 0, "future.Flatten")
	add("Flatten", 0, 1, "future.Flatten")
	add("With", 0, 0, "future.With")
	add("With", 0, 1, "future.With")
	add("FromTry", 0, 0, "future.FromTry")
	add("FromOption", 0, 0, "future.FromOption")
	add("Sequence", 0, 0, "future.Sequence")
	add("MapSeqLift", 2, 0, "future.MapSeqLift")
	add("MapSliceLift", 2, 0, "future.MapSliceLift")
	for _, f := range []string{"Map", "FlatMap", "Recover", "RecoverWith", "RecoverCase", "RecoverCaseWith", "Or", "OrFuture", "Failed", "OnSuccess", "Foreach"} {
		add("Future."+f, 0, 0, "Future."+f)
	}
	for _, f := range []string{"iterator.FoldFuture", "seq.FoldFuture", "list.FoldFuture"} {
		add(f, 0, 0, f)
	}
	for n := 2; n <= 9; n++ {
		add("LiftA", n, 0, fmt.Sprintf("future.LiftA%d", n))
	}
	for n := 1; n <= 9; n++ {
		add("LiftM", n, 0, nameN("future.LiftM", n, 1))
		add("Flap", n, 0, nameN("future.Flap", n, 1))
		add("Method", n, 0, fmt.Sprintf("future.Method%d", n))
		add("FlatMethod", n, 0, fmt.Sprintf("future.FlatMethod%d", n))
		add("Unit", n, 0, fmt.Sprintf("future.Unit%d", n))
		add("Applicative", n, 0, fmt.Sprintf("future.Applicative%d", n))
		add("Chain", n, 0, fmt.Sprintf("future.Chain%d", n))
	}
	for n := 0; n <= 9; n++ {
		add("Func", n, 0, fmt.Sprintf("future.Func%d", n))
	}
	add("Compose", 2, 0, "future.Compose")
	add("Compose", 2, 1, "future.Compose2")
	for n := 3; n <= 5; n++ {
		add("Compose", n, 0, fmt.Sprintf("future.Compose%d", n))
	}
	for _, e := range entries {
		if e.Leaf {
			leafEntries = append(leafEntries, e)
		}
	}
}

// hitNames lists every counter the floors require.
func hitNames() []string {
	seen := map[string]bool{}
	var out []string
	addn := func(s string) {
		if !seen[s] {
			seen[s] = true
			out = append(out, s)
		}
	}
	for _, e := range entries {
		addn(e.Op)
	}
	addn("future.Successful")
	addn("future.Failed")
	addn("Future.OnFailure")
	addn("Future.OnComplete")
	for k := 0; k <= stApFunc; k++ {
		addn("Applicative." + stepNames[k])
	}
	for k := range stepNames {
		addn("Chain." + stepNames[k])
	}
	return out
}

// ---- generation -----------------------------------------------------------------------

type Tree struct {
	Root   *Node  `json:"root"`
	NSrc   int    `json:"nsrc"`
	Text   string `json:"text"`
	Size   int    `json:"size"`
	Kind   string `json:"kind,omitempty"` // "" classic, wide, capture, dag
	Wide   int    `json:"wide_elements,omitempty"`
	HasCap bool   `json:"has_tampered_input,omitempty"`
	NRef   int    `json:"shared_uses,omitempty"`
}

type availNode struct {
	n     *Node
	depth int
}

type gen struct {
	r      *rand.Rand
	nsrc   int
	nextID int
	nused  int
	cap    bool        // capture trees: every list-input node gets a tamper script, 0..8 elements
	dag    bool        // dag trees: operands may be second uses of an earlier node's future
	avail  []availNode // dag: nodes whose future exists when the node being generated is built
	nref   int
	ncap   int
}

func genTree(r *rand.Rand, root entry, maxSize int) *Tree { return genTreeKind(r, root, maxSize, "") }

func genTreeKind(r *rand.Rand, root entry, maxSize int, kind string) *Tree {
	g := &gen{r: r, nsrc: 1 + r.IntN(4), cap: kind == "capture", dag: kind == "dag"}
	budget := 1 + r.IntN(maxSize)
	if budget < 2 && r.IntN(4) != 0 {
		budget = 2
	}
	n := g.fromEntry(root, budget, 0)
	// renumber the sources actually used to 0..m-1 in order of first use
	remap := map[int]int{}
	var walk func(x *Node)
	walk = func(x *Node) {
		if x == nil {
			return
		}
		if x.Fam == "src" {
			if _, ok := remap[x.K]; !ok {
				remap[x.K] = len(remap)
			}
			x.K = remap[x.K]
			x.Op = fmt.Sprintf("src%d", x.K)
		}
		for _, k := range x.Kids {
			walk(k)
		}
		for _, s := range x.Steps {
			walk(s.Kid)
			walk(s.Body)
		}
		for _, k := range x.Body {
			walk(k)
		}
	}
	walk(n)
	t := &Tree{Root: n, NSrc: len(remap), Kind: kind, HasCap: g.ncap > 0, NRef: g.nref}
	t.Text = n.String()
	t.Size = n.size
	return t
}

func (g *gen) plain(depth int) Plain {
	if depth > 0 && g.r.IntN(3) != 0 {
		return Plain{Arg: true, K: g.r.IntN(depth)}
	}
	return Plain{K: 1 + g.r.IntN(9)}
}

// refLeaf makes a second use of the future of an earlier node of the same strict region (or
// of an enclosing one): the derived future becomes an operand at two positions.
func (g *gen) refLeaf(depth int) *Node {
	a := g.avail[g.r.IntN(len(g.avail))]
	n := &Node{ID: g.nextID, Fam: "ref", Op: a.n.Op, K: depth - a.depth, RefID: a.n.ID, ref: a.n}
	g.nextID++
	g.nref++
	return n
}

func (g *gen) leaf(depth int) *Node {
	if g.dag && len(g.avail) > 0 && g.r.IntN(100) < 40 {
		return g.refLeaf(depth)
	}
	n := &Node{ID: g.nextID}
	g.nextID++
	x := g.r.IntN(100)
	switch {
	case x < 62 || (depth == 0 && x < 72):
		// prefer a source not used so far, so that trees really depend on several sources
		n.Fam, n.Op = "src", "src"
		if g.nused < g.nsrc && (g.nused == 0 || g.r.IntN(4) != 0) {
			n.K = g.nused
			g.nused++
		} else {
			n.K = g.r.IntN(g.nused)
		}
	case x < 72:
		n.Fam, n.K, n.Op = "arg", g.r.IntN(depth), "arg"
	case x < 79:
		n.Fam, n.K, n.Op = "Successful", 1+g.r.IntN(9), "future.Successful"
	case x < 86:
		n.Fam, n.K, n.Op = "Failed", 4+g.r.IntN(4), "future.Failed"
	default:
		e := leafEntries[g.r.IntN(len(leafEntries))]
		g.nextID--
		l := g.fromEntry(e, 1, depth)
		l.size = 0
		return l
	}
	return n
}

// split distributes budget over k parts.
func (g *gen) split(budget, k int) []int {
	out := make([]int, k)
	for ; budget > 0 && k > 0; budget-- {
		out[g.r.IntN(k)]++
	}
	return out
}

func (g *gen) node(budget, depth int) *Node {
	if budget <= 0 {
		return g.leaf(depth)
	}
	if g.dag && len(g.avail) > 0 && g.r.IntN(100) < 12 {
		return g.refLeaf(depth)
	}
	// candidates that fit: any entry; arity families are clipped by fromEntry
	e := entries[g.r.IntN(len(entries))]
	return g.fromEntry(e, budget, depth)
}

func (g *gen) fromEntry(e entry, budget, depth int) *Node {
	n := &Node{ID: g.nextID, Op: e.Op, Fam: e.Fam, N: e.N, Mode: e.Mode, K: 1 + g.r.IntN(9)}
	g.nextID++
	switch g.r.IntN(5) {
	case 0:
		n.Ex = 1
	case 1:
		n.Ex = 2
	}
	switch e.Fam {
	case "Sequence", "SequenceIterator":
		n.N = g.r.IntN(5)
	case "Traverse", "TraverseSeq", "TraverseSlice", "TraverseFunc", "TraverseSeqFunc", "TraverseSliceFunc", "FlatMapTraverseSeq", "FlatMapTraverseSlice", "iterator.FoldFuture", "seq.FoldFuture", "list.FoldFuture":
		n.N = g.r.IntN(4)
	case "MapSeqLift", "MapSliceLift":
		n.N = g.r.IntN(4)
	case "Transform", "Apply2", "Func", "Unit":
		n.Mode = g.r.IntN(3)
	case "Apply", "FromTry", "FromOption", "ComposeOption", "ComposeTry":
		n.Mode = g.r.IntN(2)
	}
	if g.cap && listInput(e.Fam) {
		n.N = g.r.IntN(9)
		n.Cap = 1 + g.r.IntN(15)
		if n.Cap&7 == 0 {
			n.Cap |= capPoison | capAppend
		}
		g.ncap++
	}
	ee := e
	ee.N, ee.Mode = n.N, n.Mode
	kids, bodies, args := shape(ee)
	rest := budget - 1
	if e.Fam == "Applicative" || e.Fam == "Chain" {
		g.steps(n, rest, depth)
	} else {
		parts := g.split(rest, kids+len(bodies))
		for i := 0; i < kids; i++ {
			n.Kids = append(n.Kids, g.node(parts[i], depth))
		}
		for j, ext := range bodies {
			// nodes generated inside a body are built lazily (or never): not available outside
			mark := len(g.avail)
			n.Body = append(n.Body, g.node(parts[kids+j], depth+ext))
			g.avail = g.avail[:mark]
		}
		for i := 0; i < args; i++ {
			n.Args = append(n.Args, g.plain(depth))
		}
	}
	n.size = 1
	for _, k := range n.Kids {
		n.size += k.size
	}
	for _, k := range n.Body {
		n.size += k.size
	}
	for _, s := range n.Steps {
		if s.Kid != nil {
			n.size += s.Kid.size
		}
		if s.Body != nil {
			n.size += s.Body.size
		}
	}
	if g.dag && (n.size > 0 || g.r.IntN(3) == 0) {
		g.avail = append(g.avail, availNode{n, depth})
	}
	return n
}

func (g *gen) steps(n *Node, rest, depth int) {
	kinds := stApFunc + 1
	if n.Fam == "Chain" {
		kinds = len(stepNames)
	}
	parts := g.split(rest, n.N)
	for i := 0; i < n.N; i++ {
		st := Step{Kind: g.r.IntN(kinds), K: 1 + g.r.IntN(9)}
		// prefer future-carrying steps: they are the ones whose completion order matters
		if g.r.IntN(3) == 0 {
			st.Kind = stApFuture
		}
		st.Name = stepNames[st.Kind]
		st.P = g.plain(depth)
		switch st.Kind {
		case stApFuture:
			st.Kid = g.node(parts[i], depth)
		case stApTry, stApOption, stApTryFunc, stApOptionFunc:
			st.Fail = g.r.IntN(4) == 0
		case stApFutureFunc:
			mark := len(g.avail)
			st.Body = g.node(parts[i], depth)
			g.avail = g.avail[:mark]
		case stFlatMap:
			ext := 1
			if i == 0 {
				ext = 0
			}
			mark := len(g.avail)
			st.Body = g.node(parts[i], depth+ext)
			g.avail = g.avail[:mark]
		case stHListFlatMap:
			mark := len(g.avail)
			st.Body = g.node(parts[i], depth+i)
			g.avail = g.avail[:mark]
		}
		n.Steps = append(n.Steps, st)
	}
}

// ---- rendering ------------------------------------------------------------------------

func (n *Node) String() string {
	var b strings.Builder
	n.render(&b)
	return b.String()
}

var exNames = []string{"", "inline", "queue"}

func (n *Node) render(b *strings.Builder) {
	switch n.Fam {
	case "src":
		fmt.Fprintf(b, "src%d", n.K)
		return
	case "arg":
		fmt.Fprintf(b, "Successful($%d)", n.K)
		return
	case "Successful":
		fmt.Fprintf(b, "Successful(%d)", n.K)
		return
	case "Failed":
		fmt.Fprintf(b, "Failed(e%d)", n.K)
		return
	case "srcidx":
		fmt.Fprintf(b, "src[$%d%%%d]", n.K, n.N)
		return
	case "ref":
		fmt.Fprintf(b, "@#%d", n.RefID)
		return
	case "expect":
		fmt.Fprintf(b, "%s#%d[second call of the harness on the input object of #%d, immediate futures only]", n.Op, n.ID, n.origin.ID)
		return
	}
	b.WriteString(n.Op)
	fmt.Fprintf(b, "#%d[k=%d", n.ID, n.K)
	if n.Mode != 0 {
		fmt.Fprintf(b, ",mode=%d", n.Mode)
	}
	if n.Ex != 0 {
		fmt.Fprintf(b, ",ex=%s", exNames[n.Ex])
	}
	if n.Cap != 0 {
		fmt.Fprintf(b, ",tamper=%d", n.Cap)
	}
	if n.origin != nil {
		fmt.Fprintf(b, ",second call on the input object of #%d", n.origin.ID)
	}
	switch n.Fam {
	case "Traverse", "TraverseSeq", "TraverseSlice", "TraverseFunc", "TraverseSeqFunc", "TraverseSliceFunc", "FlatMapTraverseSeq", "FlatMapTraverseSlice", "iterator.FoldFuture", "seq.FoldFuture", "list.FoldFuture", "MapSeqLift", "MapSliceLift":
		fmt.Fprintf(b, ",elems=%d", n.N)
	}
	b.WriteString("](")
	sep := ""
	for _, k := range n.Kids {
		b.WriteString(sep)
		k.render(b)
		sep = ", "
	}
	for _, a := range n.Args {
		b.WriteString(sep)
		b.WriteString(a.String())
		sep = ", "
	}
	for _, k := range n.Body {
		b.WriteString(sep)
		b.WriteString("λ{")
		k.render(b)
		b.WriteString("}")
		sep = ", "
	}
	b.WriteString(")")
	for _, s := range n.Steps {
		fmt.Fprintf(b, ".%s(", s.Name)
		switch s.Kind {
		case stApFuture:
			s.Kid.render(b)
		case stAp, stApFunc:
			b.WriteString(s.P.String())
		case stApTry, stApOption, stApTryFunc, stApOptionFunc:
			if s.Fail {
				b.WriteString("fail")
			} else {
				b.WriteString(s.P.String())
			}
		case stApFutureFunc, stFlatMap, stHListFlatMap:
			b.WriteString("λ{")
			s.Body.render(b)
			b.WriteString("}")
		case stMap, stHListMap:
			fmt.Fprintf(b, "k=%d", s.K)
		}
		b.WriteString(")")
	}
}
