// Second APIs that write through values (C04, second-API histories).
//
// The classic operation table only calls the library's own combinators. A value of the
// library can also be reached through OTHER packages' entry points that call back into
// methods of the value: encoding/json (Option.UnmarshalJSON / MarshalJSON), fmt (String()),
// package sort / slices with an fp.Ord instance as comparison, encoding/gob, and the
// reflect-free type-class instances (clone, show, eq, hash). The operations below go through
// those entry points — the writing ones on COPIES of live values (o2 := o1; a struct copied
// from a template) whose payloads still share storage with the original and with other live
// values. The decoded value is new; every OTHER live value, including the one the copy was
// taken from, must be unchanged (oracle of the history: snapshot comparison of every live
// value after the step).
//
// What the unchanged library does: Option.UnmarshalJSON decodes into a fresh temporary T and
// stores Some(t), so nothing reachable from the previous content of the target is written.
// encoding/json ITSELF re-uses what it finds in a target (it refills a slice in its backing
// array, writes into an existing map, decodes through an existing pointer): the harness
// therefore never lets a PLAIN slice / map / pointer of a copy share storage with a live
// value — sharing exists only below an fp.Option, where the library decides what is written.
// A copy of a Seq[Option[..]] is an element-wise copy (new backing array, the Options in it
// are copies), a copy of a map[string]Option[..] is a new map; gob decodes into zero values
// only (fp.Tuple2 has no decoding method of its own, gob's re-use of a target is not the
// library's doing).
package main

import (
	"bytes"
	"encoding/gob"
	"encoding/json"
	"fmt"
	"maps"
	"slices"
	"sort"
	"strconv"
	"strings"

	"github.com/csgura/fp"
	"github.com/csgura/fp/clone"
	"github.com/csgura/fp/eq"
	"github.com/csgura/fp/hash"
	"github.com/csgura/fp/lazy"
	"github.com/csgura/fp/ord"
	"github.com/csgura/fp/show"
)

type boxT struct {
	N  int   `json:"n"`
	Xs []int `json:"xs"`
}

type nestT struct {
	O fp.Option[[]int] `json:"o"`
}

type docT struct {
	Name string                            `json:"name"`
	N    int                               `json:"n"`
	Nums fp.Option[fp.Seq[int]]            `json:"nums"`
	Tags fp.Option[[]string]               `json:"tags"`
	M    fp.Option[map[string]int]         `json:"m"`
	P    fp.Option[*boxT]                  `json:"p"`
	In   fp.Option[boxT]                   `json:"in"`
	Nest nestT                             `json:"nest"`
	L    fp.Seq[fp.Option[fp.Seq[int]]]    `json:"l"`
	G    map[string]fp.Option[fp.Seq[int]] `json:"g"`
}

type (
	OptMap   = fp.Option[map[string]int]
	OptPtr   = fp.Option[*boxT]
	OptSeqs  = fp.Seq[fp.Option[fp.Seq[int]]]
	OptGoMap = map[string]fp.Option[fp.Seq[int]]
)

// copyDoc is "doc := template": a struct copy. The two plain containers of the struct are
// copied one level deep (see the file comment); the Options everywhere are plain copies and
// keep sharing their payloads with the original.
func copyDoc(d docT) docT {
	c := d
	if d.L != nil {
		c.L = make(OptSeqs, len(d.L), cap(d.L))
		copy(c.L, d.L)
	}
	if d.G != nil {
		c.G = maps.Clone(d.G)
	}
	return c
}

func extOp(name string, w int, in []kind, run func(h *hist, in []*entry)) {
	def(name, w, in, run)
	opByName[name].ext = true
}

// ---- PRNG JSON documents ----------------------------------------------------------------

func (h *hist) jsInts() string {
	n := h.n(7)
	if h.n(6) == 0 {
		n = 8 + h.n(40) // longer than any capacity around
	}
	var b strings.Builder
	b.WriteString("[")
	for i := 0; i < n; i++ {
		if i > 0 {
			b.WriteString(",")
		}
		b.WriteString(strconv.Itoa(h.elem()))
	}
	b.WriteString("]")
	return b.String()
}

func (h *hist) jsKey() string { return string(rune('a' + h.n(5))) }

func (h *hist) jsStrMap() string {
	n := h.n(4)
	var b strings.Builder
	b.WriteString("{")
	for i := 0; i < n; i++ {
		if i > 0 {
			b.WriteString(",")
		}
		fmt.Fprintf(&b, "%q:%d", h.jsKey(), h.elem())
	}
	b.WriteString("}")
	return b.String()
}

func (h *hist) jsBox() string {
	switch h.n(4) {
	case 0:
		return fmt.Sprintf(`{"n":%d}`, h.elem())
	case 1:
		return fmt.Sprintf(`{"xs":%s}`, h.jsInts())
	}
	return fmt.Sprintf(`{"n":%d,"xs":%s}`, h.elem(), h.jsInts())
}

// jsOr: mostly the given document, sometimes null, rarely a document of the wrong JSON type
// (Unmarshal then fails and the target keeps whatever the decoder left in it — it still is a
// new value and everything else must be untouched).
func (h *hist) jsOr(doc string) string {
	switch h.n(12) {
	case 0, 1:
		return "null"
	case 2:
		return `"oops"`
	}
	return doc
}

func (h *hist) jsOptSeqs() string {
	n := h.n(5)
	parts := make([]string, n)
	for i := range parts {
		parts[i] = h.jsOr(h.jsInts())
	}
	return "[" + strings.Join(parts, ",") + "]"
}

func (h *hist) jsOptGoMap() string {
	n := h.n(4)
	parts := make([]string, n)
	for i := range parts {
		parts[i] = fmt.Sprintf("%q:%s", h.jsKey(), h.jsOr(h.jsInts()))
	}
	return "{" + strings.Join(parts, ",") + "}"
}

func (h *hist) jsDoc() string {
	var parts []string
	add := func(name string, gen func() string) {
		if h.n(3) > 0 {
			parts = append(parts, fmt.Sprintf("%q:%s", name, gen()))
		}
	}
	add("name", func() string { return fmt.Sprintf("%q", "doc"+strconv.Itoa(h.n(100))) })
	add("n", func() string { return strconv.Itoa(h.elem()) })
	add("nums", func() string { return h.jsOr(h.jsInts()) })
	add("tags", func() string {
		n := h.n(5)
		t := make([]string, n)
		for i := range t {
			t[i] = fmt.Sprintf("%q", "t"+strconv.Itoa(h.n(10)))
		}
		return h.jsOr("[" + strings.Join(t, ",") + "]")
	})
	add("m", func() string { return h.jsOr(h.jsStrMap()) })
	add("p", func() string { return h.jsOr(h.jsBox()) })
	add("in", func() string { return h.jsOr(h.jsBox()) })
	add("nest", func() string { return fmt.Sprintf(`{"o":%s}`, h.jsOr(h.jsInts())) })
	add("l", h.jsOptSeqs)
	add("g", h.jsOptGoMap)
	return "{" + strings.Join(parts, ",") + "}"
}

// unmarshal runs json.Unmarshal(doc, target) and records the outcome in the op text.
func (h *hist) unmarshal(doc string, target any) {
	h.arg("%s", doc)
	if err := json.Unmarshal([]byte(doc), target); err != nil {
		h.arg("-> error")
		h.w.Add("secondapi.json_unmarshal_errors", 1)
	}
	h.w.Add("secondapi.json_unmarshal_calls", 1)
}

func (h *hist) anyOf(k kind) (*entry, bool) {
	c := h.byKind(k)
	if len(c) == 0 {
		return nil, false
	}
	return c[h.n(len(c))], true
}

// definedPayloadShared counts decodes whose target copy was Some(x) with x reachable from
// another live value (the situation the operation is about), measured from the snapshots.
func (h *hist) countSharedTarget(e *entry, defined bool) {
	if !defined {
		h.w.Add("secondapi.decode_into_copy_of_None", 1)
		return
	}
	h.w.Add("secondapi.decode_into_copy_of_Some", 1)
	if e.last != nil && len(e.last.regions) > 0 {
		h.w.Add("secondapi.decode_into_copy_sharing_storage_with_live_value", 1)
		h.shared = true
	}
}

var (
	cloneSeqInt = clone.Seq(clone.Given[int]())
	cloneBox    = clone.New(func(b boxT) boxT { return boxT{N: b.N, Xs: clone.Slice(clone.Given[int]()).Clone(b.Xs)} })
	ordSeqInt   = ord.Seq(ord.Given[int]())
	ordOptSeq   = ord.Option(ordSeqInt)
	ordPair     = ord.Tuple2(ord.Given[int](), ord.Given[int]())
	showSeqInt  = show.Seq(show.Int[int]())
	eqSeqInt    = eq.Seq(eq.Given[int]())
	hashSeqInt  = hash.Seq(hash.Number[int]())
)

type byOrd[T any] struct {
	s []T
	o fp.Ord[T]
}

func (b byOrd[T]) Len() int           { return len(b.s) }
func (b byOrd[T]) Less(i, j int) bool { return b.o.Less(b.s[i], b.s[j]) }
func (b byOrd[T]) Swap(i, j int)      { b.s[i], b.s[j] = b.s[j], b.s[i] }

func init() {
	// ---- creation: Options with map / pointer payloads, structs holding Options --------------
	extOp("harness.new-optmap", 3, nil, func(h *hist, _ []*entry) {
		m := map[string]int{}
		for i, n := 0, h.n(5); i < n; i++ {
			m[h.jsKey()] = h.elem()
		}
		h.arg("%v", m)
		// two Options over ONE Go map, and an empty one
		h.res(kOptMap, fp.Some(m))
		h.res(kOptMap, fp.Some(m))
		h.res(kOptMap, fp.None[map[string]int]())
	})
	extOp("harness.new-optptr", 3, []kind{kSeq}, func(h *hist, in []*entry) {
		// the pointee holds a live slice; two Options over ONE pointer
		p := &boxT{N: h.elem(), Xs: []int(in[0].v.(Seq))}
		h.arg("n=%d", p.N)
		h.res(kOptPtr, fp.Some(p))
		h.res(kOptPtr, fp.Some(p))
		if h.n(2) == 0 {
			h.res(kOptPtr, fp.Some[*boxT](nil))
		} else {
			h.res(kOptPtr, fp.None[*boxT]())
		}
	})
	extOp("harness.new-optseqs", 3, []kind{kSeq, kOpt}, func(h *hist, in []*entry) {
		s, o := in[0].v.(Seq), in[1].v.(Opt)
		n := h.takeN(len(s))
		spare := h.n(3)
		l := make(OptSeqs, 0, 4+spare)
		l = append(l, o, fp.Some(s), fp.None[Seq](), fp.Some(s.Take(n)))
		h.res(kOptSeqs, l)
		h.res(kOptGoMap, OptGoMap{"a": o, "b": fp.Some(s), "c": fp.None[Seq]()})
	})
	extOp("harness.new-doc", 4, []kind{kSeq, kOpt}, func(h *hist, in []*entry) {
		s, o := in[0].v.(Seq), in[1].v.(Opt)
		tags := make([]string, 2+h.n(3), 6)
		for i := range tags {
			tags[i] = "t" + strconv.Itoa(h.n(10))
		}
		d := docT{Name: "template", N: h.elem(), Nums: o, Tags: fp.Some(tags)}
		if h.n(3) == 0 {
			d.Nums = fp.Some(s)
		}
		if e, ok := h.anyOf(kOptMap); ok && h.n(4) > 0 {
			d.M = e.v.(OptMap)
			h.cur.ins = append(h.cur.ins, e.id)
		} else {
			d.M = fp.Some(map[string]int{"a": h.elem()})
		}
		if e, ok := h.anyOf(kOptPtr); ok && h.n(4) > 0 {
			d.P = e.v.(OptPtr)
			h.cur.ins = append(h.cur.ins, e.id)
		} else {
			d.P = fp.Some(&boxT{N: 1, Xs: []int(s)})
		}
		n := h.takeN(len(s))
		d.In = fp.Some(boxT{N: 2, Xs: []int(s.Take(n))})
		d.Nest.O = fp.Some([]int(s))
		d.L = OptSeqs{o, fp.Some(s), fp.None[Seq]()}
		d.G = OptGoMap{"a": o, "b": fp.Some(s)}
		h.res(kDoc, d)
		// the template is used twice: a plain copy is a second live value over the same payloads
		h.res(kDoc, copyDoc(d))
	})

	// ---- encoding/json: Unmarshal into COPIES of live values ------------------------------------
	extOp("json.Unmarshal(copy of Option[Seq])", 8, []kind{kOpt}, func(h *hist, in []*entry) {
		o2 := in[0].v.(Opt) // Option is a value: o2 is an independent copy
		h.countSharedTarget(in[0], o2.IsDefined())
		h.unmarshal(h.jsOr(h.jsInts()), &o2)
		h.res(kOpt, o2)
	})
	extOp("json.Unmarshal(copy of Option[map])", 6, []kind{kOptMap}, func(h *hist, in []*entry) {
		o2 := in[0].v.(OptMap)
		h.countSharedTarget(in[0], o2.IsDefined())
		h.unmarshal(h.jsOr(h.jsStrMap()), &o2)
		h.res(kOptMap, o2)
	})
	extOp("json.Unmarshal(copy of Option[*struct])", 6, []kind{kOptPtr}, func(h *hist, in []*entry) {
		o2 := in[0].v.(OptPtr)
		h.countSharedTarget(in[0], o2.IsDefined())
		h.unmarshal(h.jsOr(h.jsBox()), &o2)
		h.res(kOptPtr, o2)
	})
	extOp("json.Unmarshal(copy of struct holding Options)", 8, []kind{kDoc}, func(h *hist, in []*entry) {
		d2 := copyDoc(in[0].v.(docT))
		h.countSharedTarget(in[0], true)
		h.unmarshal(h.jsDoc(), &d2)
		h.res(kDoc, d2)
	})
	extOp("json.Unmarshal(copy of Seq[Option[Seq]])", 6, []kind{kOptSeqs}, func(h *hist, in []*entry) {
		l := in[0].v.(OptSeqs)
		l2 := make(OptSeqs, len(l), cap(l)) // element-wise copy: the Options in it are copies
		copy(l2, l)
		h.countSharedTarget(in[0], len(l) > 0)
		h.unmarshal(h.jsOptSeqs(), &l2)
		h.res(kOptSeqs, l2)
	})
	extOp("json.Unmarshal(copy of map[string]Option[Seq])", 4, []kind{kOptGoMap}, func(h *hist, in []*entry) {
		g2 := maps.Clone(in[0].v.(OptGoMap))
		h.countSharedTarget(in[0], len(g2) > 0)
		h.unmarshal(h.jsOptGoMap(), &g2)
		h.res(kOptGoMap, g2)
	})
	// round trip: Marshal a live value, decode the bytes into a zero value
	extOp("json.Marshal+Unmarshal(round trip)", 4, nil, func(h *hist, _ []*entry) {
		ks := []kind{kOpt, kOptMap, kOptPtr, kDoc, kOptSeqs, kOptGoMap, kSeq, kSeqSeq}
		e, ok := h.anyOf(ks[h.n(len(ks))])
		if !ok {
			return
		}
		h.cur.ins = append(h.cur.ins, e.id)
		b, err := json.Marshal(e.v)
		if err != nil {
			h.arg("marshal error")
			return
		}
		h.w.Add("secondapi.json_marshal_calls", 1)
		switch e.kind {
		case kOpt:
			var z Opt
			h.unmarshal(string(b), &z)
			h.res(kOpt, z)
		case kOptMap:
			var z OptMap
			h.unmarshal(string(b), &z)
			h.res(kOptMap, z)
		case kOptPtr:
			var z OptPtr
			h.unmarshal(string(b), &z)
			h.res(kOptPtr, z)
		case kDoc:
			var z docT
			h.unmarshal(string(b), &z)
			h.res(kDoc, z)
		case kOptSeqs:
			var z OptSeqs
			h.unmarshal(string(b), &z)
			h.res(kOptSeqs, z)
		case kOptGoMap:
			var z OptGoMap
			h.unmarshal(string(b), &z)
			h.res(kOptGoMap, z)
		case kSeq:
			var z Seq
			h.unmarshal(string(b), &z)
			h.res(kSeq, z)
		case kSeqSeq:
			var z SeqSeq
			h.unmarshal(string(b), &z)
			h.res(kSeqSeq, z)
		}
	})

	// ---- fmt / String() / show instances: read-only on every kind of live value -----------------
	extOp("fmt.Sprint/String()/show", 4, nil, func(h *hist, _ []*entry) {
		var cands []*entry
		for _, e := range h.pool {
			if e.kind != kMapB && e.kind != kSetB {
				cands = append(cands, e)
			}
		}
		if len(cands) == 0 {
			return
		}
		for i, n := 0, 1+h.n(3); i < n; i++ {
			e := cands[h.n(len(cands))]
			h.cur.ins = append(h.cur.ins, e.id)
			_ = fmt.Sprint(e.v)
			_ = fmt.Sprintf("%v|%+v", e.v, e.v)
			if st, ok := e.v.(fmt.Stringer); ok {
				_ = st.String()
			}
			switch v := e.v.(type) {
			case Seq:
				_ = showSeqInt.Show(v)
				_ = v.MakeString("-")
			case Opt:
				_ = show.Option(showSeqInt).Show(v)
			case GoMap:
				_ = show.GoMap(show.Int[int](), show.Int[int]()).Show(v)
			case FMap:
				if v.Base != nil {
					_ = show.Map(show.Int[int](), show.Int[int]()).Show(v)
				}
			case FSet:
				_ = show.Set(show.Int[int]()).Show(v)
			case SeqSeq:
				_ = show.Seq(showSeqInt).Show(v)
			case OptSeqs:
				_ = show.Seq(show.Option(showSeqInt)).Show(v)
			}
		}
	})

	// ---- clone instances on the new shapes --------------------------------------------------------
	extOp("clone(Option[map]/Option[*struct]/Seq[Option[Seq]])", 3, nil, func(h *hist, _ []*entry) {
		if e, ok := h.anyOf(kOptMap); ok {
			h.cur.ins = append(h.cur.ins, e.id)
			h.res(kOptMap, clone.Option(clone.GoMap(clone.Given[string](), clone.Given[int]())).Clone(e.v.(OptMap)))
		}
		if e, ok := h.anyOf(kOptPtr); ok {
			h.cur.ins = append(h.cur.ins, e.id)
			h.res(kOptPtr, clone.Option(clone.Ptr(lazy.Done(cloneBox))).Clone(e.v.(OptPtr)))
		}
		if e, ok := h.anyOf(kOptSeqs); ok {
			h.cur.ins = append(h.cur.ins, e.id)
			h.res(kOptSeqs, clone.Seq(clone.Option(cloneSeqInt)).Clone(e.v.(OptSeqs)))
		}
		if e, ok := h.anyOf(kOptGoMap); ok {
			h.cur.ins = append(h.cur.ins, e.id)
			h.res(kOptGoMap, clone.GoMap(clone.Given[string](), clone.Option(cloneSeqInt)).Clone(e.v.(OptGoMap)))
		}
	})

	// ---- package sort / slices with fp.Ord instances as comparison ---------------------------------
	// The outer slice is a copy; its elements (Seqs, Options holding Seqs) still are the live ones.
	extOp("sort/slices(copy, ord instance)", 5, nil, func(h *hist, _ []*entry) {
		way := h.n(3)
		h.arg("way%d", way)
		if e, ok := h.anyOf(kSeq); ok {
			h.cur.ins = append(h.cur.ins, e.id)
			c := slices.Clone([]int(e.v.(Seq)))
			o := h.ordInt()
			switch way {
			case 0:
				slices.SortFunc(c, o.Compare)
			case 1:
				sort.Sort(byOrd[int]{c, o})
			default:
				sort.SliceStable(c, func(i, j int) bool { return o.Less(c[i], c[j]) })
			}
			h.res(kSeq, Seq(c))
		}
		if e, ok := h.anyOf(kSeqSeq); ok {
			h.cur.ins = append(h.cur.ins, e.id)
			c := slices.Clone(e.v.(SeqSeq))
			switch way {
			case 0:
				slices.SortFunc(c, ordSeqInt.Compare)
			case 1:
				sort.Sort(byOrd[Seq]{c, ordSeqInt})
			default:
				sort.SliceStable(c, func(i, j int) bool { return ordSeqInt.Less(c[i], c[j]) })
			}
			h.res(kSeqSeq, c)
		}
		if e, ok := h.anyOf(kOptSeqs); ok {
			h.cur.ins = append(h.cur.ins, e.id)
			c := slices.Clone(e.v.(OptSeqs))
			switch way {
			case 0:
				slices.SortFunc(c, ordOptSeq.Compare)
			case 1:
				sort.Sort(byOrd[Opt]{c, ordOptSeq})
			default:
				sort.SliceStable(c, func(i, j int) bool { return ordOptSeq.Less(c[i], c[j]) })
			}
			h.res(kOptSeqs, c)
		}
		if e, ok := h.anyOf(kPairs); ok {
			h.cur.ins = append(h.cur.ins, e.id)
			c := slices.Clone(e.v.(Pairs))
			slices.SortStableFunc(c, ordPair.Compare)
			h.res(kPairs, c)
		}
	})
	extOp("eq/hash instances", 2, []kind{kSeq, kSeq}, func(h *hist, in []*entry) {
		a, b := in[0].v.(Seq), in[1].v.(Seq)
		_, _, _ = eqSeqInt.Eqv(a, b), hashSeqInt.Hash(a), ordSeqInt.Compare(a, b)
		if e, ok := h.anyOf(kOpt); ok {
			h.cur.ins = append(h.cur.ins, e.id)
			_ = eq.Option(eqSeqInt).Eqv(e.v.(Opt), fp.Some(a))
			_ = hash.Option(hashSeqInt).Hash(e.v.(Opt))
		}
		if e, ok := h.anyOf(kGoMap); ok {
			h.cur.ins = append(h.cur.ins, e.id)
			_ = eq.GoMap[int](eq.Given[int]()).Eqv(e.v.(GoMap), e.v.(GoMap))
		}
		if e, ok := h.anyOf(kMap); ok && e.v.(FMap).Base != nil {
			h.cur.ins = append(h.cur.ins, e.id)
			_ = eq.FpMap[int](eq.Given[int]()).Eqv(e.v.(FMap), e.v.(FMap))
		}
	})

	// ---- encoding/gob: encode a live tuple, decode into a ZERO value --------------------------------
	extOp("gob.Encode+Decode(Tuple2)", 2, []kind{kTup}, func(h *hist, in []*entry) {
		var buf bytes.Buffer
		if err := gob.NewEncoder(&buf).Encode(in[0].v.(Tup)); err != nil {
			h.arg("encode error: %v", err)
			return
		}
		var z Tup
		if err := gob.NewDecoder(&buf).Decode(&z); err != nil {
			h.arg("decode error: %v", err)
			return
		}
		h.w.Add("secondapi.gob_round_trips", 1)
		h.res(kTup, z)
	})
}
