// Deep snapshots for C04: a reflect walk that copies everything reachable from a value into a
// tree of plain nodes — slices UP TO CAPACITY (the whole part of the backing array visible
// through the value), arrays, maps (canonical key order), pointers (with back-references),
// interfaces, struct fields including unexported ones (read through unsafe / reflect.NewAt).
// Function values are opaque (only nil-ness is recorded): captured variables of closures,
// e.g. the sync.Once memo of a lazy fp.List, cannot be reached by reflect and are not
// "contents"; lazy values are observed through their public API instead (see observe*).
//
// Besides the tree a snapshot records the memory regions it has walked (slice backing
// arrays, pointees, map headers) so that the harness can MEASURE whether two live values
// share storage.
package main

import (
	"fmt"
	"reflect"
	"sort"
	"strconv"
	"strings"
	"unsafe"
)

type nkind uint8

const (
	nNil nkind = iota
	nBool
	nInt
	nUint
	nFloat
	nComplex
	nString
	nSlice    // u=len c=cap p=data kids[0..cap)
	nIntSlice // compact form of a slice of a signed-integer kind: ints[0..cap)
	nArray
	nMap     // p=map pointer, kids = k0,v0,k1,v1… sorted by key rendering
	nPtr     // p=address kids[0]=pointee
	nBackref // u=ordinal of the pointer first seen elsewhere in this walk
	nIface   // s=dynamic type kids[0]
	nStruct  // t=type kids=fields
	nFunc    // u=0 nil, 1 non-nil (opaque)
	nOther   // chan / unsafe.Pointer: p
	nObs     // API observation group: s=label kids
	nTrunc   // walk budget exhausted (never expected; reported as a note)
)

type node struct {
	k    nkind
	s    string
	u    uint64
	c    uint64
	p    uintptr
	f    float64
	ints []int64
	kids []*node
	t    reflect.Type
}

type region struct{ lo, hi uintptr }

// snap is one deep snapshot of one live value.
type snap struct {
	root    *node
	regions []region // sorted by lo after finish()
	nodes   int
	trunc   bool
}

type visitKey struct {
	p uintptr
	t reflect.Type
}

type walker struct {
	s       *snap
	visited map[visitKey]int
	budget  int
}

func newSnap() (*snap, *walker) {
	s := &snap{}
	return s, &walker{s: s, visited: map[visitKey]int{}, budget: 200000}
}

func (w *walker) region(p uintptr, size uintptr) {
	if p == 0 || size == 0 {
		return
	}
	w.s.regions = append(w.s.regions, region{p, p + size})
}

func (s *snap) finish() {
	sort.Slice(s.regions, func(i, j int) bool { return s.regions[i].lo < s.regions[j].lo })
}

// overlaps reports whether any walked region of a overlaps one of b.
func overlaps(a, b *snap) bool {
	if a == nil || b == nil {
		return false
	}
	i, j := 0, 0
	for i < len(a.regions) && j < len(b.regions) {
		ra, rb := a.regions[i], b.regions[j]
		if ra.lo < rb.hi && rb.lo < ra.hi {
			return true
		}
		if ra.hi <= rb.hi {
			i++
		} else {
			j++
		}
	}
	return false
}

// addressable returns an addressable, non-read-only copy holder of v (v itself when it
// already is addressable).
func addressable(v reflect.Value) reflect.Value {
	if v.CanAddr() {
		return v
	}
	c := reflect.New(v.Type()).Elem()
	c.Set(v)
	return c
}

// field i of the addressable struct v, readable even when unexported.
func fieldOf(v reflect.Value, i int) reflect.Value {
	f := v.Field(i)
	if f.CanInterface() {
		return f
	}
	return reflect.NewAt(f.Type(), unsafe.Pointer(f.UnsafeAddr())).Elem()
}

func isSignedInt(k reflect.Kind) bool {
	return k == reflect.Int || k == reflect.Int8 || k == reflect.Int16 || k == reflect.Int32 || k == reflect.Int64
}

func (w *walker) walk(v reflect.Value) *node {
	w.s.nodes++
	w.budget--
	if w.budget < 0 {
		w.s.trunc = true
		return &node{k: nTrunc}
	}
	if !v.IsValid() {
		return &node{k: nNil}
	}
	switch v.Kind() {
	case reflect.Bool:
		n := &node{k: nBool}
		if v.Bool() {
			n.u = 1
		}
		return n
	case reflect.Int, reflect.Int8, reflect.Int16, reflect.Int32, reflect.Int64:
		return &node{k: nInt, u: uint64(v.Int())}
	case reflect.Uint, reflect.Uint8, reflect.Uint16, reflect.Uint32, reflect.Uint64, reflect.Uintptr:
		return &node{k: nUint, u: v.Uint()}
	case reflect.Float32, reflect.Float64:
		return &node{k: nFloat, f: v.Float()}
	case reflect.Complex64, reflect.Complex128:
		c := v.Complex()
		return &node{k: nComplex, s: strconv.FormatComplex(c, 'g', -1, 128)}
	case reflect.String:
		return &node{k: nString, s: strings.Clone(v.String())}
	case reflect.Slice:
		if v.IsNil() {
			return &node{k: nSlice, u: 0, c: 0, p: 0}
		}
		ln, cp := v.Len(), v.Cap()
		p := v.Pointer()
		et := v.Type().Elem()
		w.region(p, uintptr(cp)*et.Size())
		full := v
		if cp > ln {
			full = v.Slice3(0, cp, cp)
		}
		if isSignedInt(et.Kind()) {
			n := &node{k: nIntSlice, u: uint64(ln), c: uint64(cp), p: p, ints: make([]int64, cp)}
			for i := 0; i < cp; i++ {
				n.ints[i] = full.Index(i).Int()
			}
			return n
		}
		n := &node{k: nSlice, u: uint64(ln), c: uint64(cp), p: p, kids: make([]*node, cp)}
		for i := 0; i < cp; i++ {
			n.kids[i] = w.walk(full.Index(i))
		}
		return n
	case reflect.Array:
		n := &node{k: nArray, kids: make([]*node, v.Len())}
		for i := range n.kids {
			n.kids[i] = w.walk(v.Index(i))
		}
		return n
	case reflect.Map:
		if v.IsNil() {
			return &node{k: nMap}
		}
		n := &node{k: nMap, p: v.Pointer(), u: uint64(v.Len())}
		w.region(n.p, 8)
		type kv struct {
			key  string
			k, v *node
		}
		kvs := make([]kv, 0, v.Len())
		it := v.MapRange()
		for it.Next() {
			kn := w.walk(addressable(it.Key()))
			vn := w.walk(addressable(it.Value()))
			kvs = append(kvs, kv{render(kn), kn, vn})
		}
		sort.Slice(kvs, func(i, j int) bool { return kvs[i].key < kvs[j].key })
		for _, e := range kvs {
			n.kids = append(n.kids, e.k, e.v)
		}
		return n
	case reflect.Pointer:
		if v.IsNil() {
			return &node{k: nPtr}
		}
		p := v.Pointer()
		key := visitKey{p, v.Type()}
		if ord, seen := w.visited[key]; seen {
			return &node{k: nBackref, u: uint64(ord), p: p}
		}
		w.visited[key] = len(w.visited)
		w.region(p, v.Type().Elem().Size())
		return &node{k: nPtr, p: p, kids: []*node{w.walk(v.Elem())}}
	case reflect.Interface:
		if v.IsNil() {
			return &node{k: nIface}
		}
		e := v.Elem()
		return &node{k: nIface, s: e.Type().String(), kids: []*node{w.walk(addressable(e))}}
	case reflect.Struct:
		v = addressable(v)
		n := &node{k: nStruct, t: v.Type(), kids: make([]*node, v.NumField())}
		for i := range n.kids {
			n.kids[i] = w.walk(fieldOf(v, i))
		}
		return n
	case reflect.Func:
		n := &node{k: nFunc}
		if !v.IsNil() {
			n.u = 1
		}
		return n
	case reflect.Chan, reflect.UnsafePointer:
		return &node{k: nOther, p: v.Pointer()}
	}
	return &node{k: nOther}
}

// render gives a short canonical text of a node (used to order map keys and in details).
func render(n *node) string {
	var b strings.Builder
	renderTo(&b, n, 0)
	return b.String()
}

func renderTo(b *strings.Builder, n *node, depth int) {
	if n == nil {
		b.WriteString("<none>")
		return
	}
	if depth > 6 || b.Len() > 300 {
		b.WriteString("…")
		return
	}
	switch n.k {
	case nNil:
		b.WriteString("nil")
	case nBool:
		b.WriteString(strconv.FormatBool(n.u == 1))
	case nInt:
		// zero-padded with sign offset so that text order = numeric order for map keys
		fmt.Fprintf(b, "%d", int64(n.u))
	case nUint:
		fmt.Fprintf(b, "%d", n.u)
	case nFloat:
		fmt.Fprintf(b, "%g", n.f)
	case nComplex:
		b.WriteString(n.s)
	case nString:
		b.WriteString(strconv.Quote(n.s))
	case nIntSlice:
		fmt.Fprintf(b, "%v", n.ints[:n.u])
		if n.c > n.u {
			fmt.Fprintf(b, "+spare%v", n.ints[n.u:])
		}
	case nSlice:
		b.WriteString("[")
		for i, k := range n.kids {
			if uint64(i) == n.u {
				b.WriteString(" |spare:")
			}
			if i > 0 {
				b.WriteString(" ")
			}
			renderTo(b, k, depth+1)
		}
		b.WriteString("]")
	case nArray:
		b.WriteString("[")
		for i, k := range n.kids {
			if i > 0 {
				b.WriteString(" ")
			}
			renderTo(b, k, depth+1)
		}
		b.WriteString("]")
	case nMap:
		b.WriteString("map[")
		for i := 0; i+1 < len(n.kids); i += 2 {
			if i > 0 {
				b.WriteString(" ")
			}
			renderTo(b, n.kids[i], depth+1)
			b.WriteString(":")
			renderTo(b, n.kids[i+1], depth+1)
		}
		b.WriteString("]")
	case nPtr:
		if len(n.kids) == 0 {
			b.WriteString("nil")
		} else {
			b.WriteString("&")
			renderTo(b, n.kids[0], depth+1)
		}
	case nBackref:
		fmt.Fprintf(b, "<backref#%d>", n.u)
	case nIface:
		if len(n.kids) == 0 {
			b.WriteString("nil")
		} else {
			b.WriteString(n.s + "(")
			renderTo(b, n.kids[0], depth+1)
			b.WriteString(")")
		}
	case nStruct:
		b.WriteString("{")
		for i, k := range n.kids {
			if i > 0 {
				b.WriteString(" ")
			}
			b.WriteString(n.t.Field(i).Name + ":")
			renderTo(b, k, depth+1)
		}
		b.WriteString("}")
	case nFunc:
		if n.u == 0 {
			b.WriteString("func(nil)")
		} else {
			b.WriteString("func")
		}
	case nOther:
		fmt.Fprintf(b, "@%x", n.p)
	case nObs:
		b.WriteString(n.s + "{")
		for i, k := range n.kids {
			if i > 0 {
				b.WriteString(" ")
			}
			renderTo(b, k, depth+1)
		}
		b.WriteString("}")
	case nTrunc:
		b.WriteString("<truncated>")
	}
}

// difference between two snapshots of the same value.
type difference struct {
	path   string
	before string
	after  string
	// spare: the only thing that differs is content between len and cap of a slice, i.e.
	// memory that is not visible through this value's length. It is a violation only if
	// some live value sees that memory inside its length — and then that value reports a
	// hard difference itself.
	spare bool
}

func short(s string) string {
	if len(s) > 160 {
		return s[:160] + "…"
	}
	return s
}

// diff returns the first hard difference, or else the first spare-only difference, or nil.
func diff(a, b *node) *difference {
	if same(a, b) {
		return nil // the common case: no path strings are built
	}
	var soft *difference
	d := diffRec(a, b, "", &soft)
	if d != nil {
		return d
	}
	return soft
}

// same reports whether two snapshot trees are identical in everything diffRec looks at
// (including spare capacity).
func same(a, b *node) bool {
	if a == b {
		return true
	}
	if a == nil || b == nil || a.k != b.k {
		return false
	}
	switch a.k {
	case nNil, nTrunc:
		return true
	case nBool, nInt, nUint, nFunc, nBackref:
		return a.u == b.u
	case nFloat:
		return a.f == b.f || (a.f != a.f && b.f != b.f)
	case nComplex, nString:
		return a.s == b.s
	case nOther:
		return a.p == b.p
	case nIntSlice:
		if a.u != b.u || a.c != b.c || a.p != b.p || len(a.ints) != len(b.ints) {
			return false
		}
		for i := range a.ints {
			if a.ints[i] != b.ints[i] {
				return false
			}
		}
		return true
	case nSlice, nMap, nPtr:
		if a.u != b.u || a.c != b.c || a.p != b.p {
			return false
		}
	case nIface, nObs:
		if a.s != b.s {
			return false
		}
	case nStruct:
		if a.t != b.t {
			return false
		}
	}
	if len(a.kids) != len(b.kids) {
		return false
	}
	for i := range a.kids {
		if !same(a.kids[i], b.kids[i]) {
			return false
		}
	}
	return true
}

func diffRec(a, b *node, path string, soft **difference) *difference {
	if a == b {
		return nil
	}
	if a == nil || b == nil {
		return &difference{path: path, before: short(render(a)), after: short(render(b))}
	}
	hard := func(what string) *difference {
		p := path
		if what != "" {
			p += what
		}
		return &difference{path: p, before: short(render(a)), after: short(render(b))}
	}
	if a.k != b.k {
		return hard("")
	}
	switch a.k {
	case nNil:
		return nil
	case nBool, nInt, nUint, nFunc, nBackref:
		if a.u != b.u {
			return hard("")
		}
	case nFloat:
		if a.f != b.f && !(a.f != a.f && b.f != b.f) {
			return hard("")
		}
	case nComplex, nString:
		if a.s != b.s {
			return hard("")
		}
	case nOther:
		if a.p != b.p {
			return hard("")
		}
	case nIntSlice:
		if a.u != b.u || a.c != b.c || a.p != b.p {
			return hard(fmt.Sprintf("<slice header len=%d cap=%d data=%#x -> len=%d cap=%d data=%#x>", a.u, a.c, a.p, b.u, b.c, b.p))
		}
		for i := range a.ints {
			if a.ints[i] != b.ints[i] {
				d := &difference{path: fmt.Sprintf("%s[%d]", path, i), before: strconv.FormatInt(a.ints[i], 10), after: strconv.FormatInt(b.ints[i], 10)}
				if uint64(i) < a.u {
					return d
				}
				if *soft == nil {
					d.spare = true
					d.path += fmt.Sprintf("(spare capacity: len=%d cap=%d)", a.u, a.c)
					*soft = d
				}
			}
		}
	case nSlice:
		if a.u != b.u || a.c != b.c || a.p != b.p {
			return hard(fmt.Sprintf("<slice header len=%d cap=%d data=%#x -> len=%d cap=%d data=%#x>", a.u, a.c, a.p, b.u, b.c, b.p))
		}
		for i := range a.kids {
			if uint64(i) < a.u {
				if d := diffRec(a.kids[i], b.kids[i], fmt.Sprintf("%s[%d]", path, i), soft); d != nil {
					return d
				}
				continue
			}
			// spare region: everything below it is soft
			var s2 *difference
			d := diffRec(a.kids[i], b.kids[i], fmt.Sprintf("%s[%d](spare capacity: len=%d cap=%d)", path, i, a.u, a.c), &s2)
			if d == nil {
				d = s2
			}
			if d != nil && *soft == nil {
				d.spare = true
				*soft = d
			}
		}
	case nArray:
		for i := range a.kids {
			if d := diffRec(a.kids[i], b.kids[i], fmt.Sprintf("%s[%d]", path, i), soft); d != nil {
				return d
			}
		}
	case nMap:
		if a.p != b.p {
			return hard("<map identity>")
		}
		if a.u != b.u || len(a.kids) != len(b.kids) {
			return hard(fmt.Sprintf("<map size %d -> %d>", a.u, b.u))
		}
		for i := 0; i+1 < len(a.kids); i += 2 {
			kp := fmt.Sprintf("%s[key %s]", path, short(render(a.kids[i])))
			if d := diffRec(a.kids[i], b.kids[i], kp+"<key>", soft); d != nil {
				return d
			}
			if d := diffRec(a.kids[i+1], b.kids[i+1], kp, soft); d != nil {
				return d
			}
		}
	case nPtr:
		if a.p != b.p {
			return hard("<pointer>")
		}
		if len(a.kids) != len(b.kids) {
			return hard("")
		}
		if len(a.kids) == 1 {
			return diffRec(a.kids[0], b.kids[0], path+"(*)", soft)
		}
	case nIface:
		if a.s != b.s || len(a.kids) != len(b.kids) {
			return hard("<dynamic type>")
		}
		if len(a.kids) == 1 {
			return diffRec(a.kids[0], b.kids[0], path+".("+a.s+")", soft)
		}
	case nStruct:
		if a.t != b.t || len(a.kids) != len(b.kids) {
			return hard("<struct type>")
		}
		for i := range a.kids {
			if d := diffRec(a.kids[i], b.kids[i], path+"."+a.t.Field(i).Name, soft); d != nil {
				return d
			}
		}
	case nObs:
		if a.s != b.s {
			return hard("")
		}
		if len(a.kids) != len(b.kids) {
			return hard("<" + a.s + ": " + strconv.Itoa(len(a.kids)) + " -> " + strconv.Itoa(len(b.kids)) + " observations>")
		}
		for i := range a.kids {
			if d := diffRec(a.kids[i], b.kids[i], fmt.Sprintf("%s<%s#%d>", path, a.s, i), soft); d != nil {
				return d
			}
		}
	case nTrunc:
		return nil
	}
	return nil
}

// ---- helpers to build observation nodes (public-API view of fp.Map / fp.Set / fp.List) --

func obsInt(v int) *node { return &node{k: nInt, u: uint64(int64(v))} }
func obsBool(v bool) *node {
	if v {
		return &node{k: nBool, u: 1}
	}
	return &node{k: nBool}
}
func obsInts(label string, vs []int) *node {
	n := &node{k: nObs, s: label, kids: make([]*node, len(vs))}
	for i, v := range vs {
		n.kids[i] = obsInt(v)
	}
	return n
}
func obsGroup(label string, kids ...*node) *node { return &node{k: nObs, s: label, kids: kids} }
