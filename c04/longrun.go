// Long-run cases of C04: process-lifetime history.
//
// A classic history is 30-60 operations long; anything in the library that depends on HOW
// MANY operations a process has already performed (an id, epoch or buffer index cut from a
// global counter that wraps after 2^8 / 2^15 / 2^16 uses, a ring of re-used scratch buffers,
// a cache that evicts after N entries) is invisible to it. A long-run case keeps a set of
// live values, snapshots them, and then performs, for every kind of multi-step or bulk
// operation, MORE THAN 2^16 separate library calls of that kind (lrFloor = 70 000 per kind
// and case) on unrelated throw-away values and on the live values themselves, with
//
//   - "early" derivations kept live before the bulk of the calls,
//   - the same operation applied again to those early results (or to a descendant sharing
//     structure with them, or — for conversions — to the same input) EXACTLY 255, 256, 32767,
//     32768, 65535 and 65536 calls of that kind later (thorough: also 131071 / 131072),
//   - derivations kept live at PRNG positions in the middle (with their own re-visits),
//   - derivations after the run,
//
// and compares every live value with its snapshot: the related ones at each of those events,
// the whole pool at the end of every phase and at the end of the case.
//
// Two modes: "phased" (one operation kind after the other: call distances are exact per kind
// and, inside the phase, also in the total number of library calls) and "mixed" (all kinds
// round-robin: the re-visits are placed at exact distances in the TOTAL number of calls, for
// counters shared between operation kinds).
package main

import (
	"encoding/json"
	"fmt"
	"runtime/debug"

	"verif/vrt"

	"github.com/csgura/fp"
	"github.com/csgura/fp/as"
	"github.com/csgura/fp/clone"
	"github.com/csgura/fp/immutable"
	"github.com/csgura/fp/iterator"
	"github.com/csgura/fp/list"
	"github.com/csgura/fp/monoid"
	"github.com/csgura/fp/option"
	"github.com/csgura/fp/ord"
	"github.com/csgura/fp/seq"
	"github.com/csgura/fp/try"
)

const lrFloor = 70000 // calls per operation kind and case (> 2^16 + margin)

// lrKind is one kind of operation. call performs exactly ONE "call of that kind" (a builder
// cycle is Add… + Build) with the live value e as receiver / input; arguments come from the
// case PRNG (and from small live values via lr.arg). ok=false: no poolable result.
type lrKind struct {
	name string
	recv []kind
	call func(h *hist, e *entry, j int) (k kind, v any, hi int, ok bool)
}

type lrEvent struct {
	what   string // early | revisit | mid | late
	target *entry
	dist   int
	origin int // call index of the early / mid call a revisit belongs to
}

type lrun struct {
	h        *hist
	fam      [nKinds][]*entry // live values by kind
	small    [nKinds][]*entry // the small ones (arguments)
	scrap    [nKinds][]*entry // "unrelated" throw-away style values (live too, but nothing is derived from them and kept)
	calls    map[string]int64
	events   int
	exact    map[int]int64 // re-visits performed, by distance
	dists    []int
	ctx      string // mixed mode: "mixed@long-run"
	hammered int    // phases in which one value received all the calls
}

func (lr *lrun) add(e *entry, small bool) {
	if e == nil {
		return
	}
	lr.fam[e.kind] = append(lr.fam[e.kind], e)
	if small {
		lr.small[e.kind] = append(lr.small[e.kind], e)
	}
}

func (lr *lrun) arg(k kind) *entry {
	c := lr.small[k]
	return c[lr.h.n(len(c))]
}

// key: in an event a key that is present in the receiver more often than not, else any key.
func (h *hist) keyOfMap(m FMap) int {
	if len(h.hot) > 0 && h.n(4) > 0 {
		return h.hot[h.n(len(h.hot))]
	}
	if !h.quiet && m.Size() > 0 && h.n(4) > 0 {
		ks := sortedInts(m.Keys().ToSeq())
		return ks[h.n(len(ks))]
	}
	return h.elem()
}

func (h *hist) keyOfSet(s FSet) int {
	if len(h.hot) > 0 && h.n(4) > 0 {
		return h.hot[h.n(len(h.hot))]
	}
	if !h.quiet && s.Size() > 0 && h.n(4) > 0 {
		ks := sortedInts(s.Iterator().ToSeq())
		return ks[h.n(len(ks))]
	}
	return h.elem()
}

func lrKinds(lr *lrun) []*lrKind {
	mapK, setK, seqK, pairsK, optK := []kind{kMap}, []kind{kSet}, []kind{kSeq}, []kind{kPairs}, []kind{kOpt}
	return []*lrKind{
		{"Map.Removed(multi-key)", mapK, func(h *hist, e *entry, j int) (kind, any, int, bool) {
			m := e.v.(FMap)
			ks := make([]int, 2+h.n(2))
			for i := range ks {
				ks[i] = h.keyOfMap(m)
			}
			h.arg("%v", ks)
			return kMap, m.Removed(ks...), e.hi, true
		}},
		{"Map.Removed(single-key)", mapK, func(h *hist, e *entry, j int) (kind, any, int, bool) {
			m := e.v.(FMap)
			k := h.keyOfMap(m)
			h.arg("%d", k)
			return kMap, m.Removed(k), e.hi, true
		}},
		{"Map.Updated", mapK, func(h *hist, e *entry, j int) (kind, any, int, bool) {
			m := e.v.(FMap)
			k, v := h.keyOfMap(m), h.elem()
			h.arg("%d,%d", k, v)
			return kMap, m.Updated(k, v), e.hi, true
		}},
		{"Map.UpdatedWith", mapK, func(h *hist, e *entry, j int) (kind, any, int, bool) {
			m := e.v.(FMap)
			k, v, mode := h.keyOfMap(m), h.elem(), h.n(3)
			h.arg("%d,%d,mode%d", k, v, mode)
			return kMap, m.UpdatedWith(k, func(o fp.Option[int]) fp.Option[int] {
				switch mode {
				case 0:
					return fp.Some(v)
				case 1:
					return fp.None[int]()
				}
				if o.IsDefined() {
					return fp.Some((o.Get() + 1) % h.universe)
				}
				return fp.Some(v)
			}), e.hi, true
		}},
		{"Map.Concat(Seq)", mapK, func(h *hist, e *entry, j int) (kind, any, int, bool) {
			a := lr.arg(kPairs)
			h.arg("v%d", a.id)
			return kMap, e.v.(FMap).Concat(iterOfSeq[Pair]{a.v.(Pairs)}), e.hi, true
		}},
		{"Map.Concat(Map)", mapK, func(h *hist, e *entry, j int) (kind, any, int, bool) {
			a := lr.arg(kMap)
			h.arg("v%d", a.id)
			return kMap, e.v.(FMap).Concat(a.v.(FMap)), e.hi, true
		}},
		{"Set.Incl", setK, func(h *hist, e *entry, j int) (kind, any, int, bool) {
			k := h.elem()
			h.arg("%d", k)
			return kSet, e.v.(FSet).Incl(k), e.hi, true
		}},
		{"Set.Excl", setK, func(h *hist, e *entry, j int) (kind, any, int, bool) {
			s := e.v.(FSet)
			k := h.keyOfSet(s)
			h.arg("%d", k)
			return kSet, s.Excl(k), e.hi, true
		}},
		{"Set.Concat", setK, func(h *hist, e *entry, j int) (kind, any, int, bool) {
			if j%2 == 0 {
				a := lr.arg(kSeq)
				h.arg("Seq v%d", a.id)
				return kSet, e.v.(FSet).Concat(iterOfSeq[int]{a.v.(Seq)}), e.hi, true
			}
			a := lr.arg(kSet)
			h.arg("Set v%d", a.id)
			return kSet, e.v.(FSet).Concat(a.v.(FSet)), e.hi, true
		}},
		{"Set.Diff", setK, func(h *hist, e *entry, j int) (kind, any, int, bool) {
			a := lr.arg(kSet)
			h.arg("v%d", a.id)
			return kSet, e.v.(FSet).Diff(a.v.(FSet)), e.hi, true
		}},
		{"Set.Intersect", setK, func(h *hist, e *entry, j int) (kind, any, int, bool) {
			a := lr.arg(kSet)
			h.arg("v%d", a.id)
			return kSet, e.v.(FSet).Intersect(a.v.(FSet)), e.hi, true
		}},
		{"MapBuilder.Add…Build", pairsK, func(h *hist, e *entry, j int) (kind, any, int, bool) {
			hs, hi := h.hasher()
			b := immutable.MapBuilder[int, int](hs)
			for _, p := range e.v.(Pairs) {
				b.Add(p.I1, p.I2)
			}
			return kMap, b.Build(), hi, true
		}},
		{"SetBuilder.Add…Build", seqK, func(h *hist, e *entry, j int) (kind, any, int, bool) {
			hs, hi := h.hasher()
			b := immutable.SetBuilder(hs)
			for _, x := range e.v.(Seq) {
				b.Add(x)
			}
			return kSet, b.Build(), hi, true
		}},
		{"ToMap(seq|iterator|list)", pairsK, func(h *hist, e *entry, j int) (kind, any, int, bool) {
			hs, hi := h.hasher()
			s := e.v.(Pairs)
			h.arg("way%d", j%3)
			switch j % 3 {
			case 0:
				return kMap, seq.ToMap(s, hs), hi, true
			case 1:
				return kMap, iterator.ToMap(iterator.FromSeq(s), hs), hi, true
			}
			return kMap, list.ToMap(list.FromSeq(s), hs), hi, true
		}},
		{"ToSet(seq|iterator|list)", seqK, func(h *hist, e *entry, j int) (kind, any, int, bool) {
			hs, hi := h.hasher()
			s := e.v.(Seq)
			h.arg("way%d", j%3)
			switch j % 3 {
			case 0:
				return kSet, seq.ToSet(s, hs), hi, true
			case 1:
				return kSet, iterator.ToSet(iterator.FromSeq(s), hs), hi, true
			}
			return kSet, list.ToSet(list.FromSeq(s), hs), hi, true
		}},
		{"Sort(seq|iterator|list|try)", seqK, func(h *hist, e *entry, j int) (kind, any, int, bool) {
			o := h.ordInt()
			s := e.v.(Seq)
			h.arg("way%d", j%4)
			switch j % 4 {
			case 0:
				return kSeq, seq.Sort(s, o), -1, true
			case 1:
				return kSeq, iterator.Sort(iterator.FromSeq(s), o), -1, true
			case 2:
				return kSeq, list.Sort(list.FromSeq(s), o), -1, true
			}
			return kTry, try.SortSeqT(fp.Success(s), o), -1, true
		}},
		{"Seq.Concat/Append/Add", seqK, func(h *hist, e *entry, j int) (kind, any, int, bool) {
			s := e.v.(Seq)
			h.arg("way%d", j%4)
			switch j % 4 {
			case 0:
				a := lr.arg(kSeq)
				h.arg("v%d", a.id)
				return kSeq, s.Concat(a.v.(Seq)), -1, true
			case 1:
				x, y := h.elem(), h.elem()
				h.arg("%d,%d", x, y)
				return kSeq, s.Append(x, y), -1, true
			case 2:
				x := h.elem()
				h.arg("%d", x)
				return kSeq, s.Add(x), -1, true
			}
			x := h.elem()
			h.arg("%d", x)
			return kSeq, seq.Concat(x, s), -1, true
		}},
		{"Seq.Take/Drop/Init/Tail+Append", seqK, func(h *hist, e *entry, j int) (kind, any, int, bool) {
			s := e.v.(Seq)
			x := h.elem()
			n := h.n(len(s) + 2)
			h.arg("way%d,%d,%d", j%4, n, x)
			switch j % 4 {
			case 0:
				return kSeq, s.Take(n).Append(x), -1, true
			case 1:
				return kSeq, s.Drop(n).Add(x), -1, true
			case 2:
				return kSeq, s.Init().Append(x), -1, true
			}
			return kSeq, s.Tail().Add(x), -1, true
		}},
		{"ToSeq/ToList/Collect(conversions)", seqK, func(h *hist, e *entry, j int) (kind, any, int, bool) {
			s := e.v.(Seq)
			h.arg("way%d", j%5)
			switch j % 5 {
			case 0:
				return kSeq, iterator.FromSeq(s).ToSeq(), -1, true
			case 1:
				return kSeq, Seq(list.FromSeq(s).ToSeq()), -1, true
			case 2:
				return kSeq, seq.Collect(seq.Iterator(s)), -1, true
			case 3:
				return kList, iterator.ToList(iterator.FromSeq(s)), -1, true
			}
			return kList, list.Collect(iterator.FromSlice(s)), -1, true
		}},
		{"Seq.Map/Filter/Reverse/Distinct", seqK, func(h *hist, e *entry, j int) (kind, any, int, bool) {
			s := e.v.(Seq)
			h.arg("way%d", j%4)
			switch j % 4 {
			case 0:
				return kSeq, s.Map(h.fn()), -1, true
			case 1:
				return kSeq, s.Filter(h.pred()), -1, true
			case 2:
				return kSeq, s.Reverse(), -1, true
			}
			return kSeq, seq.Distinct(s), -1, true
		}},
		{"monoid.MergeSeq/MergeSlice/clone", seqK, func(h *hist, e *entry, j int) (kind, any, int, bool) {
			s := e.v.(Seq)
			h.arg("way%d", j%4)
			switch j % 4 {
			case 0:
				a := lr.arg(kSeq)
				h.arg("v%d", a.id)
				return kSeq, monoid.MergeSeq[int]().Combine(s, a.v.(Seq)), -1, true
			case 1:
				a := lr.arg(kSeq)
				h.arg("v%d", a.id)
				return kSeq, Seq(monoid.MergeSlice[int]().Combine([]int(s), []int(a.v.(Seq)))), -1, true
			case 2:
				return kSeq, cloneSeqInt.Clone(s), -1, true
			}
			return kSeq, Seq(clone.Slice(clone.Given[int]()).Clone([]int(s))), -1, true
		}},
		{"Option.Map/FlatMap/clone", optK, func(h *hist, e *entry, j int) (kind, any, int, bool) {
			o := e.v.(Opt)
			x := h.elem()
			h.arg("way%d,%d", j%4, x)
			switch j % 4 {
			case 0:
				return kOpt, o.Map(func(s Seq) Seq { return s.Append(x) }), -1, true
			case 1:
				return kOpt, option.Map(o, func(s Seq) Seq { return seq.Sort(s, ord.Given[int]()) }), -1, true
			case 2:
				return kOpt, o.FlatMap(func(s Seq) Opt { return fp.Some(s.Take(x % 5)) }), -1, true
			}
			return kOpt, clone.Option(cloneSeqInt).Clone(o), -1, true
		}},
		{"json.Unmarshal(copy of Option[Seq])", optK, func(h *hist, e *entry, j int) (kind, any, int, bool) {
			o2 := e.v.(Opt)
			var doc string
			if h.quiet {
				doc = lrDocs[h.n(len(lrDocs))]
			} else {
				doc = h.jsOr(h.jsInts())
				h.arg("%s", doc)
			}
			_ = json.Unmarshal([]byte(doc), &o2)
			return kOpt, o2, -1, true
		}},
		{"String()/fmt.Sprint", []kind{kMap, kSet, kOpt, kSeq}, func(h *hist, e *entry, j int) (kind, any, int, bool) {
			switch v := e.v.(type) {
			case FMap:
				_ = v.String()
			case FSet:
				_ = v.String()
			case Opt:
				_ = v.String()
			case Seq:
				_ = fmt.Sprint(v)
			}
			return 0, nil, -1, false
		}},
	}
}

// lrModes: the mode of the k-th long-run case of a run (k = position in the long-run batches).
var lrModes = []string{"phased", "hammer", "mixed", "hammer", "phased", "hammer", "phased", "mixed"}

func lrModeCount(tier, mode string) int64 {
	l := layout(tier)
	var c int64
	for k := 0; k < l.long*l.longCases; k++ {
		if lrModes[k%len(lrModes)] == mode {
			c++
		}
	}
	return c
}

var lrDocs = []string{"[7,8]", "[]", "null", "[1]", "[0,1,2,3,4,5,6,7,8,9,10,11]", "[3,3,3]", "[5,4,3,2,1]", `"x"`}

// derive makes a value that shares structure with r through a DIFFERENT operation (it is
// what the re-visit is applied to for every second early value).
func (lr *lrun) derive(r *entry) (kind, any, int, bool) {
	h := lr.h
	switch r.kind {
	case kMap:
		k, v := h.elem(), h.elem()
		h.arg("descendant: Updated(%d,%d)", k, v)
		return kMap, r.v.(FMap).Updated(k, v), r.hi, true
	case kSet:
		k := h.elem()
		h.arg("descendant: Incl(%d)", k)
		return kSet, r.v.(FSet).Incl(k), r.hi, true
	case kSeq:
		s := r.v.(Seq)
		n := h.n(len(s) + 1)
		h.arg("descendant: Take(%d)", n)
		return kSeq, s.Take(n), -1, true
	case kOpt:
		h.arg("descendant: copy")
		return kOpt, r.v.(Opt), -1, true
	}
	return 0, nil, -1, false
}

func (lr *lrun) isRecv(K *lrKind, k kind) bool {
	for _, r := range K.recv {
		if r == k {
			return true
		}
	}
	return false
}

// pick chooses the receiver of a filler call: a throw-away value, or one of the live values.
func (lr *lrun) pick(K *lrKind, j int) *entry {
	k := K.recv[j%len(K.recv)]
	if j%4 == 0 && len(lr.scrap[k]) > 0 {
		c := lr.scrap[k]
		return c[lr.h.n(len(c))]
	}
	c := lr.fam[k]
	return c[lr.h.n(len(c))]
}

// pool adds the result of an event to the live values.
func (lr *lrun) pool(k kind, v any, hi int) *entry {
	h := lr.h
	var e *entry
	if k == kMap || k == kSet {
		e = h.resH(k, v, hi)
	} else {
		e = h.res(k, v)
	}
	if e != nil {
		small := false
		switch k {
		case kMap:
			small = v.(FMap).Size() <= 8
		case kSet:
			small = v.(FSet).Size() <= 8
		case kSeq:
			small = len(toSeq(v)) <= 8
		case kPairs:
			small = len(v.(Pairs)) <= 6
		}
		lr.add(e, small)
	}
	return e
}

// event performs ONE call of kind K on target as a recorded step: results are pooled and
// snapshot, then target, its relatives and a PRNG sample of the other live values are
// compared with their previous snapshots.
func (lr *lrun) event(K *lrKind, ev lrEvent, j int, withDescendant bool) (res, desc *entry) {
	h := lr.h
	h.quiet = false
	defer func() { h.quiet = true }()
	h.cur = opRec{name: K.name + "@long-run", ins: []int{ev.target.id}}
	h.fresh = h.fresh[:0]
	h.curB, h.afterB = nil, false
	switch ev.what {
	case "revisit":
		h.arg("[call %d of this kind: %d calls after call %d]", j, ev.dist, ev.origin)
	default:
		h.arg("[call %d of this kind: %s]", j, ev.what)
	}
	if ev.what == "revisit" && ev.dist >= 65535 && h.sharesStorage(ev.target) {
		h.shared = true
		h.w.Add("longrun.revisits_at_2^16_on_value_sharing_storage", 1)
	}
	// related values: the target, its ancestors, everything derived from the same parent; plus a sample
	check := []*entry{ev.target}
	for p := ev.target.parent; p != nil; p = p.parent {
		check = append(check, p)
	}
	for _, e := range h.pool {
		if e.parent != nil && (e.parent == ev.target || e.parent == ev.target.parent) && e != ev.target {
			check = append(check, e)
		}
	}
	for i := 0; i < 6; i++ {
		check = append(check, h.pool[h.n(len(h.pool))])
	}
	check = dedup(check)
	if lr.ctx != "" {
		// mixed mode: calls of OTHER kinds have run since these values were last looked at; what
		// they changed must not be blamed on this call
		h.checkEntries(check, lr.ctx, nil, fmt.Sprintf("%d calls of all kinds round-robin (before call %d)", j, j))
		if h.failed {
			return nil, nil
		}
	}
	k, v, hi, ok := K.call(h, ev.target, j)
	lr.calls[K.name]++
	if ok {
		res = lr.pool(k, v, hi)
	}
	if res != nil && withDescendant {
		if dk, dv, dhi, dok := lr.derive(res); dok {
			desc = lr.pool(dk, dv, dhi)
		}
	}
	text := h.cur.String()
	h.logOp(text)
	for _, e := range h.fresh {
		e.desc = "result of " + text
		e.parent = ev.target
		e.first = h.snapshot(e)
		e.last = e.first
	}
	lr.events++
	h.checkEntries(check, K.name+"@long-run", []*entry{ev.target}, text)
	return res, desc
}

func dedup(l []*entry) []*entry {
	seen := map[*entry]bool{}
	out := l[:0]
	for _, e := range l {
		if !seen[e] {
			seen[e] = true
			out = append(out, e)
		}
	}
	return out
}

// fullCheck compares every live value with its previous snapshot.
func (lr *lrun) fullCheck(name, text string) {
	h := lr.h
	h.fresh = h.fresh[:0]
	h.curB, h.afterB = nil, false
	h.logOp(text)
	h.checkEntries(h.pool, name, nil, text)
}

// setup creates the live values every phase works on.
func (lr *lrun) setup() {
	h := lr.h
	mk := func(name string, f func()) {
		h.cur = opRec{name: name}
		h.fresh = h.fresh[:0]
		f()
		text := h.cur.String()
		h.logOp(text)
		for _, e := range h.fresh {
			e.desc = "result of " + text
			e.first = h.snapshot(e)
			e.last = e.first
		}
	}
	// slices: two arenas with spare capacity and views of them, small ones and longer ones
	for a := 0; a < 3; a++ {
		mk("harness.new-arena", func() {
			n := 2 + h.n(7)
			if a == 2 {
				n = 9 + h.n(24)
			}
			spare := 1 + h.n(6)
			arr := make([]int, n, n+spare)
			for i := range arr {
				arr[i] = h.elem()
			}
			h.arg("%v cap=%d", arr, n+spare)
			lr.add(h.res(kSeq, Seq(arr)), n <= 8)
			for i := 0; i < 2; i++ {
				x := h.n(n + 1)
				y := x + h.n(n-x+1)
				if i == 0 {
					x = 0 // a prefix: its spare capacity is visible through the full slice
				}
				h.arg("view[%d:%d]", x, y)
				lr.add(h.res(kSeq, Seq(arr[x:y])), y-x <= 8)
			}
		})
	}
	mk("harness.new-pairs", func() {
		for i := 0; i < 4; i++ {
			n := 1 + h.n(6)
			ps := make(Pairs, n, n+h.n(3))
			for j := range ps {
				ps[j] = as.Tuple2(h.elem(), h.elem())
			}
			lr.add(h.res(kPairs, ps), true)
		}
	})
	// maps and sets: per hasher a small one (array node / few entries) and a larger one; built
	// through different constructors
	for hi := range hashers {
		mk("harness.new-maps-and-sets", func() {
			h.arg("hasher=%s", hasherNames[hi])
			for _, big := range []bool{false, true} {
				n := 1 + h.n(7)
				if big {
					n = 9 + h.n(32)
				}
				ps := make(Pairs, n)
				ks := make(Seq, n)
				for j := range ps {
					ps[j] = as.Tuple2(h.elem(), h.elem())
					ks[j] = ps[j].I1
				}
				var m FMap
				var s FSet
				switch (hi + n) % 3 {
				case 0:
					m, s = immutable.Map(hashers[hi], ps...), immutable.Set(hashers[hi], ks...)
				case 1:
					m, s = seq.ToMap(ps, hashers[hi]), seq.ToSet(ks, hashers[hi])
				default:
					mb := immutable.MapBuilder[int, int](hashers[hi])
					sb := immutable.SetBuilder(hashers[hi])
					for _, p := range ps {
						mb.Add(p.I1, p.I2)
						sb.Add(p.I1)
					}
					m, s = mb.Build(), sb.Build()
				}
				lr.add(h.resH(kMap, m, hi), m.Size() <= 8)
				lr.add(h.resH(kSet, s, hi), s.Size() <= 8)
			}
		})
	}
	// collections grown from the zero values are backed by Go maps, not by the trie: they are
	// live (and compared) but not receivers, so that every call of a map / set kind is a call
	// on the trie implementation and the call distances mean the same thing for all of them
	mk("fp.Map{}/fp.Set{}", func() {
		h.res(kMap, FMap{}.Updated(h.elem(), h.elem()))
		h.res(kSet, FSet{}.Incl(h.elem()))
	})
	mk("fp.Some", func() {
		for i, e := range lr.fam[kSeq] {
			if i%2 == 0 {
				h.cur.ins = append(h.cur.ins, e.id)
				lr.add(h.res(kOpt, fp.Some(e.v.(Seq))), true)
			}
		}
		lr.add(h.res(kOpt, fp.None[Seq]()), true)
	})
	// unrelated throw-away values: nothing kept is ever derived from them
	mk("harness.new-unrelated", func() {
		for hi := range hashers {
			m := immutable.Map(hashers[hi], as.Tuple2(1, 1), as.Tuple2(2, 2), as.Tuple2(3, 3))
			s := immutable.Set(hashers[hi], 1, 2, 3)
			e1, e2 := h.resH(kMap, m, hi), h.resH(kSet, s, hi)
			lr.scrap[kMap] = append(lr.scrap[kMap], e1)
			lr.scrap[kSet] = append(lr.scrap[kSet], e2)
		}
		lr.scrap[kSeq] = append(lr.scrap[kSeq], h.res(kSeq, Seq{3, 1, 2}), h.res(kSeq, append(make(Seq, 0, 8), 5, 4, 3, 2)))
		lr.scrap[kPairs] = append(lr.scrap[kPairs], h.res(kPairs, Pairs{as.Tuple2(1, 1), as.Tuple2(2, 2)}))
		lr.scrap[kOpt] = append(lr.scrap[kOpt], h.res(kOpt, fp.Some(Seq{1, 2, 3})))
	})
}

type lrPlan struct {
	sched map[int]lrEvent
}

func (p *lrPlan) put(at int, ev lrEvent) bool {
	if _, taken := p.sched[at]; taken {
		return false
	}
	p.sched[at] = ev
	return true
}

// revisitTarget: the value the operation is applied to again — the early result itself, its
// descendant, or (conversions: the result is of another kind) the input of the early call.
func (lr *lrun) revisitTarget(K *lrKind, input, res, desc *entry, useDesc bool) *entry {
	if res != nil && lr.isRecv(K, res.kind) {
		if useDesc && desc != nil && lr.isRecv(K, desc.kind) {
			return desc
		}
		return res
	}
	return input
}

func (lr *lrun) scheduleRevisits(p *lrPlan, K *lrKind, at, limit int, input, res, desc *entry, useDesc bool) {
	t := lr.revisitTarget(K, input, res, desc, useDesc)
	for _, d := range lr.dists {
		if at+d >= limit {
			continue
		}
		if !p.put(at+d, lrEvent{what: "revisit", target: t, dist: d, origin: at}) {
			lr.h.w.Add("longrun.revisits_skipped_slot_taken", 1)
		}
	}
}

// phase: n calls of kind K, nothing else in between.
func (lr *lrun) phase(K *lrKind, n, early, mids int) {
	h := lr.h
	h.w.Site(K.name + "@long-run")
	p := &lrPlan{sched: map[int]lrEvent{}}
	for i := 0; i < early; i++ {
		c := lr.fam[K.recv[i%len(K.recv)]]
		p.put(2*i, lrEvent{what: "early", target: c[h.n(len(c))]})
	}
	for i := 0; i < mids; i++ {
		at := 2*early + h.n(n-2*early)
		c := lr.fam[K.recv[i%len(K.recv)]]
		p.put(at, lrEvent{what: "mid", target: c[h.n(len(c))]})
	}
	h.quiet = true
	nEarly := 0
	for j := 0; j < n && !h.failed; j++ {
		if ev, ok := p.sched[j]; ok {
			switch ev.what {
			case "early", "mid":
				useDesc := nEarly%2 == 1
				nEarly++
				res, desc := lr.event(K, ev, j, useDesc)
				lr.scheduleRevisits(p, K, j, n, ev.target, res, desc, useDesc)
			default:
				res, _ := lr.event(K, ev, j, false)
				lr.exact[ev.dist]++
				if res != nil && h.n(4) > 0 {
					lr.forget(res) // most re-visit results are not kept
				}
			}
			continue
		}
		_, _, _, _ = K.call(h, lr.pick(K, j), j)
		lr.calls[K.name]++
	}
	h.quiet = false
	if h.failed {
		return
	}
	// after the run: one more derivation from some live values of the family, kept
	for i := 0; i < 3; i++ {
		c := lr.fam[K.recv[i%len(K.recv)]]
		lr.event(K, lrEvent{what: "late", target: c[h.n(len(c))]}, n+i, false)
	}
	lr.fullCheck(K.name+"@long-run", fmt.Sprintf("phase %s: %d calls", K.name, lr.calls[K.name]))
}

// hammer: one early result (or its descendant, or — conversions — the input) receives ALL n
// calls of the phase. Whatever the library counts, if anything it hands out comes round again
// within n calls of this kind, the call that gets it is a call on the value that still
// carries the first one.
func (lr *lrun) hammer(K *lrKind, n, mids int, useDesc bool) {
	h := lr.h
	h.w.Site(K.name + "@long-run")
	rk := K.recv[h.n(len(K.recv))]
	var cands []*entry
	for _, e := range lr.fam[rk] {
		switch v := e.v.(type) {
		case FMap:
			if v.Size() < 4 {
				continue
			}
		case FSet:
			if v.Size() < 4 {
				continue
			}
		}
		cands = append(cands, e)
	}
	if len(cands) == 0 {
		cands = lr.fam[rk]
	}
	base := cands[h.n(len(cands))]
	res, desc := lr.event(K, lrEvent{what: "early"}.on(base), 0, useDesc)
	t := lr.revisitTarget(K, base, res, desc, useDesc)
	h.hot = nil
	switch v := t.v.(type) {
	case FMap:
		h.hot = sortedInts(v.Keys().ToSeq())
	case FSet:
		h.hot = sortedInts(v.Iterator().ToSeq())
	}
	defer func() { h.hot = nil }()
	mid := map[int]bool{}
	for i := 0; i < mids; i++ {
		mid[1+h.n(n-1)] = true
	}
	watch := []*entry{t}
	for p := t.parent; p != nil; p = p.parent {
		watch = append(watch, p)
	}
	h.quiet = true
	for j := 1; j < n && !h.failed; j++ {
		if mid[j] {
			lr.event(K, lrEvent{what: "mid, same receiver as all calls of this phase"}.on(t), j, false)
			continue
		}
		_, _, _, _ = K.call(h, t, j)
		lr.calls[K.name]++
		if j%8192 == 0 {
			h.quiet = false
			h.fresh = h.fresh[:0]
			h.checkEntries(watch, K.name+"@long-run", []*entry{t}, fmt.Sprintf("%d calls of %s, all on v%d", j, K.name, t.id))
			h.quiet = true
		}
	}
	h.quiet = false
	if h.failed {
		return
	}
	lr.hammered++
	lr.event(K, lrEvent{what: "late"}.on(t), n, false)
	lr.fullCheck(K.name+"@long-run", fmt.Sprintf("phase %s: %d calls, all on v%d", K.name, n, t.id))
}

func (ev lrEvent) on(t *entry) lrEvent { ev.target = t; return ev }

// forget drops a value from the live set (it is no longer referenced by the harness).
func (lr *lrun) forget(e *entry) {
	h := lr.h
	rm := func(l []*entry) []*entry {
		for i, x := range l {
			if x == e {
				return append(l[:i:i], l[i+1:]...)
			}
		}
		return l
	}
	h.pool = rm(h.pool)
	lr.fam[e.kind] = rm(lr.fam[e.kind])
	lr.small[e.kind] = rm(lr.small[e.kind])
	for _, x := range h.pool {
		if x.parent == e {
			x.parent = e.parent
		}
	}
	h.w.Add("values.forgotten", 1)
}

// mixed: all kinds round-robin; re-visits at exact distances in the TOTAL number of calls.
func (lr *lrun) mixed(kinds []*lrKind, n, early int) {
	h := lr.h
	h.w.Site("mixed@long-run")
	lr.ctx = "mixed@long-run"
	total := n * len(kinds)
	type slot struct {
		K  *lrKind
		ev lrEvent
	}
	sched := map[int]slot{}
	at := 0
	for _, K := range kinds {
		for i := 0; i < early; i++ {
			c := lr.fam[K.recv[i%len(K.recv)]]
			sched[at] = slot{K, lrEvent{what: "early", target: c[h.n(len(c))]}}
			at += 2
		}
	}
	h.quiet = true
	nEarly := 0
	for g := 0; g < total && !h.failed; g++ {
		if s, ok := sched[g]; ok {
			if s.ev.what == "early" {
				useDesc := nEarly%2 == 1
				nEarly++
				res, desc := lr.event(s.K, s.ev, g, useDesc)
				t := lr.revisitTarget(s.K, s.ev.target, res, desc, useDesc)
				for _, d := range lr.dists {
					if _, taken := sched[g+d]; taken || g+d >= total {
						h.w.Add("longrun.revisits_skipped_slot_taken", 1)
						continue
					}
					sched[g+d] = slot{s.K, lrEvent{what: "revisit", target: t, dist: d, origin: g}}
				}
			} else {
				res, _ := lr.event(s.K, s.ev, g, false)
				lr.exact[s.ev.dist]++
				if res != nil && h.n(4) > 0 {
					lr.forget(res)
				}
			}
			continue
		}
		K := kinds[g%len(kinds)]
		_, _, _, _ = K.call(h, lr.pick(K, g/len(kinds)), g/len(kinds))
		lr.calls[K.name]++
		if g%(total/4) == total/4-1 {
			h.quiet = false
			lr.fullCheck("mixed@long-run", fmt.Sprintf("%d calls of all kinds round-robin", g+1))
			h.quiet = true
		}
	}
	h.quiet = false
	if h.failed {
		return
	}
	for i, K := range kinds {
		c := lr.fam[K.recv[i%len(K.recv)]]
		lr.event(K, lrEvent{what: "late", target: c[h.n(len(c))]}, total+i, false)
	}
	lr.fullCheck("mixed@long-run", fmt.Sprintf("%d calls of all kinds round-robin", total))
}

func (lr *lrun) final() {
	h := lr.h
	for _, e := range h.pool {
		if e.first == nil {
			continue
		}
		ns := h.snapshot(e)
		h.w.Add("snapshots_compared", 1)
		h.w.Add("final_snapshots_compared", 1)
		if d := diff(e.first.root, ns.root); d != nil && !d.spare {
			h.violate("long-run/value-differs-from-its-first-snapshot", e, d, "the whole long-run case")
			return
		}
	}
	h.w.Add("longrun.live_values_at_end", int64(len(h.pool)))
	h.w.Max("longrun.max_live_values_at_end", int64(len(h.pool)))
}

func runLongCase(w *vrt.W, i int) {
	r := w.Rand(i)
	l := layout(w.Tier)
	mode := lrModes[((w.Batch-l.classic-l.second)*l.longCases+i)%len(lrModes)]
	n := lrFloor + r.IntN(1500)
	dists := []int{255, 256, 32767, 32768, 65535, 65536}
	if w.Tier == "thorough" {
		n = 2*lrFloor + r.IntN(1500)
		dists = append(dists, 131071, 131072)
	}
	h := &hist{w: w, idx: i, r: r, universe: []int{12, 24, 48}[r.IntN(3)], maxLive: 1 << 30, logMax: 6000}
	h.extra = map[string]any{"long_run": mode, "calls_per_kind": n}
	lr := &lrun{h: h, calls: map[string]int64{}, exact: map[int]int64{}, dists: dists}
	h.lr = lr
	kinds := lrKinds(lr)
	// a long-run case keeps ~1000 live values with their snapshots while the library allocates
	// millions of short-lived nodes: collect less often
	defer debug.SetGCPercent(debug.SetGCPercent(400))
	w.Begin(i, "long-run")
	w.Guard(i, h.witness, func() {
		lr.setup()
		switch mode {
		case "phased", "hammer":
			// the order of the phases is part of the case
			for pi, ki := range r.Perm(len(kinds)) {
				if h.failed {
					break
				}
				if mode == "phased" {
					lr.phase(kinds[ki], n, 8, 5)
				} else {
					lr.hammer(kinds[ki], n, 5, pi%2 == 1)
				}
			}
		default:
			lr.mixed(kinds, n, 3)
		}
		if !h.failed {
			lr.final()
		}
	})
	w.Done(i)
	w.Add("longrun.cases", 1)
	w.Add("longrun.cases."+mode, 1)
	w.Add("longrun.events", int64(lr.events))
	w.Add("longrun.phases_with_all_calls_on_one_early_result", int64(lr.hammered))
	all := !h.failed
	for _, K := range kinds {
		c := lr.calls[K.name]
		w.Add("longrun.calls."+K.name, c)
		if c < lrFloor {
			all = false
		}
	}
	if all {
		w.Add("longrun.cases_with_at_least_70000_calls_of_every_kind", 1)
	}
	for d, c := range lr.exact {
		w.Add(fmt.Sprintf("longrun.revisits_exactly_%d_calls_later", d), c)
	}
	if h.shared {
		w.DistinctHash(h.fp)
		if w.WantSample() {
			w.Sample(map[string]any{"long_run": mode, "universe": h.universe, "calls_per_kind": n, "events": lastN(h.log, 12)})
		}
	}
}
