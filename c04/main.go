// C04 — values are persistent: no library call alters an existing value or its inputs.
//
// Persistence monitor over branching histories. A pool of live values (slices with spare
// capacity, sub-slice families, Go maps, fp.Map / fp.Set from every constructor, builders
// and what they handed out, fp.List, Option / Try / tuples holding slices) is kept; every
// step applies one library operation to live value(s) and adds the result(s) to the pool.
// Oracle: a deep snapshot (snapshot.go) of EVERY live value is compared with the snapshot
// taken before the operation, and with the snapshot taken at creation at the end of the
// history. ops.go holds the operation table.
//
// Two further case families run in batches appended after the classic ones: second-API
// histories (secondapi.go: encoding/json, fmt, sort, gob, type-class instances applied to
// copies of live values) and long-run cases (longrun.go: more than 2^16 calls of every
// operation kind in one process with early results re-visited at exact call distances).
package main

import (
	"fmt"
	"math/rand/v2"
	"reflect"
	"sort"
	"strings"

	"verif/vrt"

	"github.com/csgura/fp"
	"github.com/csgura/fp/hash"
	"github.com/csgura/fp/immutable"
)

// ---- value universe -------------------------------------------------------------------

type kind int

const (
	kSeq    kind = iota // fp.Seq[int] (= []int)
	kPairs              // fp.Seq[fp.Tuple2[int,int]]
	kGoMap              // map[int]int
	kGroup              // map[int]fp.Seq[int]
	kMap                // fp.Map[int,int]
	kSet                // fp.Set[int]
	kMapB               // immutable.MapBuilder
	kSetB               // immutable.SetBuilder
	kList               // fp.List[int]
	kOpt                // fp.Option[fp.Seq[int]]
	kTry                // fp.Try[fp.Seq[int]]
	kTup                // fp.Tuple2[fp.Seq[int], map[int]int]
	kSeqSeq             // fp.Seq[fp.Seq[int]]
	// kinds that only occur in the second-API histories (secondapi.go)
	kOptMap   // fp.Option[map[string]int]
	kOptPtr   // fp.Option[*boxT]
	kDoc      // docT: a struct holding Options (slice, map, pointer, struct payloads), a Seq of Options, a map of Options
	kOptSeqs  // fp.Seq[fp.Option[fp.Seq[int]]]
	kOptGoMap // map[string]fp.Option[fp.Seq[int]]
	nKinds
)

var kindNames = [...]string{"Seq", "Seq[Tuple2]", "map[int]int", "map[int]Seq", "fp.Map", "fp.Set", "MapBuilder", "SetBuilder", "fp.List", "Option[Seq]", "Try[Seq]", "Tuple2[Seq,map]", "Seq[Seq]",
	"Option[map[string]int]", "Option[*struct]", "struct{Options}", "Seq[Option[Seq]]", "map[string]Option[Seq]"}

type (
	Seq    = fp.Seq[int]
	Pair   = fp.Tuple2[int, int]
	Pairs  = fp.Seq[fp.Tuple2[int, int]]
	GoMap  = map[int]int
	Group  = map[int]fp.Seq[int]
	FMap   = fp.Map[int, int]
	FSet   = fp.Set[int]
	List   = fp.List[int]
	Opt    = fp.Option[fp.Seq[int]]
	Try    = fp.Try[fp.Seq[int]]
	Tup    = fp.Tuple2[fp.Seq[int], map[int]int]
	SeqSeq = fp.Seq[fp.Seq[int]]
)

type hasherT struct {
	name string
	hash func(int) uint32
}

func (h hasherT) Eqv(a, b int) bool { return a == b }
func (h hasherT) Hash(k int) uint32 { return h.hash(k) }

var hashers = []fp.Hashable[int]{
	hasherT{"identity", func(k int) uint32 { return uint32(k) }},
	hasherT{"low3", func(k int) uint32 { return uint32(k) & 7 }},   // full-hash collisions
	hasherT{"const", func(k int) uint32 { return 7 }},              // one collision node
	hasherT{"high", func(k int) uint32 { return uint32(k) << 27 }}, // deep paths
	hasherT{"mul", func(k int) uint32 { return uint32(k) * 2654435761 }},
	hash.Number[int](),
}
var hasherNames = []string{"identity", "low3", "const", "high", "mul", "hash.Number"}

// builderV wraps a builder of the immutable package (its type is unexported).
type builderV struct {
	isSet  bool
	hi     int
	add    func(k, v int)
	build  func() any // fp.Map[int,int] or fp.Set[int]
	built  bool
	handed []int // ids of the collections handed out
}

type entry struct {
	id    int
	kind  kind
	v     any
	hi    int // hasher index of maps/sets, -1: zero value / not applicable
	desc  string
	first *snap
	last  *snap
	// long-run cases: the live value this one was derived from
	parent *entry
}

type opRec struct {
	name string
	ins  []int
	args []string
	outs []int
}

func (o *opRec) String() string {
	var b strings.Builder
	if len(o.outs) > 0 {
		for i, id := range o.outs {
			if i > 0 {
				b.WriteString(",")
			}
			fmt.Fprintf(&b, "v%d", id)
		}
		b.WriteString(" = ")
	}
	b.WriteString(o.name + "(")
	for i, id := range o.ins {
		if i > 0 {
			b.WriteString(", ")
		}
		fmt.Fprintf(&b, "v%d", id)
	}
	for i, a := range o.args {
		if i > 0 || len(o.ins) > 0 {
			b.WriteString(", ")
		}
		b.WriteString(a)
	}
	b.WriteString(")")
	return b.String()
}

type hist struct {
	w        *vrt.W
	idx      int
	r        *rand.Rand
	universe int
	maxLive  int
	pool     []*entry
	nextID   int
	log      []string
	fp       uint64
	failed   bool
	shared   bool // an operation was applied to a value sharing storage with another live value
	cur      opRec
	fresh    []*entry // results of the running operation
	curB     *builderV
	afterB   bool           // the running operation is a use of a builder after Build
	ext      bool           // second-API history: the ext operations of the table are eligible too
	quiet    bool           // long-run filler call: arguments are not rendered
	logMax   int            // 0 = 400
	extra    map[string]any // further witness fields
	lr       *lrun
	hot      []int // long-run hammer phase: the keys of the value that receives all calls
}

func (h *hist) witness() any {
	m := map[string]any{"universe": h.universe, "ops": h.log}
	for k, v := range h.extra {
		m[k] = v
	}
	return m
}

func (h *hist) n(k int) int { return h.r.IntN(k) }
func (h *hist) elem() int   { return h.r.IntN(h.universe) }
func (h *hist) items(n int) []int {
	s := make([]int, n)
	for i := range s {
		s[i] = h.elem()
	}
	return s
}
func (h *hist) arg(format string, a ...any) {
	if h.quiet {
		return
	}
	h.cur.args = append(h.cur.args, fmt.Sprintf(format, a...))
}

// pure callbacks, selected by the case PRNG
func (h *hist) fn() func(int) int {
	c := h.n(3)
	u := h.universe
	h.arg("f%d", c)
	switch c {
	case 0:
		return func(x int) int { return (x*3 + 1) % u }
	case 1:
		return func(x int) int { return (x + u/2) % u }
	}
	return func(x int) int { return x }
}
func (h *hist) pred() func(int) bool {
	c := h.n(4)
	u := h.universe
	h.arg("p%d", c)
	switch c {
	case 0:
		return func(x int) bool { return x%3 != 0 }
	case 1:
		return func(x int) bool { return x < u/2 }
	case 2:
		return func(x int) bool { return true }
	}
	return func(x int) bool { return x%2 == 0 }
}

func (h *hist) byKind(k kind) []*entry {
	var out []*entry
	for _, e := range h.pool {
		if e.kind == k {
			out = append(out, e)
		}
	}
	return out
}

const maxLen = 64

// res adds a result of the running operation to the pool.
func (h *hist) res(k kind, v any) *entry {
	switch k {
	case kSeq:
		s := toSeq(v)
		if len(s) > maxLen {
			h.w.Add("results.not_pooled_too_large", 1)
			return nil
		}
		v = s
	case kPairs:
		if len(v.(Pairs)) > maxLen {
			h.w.Add("results.not_pooled_too_large", 1)
			return nil
		}
	case kSeqSeq:
		if len(v.(SeqSeq)) > 16 {
			h.w.Add("results.not_pooled_too_large", 1)
			return nil
		}
	case kList:
		if n, _ := listLen(v.(List), maxLen+1); n > maxLen {
			h.w.Add("results.not_pooled_too_large", 1)
			return nil
		}
	}
	e := &entry{id: h.nextID, kind: k, v: v, hi: -1}
	h.nextID++
	h.pool = append(h.pool, e)
	h.fresh = append(h.fresh, e)
	h.cur.outs = append(h.cur.outs, e.id)
	return e
}

func (h *hist) resH(k kind, v any, hi int) *entry {
	e := h.res(k, v)
	if e != nil {
		e.hi = hi
		h.census(e)
	}
	return e
}

// census counts which trie node kinds the live maps / sets contain (hook immutable.VerifCheck).
func (h *hist) census(e *entry) {
	var c immutable.VerifCensus
	var err error
	switch e.kind {
	case kMap:
		m := e.v.(FMap)
		if m.Base == nil {
			h.w.Add("live.zero_value_maps", 1)
			return
		}
		c, err = immutable.VerifCheck(m.Base)
	case kSet:
		sm := fp.VerifSetMinimal(e.v.(FSet))
		if sm == nil {
			h.w.Add("live.zero_value_sets", 1)
			return
		}
		c, err = immutable.VerifCheckSet(sm)
	default:
		return
	}
	if err == immutable.ErrVerifNotHamt {
		h.w.Add("live.collections_backed_by_go_map", 1)
		return
	}
	if err != nil {
		return // structural soundness of the trie is C03's business
	}
	h.w.Add("live.tries", 1)
	if c.HashArray > 0 {
		h.w.Add("live.tries_with_hash_array_node", 1)
	}
	if c.Collision > 0 {
		h.w.Add("live.tries_with_collision_node", 1)
	}
	if c.Bitmap > 0 {
		h.w.Add("live.tries_with_bitmap_node", 1)
	}
	if c.Array > 0 {
		h.w.Add("live.tries_with_array_node", 1)
	}
	h.w.Max("max_trie_entries", int64(c.Entries))
}

func toSeq(v any) Seq {
	switch s := v.(type) {
	case Seq:
		return s
	case []int:
		return Seq(s)
	}
	panic(fmt.Sprintf("harness: not a Seq: %T", v))
}

func sortedInts(s []int) Seq {
	c := make(Seq, len(s))
	copy(c, s)
	sort.Ints(c)
	return c
}

func sortedPairs(s []Pair) Pairs {
	c := make(Pairs, len(s))
	copy(c, s)
	sort.Slice(c, func(i, j int) bool {
		if c[i].I1 != c[j].I1 {
			return c[i].I1 < c[j].I1
		}
		return c[i].I2 < c[j].I2
	})
	return c
}

// listLen walks at most limit cells.
func listLen(l List, limit int) (int, bool) {
	n := 0
	for cur := l; cur.NonEmpty(); cur = cur.Tail() {
		n++
		if n >= limit {
			return n, false
		}
	}
	return n, true
}

// ---- snapshots of pool entries --------------------------------------------------------

func (h *hist) observeMap(m FMap) *node {
	var ps []Pair
	it := m.Iterator()
	limit := m.Size() + 64
	for it.HasNext() && len(ps) <= limit {
		ps = append(ps, it.Next())
	}
	ps = sortedPairs(ps)
	flat := make([]int, 0, 2*len(ps))
	for _, p := range ps {
		flat = append(flat, p.I1, p.I2)
	}
	gets := make([]int, 0, h.universe+2)
	for k := -1; k <= h.universe; k++ {
		o := m.Get(k)
		if o.IsDefined() {
			gets = append(gets, o.Get())
		} else {
			gets = append(gets, -999)
		}
	}
	return obsGroup("fp.Map-api", obsGroup("Size", obsInt(m.Size())), obsGroup("IsEmpty", obsBool(m.IsEmpty())), obsInts("Iterator(sorted k,v)", flat), obsInts("Get(-1..universe)", gets))
}

func (h *hist) observeSet(s FSet) *node {
	var es []int
	it := s.Iterator()
	limit := s.Size() + 64
	for it.HasNext() && len(es) <= limit {
		es = append(es, it.Next())
	}
	sort.Ints(es)
	cs := make([]int, 0, h.universe+2)
	for k := -1; k <= h.universe; k++ {
		if s.Contains(k) {
			cs = append(cs, 1)
		} else {
			cs = append(cs, 0)
		}
	}
	return obsGroup("fp.Set-api", obsGroup("Size", obsInt(s.Size())), obsInts("Iterator(sorted)", es), obsInts("Contains(-1..universe)", cs))
}

func observeList(l List) *node {
	var es []int
	complete := true
	for cur := l; cur.NonEmpty(); cur = cur.Tail() {
		if len(es) >= 4*maxLen {
			complete = false
			break
		}
		es = append(es, cur.Head())
	}
	return obsGroup("fp.List-api", obsInts("Head/Tail walk", es), obsGroup("complete", obsBool(complete)))
}

func (h *hist) snapshot(e *entry) *snap {
	if e.kind == kMapB || e.kind == kSetB {
		return nil // builders are mutable by design; what they handed out is checked
	}
	s, wk := newSnap()
	root := wk.walk(reflect.ValueOf(&e.v).Elem())
	kids := []*node{root}
	switch e.kind {
	case kMap:
		kids = append(kids, h.observeMap(e.v.(FMap)))
	case kSet:
		kids = append(kids, h.observeSet(e.v.(FSet)))
	case kList:
		kids = append(kids, observeList(e.v.(List)))
	}
	s.root = obsGroup("value", kids...)
	s.finish()
	if s.trunc {
		h.w.Add("snapshots.truncated", 1)
	}
	h.w.Max("max_snapshot_nodes", int64(s.nodes))
	return s
}

func lastN(s []string, n int) []string {
	if len(s) > n {
		return s[len(s)-n:]
	}
	return s
}

func (h *hist) violate(key string, e *entry, d *difference, opText string) {
	if h.failed {
		return
	}
	h.failed = true
	detail := fmt.Sprintf("after %s\nlive value v%d (%s; %s) changed at path %s: %s -> %s\nlast operations: %s",
		opText, e.id, kindNames[e.kind], e.desc, d.path, d.before, d.after, strings.Join(lastN(h.log, 10), " ; "))
	h.w.Violation(h.idx, key, detail, h.witness())
}

// checkAll re-snapshots every live value and compares with the snapshot taken before the
// operation that has just run.
func (h *hist) checkAll(name string, ins []*entry, opText string) {
	h.checkEntries(h.pool, name, ins, opText)
}

// checkEntries does the comparison of checkAll for the given live values only (long-run
// cases compare the related values at every event and the whole pool at phase ends).
func (h *hist) checkEntries(list []*entry, name string, ins []*entry, opText string) {
	for _, e := range list {
		if e.last == nil || h.failed {
			continue
		}
		isFresh := false
		for _, f := range h.fresh {
			if f == e {
				isFresh = true
			}
		}
		if isFresh {
			continue
		}
		ns := h.snapshot(e)
		h.w.Add("snapshots_compared", 1)
		d := diff(e.last.root, ns.root)
		e.last = ns
		if d == nil {
			continue
		}
		if d.spare {
			// memory between len and cap of a slice, not visible through this value; if any
			// live value saw it inside its length that value reports a hard difference.
			h.w.Add("spare_capacity_changed_but_invisible", 1)
			h.w.Note(fmt.Sprintf("%s changed spare capacity of v%d at %s (%s -> %s); not visible through any live value's length", name, e.id, d.path, d.before, d.after))
			continue
		}
		key := name + "/mutates-other-live-value"
		for _, in := range ins {
			if in == e {
				key = name + "/mutates-input"
			}
		}
		if h.afterB && h.curB != nil {
			for _, id := range h.curB.handed {
				if id == e.id {
					if h.curB.isSet {
						key = name + "/mutates-built-set"
					} else {
						key = name + "/mutates-built-map"
					}
				}
			}
		}
		h.violate(key, e, d, opText)
		return
	}
}

func (h *hist) logOp(text string) {
	lim := h.logMax
	if lim == 0 {
		lim = 400
	}
	if len(h.log) < lim {
		h.log = append(h.log, text)
	}
	h.fp = h.fp*1099511628211 ^ vrt.Hash64(text)
}

func (h *hist) sharesStorage(e *entry) bool {
	if e.last == nil {
		return false
	}
	for _, o := range h.pool {
		if o != e && o.last != nil && overlaps(e.last, o.last) {
			return true
		}
	}
	return false
}

func (h *hist) apply(op *opDef, ins []*entry) {
	h.cur = opRec{name: op.name}
	h.fresh = h.fresh[:0]
	h.curB, h.afterB = nil, false
	sharing := false
	for i, e := range ins {
		h.cur.ins = append(h.cur.ins, e.id)
		if h.sharesStorage(e) {
			sharing = true
		}
		for j := 0; j < i; j++ {
			if ins[j] == e && e.last != nil && len(e.last.regions) > 0 {
				sharing = true
				h.w.Add("ops.same_value_passed_twice", 1)
			}
		}
	}
	h.w.Site(op.name)
	op.run(h, ins)
	name := h.cur.name
	h.w.Hit(name)
	h.w.Add("ops", 1)
	if sharing {
		h.w.Add("ops.on_value_sharing_storage", 1)
		h.shared = true
	}
	text := h.cur.String()
	h.logOp(text)
	for _, e := range h.fresh {
		e.desc = "result of " + text
		e.first = h.snapshot(e)
		e.last = e.first
		if e.first != nil {
			for _, in := range ins {
				if in.last != nil && overlaps(e.first, in.last) {
					h.w.Add("results.sharing_storage_with_input", 1)
					break
				}
			}
		}
	}
	h.checkAll(name, ins, text)
	// bound the pool: forget random older values (they are no longer "live")
	for len(h.pool) > h.maxLive {
		i := h.n(len(h.pool))
		if k := h.pool[i].kind; (k == kMapB || k == kSetB) && len(h.byKind(k)) <= 1 {
			continue // keep one builder of each sort around so that use after Build happens
		}
		h.pool = append(h.pool[:i:i], h.pool[i+1:]...)
		h.w.Add("values.forgotten", 1)
	}
}

func (h *hist) step() {
	var cnt [nKinds]int
	for _, e := range h.pool {
		cnt[e.kind]++
	}
	// classic histories draw from the classic operations only (their PRNG streams are the
	// ones they always had); a second-API history draws every other step from the ext
	// operations alone
	extOnly := false
	if h.ext {
		extOnly = h.n(2) == 0
	}
	eligible := func(op *opDef) bool {
		if op.ext && !h.ext || extOnly && !op.ext {
			return false
		}
		return op.applicable(&cnt)
	}
	total := 0
	for _, op := range ops {
		if eligible(op) {
			total += op.w
		}
	}
	x := h.n(total)
	var chosen *opDef
	for _, op := range ops {
		if eligible(op) {
			if x < op.w {
				chosen = op
				break
			}
			x -= op.w
		}
	}
	ins := make([]*entry, len(chosen.in))
	for i, k := range chosen.in {
		c := h.byKind(k)
		ins[i] = c[h.n(len(c))]
	}
	h.apply(chosen, ins)
}

func (h *hist) run(steps int) {
	// seed the pool: an arena family, pairs, a Go map; everything else arises from operations
	h.apply(opByName["harness.new-arena"], nil)
	h.apply(opByName["harness.new-pairs"], nil)
	h.apply(opByName["harness.new-gomap"], nil)
	if h.n(2) == 0 {
		h.apply(opByName["harness.new-arena"], nil)
	}
	if h.ext {
		// second-API histories start with Options over live slices / one Go map / one pointer,
		// a struct holding such Options (and a copy of it), a Seq and a Go map of Options
		base := h.pool[0]
		h.apply(opByName["fp.Some"], []*entry{base})
		opt := h.byKind(kOpt)[0]
		h.apply(opByName["harness.new-optmap"], nil)
		h.apply(opByName["harness.new-optptr"], []*entry{base})
		h.apply(opByName["harness.new-optseqs"], []*entry{base, opt})
		h.apply(opByName["harness.new-doc"], []*entry{base, opt})
	}
	for s := 0; s < steps && !h.failed; s++ {
		h.step()
	}
	if h.failed {
		return
	}
	// end of history: every live value against the snapshot taken when it was created
	for _, e := range h.pool {
		if e.first == nil {
			continue
		}
		ns := h.snapshot(e)
		h.w.Add("snapshots_compared", 1)
		h.w.Add("final_snapshots_compared", 1)
		if d := diff(e.first.root, ns.root); d != nil && !d.spare {
			h.violate("history/value-differs-from-its-first-snapshot", e, d, "the whole history")
			return
		}
	}
	h.w.Add("live_values_at_end", int64(len(h.pool)))
	h.w.Max("max_live_values_at_end", int64(len(h.pool)))
}

func runCase(w *vrt.W, i int, ext bool) {
	r := w.Rand(i)
	steps, maxLive := 30, 14
	if w.Tier == "thorough" {
		steps, maxLive = 60, 18
	}
	if ext {
		maxLive += 10
	}
	h := &hist{w: w, idx: i, r: r, universe: []int{6, 12, 24, 48}[r.IntN(4)], maxLive: maxLive, ext: ext}
	w.Begin(i, "history")
	w.Guard(i, h.witness, func() { h.run(steps) })
	w.Done(i)
	w.Add("histories", 1)
	if ext {
		w.Add("histories.second_api", 1)
	}
	if h.shared {
		w.Add("histories.with_op_on_shared_storage", 1)
		w.DistinctHash(h.fp)
		if w.WantSample() {
			w.Sample(map[string]any{"universe": h.universe, "ops": lastN(h.log, 24)})
		}
	}
}

// Batch layout: [classic histories | second-API histories | long-run cases]; the newer
// families are appended so that the classic batches keep their numbers and PRNG streams.
type layoutT struct{ classic, second, long, longCases int }

func layout(tier string) layoutT {
	if tier == "thorough" {
		return layoutT{classic: 160, second: 40, long: 16, longCases: 2}
	}
	return layoutT{classic: 16, second: 8, long: 8, longCases: 2}
}

func main() {
	vrt.Main(vrt.Config{
		Property: "C04",
		Batches: func(tier string) int {
			l := layout(tier)
			return l.classic + l.second + l.long
		},
		Cases: func(tier string, b int) int {
			l := layout(tier)
			if b >= l.classic+l.second {
				return l.longCases
			}
			return 250
		},
		RaceBatch: func(tier string, b int) bool {
			return tier == "thorough" && b%10 == 0 && b < layout(tier).classic+layout(tier).second
		},
		CaseCPUBudget: 240,
		Run: func(w *vrt.W) {
			l := layout(w.Tier)
			for i := w.From; i < w.To; i++ {
				switch {
				case w.Batch < l.classic:
					runCase(w, i, false)
				case w.Batch < l.classic+l.second:
					runCase(w, i, true)
				default:
					runLongCase(w, i)
				}
			}
		},
		Rule: "case = one branching history: a pool of live values (int slices cut from shared arenas with spare capacity, sub-slice views, Go maps, fp.Map/fp.Set from immutable.Map/Set, MapBuilder/SetBuilder, seq|iterator|list.ToMap/ToSet and the zero values over 6 hashers incl. fully colliding ones, builders with what they handed out, fp.List as Cons / slice-backed / lazy, Option/Try/Tuple2 holding live slices, Seq[Seq]) and 30 (quick) / 60 (thorough) PRNG-chosen steps, each applying one library operation from the table (hits) to PRNG-chosen live value(s) and adding the result(s) to the pool (max 14/18 live values, random older ones are forgotten). After every step a deep snapshot of every live value (slices up to capacity, maps, pointers, unexported struct fields, plus the public-API view of fp.Map/fp.Set/fp.List) is compared with its snapshot from before the step, and at the end with its snapshot at creation. A difference confined to the part of a slice between len and cap is counted (spare_capacity_changed_but_invisible) but is a violation only when a live value sees that memory inside its length (then that value differs). " +
			"Second-API histories (batches after the classic ones) additionally hold Option[map], Option[*struct], a struct holding Options with slice/map/pointer/struct payloads plus a Seq and a Go map of Options, all sharing payload storage with other live values, and draw every other step from the second-API operations: encoding/json Unmarshal of a PRNG document into a COPY of a live Option / struct / Seq[Option] / map[string]Option (the copy is a new value; every other live value incl. the one copied from must be unchanged), Marshal + Unmarshal round trips, fmt.Sprint / String() / show instances, clone instances, package sort and slices with ord instances on copies whose elements are live, eq/hash instances, gob round trips of tuples. " +
			"Long-run cases (last batches, 2 per batch, modes phased / hammer / mixed): a set of ~70 live values, then for each of 24 operation kinds more than 70 000 separate library calls of that kind in ONE process (on throw-away values and on the live ones), with derivations kept live before, at PRNG positions in the middle and after, and the same operation applied again to an early result (or a descendant sharing structure, or the same input) exactly 255/256/32767/32768/65535/65536 calls later (phased: calls of that kind, nothing else in between; mixed: total calls, all kinds round-robin; hammer: per kind ONE early result — or its descendant, or for conversions the input — receives all 70 000 calls of the phase, so a recycled id / buffer meets the value still carrying the first one whatever the library counts); related live values are compared at every such event, the whole pool at every phase end and at the end. " +
			"distinct_nontrivial counts distinct operation-sequence fingerprints of histories in which at least one operation was applied to a value whose walked memory regions (slice backing arrays up to cap, pointees, map headers) overlap those of another live value, measured from the snapshots (long-run cases: a re-visit at distance >= 65535 hit such a value).",
		Assumptions: []string{
			"histories are PRNG samples, element type int, at most 64 elements per value",
			"captured variables of closures (e.g. the sync.Once memo of lazy lists, iterator state) are not walked; lazy lists are observed through Head/Tail",
			"fp.Iterator values are single-use cursors and are not pool values; only their sources and results are",
			"callbacks given to the library are pure",
			"race batches (thorough): 2 goroutines apply read-only operations to shared live values; only reports with a frame under /repo count",
			"second APIs: encoding/json and encoding/gob themselves re-use slices, maps and pointers they find in a decoding target; that is not the library's doing, so a copy used as target shares storage with live values only below an fp.Option (where Option.UnmarshalJSON decides what is written), outer Seq / Go map containers of a copy are copied one level, gob decodes into zero values",
			"long-run cases count harness-level calls (one builder cycle = Add… + Build = one call); wrap-arounds of library-internal counters that advance differently are only met by chance",
		},
		Floors: func(tier string) map[string]int64 {
			f := map[string]int64{"snapshots_compared": 1000000, "ops.on_value_sharing_storage": 10000, "distinct": 2000, "results.sharing_storage_with_input": 5000, "builder.refused_after_build": 1, "concurrent.rounds": 10, "live.tries_with_hash_array_node": 50, "live.tries_with_collision_node": 50, "live.tries_with_bitmap_node": 50, "live.tries_with_array_node": 50, "live.collections_backed_by_go_map": 50}
			for _, op := range ops {
				f["hit."+op.name] = 5
			}
			for _, n := range extraHitNames {
				f["hit."+n] = 5
			}
			// second APIs
			f["secondapi.decode_into_copy_sharing_storage_with_live_value"] = 2000
			f["secondapi.json_unmarshal_calls"] = 5000
			f["secondapi.gob_round_trips"] = 10
			// long run: every case performs > 2^16 calls of every kind in one process
			l := layout(tier)
			nLong := int64(l.long * l.longCases)
			f["longrun.cases_with_at_least_70000_calls_of_every_kind"] = nLong
			for _, K := range lrKinds(nil) {
				f["longrun.calls."+K.name] = lrFloor * nLong
			}
			for _, d := range []int{255, 256, 32767, 32768, 65535, 65536} {
				f[fmt.Sprintf("longrun.revisits_exactly_%d_calls_later", d)] = 150*lrModeCount(tier, "phased") + 50*lrModeCount(tier, "mixed")
			}
			f["longrun.revisits_at_2^16_on_value_sharing_storage"] = 20 * (lrModeCount(tier, "phased") + lrModeCount(tier, "mixed"))
			f["longrun.phases_with_all_calls_on_one_early_result"] = int64(len(lrKinds(nil))) * lrModeCount(tier, "hammer")
			return f
		},
		Finish: func(tier string, m *vrt.Merged, cov map[string]any) {
			cov["operations_in_table"] = len(ops) + len(extraHitNames)
			cov["long_run_operation_kinds"] = len(lrKinds(nil))
			cov["long_run_calls_per_kind_and_case_at_least"] = lrFloor
			cov["snapshots_compared"] = m.Counters["snapshots_compared"]
			if h := m.Counters["histories"]; h > 0 {
				cov["mean_live_values_at_end"] = float64(m.Counters["live_values_at_end"]) / float64(h)
			}
		},
	})
}
