// Operation table of the C04 persistence monitor. Every entry applies one library call (or a
// short fixed composition such as Take followed by Append) to PRNG-chosen live values and
// hands the results to the pool. Callbacks given to the library are pure. Results whose
// element ORDER would depend on Go map iteration order are pooled as sorted copies so that
// a case stays a pure function of its seed.
package main

import (
	"errors"
	"fmt"
	"sync"

	"github.com/csgura/fp"
	"github.com/csgura/fp/as"
	"github.com/csgura/fp/clone"
	"github.com/csgura/fp/immutable"
	"github.com/csgura/fp/iterator"
	"github.com/csgura/fp/lazy"
	"github.com/csgura/fp/list"
	"github.com/csgura/fp/monoid"
	"github.com/csgura/fp/option"
	"github.com/csgura/fp/ord"
	"github.com/csgura/fp/product"
	"github.com/csgura/fp/seq"
	"github.com/csgura/fp/try"
)

type opDef struct {
	name string
	w    int
	in   []kind
	run  func(h *hist, in []*entry)
	ext  bool // second-API operation (secondapi.go): only drawn in second-API histories
}

func (o *opDef) applicable(cnt *[nKinds]int) bool {
	for _, k := range o.in {
		if cnt[k] == 0 {
			return false
		}
	}
	return true
}

var (
	ops           []*opDef
	opByName      = map[string]*opDef{}
	extraHitNames = []string{"MapBuilder.Add-after-Build", "MapBuilder.Build-after-Build", "SetBuilder.Add-after-Build", "SetBuilder.Build-after-Build"}
)

func def(name string, w int, in []kind, run func(h *hist, in []*entry)) {
	if opByName[name] != nil {
		panic("duplicate op " + name)
	}
	o := &opDef{name: name, w: w, in: in, run: run}
	ops = append(ops, o)
	opByName[name] = o
}

func seqOp(name string, f func(h *hist, s Seq)) {
	def(name, 2, []kind{kSeq}, func(h *hist, in []*entry) { f(h, in[0].v.(Seq)) })
}
func seq2Op(name string, f func(h *hist, a, b Seq)) {
	def(name, 2, []kind{kSeq, kSeq}, func(h *hist, in []*entry) { f(h, in[0].v.(Seq), in[1].v.(Seq)) })
}
func pairsOp(name string, f func(h *hist, s Pairs)) {
	def(name, 2, []kind{kPairs}, func(h *hist, in []*entry) { f(h, in[0].v.(Pairs)) })
}
func listOp(name string, f func(h *hist, l List)) {
	def(name, 2, []kind{kList}, func(h *hist, in []*entry) { f(h, in[0].v.(List)) })
}
func mapOp(name string, f func(h *hist, e *entry, m FMap)) {
	def(name, 3, []kind{kMap}, func(h *hist, in []*entry) { f(h, in[0], in[0].v.(FMap)) })
}
func setOp(name string, f func(h *hist, e *entry, s FSet)) {
	def(name, 3, []kind{kSet}, func(h *hist, in []*entry) { f(h, in[0], in[0].v.(FSet)) })
}
func optOp(name string, f func(h *hist, o Opt)) {
	def(name, 1, []kind{kOpt}, func(h *hist, in []*entry) { f(h, in[0].v.(Opt)) })
}
func tryOp(name string, f func(h *hist, t Try)) {
	def(name, 1, []kind{kTry}, func(h *hist, in []*entry) { f(h, in[0].v.(Try)) })
}

type iterOfSeq[T any] struct{ s []T }

func (r iterOfSeq[T]) Iterator() fp.Iterator[T] { return fp.IteratorOfSeq(r.s) }

func (h *hist) ordInt() fp.Ord[int] {
	if h.n(3) == 0 {
		h.arg("desc")
		return ord.Given[int]().Reversed()
	}
	h.arg("asc")
	return ord.Given[int]()
}

// iterOf makes an iterator that reads the live slice s directly.
func (h *hist) iterOf(s Seq) fp.Iterator[int] {
	c := h.n(5)
	h.arg("src%d", c)
	switch c {
	case 0:
		return iterator.FromSeq(s)
	case 1:
		return seq.Iterator(s)
	case 2:
		return iterator.FromSlice(s)
	case 3:
		return iterator.Of(s...)
	}
	return fp.IteratorOfSeq(s)
}

func (h *hist) hasher() (fp.Hashable[int], int) {
	hi := h.n(len(hashers))
	h.arg("hasher=%s", hasherNames[hi])
	return hashers[hi], hi
}

// takeN: a count around the length of s (may exceed it by one)
func (h *hist) takeN(l int) int {
	n := h.n(l + 2)
	h.arg("%d", n)
	return n
}

func optInt(p func(int) bool, f func(int) int) func(int) fp.Option[int] {
	return func(x int) fp.Option[int] {
		if p(x) {
			return fp.Some(f(x))
		}
		return fp.None[int]()
	}
}

var errStop = errors.New("stop")

func (h *hist) builderUse(bv *builderV, name string, f func()) {
	h.curB = bv
	if !bv.built {
		h.cur.name = name
		f()
		return
	}
	h.cur.name = name + "-after-Build"
	h.afterB = true
	func() {
		defer func() {
			if r := recover(); r != nil {
				// a builder may refuse to be used after Build (DESIGN.md section 5)
				h.w.Add("builder.refused_after_build", 1)
				h.arg("panicked: %v", r)
			}
		}()
		f()
		h.w.Add("builder.accepted_use_after_build", 1)
	}()
}

func init() {
	// ---- harness-side creation of live values -----------------------------------------
	def("harness.new-arena", 2, nil, func(h *hist, _ []*entry) {
		n := 1 + h.n(12)
		if h.n(4) == 0 {
			n = 1 + h.n(40)
		}
		spare := h.n(8)
		arr := make([]int, n, n+spare)
		for i := range arr {
			arr[i] = h.elem()
		}
		h.arg("%v cap=%d", arr, n+spare)
		h.res(kSeq, Seq(arr))
		views := h.n(4)
		for i := 0; i < views; i++ {
			a := h.n(n + 1)
			b := a + h.n(n-a+1)
			switch h.n(3) {
			case 0: // prefix: its spare capacity is visible through the full slice
				h.arg("view[:%d]", b)
				h.res(kSeq, Seq(arr[:b]))
			case 1:
				h.arg("view[%d:%d]", a, b)
				h.res(kSeq, Seq(arr[a:b]))
			default:
				h.arg("view[%d:%d:%d]", a, b, b)
				h.res(kSeq, Seq(arr[a:b:b]))
			}
		}
	})
	def("harness.new-pairs", 1, nil, func(h *hist, _ []*entry) {
		n := h.n(14)
		if h.n(3) == 0 {
			n = h.n(56)
		}
		spare := h.n(4)
		ps := make(Pairs, n, n+spare)
		for i := range ps {
			ps[i] = as.Tuple2(h.elem(), h.elem())
		}
		h.arg("%v cap=%d", ps, n+spare)
		h.res(kPairs, ps)
	})
	def("harness.new-gomap", 1, nil, func(h *hist, _ []*entry) {
		n := h.n(12)
		m := GoMap{}
		for i := 0; i < n; i++ {
			m[h.elem()] = h.elem()
		}
		h.arg("%v", m)
		h.res(kGoMap, m)
	})
	// a further view of a live slice: any window of its backing array up to capacity, i.e.
	// "a longer slice of the same array" for whatever was cut from it
	seqOp("harness.alias-view", func(h *hist, s Seq) {
		c := cap(s)
		a := h.n(c + 1)
		b := a + h.n(c-a+1)
		h.arg("[%d:%d] of cap %d", a, b, c)
		h.res(kSeq, Seq(s[a:b]))
	})
	def("harness.group-pick", 1, []kind{kGroup}, func(h *hist, in []*entry) {
		g := in[0].v.(Group)
		k := h.elem()
		h.arg("key %d", k)
		if s, ok := g[k]; ok {
			h.res(kSeq, s)
		}
	})

	// ---- fp.Seq / package seq ------------------------------------------------------------
	seqOp("seq.Sort", func(h *hist, s Seq) { h.res(kSeq, seq.Sort(s, h.ordInt())) })
	seqOp("Seq.Reverse", func(h *hist, s Seq) { h.res(kSeq, s.Reverse()) })
	seqOp("seq.Distinct", func(h *hist, s Seq) { h.res(kSeq, seq.Distinct(s)) })
	seqOp("Seq.Append", func(h *hist, s Seq) {
		it := h.items(h.n(4))
		h.arg("%v", it)
		h.res(kSeq, s.Append(it...))
	})
	seqOp("Seq.Add", func(h *hist, s Seq) {
		x := h.elem()
		h.arg("%d", x)
		h.res(kSeq, s.Add(x))
	})
	seq2Op("Seq.Concat", func(h *hist, a, b Seq) { h.res(kSeq, a.Concat(b)) })
	seqOp("seq.Concat", func(h *hist, s Seq) {
		x := h.elem()
		h.arg("head %d", x)
		h.res(kSeq, seq.Concat(x, s))
	})
	subThenAppend := func(name string, sub func(h *hist, s Seq) Seq) {
		seqOp(name, func(h *hist, s Seq) {
			r := sub(h, s)
			h.res(kSeq, r)
			it := h.items(1 + h.n(3))
			h.arg("then Append%v", it)
			h.res(kSeq, r.Append(it...))
			if h.n(2) == 0 {
				x := h.elem()
				h.arg("then Add %d", x)
				h.res(kSeq, r.Add(x))
			}
		})
	}
	subThenAppend("Seq.Take+Append", func(h *hist, s Seq) Seq { return s.Take(h.takeN(len(s))) })
	subThenAppend("Seq.Drop+Append", func(h *hist, s Seq) Seq { return s.Drop(h.takeN(len(s))) })
	subThenAppend("Seq.Init+Append", func(h *hist, s Seq) Seq { return s.Init() })
	subThenAppend("Seq.Tail+Append", func(h *hist, s Seq) Seq { return s.Tail() })
	subThenAppend("seq.Init+Append", func(h *hist, s Seq) Seq { return seq.Init(s) })
	subThenAppend("seq.Tail+Append", func(h *hist, s Seq) Seq { return seq.Tail(s) })
	subThenAppend("Seq.UnSeq+Append", func(h *hist, s Seq) Seq { _, t := s.UnSeq(); return t })
	seqOp("Seq.Map", func(h *hist, s Seq) { h.res(kSeq, s.Map(h.fn())) })
	seqOp("seq.Map", func(h *hist, s Seq) { h.res(kSeq, seq.Map(s, h.fn())) })
	seqOp("Seq.Filter", func(h *hist, s Seq) { h.res(kSeq, s.Filter(h.pred())) })
	seqOp("Seq.FilterNot", func(h *hist, s Seq) { h.res(kSeq, s.FilterNot(h.pred())) })
	seqOp("Seq.FlatMap", func(h *hist, s Seq) {
		f, p := h.fn(), h.pred()
		h.res(kSeq, s.FlatMap(func(x int) Seq {
			if p(x) {
				return Seq{x, f(x)}
			}
			return nil
		}))
	})
	seq2Op("seq.FlatMap", func(h *hist, a, b Seq) {
		// the callback hands out sub-slices of another live value
		h.res(kSeq, seq.FlatMap(a, func(x int) Seq { return b.Take(x % 3) }))
	})
	seqOp("seq.FilterMap", func(h *hist, s Seq) { h.res(kSeq, seq.FilterMap(s, optInt(h.pred(), h.fn()))) })
	seq2Op("seq.Map2", func(h *hist, a, b Seq) {
		u := h.universe
		h.res(kSeq, seq.Map2(a.Take(6), b.Take(6), func(x, y int) int { return (x + y) % u }))
	})
	def("seq.Of[Seq]", 2, []kind{kSeq, kSeq}, func(h *hist, in []*entry) {
		a, b := in[0].v.(Seq), in[1].v.(Seq)
		n := h.takeN(len(a))
		h.res(kSeqSeq, seq.Of(a, b, a.Take(n)))
	})
	def("seq.Flatten", 2, []kind{kSeqSeq}, func(h *hist, in []*entry) { h.res(kSeq, seq.Flatten(in[0].v.(SeqSeq))) })
	def("seq.Reduce(MergeSeq)", 2, []kind{kSeqSeq}, func(h *hist, in []*entry) {
		h.res(kSeq, seq.Reduce(in[0].v.(SeqSeq), monoid.MergeSeq[int]()))
	})
	def("seq.Sort[Seq[Seq]]", 2, []kind{kSeqSeq}, func(h *hist, in []*entry) {
		h.res(kSeqSeq, seq.Sort(in[0].v.(SeqSeq), ord.Seq(ord.Given[int]())))
	})
	def("Seq[Seq].Reverse+Append", 1, []kind{kSeqSeq, kSeq}, func(h *hist, in []*entry) {
		ss := in[0].v.(SeqSeq)
		h.res(kSeqSeq, ss.Reverse())
		h.res(kSeqSeq, ss.Append(in[1].v.(Seq)))
	})
	seqOp("seq.FoldMap(MergeSeq)", func(h *hist, s Seq) {
		f := h.fn()
		h.res(kSeq, seq.FoldMap(s, monoid.MergeSeq[int](), func(x int) Seq { return Seq{f(x)} }))
	})
	seq2Op("seq.Fold", func(h *hist, s, zero Seq) {
		// the accumulator starts from a LIVE value and grows through the library only
		h.res(kSeq, seq.Fold(s, zero, func(acc Seq, x int) Seq { return acc.Add(x) }))
	})
	seq2Op("seq.FoldTry", func(h *hist, s, zero Seq) {
		limit := h.takeN(len(s))
		t := seq.FoldTry(s, zero, func(acc Seq, x int) fp.Try[Seq] {
			if len(acc) > len(zero)+limit {
				return fp.Failure[Seq](errStop)
			}
			return fp.Success(acc.Add(x))
		})
		h.res(kTry, t)
	})
	seq2Op("seq.FoldOption", func(h *hist, s, zero Seq) {
		limit := h.takeN(len(s))
		o := seq.FoldOption(s, zero, func(acc Seq, x int) fp.Option[Seq] {
			if len(acc) > len(zero)+limit {
				return fp.None[Seq]()
			}
			return fp.Some(acc.Add(x))
		})
		h.res(kOpt, o)
	})
	seqOp("seq.FoldError", func(h *hist, s Seq) {
		limit := h.takeN(len(s))
		i := 0
		_ = seq.FoldError(s, func(x int) error {
			i++
			if i > limit {
				return errStop
			}
			return nil
		})
	})
	seqOp("seq.FoldRight", func(h *hist, s Seq) {
		r := seq.FoldRight(s, Seq(nil), func(x int, acc lazy.Eval[Seq]) lazy.Eval[Seq] {
			return acc.Map(func(t Seq) Seq { return t.Add(x) })
		})
		h.res(kSeq, r.Get())
	})
	seqOp("seq.Scan", func(h *hist, s Seq) {
		u := h.universe
		h.res(kSeq, seq.Scan(s, 0, func(acc, x int) int { return (acc + x) % u }))
	})
	seqOp("seq.GroupBy", func(h *hist, s Seq) { h.res(kGroup, Group(seq.GroupBy(s, func(x int) int { return x % 3 }))) })
	seqOp("seq.Span", func(h *hist, s Seq) {
		a, b := seq.Span(s, h.pred())
		h.res(kSeq, a)
		h.res(kSeq, b)
	})
	seqOp("seq.Partition", func(h *hist, s Seq) {
		a, b := seq.Partition(s, h.pred())
		h.res(kSeq, a)
		h.res(kSeq, b)
	})
	seq2Op("seq.Zip", func(h *hist, a, b Seq) { h.res(kPairs, Pairs(seq.Zip(a, b))) })
	seqOp("seq.ZipWithIndex", func(h *hist, s Seq) { h.res(kPairs, Pairs(seq.ZipWithIndex(s))) })
	seqOp("seq.ToSet", func(h *hist, s Seq) {
		hs, hi := h.hasher()
		h.resH(kSet, seq.ToSet(s, hs), hi)
	})
	seqOp("seq.ToGoSet", func(h *hist, s Seq) { _ = seq.ToGoSet(s) })
	pairsOp("seq.ToMap", func(h *hist, s Pairs) {
		hs, hi := h.hasher()
		h.resH(kMap, seq.ToMap(s, hs), hi)
	})
	pairsOp("seq.ToGoMap", func(h *hist, s Pairs) { h.res(kGoMap, GoMap(seq.ToGoMap(s))) })
	seqOp("seq.Of", func(h *hist, s Seq) { h.res(kSeq, seq.Of(s...)) })
	pairsOp("Seq[Tuple2].Append/Reverse/Take", func(h *hist, s Pairs) {
		p := as.Tuple2(h.elem(), h.elem())
		h.arg("%v", p)
		h.res(kPairs, s.Append(p))
		h.res(kPairs, s.Reverse())
		r := s.Take(h.takeN(len(s)))
		h.res(kPairs, r)
		h.res(kPairs, r.Add(p))
	})
	def("seq.FromMap", 1, []kind{kGoMap}, func(h *hist, in []*entry) {
		h.res(kPairs, sortedPairs(seq.FromMap(in[0].v.(GoMap))))
	})
	def("seq.FromMapKeys", 1, []kind{kGoMap}, func(h *hist, in []*entry) {
		h.res(kSeq, sortedInts(seq.FromMapKeys(in[0].v.(GoMap))))
	})
	def("seq.FromMapValues", 1, []kind{kGoMap}, func(h *hist, in []*entry) {
		h.res(kSeq, sortedInts(seq.FromMapValues(in[0].v.(GoMap))))
	})
	seqOp("Seq.read-only-methods", func(h *hist, s Seq) {
		p := h.pred()
		i := h.takeN(len(s))
		_, _, _ = s.Exists(p), s.ForAll(p), s.Find(p)
		s.Foreach(func(int) {})
		_, _, _, _ = s.Get(i), s.Head(), s.Last(), s.MakeString(",")
		_, _, _ = s.Size(), s.IsEmpty(), s.NonEmpty()
		_, _ = seq.Min(s, ord.Given[int]()), seq.Max(s, ord.Given[int]())
		_, _, _ = seq.Head(s), seq.Last(s), seq.Size(s)
		_ = s.Widen()
	})
	seqOp("seq.Collect", func(h *hist, s Seq) { h.res(kSeq, seq.Collect(h.iterOf(s))) })

	// ---- clone / monoid --------------------------------------------------------------------
	seqOp("clone.Seq", func(h *hist, s Seq) { h.res(kSeq, clone.Seq(clone.Given[int]()).Clone(s)) })
	seqOp("clone.Slice", func(h *hist, s Seq) { h.res(kSeq, clone.Slice(clone.Given[int]()).Clone([]int(s))) })
	def("clone.GoMap", 1, []kind{kGoMap}, func(h *hist, in []*entry) {
		h.res(kGoMap, clone.GoMap(clone.Given[int](), clone.Given[int]()).Clone(in[0].v.(GoMap)))
	})
	def("clone.Seq[Seq]", 1, []kind{kSeqSeq}, func(h *hist, in []*entry) {
		h.res(kSeqSeq, clone.Seq(clone.Seq(clone.Given[int]())).Clone(in[0].v.(SeqSeq)))
	})
	optOp("clone.Option", func(h *hist, o Opt) { h.res(kOpt, clone.Option(clone.Seq(clone.Given[int]())).Clone(o)) })
	def("clone.Tuple2", 1, []kind{kTup}, func(h *hist, in []*entry) {
		c := clone.Tuple2(clone.Seq(clone.Given[int]()), clone.GoMap(clone.Given[int](), clone.Given[int]()))
		h.res(kTup, c.Clone(in[0].v.(Tup)))
	})
	seq2Op("monoid.MergeSeq", func(h *hist, a, b Seq) { h.res(kSeq, monoid.MergeSeq[int]().Combine(a, b)) })
	seq2Op("monoid.MergeSlice", func(h *hist, a, b Seq) { h.res(kSeq, monoid.MergeSlice[int]().Combine([]int(a), []int(b))) })
	def("monoid.MergeGoMap", 2, []kind{kGoMap, kGoMap}, func(h *hist, in []*entry) {
		h.res(kGoMap, monoid.MergeGoMap[int, int]().Combine(in[0].v.(GoMap), in[1].v.(GoMap)))
	})
	def("monoid.MergeMap", 2, []kind{kMap, kMap}, func(h *hist, in []*entry) {
		h.resH(kMap, monoid.MergeMap[int, int]().Combine(in[0].v.(FMap), in[1].v.(FMap)), in[0].hi)
	})
	def("monoid.MergeSet", 2, []kind{kSet, kSet}, func(h *hist, in []*entry) {
		h.resH(kSet, monoid.MergeSet[int]().Combine(in[0].v.(FSet), in[1].v.(FSet)), in[0].hi)
	})
	def("monoid.Option(MergeSeq)", 1, []kind{kOpt, kOpt}, func(h *hist, in []*entry) {
		h.res(kOpt, monoid.Option(monoid.MergeSeq[int]()).Combine(in[0].v.(Opt), in[1].v.(Opt)))
	})
	def("monoid.Try(MergeSeq)", 1, []kind{kTry, kTry}, func(h *hist, in []*entry) {
		h.res(kTry, monoid.Try(monoid.MergeSeq[int]()).Combine(in[0].v.(Try), in[1].v.(Try)))
	})
	def("monoid.Tuple2(MergeSeq,MergeGoMap)", 1, []kind{kTup, kTup}, func(h *hist, in []*entry) {
		m := monoid.Tuple2(monoid.MergeSeq[int](), monoid.MergeGoMap[int, int]())
		h.res(kTup, m.Combine(in[0].v.(Tup), in[1].v.(Tup)))
	})

	// ---- iterators reading live slices -----------------------------------------------------
	seqOp("Iterator.ToSeq", func(h *hist, s Seq) { h.res(kSeq, h.iterOf(s).ToSeq()) })
	seqOp("Iterator.Filter", func(h *hist, s Seq) { h.res(kSeq, h.iterOf(s).Filter(h.pred()).ToSeq()) })
	seqOp("Iterator.FilterNot", func(h *hist, s Seq) { h.res(kSeq, h.iterOf(s).FilterNot(h.pred()).ToSeq()) })
	seqOp("Iterator.Map", func(h *hist, s Seq) { h.res(kSeq, h.iterOf(s).Map(h.fn()).ToSeq()) })
	seq2Op("Iterator.FlatMap", func(h *hist, a, b Seq) {
		h.res(kSeq, h.iterOf(a).FlatMap(func(x int) fp.Iterator[int] { return iterator.FromSeq(b.Take(x % 3)) }).ToSeq())
	})
	seqOp("Iterator.Take", func(h *hist, s Seq) { h.res(kSeq, h.iterOf(s).Take(h.takeN(len(s))).ToSeq()) })
	seqOp("Iterator.Drop", func(h *hist, s Seq) { h.res(kSeq, h.iterOf(s).Drop(h.takeN(len(s))).ToSeq()) })
	seqOp("Iterator.TakeWhile", func(h *hist, s Seq) { h.res(kSeq, h.iterOf(s).TakeWhile(h.pred()).ToSeq()) })
	seqOp("Iterator.DropWhile", func(h *hist, s Seq) { h.res(kSeq, h.iterOf(s).DropWhile(h.pred()).ToSeq()) })
	seq2Op("Iterator.Concat", func(h *hist, a, b Seq) {
		x := h.elem()
		h.res(kSeq, h.iterOf(a).Concat(h.iterOf(b)).Appended(x).Concat(h.iterOf(a)).ToSeq())
	})
	seqOp("Iterator.Appended", func(h *hist, s Seq) { h.res(kSeq, h.iterOf(s).Appended(h.elem()).ToSeq()) })
	seqOp("Iterator.read-only-methods", func(h *hist, s Seq) {
		p := h.pred()
		_, _, _ = h.iterOf(s).Exists(p), h.iterOf(s).ForAll(p), h.iterOf(s).Find(p)
		_, _ = h.iterOf(s).Count(), h.iterOf(s).MakeString(",")
		h.iterOf(s).TapEach(func(int) {}).Foreach(func(int) {})
		for range h.iterOf(s).All() {
		}
		_, _ = h.iterOf(s).NextOption(), h.iterOf(s).IsEmpty()
	})
	seqOp("iterator.Map", func(h *hist, s Seq) { h.res(kSeq, iterator.Map(h.iterOf(s), h.fn()).ToSeq()) })
	seq2Op("iterator.FlatMap", func(h *hist, a, b Seq) {
		h.res(kSeq, iterator.FlatMap(h.iterOf(a), func(x int) fp.Iterator[int] { return iterator.FromSeq(b.Drop(max(0, len(b)-x%3))) }).ToSeq())
	})
	seqOp("iterator.FilterMap", func(h *hist, s Seq) { h.res(kSeq, iterator.FilterMap(h.iterOf(s), optInt(h.pred(), h.fn())).ToSeq()) })
	seq2Op("iterator.Zip", func(h *hist, a, b Seq) { h.res(kPairs, Pairs(iterator.Zip(h.iterOf(a), h.iterOf(b)).ToSeq())) })
	seqOp("iterator.ZipWithIndex", func(h *hist, s Seq) { h.res(kPairs, Pairs(iterator.ZipWithIndex(h.iterOf(s)).ToSeq())) })
	seqOp("iterator.Scan", func(h *hist, s Seq) {
		u := h.universe
		h.res(kSeq, iterator.Scan(h.iterOf(s), 0, func(acc, x int) int { return (acc + x) % u }).ToSeq())
	})
	seq2Op("iterator.Fold", func(h *hist, s, zero Seq) {
		h.res(kSeq, iterator.Fold(h.iterOf(s), zero, func(acc Seq, x int) Seq { return acc.Add(x) }))
	})
	seq2Op("iterator.FoldTry", func(h *hist, s, zero Seq) {
		limit := h.takeN(len(s))
		h.res(kTry, iterator.FoldTry(h.iterOf(s), zero, func(acc Seq, x int) fp.Try[Seq] {
			if len(acc) > len(zero)+limit {
				return fp.Failure[Seq](errStop)
			}
			return fp.Success(acc.Add(x))
		}))
	})
	seq2Op("iterator.FoldOption", func(h *hist, s, zero Seq) {
		limit := h.takeN(len(s))
		h.res(kOpt, iterator.FoldOption(h.iterOf(s), zero, func(acc Seq, x int) fp.Option[Seq] {
			if len(acc) > len(zero)+limit {
				return fp.None[Seq]()
			}
			return fp.Some(acc.Add(x))
		}))
	})
	seqOp("iterator.FoldError", func(h *hist, s Seq) {
		limit := h.takeN(len(s))
		i := 0
		_ = iterator.FoldError(h.iterOf(s), func(int) error {
			i++
			if i > limit {
				return errStop
			}
			return nil
		})
	})
	seqOp("iterator.FoldRight", func(h *hist, s Seq) {
		r := iterator.FoldRight(h.iterOf(s), Seq(nil), func(x int, acc lazy.Eval[Seq]) lazy.Eval[Seq] {
			return acc.Map(func(t Seq) Seq { return t.Add(x) })
		})
		h.res(kSeq, r.Get())
	})
	def("iterator.Reduce(MergeSeq)", 1, []kind{kSeqSeq}, func(h *hist, in []*entry) {
		h.res(kSeq, iterator.Reduce(iterator.FromSeq(in[0].v.(SeqSeq)), monoid.MergeSeq[int]()))
	})
	seqOp("iterator.GroupBy", func(h *hist, s Seq) {
		h.res(kGroup, Group(iterator.GroupBy(h.iterOf(s), func(x int) int { return x % 4 })))
	})
	seqOp("iterator.Span", func(h *hist, s Seq) {
		a, b := iterator.Span(h.iterOf(s), h.pred())
		h.res(kSeq, a.ToSeq())
		h.res(kSeq, b.ToSeq())
	})
	seqOp("iterator.Partition", func(h *hist, s Seq) {
		a, b := iterator.Partition(h.iterOf(s), h.pred())
		x, y := a.ToSeq(), b.ToSeq()
		h.res(kSeq, x)
		h.res(kSeq, y)
	})
	seqOp("iterator.Duplicate", func(h *hist, s Seq) {
		a, b := iterator.Duplicate(h.iterOf(s))
		x := a.Take(h.takeN(len(s))).ToSeq()
		y := b.ToSeq()
		h.res(kSeq, x)
		h.res(kSeq, y)
		h.res(kSeq, a.ToSeq())
	})
	seqOp("iterator.Sort", func(h *hist, s Seq) { h.res(kSeq, iterator.Sort(h.iterOf(s), h.ordInt())) })
	seqOp("iterator.Min/Max", func(h *hist, s Seq) {
		_, _ = iterator.Min(h.iterOf(s), ord.Given[int]()), iterator.Max(h.iterOf(s), ord.Given[int]())
	})
	pairsOp("iterator.ToMap", func(h *hist, s Pairs) {
		hs, hi := h.hasher()
		h.resH(kMap, iterator.ToMap(iterator.FromSeq(s), hs), hi)
	})
	seqOp("iterator.ToSet", func(h *hist, s Seq) {
		hs, hi := h.hasher()
		h.resH(kSet, iterator.ToSet(h.iterOf(s), hs), hi)
	})
	pairsOp("iterator.ToGoMap", func(h *hist, s Pairs) { h.res(kGoMap, GoMap(iterator.ToGoMap(iterator.FromSeq(s)))) })
	seqOp("iterator.ToGoSet", func(h *hist, s Seq) { _ = iterator.ToGoSet(h.iterOf(s)) })
	seqOp("iterator.ToSeq/ToSlice", func(h *hist, s Seq) {
		h.res(kSeq, iterator.ToSeq(h.iterOf(s)))
		h.res(kSeq, iterator.ToSlice(h.iterOf(s)))
	})
	seqOp("iterator.ToList", func(h *hist, s Seq) { h.res(kList, iterator.ToList(h.iterOf(s))) })
	seqOp("iterator.ReverseSeq", func(h *hist, s Seq) {
		h.res(kSeq, iterator.ReverseSeq(s).ToSeq())
		h.res(kSeq, iterator.ReverseSlice(s).ToSeq())
	})
	def("iterator.FromMap", 1, []kind{kGoMap}, func(h *hist, in []*entry) {
		h.res(kPairs, sortedPairs(iterator.FromMap(in[0].v.(GoMap)).ToSeq()))
	})
	def("iterator.FromMapKey/Value", 1, []kind{kGoMap}, func(h *hist, in []*entry) {
		h.res(kSeq, sortedInts(iterator.FromMapKey(in[0].v.(GoMap)).ToSeq()))
		h.res(kSeq, sortedInts(iterator.FromMapValue(in[0].v.(GoMap)).ToSeq()))
	})
	listOp("iterator.FromList", func(h *hist, l List) {
		h.res(kSeq, iterator.FromList(l).ToSeq())
		h.res(kSeq, iterator.List(l).Filter(h.pred()).ToSeq())
	})
	optOp("iterator.FromOption", func(h *hist, o Opt) { h.res(kSeqSeq, SeqSeq(iterator.FromOption(o).ToSeq())) })

	// ---- fp.List / package list ------------------------------------------------------------
	seqOp("list.Of", func(h *hist, s Seq) { h.res(kList, list.Of(s...)) })
	seqOp("list.FromSeq", func(h *hist, s Seq) { h.res(kList, list.FromSeq(s)) })
	seqOp("list.FromSlice", func(h *hist, s Seq) { h.res(kList, list.FromSlice([]int(s))) })
	seqOp("list.ReverseSeq", func(h *hist, s Seq) {
		h.res(kList, list.ReverseSeq(s))
		h.res(kList, list.ReverseSlice([]int(s)))
	})
	seqOp("list.Collect", func(h *hist, s Seq) { h.res(kList, list.Collect(h.iterOf(s))) })
	listOp("list.Apply", func(h *hist, l List) {
		x := h.elem()
		h.arg("%d", x)
		h.res(kList, list.Apply(x, l))
	})
	listOp("list.Concat", func(h *hist, l List) {
		x := h.elem()
		h.arg("%d", x)
		h.res(kList, list.Concat(x, l))
	})
	def("list.Range/GenerateFrom/Empty", 1, nil, func(h *hist, _ []*entry) {
		a := h.elem()
		n := h.n(8)
		h.arg("%d..%d", a, a+n)
		u := h.universe
		h.res(kList, list.Range(a, a+n))
		h.res(kList, list.GenerateFrom(a, func(i int) fp.Option[int] {
			if i < a+n {
				return fp.Some(i % u)
			}
			return fp.None[int]()
		}))
		h.res(kList, list.Empty[int]())
	})
	listOp("list.Map", func(h *hist, l List) { h.res(kList, list.Map(l, h.fn())) })
	def("list.FlatMap", 2, []kind{kList, kSeq}, func(h *hist, in []*entry) {
		l, s := in[0].v.(List), in[1].v.(Seq)
		h.res(kList, list.FlatMap(l, func(x int) List { return list.FromSeq(s.Take(x % 3)) }))
	})
	listOp("list.FilterMap", func(h *hist, l List) { h.res(kList, list.FilterMap(l, optInt(h.pred(), h.fn()))) })
	def("list.Combine", 2, []kind{kList, kList}, func(h *hist, in []*entry) {
		h.res(kList, list.Combine(in[0].v.(List), in[1].v.(List)))
	})
	def("list.Zip", 2, []kind{kList, kList}, func(h *hist, in []*entry) {
		h.res(kPairs, Pairs(list.Zip(in[0].v.(List), in[1].v.(List)).ToSeq()))
	})
	listOp("list.ZipWithIndex", func(h *hist, l List) {
		z := list.ZipWithIndex(l)
		var ps Pairs
		for cur := z; cur.NonEmpty() && len(ps) <= 4*maxLen; cur = cur.Tail() {
			ps = append(ps, cur.Head())
		}
		h.res(kPairs, ps)
	})
	def("list.Zip3", 1, []kind{kList, kList, kList}, func(h *hist, in []*entry) {
		z := list.Zip3(in[0].v.(List), in[1].v.(List), in[2].v.(List))
		u := h.universe
		h.res(kList, list.Map(z, func(t fp.Tuple3[int, int, int]) int { return (t.I1 + t.I2 + t.I3) % u }))
	})
	listOp("list.Scan", func(h *hist, l List) {
		u := h.universe
		h.res(kList, list.Scan(l, 0, func(acc, x int) int { return (acc + x) % u }))
	})
	def("list.Fold", 2, []kind{kList, kSeq}, func(h *hist, in []*entry) {
		h.res(kSeq, list.Fold(in[0].v.(List), in[1].v.(Seq), func(acc Seq, x int) Seq { return acc.Add(x) }))
	})
	def("list.FoldLeft", 1, []kind{kList, kSeq}, func(h *hist, in []*entry) {
		h.res(kSeq, list.FoldLeft(in[0].v.(List), in[1].v.(Seq), func(acc Seq, x int) Seq { return acc.Add(x) }))
	})
	listOp("list.FoldRight", func(h *hist, l List) {
		r := list.FoldRight(l, Seq(nil), func(x int, acc lazy.Eval[Seq]) lazy.Eval[Seq] {
			return acc.Map(func(t Seq) Seq { return t.Add(x) })
		})
		h.res(kSeq, r.Get())
	})
	def("list.FoldTry", 1, []kind{kList, kSeq}, func(h *hist, in []*entry) {
		zero := in[1].v.(Seq)
		limit := h.n(8)
		h.arg("%d", limit)
		h.res(kTry, list.FoldTry(in[0].v.(List), zero, func(acc Seq, x int) fp.Try[Seq] {
			if len(acc) > len(zero)+limit {
				return fp.Failure[Seq](errStop)
			}
			return fp.Success(acc.Add(x))
		}))
	})
	def("list.FoldOption", 1, []kind{kList, kSeq}, func(h *hist, in []*entry) {
		zero := in[1].v.(Seq)
		limit := h.n(8)
		h.arg("%d", limit)
		h.res(kOpt, list.FoldOption(in[0].v.(List), zero, func(acc Seq, x int) fp.Option[Seq] {
			if len(acc) > len(zero)+limit {
				return fp.None[Seq]()
			}
			return fp.Some(acc.Add(x))
		}))
	})
	listOp("list.FoldError", func(h *hist, l List) {
		limit := h.n(8)
		h.arg("%d", limit)
		i := 0
		_ = list.FoldError(l, func(int) error {
			i++
			if i > limit {
				return errStop
			}
			return nil
		})
	})
	listOp("list.FoldMap(MergeSeq)", func(h *hist, l List) {
		h.res(kSeq, list.FoldMap(l, monoid.MergeSeq[int](), func(x int) Seq { return Seq{x} }))
	})
	listOp("list.Reduce(MergeSeq)", func(h *hist, l List) {
		h.res(kSeq, list.Reduce(list.Map(l, func(x int) Seq { return Seq{x, x} }), monoid.MergeSeq[int]()))
	})
	listOp("list.GroupBy", func(h *hist, l List) { h.res(kGroup, Group(list.GroupBy(l, func(x int) int { return x % 3 }))) })
	pairsOp("list.ToMap", func(h *hist, s Pairs) {
		hs, hi := h.hasher()
		h.resH(kMap, list.ToMap(list.FromSeq(s), hs), hi)
	})
	listOp("list.ToSet", func(h *hist, l List) {
		hs, hi := h.hasher()
		h.resH(kSet, list.ToSet(l, hs), hi)
	})
	pairsOp("list.ToGoMap", func(h *hist, s Pairs) { h.res(kGoMap, GoMap(list.ToGoMap(list.FromSeq(s)))) })
	listOp("list.ToGoSet", func(h *hist, l List) { _ = list.ToGoSet(l) })
	listOp("list.Sort", func(h *hist, l List) { h.res(kSeq, list.Sort(l, h.ordInt())) })
	listOp("list.Min/Max", func(h *hist, l List) { _, _ = list.Min(l, ord.Given[int]()), list.Max(l, ord.Given[int]()) })
	listOp("List.ToSeq+Append", func(h *hist, l List) {
		s := Seq(l.ToSeq())
		h.res(kSeq, s)
		h.res(kSeq, s.Add(h.elem()))
	})
	listOp("List.Tail", func(h *hist, l List) {
		h.res(kList, l.Tail())
		if l.NonEmpty() {
			_, t := l.Unapply()
			h.res(kList, t)
		}
	})
	listOp("List.read-only-methods", func(h *hist, l List) {
		_, _, _ = l.IsEmpty(), l.NonEmpty(), list.Head(l)
		l.Foreach(func(int) {})
		if l.NonEmpty() {
			_ = l.Head()
		}
	})
	def("list.FromMap", 1, []kind{kGoMap}, func(h *hist, in []*entry) {
		m := in[0].v.(GoMap)
		// element order follows Go map iteration: results are walked but not pooled
		n1, _ := listLen(list.Map(list.FromMap(m), func(t Pair) int { return t.I1 }), 4*maxLen)
		n2, _ := listLen(list.FromMapKey(m), 4*maxLen)
		n3, _ := listLen(list.FromMapValue(m), 4*maxLen)
		h.arg("walked %d,%d,%d", n1, n2, n3)
	})
	def("list.Flatten", 1, []kind{kList, kList}, func(h *hist, in []*entry) {
		ll := list.Of[List](in[0].v.(List), in[1].v.(List), in[0].v.(List))
		h.res(kList, list.Flatten(ll))
	})
	optOp("list.FromOption", func(h *hist, o Opt) {
		l := list.FromOption(o)
		if l.NonEmpty() {
			h.res(kSeq, l.Head())
		}
	})

	// ---- fp.Map ---------------------------------------------------------------------------
	pairsOp("immutable.Map", func(h *hist, s Pairs) {
		hs, hi := h.hasher()
		h.resH(kMap, immutable.Map(hs, s...), hi)
	})
	def("fp.Map{}", 1, nil, func(h *hist, _ []*entry) {
		m := FMap{}
		n := h.n(4)
		for i := 0; i < n; i++ {
			m = m.Updated(h.elem(), h.elem())
		}
		h.arg("zero value + %d Updated", n)
		h.res(kMap, m)
	})
	def("immutable.MapBuilder.new", 2, nil, func(h *hist, _ []*entry) {
		hs, hi := h.hasher()
		b := immutable.MapBuilder[int, int](hs)
		bv := &builderV{hi: hi, add: func(k, v int) { b.Add(k, v) }, build: func() any { return b.Build() }}
		n := h.n(14)
		if h.n(3) == 0 {
			n = h.n(64)
		}
		for i := 0; i < n; i++ {
			bv.add(h.elem(), h.elem())
		}
		h.arg("%d Add", n)
		h.res(kMapB, bv)
	})
	def("MapBuilder.Add", 6, []kind{kMapB}, func(h *hist, in []*entry) {
		bv := in[0].v.(*builderV)
		n := 1 + h.n(3)
		kv := h.items(2 * n)
		h.arg("%v", kv)
		h.builderUse(bv, "MapBuilder.Add", func() {
			for i := 0; i < n; i++ {
				bv.add(kv[2*i], kv[2*i+1])
			}
		})
	})
	def("MapBuilder.Build", 5, []kind{kMapB}, func(h *hist, in []*entry) {
		bv := in[0].v.(*builderV)
		h.builderUse(bv, "MapBuilder.Build", func() {
			m := bv.build().(FMap)
			if e := h.resH(kMap, m, bv.hi); e != nil {
				bv.handed = append(bv.handed, e.id)
			}
		})
		bv.built = true
	})
	mapOp("Map.Updated", func(h *hist, e *entry, m FMap) {
		k, v := h.elem(), h.elem()
		h.arg("%d,%d", k, v)
		h.resH(kMap, m.Updated(k, v), e.hi)
	})
	mapOp("Map.Removed", func(h *hist, e *entry, m FMap) {
		ks := h.items(h.n(4))
		h.arg("%v", ks)
		h.resH(kMap, m.Removed(ks...), e.hi)
	})
	mapOp("Map.UpdatedWith", func(h *hist, e *entry, m FMap) {
		k, v, mode := h.elem(), h.elem(), h.n(4)
		h.arg("%d,%d,mode%d", k, v, mode)
		h.resH(kMap, m.UpdatedWith(k, func(o fp.Option[int]) fp.Option[int] {
			switch mode {
			case 0:
				return fp.Some(v)
			case 1:
				return fp.None[int]()
			case 2:
				if o.IsDefined() {
					return o
				}
				return fp.Some(v)
			}
			return o
		}), e.hi)
	})
	def("Map.Concat(Seq)", 2, []kind{kMap, kPairs}, func(h *hist, in []*entry) {
		h.resH(kMap, in[0].v.(FMap).Concat(iterOfSeq[Pair]{in[1].v.(Pairs)}), in[0].hi)
	})
	def("Map.Concat(Map)", 2, []kind{kMap, kMap}, func(h *hist, in []*entry) {
		h.resH(kMap, in[0].v.(FMap).Concat(in[1].v.(FMap)), in[0].hi)
	})
	mapOp("Map.read-only-methods", func(h *hist, e *entry, m FMap) {
		k := h.elem()
		_, _, _, _, _ = m.Get(k), m.Contains(k), m.Size(), m.IsEmpty(), m.NonEmpty()
		_ = m.String()
		m.Foreach(func(Pair) {})
		h.res(kSeq, sortedInts(m.Keys().ToSeq()))
		h.res(kSeq, sortedInts(m.Values().ToSeq()))
		h.res(kPairs, sortedPairs(m.Iterator().ToSeq()))
	})

	// ---- fp.Set ---------------------------------------------------------------------------
	seqOp("immutable.Set", func(h *hist, s Seq) {
		hs, hi := h.hasher()
		h.resH(kSet, immutable.Set(hs, s...), hi)
	})
	def("fp.Set{}", 1, nil, func(h *hist, _ []*entry) {
		s := FSet{}
		n := h.n(4)
		for i := 0; i < n; i++ {
			s = s.Incl(h.elem())
		}
		h.arg("zero value + %d Incl", n)
		h.res(kSet, s)
	})
	def("immutable.SetBuilder.new", 2, nil, func(h *hist, _ []*entry) {
		hs, hi := h.hasher()
		b := immutable.SetBuilder(hs)
		bv := &builderV{isSet: true, hi: hi, add: func(k, _ int) { b.Add(k) }, build: func() any { return b.Build() }}
		n := h.n(14)
		if h.n(3) == 0 {
			n = h.n(64)
		}
		for i := 0; i < n; i++ {
			bv.add(h.elem(), 0)
		}
		h.arg("%d Add", n)
		h.res(kSetB, bv)
	})
	def("SetBuilder.Add", 6, []kind{kSetB}, func(h *hist, in []*entry) {
		bv := in[0].v.(*builderV)
		ks := h.items(1 + h.n(3))
		h.arg("%v", ks)
		h.builderUse(bv, "SetBuilder.Add", func() {
			for _, k := range ks {
				bv.add(k, 0)
			}
		})
	})
	def("SetBuilder.Build", 5, []kind{kSetB}, func(h *hist, in []*entry) {
		bv := in[0].v.(*builderV)
		h.builderUse(bv, "SetBuilder.Build", func() {
			s := bv.build().(FSet)
			if e := h.resH(kSet, s, bv.hi); e != nil {
				bv.handed = append(bv.handed, e.id)
			}
		})
		bv.built = true
	})
	setOp("Set.Incl", func(h *hist, e *entry, s FSet) {
		k := h.elem()
		h.arg("%d", k)
		h.resH(kSet, s.Incl(k), e.hi)
	})
	setOp("Set.Excl", func(h *hist, e *entry, s FSet) {
		k := h.elem()
		h.arg("%d", k)
		h.resH(kSet, s.Excl(k), e.hi)
	})
	def("Set.Concat(Seq)", 2, []kind{kSet, kSeq}, func(h *hist, in []*entry) {
		h.resH(kSet, in[0].v.(FSet).Concat(iterOfSeq[int]{in[1].v.(Seq)}), in[0].hi)
	})
	def("Set.Concat(Set)", 2, []kind{kSet, kSet}, func(h *hist, in []*entry) {
		h.resH(kSet, in[0].v.(FSet).Concat(in[1].v.(FSet)), in[0].hi)
	})
	def("Set.Diff", 3, []kind{kSet, kSet}, func(h *hist, in []*entry) {
		h.resH(kSet, in[0].v.(FSet).Diff(in[1].v.(FSet)), in[0].hi)
	})
	def("Set.Intersect", 3, []kind{kSet, kSet}, func(h *hist, in []*entry) {
		h.resH(kSet, in[0].v.(FSet).Intersect(in[1].v.(FSet)), in[0].hi)
	})
	def("Set.SubsetOf", 1, []kind{kSet, kSet}, func(h *hist, in []*entry) {
		_ = in[0].v.(FSet).SubsetOf(in[1].v.(FSet))
	})
	setOp("Set.read-only-methods", func(h *hist, e *entry, s FSet) {
		k := h.elem()
		_, _, _, _ = s.Contains(k), s.Size(), s.IsEmpty(), s.NonEmpty()
		_ = s.String()
		s.Foreach(func(int) {})
		h.res(kSeq, sortedInts(s.Iterator().ToSeq()))
	})

	// ---- Option / Try / tuples holding live slices ----------------------------------------
	seqOp("fp.Some", func(h *hist, s Seq) {
		h.res(kOpt, fp.Some(s))
		h.res(kOpt, option.Some(s))
		h.res(kOpt, fp.None[Seq]())
		h.res(kOpt, option.NonEmptySlice(s))
	})
	optOp("Option.Map", func(h *hist, o Opt) {
		x := h.elem()
		h.arg("Append %d", x)
		h.res(kOpt, o.Map(func(s Seq) Seq { return s.Append(x) }))
	})
	optOp("Option.Filter/FilterNot", func(h *hist, o Opt) {
		h.res(kOpt, o.Filter(func(s Seq) bool { return len(s)%2 == 0 }))
		h.res(kOpt, o.FilterNot(func(s Seq) bool { return len(s)%3 == 0 }))
	})
	optOp("Option.FlatMap", func(h *hist, o Opt) {
		h.res(kOpt, o.FlatMap(func(s Seq) Opt { return fp.Some(s.Reverse()) }))
	})
	def("Option.OrOption/Or/OrElse", 1, []kind{kOpt, kOpt}, func(h *hist, in []*entry) {
		a, b := in[0].v.(Opt), in[1].v.(Opt)
		h.res(kOpt, a.OrOption(b))
		h.res(kOpt, a.Or(func() Opt { return b }))
		h.res(kSeq, a.OrElse(b.OrZero()))
	})
	optOp("Option.Recover", func(h *hist, o Opt) {
		it := h.items(2)
		h.res(kOpt, o.Recover(func() Seq { return Seq(it) }))
	})
	optOp("Option.ToSeq", func(h *hist, o Opt) {
		h.res(kSeqSeq, SeqSeq(o.ToSeq()))
		h.res(kSeqSeq, option.ToSeq(o))
	})
	optOp("option.Map", func(h *hist, o Opt) {
		or := h.ordInt()
		h.res(kOpt, option.Map(o, func(s Seq) Seq { return seq.Sort(s, or) }))
	})
	optOp("option.FlatMap", func(h *hist, o Opt) {
		n := h.n(6)
		h.arg("Take %d", n)
		h.res(kOpt, option.FlatMap(o, func(s Seq) Opt { return fp.Some(s.Take(n)) }))
	})
	def("option.Fold", 1, []kind{kOpt, kSeq}, func(h *hist, in []*entry) {
		h.res(kSeq, option.Fold(in[0].v.(Opt), in[1].v.(Seq), func(acc Seq, s Seq) Seq { return acc.Concat(s) }))
	})
	def("option.Map2", 1, []kind{kOpt, kOpt}, func(h *hist, in []*entry) {
		h.res(kOpt, option.Map2(in[0].v.(Opt), in[1].v.(Opt), func(a, b Seq) Seq { return a.Concat(b) }))
	})
	seqOp("option.TraverseSeq", func(h *hist, s Seq) {
		p, f := h.pred(), h.fn()
		h.res(kOpt, option.TraverseSeq(s, optInt(p, f)))
		h.res(kOpt, option.Map(option.TraverseSlice([]int(s), optInt(func(int) bool { return true }, f)), as.Seq[int]))
	})
	seqOp("option.Sequence", func(h *hist, s Seq) {
		os := make([]fp.Option[int], len(s))
		for i, x := range s {
			os[i] = fp.Some(x)
		}
		h.res(kOpt, option.Map(option.Sequence(os), as.Seq[int]))
	})
	optOp("Option.read-only-methods", func(h *hist, o Opt) {
		_, _, _ = o.IsDefined(), o.IsEmpty(), o.String()
		o.Foreach(func(Seq) {})
		_, _ = o.Unapply()
		_, _ = o.Exists(func(s Seq) bool { return len(s) > 2 }), o.ForAll(func(s Seq) bool { return len(s) > 2 })
		if o.IsDefined() {
			h.res(kSeq, o.Get())
			h.res(kSeq, *o.Ptr())
		}
	})
	seqOp("fp.Success", func(h *hist, s Seq) {
		h.res(kTry, fp.Success(s))
		h.res(kTry, try.Success(s))
		h.res(kTry, fp.Failure[Seq](fmt.Errorf("failure %d", h.n(100))))
		h.res(kTry, try.FromOption(fp.Some(s)))
	})
	tryOp("Try.Map", func(h *hist, t Try) {
		x := h.elem()
		h.arg("Append %d", x)
		h.res(kTry, t.Map(func(s Seq) Seq { return s.Append(x) }))
	})
	tryOp("Try.FlatMap", func(h *hist, t Try) {
		h.res(kTry, t.FlatMap(func(s Seq) Try { return fp.Success(s.Reverse()) }))
	})
	tryOp("Try.Recover/RecoverWith", func(h *hist, t Try) {
		it := h.items(2)
		h.res(kTry, t.Recover(func(error) Seq { return Seq(it) }))
		h.res(kTry, t.RecoverWith(func(error) Try { return fp.Success(Seq(it)) }))
		h.res(kTry, t.MapError(func(e error) error { return fmt.Errorf("wrapped: %w", e) }))
	})
	def("Try.OrTry/Or/OrElse", 1, []kind{kTry, kTry}, func(h *hist, in []*entry) {
		a, b := in[0].v.(Try), in[1].v.(Try)
		h.res(kTry, a.OrTry(b))
		h.res(kTry, a.Or(func() Try { return b }))
		h.res(kSeq, a.OrElse(b.OrZero()))
	})
	tryOp("Try.ToSeq", func(h *hist, t Try) {
		h.res(kSeqSeq, SeqSeq(t.ToSeq()))
		h.res(kSeqSeq, try.ToSeq(t))
	})
	tryOp("try.Map", func(h *hist, t Try) {
		or := h.ordInt()
		h.res(kTry, try.Map(t, func(s Seq) Seq { return seq.Sort(s, or) }))
	})
	tryOp("try.FlatMap", func(h *hist, t Try) {
		n := h.n(6)
		h.arg("Take %d", n)
		h.res(kTry, try.FlatMap(t, func(s Seq) Try { return fp.Success(s.Take(n)) }))
	})
	def("try.Fold", 1, []kind{kTry, kSeq}, func(h *hist, in []*entry) {
		h.res(kSeq, try.Fold(in[0].v.(Try), in[1].v.(Seq), func(acc Seq, s Seq) Seq { return acc.Concat(s) }))
	})
	tryOp("try.SortSeqT", func(h *hist, t Try) { h.res(kTry, try.SortSeqT(t, h.ordInt())) })
	tryOp("try.ReverseSeqT", func(h *hist, t Try) { h.res(kTry, try.ReverseSeqT(t)) })
	tryOp("try.AppendSeqT/AddSeqT", func(h *hist, t Try) {
		x := h.elem()
		h.arg("%d", x)
		h.res(kTry, try.AppendSeqT(t, x))
		h.res(kTry, try.AddSeqT(t, x))
	})
	def("try.ConcatSeqT", 1, []kind{kTry, kSeq}, func(h *hist, in []*entry) {
		h.res(kTry, try.ConcatSeqT(in[0].v.(Try), in[1].v.(Seq)))
	})
	tryOp("try.TakeSeqT+AppendSeqT", func(h *hist, t Try) {
		n, x := h.n(8), h.elem()
		h.arg("%d then %d", n, x)
		r := try.TakeSeqT(t, n)
		h.res(kTry, r)
		h.res(kTry, try.AppendSeqT(r, x))
	})
	tryOp("try.DropSeqT/InitSeqT/TailSeqT+AddSeqT", func(h *hist, t Try) {
		n, x := h.n(8), h.elem()
		h.arg("%d then %d", n, x)
		for _, r := range []Try{try.DropSeqT(t, n), try.InitSeqT(t), try.TailSeqT(t)} {
			h.res(kTry, r)
			h.res(kTry, try.AddSeqT(r, x))
		}
	})
	tryOp("try.MapSeqT/FilterSeqT/FilterNotSeqT", func(h *hist, t Try) {
		f, p := h.fn(), h.pred()
		h.res(kTry, try.MapSeqT(t, f))
		h.res(kTry, try.FilterSeqT(t, p))
		h.res(kTry, try.FilterNotSeqT(t, p))
	})
	tryOp("try.ScanSeqT/FoldSeqT", func(h *hist, t Try) {
		u := h.universe
		h.res(kTry, try.ScanSeqT(t, 0, func(acc, x int) int { return (acc + x) % u }))
		_ = try.FoldSeqT(t, 0, func(acc, x int) int { return acc + x })
	})
	tryOp("try.TraverseSeqT/FlatMapSeqT/SubFlatMapSeqT", func(h *hist, t Try) {
		f := h.fn()
		h.res(kTry, try.TraverseSeqT(t, func(x int) fp.Try[int] { return fp.Success(f(x)) }))
		h.res(kTry, try.FlatMapSeqT(t, func(x int) Try { return fp.Success(Seq{x, f(x)}) }))
		h.res(kTry, try.SubFlatMapSeqT(t, func(x int) Seq { return Seq{f(x)} }))
	})
	tryOp("Try.read-only-methods", func(h *hist, t Try) {
		_, _, _ = t.IsSuccess(), t.IsFailure(), t.String()
		t.Foreach(func(Seq) {})
		_, _ = t.Unapply()
		_ = t.Failed()
		_, _, _, _ = try.HeadSeqT(t), try.LastSeqT(t), try.SizeSeqT(t), try.MakeStringSeqT(t, ",")
		_, _ = try.MinSeqT(t, ord.Given[int]()), try.MaxSeqT(t, ord.Given[int]())
		if t.IsSuccess() {
			h.res(kSeq, t.Get())
		}
	})
	def("as.Tuple2", 2, []kind{kSeq, kGoMap}, func(h *hist, in []*entry) {
		h.res(kTup, as.Tuple2(in[0].v.(Seq), in[1].v.(GoMap)))
		h.res(kTup, product.Tuple2(in[0].v.(Seq), in[1].v.(GoMap)))
		h.res(kTup, as.Tuple(in[0].v.(Seq), in[1].v.(GoMap)))
	})
	def("Tuple2.Unapply/Head/Last", 1, []kind{kTup}, func(h *hist, in []*entry) {
		t := in[0].v.(Tup)
		s, m := t.Unapply()
		h.res(kSeq, s)
		h.res(kGoMap, m)
		h.res(kSeq, t.Head())
		h.res(kGoMap, t.Last())
		_ = t.String()
	})

	// ---- concurrent read-only use of shared live values ------------------------------------
	def("concurrent.readers", 3, nil, func(h *hist, _ []*entry) {
		var cands []*entry
		for _, e := range h.pool {
			if e.kind != kMapB && e.kind != kSetB {
				cands = append(cands, e)
			}
		}
		if len(cands) == 0 {
			return
		}
		k := 1 + h.n(4)
		var tasks [2][]func()
		for i := 0; i < k; i++ {
			e := cands[h.n(len(cands))]
			h.cur.ins = append(h.cur.ins, e.id)
			for g := 0; g < 2; g++ {
				tasks[g] = append(tasks[g], readTasks(h, e)...)
			}
		}
		var wg sync.WaitGroup
		for g := 0; g < 2; g++ {
			wg.Add(1)
			go func(ts []func()) {
				defer wg.Done()
				for _, t := range ts {
					t()
				}
			}(tasks[g])
		}
		wg.Wait()
		h.w.Add("concurrent.rounds", 1)
		h.w.Add("concurrent.tasks", int64(len(tasks[0])+len(tasks[1])))
	})
}

// readTasks draws (on the calling goroutine) a few read-only library calls on the live
// value e; the returned closures touch neither the PRNG nor the harness state.
func readTasks(h *hist, e *entry) []func() {
	u := h.universe
	x, y, n := h.elem(), h.elem(), h.n(8)
	f := func(v int) int { return (v*3 + 1) % u }
	p := func(v int) bool { return v%2 == 0 }
	var hs fp.Hashable[int] = hashers[h.n(len(hashers))]
	switch e.kind {
	case kSeq:
		s := e.v.(Seq)
		return []func(){
			func() { _ = seq.Sort(s, ord.Given[int]()) },
			func() { _ = s.Reverse() },
			func() { _ = seq.Distinct(s) },
			func() { _ = s.Append(x, y) },
			func() { _ = s.Take(n).Append(x) },
			func() { _ = s.Init().Add(y) },
			func() { _ = s.Concat(s) },
			func() { _ = s.Map(f).Filter(p) },
			func() { _ = seq.GroupBy(s, func(v int) int { return v % 3 }) },
			func() { _ = seq.ToSet(s, hs) },
			func() { _ = seq.Zip(s, s) },
			func() { _ = iterator.Sort(iterator.FromSeq(s), ord.Given[int]()) },
			func() { _ = list.Sort(list.FromSeq(s), ord.Given[int]()) },
			func() { _ = clone.Seq(clone.Given[int]()).Clone(s) },
			func() { _ = monoid.MergeSeq[int]().Combine(s, s) },
		}
	case kPairs:
		s := e.v.(Pairs)
		return []func(){
			func() { _ = seq.ToMap(s, hs) },
			func() { _ = seq.ToGoMap(s) },
			func() { _ = immutable.Map(hs, s...) },
			func() { _ = s.Reverse().Append(as.Tuple2(x, y)) },
		}
	case kGoMap:
		m := e.v.(GoMap)
		return []func(){
			func() { _ = seq.FromMap(m) },
			func() { _ = monoid.MergeGoMap[int, int]().Combine(m, m) },
			func() { _ = clone.GoMap(clone.Given[int](), clone.Given[int]()).Clone(m) },
			func() { _ = iterator.FromMap(m).ToSeq() },
		}
	case kGroup:
		g := e.v.(Group)
		return []func(){func() {
			for k := 0; k < 4; k++ {
				_ = g[k].Append(x)
			}
		}}
	case kMap:
		m := e.v.(FMap)
		return []func(){
			func() { _ = m.Updated(x, y) },
			func() { _ = m.Removed(x, y) },
			func() { _ = m.UpdatedWith(x, func(fp.Option[int]) fp.Option[int] { return fp.Some(y) }) },
			func() { _ = m.Get(x) },
			func() { _ = m.Iterator().ToSeq() },
			func() { _ = m.Concat(m) },
			func() { _ = m.String() },
		}
	case kSet:
		s := e.v.(FSet)
		return []func(){
			func() { _ = s.Incl(x) },
			func() { _ = s.Excl(y) },
			func() { _ = s.Contains(x) },
			func() { _ = s.Diff(s) },
			func() { _ = s.Intersect(s) },
			func() { _ = s.Iterator().ToSeq() },
			func() { _ = s.Concat(s) },
		}
	case kList:
		l := e.v.(List)
		return []func(){
			func() { _ = l.ToSeq() },
			func() { _ = list.Fold(l, 0, func(a, v int) int { return a + v }) },
			func() { _ = list.Map(l, f).ToSeq() },
			func() { _ = list.Sort(l, ord.Given[int]()) },
			func() { _ = list.ToSet(l, hs) },
		}
	case kOpt:
		o := e.v.(Opt)
		return []func(){
			func() { _ = o.Map(func(s Seq) Seq { return s.Append(x) }) },
			func() { _ = option.Map(o, func(s Seq) Seq { return seq.Sort(s, ord.Given[int]()) }) },
		}
	case kTry:
		t := e.v.(Try)
		return []func(){
			func() { _ = try.SortSeqT(t, ord.Given[int]()) },
			func() { _ = try.AppendSeqT(t, x) },
			func() { _ = try.ReverseSeqT(t) },
		}
	case kTup:
		t := e.v.(Tup)
		return []func(){
			func() { _ = monoid.Tuple2(monoid.MergeSeq[int](), monoid.MergeGoMap[int, int]()).Combine(t, t) },
			func() { _ = seq.Sort(t.I1, ord.Given[int]()) },
		}
	case kSeqSeq:
		ss := e.v.(SeqSeq)
		return []func(){
			func() { _ = seq.Flatten(ss) },
			func() { _ = seq.Sort(ss, ord.Seq(ord.Given[int]())) },
			func() { _ = seq.Reduce(ss, monoid.MergeSeq[int]()) },
		}
	}
	return nil
}
