// Package iterref holds the reference semantics used by the C12 and C20 monitors: plain-slice
// functions for every sequence combinator, and a pull model of the same combinators that
// counts how many source elements a consumer's demand strictly requires (zero look-ahead) or
// may legitimately cost when every stage holds one pre-computed output (one-output look-ahead
// per stage). It imports nothing from github.com/csgura/fp.
package iterref

import "sort"

// ---- plain-slice reference --------------------------------------------------------------

func MapS(xs []int, f func(int) int) []int {
	out := make([]int, 0, len(xs))
	for _, x := range xs {
		out = append(out, f(x))
	}
	return out
}

func FilterS(xs []int, p func(int) bool) []int {
	out := []int{}
	for _, x := range xs {
		if p(x) {
			out = append(out, x)
		}
	}
	return out
}

func FilterMapS(xs []int, o func(int) (int, bool)) []int {
	out := []int{}
	for _, x := range xs {
		if v, ok := o(x); ok {
			out = append(out, v)
		}
	}
	return out
}

func FlatMapS(xs []int, e func(int) []int) []int {
	out := []int{}
	for _, x := range xs {
		out = append(out, e(x)...)
	}
	return out
}

func TakeS(xs []int, n int) []int {
	if n < 0 {
		n = 0
	}
	if n > len(xs) {
		n = len(xs)
	}
	return append([]int{}, xs[:n]...)
}

func DropS(xs []int, n int) []int {
	if n < 0 {
		n = 0
	}
	if n > len(xs) {
		n = len(xs)
	}
	return append([]int{}, xs[n:]...)
}

func TakeWhileS(xs []int, p func(int) bool) []int {
	i := 0
	for i < len(xs) && p(xs[i]) {
		i++
	}
	return append([]int{}, xs[:i]...)
}

func DropWhileS(xs []int, p func(int) bool) []int {
	i := 0
	for i < len(xs) && p(xs[i]) {
		i++
	}
	return append([]int{}, xs[i:]...)
}

func ConcatS(a, b []int) []int {
	out := make([]int, 0, len(a)+len(b))
	out = append(out, a...)
	return append(out, b...)
}

// ZipWithS pairs xs with other (nil other = unbounded 0,1,2,... + otherOff) and mixes the pair.
func ZipWithS(xs []int, other func(i int) (int, bool), mix func(a, b int) int) []int {
	out := []int{}
	for i, x := range xs {
		o, ok := other(i)
		if !ok {
			break
		}
		out = append(out, mix(x, o))
	}
	return out
}

func ScanS(xs []int, z int, g func(acc, x int) int) []int {
	out := []int{z}
	acc := z
	for _, x := range xs {
		acc = g(acc, x)
		out = append(out, acc)
	}
	return out
}

func PartBothS(xs []int, p func(int) bool) []int {
	return ConcatS(FilterS(xs, p), FilterS(xs, func(x int) bool { return !p(x) }))
}

func ReverseS(xs []int) []int {
	out := make([]int, len(xs))
	for i, x := range xs {
		out[len(xs)-1-i] = x
	}
	return out
}

// SortS sorts by a total order given as less (ties impossible for a total order on ints).
func SortS(xs []int, less func(a, b int) bool) []int {
	out := append([]int{}, xs...)
	sort.SliceStable(out, func(i, j int) bool { return less(out[i], out[j]) })
	return out
}

// WindowS is the reference of a sequence zipped with itself at offsets 0..j (a lazy list
// used several times as an operand of one combinator): out[i] = f(xs[i : i+j+1]) for every i
// with i+j < len(xs).
func WindowS(xs []int, j int, f func(w []int) int) []int {
	out := []int{}
	for i := 0; i+j < len(xs); i++ {
		out = append(out, f(xs[i:i+j+1]))
	}
	return out
}

// SelfConcatS is xs followed by xs[j:] (Combine(l, l.Tail()^j)).
func SelfConcatS(xs []int, j int) []int {
	if j > len(xs) {
		j = len(xs)
	}
	return ConcatS(xs, xs[j:])
}

func EqualS(a, b []int) bool {
	if len(a) != len(b) {
		return false
	}
	for i := range a {
		if a[i] != b[i] {
			return false
		}
	}
	return true
}

// ---- pull model ---------------------------------------------------------------------------

// P is a pull step: the next element, or ok=false when the sequence has ended (sticky).
type P func() (int, bool)

// Diverged is the panic raised by a model source whose pull budget is exhausted: the
// demand cannot be met by a finite prefix of the unbounded source.
type Diverged struct{}

// Counter counts the elements a model source has delivered.
type Counter struct{ Pulls int }

func FromSlice(xs []int, c *Counter) P {
	i := 0
	return func() (int, bool) {
		if i >= len(xs) {
			return 0, false
		}
		v := xs[i]
		i++
		c.Pulls++
		return v, true
	}
}

// FromFunc is the unbounded source f(0), f(1), ...; it panics with Diverged after budget pulls.
func FromFunc(f func(i int) int, c *Counter, budget int) P {
	i := 0
	return func() (int, bool) {
		if c.Pulls >= budget {
			panic(Diverged{})
		}
		v := f(i)
		i++
		c.Pulls++
		return v, true
	}
}

func Identity(up P) P { return up }

func Map(up P, f func(int) int) P {
	return func() (int, bool) {
		v, ok := up()
		if !ok {
			return 0, false
		}
		return f(v), true
	}
}

func Filter(up P, p func(int) bool) P {
	return func() (int, bool) {
		for {
			v, ok := up()
			if !ok {
				return 0, false
			}
			if p(v) {
				return v, true
			}
		}
	}
}

func FilterMap(up P, o func(int) (int, bool)) P {
	return func() (int, bool) {
		for {
			v, ok := up()
			if !ok {
				return 0, false
			}
			if r, ok := o(v); ok {
				return r, true
			}
		}
	}
}

func FlatMap(up P, e func(int) []int) P {
	var buf []int
	return func() (int, bool) {
		for len(buf) == 0 {
			v, ok := up()
			if !ok {
				return 0, false
			}
			buf = e(v)
		}
		v := buf[0]
		buf = buf[1:]
		return v, true
	}
}

func Take(up P, n int) P {
	i := 0
	return func() (int, bool) {
		if i >= n {
			return 0, false
		}
		v, ok := up()
		if !ok {
			i = n
			return 0, false
		}
		i++
		return v, true
	}
}

// Drop consumes n elements when it is constructed (fp.Iterator.Drop is eager by construction).
func Drop(up P, n int) P {
	for i := 0; i < n; i++ {
		if _, ok := up(); !ok {
			break
		}
	}
	return up
}

func TakeWhile(up P, p func(int) bool) P {
	done := false
	return func() (int, bool) {
		if done {
			return 0, false
		}
		v, ok := up()
		if !ok || !p(v) {
			done = true
			return 0, false
		}
		return v, true
	}
}

func DropWhile(up P, p func(int) bool) P {
	dropped := false
	return func() (int, bool) {
		if dropped {
			return up()
		}
		for {
			v, ok := up()
			if !ok {
				dropped = true
				return 0, false
			}
			if !p(v) {
				dropped = true
				return v, true
			}
		}
	}
}

func Prepend(xs []int, up P) P {
	i := 0
	return func() (int, bool) {
		if i < len(xs) {
			i++
			return xs[i-1], true
		}
		return up()
	}
}

func Append(up P, xs []int) P {
	i := 0
	upDone := false
	return func() (int, bool) {
		if !upDone {
			if v, ok := up(); ok {
				return v, true
			}
			upDone = true
		}
		if i < len(xs) {
			i++
			return xs[i-1], true
		}
		return 0, false
	}
}

// ZipWith pairs up with other(i); otherFirst says which side is asked first.
func ZipWith(up P, other func(i int) (int, bool), mix func(a, b int) int, otherFirst bool) P {
	i := 0
	done := false
	return func() (int, bool) {
		if done {
			return 0, false
		}
		if otherFirst {
			o, ok := other(i)
			if !ok {
				done = true
				return 0, false
			}
			v, ok := up()
			if !ok {
				done = true
				return 0, false
			}
			i++
			return mix(v, o), true
		}
		v, ok := up()
		if !ok {
			done = true
			return 0, false
		}
		o, ok := other(i)
		if !ok {
			done = true
			return 0, false
		}
		i++
		return mix(v, o), true
	}
}

func Scan(up P, z int, g func(acc, x int) int) P {
	first := true
	acc := z
	return func() (int, bool) {
		if first {
			first = false
			return acc, true
		}
		v, ok := up()
		if !ok {
			return 0, false
		}
		acc = g(acc, v)
		return acc, true
	}
}

// PartBoth yields the elements satisfying p in order, then the others in order.
func PartBoth(up P, p func(int) bool) P {
	var rest []int
	upDone := false
	return func() (int, bool) {
		for !upDone {
			v, ok := up()
			if !ok {
				upDone = true
				break
			}
			if p(v) {
				return v, true
			}
			rest = append(rest, v)
		}
		if len(rest) > 0 {
			v := rest[0]
			rest = rest[1:]
			return v, true
		}
		return 0, false
	}
}

// Window models one memoised sequence used at the offsets 0..j of one zip: the j-fold Tail is
// taken when the stage is constructed (an upper bound: at most j elements are consumed
// there), every element is pulled once and kept, output i = f(x[i..i+j]) needs x[i+j].
func Window(up P, j int, f func(w []int) int) P {
	buf := []int{}
	done := false
	fill := func(n int) bool {
		for !done && len(buf) < n {
			v, ok := up()
			if !ok {
				done = true
				break
			}
			buf = append(buf, v)
		}
		return len(buf) >= n
	}
	fill(j)
	i := 0
	return func() (int, bool) {
		if !fill(i + j + 1) {
			return 0, false
		}
		v := f(buf[i : i+j+1])
		i++
		return v, true
	}
}

// SelfConcat models Combine(l, l.Tail()^j) over one memoised sequence: the elements of up
// (kept while they pass), then the kept elements from index j on. The j-fold Tail is taken at
// construction (at most j elements consumed there).
func SelfConcat(up P, j int) P {
	buf := []int{}
	done := false
	pull := func() bool {
		if done {
			return false
		}
		v, ok := up()
		if !ok {
			done = true
			return false
		}
		buf = append(buf, v)
		return true
	}
	for len(buf) < j && pull() {
	}
	i := 0      // next element of the first pass
	k := j      // next element of the replay
	return func() (int, bool) {
		if i < len(buf) || pull() {
			i++
			return buf[i-1], true
		}
		if k < len(buf) {
			k++
			return buf[k-1], true
		}
		return 0, false
	}
}

// Barrier drains up when it is constructed and yields tr(all).
func Barrier(up P, tr func([]int) []int) P {
	all := []int{}
	for {
		v, ok := up()
		if !ok {
			break
		}
		all = append(all, v)
	}
	var c Counter
	return FromSlice(tr(all), &c)
}

// Eager holds one pre-computed output after the first one was demanded: the maximal
// look-ahead "one produced element per stage" allows.
func Eager(up P) P {
	have := false
	var buf int
	var bufOK bool
	return func() (int, bool) {
		if !have {
			buf, bufOK = up()
			have = true
		}
		v, ok := buf, bufOK
		if ok {
			buf, bufOK = up()
		}
		return v, ok
	}
}

// Prefetch computes its first output when it is constructed and afterwards always holds
// the next one (iterator.Pull, iterator.ToList, list.Collect, and the list constructors
// that test their argument for emptiness).
func Prefetch(up P) P {
	buf, bufOK := up()
	return func() (int, bool) {
		v, ok := buf, bufOK
		if ok {
			buf, bufOK = up()
		}
		return v, ok
	}
}

// DrainK pulls at most k outputs (k < 0: all).
func DrainK(p P, k int) []int {
	out := []int{}
	for k < 0 || len(out) < k {
		v, ok := p()
		if !ok {
			break
		}
		out = append(out, v)
	}
	return out
}
