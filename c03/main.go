// C03 — immutable Map / Set equal a mathematical map for every history and hasher.
// Reference-model monitor + structural invariant walker (hook immutable.VerifCheck).
package main

import (
	"fmt"
	"math/rand/v2"
	"sort"
	"strings"

	"verif/vrt"

	"github.com/csgura/fp"
	"github.com/csgura/fp/as"
	"github.com/csgura/fp/hash"
	"github.com/csgura/fp/immutable"
	"github.com/csgura/fp/iterator"
	"github.com/csgura/fp/list"
	"github.com/csgura/fp/seq"
)

// ---- hashers --------------------------------------------------------------------------

type hasherT[K any] struct {
	name string
	eqv  func(a, b K) bool
	hash func(K) uint32
}

func (h hasherT[K]) Eqv(a, b K) bool { return h.eqv(a, b) }
func (h hasherT[K]) Hash(k K) uint32  { return h.hash(k) }

func intEq(a, b int) bool { return a == b }

var intHashers = []fp.Hashable[int]{
	hasherT[int]{"identity", intEq, func(k int) uint32 { return uint32(k) }},
	hasherT[int]{"low5", intEq, func(k int) uint32 { return uint32(k) & 0x1f }},
	hasherT[int]{"const", intEq, func(k int) uint32 { return 7 }},
	hasherT[int]{"high5", intEq, func(k int) uint32 { return uint32(k) << 27 }},
	hasherT[int]{"pairs", intEq, func(k int) uint32 { return uint32(k / 2) }},
	hasherT[int]{"mul", intEq, func(k int) uint32 { return uint32(k) * 2654435761 }},
	hasherT[int]{"deep", intEq, func(k int) uint32 { return (uint32(k) % 3 << 30) | (uint32(k) / 3 % 2 << 25) | (uint32(k) / 6 % 40) }},
	hasherT[int]{"mod9", intEq, func(k int) uint32 { return uint32(k%9) * 0x08421084 }},
	hasherT[int]{"ones", intEq, func(k int) uint32 { return uint32(0xFFFFFFFF) << uint(k%33) }},
	hasherT[int]{"bit", intEq, func(k int) uint32 { return uint32(1) << uint(k%32) }},
	hasherT[int]{"frag31", intEq, func(k int) uint32 { return (uint32(0x1F) << (5 * uint(k%6))) | uint32(k/6%4) | uint32(k/24%3)<<30 }},
	nil, // hash.Number[int]() placed at init
}
var intHasherNames = []string{"identity", "low5", "const", "high5", "pairs", "mul", "deep", "mod9", "ones", "bit", "frag31", "hash.Number"}

var strHashers = []fp.Hashable[string]{
	hash.String,
	hasherT[string]{"fold", strings.EqualFold, func(s string) uint32 { return hash.String.Hash(strings.ToLower(s)) }},
	hasherT[string]{"fold-low", strings.EqualFold, func(s string) uint32 { return hash.String.Hash(strings.ToLower(s)) & 0x3 }},
}
var strHasherNames = []string{"hash.String", "casefold", "casefold-low"}

func init() { intHashers[len(intHashers)-1] = hash.Number[int]() }

type iterOf[T any] struct{ s []T }

func (r iterOf[T]) Iterator() fp.Iterator[T] { return fp.IteratorOfSeq(append([]T(nil), r.s...)) }

// ---- reference model ------------------------------------------------------------------

type entry[K any] struct {
	k K
	v int
}
type model[K any] struct {
	eqv func(a, b K) bool
	es  []entry[K]
}

func (m *model[K]) idx(k K) int {
	for i := range m.es {
		if m.eqv(m.es[i].k, k) {
			return i
		}
	}
	return -1
}
func (m *model[K]) get(k K) (int, bool) {
	if i := m.idx(k); i >= 0 {
		return m.es[i].v, true
	}
	return 0, false
}
func (m *model[K]) put(k K, v int) {
	if i := m.idx(k); i >= 0 {
		m.es[i].v = v // key identity: the library may keep either representative of the Eqv class
		return
	}
	m.es = append(m.es, entry[K]{k, v})
}
func (m *model[K]) del(k K) {
	if i := m.idx(k); i >= 0 {
		m.es = append(m.es[:i:i], m.es[i+1:]...)
	}
}
func (m *model[K]) clone() *model[K] {
	return &model[K]{eqv: m.eqv, es: append([]entry[K](nil), m.es...)}
}

// ---- history runner -------------------------------------------------------------------

type hist[K any] struct {
	w        *vrt.W
	idx      int
	r        *rand.Rand
	h        fp.Hashable[K] // nil for zero-value histories
	alt      fp.Hashable[K] // another lawful hasher with the same Eqv (arguments of set operations)
	altEq    fp.Hashable[K] // a lawful hasher with ANOTHER equivalence (arguments of set operations)
	hname    string
	eqv      func(a, b K) bool
	universe []K
	ops      []string
	fp       uint64
	hadRemove, hadTrans bool
	prev     immutable.VerifCensus
	havePrev bool
	fullEvery int
	failed   bool
}

func (h *hist[K]) logOp(s string) {
	if len(h.ops) < 400 {
		h.ops = append(h.ops, s)
	}
	h.fp = h.fp*1099511628211 ^ vrt.Hash64(s)
}

func (h *hist[K]) witness() any {
	return map[string]any{"hasher": h.hname, "universe": len(h.universe), "ops": h.ops}
}

func (h *hist[K]) fail(key, detail string) {
	if h.failed {
		return
	}
	h.failed = true
	h.w.Violation(h.idx, key, detail+"\nhasher="+h.hname+" last ops: "+strings.Join(lastN(h.ops, 12), " ; "), h.witness())
}

func lastN(s []string, n int) []string {
	if len(s) > n {
		return s[len(s)-n:]
	}
	return s
}

func (h *hist[K]) census(c immutable.VerifCensus) {
	w := h.w
	w.Add("nodes.array", int64(c.Array))
	w.Add("nodes.bitmap", int64(c.Bitmap))
	w.Add("nodes.hasharray", int64(c.HashArray))
	w.Add("nodes.value", int64(c.Value))
	w.Add("nodes.collision", int64(c.Collision))
	w.Max("max_depth", int64(c.MaxDepth))
	w.Max("max_entries", int64(c.Entries))
	if h.havePrev {
		p := h.prev
		t := false
		if p.RootKind == "array" && c.RootKind != "array" && c.RootKind != "nil" {
			w.Add("trans.array_to_branch", 1)
			t = true
		}
		if c.HashArray > p.HashArray {
			w.Add("trans.bitmap_to_hasharray", 1)
			t = true
		}
		if c.HashArray < p.HashArray {
			w.Add("trans.hasharray_to_bitmap", 1)
			t = true
		}
		if c.Collision > p.Collision {
			w.Add("trans.value_to_collision", 1)
			t = true
		}
		if c.Collision < p.Collision {
			w.Add("trans.collision_to_value", 1)
			t = true
		}
		if t {
			h.hadTrans = true
		}
	}
	h.prev, h.havePrev = c, true
}

// checkMap compares m with the model. full: every universe key + iterator; else a sample.
func (h *hist[K]) checkMap(site string, m fp.Map[K, int], md *model[K], touched []K, full bool) {
	w := h.w
	if h.failed {
		return
	}
	w.Add("checks", 1)
	if m.Size() != len(md.es) {
		h.fail(site+"/size", fmt.Sprintf("Size()=%d, reference has %d keys", m.Size(), len(md.es)))
		return
	}
	if m.IsEmpty() != (len(md.es) == 0) || m.NonEmpty() != (len(md.es) != 0) {
		h.fail(site+"/isempty", fmt.Sprintf("IsEmpty=%v NonEmpty=%v with %d keys", m.IsEmpty(), m.NonEmpty(), len(md.es)))
		return
	}
	probe := func(k K) bool {
		got := m.Get(k)
		wv, wok := md.get(k)
		if got.IsDefined() != wok || (wok && got.Get() != wv) {
			h.fail(site+"/get", fmt.Sprintf("Get(%v)=%v, reference (%v,%v)", k, got, wv, wok))
			return false
		}
		if m.Contains(k) != wok {
			h.fail(site+"/contains", fmt.Sprintf("Contains(%v)=%v, reference %v", k, m.Contains(k), wok))
			return false
		}
		w.Add("lookups", 1)
		return true
	}
	for _, k := range touched {
		if !probe(k) {
			return
		}
	}
	if full {
		for _, k := range h.universe {
			if !probe(k) {
				return
			}
		}
	} else {
		for i := 0; i < 6; i++ {
			if !probe(h.universe[h.r.IntN(len(h.universe))]) {
				return
			}
		}
	}
	if full {
		// Iterator yields every entry exactly once with its latest value
		seen := make([]bool, len(md.es))
		n := 0
		it := m.Iterator()
		for it.HasNext() {
			t := it.Next()
			n++
			if n > len(md.es)+2 {
				h.fail(site+"/iterator", fmt.Sprintf("Iterator yields more than %d entries", len(md.es)))
				return
			}
			i := md.idx(t.I1)
			if i < 0 {
				h.fail(site+"/iterator", fmt.Sprintf("Iterator yields key %v absent from the reference", t.I1))
				return
			}
			if seen[i] {
				h.fail(site+"/iterator", fmt.Sprintf("Iterator yields key %v twice", t.I1))
				return
			}
			seen[i] = true
			if md.es[i].v != t.I2 {
				h.fail(site+"/iterator", fmt.Sprintf("Iterator yields %v -> %d, latest value is %d", t.I1, t.I2, md.es[i].v))
				return
			}
		}
		if n != len(md.es) {
			h.fail(site+"/iterator", fmt.Sprintf("Iterator yields %d entries, reference has %d", n, len(md.es)))
			return
		}
		w.Add("iterations", 1)
		// a consumer that knows the size may call Next without asking HasNext each time
		{
			seen2 := make([]bool, len(md.es))
			it2 := m.Iterator()
			for j := 0; j < len(md.es); j++ {
				t := it2.Next()
				i := md.idx(t.I1)
				if i < 0 || seen2[i] || md.es[i].v != t.I2 {
					h.fail(site+"/iterator-next-without-hasnext", fmt.Sprintf("draining with Size() calls of Next yields (%v,%v): absent, twice or stale", t.I1, t.I2))
					return
				}
				seen2[i] = true
			}
			if it2.HasNext() {
				h.fail(site+"/iterator-next-without-hasnext", "HasNext still true after Size() calls of Next")
				return
			}
			w.Add("iterations.next_without_hasnext", 1)
		}
		// Keys/Values/Foreach/String must not panic and agree in count
		kc := len(m.Keys().ToSeq())
		vc := len(m.Values().ToSeq())
		fc := 0
		m.Foreach(func(fp.Tuple2[K, int]) { fc++ })
		_ = m.String()
		if kc != n || vc != n || fc != n {
			h.fail(site+"/keys-values", fmt.Sprintf("Keys=%d Values=%d Foreach=%d entries, expected %d", kc, vc, fc, n))
			return
		}
	}
	if m.Base != nil {
		c, err := immutable.VerifCheck(m.Base)
		if err == immutable.ErrVerifNotHamt {
			w.Add("walker.not_hamt", 1)
		} else if err != nil {
			h.fail(site+"/structure", "trie invariant broken: "+err.Error())
			return
		} else {
			w.Add("walker.runs", 1)
			h.census(c)
			if c.Entries != len(md.es) {
				h.fail(site+"/structure", fmt.Sprintf("trie holds %d entries, reference %d", c.Entries, len(md.es)))
			}
		}
	}
}

func (h *hist[K]) key() K { return h.universe[h.r.IntN(len(h.universe))] }

// biased key choice: phases make histories grow and shrink
func (h *hist[K]) keyFrom(md *model[K], present bool) K {
	if present && len(md.es) > 0 {
		return md.es[h.r.IntN(len(md.es))].k
	}
	return h.key()
}

type mapVersion[K any] struct {
	m  fp.Map[K, int]
	md *model[K]
	it fp.Iterator[fp.Tuple2[K, int]] // iterator created when the version was remembered, drained later
}

// drainHeld drains an iterator that was created before later updates were applied to newer
// versions: it must still yield exactly the remembered version's entries.
func (h *hist[K]) drainHeld(v mapVersion[K]) {
	if h.failed {
		return
	}
	seen := make([]bool, len(v.md.es))
	n := 0
	it := v.it
	for it.HasNext() {
		t := it.Next()
		n++
		i := v.md.idx(t.I1)
		if n > len(v.md.es)+1 || i < 0 || seen[i] || v.md.es[i].v != t.I2 {
			h.fail("Map.Iterator(held across later updates)/iterator", fmt.Sprintf("held iterator yields (%v,%v): absent, twice, or stale value", t.I1, t.I2))
			return
		}
		seen[i] = true
	}
	if n != len(v.md.es) {
		h.fail("Map.Iterator(held across later updates)/iterator", fmt.Sprintf("held iterator yields %d entries, the version has %d", n, len(v.md.es)))
	}
	h.w.Add("iterators_held_across_updates_drained", 1)
}

func runMapHistory[K any](h *hist[K], nops int, zero bool) {
	w, r := h.w, h.r
	md := &model[K]{eqv: h.eqv}
	var m fp.Map[K, int]
	val := 0
	nextVal := func() int { val++; return val }
	// constructor
	ctor := r.IntN(6)
	if zero {
		ctor = 6
	}
	n0 := 0
	switch r.IntN(4) {
	case 1:
		n0 = r.IntN(4)
	case 2:
		n0 = r.IntN(20)
	case 3:
		n0 = r.IntN(2*len(h.universe) + 1)
		if n0 > 600 {
			n0 = 600
		}
	}
	items := make([]fp.Tuple2[K, int], n0)
	for i := range items {
		items[i] = as.Tuple2(h.key(), nextVal())
	}
	site := ""
	switch ctor {
	case 0:
		site = "immutable.Map"
		w.Site(site)
		m = immutable.Map(h.h, items...)
	case 1:
		site = "immutable.MapBuilder"
		w.Site(site)
		b := immutable.MapBuilder[K, int](h.h)
		for _, t := range items {
			b = b.Add(t.I1, t.I2)
		}
		m = b.Build()
	case 2:
		site = "seq.ToMap"
		w.Site(site)
		m = seq.ToMap(fp.Seq[fp.Tuple2[K, int]](items), h.h)
	case 3:
		site = "iterator.ToMap"
		w.Site(site)
		m = iterator.ToMap(iterator.FromSeq(items), h.h)
	case 4:
		site = "list.ToMap"
		w.Site(site)
		m = list.ToMap(list.FromSeq(fp.Seq[fp.Tuple2[K, int]](items)), h.h)
	case 5:
		site = "immutable.Map.Concat"
		w.Site(site)
		m = immutable.Map[K, int](h.h).Concat(iterOf[fp.Tuple2[K, int]]{items})
	case 6:
		site = "fp.Map{}"
		w.Site(site)
		m = fp.Map[K, int]{}
		items = nil
	}
	w.Hit(site)
	for _, t := range items {
		md.put(t.I1, t.I2)
	}
	h.logOp(fmt.Sprintf("%s(%d items)", site, len(items)))
	h.checkMap(site, m, md, nil, true)
	var versions []mapVersion[K]
	phase := 0 // 0 grow, 1 mixed, 2 shrink
	for step := 0; step < nops && !h.failed; step++ {
		if step%((nops/4)+1) == 0 {
			phase = r.IntN(3)
		}
		var touched []K
		op := r.IntN(100)
		pIns, pDel := 50, 20
		switch phase {
		case 0:
			pIns, pDel = 70, 8
		case 2:
			pIns, pDel = 15, 60
		}
		recv := "Map"
		if m.Base == nil {
			recv = "Map[zero]"
		}
		switch {
		case op < pIns:
			k := h.keyFrom(md, r.IntN(4) == 0)
			v := nextVal()
			site = recv + ".Updated"
			w.Site(site)
			h.logOp(fmt.Sprintf("Updated(%v,%d)", k, v))
			m = m.Updated(k, v)
			md.put(k, v)
			touched = []K{k}
		case op < pIns+pDel:
			nk := 1
			if r.IntN(5) == 0 {
				nk = r.IntN(4)
			}
			ks := make([]K, nk)
			for i := range ks {
				ks[i] = h.keyFrom(md, r.IntN(3) != 0)
			}
			if nk == 2 && r.IntN(3) == 0 {
				ks[1] = ks[0]
			}
			site = recv + ".Removed"
			w.Site(site)
			h.logOp(fmt.Sprintf("Removed(%v)", ks))
			m = m.Removed(ks...)
			for _, k := range ks {
				md.del(k)
			}
			touched = ks
			h.hadRemove = true
		case op < pIns+pDel+18:
			k := h.keyFrom(md, r.IntN(2) == 0)
			mode := r.IntN(4)
			v := nextVal()
			site = recv + ".UpdatedWith"
			w.Site(site)
			h.logOp(fmt.Sprintf("UpdatedWith(%v,mode%d,%d)", k, mode, v))
			calls := 0
			var seenOld fp.Option[int]
			remap := func(o fp.Option[int]) fp.Option[int] {
				calls++
				seenOld = o
				switch mode {
				case 0: // insert if absent
					if o.IsDefined() {
						return o
					}
					return fp.Some(v)
				case 1: // replace / insert
					return fp.Some(v)
				case 2: // delete
					return fp.None[int]()
				}
				return o // no-op
			}
			m = m.UpdatedWith(k, remap)
			ov, ook := md.get(k)
			if calls != 1 {
				h.fail(site+"/remap-calls", fmt.Sprintf("remap invoked %d times", calls))
			} else if seenOld.IsDefined() != ook || (ook && seenOld.Get() != ov) {
				h.fail(site+"/remap-arg", fmt.Sprintf("remap received %v, reference holds (%v,%v)", seenOld, ov, ook))
			}
			switch mode {
			case 0:
				if !ook {
					md.put(k, v)
				}
			case 1:
				md.put(k, v)
			case 2:
				md.del(k)
				h.hadRemove = true
			}
			touched = []K{k}
		case op < pIns+pDel+24:
			nk := r.IntN(12)
			its := make(fp.Seq[fp.Tuple2[K, int]], nk)
			for i := range its {
				its[i] = as.Tuple2(h.key(), nextVal())
			}
			site = recv + ".Concat"
			w.Site(site)
			h.logOp(fmt.Sprintf("Concat(%v)", its))
			if r.IntN(2) == 0 || h.h == nil {
				m = m.Concat(iterOf[fp.Tuple2[K, int]]{its})
			} else {
				m = m.Concat(immutable.Map(h.h, its...))
			}
			// order matters only per key: later wins in both forms? a Map argument iterates in
			// trie order, but it holds one value per key (the latest), so the outcome is the same
			tmp := &model[K]{eqv: h.eqv}
			for _, t := range its {
				tmp.put(t.I1, t.I2)
			}
			for _, e := range tmp.es {
				md.put(e.k, e.v)
				touched = append(touched, e.k)
			}
		default:
			// branch: continue from an older version (persistence is C04; here it only
			// diversifies the shapes reached)
			if len(versions) > 0 && r.IntN(2) == 0 {
				vi := r.IntN(len(versions))
				v := versions[vi]
				h.drainHeld(v)
				versions[vi].it = v.m.Iterator()
				m, md = v.m, v.md.clone()
				h.logOp("back-to-older-version")
				h.havePrev = false
			} else if r.IntN(3) == 0 {
				site = recv + ".Concat(self)"
				w.Site(site)
				h.logOp("Concat(self)")
				m = m.Concat(m)
				w.Hit(site)
				h.checkMap(site, m, md, nil, true)
			} else {
				versions = append(versions, mapVersion[K]{m, md.clone(), m.Iterator()})
				if len(versions) > 4 {
					h.drainHeld(versions[0])
					versions = versions[1:]
				}
				h.logOp("remember-version")
			}
			continue
		}
		w.Hit(site)
		w.Add("ops", 1)
		full := h.fullEvery <= 1 || step%h.fullEvery == 0 || step == nops-1
		h.checkMap(site, m, md, touched, full)
	}
	for _, v := range versions {
		h.drainHeld(v)
	}
	if !h.failed {
		h.checkMap("final", m, md, nil, true)
	}
}

// ---- sets -----------------------------------------------------------------------------

func (h *hist[K]) checkSet(site string, s fp.Set[K], md *model[K], touched []K, full bool) {
	w := h.w
	if h.failed {
		return
	}
	w.Add("checks", 1)
	if s.Size() != len(md.es) {
		h.fail(site+"/size", fmt.Sprintf("Size()=%d, reference has %d elements", s.Size(), len(md.es)))
		return
	}
	if s.IsEmpty() != (len(md.es) == 0) || s.NonEmpty() != (len(md.es) != 0) {
		h.fail(site+"/isempty", fmt.Sprintf("IsEmpty=%v NonEmpty=%v with %d elements", s.IsEmpty(), s.NonEmpty(), len(md.es)))
		return
	}
	probe := func(k K) bool {
		_, wok := md.get(k)
		if s.Contains(k) != wok {
			h.fail(site+"/contains", fmt.Sprintf("Contains(%v)=%v, reference %v", k, s.Contains(k), wok))
			return false
		}
		w.Add("lookups", 1)
		return true
	}
	for _, k := range touched {
		if !probe(k) {
			return
		}
	}
	if full {
		for _, k := range h.universe {
			if !probe(k) {
				return
			}
		}
		seen := make([]bool, len(md.es))
		n := 0
		it := s.Iterator()
		for it.HasNext() {
			e := it.Next()
			n++
			if n > len(md.es)+2 {
				h.fail(site+"/iterator", "Iterator yields too many elements")
				return
			}
			i := md.idx(e)
			if i < 0 || seen[i] {
				h.fail(site+"/iterator", fmt.Sprintf("Iterator yields %v (absent or twice)", e))
				return
			}
			seen[i] = true
		}
		if n != len(md.es) {
			h.fail(site+"/iterator", fmt.Sprintf("Iterator yields %d elements, reference has %d", n, len(md.es)))
			return
		}
		fc := 0
		s.Foreach(func(K) { fc++ })
		_ = s.String()
		if fc != n {
			h.fail(site+"/foreach", fmt.Sprintf("Foreach visits %d of %d", fc, n))
			return
		}
		w.Add("iterations", 1)
	} else {
		for i := 0; i < 6; i++ {
			if !probe(h.key()) {
				return
			}
		}
	}
	if sm := fp.VerifSetMinimal(s); sm != nil {
		c, err := immutable.VerifCheckSet(sm)
		if err == immutable.ErrVerifNotHamt {
			w.Add("walker.not_hamt", 1)
		} else if err != nil {
			h.fail(site+"/structure", "trie invariant broken: "+err.Error())
		} else {
			w.Add("walker.runs", 1)
			h.census(c)
			if c.Entries != len(md.es) {
				h.fail(site+"/structure", fmt.Sprintf("trie holds %d entries, reference %d", c.Entries, len(md.es)))
			}
		}
	}
}

type setVersion[K any] struct {
	s  fp.Set[K]
	md *model[K]
}

func runSetHistory[K any](h *hist[K], nops int, zero bool) {
	w, r := h.w, h.r
	md := &model[K]{eqv: h.eqv}
	var s fp.Set[K]
	ctor := r.IntN(5)
	if zero {
		ctor = 5
	}
	n0 := 0
	switch r.IntN(4) {
	case 1:
		n0 = r.IntN(4)
	case 2:
		n0 = r.IntN(20)
	case 3:
		n0 = r.IntN(2*len(h.universe) + 1)
		if n0 > 600 {
			n0 = 600
		}
	}
	items := make([]K, n0)
	for i := range items {
		items[i] = h.key()
	}
	site := ""
	switch ctor {
	case 0:
		site = "immutable.Set"
		w.Site(site)
		s = immutable.Set(h.h, items...)
	case 1:
		site = "immutable.SetBuilder"
		w.Site(site)
		b := immutable.SetBuilder(h.h)
		for _, k := range items {
			b = b.Add(k)
		}
		s = b.Build()
	case 2:
		site = "seq.ToSet"
		w.Site(site)
		s = seq.ToSet(fp.Seq[K](items), h.h)
	case 3:
		site = "iterator.ToSet"
		w.Site(site)
		s = iterator.ToSet(iterator.FromSeq(items), h.h)
	case 4:
		site = "list.ToSet"
		w.Site(site)
		s = list.ToSet(list.FromSeq(fp.Seq[K](items)), h.h)
	case 5:
		site = "fp.Set{}"
		w.Site(site)
		s = fp.Set[K]{}
		items = nil
	}
	w.Hit(site)
	for _, k := range items {
		md.put(k, 1)
	}
	h.logOp(fmt.Sprintf("%s(%d items)", site, len(items)))
	h.checkSet(site, s, md, nil, true)
	var versions []setVersion[K]
	phase := 0
	isZero := func(x fp.Set[K]) bool { return zero && fp.VerifSetMinimal(x) == nil && x.Size() == 0 }
	for step := 0; step < nops && !h.failed; step++ {
		if step%((nops/4)+1) == 0 {
			phase = r.IntN(3)
		}
		var touched []K
		op := r.IntN(100)
		pIns, pDel := 45, 20
		switch phase {
		case 0:
			pIns, pDel = 65, 8
		case 2:
			pIns, pDel = 15, 55
		}
		recv := "Set"
		if isZero(s) {
			recv = "Set[zero]"
		}
		pickOther := func() (fp.Set[K], *model[K], string) {
			c := r.IntN(5)
			if c == 0 {
				return fp.Set[K]{}, &model[K]{eqv: h.eqv}, "zero"
			}
			if c <= 2 && len(versions) > 0 {
				v := versions[r.IntN(len(versions))]
				return v.s, v.md, "older-version"
			}
			nk := r.IntN(16)
			ks := make([]K, nk)
			om := &model[K]{eqv: h.eqv}
			for i := range ks {
				ks[i] = h.keyFrom(md, r.IntN(2) == 0)
				om.put(ks[i], 1)
			}
			if h.h == nil {
				var o fp.Set[K]
				for _, k := range ks {
					o = o.Incl(k)
				}
				return o, om, fmt.Sprintf("zero.Incl%v", ks)
			}
			if h.alt != nil && r.IntN(3) == 0 {
				w.Add("set_ops.argument_built_with_another_hasher", 1)
				return immutable.Set(h.alt, ks...), om, fmt.Sprintf("Set(other-hasher)%v", ks)
			}
			if h.altEq != nil && r.IntN(4) == 0 {
				// the argument lives under ANOTHER lawful equivalence (coarser or finer): Contains of
				// the argument decides membership, each set counts Size under its own equivalence
				om2 := &model[K]{eqv: h.altEq.Eqv}
				for _, k := range ks {
					om2.put(k, 1)
				}
				w.Add("set_ops.argument_under_another_equivalence", 1)
				return immutable.Set(h.altEq, ks...), om2, fmt.Sprintf("Set(other-equivalence)%v", ks)
			}
			return immutable.Set(h.h, ks...), om, fmt.Sprintf("Set%v", ks)
		}
		if r.IntN(40) == 0 {
			// self-operations: the same value as receiver and argument
			site = recv + ".self-ops"
			w.Site(site)
			h.logOp("self-ops")
			if !s.SubsetOf(s) {
				h.fail(site, "s.SubsetOf(s) is false")
			}
			if d := s.Diff(s); d.Size() != 0 || d.NonEmpty() || d.Iterator().HasNext() {
				h.fail(site, fmt.Sprintf("s.Diff(s) has %d elements", d.Size()))
			}
			h.checkSet(site+"/Intersect", s.Intersect(s), md, nil, true)
			h.checkSet(site+"/Concat", s.Concat(s), md, nil, true)
			w.Hit(site)
			continue
		}
		switch {
		case op < pIns:
			k := h.keyFrom(md, r.IntN(4) == 0)
			site = recv + ".Incl"
			w.Site(site)
			h.logOp(fmt.Sprintf("Incl(%v)", k))
			s = s.Incl(k)
			md.put(k, 1)
			touched = []K{k}
		case op < pIns+pDel:
			k := h.keyFrom(md, r.IntN(3) != 0)
			site = recv + ".Excl"
			w.Site(site)
			h.logOp(fmt.Sprintf("Excl(%v)", k))
			s = s.Excl(k)
			md.del(k)
			touched = []K{k}
			h.hadRemove = true
		case op < pIns+pDel+6:
			nk := r.IntN(12)
			ks := make(fp.Seq[K], nk)
			for i := range ks {
				ks[i] = h.key()
			}
			site = recv + ".Concat"
			w.Site(site)
			h.logOp(fmt.Sprintf("Concat(%v)", ks))
			if r.IntN(3) == 0 && h.h != nil {
				s = s.Concat(immutable.Set(h.h, ks...))
			} else {
				s = s.Concat(iterOf[K]{ks})
			}
			for _, k := range ks {
				md.put(k, 1)
			}
			touched = ks
		case op < pIns+pDel+12:
			o, om, od := pickOther()
			site = recv + ".Diff"
			w.Site(site)
			h.logOp("Diff(" + od + ")")
			s = s.Diff(o)
			nm := &model[K]{eqv: h.eqv}
			for _, e := range md.es {
				if _, in := om.get(e.k); !in {
					nm.put(e.k, 1)
				}
			}
			md = nm
			h.hadRemove = true
		case op < pIns+pDel+18:
			o, om, od := pickOther()
			site = recv + ".Intersect"
			w.Site(site)
			h.logOp("Intersect(" + od + ")")
			s = s.Intersect(o)
			nm := &model[K]{eqv: h.eqv}
			for _, e := range md.es {
				if _, in := om.get(e.k); in {
					nm.put(e.k, 1)
				}
			}
			md = nm
			h.hadRemove = true
		case op < pIns+pDel+24:
			o, om, od := pickOther()
			site = recv + ".SubsetOf"
			w.Site(site)
			h.logOp("SubsetOf(" + od + ")")
			got := s.SubsetOf(o)
			want := true
			for _, e := range md.es {
				if _, in := om.get(e.k); !in {
					want = false
				}
			}
			if got != want {
				h.fail(site, fmt.Sprintf("SubsetOf=%v, reference %v", got, want))
			}
			if strings.HasPrefix(od, "Set(other-equivalence)") {
				// the reverse direction would depend on which representative the argument keeps
				w.Hit(site)
				continue
			}
			got2 := o.SubsetOf(s)
			want2 := true
			for _, e := range om.es {
				if _, in := md.get(e.k); !in {
					want2 = false
				}
			}
			if got2 != want2 {
				h.fail(site, fmt.Sprintf("other.SubsetOf(this)=%v, reference %v", got2, want2))
			}
			w.Hit(site)
			continue
		default:
			if len(versions) > 0 && r.IntN(2) == 0 {
				v := versions[r.IntN(len(versions))]
				s, md = v.s, v.md.clone()
				h.logOp("back-to-older-version")
				h.havePrev = false
			} else {
				versions = append(versions, setVersion[K]{s, md.clone()})
				if len(versions) > 4 {
					versions = versions[1:]
				}
				h.logOp("remember-version")
			}
			continue
		}
		w.Hit(site)
		w.Add("ops", 1)
		full := h.fullEvery <= 1 || step%h.fullEvery == 0 || step == nops-1
		h.checkSet(site, s, md, touched, full)
	}
	if !h.failed {
		h.checkSet("final", s, md, nil, true)
	}
}

// ---- case generation ------------------------------------------------------------------

func strUniverse(n int) []string {
	out := make([]string, 0, n)
	for i := 0; len(out) < n; i++ {
		base := fmt.Sprintf("k%d", i/2)
		if i%2 == 1 {
			base = strings.ToUpper(base)
		}
		out = append(out, base)
	}
	return out
}

func runCase(w *vrt.W, i int) {
	r := w.Rand(i)
	sizes := []int{4, 40, 400, 4000}
	maxOps := 400
	if w.Tier == "thorough" {
		maxOps = 3000
	}
	us := sizes[r.IntN(len(sizes))]
	if w.Tier == "quick" && us == 4000 && r.IntN(2) == 0 {
		us = 400
	}
	nops := 1 + r.IntN(maxOps)
	if us <= 40 && nops > 600 {
		nops = 600
	}
	kind := r.IntN(10) // 0..5 int map, 6..7 int set ... see below
	zero := r.IntN(12) == 0
	fullEvery := 1
	if us >= 400 {
		fullEvery = 16
	}
	if us >= 4000 {
		fullEvery = 64
	}
	var fingerprint uint64
	var nontrivial bool
	var sample any
	useStr := r.IntN(6) == 0
	isSet := kind >= 6
	if useStr {
		hi := r.IntN(len(strHashers))
		if us > 400 {
			us = 400
		}
		h := &hist[string]{w: w, idx: i, r: r, h: strHashers[hi], hname: strHasherNames[hi], eqv: strHashers[hi].Eqv, universe: strUniverse(us), fullEvery: fullEvery}
		// only a COARSER equivalence for the argument: then membership of a receiver element in
		// the argument does not depend on which representative of its class the receiver keeps
		// (which the property leaves open)
		if hi == 0 && !zero {
			h.altEq = strHashers[1]
		}
		if zero {
			h.h, h.hname, h.eqv = nil, "zero-value(==)", func(a, b string) bool { return a == b }
		}
		w.Begin(i, "history")
		w.Guard(i, h.witness, func() {
			if isSet {
				runSetHistory(h, nops, zero)
			} else {
				runMapHistory(h, nops, zero)
			}
		})
		fingerprint, nontrivial, sample = h.fp, h.hadRemove && h.hadTrans, h.witness()
	} else {
		hi := r.IntN(len(intHashers))
		uni := make([]int, us)
		off := 0
		if r.IntN(3) == 0 {
			off = r.IntN(1 << 20)
		}
		stride := 1
		if r.IntN(4) == 0 {
			stride = 1 + r.IntN(64)
		}
		for k := range uni {
			uni[k] = off + k*stride
		}
		h := &hist[int]{w: w, idx: i, r: r, h: intHashers[hi], hname: intHasherNames[hi], eqv: intEq, universe: uni, fullEvery: fullEvery}
		h.alt = intHashers[(hi+1+r.IntN(len(intHashers)-1))%len(intHashers)]
		mod := 2 + r.IntN(7)
		h.altEq = hasherT[int]{"mod-eqv", func(a, b int) bool { return a%mod == b%mod }, func(k int) uint32 { return uint32(k % mod) }}
		if zero {
			h.h, h.hname, h.alt, h.altEq = nil, "zero-value(==)", nil, nil
		}
		w.Begin(i, "history")
		w.Guard(i, h.witness, func() {
			if isSet {
				runSetHistory(h, nops, zero)
			} else {
				runMapHistory(h, nops, zero)
			}
		})
		fingerprint, nontrivial, sample = h.fp, h.hadRemove && h.hadTrans, h.witness()
	}
	w.Done(i)
	w.Add("histories", 1)
	if zero {
		w.Add("histories.zero_value", 1)
	}
	if nontrivial {
		w.DistinctHash(fingerprint)
	}
	if w.WantSample() && nontrivial && us <= 40 {
		if mm, ok := sample.(map[string]any); ok {
			if ops, ok := mm["ops"].([]string); ok && len(ops) > 40 {
				mm["ops"] = append(append([]string{}, ops[:40]...), fmt.Sprintf("… %d more", len(ops)-40))
			}
		}
		w.Sample(sample)
	}
}

func main() {
	vrt.Main(vrt.Config{
		Property: "C03",
		Batches: func(tier string) int {
			if tier == "thorough" {
				return 256
			}
			return 32
		},
		Cases: func(tier string, b int) int {
			if tier == "thorough" {
				return 200
			}
			return 600
		},
		Run: func(w *vrt.W) {
			for i := w.From; i < w.To; i++ {
				runCase(w, i)
			}
		},
		Rule: "case = PRNG history over a key universe of 4/40/400/4000 keys with one of 12 int hashers (identity, low-5-bit, constant, high-5-bit, pair-colliding, multiplicative, deep-colliding, mod9-spread, all-ones-shifted, single-bit, fragment-31 patterns, hash.Number) or 3 string hashers (hash.String, two case-insensitive Eqv hashers), started from one of immutable.Map/Set, builders, seq|iterator|list.ToMap/ToSet, Concat or the zero value, followed by Updated/Removed/UpdatedWith/Concat (maps) or Incl/Excl/Concat/Diff/Intersect/SubsetOf (sets) in grow/mixed/shrink phases with returns to older versions, self-operations (m.Concat(m), s.Diff(s)…), set-operation arguments built with another lawful hasher, and iterators created on a version and drained only after later versions were derived; after every operation Size/IsEmpty/Get/Contains (touched + sampled keys, or the whole universe), periodically the Iterator multiset, and the trie walker are compared with a slice-of-pairs reference that uses the hasher's own Eqv. distinct_nontrivial counts distinct operation-sequence fingerprints of histories that contain a removal AND in which a node-kind transition (array->branch, bitmap<->hash-array, value<->collision) was observed by the census.",
		Assumptions: []string{
			"hashers used are lawful (Hash agrees with Eqv) and deterministic",
			"values explored are PRNG-sampled histories, not all histories",
			"zero-value fp.Map/fp.Set histories use ==-comparable keys (the zero value has no hasher)",
		},
		Floors: func(tier string) map[string]int64 {
			return map[string]int64{"nodes.collision": 1, "nodes.hasharray": 1, "trans.bitmap_to_hasharray": 1, "trans.hasharray_to_bitmap": 1, "trans.collision_to_value": 1, "trans.array_to_branch": 1, "walker.runs": 1000, "histories.zero_value": 5, "iterators_held_across_updates_drained": 500, "set_ops.argument_built_with_another_hasher": 200, "set_ops.argument_under_another_equivalence": 200, "iterations.next_without_hasnext": 1000, "hit.Set.self-ops": 50, "hit.Map.Concat(self)": 50}
		},
		Finish: func(tier string, m *vrt.Merged, cov map[string]any) {
			names := []string{}
			for k := range m.Counters {
				if strings.HasPrefix(k, "trans.") {
					names = append(names, k)
				}
			}
			sort.Strings(names)
			cov["node_kind_transitions_observed"] = names
		},
	})
}
