package main

import (
	"fmt"
	"math/rand/v2"
	"strings"

	"github.com/csgura/fp"
)

// Access scripts: demand patterns on a lazy List other than the head-first walk.
//
// A script is pure data: a sequence of Head / IsEmpty / NonEmpty / Unapply / Tail calls on the
// cells of ONE list value, addressed by (table, position). Position 0 of every table is the
// list itself; `tail` applied to cell (tab, pos) stores the returned list as cell (dst, pos+1),
// so several independent traversals of the same list (tables) can be interleaved, a cell's
// head can be read after the heads of its successors, Tail can be forced k times before any
// Head, and a second traversal can fork off in the middle of the first. Whatever the order of
// demands, the element at position i must be element i of the reference.

const nTabs = 3

type accessOp struct {
	Op  string `json:"op"` // head | isEmpty | nonEmpty | unapply | tail
	Tab int    `json:"tab,omitempty"`
	Pos int    `json:"pos"`
	Dst int    `json:"dst,omitempty"` // tail, unapply: table receiving cell pos+1
}

type scriptSpec struct {
	Kind string     `json:"kind"`
	Ops  []accessOp `json:"ops"`
}

var scriptKinds = []string{"tailsThenLast", "tailsThenAsc", "tailsThenDesc", "tailsThenRandom", "successorFirst", "stride", "interleave", "fork", "random"}

func (s *scriptSpec) String() string {
	var b strings.Builder
	fmt.Fprintf(&b, "%s:", s.Kind)
	for i, o := range s.Ops {
		if i == 40 {
			fmt.Fprintf(&b, " … (%d calls)", len(s.Ops))
			break
		}
		switch o.Op {
		case "tail", "unapply":
			fmt.Fprintf(&b, " %s(t%d[%d])->t%d[%d]", o.Op, o.Tab, o.Pos, o.Dst, o.Pos+1)
		default:
			fmt.Fprintf(&b, " %s(t%d[%d])", o.Op, o.Tab, o.Pos)
		}
	}
	return b.String()
}

// scriptGen builds a script over positions 0..reach (cells that may be reached by Tail) of
// which the positions < inspect may be looked at. It tracks which (table, position) cells
// exist so that every generated call is executable when the list has at least `reach`
// elements; the interpreter skips calls that a shorter list (after shrinking) cannot serve.
type scriptGen struct {
	r     *rand.Rand
	reach int
	insp  int
	n     int // number of non-empty cells of the reference list (cells >= n can only be tested for emptiness)
	valid [nTabs][]bool
	ops   []accessOp
}

func (g *scriptGen) has(t, p int) bool { return p >= 0 && p <= g.reach && g.valid[t][p] }

func (g *scriptGen) tail(t, p, dst int) {
	if !g.has(t, p) || p+1 > g.reach {
		return
	}
	op := "tail"
	if p < g.insp && g.r.IntN(8) == 0 {
		op = "unapply"
	}
	g.ops = append(g.ops, accessOp{Op: op, Tab: t, Pos: p, Dst: dst})
	g.valid[dst][p+1] = true
}

func (g *scriptGen) look(t, p int) {
	if !g.has(t, p) || p >= g.insp {
		return
	}
	op := "head"
	switch x := g.r.IntN(10); {
	case x == 0 || (p >= g.n && x < 5):
		op = "isEmpty"
	case x == 1 || p >= g.n:
		op = "nonEmpty"
	}
	g.ops = append(g.ops, accessOp{Op: op, Tab: t, Pos: p})
}

func genScript(r *rand.Rand, reach, inspect, n int) *scriptSpec {
	if reach > n {
		reach = n
	}
	if reach < 0 {
		reach = 0
	}
	if inspect > n+1 {
		inspect = n + 1
	}
	g := &scriptGen{r: r, reach: reach, insp: inspect, n: n}
	for t := range g.valid {
		g.valid[t] = make([]bool, reach+2)
		g.valid[t][0] = true
	}
	kind := scriptKinds[r.IntN(len(scriptKinds))]
	allTails := func(t int) {
		for p := 0; p < reach; p++ {
			g.tail(t, p, t)
		}
	}
	switch kind {
	case "tailsThenLast": // l.Tail().Tail()….Head()
		allTails(0)
		last := reach
		if last >= inspect {
			last = inspect - 1
		}
		g.look(0, last)
		if r.IntN(2) == 0 {
			for p := 0; p <= reach; p++ {
				g.look(0, p)
			}
		}
	case "tailsThenAsc":
		allTails(0)
		for p := 0; p <= reach; p++ {
			g.look(0, p)
		}
	case "tailsThenDesc":
		allTails(0)
		for p := reach; p >= 0; p-- {
			g.look(0, p)
		}
	case "tailsThenRandom":
		allTails(0)
		for _, p := range r.Perm(reach + 1) {
			g.look(0, p)
		}
	case "successorFirst": // a cell's head is read after its successor's
		for p := 0; p < reach; p++ {
			g.tail(0, p, 0)
			g.look(0, p+1)
			g.look(0, p)
		}
		g.look(0, 0)
	case "stride":
		s := 2 + r.IntN(2)
		allTails(0)
		for p := reach - reach%s; p >= 0; p -= s {
			g.look(0, p)
		}
		for p := 0; p <= reach; p++ {
			if p%s != 0 {
				g.look(0, p)
			}
		}
	case "interleave": // two traversals of the same list, the first runs d cells ahead
		d := 1 + r.IntN(3)
		readA := r.IntN(2) == 0
		for p := 0; p < reach+d; p++ {
			if p < reach {
				g.tail(0, p, 0)
				if readA && r.IntN(2) == 0 {
					g.look(0, p+1)
				}
			}
			if q := p - d; q >= 0 && q < reach {
				g.look(1, q)
				g.tail(1, q, 1)
			}
		}
		g.look(1, reach)
		for p := reach; p >= 0; p-- {
			if r.IntN(2) == 0 {
				g.look(0, p)
			}
		}
	case "fork": // a second traversal leaves the first in the middle
		allTails(0)
		q := 0
		if reach > 0 {
			q = r.IntN(reach)
		}
		g.tail(0, q, 1)
		for p := q + 1; p < reach; p++ {
			g.tail(1, p, 1)
		}
		for p := reach; p > q; p-- {
			g.look(1, p)
		}
		for p := 0; p <= reach; p++ {
			t := r.IntN(2)
			if !g.has(t, p) {
				t = 0
			}
			g.look(t, p)
		}
	default: // random
		n := 2*reach + inspect + 6
		if n > 160 {
			n = 160
		}
		for len(g.ops) < n {
			t := r.IntN(nTabs)
			// a random existing cell of table t, biased towards the far end
			p := r.IntN(reach + 1)
			for p > 0 && !g.valid[t][p] {
				p--
			}
			before := len(g.ops)
			if r.IntN(5) < 3 {
				g.tail(t, p, r.IntN(nTabs))
			} else {
				g.look(t, p)
			}
			if len(g.ops) == before {
				n-- // nothing possible here (end of range); do not spin
			}
		}
	}
	return &scriptSpec{Kind: kind, Ops: g.ops}
}

type scriptStats struct {
	calls               int
	heads               int
	tails               int
	tailBeforeOwnHead   int // Tail() of a cell none of whose Head/IsEmpty/NonEmpty had been demanded by the consumer
	headAfterLaterHead  int // first look at a cell after a cell further down the list had been looked at
	secondCursorLooks   int // looks through a table other than the first
	maxPos              int
	endCellLooks        int // IsEmpty/NonEmpty on the terminal empty cell
	notExecutableOnList int
}

// runScript interprets sc on root. full holds the reference elements; positions < inspect are
// decidable: position p is a non-empty cell holding full[p] if p < len(full), otherwise it is
// the empty end of the list. Tail is only taken from cells that are non-empty by the reference
// and never beyond position reach.
func runScript(root fp.List[int], sc *scriptSpec, full []int, reach, inspect int) (st scriptStats, f *failure) {
	var cells [nTabs][]fp.List[int]
	var valid [nTabs][]bool
	size := reach + 2
	for t := 0; t < nTabs; t++ {
		cells[t] = make([]fp.List[int], size)
		valid[t] = make([]bool, size)
		cells[t][0], valid[t][0] = root, true
	}
	looked := make([]bool, size)
	maxLooked := -1
	note := func(o accessOp) {
		if !looked[o.Pos] {
			if maxLooked > o.Pos {
				st.headAfterLaterHead++
			}
			looked[o.Pos] = true
		}
		if o.Pos > maxLooked {
			maxLooked = o.Pos
		}
		if o.Tab != 0 {
			st.secondCursorLooks++
		}
	}
	bad := func(idx int, o accessOp, got, want any) *failure {
		return failf("demand-order", "", "call #%d of the access script, %s() of the cell at position %d (table %d) = %v, the reference list has %v there (reference %s); script %s",
			idx, o.Op, o.Pos, o.Tab, got, want, clip(full), sc.String())
	}
	for idx, o := range sc.Ops {
		if o.Tab < 0 || o.Tab >= nTabs || o.Dst < 0 || o.Dst >= nTabs || o.Pos < 0 || o.Pos > reach || !valid[o.Tab][o.Pos] {
			st.notExecutableOnList++
			continue
		}
		cell := cells[o.Tab][o.Pos]
		nonEmpty := o.Pos < len(full)
		switch o.Op {
		case "head":
			if o.Pos >= inspect || !nonEmpty {
				st.notExecutableOnList++
				continue
			}
			note(o)
			st.heads++
			if got := cell.Head(); got != full[o.Pos] {
				return st, bad(idx, o, got, full[o.Pos])
			}
		case "isEmpty", "nonEmpty":
			if o.Pos >= inspect {
				st.notExecutableOnList++
				continue
			}
			note(o)
			if !nonEmpty {
				st.endCellLooks++
			}
			if o.Op == "isEmpty" {
				if got := cell.IsEmpty(); got != !nonEmpty {
					return st, bad(idx, o, got, !nonEmpty)
				}
			} else if got := cell.NonEmpty(); got != nonEmpty {
				return st, bad(idx, o, got, nonEmpty)
			}
		case "tail", "unapply":
			if !nonEmpty || o.Pos+1 > reach || (o.Op == "unapply" && o.Pos >= inspect) {
				st.notExecutableOnList++
				continue
			}
			var nx fp.List[int]
			if o.Op == "unapply" {
				note(o)
				st.heads++
				var h int
				h, nx = cell.Unapply()
				if h != full[o.Pos] {
					return st, bad(idx, o, h, full[o.Pos])
				}
			} else {
				if !looked[o.Pos] {
					st.tailBeforeOwnHead++
				}
				nx = cell.Tail()
			}
			st.tails++
			cells[o.Dst][o.Pos+1], valid[o.Dst][o.Pos+1] = nx, true
			if o.Pos+1 > st.maxPos {
				st.maxPos = o.Pos + 1
			}
		default:
			st.notExecutableOnList++
			continue
		}
		st.calls++
	}
	return st, nil
}
