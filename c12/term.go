package main

import (
	"errors"
	"fmt"
	"sort"
	"strconv"
	"strings"

	ir "verif/refmodel/iterref"
	"verif/vrt"

	"github.com/csgura/fp"
	"github.com/csgura/fp/as"
	"github.com/csgura/fp/hash"
	"github.com/csgura/fp/iterator"
	"github.com/csgura/fp/lazy"
	"github.com/csgura/fp/list"
	"github.com/csgura/fp/ord"
	"github.com/csgura/fp/seq"
)

// failure is an oracle verdict on one execution.
type failure struct {
	kind   string // disagrees | over-pull | nontermination | panic | cell-evaluated-twice | re-evaluated-on-second-traversal | harness
	site   string // library call site the observation is attributed to ("" = pipeline)
	detail string
}

func failf(kind, site, format string, a ...any) *failure {
	return &failure{kind: kind, site: site, detail: fmt.Sprintf(format, a...)}
}

// monoids written here (lawful; the string one is not commutative)
type intSum struct{ b *vrt.Budget }

func (m intSum) Empty() int { return 0 }
func (m intSum) Combine(a, b int) int {
	m.b.Tick()
	return a + b
}

type strCat struct{ b *vrt.Budget }

func (m strCat) Empty() string { return "" }
func (m strCat) Combine(a, b string) string {
	m.b.Tick()
	return a + b
}

// affine maps x -> p*x+q under composition: a lawful non-commutative monoid on pairs, packed in one int
type affine struct{ b *vrt.Budget }

const affMod = 1009

func affPack(p, q int) int   { return p*affMod + q }
func affUn(v int) (int, int) { return v / affMod, v % affMod }
func (m affine) Empty() int  { return affPack(1, 0) }
func (m affine) Combine(a, b int) int {
	m.b.Tick()
	p1, q1 := affUn(a)
	p2, q2 := affUn(b)
	// (a then b): x -> p2*(p1*x+q1)+q2
	return affPack((p1*p2)%affMod, (p2*q1+q2)%affMod)
}
func affElem(x int) int { return affPack(2+abs(x)%5, abs(x)%affMod) }

var errStop = errors.New("stop")

// coll abstracts the terminal operations a collection offers (nil = not offered).
type coll struct {
	pfx          string
	n            int
	fold         func(z int, f func(int, int) int) int
	foldLeft     func(z int, f func(int, int) int) int
	foldLeftMap  func(z int, f func(int, int) int) int
	foldRightMap func(z int, f func(int, int) int) int
	foldTry      func(z int, f func(int, int) fp.Try[int]) fp.Try[int]
	foldOption   func(z int, f func(int, int) fp.Option[int]) fp.Option[int]
	foldError    func(f func(int) error) error
	foldRight    func(z int, f func(int, lazy.Eval[int]) lazy.Eval[int]) lazy.Eval[int]
	foldMap      func(m fp.Monoid[int], f func(int) int) int
	reduce       func(m fp.Monoid[int]) int
	reduceAff    func(m fp.Monoid[int]) int // elements mapped to affine maps first
	reduceStr    func(m fp.Monoid[string]) string
	groupBy      func(k func(int) int) map[int]fp.Seq[int]
	min, max     func(o fp.Ord[int]) fp.Option[int]
	toMap        func(k func(int) int) fp.Map[int, int]
	toGoMap      func(k func(int) int) map[int]int
	toSet        func() fp.Set[int]
	toGoSet      func() map[int]bool
	sortBy       func(o fp.Ord[int]) fp.Seq[int]
	toSeq        map[string]func() []int
	count        func() int
	exists       func(p func(int) bool) bool
	forAll       func(p func(int) bool) bool
	find         func(p func(int) bool) fp.Option[int]
	mkString     func(sep string) string
	foreach      func(f func(int))
	extra        map[string]func(exp []int) *failure
}

func itoa(x int) string { return strconv.Itoa(x) + "," }

func pairOf(k func(int) int) func(int) fp.Tuple2[int, int] {
	return func(x int) fp.Tuple2[int, int] { return as.Tuple(k(x), x) }
}

func walkList(l fp.List[int], max int) ([]int, bool) {
	out := []int{}
	c := l
	for c.NonEmpty() {
		if len(out) > max {
			return out, false
		}
		out = append(out, c.Head())
		c = c.Tail()
	}
	return out, true
}

func collOf(c cur) *coll {
	hs := hash.Number[int]()
	switch c.world {
	case wIter:
		it := c.it
		cl := &coll{pfx: "iterator"}
		cl.fold = func(z int, f func(int, int) int) int { return iterator.Fold(it, z, f) }
		cl.foldTry = func(z int, f func(int, int) fp.Try[int]) fp.Try[int] { return iterator.FoldTry(it, z, f) }
		cl.foldOption = func(z int, f func(int, int) fp.Option[int]) fp.Option[int] { return iterator.FoldOption(it, z, f) }
		cl.foldError = func(f func(int) error) error { return iterator.FoldError(it, f) }
		cl.foldRight = func(z int, f func(int, lazy.Eval[int]) lazy.Eval[int]) lazy.Eval[int] {
			return iterator.FoldRight(it, z, f)
		}
		cl.reduce = func(m fp.Monoid[int]) int { return iterator.Reduce(it, m) }
		cl.reduceAff = func(m fp.Monoid[int]) int { return iterator.Reduce(iterator.Map(it, affElem), m) }
		cl.reduceStr = func(m fp.Monoid[string]) string { return iterator.Reduce(iterator.Map(it, itoa), m) }
		cl.groupBy = func(k func(int) int) map[int]fp.Seq[int] { return iterator.GroupBy(it, k) }
		cl.min = func(o fp.Ord[int]) fp.Option[int] { return iterator.Min(it, o) }
		cl.max = func(o fp.Ord[int]) fp.Option[int] { return iterator.Max(it, o) }
		cl.toMap = func(k func(int) int) fp.Map[int, int] { return iterator.ToMap(iterator.Map(it, pairOf(k)), hs) }
		cl.toGoMap = func(k func(int) int) map[int]int { return iterator.ToGoMap(iterator.Map(it, pairOf(k))) }
		cl.toSet = func() fp.Set[int] { return iterator.ToSet(it, hs) }
		cl.toGoSet = func() map[int]bool { return iterator.ToGoSet(it) }
		cl.sortBy = func(o fp.Ord[int]) fp.Seq[int] { return iterator.Sort(it, o) }
		cl.toSeq = map[string]func() []int{
			"Iterator.ToSeq":   func() []int { return it.ToSeq() },
			"iterator.ToSeq":   func() []int { return iterator.ToSeq(it) },
			"iterator.ToSlice": func() []int { return iterator.ToSlice(it) },
			"seq.Collect":      func() []int { return seq.Collect(it) },
			"iterator.ToList":  func() []int { s, _ := walkList(iterator.ToList(it), 1<<20); return s },
			"list.Collect":     func() []int { s, _ := walkList(list.Collect(it), 1<<20); return s },
			"Iterator.NextOption": func() []int {
				out := []int{}
				for {
					o := it.NextOption()
					if !o.IsDefined() {
						return out
					}
					out = append(out, o.Get())
				}
			},
			"Iterator.All": func() []int {
				out := []int{}
				for v := range it.All() {
					out = append(out, v)
				}
				return out
			},
		}
		cl.count = func() int { return it.Count() }
		cl.exists = func(p func(int) bool) bool { return it.Exists(p) }
		cl.forAll = func(p func(int) bool) bool { return it.ForAll(p) }
		cl.find = func(p func(int) bool) fp.Option[int] { return it.Find(p) }
		cl.mkString = func(sep string) string { return it.MakeString(sep) }
		cl.foreach = func(f func(int)) { it.Foreach(f) }
		cl.extra = map[string]func(exp []int) *failure{
			"Iterator.IsEmpty": func(exp []int) *failure {
				if it.IsEmpty() != (len(exp) == 0) || it.NonEmpty() != (len(exp) != 0) {
					return failf("disagrees", "Iterator.IsEmpty", "IsEmpty/NonEmpty wrong for a sequence of %d elements", len(exp))
				}
				if got := it.ToSeq(); !ir.EqualS(got, exp) {
					return failf("disagrees", "Iterator.IsEmpty", "after IsEmpty/NonEmpty the iterator yields %v, reference %v", clip(got), clip(exp))
				}
				return nil
			},
			"Iterator.All(break)": func(exp []int) *failure {
				stop := len(exp) / 2
				out := []int{}
				for v := range it.All() {
					if len(out) == stop {
						break
					}
					out = append(out, v)
				}
				if !ir.EqualS(out, exp[:stop]) {
					return failf("disagrees", "Iterator.All", "range with break after %d yields %v, reference %v", stop, clip(out), clip(exp[:stop]))
				}
				return nil
			},
			"iterator.Duplicate": func(exp []int) *failure {
				l, r := iterator.Duplicate(it)
				a, b := l.ToSeq(), r.ToSeq()
				if !ir.EqualS(a, exp) || !ir.EqualS(b, exp) {
					return failf("disagrees", "iterator.Duplicate", "copies %v / %v, reference %v", clip(a), clip(b), clip(exp))
				}
				return nil
			},
		}
		return cl
	case wList:
		l := c.li
		cl := &coll{pfx: "list"}
		cl.fold = func(z int, f func(int, int) int) int { return list.Fold(l, z, f) }
		cl.foldLeft = func(z int, f func(int, int) int) int { return list.FoldLeft(l, z, f) }
		cl.foldLeftMap = func(z int, f func(int, int) int) int { return list.FoldLeftUsingMap(l, z, f) }
		cl.foldRightMap = func(z int, f func(int, int) int) int { return list.FoldRightUsingMap(l, z, f) }
		cl.foldTry = func(z int, f func(int, int) fp.Try[int]) fp.Try[int] { return list.FoldTry(l, z, f) }
		cl.foldOption = func(z int, f func(int, int) fp.Option[int]) fp.Option[int] { return list.FoldOption(l, z, f) }
		cl.foldError = func(f func(int) error) error { return list.FoldError(l, f) }
		cl.foldRight = func(z int, f func(int, lazy.Eval[int]) lazy.Eval[int]) lazy.Eval[int] {
			return list.FoldRight(l, z, f)
		}
		cl.foldMap = func(m fp.Monoid[int], f func(int) int) int { return list.FoldMap(l, m, f) }
		cl.reduce = func(m fp.Monoid[int]) int { return list.Reduce(l, m) }
		cl.reduceAff = func(m fp.Monoid[int]) int { return list.Reduce(list.Map(l, affElem), m) }
		cl.reduceStr = func(m fp.Monoid[string]) string { return list.Reduce(list.Map(l, itoa), m) }
		cl.groupBy = func(k func(int) int) map[int]fp.Seq[int] { return list.GroupBy(l, k) }
		cl.min = func(o fp.Ord[int]) fp.Option[int] { return list.Min(l, o) }
		cl.max = func(o fp.Ord[int]) fp.Option[int] { return list.Max(l, o) }
		cl.toMap = func(k func(int) int) fp.Map[int, int] { return list.ToMap(list.Map(l, pairOf(k)), hs) }
		cl.toGoMap = func(k func(int) int) map[int]int { return list.ToGoMap(list.Map(l, pairOf(k))) }
		cl.toSet = func() fp.Set[int] { return list.ToSet(l, hs) }
		cl.toGoSet = func() map[int]bool { return list.ToGoSet(l) }
		cl.sortBy = func(o fp.Ord[int]) fp.Seq[int] { return list.Sort(l, o) }
		cl.toSeq = map[string]func() []int{
			"List.ToSeq":        func() []int { return l.ToSeq() },
			"List.Head/Tail":    func() []int { s, _ := walkList(l, 1<<20); return s },
			"iterator.FromList": func() []int { return iterator.FromList(l).ToSeq() },
			"List.Unapply": func() []int {
				out := []int{}
				c := l
				for !c.IsEmpty() {
					h, t := c.Unapply()
					out = append(out, h)
					c = t
				}
				return out
			},
		}
		cl.foreach = func(f func(int)) { l.Foreach(f) }
		cl.extra = map[string]func(exp []int) *failure{
			"list.Head": func(exp []int) *failure {
				h := list.Head(l)
				if h.IsDefined() != (len(exp) > 0) || (len(exp) > 0 && h.Get() != exp[0]) {
					return failf("disagrees", "list.Head", "Head = %v, reference sequence %v", h, clip(exp))
				}
				if l.IsEmpty() != (len(exp) == 0) || l.NonEmpty() != (len(exp) > 0) {
					return failf("disagrees", "List.IsEmpty", "IsEmpty/NonEmpty wrong for %d elements", len(exp))
				}
				return nil
			},
		}
		return cl
	default:
		s := c.sq
		cl := &coll{pfx: "seq"}
		cl.fold = func(z int, f func(int, int) int) int { return seq.Fold(s, z, f) }
		cl.foldTry = func(z int, f func(int, int) fp.Try[int]) fp.Try[int] { return seq.FoldTry(s, z, f) }
		cl.foldOption = func(z int, f func(int, int) fp.Option[int]) fp.Option[int] { return seq.FoldOption(s, z, f) }
		cl.foldError = func(f func(int) error) error { return seq.FoldError(s, f) }
		cl.foldRight = func(z int, f func(int, lazy.Eval[int]) lazy.Eval[int]) lazy.Eval[int] {
			return seq.FoldRight(s, z, f)
		}
		cl.foldMap = func(m fp.Monoid[int], f func(int) int) int { return seq.FoldMap(s, m, f) }
		cl.reduce = func(m fp.Monoid[int]) int { return seq.Reduce(s, m) }
		cl.reduceAff = func(m fp.Monoid[int]) int { return seq.Reduce(seq.Map(s, affElem), m) }
		cl.reduceStr = func(m fp.Monoid[string]) string { return seq.Reduce(seq.Map(s, itoa), m) }
		cl.groupBy = func(k func(int) int) map[int]fp.Seq[int] { return seq.GroupBy(s, k) }
		cl.min = func(o fp.Ord[int]) fp.Option[int] { return seq.Min(s, o) }
		cl.max = func(o fp.Ord[int]) fp.Option[int] { return seq.Max(s, o) }
		cl.toMap = func(k func(int) int) fp.Map[int, int] { return seq.ToMap(seq.Map(s, pairOf(k)), hs) }
		cl.toGoMap = func(k func(int) int) map[int]int { return seq.ToGoMap(seq.Map(s, pairOf(k))) }
		cl.toSet = func() fp.Set[int] { return seq.ToSet(s, hs) }
		cl.toGoSet = func() map[int]bool { return seq.ToGoSet(s) }
		cl.sortBy = func(o fp.Ord[int]) fp.Seq[int] { return seq.Sort(s, o) }
		cl.toSeq = map[string]func() []int{
			"Seq":          func() []int { return s },
			"seq.Iterator": func() []int { return seq.Iterator(s).ToSeq() },
		}
		cl.count = func() int { return s.Size() }
		cl.exists = func(p func(int) bool) bool { return s.Exists(p) }
		cl.forAll = func(p func(int) bool) bool { return s.ForAll(p) }
		cl.find = func(p func(int) bool) fp.Option[int] { return s.Find(p) }
		cl.mkString = func(sep string) string { return s.MakeString(sep) }
		cl.foreach = func(f func(int)) { s.Foreach(f) }
		return cl
	}
}

var mmName = map[string]string{"minKey": "Min", "maxKey": "Max"}

// keyOrdInt: the same order "by key" built in the different ways the library offers.
func keyOrdInt(v int, key func(int) int) fp.Ord[int] {
	switch abs(v) % 5 {
	case 0:
		return fp.CompareFunc[int](func(a, b int) int { return key(a) - key(b) })
	case 1:
		return fp.LessFunc[int](func(a, b int) bool { return key(a) < key(b) })
	case 2:
		return ord.ContraMap(ord.Given[int](), key)
	case 3:
		return ord.GivenField(key)
	}
	return ord.FromCompare(func(a, b int) int { return key(a) - key(b) })
}

func clip(xs []int) string {
	if len(xs) <= 24 {
		return fmt.Sprint(xs)
	}
	return fmt.Sprintf("%v… (%d elements)", xs[:24], len(xs))
}

// terminal kinds (abstract); availability depends on the collection.
var termKinds = []string{"toSeq", "count", "fold", "foldLeft", "foldLeftMap", "foldRightMap", "foldTry", "foldOption", "foldError", "foldRight", "foldRightShort",
	"foldMap", "reduce", "reduceAff", "reduceStr", "groupBy", "min", "max", "minKey", "maxKey", "toMap", "toGoMap", "toSet", "toGoSet", "sort", "exists", "forAll", "find",
	"mkString", "foreach", "extra"}

// termNames returns the library call-site names a terminal kind resolves to for a world.
func termNames(kind string, world int) []string {
	cl := collOf(cur{world: world, it: iterator.Empty[int](), li: list.Empty[int](), sq: nil})
	up := func(s string) string { return cl.pfx + "." + s }
	has := func(ok bool, names ...string) []string {
		if ok {
			return names
		}
		return nil
	}
	recv := []string{"Iterator", "List", "Seq"}[world]
	switch kind {
	case "toSeq":
		return sortedKeys(cl.toSeq)
	case "extra":
		return sortedKeysF(cl.extra)
	case "count":
		return has(cl.count != nil, recv+".Count")
	case "fold":
		return has(cl.fold != nil, up("Fold"))
	case "foldLeft":
		return has(cl.foldLeft != nil, up("FoldLeft"))
	case "foldLeftMap":
		return has(cl.foldLeftMap != nil, up("FoldLeftUsingMap"))
	case "foldRightMap":
		return has(cl.foldRightMap != nil, up("FoldRightUsingMap"))
	case "foldTry":
		return has(cl.foldTry != nil, up("FoldTry"))
	case "foldOption":
		return has(cl.foldOption != nil, up("FoldOption"))
	case "foldError":
		return has(cl.foldError != nil, up("FoldError"))
	case "foldRight", "foldRightShort":
		return has(cl.foldRight != nil, up("FoldRight"))
	case "foldMap":
		return has(cl.foldMap != nil, up("FoldMap"))
	case "reduce", "reduceAff", "reduceStr":
		return has(cl.reduce != nil, up("Reduce"))
	case "groupBy":
		return has(cl.groupBy != nil, up("GroupBy"))
	case "min", "minKey":
		return has(cl.min != nil, up("Min"))
	case "max", "maxKey":
		return has(cl.max != nil, up("Max"))
	case "toMap":
		return has(cl.toMap != nil, up("ToMap"))
	case "toGoMap":
		return has(cl.toGoMap != nil, up("ToGoMap"))
	case "toSet":
		return has(cl.toSet != nil, up("ToSet"))
	case "toGoSet":
		return has(cl.toGoSet != nil, up("ToGoSet"))
	case "sort":
		return has(cl.sortBy != nil, up("Sort"))
	case "exists":
		return has(cl.exists != nil, recv+".Exists")
	case "forAll":
		return has(cl.forAll != nil, recv+".ForAll")
	case "find":
		return has(cl.find != nil, recv+".Find")
	case "mkString":
		return has(cl.mkString != nil, recv+".MakeString")
	case "foreach":
		return has(cl.foreach != nil, recv+".Foreach")
	case "foldRightForce": // lazyarg.go (own batches, not in termKinds)
		return has(cl.foldRight != nil, up("FoldRight"))
	case "split": // split.go (own batches, not in termKinds): every world reaches the iterator
		return []string{"iterator.Duplicate", "iterator.Partition", "iterator.Span"}
	}
	return nil
}

func sortedKeys(m map[string]func() []int) []string {
	out := []string{}
	for k := range m {
		out = append(out, k)
	}
	sort.Strings(out)
	return out
}
func sortedKeysF(m map[string]func(exp []int) *failure) []string {
	out := []string{}
	for k := range m {
		out = append(out, k)
	}
	sort.Strings(out)
	return out
}

// runTerminal applies terminal (kind, variant ta, parameter tb) to the collection and compares
// with the plain-slice reference over exp. Returns the library call-site name and a verdict.
func runTerminal(site func(string), c cur, kind string, ta, tb int, exp []int, note func(string)) (string, *failure) {
	cl := collOf(c)
	names := termNames(kind, c.world)
	if len(names) == 0 {
		kind = "toSeq"
		names = termNames(kind, c.world)
	}
	name := names[abs(ta)%len(names)]
	site(name)
	n := len(exp)
	fb := func() *vrt.Budget {
		return vrt.NewBudget(int64(n), fmt.Sprintf("%s called its function more than len(input)=%d times", name, n))
	}
	g := scanOf(ta)
	z := tb % 11
	refFold := func() int {
		acc := z
		for _, x := range exp {
			acc = g(acc, x)
		}
		return acc
	}
	bad := func(got, want any) *failure {
		return failf("disagrees", name, "%s = %v, plain-slice reference = %v (input %s)", name, got, want, clip(exp))
	}
	switch kind {
	case "toSeq":
		got := cl.toSeq[name]()
		if !ir.EqualS(got, exp) {
			return name, bad(clip(got), clip(exp))
		}
	case "extra":
		return name, cl.extra[name](exp)
	case "count":
		if got := cl.count(); got != n {
			return name, bad(got, n)
		}
	case "fold", "foldLeft", "foldLeftMap":
		b := fb()
		f := func(acc, x int) int { b.Tick(); return g(acc, x) }
		var got int
		switch kind {
		case "fold":
			got = cl.fold(z, f)
		case "foldLeft":
			got = cl.foldLeft(z, f)
		default:
			got = cl.foldLeftMap(z, f)
		}
		if got != refFold() {
			return name, bad(got, refFold())
		}
	case "foldRightMap":
		b := fb()
		got := cl.foldRightMap(z, func(x, acc int) int { b.Tick(); return g(acc, x) })
		want := z
		for i := n - 1; i >= 0; i-- {
			want = g(want, exp[i])
		}
		if got != want {
			return name, bad(got, want)
		}
	case "foldTry":
		stop := abs(tb) % (n + 2)
		b := fb()
		calls := 0
		got := cl.foldTry(z, func(acc, x int) fp.Try[int] {
			b.Tick()
			calls++
			if calls-1 == stop {
				return fp.Failure[int](errStop)
			}
			return fp.Success(g(acc, x))
		})
		if stop < n {
			if got.IsSuccess() || got.Failed().Get() != errStop {
				return name, bad(got, "Failure(stop) at element "+strconv.Itoa(stop))
			}
			if calls != stop+1 {
				return name, failf("disagrees", name, "%s called its function %d times, the step at index %d failed (short-circuit expected)", name, calls, stop)
			}
		} else if !got.IsSuccess() || got.Get() != refFold() {
			return name, bad(got, fmt.Sprintf("Success(%d)", refFold()))
		}
	case "foldOption":
		stop := abs(tb) % (n + 2)
		b := fb()
		calls := 0
		got := cl.foldOption(z, func(acc, x int) fp.Option[int] {
			b.Tick()
			calls++
			if calls-1 == stop {
				return fp.None[int]()
			}
			return fp.Some(g(acc, x))
		})
		if stop < n {
			if got.IsDefined() {
				return name, bad(got, "None at element "+strconv.Itoa(stop))
			}
			if calls != stop+1 {
				return name, failf("disagrees", name, "%s called its function %d times, the step at index %d returned None", name, calls, stop)
			}
		} else if !got.IsDefined() || got.Get() != refFold() {
			return name, bad(got, fmt.Sprintf("Some(%d)", refFold()))
		}
	case "foldError":
		stop := abs(tb) % (n + 2)
		b := fb()
		seen := []int{}
		got := cl.foldError(func(x int) error {
			b.Tick()
			seen = append(seen, x)
			if len(seen)-1 == stop {
				return errStop
			}
			return nil
		})
		wantSeen := exp
		if stop < n {
			wantSeen = exp[:stop+1]
		}
		if (stop < n) != (got != nil) || (got != nil && got != errStop) {
			return name, bad(got, fmt.Sprintf("error at index %d (n=%d)", stop, n))
		}
		if !ir.EqualS(seen, wantSeen) {
			return name, failf("disagrees", name, "%s visited %s, reference %s", name, clip(seen), clip(wantSeen))
		}
	case "foldRight":
		b := fb()
		got := cl.foldRight(z, func(x int, rest lazy.Eval[int]) lazy.Eval[int] {
			b.Tick()
			return rest.Map(func(acc int) int { return g(acc, x) })
		}).Get()
		want := z
		for i := n - 1; i >= 0; i-- {
			want = g(want, exp[i])
		}
		if got != want {
			return name, bad(got, want)
		}
	case "foldRightShort":
		p := predOf(ta, tb)
		b := fb()
		got := cl.foldRight(-1, func(x int, rest lazy.Eval[int]) lazy.Eval[int] {
			b.Tick()
			if p(x) {
				return lazy.Done(x)
			}
			return rest
		}).Get()
		want := -1
		for _, x := range exp {
			if p(x) {
				want = x
				break
			}
		}
		if got != want {
			return name, bad(got, want)
		}
	case "foldMap":
		b := fb()
		mb := fb()
		f := fnOf(ta)
		got := cl.foldMap(affine{mb}, func(x int) int { b.Tick(); return affElem(f(x)) })
		want := affine{vrt.NewBudget(1<<40, "")}.Empty()
		rm := affine{vrt.NewBudget(1<<40, "")}
		for _, x := range exp {
			want = rm.Combine(want, affElem(f(x)))
		}
		if got != want {
			return name, bad(got, want)
		}
	case "reduce":
		got := cl.reduce(intSum{fb()})
		want := 0
		for _, x := range exp {
			want += x
		}
		if got != want {
			return name, bad(got, want)
		}
	case "reduceAff":
		got := cl.reduceAff(affine{fb()})
		rm := affine{vrt.NewBudget(1<<40, "")}
		want := rm.Empty()
		for _, x := range exp {
			want = rm.Combine(want, affElem(x))
		}
		if got != want {
			return name, bad(got, want)
		}
	case "reduceStr":
		got := cl.reduceStr(strCat{fb()})
		var sb strings.Builder
		for _, x := range exp {
			sb.WriteString(itoa(x))
		}
		if got != sb.String() {
			return name, bad(got, sb.String())
		}
	case "groupBy":
		m := 1 + abs(tb)%5
		b := fb()
		got := cl.groupBy(func(x int) int { b.Tick(); return x % m })
		want := map[int][]int{}
		for _, x := range exp {
			want[x%m] = append(want[x%m], x)
		}
		if len(got) != len(want) {
			return name, bad(fmt.Sprintf("%d groups", len(got)), fmt.Sprintf("%d groups", len(want)))
		}
		for k, w := range want {
			if !ir.EqualS(got[k], w) {
				return name, bad(fmt.Sprintf("group %d = %s", k, clip(got[k])), clip(w))
			}
		}
	case "min", "max":
		desc := ta%2 == 1
		var got fp.Option[int]
		if kind == "min" {
			got = cl.min(ordOf(desc))
		} else {
			got = cl.max(ordOf(desc))
		}
		if n == 0 {
			if got.IsDefined() {
				return name, bad(got, "None")
			}
			break
		}
		want := exp[0]
		for _, x := range exp {
			lessX := x < want
			if desc {
				lessX = x > want
			}
			if (kind == "min") == lessX && x != want {
				want = x
			}
		}
		if !got.IsDefined() || got.Get() != want {
			return name, bad(got, want)
		}
	case "minKey", "maxKey":
		// order by a key the element's value is not determined by: several elements tie for the
		// extreme. Any of them is an extreme element, but the property ties Iterator and List to
		// the eager Seq computation, so which of the tied elements is returned is what seq.Min /
		// seq.Max return on the same elements.
		m := 2 + abs(tb)%6
		desc := ta%2 == 1
		key := func(x int) int {
			if desc {
				return -(abs(x) % m)
			}
			return abs(x) % m
		}
		o := keyOrdInt(ta/2, key)
		var got, ref fp.Option[int]
		if kind == "minKey" {
			got, ref = cl.min(o), seq.Min(fp.Seq[int](append([]int(nil), exp...)), o)
		} else {
			got, ref = cl.max(o), seq.Max(fp.Seq[int](append([]int(nil), exp...)), o)
		}
		if n == 0 {
			if got.IsDefined() {
				return name, bad(got, "None")
			}
			break
		}
		ek := key(exp[0])
		for _, x := range exp {
			if (kind == "minKey" && key(x) < ek) || (kind == "maxKey" && key(x) > ek) {
				ek = key(x)
			}
		}
		tied := map[int]bool{}
		for _, x := range exp {
			if key(x) == ek {
				tied[x] = true
			}
		}
		if !got.IsDefined() || !tied[got.Get()] {
			return name, bad(got, fmt.Sprintf("an element with key %d", ek))
		}
		if len(tied) > 1 {
			note("ties.pipeline_" + kind + "_tied")
		}
		if !ref.IsDefined() || !tied[ref.Get()] {
			return "seq." + mmName[kind], failf("disagrees", "seq."+mmName[kind], "the eager computation itself returns %v, not an element with the extreme key %d (input %s)", ref, ek, clip(exp))
		}
		if got.Get() != ref.Get() {
			return name, failf("tie-choice", name, "%s = %d but the eager Seq computation (seq.%s with the same Ord on the same elements) = %d: both have the extreme key %d (elements ordered by |x|%%%d, descending=%v), %d distinct elements tie (input %s)",
				name, got.Get(), mmName[kind], ref.Get(), ek, m, desc, len(tied), clip(exp))
		}
	case "toMap", "toGoMap":
		m := 1 + abs(tb)%9
		k := func(x int) int { return x % m }
		want := map[int]int{}
		for _, x := range exp {
			want[k(x)] = x
		}
		if kind == "toGoMap" {
			got := cl.toGoMap(k)
			if len(got) != len(want) {
				return name, bad(got, want)
			}
			for kk, v := range want {
				if gv, ok := got[kk]; !ok || gv != v {
					return name, bad(got, want)
				}
			}
			break
		}
		got := cl.toMap(k)
		if got.Size() != len(want) {
			return name, bad(got, want)
		}
		for kk, v := range want {
			if gv := got.Get(kk); !gv.IsDefined() || gv.Get() != v {
				return name, bad(got, want)
			}
		}
	case "toSet", "toGoSet":
		want := map[int]bool{}
		for _, x := range exp {
			want[x] = true
		}
		if kind == "toGoSet" {
			got := cl.toGoSet()
			if len(got) != len(want) {
				return name, bad(got, want)
			}
			for x := range want {
				if !got[x] {
					return name, bad(got, want)
				}
			}
			break
		}
		got := cl.toSet()
		if got.Size() != len(want) {
			return name, bad(got, want)
		}
		for x := range want {
			if !got.Contains(x) {
				return name, bad(got, want)
			}
		}
	case "sort":
		desc := ta%2 == 1
		less := intLess
		if desc {
			less = intGreater
		}
		got := cl.sortBy(ordOf(desc))
		if want := ir.SortS(exp, less); !ir.EqualS(got, want) {
			return name, bad(clip(got), clip(want))
		}
	case "exists", "forAll", "find":
		p := predOf(ta, tb)
		b := fb()
		lp := func(x int) bool { b.Tick(); return p(x) }
		idx := -1
		for i, x := range exp {
			if (kind == "forAll") != p(x) {
				idx = i
				break
			}
		}
		switch kind {
		case "exists":
			if got := cl.exists(lp); got != (idx >= 0) {
				return name, bad(got, idx >= 0)
			}
		case "forAll":
			if got := cl.forAll(lp); got != (idx < 0) {
				return name, bad(got, idx < 0)
			}
		default:
			got := cl.find(lp)
			if got.IsDefined() != (idx >= 0) || (idx >= 0 && got.Get() != exp[idx]) {
				return name, bad(got, fmt.Sprintf("index %d", idx))
			}
		}
	case "mkString":
		sep := []string{",", "", " | "}[abs(tb)%3]
		parts := make([]string, n)
		for i, x := range exp {
			parts[i] = strconv.Itoa(x)
		}
		if got, want := cl.mkString(sep), strings.Join(parts, sep); got != want {
			return name, bad(got, want)
		}
	case "foreach":
		b := fb()
		got := []int{}
		cl.foreach(func(x int) { b.Tick(); got = append(got, x) })
		if !ir.EqualS(got, exp) {
			return name, bad(clip(got), clip(exp))
		}
	}
	return name, nil
}
