package main

import (
	"fmt"
	"math/rand/v2"

	"verif/vrt"

	"github.com/csgura/fp/lazy"
)

// Callbacks with a lazy argument (terminal kind "foldRightForce").
//
// seq.FoldRight / iterator.FoldRight / list.FoldRight hand their fold function the fold of the
// rest of the collection as a lazy.Eval. The terminals foldRight / foldRightShort force that
// argument exactly once (rest.Map) or never. Here the fold function comes from a palette that
// forces it 0 times, once, twice, three times, in a condition and again in the result, through
// Get, Map, FlatMap, lazy.Map2(rest, rest, ..), a different number of times per element, and
// the returned Eval itself is forced 1..3 times. A lazy value has one value however often it
// is forced, so every palette entry is a pure right fold, computed here on the plain slice
// (call-by-need: an element's fold function runs only if the result needs it). Oracle: the
// library's result (every Get of it) equals the reference; the fold function is called at most
// len(input) times - once per element - over all the forcing (logical clock, key
// .../nontermination: exponential re-evaluation trips it after len(input)+1 calls, no
// wall-clock involved) and not for elements whose fold the result never demands.

type frSpec struct {
	Variant int `json:"variant"`
	Gets    int `json:"gets"` // how often the returned Eval is forced
	G       int `json:"g"`
	Z       int `json:"zero"`
	P       int `json:"p,omitempty"`
	T       int `json:"t,omitempty"`
}

var frVariants = []string{"ignore-rest", "return-rest", "get-once", "map-once", "get-in-condition-and-in-result", "get-three-times", "map2(rest,rest)",
	"get-in-condition-map-in-result", "flatMap-then-map", "per-element-0-1-2", "done-at-match-else-twice"}

// frForce: how often (at least once / not at all) the variant's fold function needs the fold of
// the rest for element x when that fold is v, and the value it returns.
func (fs *frSpec) plain(x, v int) (value int, forces bool) {
	g := scanOf(fs.G)
	p := predOf(fs.P, fs.T)
	lim := fs.limit()
	switch abs(fs.Variant) % len(frVariants) {
	case 0:
		return x, false
	case 1:
		return v, true
	case 2, 3, 5, 6, 8:
		return g(v, x), true
	case 4:
		if v > lim {
			return lim, true
		}
		return g(v, x), true
	case 7:
		if p(v) {
			return g(v, x), true
		}
		return x, true
	case 9:
		if abs(x)%3 == 0 {
			return x, false
		}
		return g(v, x), true
	}
	if p(x) {
		return x, false
	}
	return g(v, x), true
}

// class: input class of the fold function for violation keys.
func (fs *frSpec) class() string {
	switch abs(fs.Variant) % len(frVariants) {
	case 0:
		return "lazy argument never forced"
	case 1, 2, 3:
		return "lazy argument forced once"
	case 9, 10:
		return "lazy argument forced 0..2 times per element"
	}
	return "lazy argument forced repeatedly"
}

func (fs *frSpec) limit() int {
	if abs(fs.P)%2 == 0 {
		return 1 << 50
	}
	return fs.T * 16
}

// fold function of the library side. calls counts its invocations, forces the times it forced
// its lazy argument with Get.
func (fs *frSpec) lib(b *vrt.Budget, calls, forces *int, unstable *string) func(int, lazy.Eval[int]) lazy.Eval[int] {
	g := scanOf(fs.G)
	p := predOf(fs.P, fs.T)
	lim := fs.limit()
	get := func(rest lazy.Eval[int]) int { *forces++; return rest.Get() }
	return func(x int, rest lazy.Eval[int]) lazy.Eval[int] {
		*calls++
		b.Tick()
		switch abs(fs.Variant) % len(frVariants) {
		case 0:
			return lazy.Done(x)
		case 1:
			return rest
		case 2:
			return lazy.Done(g(get(rest), x))
		case 3:
			return rest.Map(func(acc int) int { return g(acc, x) })
		case 4:
			if get(rest) > lim {
				return lazy.Done(lim)
			}
			return lazy.Done(g(get(rest), x))
		case 5:
			a, b2, c := get(rest), get(rest), get(rest)
			if (a != b2 || b2 != c) && *unstable == "" {
				*unstable = fmt.Sprintf("the lazy argument of the fold function at element %d evaluated to %d, %d and %d when forced three times", x, a, b2, c)
			}
			return lazy.Done(g(a, x))
		case 6:
			return lazy.Map2(rest, rest, func(a, b2 int) int { return g(a, x) + (a - b2) })
		case 7:
			if p(get(rest)) {
				return rest.Map(func(acc int) int { return g(acc, x) })
			}
			return lazy.Done(x)
		case 8:
			return rest.FlatMap(func(a int) lazy.Eval[int] {
				return rest.Map(func(b2 int) int { return g(a, x) + (a - b2) })
			})
		case 9:
			switch abs(x) % 3 {
			case 0:
				return lazy.Done(x)
			case 1:
				return lazy.Done(g(get(rest), x))
			}
			return lazy.Done(g(get(rest), x) + (get(rest) - get(rest)))
		}
		if p(x) {
			return lazy.Done(x)
		}
		if get(rest) != get(rest) && *unstable == "" {
			*unstable = fmt.Sprintf("the lazy argument of the fold function at element %d has two different values when forced twice", x)
		}
		return rest.Map(func(acc int) int { return g(acc, x) })
	}
}

func runFoldRightForce(site func(string), c cur, sp *caseSpec, exp []int, o *obs) (string, *failure) {
	fs := sp.FR
	cl := collOf(c)
	name := cl.pfx + ".FoldRight"
	site(name)
	n := len(exp)
	vname := frVariants[abs(fs.Variant)%len(frVariants)]
	// plain right fold, call-by-need
	val := make([]int, n+1)
	frc := make([]bool, n)
	val[n] = fs.Z
	for i := n - 1; i >= 0; i-- {
		val[i], frc[i] = fs.plain(exp[i], val[i+1])
	}
	needCalls := 0
	for i := 0; i < n; i++ {
		needCalls++
		if !frc[i] {
			break
		}
	}
	b := vrt.NewBudget(int64(n), fmt.Sprintf("%s called its fold function more than len(input)=%d times (fold function '%s' forces its lazy argument; the result was forced %d time(s))", name, n, vname, fs.Gets))
	calls, forces, unstable := 0, 0, ""
	ev := cl.foldRight(fs.Z, fs.lib(b, &calls, &forces, &unstable))
	gets := fs.Gets
	if gets < 1 {
		gets = 1
	}
	for k := 0; k < gets; k++ {
		got := ev.Get()
		if got != val[0] {
			return name, failf("disagrees", name, "%s with the fold function '%s' (g=%d, zero=%d, p=%s t=%d): Get #%d of the result = %d, plain right fold = %d (input %s)",
				name, vname, fs.G%nScan, fs.Z, predNames[abs(fs.P)%nPred], fs.T, k+1, got, val[0], clip(exp))
		}
	}
	if unstable != "" {
		return name, failf("disagrees", name, "%s with the fold function '%s': %s (input %s)", name, vname, unstable, clip(exp))
	}
	if calls > needCalls {
		return name, failf("forces-undemanded-suffix", name, "%s with the fold function '%s' called the fold function %d times; the result only depends on the first %d of %d elements (input %s)",
			name, vname, calls, needCalls, n, clip(exp))
	}
	o.fr = &frStats{variant: vname, world: cl.pfx, n: n, calls: calls, forces: forces, gets: gets, short: needCalls < n}
	return name, nil
}

type frStats struct {
	variant string
	world   string
	n       int
	calls   int
	forces  int
	gets    int
	short   bool
}

func genFRLen(r *rand.Rand) int {
	switch x := r.IntN(100); {
	case x < 5:
		return r.IntN(2)
	case x < 25:
		return 2 + r.IntN(7)
	case x < 50:
		return 9 + r.IntN(55)
	case x < 62:
		return 64
	}
	return 65 + r.IntN(136)
}

// frRerunsRest: fold functions that put their lazy argument into the returned Eval twice
// (lazy.Map2(rest, rest, ..), rest.FlatMap(.. rest.Map ..)). lazy.Eval is a trampoline without a
// result cache: running such an Eval runs the Eval of the rest twice, which runs the Eval of
// its rest twice, ... - 2^n steps of lazy.Run by construction of the VALUE the fold function
// built, although FoldRight itself calls the fold function once per element. Those entries are
// used on at most frRerunMax elements, so that they measure the number of fold function
// calls and the result, not the time the doubled Evals take.
func frRerunsRest(variant int) bool {
	v := abs(variant) % len(frVariants)
	return v == 6 || v == 8
}

const frRerunMax = 12

func genFoldRightCase(r *rand.Rand) *caseSpec {
	n := genFRLen(r)
	variant := r.IntN(len(frVariants))
	maxLen := 260
	if frRerunsRest(variant) {
		maxLen = frRerunMax
		if n > maxLen {
			n = 2 + n%(maxLen-1)
		}
	}
	sp := genFinite(r, n, 2, maxLen, "")
	sp.Term = "foldRightForce"
	sp.FR = &frSpec{Variant: variant, Gets: 1 + r.IntN(3), G: r.IntN(nScan), Z: r.IntN(11), P: r.IntN(nPred), T: sp.Off + r.IntN(len(sp.Vals)+4) - 1}
	return sp
}

func (fs *frSpec) String() string {
	return fmt.Sprintf("FoldRight(zero=%d, fold function '%s' over g#%d, p=%s, t=%d), result forced %d time(s)", fs.Z, frVariants[abs(fs.Variant)%len(frVariants)], fs.G%nScan, predNames[abs(fs.P)%nPred], fs.T, fs.Gets)
}

func shrinkFR(sp *caseSpec, f *failure) (*caseSpec, *failure) {
	cur, cf := sp, f
	try := func(cand *caseSpec) bool {
		if _, nf := exec(cand, nil); sameFailure(cf, nf) {
			cur, cf = cand, nf
			return true
		}
		return false
	}
	if cur.FR.Gets > 1 {
		c2 := *cur
		f2 := *cur.FR
		f2.Gets = 1
		c2.FR = &f2
		try(&c2)
	}
	for len(cur.Vals) > 0 {
		c2 := *cur
		c2.Vals = append([]int(nil), cur.Vals[:len(cur.Vals)-1]...)
		if !try(&c2) {
			break
		}
	}
	return cur, cf
}
