package main

import (
	"fmt"

	"verif/vrt"

	"github.com/csgura/fp"
	"github.com/csgura/fp/iterator"
	"github.com/csgura/fp/list"
	"github.com/csgura/fp/seq"
)

// ---- palettes (raw functions; the library side receives budgeted wrappers) -------------

const nFn, nPred, nExp, nOpt, nScan = 8, 8, 6, 4, 3

func fnOf(i int) func(int) int {
	switch i % nFn {
	case 0:
		return func(x int) int { return x + 1 }
	case 1:
		return func(x int) int { return x * 2 }
	case 2:
		return func(x int) int { return (x * x) % 101 }
	case 3:
		return func(x int) int { return -x }
	case 4:
		return func(x int) int { return x / 3 }
	case 5:
		return func(x int) int { return x ^ 0x55 }
	case 6:
		return func(x int) int { return x % 7 }
	}
	return func(x int) int { return x }
}

var fnNames = []string{"x+1", "x*2", "x*x%101", "-x", "x/3", "x^0x55", "x%7", "x"}

func predOf(i, t int) func(int) bool {
	switch i % nPred {
	case 0:
		return func(x int) bool { return x%2 == 0 }
	case 1:
		return func(x int) bool { return x%3 != 0 }
	case 2:
		return func(x int) bool { return x < t }
	case 3:
		return func(x int) bool { return x >= t }
	case 4:
		return func(x int) bool { return true }
	case 5:
		return func(x int) bool { return false }
	case 6:
		return func(x int) bool { return x%8 == 0 }
	}
	return func(x int) bool { return x%5 == 1 }
}

var predNames = []string{"x%2==0", "x%3!=0", "x<t", "x>=t", "true", "false", "x%8==0", "x%5==1"}

func abs(x int) int {
	if x < 0 {
		return -x
	}
	return x
}

func expOf(i int) func(int) []int {
	switch i % nExp {
	case 0:
		return func(x int) []int {
			if x%3 == 0 {
				return nil
			}
			return []int{x}
		}
	case 1:
		return func(x int) []int { return []int{x, x + 1} }
	case 2:
		return func(x int) []int {
			out := []int{}
			for j := 0; j < abs(x)%3; j++ {
				out = append(out, x)
			}
			return out
		}
	case 3:
		return func(x int) []int { return nil }
	case 4:
		return func(x int) []int { return []int{x, -x, x * 2} }
	}
	return func(x int) []int { return []int{x} }
}

var expNames = []string{"[] if x%3==0 else [x]", "[x,x+1]", "|x|%3 copies", "[]", "[x,-x,2x]", "[x]"}

func optOf(i int) func(int) (int, bool) {
	switch i % nOpt {
	case 0:
		return func(x int) (int, bool) { return x * 3, x%2 == 0 }
	case 1:
		return func(x int) (int, bool) { return x + 7, x%4 != 0 }
	case 2:
		return func(x int) (int, bool) { return x, true }
	}
	return func(x int) (int, bool) { return 0, false }
}

func scanOf(i int) func(acc, x int) int {
	switch i % nScan {
	case 0:
		return func(acc, x int) int { return acc + x }
	case 1:
		return func(acc, x int) int { return acc*31 + x }
	}
	return func(acc, x int) int {
		if x > acc {
			return x
		}
		return acc
	}
}

func mix(a, b int) int { return a*1000003 + b }

// ---- instrumentation -------------------------------------------------------------------

// overPull is the sentinel raised by an instrumented unbounded source that is asked for more
// elements than the look-ahead bound allows.
type overPull struct{ limit int }

// env carries the instrumented source and the callback clocks of ONE execution of a case.
type env struct {
	sp       *caseSpec
	pulls    int   // elements delivered by the instrumented source
	hasNexts int   // HasNext calls on the instrumented iterator source
	evals    []int // evaluations per cell of the instrumented list source (index = cell)
	evalMore int   // evaluations of cells beyond len(evals)
	cbCalls  int   // invocations of lazy-stage callbacks
	cb       *vrt.Budget
	hb       *vrt.Budget
	limit    int // unbounded instrumented source: maximal number of pulls before overPull
	instr    bool
	isList   bool // instrumented source is a lazy list (pulls = distinct cells evaluated)
}

func newEnv(sp *caseSpec) *env {
	e := &env{sp: sp, limit: 1 << 30}
	e.cb = vrt.NewBudget(2_000_000, "callbacks of lazy stages called more than 2e6 times on an input of at most 400 elements")
	e.hb = vrt.NewBudget(int64(200_000+4000*(len(sp.Vals)+sp.K+10)), "HasNext of the finite source called without bound")
	return e
}

func (e *env) tick() {
	if e != nil {
		e.cbCalls++
		e.cb.Tick()
	}
}

func (e *env) F(f func(int) int) func(int) int {
	return func(x int) int { e.tick(); return f(x) }
}
func (e *env) Pd(p func(int) bool) func(int) bool {
	return func(x int) bool { e.tick(); return p(x) }
}
func (e *env) G(g func(int, int) int) func(int, int) int {
	return func(a, x int) int { e.tick(); return g(a, x) }
}

func (e *env) value(i int) int {
	if e.sp.Unbounded {
		return e.sp.Off + i
	}
	return e.sp.Vals[i]
}

func (e *env) cellEval(i int) {
	for len(e.evals) <= i && len(e.evals) < 4096 {
		e.evals = append(e.evals, 0)
	}
	if i < len(e.evals) {
		if e.evals[i] == 0 {
			e.pulls++
			if e.pulls > e.limit {
				panic(overPull{e.limit})
			}
		}
		e.evals[i]++
	} else {
		e.evalMore++
		e.pulls++
		if e.pulls > e.limit {
			panic(overPull{e.limit})
		}
	}
}

// source names per world; the instrumented ones come first.
var iterSources = []string{"instrumented", "iterator.Generate", "iterator.FromSeq", "iterator.Of", "iterator.FromSlice", "iterator.Range", "iterator.RangeClosed", "iterator.FromList", "iterator.ReverseSeq", "seq.Iterator", "iterator.FromOption", "iterator.FromPtr", "iterator.Empty"}
var listSources = []string{"list.Generate", "list.GenerateFrom", "list.Collect(instrumented)", "iterator.ToList(instrumented)", "list.Recurrence1", "list.Recurrence2", "list.Of", "list.FromSeq", "list.FromSlice", "list.Range", "list.RangeClosed", "list.Apply", "list.Concat", "list.ReverseSeq", "list.FromOption", "list.FromPtr", "list.Empty"}
var seqSources = []string{"fp.Seq", "seq.Of"}

func isSequential(vals []int) bool {
	for i := range vals {
		if vals[i] != vals[0]+i {
			return false
		}
	}
	return true
}

// srcInfo: is the source instrumented, does it hold one element from construction on.
func srcInfo(name string) (instr, prefetch bool) {
	switch name {
	case "instrumented", "iterator.Generate", "list.Generate", "list.GenerateFrom", "list.Recurrence1", "list.Recurrence2":
		return true, false
	case "list.Collect(instrumented)", "iterator.ToList(instrumented)":
		return true, true
	}
	return false, false
}

func (e *env) instrumentedIter() fp.Iterator[int] {
	idx := 0
	vals := e.sp.Vals
	return fp.MakeIterator(func() bool {
		e.hasNexts++
		e.hb.Tick()
		return idx < len(vals)
	}, func() int {
		if idx < len(vals) {
			v := vals[idx]
			idx++
			e.pulls++
			return v
		}
		panic("next on empty iterator")
	})
}

// source builds the library-side source of the case.
func (e *env) source() cur {
	sp := e.sp
	vals := append([]int(nil), sp.Vals...)
	e.instr, _ = srcInfo(sp.Src)
	switch sp.Src {
	case "instrumented":
		return cur{world: wIter, it: e.instrumentedIter()}
	case "iterator.Generate":
		idx := 0
		return cur{world: wIter, it: iterator.Generate(func() int {
			e.pulls++
			if e.pulls > e.limit {
				panic(overPull{e.limit})
			}
			v := sp.Off + idx
			idx++
			return v
		})}
	case "iterator.FromSeq":
		return cur{world: wIter, it: iterator.FromSeq(vals)}
	case "iterator.Of":
		return cur{world: wIter, it: iterator.Of(vals...)}
	case "iterator.FromSlice":
		return cur{world: wIter, it: iterator.FromSlice(vals)}
	case "iterator.Range":
		return cur{world: wIter, it: iterator.Range(sp.Off, sp.Off+len(vals))}
	case "iterator.RangeClosed":
		return cur{world: wIter, it: iterator.RangeClosed(sp.Off, sp.Off+len(vals)-1)}
	case "iterator.FromList":
		return cur{world: wIter, it: iterator.FromList(list.Of(vals...))}
	case "iterator.ReverseSeq":
		rv := make([]int, len(vals))
		for i, v := range vals {
			rv[len(vals)-1-i] = v
		}
		return cur{world: wIter, it: iterator.ReverseSeq(rv)}
	case "seq.Iterator":
		return cur{world: wIter, it: seq.Iterator(vals)}
	case "iterator.FromOption":
		if len(vals) == 0 {
			return cur{world: wIter, it: iterator.FromOption(fp.None[int]())}
		}
		return cur{world: wIter, it: iterator.FromOption(fp.Some(vals[0]))}
	case "iterator.FromPtr":
		if len(vals) == 0 {
			return cur{world: wIter, it: iterator.FromPtr[int](nil)}
		}
		return cur{world: wIter, it: iterator.FromPtr(&vals[0])}
	case "iterator.Empty":
		return cur{world: wIter, it: iterator.Empty[int]()}

	case "list.Generate", "list.GenerateFrom":
		e.isList = true
		gen := func(i int) fp.Option[int] {
			if sp.Src == "list.GenerateFrom" {
				i -= 5
			}
			e.cellEval(i)
			if sp.Unbounded {
				return fp.Some(sp.Off + i)
			}
			if i < len(vals) {
				return fp.Some(vals[i])
			}
			return fp.None[int]()
		}
		if sp.Src == "list.GenerateFrom" {
			return cur{world: wList, li: list.GenerateFrom(5, gen)}
		}
		return cur{world: wList, li: list.Generate(gen)}
	case "list.Collect(instrumented)":
		return cur{world: wList, li: list.Collect(e.instrumentedIter())}
	case "iterator.ToList(instrumented)":
		return cur{world: wList, li: iterator.ToList(e.instrumentedIter())}
	case "list.Recurrence1":
		return cur{world: wList, li: list.Recurrence1(sp.Off, func(x int) int {
			e.pulls++
			if e.pulls > e.limit {
				panic(overPull{e.limit})
			}
			return x + 1
		})}
	case "list.Recurrence2":
		return cur{world: wList, li: list.Recurrence2(sp.Off, sp.Off+1, func(a, b int) int {
			e.pulls++
			if e.pulls > e.limit {
				panic(overPull{e.limit})
			}
			return b + 1
		})}
	case "list.Of":
		return cur{world: wList, li: list.Of(vals...)}
	case "list.FromSeq":
		return cur{world: wList, li: list.FromSeq(vals)}
	case "list.FromSlice":
		return cur{world: wList, li: list.FromSlice(vals)}
	case "list.Range":
		return cur{world: wList, li: list.Range(sp.Off, sp.Off+len(vals))}
	case "list.RangeClosed":
		return cur{world: wList, li: list.RangeClosed(sp.Off, sp.Off+len(vals)-1)}
	case "list.Apply", "list.Concat":
		l := list.Empty[int]()
		for i := len(vals) - 1; i >= 0; i-- {
			if sp.Src == "list.Apply" {
				l = list.Apply(vals[i], l)
			} else {
				l = list.Concat(vals[i], l)
			}
		}
		return cur{world: wList, li: l}
	case "list.ReverseSeq":
		rv := make([]int, len(vals))
		for i, v := range vals {
			rv[len(vals)-1-i] = v
		}
		return cur{world: wList, li: list.ReverseSeq(rv)}
	case "list.FromOption":
		if len(vals) == 0 {
			return cur{world: wList, li: list.FromOption(fp.None[int]())}
		}
		return cur{world: wList, li: list.FromOption(fp.Some(vals[0]))}
	case "list.FromPtr":
		if len(vals) == 0 {
			return cur{world: wList, li: list.FromPtr[int](nil)}
		}
		return cur{world: wList, li: list.FromPtr(&vals[0])}
	case "list.Empty":
		return cur{world: wList, li: list.Empty[int]()}

	case "fp.Seq":
		return cur{world: wSeq, sq: fp.Seq[int](vals)}
	case "seq.Of":
		return cur{world: wSeq, sq: seq.Of(vals...)}
	}
	panic(fmt.Sprintf("harness: unknown source %q", sp.Src))
}

func srcWorld(name string) int {
	for _, s := range iterSources {
		if s == name {
			return wIter
		}
	}
	for _, s := range listSources {
		if s == name {
			return wList
		}
	}
	return wSeq
}
