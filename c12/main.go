// C12 — Iterator / lazy List combinators agree with eager slice semantics, terminate on every
// finite input, pull only what the demand requires plus one produced element of look-ahead
// per stage, and memoised lists evaluate each cell at most once.
//
// A case is a pure-data pipeline spec (source, 1..6 abstract stages, consumer). It is realised
// three times from the same spec: (a) with the library (fp.Iterator / fp.List / fp.Seq, the
// realisation of every stage chosen among the library's equivalent spellings), (b) with the
// plain-slice reference and (c) with the pull model of refmodel/iterref, once with zero
// look-ahead (need(k)) and once with every stage holding one pre-computed output (L(k), the
// most the property's "small constant look-ahead" allows). Oracles: output equality with
// (b); pulls of the instrumented source <= L(k) + slack; logical budgets in every callback
// and source; evaluation counts per cell of the instrumented lazy list.
package main

import (
	"fmt"
	"math/rand/v2"
	"sort"
	"strings"

	ir "verif/refmodel/iterref"
	"verif/vrt"

	"github.com/csgura/fp"
)

type caseSpec struct {
	Src       string      `json:"source"`
	Unbounded bool        `json:"unbounded,omitempty"`
	Off       int         `json:"off,omitempty"`
	Vals      []int       `json:"input"`
	Stages    []stageSpec `json:"stages"`
	Mode      string      `json:"mode"` // demand | terminal
	K         int         `json:"k,omitempty"`
	Peek      bool        `json:"peek_after_last,omitempty"` // HasNext / NonEmpty once more after the k-th element
	TailLast  bool        `json:"tail_after_last,omitempty"` // list walker calls Tail() after the k-th Head()
	Term      string      `json:"terminal,omitempty"`
	TA        int         `json:"ta,omitempty"`
	TB        int         `json:"tb,omitempty"`
	// Script (final value is a List): the list is first consumed through this access script
	// (Head/Tail/IsEmpty/NonEmpty/Unapply calls in PRNG order), then as usual.
	Script *scriptSpec `json:"script,omitempty"`
	// Split (terminal "split"): the final value is handed to a tree of multi-result combinators
	// whose outputs are consumed by an interleaving schedule (split.go).
	Split *splitSpec `json:"split,omitempty"`
	// FR (terminal "foldRightForce"): FoldRight with a fold function that forces its lazy argument
	// 0..3 times (lazyarg.go).
	FR *frSpec `json:"fold_right,omitempty"`
}

// scriptRange: the cells an access script may reach by Tail (positions 0..reach) and look at
// (positions < inspect) so that its demand never exceeds the demand k (+ peek) of the case.
func (sp *caseSpec) scriptRange() (reach, inspect int) {
	if sp.Mode == "terminal" {
		return sp.K, sp.K + 1
	}
	reach, inspect = sp.K-1, sp.K
	if sp.TailLast {
		reach = sp.K
		if sp.Peek {
			inspect = sp.K + 1
		}
	}
	return
}

const maxOut = 1500
const modelBudget = 6000

// ---- generation -----------------------------------------------------------------------

func genLen(r *rand.Rand) int {
	switch x := r.IntN(100); {
	case x < 7:
		return 0
	case x < 14:
		return 1
	case x < 44:
		return 2 + r.IntN(7)
	case x < 74:
		return 9 + r.IntN(32)
	case x < 88:
		return 41 + r.IntN(24)
	}
	return 64
}

func genVals(r *rand.Rand, n int) ([]int, int) {
	vals := make([]int, n)
	off := r.IntN(30) - 10
	switch r.IntN(5) {
	case 0, 1: // sequential
		for i := range vals {
			vals[i] = off + i
		}
	case 2: // sorted with repeats
		v := off
		for i := range vals {
			v += r.IntN(3)
			vals[i] = v
		}
	case 3: // random
		for i := range vals {
			vals[i] = r.IntN(71) - 20
		}
	default: // few distinct values
		for i := range vals {
			vals[i] = r.IntN(4)
		}
	}
	return vals, off
}

var opsFinite = []string{"map", "map", "filter", "filter", "filterMap", "flatMap", "flatMap", "take", "take", "drop", "drop", "takeWhile", "takeWhile", "dropWhile", "dropWhile",
	"spanBoth", "partBoth", "prepend", "append", "zipIdx", "zip", "zip3", "scan", "scan", "tap", "reverse", "sort", "pull", "hop", "hop", "selfZip", "selfZip", "selfZip3", "selfCombine"}
var opsUnbounded = []string{"map", "map", "filter", "filterMap", "flatMap", "take", "take", "drop", "takeWhile", "dropWhile", "spanBoth",
	"prepend", "zipIdx", "zip", "zip3", "scan", "tap", "pull", "hop", "selfZip", "selfZip3", "selfCombine"}

func genStage(r *rand.Rand, op string, n int, unbounded bool, off int) stageSpec {
	st := stageSpec{Op: op, Var: r.IntN(24)}
	thr := off + r.IntN(n+4) - 1
	smallN := func() int {
		switch r.IntN(5) {
		case 0:
			return 0
		case 1:
			return 1
		case 2:
			return n/2 + r.IntN(2)
		case 3:
			return n + r.IntN(4)
		}
		return r.IntN(n + 2)
	}
	switch op {
	case "map":
		st.A = r.IntN(nFn)
	case "filter", "takeWhile", "dropWhile", "spanBoth", "partBoth":
		st.A, st.B = r.IntN(nPred), thr
		if unbounded && op == "filter" {
			st.A = []int{0, 1, 6, 7, 4}[r.IntN(5)] // residue predicates keep an unbounded stream productive
		}
		if unbounded && op == "takeWhile" {
			st.A, st.B = 2, off+r.IntN(40)
		}
		if unbounded && op == "dropWhile" {
			st.A, st.B = 2, off+r.IntN(20)
		}
	case "filterMap":
		st.A = r.IntN(nOpt)
		if unbounded {
			st.A = r.IntN(3)
		}
	case "flatMap":
		st.A = r.IntN(nExp)
		if unbounded {
			st.A = []int{0, 1, 2, 4, 5}[r.IntN(5)]
		}
	case "take", "drop":
		st.A = smallN()
		if unbounded {
			st.A = r.IntN(24)
		}
	case "prepend", "append":
		m := []int{0, 1, 1, 2, 3, 5}[r.IntN(6)]
		st.Xs = make([]int, m)
		for i := range st.Xs {
			st.Xs[i] = 100 + r.IntN(50)
		}
	case "zip", "zip3":
		st.A = r.IntN(20)
		if unbounded || r.IntN(2) == 0 {
			st.B = 1 // unbounded other operand
		} else {
			m := smallN()
			st.Xs = make([]int, m)
			for i := range st.Xs {
				st.Xs[i] = 200 + r.IntN(30)
			}
		}
	case "scan":
		st.A, st.B = r.IntN(nScan), r.IntN(5)
	case "sort", "hop":
		st.A = r.IntN(4)
	case "selfZip", "selfCombine":
		st.A = r.IntN(3)
	}
	return st
}

func pick(r *rand.Rand, xs []string) string { return xs[r.IntN(len(xs))] }

// genSpec is a pure function of r.
func genSpec(r *rand.Rand) *caseSpec {
	for try := 0; ; try++ {
		sp := &caseSpec{}
		world := wIter
		switch x := r.IntN(100); {
		case x < 45:
		case x < 82:
			world = wList
		default:
			world = wSeq
		}
		n := genLen(r)
		sp.Vals, sp.Off = genVals(r, n)
		unbounded := world != wSeq && r.IntN(100) < 16
		switch world {
		case wIter:
			switch {
			case unbounded:
				sp.Src = "iterator.Generate"
			case r.IntN(100) < 72:
				sp.Src = "instrumented"
			default:
				sp.Src = pick(r, iterSources[2:])
			}
		case wList:
			switch {
			case unbounded:
				sp.Src = pick(r, []string{"list.Generate", "list.Generate", "list.GenerateFrom", "list.Recurrence1", "list.Recurrence2"})
			case r.IntN(100) < 72:
				sp.Src = pick(r, []string{"list.Generate", "list.Generate", "list.GenerateFrom", "list.Collect(instrumented)", "iterator.ToList(instrumented)"})
			default:
				sp.Src = pick(r, listSources[6:])
			}
		default:
			sp.Src = pick(r, seqSources)
		}
		sp.Unbounded = unbounded
		// sources with a restricted domain
		switch sp.Src {
		case "iterator.Range", "iterator.RangeClosed", "list.Range", "list.RangeClosed":
			for i := range sp.Vals {
				sp.Vals[i] = sp.Off + i
			}
		case "iterator.FromOption", "iterator.FromPtr", "list.FromOption", "list.FromPtr":
			if len(sp.Vals) > 1 {
				sp.Vals = sp.Vals[:1]
			}
		case "iterator.Empty", "list.Empty":
			sp.Vals = sp.Vals[:0]
		}
		if unbounded {
			sp.Vals = nil
		}
		n = len(sp.Vals)
		ns := 1 + r.IntN(6)
		if world == wList && r.IntN(14) == 0 {
			ns = 0 // the list constructor itself is what the consumer (access script) sees
		}
		flat := 0
		for len(sp.Stages) < ns {
			ops := opsFinite
			if unbounded {
				ops = opsUnbounded
			}
			op := pick(r, ops)
			if op == "flatMap" {
				if flat == 2 {
					continue
				}
				flat++
			}
			sp.Stages = append(sp.Stages, genStage(r, op, n, unbounded, sp.Off))
		}
		// consumer
		final := finalWorld(sp)
		if !unbounded && (final == wSeq || r.IntN(100) < 45) {
			sp.Mode = "terminal"
			kinds := []string{}
			for _, k := range termKinds {
				if len(termNames(k, final)) > 0 {
					kinds = append(kinds, k)
				}
			}
			sp.Term = pick(r, kinds)
			sp.TA, sp.TB = r.IntN(64), r.IntN(200)
		} else {
			sp.Mode = "demand"
			sp.Peek = r.IntN(4) == 0
			sp.TailLast = r.IntN(2) == 0
		}
		// reference output: bounds the size, fixes k, and rejects unbounded pipelines whose demand
		// cannot be met by a finite prefix of the source (the property does not promise those)
		wantScript := final == wList && r.IntN(100) < 70
		if unbounded {
			sp.K = []int{0, 1, 2, 5, 17, 40}[r.IntN(6)]
			if _, ok := modelPulls(sp, true, sp.K+2); !ok {
				if try < 40 {
					continue
				}
				return genSpecFallback(r)
			}
			if wantScript {
				reach, insp := sp.scriptRange()
				full, _, _ := modelRun(sp, false, insp)
				sp.Script = genScript(r, reach, insp, len(full))
			}
			return sp
		}
		exp := sliceRef(sp)
		if len(exp) > maxOut {
			continue
		}
		m := len(exp)
		sp.K = []int{0, 1, 2, n / 2, n, n + 3, m / 2, m, m + 3}[r.IntN(9)]
		// quadratic trampolines: keep inputs of FoldRight-based terminals moderate
		if sp.Mode == "terminal" && m > 300 {
			switch sp.Term {
			case "foldRight", "foldRightShort", "foldLeft", "foldLeftMap", "foldRightMap", "foldMap", "reduce", "reduceAff", "reduceStr":
				sp.Term = "toSeq"
			}
		}
		if wantScript && (sp.Mode == "demand" || r.IntN(2) == 0) {
			reach, insp := sp.scriptRange()
			sp.Script = genScript(r, reach, insp, m)
		}
		return sp
	}
}

func genSpecFallback(r *rand.Rand) *caseSpec {
	return &caseSpec{Src: "instrumented", Vals: []int{1, 2, 3}, Stages: []stageSpec{{Op: "map", A: r.IntN(nFn)}}, Mode: "demand", K: 2}
}

// ---- references -----------------------------------------------------------------------

func sliceRef(sp *caseSpec) []int {
	xs := append([]int{}, sp.Vals...)
	for _, st := range planAll(sp, nil) {
		xs = st.slice(xs)
	}
	return xs
}

// modelRun evaluates the pull model with demand k: returns the outputs, the number of source
// elements pulled, and ok=false if the unbounded source cannot satisfy the demand in budget.
func modelRun(sp *caseSpec, eager bool, k int) (out []int, pulls int, ok bool) {
	var c ir.Counter
	defer func() {
		if r := recover(); r != nil {
			if _, is := r.(ir.Diverged); is {
				out, pulls, ok = nil, c.Pulls, false
				return
			}
			panic(r)
		}
	}()
	var p ir.P
	if sp.Unbounded {
		off := sp.Off
		p = ir.FromFunc(func(i int) int { return off + i }, &c, modelBudget)
	} else {
		p = ir.FromSlice(sp.Vals, &c)
	}
	if _, pre := srcInfo(sp.Src); pre {
		p = ir.Prefetch(p)
	}
	for _, st := range planAll(sp, nil) {
		p = st.model(p)
		if st.prefetch {
			p = ir.Prefetch(p)
		}
		if eager {
			for j := 0; j < st.cost; j++ {
				p = ir.Eager(p)
			}
		}
	}
	out = ir.DrainK(p, k)
	return out, c.Pulls, true
}

func modelPulls(sp *caseSpec, eager bool, k int) (int, bool) {
	_, p, ok := modelRun(sp, eager, k)
	return p, ok
}

// ---- execution ------------------------------------------------------------------------

type obs struct {
	names      []string // library call sites applied (sources, steps, terminal)
	stepsN     int      // number of library stages (sum of costs)
	pulls      int
	need       int
	allow      int
	checked    bool // laziness bound was applicable and checked
	memo       bool // memoisation traversals were performed
	outLen     int
	final      int
	listy      bool
	draftBound int
	notes      []string     // situations observed by the terminal oracle (counter names)
	lastName   string       // call site that produced the final value
	script     *scriptStats // access-script phase, if any
	split      *splitStats  // interleaved consumption of a multi-result combinator, if any
	fr         *frStats     // FoldRight with a forcing fold function, if any
}

func (sp *caseSpec) demandForModel() int {
	k := sp.K
	if sp.Peek {
		k++
	}
	return k
}

// exec runs the case once. site (may be nil) is told the library call site before each call.
func exec(sp *caseSpec, site func(string)) (o obs, f *failure) {
	if site == nil {
		site = func(string) {}
	}
	cursite := "source"
	setSite := func(s string) { cursite = s; site(s) }
	e := newEnv(sp)
	steps := planAll(sp, e)
	o.names = append(o.names, "source:"+sp.Src)
	for _, st := range steps {
		o.stepsN += st.cost
		o.names = append(o.names, st.name)
		if st.to == wList {
			o.listy = true
		}
	}
	if srcWorld(sp.Src) == wList {
		o.listy = true
	}
	instr, _ := srcInfo(sp.Src)

	// references
	var exp []int
	if sp.Unbounded {
		var ok bool
		exp, o.need, ok = modelRun(sp, false, sp.K)
		if !ok {
			return o, failf("harness", "", "unbounded case whose zero-look-ahead model diverges was generated")
		}
	} else {
		exp = sliceRef(sp)
		mo, _, _ := modelRun(sp, false, -1)
		if !ir.EqualS(mo, exp) {
			return o, failf("harness", "", "the two references disagree: slice %s, pull model %s", clip(exp), clip(mo))
		}
		if sp.Mode == "demand" {
			o.need, _ = modelPulls(sp, false, sp.K)
		}
	}
	slack := o.stepsN
	if o.listy {
		slack = 2*o.stepsN + 2
	}
	if sp.Mode == "demand" && instr {
		l, ok := modelPulls(sp, true, sp.demandForModel())
		if !ok {
			return o, failf("harness", "", "unbounded case whose look-ahead model diverges was generated")
		}
		o.allow = l + slack
		o.checked = true
		// informational: the bound need(k+S)+S of the first design draft (unsound after a sparse
		// Filter closed by Take: the stages' look-ahead is not covered by more *final* outputs)
		if nk, ok := modelPulls(sp, false, sp.demandForModel()+o.stepsN); ok {
			o.draftBound = nk + o.stepsN
		} else {
			o.draftBound = 1 << 30
		}
		if sp.Unbounded {
			e.limit = o.allow
		}
	}

	defer func() {
		if r := recover(); r != nil {
			o.pulls = e.pulls
			switch x := r.(type) {
			case overPull:
				f = failf("over-pull", "", "the unbounded source was asked for more than %d elements (one-output look-ahead per stage needs %d, slack %d); demand k=%d", x.limit, x.limit-slack, slack, sp.K)
			case vrt.BudgetExceeded:
				f = failf("nontermination", cursite, "logical budget exceeded at %s: %s", cursite, x.What)
			default:
				f = failf("panic", cursite, "unexpected panic at %s: %v", cursite, r)
			}
		}
	}()

	c := e.source()
	for _, st := range steps {
		setSite(st.name)
		c = st.apply(c)
	}
	o.final = c.world
	last := "source"
	o.lastName = "source:" + sp.Src
	if len(steps) > 0 {
		last = steps[len(steps)-1].name
		o.lastName = last
	}

	// access-script phase: the final list is consumed through Head/Tail/IsEmpty/NonEmpty calls in
	// PRNG order first; the element at position i must be the reference's whatever the order.
	if sp.Script != nil && c.world == wList {
		reach, insp := sp.scriptRange()
		full := exp
		if sp.Unbounded && insp > sp.K {
			var ok bool
			if full, _, ok = modelRun(sp, false, insp); !ok {
				return o, failf("harness", "", "unbounded case whose zero-look-ahead model diverges at the peeked cell was generated")
			}
		}
		if reach > len(full) {
			reach = len(full)
		}
		if insp > len(full)+1 {
			insp = len(full) + 1
		}
		setSite("access-script(" + last + ")")
		st, sf := runScript(c.li, sp.Script, full, reach, insp)
		o.script = &st
		o.pulls = e.pulls
		if sf != nil {
			return o, sf
		}
		if o.checked && o.pulls > o.allow {
			return o, failf("over-pull", "", "access script %s with demand k=%d (peek=%v): the source was pulled %d times; strictly needed %d, with one pre-computed output per stage %d, allowed %d (slack %d for %d stages)",
				sp.Script.Kind, sp.K, sp.Peek, o.pulls, o.need, o.allow-slack, o.allow, slack, o.stepsN)
		}
		if ef := e.cellCheck(); ef != nil {
			return o, ef
		}
		// memoisation: the same demands once more evaluate nothing
		pulls0, cb0, more0 := e.pulls, e.cbCalls, e.evalMore
		ev0 := append([]int(nil), e.evals...)
		setSite("access-script-again(" + last + ")")
		if _, sf := runScript(c.li, sp.Script, full, reach, insp); sf != nil {
			sf.detail = "second run of the same access script: " + sf.detail
			return o, sf
		}
		grew := len(ev0) != len(e.evals) || more0 != e.evalMore
		for i := range ev0 {
			if e.evals[i] != ev0[i] {
				grew = true
			}
		}
		if grew || e.pulls != pulls0 || e.cbCalls != cb0 {
			return o, failf("re-evaluated-on-second-traversal", "", "running the same access script (%s) on the same memoised list again evaluated again: source pulls %d -> %d, callback calls %d -> %d", sp.Script.Kind, pulls0, e.pulls, cb0, e.cbCalls)
		}
	}

	if sp.Mode == "terminal" {
		var name string
		var tf *failure
		switch {
		case sp.Term == "split" && sp.Split != nil:
			name, tf = runSplit(setSite, c, sp, exp, e, &o)
		case sp.Term == "foldRightForce" && sp.FR != nil:
			name, tf = runFoldRightForce(setSite, c, sp, exp, &o)
		default:
			name, tf = runTerminal(setSite, c, sp.Term, sp.TA, sp.TB, exp, func(n string) { o.notes = append(o.notes, n) })
		}
		o.names = append(o.names, name)
		o.outLen = len(exp)
		o.pulls = e.pulls
		if tf != nil {
			return o, tf
		}
		if ef := e.cellCheck(); ef != nil {
			return o, ef
		}
		return o, nil
	}

	// demand mode
	want := exp
	if len(want) > sp.K {
		want = want[:sp.K]
	}
	more := len(exp) > sp.K // only meaningful for finite sources
	setSite("consume(" + last + ")")
	var got []int
	switch c.world {
	case wIter:
		for len(got) < sp.K && c.it.HasNext() {
			got = append(got, c.it.Next())
		}
		if sp.Peek {
			h := c.it.HasNext()
			if len(got) == sp.K && !sp.Unbounded && h != more {
				return o, failf("disagrees", last, "HasNext after %d elements = %v, the reference has %d elements", sp.K, h, len(exp))
			}
		}
	case wList:
		cl := c.li
		for len(got) < sp.K && cl.NonEmpty() {
			got = append(got, cl.Head())
			if len(got) < sp.K || sp.TailLast {
				cl = cl.Tail()
			}
		}
		if sp.Peek && (len(got) < sp.K || sp.TailLast) {
			h := cl.NonEmpty()
			if len(got) == sp.K && !sp.Unbounded && h != more {
				return o, failf("disagrees", last, "NonEmpty after %d cells = %v, the reference has %d elements", sp.K, h, len(exp))
			}
		}
	default:
		got = c.sq
		if len(got) > sp.K {
			got = got[:sp.K]
		}
	}
	o.pulls = e.pulls
	o.outLen = len(want)
	if !ir.EqualS(got, want) {
		return o, failf("disagrees", "", "first %d elements: library %s, plain-slice reference %s", sp.K, clip(got), clip(want))
	}
	if o.checked && o.pulls > o.allow {
		return o, failf("over-pull", "", "demand k=%d (peek=%v): the source was pulled %d times; strictly needed %d, with one pre-computed output per stage %d, allowed %d (slack %d for %d stages)",
			sp.K, sp.Peek, o.pulls, o.need, o.allow-slack, o.allow, slack, o.stepsN)
	}
	if ef := e.cellCheck(); ef != nil {
		return o, ef
	}
	// memoisation: repeated and interleaved traversals of the same list value
	if c.world == wList {
		o.memo = true
		pulls0, cb0 := e.pulls, e.cbCalls
		ev0 := append([]int(nil), e.evals...)
		setSite("re-traverse(" + last + ")")
		var again []int
		cl := c.li
		for len(again) < len(got) && cl.NonEmpty() {
			again = append(again, cl.Head())
			cl = cl.Tail()
		}
		// interleaved: two cursors, the first runs two cells ahead
		a, b := c.li, c.li
		var ga, gb []int
		for len(gb) < len(got) {
			for j := 0; j < 2 && len(ga) < len(got) && a.NonEmpty(); j++ {
				ga = append(ga, a.Head())
				a = a.Tail()
			}
			if !b.NonEmpty() {
				break
			}
			gb = append(gb, b.Head())
			b = b.Tail()
		}
		if !ir.EqualS(again, got) || !ir.EqualS(ga, got) || !ir.EqualS(gb, got) {
			return o, failf("disagrees", "", "second traversal of the same list yields %s / interleaved %s, %s; first traversal %s", clip(again), clip(ga), clip(gb), clip(got))
		}
		if ef := e.cellCheck(); ef != nil {
			return o, ef
		}
		grew := false
		for i := range ev0 {
			if e.evals[i] != ev0[i] {
				grew = true
			}
		}
		// Tail() after the last cell may look one cell further than the first walk did (when the
		// first walk did not take the last Tail); that is demand, not re-evaluation
		if sp.TailLast || len(got) < sp.K {
			if grew || e.pulls != pulls0 || e.cbCalls != cb0 {
				return o, failf("re-evaluated-on-second-traversal", "", "re-traversing the same memoised list evaluated again: source pulls %d -> %d, callback calls %d -> %d", pulls0, e.pulls, cb0, e.cbCalls)
			}
		}
	}
	return o, nil
}

// cellCheck: every cell of the instrumented lazy list source was evaluated at most once.
func (e *env) cellCheck() *failure {
	for i, n := range e.evals {
		if n > 1 {
			return failf("cell-evaluated-twice", "", "cell %d of the memoised source list was evaluated %d times", i, n)
		}
	}
	return nil
}

// ---- shrinking and reporting ----------------------------------------------------------

func sameFailure(a, b *failure) bool { return b != nil && a.kind == b.kind }

func finalWorld(sp *caseSpec) int {
	steps := planAll(sp, nil)
	if len(steps) > 0 {
		return steps[len(steps)-1].to
	}
	return srcWorld(sp.Src)
}

// shrink minimises a failing case: canonical terminal first, then greedy removal of stages,
// as long as a failure of the same kind remains.
func shrink(sp *caseSpec, f *failure) (*caseSpec, *failure) {
	cur, cf := sp, f
	// which tied element a terminal returns depends on the elements it is given only: hand them to
	// it through a plain constructor of the same world, then drop elements
	if cf.kind == "tie-choice" && cur.Mode == "terminal" {
		src := map[int]string{wIter: "iterator.FromSeq", wList: "list.Of", wSeq: "fp.Seq"}[finalWorld(cur)]
		cand := &caseSpec{Src: src, Vals: sliceRef(cur), Mode: "terminal", Term: cur.Term, TA: cur.TA, TB: cur.TB, K: cur.K}
		if _, nf := exec(cand, nil); sameFailure(cf, nf) {
			cur, cf = cand, nf
			for i := len(cur.Vals) - 1; i >= 0 && len(cur.Vals) <= 256; i-- {
				c2 := *cur
				c2.Vals = append(append([]int{}, cur.Vals[:i]...), cur.Vals[i+1:]...)
				if _, nf := exec(&c2, nil); sameFailure(cf, nf) {
					cur, cf = &c2, nf
				}
			}
		}
	}
	if cur.Mode == "terminal" && cur.Term != "toSeq" && cur.Term != "split" && cur.Term != "foldRightForce" {
		cand := *cur
		cand.Term, cand.TA = "toSeq", 0
		if _, nf := exec(&cand, nil); sameFailure(cf, nf) {
			cur, cf = &cand, nf
		}
	}
	for changed := true; changed; {
		changed = false
		for i := range cur.Stages {
			cand := *cur
			cand.Stages = append(append([]stageSpec{}, cur.Stages[:i]...), cur.Stages[i+1:]...)
			if len(cand.Stages) == 0 && cand.Mode == "demand" && !(cf.kind == "demand-order" && srcWorld(cand.Src) == wList) {
				continue
			}
			if cand.Unbounded {
				if _, ok := modelPulls(&cand, true, cand.demandForModel()+2); !ok {
					continue
				}
			}
			if cand.Mode == "terminal" && len(termNames(cand.Term, finalWorld(&cand))) == 0 {
				continue
			}
			if _, nf := exec(&cand, nil); sameFailure(cf, nf) {
				c2 := cand
				cur, cf, changed = &c2, nf, true
				break
			}
		}
	}
	if cur.Term == "split" && cur.Split != nil && cf.kind != "harness" {
		cur, cf = shrinkSplit(cur, cf)
	}
	if cur.Term == "foldRightForce" && cur.FR != nil && cf.kind != "harness" {
		cur, cf = shrinkFR(cur, cf)
	}
	// a failing access script: drop every call that is not needed for the failure
	if cf.kind == "demand-order" && cur.Script != nil {
		ops := cur.Script.Ops
		for i := len(ops) - 1; i >= 0 && len(ops) > 1; i-- {
			cand := *cur
			cand.Script = &scriptSpec{Kind: cur.Script.Kind, Ops: append(append([]accessOp{}, ops[:i]...), ops[i+1:]...)}
			if _, nf := exec(&cand, nil); sameFailure(cf, nf) {
				c2 := cand
				cur, cf, ops = &c2, nf, cand.Script.Ops
			}
		}
	}
	return cur, cf
}

// keyOf names the failing call sites of the minimised case: the remaining library stages (at
// most 3), followed by the terminal operation unless that is the canonical ToSeq.
func keyOf(sp *caseSpec, o obs, f *failure) string {
	if f.kind == "harness" {
		return "HARNESS/reference-self-disagreement"
	}
	// the appended families name the call site under test themselves: the multi-result combinator
	// whose outputs were consumed interleaved / FoldRight and the way its fold function treats
	// the lazy argument (the stages before it only shaped the input)
	if sp.Term == "split" && sp.Split != nil && f.site != "" {
		return f.site + "/" + f.kind
	}
	if sp.Term == "foldRightForce" && sp.FR != nil && f.site != "" {
		return f.site + "(" + sp.FR.class() + ")/" + f.kind
	}
	names := []string{}
	for _, st := range planAll(sp, nil) {
		names = append(names, st.name)
	}
	if len(names) > 3 {
		if f.kind == "demand-order" {
			names = names[len(names)-3:] // what the consumer touches is the end of the pipeline
		} else {
			names = names[:3]
		}
	}
	if sp.Mode == "terminal" && (sp.Term != "toSeq" || len(names) == 0) {
		tn := f.site
		if tn == "" && len(o.names) > 0 {
			tn = o.names[len(o.names)-1]
		}
		names = append(names, tn)
	}
	if len(names) == 0 {
		names = []string{"source:" + sp.Src}
	}
	return strings.Join(names, ">") + "/" + f.kind
}

func describe(sp *caseSpec) string {
	var b strings.Builder
	if sp.Unbounded {
		fmt.Fprintf(&b, "%s(%d, %d, …)", sp.Src, sp.Off, sp.Off+1)
	} else {
		fmt.Fprintf(&b, "%s%s", sp.Src, clip(sp.Vals))
	}
	for _, st := range planAll(sp, nil) {
		b.WriteString(" | " + st.name)
	}
	for _, st := range sp.Stages {
		fmt.Fprintf(&b, " {%s a=%d b=%d xs=%v}", st.Op, st.A, st.B, st.Xs)
	}
	if sp.Script != nil {
		fmt.Fprintf(&b, " => access script [%s], then", sp.Script.String())
	}
	switch {
	case sp.Term == "split" && sp.Split != nil:
		fmt.Fprintf(&b, " => %s", sp.Split.String())
	case sp.Term == "foldRightForce" && sp.FR != nil:
		fmt.Fprintf(&b, " => %s", sp.FR.String())
	case sp.Mode == "terminal":
		fmt.Fprintf(&b, " => %s(ta=%d,tb=%d)", sp.Term, sp.TA, sp.TB)
	default:
		fmt.Fprintf(&b, " => first %d elements (peek=%v, tailAfterLast=%v)", sp.K, sp.Peek, sp.TailLast)
	}
	return b.String()
}

func runCase(w *vrt.W, i int) {
	r := w.Rand(i)
	sp := genSpec(r)
	w.Begin(i, "pipeline")
	var o obs
	var f *failure
	w.Guard(i, func() any { return sp }, func() {
		o, f = exec(sp, w.Site)
		if f != nil {
			msp, mf := shrink(sp, f)
			mo, _ := exec(msp, nil)
			key := keyOf(msp, mo, mf)
			w.Violation(i, key, mf.detail+"\nminimised case: "+describe(msp)+"\noriginal case:  "+describe(sp), map[string]any{"minimised": msp, "original": sp})
		}
	})
	w.Done(i)
	if f != nil {
		return
	}
	for _, n := range o.names {
		w.Hit(n)
	}
	w.Add("pipelines", 1)
	w.Add("pipelines."+worldNames[srcWorld(sp.Src)], 1)
	w.Add("mode."+sp.Mode, 1)
	w.Add(fmt.Sprintf("stages.%d", len(sp.Stages)), 1)
	switch n := len(sp.Vals); {
	case sp.Unbounded:
		w.Add("input.unbounded", 1)
	case n == 0:
		w.Add("input.len0", 1)
	case n == 1:
		w.Add("input.len1", 1)
	case n == 64:
		w.Add("input.len64", 1)
	default:
		w.Add("input.len2to63", 1)
	}
	if o.checked {
		w.Add("laziness.checked", 1)
		if sp.Unbounded {
			w.Add("laziness.unbounded_source_pipelines", 1)
		}
		if o.listy {
			w.Add("laziness.checked_with_list_stage", 1)
		}
		if o.pulls > o.need {
			w.Add("laziness.pulled_more_than_strictly_needed", 1)
		}
		if o.pulls > o.draftBound {
			w.Add("laziness.lookahead_beyond_draft_bound_need_k_plus_S", 1)
		}
		if o.pulls < len(sp.Vals) || sp.Unbounded {
			w.Add("laziness.source_not_exhausted", 1)
		}
		w.Max("max_pulls_minus_need", int64(o.pulls-o.need))
		w.Max("max_pulls_minus_lookahead_model", int64(o.pulls-(o.allow-slackOf(o))))
		w.Max("max_allowed_minus_pulls", int64(o.allow-o.pulls))
	}
	if o.memo {
		w.Add("memo.retraversals", 1)
	}
	for _, n := range o.notes {
		w.Add(n, 1)
	}
	if st := o.script; st != nil {
		w.Add("script.cases", 1)
		w.Add("script.mode."+sp.Mode, 1)
		w.Add("script.kind."+sp.Script.Kind, 1)
		w.Add("script.calls", int64(st.calls))
		w.Add("script.consumes."+o.lastName, 1)
		if o.checked {
			w.Add("script.laziness_checked", 1)
		}
		if sp.Unbounded {
			w.Add("script.unbounded_source", 1)
		}
		if st.tailBeforeOwnHead > 0 {
			w.Add("script.cases_tail_before_own_head", 1)
			w.Add("script.tail_before_own_head", int64(st.tailBeforeOwnHead))
		}
		if st.headAfterLaterHead > 0 {
			w.Add("script.cases_head_after_successor_head", 1)
			w.Add("script.head_after_successor_head", int64(st.headAfterLaterHead))
		}
		if st.secondCursorLooks > 0 {
			w.Add("script.cases_two_traversals", 1)
		}
		if st.endCellLooks > 0 {
			w.Add("script.cases_end_cell_tested", 1)
		}
		w.Max("script.max_position", int64(st.maxPos))
	}
	w.Max("max_output_len", int64(o.outLen))
	nontrivial := o.stepsN >= 2 && (sp.Unbounded || len(sp.Vals) >= 2) && o.outLen > 0
	if nontrivial {
		fpr := strings.Join(o.names, ">") + "|" + sp.Mode
		w.Distinct(fpr)
		if w.WantSample() && len(sp.Vals) <= 12 && (o.checked || i%7 == 0) {
			w.Sample(map[string]any{"case": describe(sp), "pulls": o.pulls, "need": o.need, "allowed": o.allow, "laziness_checked": o.checked})
		}
	}
}

func slackOf(o obs) int {
	if o.listy {
		return 2*o.stepsN + 2
	}
	return o.stepsN
}

// ---- registry of everything that must be exercised --------------------------------------

func allNames() []string {
	set := map[string]bool{}
	for _, s := range iterSources {
		set["source:"+s] = true
	}
	for _, s := range listSources {
		set["source:"+s] = true
	}
	for _, s := range seqSources {
		set["source:"+s] = true
	}
	for w := 0; w < 3; w++ {
		for _, op := range allOps {
			for v := 0; v < 24; v++ {
				for _, xl := range []int{1, 2} {
					for a := 0; a < 2; a++ {
						for _, st := range plan(stageSpec{Op: op, Var: v, A: a, Xs: make([]int, xl)}, w, nil) {
							set[st.name] = true
						}
					}
				}
			}
		}
		for _, k := range termKinds {
			for _, n := range termNames(k, w) {
				set[n] = true
			}
		}
	}
	out := []string{}
	for n := range set {
		out = append(out, n)
	}
	sort.Strings(out)
	return out
}

// listProducers: every call site that can produce the final List of a pipeline (list
// constructors used as a source, list stages, hops into the list world): each of them must have
// been consumed through an access script.
func listProducers() []string {
	set := map[string]bool{}
	for _, s := range listSources {
		set["source:"+s] = true
	}
	for w := 0; w < 3; w++ {
		for _, op := range allOps {
			for v := 0; v < 24; v++ {
				for _, xl := range []int{1, 2} {
					for a := 0; a < 2; a++ {
						ss := plan(stageSpec{Op: op, Var: v, A: a, Xs: make([]int, xl)}, w, nil)
						if last := ss[len(ss)-1]; last.to == wList {
							set[last.name] = true
						}
					}
				}
			}
		}
	}
	out := []string{}
	for n := range set {
		out = append(out, n)
	}
	sort.Strings(out)
	return out
}

// The first batches hold pipeline cases (ints), the last ones the tie cases (records whose
// payload the Ord / Hashable / predicates ignore, see ties.go).
func pipelineBatches(tier string) int {
	if tier == "thorough" {
		return 256
	}
	return 32
}

func tieBatches(tier string) int {
	if tier == "thorough" {
		return 16
	}
	return 4
}

// appended families (own batches after the tie batches, so that the older PRNG streams keep
// their batch numbers): interleaved consumption of multi-result combinators (split.go) and
// FoldRight with fold functions that force their lazy argument 0..3 times (lazyarg.go)
func splitBatches(tier string) int {
	if tier == "thorough" {
		return 32
	}
	return 8
}

func lazyBatches(tier string) int {
	if tier == "thorough" {
		return 16
	}
	return 4
}

// numeric arguments at the ends of the int range (extremes.go), appended after the lazyarg batches
func extBatches(tier string) int {
	if tier == "thorough" {
		return 8
	}
	return 2
}

// family of batch b: pipeline | ties | split | lazyarg | extremes
func familyOf(tier string, b int) string {
	switch {
	case b < pipelineBatches(tier):
		return "pipeline"
	case b < pipelineBatches(tier)+tieBatches(tier):
		return "ties"
	case b < pipelineBatches(tier)+tieBatches(tier)+splitBatches(tier):
		return "split"
	case b < pipelineBatches(tier)+tieBatches(tier)+splitBatches(tier)+lazyBatches(tier):
		return "lazyarg"
	}
	return "extremes"
}

// familyKeysSeen: violation keys of the appended families this worker process has minimised.
var familyKeysSeen = map[string]int{}

// runFamilyCase runs one case of the appended families.
func runFamilyCase(w *vrt.W, i int, family string) {
	r := w.Rand(i)
	var sp *caseSpec
	if family == "split" {
		sp = genSplitCase(r)
	} else {
		sp = genFoldRightCase(r)
	}
	w.Begin(i, family)
	var o obs
	var f *failure
	w.Guard(i, func() any { return sp }, func() {
		o, f = exec(sp, w.Site)
		if f != nil {
			// the key of these families does not depend on the minimisation: minimise the first
			// occurrences per key and worker only (a broken Duplicate fails thousands of schedules)
			if pre := keyOf(sp, o, f); familyKeysSeen[pre] >= 3 {
				w.Violation(i, pre, f.detail+"\ncase (not minimised, this worker has minimised 3 cases with this key): "+describe(sp), map[string]any{"original": sp})
				return
			} else {
				familyKeysSeen[pre]++
			}
			msp, mf := shrink(sp, f)
			mo, _ := exec(msp, nil)
			key := keyOf(msp, mo, mf)
			w.Violation(i, key, mf.detail+"\nminimised case: "+describe(msp)+"\noriginal case:  "+describe(sp), map[string]any{"minimised": msp, "original": sp})
		}
	})
	w.Done(i)
	if f != nil {
		return
	}
	for _, n := range o.names {
		w.Hit(n)
	}
	w.Add(family+".cases", 1)
	w.Add(family+".source."+worldNames[srcWorld(sp.Src)], 1)
	w.Add(fmt.Sprintf("%s.stages.%d", family, len(sp.Stages)), 1)
	if st := o.split; st != nil {
		ss := sp.Split
		for _, k := range st.kinds {
			w.Hit("split:" + k)
		}
		w.Add("split.root."+splitOpName[ss.Root.Op], 1)
		w.Add("split.schedule."+ss.Kind, 1)
		w.Add(fmt.Sprintf("split.outputs.%d", st.sides), 1)
		w.Add("split.events", int64(st.events))
		seenVia := map[string]bool{}
		for s := 0; s < st.sides && s < len(ss.Via); s++ {
			if !seenVia[ss.Via[s]] {
				seenVia[ss.Via[s]] = true
				w.Add("split.read_via."+ss.Via[s], 1)
			}
		}
		if st.nested {
			w.Add("split.cases_output_split_again", 1)
		}
		if st.listSides > 0 {
			w.Add("split.cases_with_list_backed_side", 1)
		}
		if st.pullChecked {
			w.Add("split.cases_pulls_checked", 1)
			w.Max("split.max_pulls_minus_strictly_needed", int64(st.maxOverNeed))
		}
		if st.swaps > 0 {
			w.Add("split.cases_leader_changed", 1)
		}
		if st.blindNexts > 0 {
			w.Add("split.cases_next_without_hasnext", 1)
		}
		if st.exhaustedPeeks > 0 {
			w.Add("split.cases_hasnext_on_exhausted_side", 1)
		}
		for _, d := range []int{1, 8, 9, 16, 17, 32, 33, 64, 65} {
			if st.maxLead >= d {
				w.Add(fmt.Sprintf("split.cases_lead_ge_%d", d), 1)
			}
			if st.leadAfterDeq >= d {
				w.Add(fmt.Sprintf("split.cases_lead_ge_%d_after_lagging_side_read_from_buffer", d), 1)
			}
		}
		switch n := st.srcLen; {
		case n >= 130:
			w.Add("split.input.len130plus", 1)
		case n >= 65:
			w.Add("split.input.len65to129", 1)
		case n >= 9:
			w.Add("split.input.len9to64", 1)
		default:
			w.Add("split.input.len0to8", 1)
		}
		w.Max("split.max_lead_in_source_elements", int64(st.maxLead))
		w.Max("split.max_lead_after_lagging_side_read_from_buffer", int64(st.leadAfterDeq))
		w.Max("split.max_input_len", int64(st.srcLen))
		if st.swaps > 0 && st.srcLen >= 9 {
			w.Distinct(fmt.Sprintf("split|%s|%s|%v|%d|%d|%v", sp.Src, ss.Root.String(), ss.Via, len(sp.Stages), st.srcLen, ss.Ops))
			if w.WantSample() && len(ss.Ops) <= 14 && i%40 == 0 {
				w.Sample(map[string]any{"split_case": describe(sp), "max_lead": st.maxLead, "leader_changes": st.swaps})
			}
		}
	}
	if st := o.fr; st != nil {
		w.Hit("lazyarg:" + st.world + ".FoldRight")
		w.Add("lazyarg.fold_function."+st.variant, 1)
		w.Add("lazyarg."+st.world+".fold_function."+st.variant, 1)
		w.Add(fmt.Sprintf("lazyarg.result_forced.%d", st.gets), 1)
		w.Add("lazyarg.fold_function_calls", int64(st.calls))
		w.Add("lazyarg.forces_by_get", int64(st.forces))
		if st.short {
			w.Add("lazyarg.cases_result_ignores_a_suffix", 1)
		}
		if st.forces >= 2*st.calls && st.calls > 0 {
			w.Add("lazyarg.cases_every_call_forces_twice_or_more", 1)
		}
		switch n := st.n; {
		case n >= 64:
			w.Add("lazyarg.input.len64plus", 1)
			if st.forces >= 2*st.calls && st.calls >= 64 {
				w.Add("lazyarg.cases_len64plus_forced_twice_or_more_per_call", 1)
			}
		case n >= 9:
			w.Add("lazyarg.input.len9to63", 1)
		default:
			w.Add("lazyarg.input.len0to8", 1)
		}
		w.Max("lazyarg.max_input_len", int64(st.n))
		if st.n >= 2 {
			w.Distinct(fmt.Sprintf("lazyarg|%s|%v|%v|%d|%d", sp.Src, sp.Stages, *sp.FR, st.n, len(sp.Vals)))
			if w.WantSample() && st.n <= 8 && i%60 == 0 {
				w.Sample(map[string]any{"lazyarg_case": describe(sp), "fold_function_calls": st.calls, "forces_by_get": st.forces})
			}
		}
	}
}

func main() {
	vrt.Main(vrt.Config{
		Property: "C12",
		Batches: func(tier string) int {
			return pipelineBatches(tier) + tieBatches(tier) + splitBatches(tier) + lazyBatches(tier) + extBatches(tier)
		},
		Cases: func(tier string, b int) int {
			switch familyOf(tier, b) {
			case "split":
				if tier == "thorough" {
					return 12000
				}
				return 3000
			case "lazyarg":
				if tier == "thorough" {
					return 10000
				}
				return 2500
			case "extremes":
				if tier == "thorough" {
					return 6000
				}
				return 1500
			}
			if b >= pipelineBatches(tier) { // tie cases run ~60 library calls each
				if tier == "thorough" {
					return 12000
				}
				return 2500
			}
			if tier == "thorough" {
				return 16000
			}
			return 5000
		},
		Run: func(w *vrt.W) {
			for i := w.From; i < w.To; i++ {
				switch fam := familyOf(w.Tier, w.Batch); fam {
				case "pipeline":
					runCase(w, i)
				case "ties":
					runTieCase(w, i)
				case "extremes":
					runExtCase(w, i)
				default:
					runFamilyCase(w, i, fam)
				}
			}
		},
		Rule: "PIPELINE CASES (first 32 / 256 batches). case = PRNG pipeline spec: a source (instrumented iterator / iterator.Generate / instrumented list.Generate|GenerateFrom|Recurrence / list.Collect|iterator.ToList of an instrumented iterator / every plain constructor of Iterator, List, Seq) over an input of length 0,1,2..64 (sequential, sorted-with-repeats, random or few-valued ints) or unbounded, followed by 1..6 abstract stages (0 stages for 1/14 of the list sources: the constructor itself is consumed) (map, filter, filterMap, flatMap, take, drop, takeWhile, dropWhile, span-both, partition-both, prepend, append, zipWithIndex, zip, zip3, scan, tap, reverse, sort, pull, world hop, and the self-operand stages list.Zip(l.Tail^j, l) / Zip(l, l.Tail^j), list.Zip3(l, l.Tail, l.Tail.Tail), list.Combine(l, l.Tail^j) that use one lazy list several times at different offsets) each realised by one of the library's spellings for the current world (Iterator method / iterator.* / list.* / fp.Seq method / seq.*; stages a world lacks go through the iterator and back), consumed either by demanding the first k elements (k in {0,1,2,n/2,n,n+3,m/2,m,m+3}; optionally one more HasNext/NonEmpty; list walker with or without the last Tail) or by one terminal operation (ToSeq family, Count, Fold/FoldLeft/FoldRight/FoldTry/FoldOption/FoldError/FoldMap/Fold*UsingMap, Reduce over a sum, an affine-composition and a string monoid, GroupBy, Min/Max under the natural order and under an order by |x| mod m built five ways (ties), ToMap/ToSet/ToGoMap/ToGoSet, Sort, Exists/ForAll/Find, MakeString, Foreach, All, Duplicate). When the final value is a List, 70% of the demand cases and 35% of the terminal cases first consume it through an ACCESS SCRIPT: a PRNG sequence of Head/IsEmpty/NonEmpty/Unapply/Tail calls on cells addressed by (table, position) of 9 kinds (all Tails then the last Head; all Tails then Heads ascending / descending / random order / with a stride; a cell's head after its successor's; two interleaved traversals 1..3 cells apart; a second traversal forking off in the middle; random calls over three tables) that stays within the demand k (+ peek) of the case and takes Tail only from cells that are non-empty in the reference. Oracles: output = plain-slice reference (which must itself equal the pull-model reference); under an access script the cell at position i holds element i of the reference whatever the order of demands; fold callbacks budgeted with len(input) calls; pulls of the instrumented source <= pulls of the pull model in which every stage holds one pre-computed output + S (Iterator) or 2S+2 (List), S = number of library stages - checked after the access script and again after the head-first walk; each cell of the instrumented list evaluated at most once; running the same access script again, a second and an interleaved traversal of the same list value evaluate nothing again (no source pull, no callback, no cell); Min/Max under an order with ties return an element of extreme key and exactly the element seq.Min/seq.Max return on the same elements. distinct_nontrivial counts distinct (source, sequence of library call sites, consumer) fingerprints of cases with >= 2 library stages, input length >= 2 (or unbounded) and a non-empty expected output, plus the distinct tie cases with at least one duplicate key. TIE CASES (last 4 / 16 batches). case = 0..48 records {Key, ID=position} over 1..4 distinct keys (one key, all distinct, sorted runs, random), one of 6 Seq / 12 Iterator / 12 List constructors for the three spellings, an Ord by Key (5 constructions, ascending or descending), a predicate on Key. Every element-selecting operation is run as seq.*, iterator.*, list.* on the same elements and compared including the ID: Min, Max, ToSet under a Hashable by Key (must be a correct answer, and the iterator / list spelling must return the element the seq spelling returns: tie-choice), Find (first match), GroupBy (groups in input order), ToMap/ToGoMap (last wins), Filter/FilterNot/FilterMap/Partition/Span/TakeWhile/DropWhile (input order), Fold/FoldLeft/FoldRight (elements in order), Reduce/FoldMap with the monoids 'first of maximal key' and 'last of minimal key', Sort (sorted permutation; stability not demanded); FoldRight also with a fold function that forces its lazy argument twice (len(input) call budget). INTERLEAVED CASES (8 / 32 batches after the tie batches, split.go). case = a finite source of 0..400 ints (55%: the instrumented iterator itself, else any finite constructor of the three worlds followed by 0..2 stages; a final List / Seq is turned into an iterator by iterator.FromList / List / seq.Iterator / FromSeq / FromSlice / Of), handed to a tree of 1..3 multi-result combinators iterator.Duplicate / Span / Partition (an output is split again in 22% of the cases: 2..4 outputs) with predicates from a palette of 13 (incl. sparse and run-shaped ones: |x|%12==11, |x|%16!=0, |x|%32==5, (|x|/10)%2==0, (|x|/33)%2==0), every output read as an Iterator (HasNext/Next or NextOption) or through a lazy List built on it (list.Collect, iterator.ToList), and a SCHEDULE (pure data): (side, next n | next n without HasNext | peek = HasNext/NonEmpty only | drain) of 5 kinds - leadLag (rounds: the leader gets 1..8 source elements ahead, the other output reads 1..5, the leader runs ahead by d in {0,1,7,8,9,15,16,17,31,32,33,64,65} source elements, the lagging output catches up completely / by 1..5 / overtakes by 1..9 so that the roles swap; new pair of outputs now and then), random (chunks from {1,..,5,7,8,9,15,16,17,31,32,33,64,65}), alternate (fixed chunk per output), burst (one leadLag round), sequential (control) - always closed by draining every output in PRNG order. Oracles: every output delivers exactly its plain-slice reference (TakeWhile/DropWhile/Filter/complement along its path), element by element in order whatever the schedule; HasNext/NonEmpty/NextOption agree with the reference at every point and after exhaustion; with the instrumented iterator as direct source the pulls never exceed what the most advanced output needs when every stage holds one pre-computed output (+1 per tree level) and are never fewer than the delivered elements need (each element is pulled once); a List-backed output walked again evaluates nothing. Keys: <iterator.Duplicate|Span|Partition of the tree root>/interleaved-disagrees etc. LAZY-ARGUMENT CASES (4 / 16 batches at the end, lazyarg.go). case = a finite source of 0..200 ints in one of the three worlds, 0..2 stages (output <= 260), then seq.FoldRight / iterator.FoldRight / list.FoldRight with a fold function from a palette of 11 that forces its lazy.Eval argument never (Done(x)), once (returned as is, Get, Map), twice (Get in a condition and again in the result; Get in a condition and Map in the result; lazy.Map2(rest,rest); rest.FlatMap(..rest.Map..)), three times (all three values must be equal), or 0/1/2 times depending on the element; the returned Eval is forced 1..3 times. Oracles: every Get of the result = the plain right fold on the slice (call-by-need); the fold function is called at most len(input) times in total (vrt.Budget -> .../nontermination: exponential re-evaluation of the lazy argument trips it after len(input)+1 calls) and not for elements the result does not depend on (.../forces-undemanded-suffix). distinct_nontrivial also counts distinct interleaved cases with >= 9 elements in which the leading output changed at least once, and distinct lazy-argument cases with >= 2 elements. EXTREMES CASES (2 / 8 batches at the end, extremes.go). case = (from, to, count, k, m, relation): the first 121 cases of a batch are every pair of the anchors {MinInt, MinInt+1, MinInt+2, -2, -1, 0, 1, 2, MaxInt-2, MaxInt-1, MaxInt} as (from, to); the others draw each number from the anchors (70%), small ints, or an anchor +-70 (saturating), or the second bound as the first plus a delta from {-65,-3..3,7,8,9,64,65,199,200,201,300,2^20}; the count is next to the input length, an anchor, or drawn the same way. Every integer-taking call site is run on it: iterator.Range / RangeClosed, list.Range / RangeClosed, list.GenerateFrom (finite of m cells and unbounded), list.Recurrence1 / Recurrence2 with the bounds as seeds and 7 wrapping relations, Iterator.Take / Drop over a slice, a list, a range and an unbounded generator, Seq.Take / Drop, seq/iterator/list.ZipWithIndex. Reference: plain Go with unsigned span arithmetic (Range empty when to <= from, RangeClosed when to < from, element i = from+i); outputs longer than 200 elements are only asked for their first k <= 40 elements. Oracles: a HasNext/Next resp. IsEmpty/Head/Tail walker compares element by element under a pull / cell budget of n+64 (surplus elements: /disagrees when the value ends, /nontermination when the budget is spent - no wall clock); on values the walker saw end: ToSeq, Count, Fold and Reduce (sum, fold function budgeted), seq.Collect, Foreach; on every value: Take(k).ToSeq(), list.Collect / iterator.ToList / iterator.FromList walked, ZipWithIndex, IsEmpty, a second walk of the same list value. Keys <site>[bound=MinInt|bound=MaxInt|negative-count]/<disagrees|nontermination|panic>. distinct_nontrivial also counts distinct (argument classes, k, m, relation) combinations of these cases.",
		Assumptions: []string{
			"callbacks are pure functions of their arguments (palettes of 8 functions, 8 predicates, 6 expanders, 4 partial functions, 3 scan functions)",
			"pipeline elements are ints (ties: ints ordered by |x| mod m); tie cases use one record type {Key, ID int}; pipelines are PRNG samples, not an enumeration",
			"the look-ahead allowance is one produced element per library stage (plus the slack stated in the rule); unbounded sources are used only where the one-look-ahead model itself terminates",
			"Tail() of an empty List is an empty List (list.Nil, list.Seq and fp.ListAdaptor all do that and list.Zip relies on it): the self-operand stages take l.Tail() up to 3 times without testing for emptiness; access scripts never take Tail of a cell that is empty in the reference",
			"lazy.Eval is a trampoline without a result cache: an Eval that the USER's fold function builds from two uses of its lazy argument (lazy.Map2(rest, rest, ..), rest.FlatMap(.. rest.Map ..)) runs the Eval of the rest twice each time it is run, 2^n lazy.Run steps for n elements by construction of that value, although FoldRight calls the fold function once per element. Those two palette entries are used on <= 12 elements only; forcing by Get (any number of times) is used on up to 260 elements. The termination oracle counts calls of the fold function, not lazy.Run steps",
			"interleaved cases: a schedule never reads one output from two goroutines; the lead of one output over another is measured in source elements strictly needed for what each output delivered",
			"extremes cases: int is 64 bits wide and int arithmetic wraps (list.GenerateFrom hands its generator startIndex, startIndex+1, .. with wrap-around; recurrence relations wrap); Take(n) for n <= 0 is empty and Drop(n) for n <= 0 is the identity (what Iterator.Take/Drop do); Drop(MaxInt) is only used on finite sources",
			"which of several Ord-equal extremes Min/Max return and which Eqv-equal representative ToSet keeps is defined by the eager seq.* computation on the same elements (the property's wording); seq.* itself is only required to return one of the correct answers",
		},
		Floors: func(tier string) map[string]int64 {
			fl := map[string]int64{"laziness.checked": 3000, "laziness.unbounded_source_pipelines": 500, "laziness.source_not_exhausted": 1000,
				"memo.retraversals": 1000, "input.len0": 100, "input.len1": 100, "input.len64": 100, "distinct": 2000,
				"stages.1": 100, "stages.6": 100, "mode.terminal": 1000, "mode.demand": 1000}
			for _, n := range allNames() {
				fl["hit."+n] = 1
			}
			// access scripts on lazy lists
			for k, v := range map[string]int64{"script.cases": 10000, "script.cases_tail_before_own_head": 5000, "script.cases_head_after_successor_head": 3000,
				"script.cases_two_traversals": 2000, "script.cases_end_cell_tested": 2000, "script.laziness_checked": 5000, "script.unbounded_source": 1000,
				"script.mode.demand": 5000, "script.mode.terminal": 2000, "stages.0": 500} {
				fl[k] = v
			}
			for _, k := range scriptKinds {
				fl["script.kind."+k] = 500
			}
			for _, n := range listProducers() {
				fl["script.consumes."+n] = 5
			}
			// ties: elements that the Ord / Hashable / predicate cannot tell apart
			for k, v := range map[string]int64{"ties.cases": 5000, "ties.cases_with_duplicate_keys": 3000, "ties.min_tied": 2000, "ties.max_tied": 2000,
				"ties.find_several_matches": 2000, "ties.group_with_several_elements": 2000, "ties.set_with_eqv_duplicates": 2000,
				"ties.pipeline_minKey_tied": 200, "ties.pipeline_maxKey_tied": 200} {
				fl[k] = v
			}
			for _, n := range tieSites() {
				fl["hit."+n] = 1
			}
			// multi-result combinators consumed under interleaving schedules
			for k, v := range map[string]int64{"split.cases": 15000, "split.cases_leader_changed": 6000, "split.cases_pulls_checked": 7000,
				"split.cases_with_list_backed_side": 8000, "split.cases_output_split_again": 2500, "split.cases_next_without_hasnext": 7000,
				"split.cases_hasnext_on_exhausted_side": 7000, "split.input.len130plus": 5000, "split.input.len0to8": 1000,
				"split.cases_lead_ge_9_after_lagging_side_read_from_buffer": 8000, "split.cases_lead_ge_17_after_lagging_side_read_from_buffer": 7000,
				"split.cases_lead_ge_33_after_lagging_side_read_from_buffer": 6000, "split.cases_lead_ge_65_after_lagging_side_read_from_buffer": 4000,
				"split.root.iterator.Duplicate": 5000, "split.root.iterator.Partition": 5000, "split.root.iterator.Span": 2000,
				"split.schedule.leadLag": 5000, "split.schedule.random": 3000, "split.schedule.alternate": 1500, "split.schedule.burst": 1000, "split.schedule.sequential": 500,
				"split.read_via.Iterator.Next": 10000, "split.read_via.Iterator.NextOption": 2500, "split.read_via.list.Collect": 4000, "split.read_via.iterator.ToList": 4000,
				"split.source.list": 2000, "split.source.seq": 500, "split.outputs.3": 2000, "split.outputs.4": 400,
				"hit.split:iterator.Duplicate": 2000, "hit.split:iterator.Partition": 2000, "hit.split:iterator.Span": 2000} {
				fl[k] = v
			}
			// fold functions that force their lazy argument 0, 1, 2, 3 times
			for k, v := range map[string]int64{"lazyarg.cases": 6000, "lazyarg.input.len64plus": 1500, "lazyarg.input.len0to8": 1500,
				"lazyarg.cases_len64plus_forced_twice_or_more_per_call": 300, "lazyarg.cases_every_call_forces_twice_or_more": 700,
				"lazyarg.cases_result_ignores_a_suffix": 1000, "lazyarg.result_forced.1": 1500, "lazyarg.result_forced.2": 1500, "lazyarg.result_forced.3": 1500} {
				fl[k] = v
			}
			for _, v := range frVariants {
				fl["lazyarg.iterator.fold_function."+v] = 150
				fl["lazyarg.list.fold_function."+v] = 200
				fl["lazyarg.seq.fold_function."+v] = 40
			}
			for _, wn := range worldNames {
				fl["hit.lazyarg:"+wn+".FoldRight"] = 500
			}
			// integer arguments at the ends of the int range
			for k, v := range map[string]int64{"extremes.cases": 2500, "extremes.from.MinInt": 150, "extremes.from.MaxInt": 150, "extremes.to.MinInt": 150, "extremes.to.MaxInt": 150,
				"extremes.from.nearMinInt": 150, "extremes.to.nearMaxInt": 150, "extremes.count.MinInt": 100, "extremes.count.MaxInt": 100, "extremes.count.negative": 100, "extremes.count.zero": 50,
				"extremes.span.reversed": 500, "extremes.span.equal": 80, "extremes.span.singleton": 80, "extremes.span.overflows_int": 80, "extremes.span.huge": 100, "extremes.span.short": 300,
				"extremes.both_bounds_within_2_of_an_end": 200, "extremes.nonempty_finite_range_ending_at_an_end": 50, "extremes.count_next_to_input_length": 300} {
				fl[k] = v
			}
			for _, n := range extSites() {
				fl["hit.extremes:"+n] = 1000
			}
			return fl
		},
		Finish: func(tier string, m *vrt.Merged, cov map[string]any) {
			missing := []string{}
			for _, n := range allNames() {
				if m.Counters["hit."+n] == 0 {
					missing = append(missing, n)
				}
			}
			for _, n := range tieSites() {
				if m.Counters["hit."+n] == 0 {
					missing = append(missing, n)
				}
			}
			unscripted := []string{}
			for _, n := range listProducers() {
				if m.Counters["script.consumes."+n] == 0 {
					unscripted = append(unscripted, n)
				}
			}
			cov["call_sites_registered"] = len(allNames()) + len(tieSites())
			cov["call_sites_never_hit"] = missing
			cov["list_producers_registered"] = len(listProducers())
			cov["list_producers_never_consumed_by_access_script"] = unscripted
			cov["max_observed_pulls_minus_need"] = m.Maxes["max_pulls_minus_need"]
			cov["interleaved_max_lead_in_source_elements"] = m.Maxes["split.max_lead_in_source_elements"]
			cov["interleaved_max_lead_after_lagging_output_read_from_buffer"] = m.Maxes["split.max_lead_after_lagging_side_read_from_buffer"]
			cov["lazy_argument_fold_functions"] = frVariants
		},
	})
}

var _ = fp.Some[int]
