package main

import (
	"fmt"

	ir "verif/refmodel/iterref"

	"github.com/csgura/fp"
	"github.com/csgura/fp/as"
	"github.com/csgura/fp/iterator"
	"github.com/csgura/fp/list"
	"github.com/csgura/fp/seq"
)

const (
	wIter = 0
	wList = 1
	wSeq  = 2
)

var worldNames = []string{"iterator", "list", "seq"}

// cur is the value a pipeline has reached: an Iterator, a lazy List or an eager Seq of ints.
type cur struct {
	world int
	it    fp.Iterator[int]
	li    fp.List[int]
	sq    fp.Seq[int]
}

// stageSpec is one abstract pipeline stage (pure data, JSON-serialisable).
type stageSpec struct {
	Op  string `json:"op"`
	Var int    `json:"variant"`
	A   int    `json:"a,omitempty"`
	B   int    `json:"b,omitempty"`
	Xs  []int  `json:"xs,omitempty"`
}

// step is one application of library combinators, paired with its reference semantics.
type step struct {
	name     string               // library call site (hit counter, violation key)
	cost     int                  // number of library stages it adds (look-ahead allowance)
	apply    func(c cur) cur      // the library
	model    func(up ir.P) ir.P   // zero-look-ahead pull semantics
	slice    func(xs []int) []int // plain-slice semantics
	prefetch bool                 // holds one computed output from construction on
	barrier  bool                 // consumes its whole input by its meaning
	to       int                  // world after the step
}

func itStep(name string, cost int, ap func(fp.Iterator[int]) fp.Iterator[int], model func(ir.P) ir.P, sl func([]int) []int) step {
	return step{name: name, cost: cost, to: wIter, model: model, slice: sl, apply: func(c cur) cur {
		return cur{world: wIter, it: ap(c.it)}
	}}
}
func liStep(name string, cost int, prefetch bool, ap func(fp.List[int]) fp.List[int], model func(ir.P) ir.P, sl func([]int) []int) step {
	return step{name: name, cost: cost, to: wList, prefetch: prefetch, model: model, slice: sl, apply: func(c cur) cur {
		return cur{world: wList, li: ap(c.li)}
	}}
}
func sqStep(name string, ap func(fp.Seq[int]) fp.Seq[int], model func(ir.P) ir.P, sl func([]int) []int) step {
	return step{name: name, cost: 1, to: wSeq, model: model, slice: sl, apply: func(c cur) cur {
		return cur{world: wSeq, sq: ap(c.sq)}
	}}
}

func ident(xs []int) []int { return xs }

// hop converts between worlds.
func hop(from, to, v int) step {
	switch {
	case from == wIter && to == wList:
		if v%2 == 0 {
			return step{name: "iterator.ToList", cost: 1, to: wList, prefetch: true, model: ir.Identity, slice: ident, apply: func(c cur) cur { return cur{world: wList, li: iterator.ToList(c.it)} }}
		}
		return step{name: "list.Collect", cost: 1, to: wList, prefetch: true, model: ir.Identity, slice: ident, apply: func(c cur) cur { return cur{world: wList, li: list.Collect(c.it)} }}
	case from == wList && to == wIter:
		if v%2 == 0 {
			return step{name: "iterator.FromList", cost: 1, to: wIter, model: ir.Identity, slice: ident, apply: func(c cur) cur { return cur{world: wIter, it: iterator.FromList(c.li)} }}
		}
		return step{name: "iterator.List", cost: 1, to: wIter, model: ir.Identity, slice: ident, apply: func(c cur) cur { return cur{world: wIter, it: iterator.List(c.li)} }}
	case from == wIter && to == wSeq:
		bm := func(up ir.P) ir.P { return ir.Barrier(up, ident) }
		switch v % 3 {
		case 0:
			return step{name: "Iterator.ToSeq", cost: 1, to: wSeq, barrier: true, model: bm, slice: ident, apply: func(c cur) cur { return cur{world: wSeq, sq: c.it.ToSeq()} }}
		case 1:
			return step{name: "seq.Collect", cost: 1, to: wSeq, barrier: true, model: bm, slice: ident, apply: func(c cur) cur { return cur{world: wSeq, sq: seq.Collect(c.it)} }}
		}
		return step{name: "iterator.ToSlice", cost: 1, to: wSeq, barrier: true, model: bm, slice: ident, apply: func(c cur) cur { return cur{world: wSeq, sq: iterator.ToSlice(c.it)} }}
	case from == wSeq && to == wIter:
		switch v % 4 {
		case 0:
			return step{name: "seq.Iterator", cost: 1, to: wIter, model: ir.Identity, slice: ident, apply: func(c cur) cur { return cur{world: wIter, it: seq.Iterator(c.sq)} }}
		case 1:
			return step{name: "iterator.FromSeq", cost: 1, to: wIter, model: ir.Identity, slice: ident, apply: func(c cur) cur { return cur{world: wIter, it: iterator.FromSeq(c.sq)} }}
		case 2:
			return step{name: "iterator.FromSlice", cost: 1, to: wIter, model: ir.Identity, slice: ident, apply: func(c cur) cur { return cur{world: wIter, it: iterator.FromSlice(c.sq)} }}
		}
		return step{name: "iterator.Of", cost: 1, to: wIter, model: ir.Identity, slice: ident, apply: func(c cur) cur { return cur{world: wIter, it: iterator.Of(c.sq...)} }}
	case from == wList && to == wSeq:
		bm := func(up ir.P) ir.P { return ir.Barrier(up, ident) }
		return step{name: "List.ToSeq", cost: 1, to: wSeq, barrier: true, model: bm, slice: ident, apply: func(c cur) cur { return cur{world: wSeq, sq: c.li.ToSeq()} }}
	case from == wSeq && to == wList:
		switch v % 3 {
		case 0:
			return step{name: "list.FromSeq", cost: 1, to: wList, model: ir.Identity, slice: ident, apply: func(c cur) cur { return cur{world: wList, li: list.FromSeq(c.sq)} }}
		case 1:
			return step{name: "list.FromSlice", cost: 1, to: wList, model: ir.Identity, slice: ident, apply: func(c cur) cur { return cur{world: wList, li: list.FromSlice(c.sq)} }}
		}
		return step{name: "list.Of", cost: 1, to: wList, model: ir.Identity, slice: ident, apply: func(c cur) cur { return cur{world: wList, li: list.Of(c.sq...)} }}
	}
	panic("harness: hop to the same world")
}

// otherOf: the second operand of a zip as a function of the position (nil xs = unbounded off+i).
func otherOf(xs []int, unbounded bool, off int) func(i int) (int, bool) {
	return func(i int) (int, bool) {
		if unbounded {
			return off + i, true
		}
		if i < len(xs) {
			return xs[i], true
		}
		return 0, false
	}
}

func idxOther(i int) (int, bool) { return i, true }

func optWrap(o func(int) (int, bool)) func(int) fp.Option[int] {
	return func(x int) fp.Option[int] {
		if v, ok := o(x); ok {
			return fp.Some(v)
		}
		return fp.None[int]()
	}
}

var intLess = func(a, b int) bool { return a < b }
var intGreater = func(a, b int) bool { return a > b }

func ordOf(desc bool) fp.Ord[int] {
	return fp.CompareFunc[int](func(a, b int) int {
		if desc {
			a, b = b, a
		}
		if a < b {
			return -1
		}
		if a > b {
			return 1
		}
		return 0
	})
}

// allOps lists the abstract stage kinds.
var allOps = []string{"map", "filter", "filterMap", "flatMap", "take", "drop", "takeWhile", "dropWhile", "spanBoth", "partBoth",
	"prepend", "append", "zipIdx", "zip", "zip3", "scan", "tap", "reverse", "sort", "pull", "hop", "selfZip", "selfZip3", "selfCombine"}

// selfOp: stages that use ONE lazy list several times as an operand of one combinator, at
// different offsets (list.Zip(l.Tail(), l), list.Zip3(l, l.Tail(), l.Tail().Tail()),
// list.Combine(l, l.Tail())). They exist in the list world only; the other worlds hop there.
func selfOp(op string) bool { return op == "selfZip" || op == "selfZip3" || op == "selfCombine" }

// tailN takes Tail() n times. Tail() of an empty list is an empty list for every List of the
// library (list.Zip itself relies on that for operands of different lengths).
func tailN(l fp.List[int], n int) fp.List[int] {
	for i := 0; i < n; i++ {
		l = l.Tail()
	}
	return l
}

// nVariants is an upper bound of the realisation variants of any (op, world).
const nVariants = 4

// plan realises one abstract stage in the given world. e == nil is allowed (enumeration of names).
func plan(sp stageSpec, world int, e *env) []step {
	v := sp.Var
	if v < 0 {
		v = -v
	}
	switch world {
	case wIter:
		if selfOp(sp.Op) {
			return append([]step{hop(wIter, wList, v)}, planList(sp, v/2, e)...)
		}
		return planIter(sp, v, e)
	case wList:
		if st := planList(sp, v, e); st != nil {
			return st
		}
		// no list-native combinator: go through the iterator and come back
		out := []step{hop(wList, wIter, v)}
		out = append(out, planIter(sp, v/2, e)...)
		if out[len(out)-1].to == wIter {
			out = append(out, hop(wIter, wList, v/2))
		}
		return out
	default:
		if selfOp(sp.Op) {
			return append([]step{hop(wSeq, wList, v)}, planList(sp, v/3, e)...)
		}
		if st := planSeq(sp, v, e); st != nil {
			return st
		}
		out := []step{hop(wSeq, wIter, v)}
		out = append(out, planIter(sp, v/4, e)...)
		if out[len(out)-1].to == wIter {
			out = append(out, hop(wIter, wSeq, v/4))
		}
		return out
	}
}

func planIter(sp stageSpec, v int, e *env) []step {
	switch sp.Op {
	case "map":
		f := fnOf(sp.A)
		lf := e.F(f)
		m := func(up ir.P) ir.P { return ir.Map(up, f) }
		sl := func(xs []int) []int { return ir.MapS(xs, f) }
		switch v % 3 {
		case 0:
			return []step{itStep("Iterator.Map", 1, func(it fp.Iterator[int]) fp.Iterator[int] { return it.Map(lf) }, m, sl)}
		case 1:
			return []step{itStep("iterator.Map", 1, func(it fp.Iterator[int]) fp.Iterator[int] { return iterator.Map(it, lf) }, m, sl)}
		}
		return []step{itStep("iterator.Lift", 1, func(it fp.Iterator[int]) fp.Iterator[int] { return iterator.Lift(lf)(it) }, m, sl)}
	case "filter":
		p := predOf(sp.A, sp.B)
		lp := e.Pd(p)
		np := func(x int) bool { return !lp(x) }
		m := func(up ir.P) ir.P { return ir.Filter(up, p) }
		sl := func(xs []int) []int { return ir.FilterS(xs, p) }
		switch v % 4 {
		case 0:
			return []step{itStep("Iterator.Filter", 1, func(it fp.Iterator[int]) fp.Iterator[int] { return it.Filter(lp) }, m, sl)}
		case 1:
			return []step{itStep("Iterator.FilterNot", 1, func(it fp.Iterator[int]) fp.Iterator[int] { return it.FilterNot(np) }, m, sl)}
		case 2:
			return []step{itStep("iterator.Partition.left", 2, func(it fp.Iterator[int]) fp.Iterator[int] { l, _ := iterator.Partition(it, lp); return l }, m, sl)}
		}
		return []step{itStep("iterator.Partition.right", 2, func(it fp.Iterator[int]) fp.Iterator[int] { _, r := iterator.Partition(it, np); return r }, m, sl)}
	case "filterMap":
		o := optOf(sp.A)
		lo := optWrap(func(x int) (int, bool) { e.tick(); return o(x) })
		m := func(up ir.P) ir.P { return ir.FilterMap(up, o) }
		sl := func(xs []int) []int { return ir.FilterMapS(xs, o) }
		return []step{itStep("iterator.FilterMap", 1, func(it fp.Iterator[int]) fp.Iterator[int] { return iterator.FilterMap(it, lo) }, m, sl)}
	case "flatMap":
		ex := expOf(sp.A)
		m := func(up ir.P) ir.P { return ir.FlatMap(up, ex) }
		sl := func(xs []int) []int { return ir.FlatMapS(xs, ex) }
		switch v % 4 {
		case 0:
			return []step{itStep("Iterator.FlatMap", 1, func(it fp.Iterator[int]) fp.Iterator[int] {
				return it.FlatMap(func(x int) fp.Iterator[int] { e.tick(); return iterator.FromSeq(ex(x)) })
			}, m, sl)}
		case 1:
			return []step{itStep("iterator.FlatMap", 1, func(it fp.Iterator[int]) fp.Iterator[int] {
				return iterator.FlatMap(it, func(x int) fp.Iterator[int] { e.tick(); return iterator.Of(ex(x)...) })
			}, m, sl)}
		case 2:
			return []step{itStep("iterator.Flatten", 2, func(it fp.Iterator[int]) fp.Iterator[int] {
				return iterator.Flatten(iterator.Map(it, func(x int) fp.Iterator[int] { e.tick(); return iterator.FromSeq(ex(x)) }))
			}, m, sl)}
		}
		return []step{itStep("iterator.Compose", 1, func(it fp.Iterator[int]) fp.Iterator[int] {
			// Compose(f1, f2)(a) = FlatMap(f1(a), f2)
			k := iterator.Compose(func(src fp.Iterator[int]) fp.Iterator[int] { return src }, func(x int) fp.Iterator[int] { e.tick(); return iterator.FromSlice(ex(x)) })
			return k(it)
		}, m, sl)}
	case "take":
		n := sp.A
		return []step{itStep("Iterator.Take", 1, func(it fp.Iterator[int]) fp.Iterator[int] { return it.Take(n) },
			func(up ir.P) ir.P { return ir.Take(up, n) }, func(xs []int) []int { return ir.TakeS(xs, n) })}
	case "drop":
		n := sp.A
		return []step{itStep("Iterator.Drop", 1, func(it fp.Iterator[int]) fp.Iterator[int] { return it.Drop(n) },
			func(up ir.P) ir.P { return ir.Drop(up, n) }, func(xs []int) []int { return ir.DropS(xs, n) })}
	case "takeWhile":
		p := predOf(sp.A, sp.B)
		lp := e.Pd(p)
		m := func(up ir.P) ir.P { return ir.TakeWhile(up, p) }
		sl := func(xs []int) []int { return ir.TakeWhileS(xs, p) }
		if v%2 == 0 {
			return []step{itStep("Iterator.TakeWhile", 1, func(it fp.Iterator[int]) fp.Iterator[int] { return it.TakeWhile(lp) }, m, sl)}
		}
		return []step{itStep("iterator.Span.left", 2, func(it fp.Iterator[int]) fp.Iterator[int] { l, _ := iterator.Span(it, lp); return l }, m, sl)}
	case "dropWhile":
		p := predOf(sp.A, sp.B)
		lp := e.Pd(p)
		m := func(up ir.P) ir.P { return ir.DropWhile(up, p) }
		sl := func(xs []int) []int { return ir.DropWhileS(xs, p) }
		if v%2 == 0 {
			return []step{itStep("Iterator.DropWhile", 1, func(it fp.Iterator[int]) fp.Iterator[int] { return it.DropWhile(lp) }, m, sl)}
		}
		return []step{itStep("iterator.Span.right", 2, func(it fp.Iterator[int]) fp.Iterator[int] { _, r := iterator.Span(it, lp); return r }, m, sl)}
	case "spanBoth":
		p := predOf(sp.A, sp.B)
		lp := e.Pd(p)
		return []step{itStep("iterator.Span.both", 4, func(it fp.Iterator[int]) fp.Iterator[int] { l, r := iterator.Span(it, lp); return l.Concat(r) }, ir.Identity, ident)}
	case "partBoth":
		p := predOf(sp.A, sp.B)
		lp := e.Pd(p)
		return []step{itStep("iterator.Partition.both", 4, func(it fp.Iterator[int]) fp.Iterator[int] { l, r := iterator.Partition(it, lp); return l.Concat(r) },
			func(up ir.P) ir.P { return ir.PartBoth(up, p) }, func(xs []int) []int { return ir.PartBothS(xs, p) })}
	case "prepend":
		xs := sp.Xs
		m := func(up ir.P) ir.P { return ir.Prepend(xs, up) }
		sl := func(in []int) []int { return ir.ConcatS(xs, in) }
		switch {
		case v%3 == 1 && len(xs) == 1:
			return []step{itStep("iterator.Concat", 1, func(it fp.Iterator[int]) fp.Iterator[int] { return iterator.Concat(xs[0], it) }, m, sl)}
		case v%3 == 2 && len(xs) >= 2:
			h := len(xs) / 2
			return []step{itStep("Iterator.Concat(concat,it)", 2, func(it fp.Iterator[int]) fp.Iterator[int] {
				return iterator.FromSeq(append([]int(nil), xs[:h]...)).Concat(iterator.FromSeq(append([]int(nil), xs[h:]...))).Concat(it)
			}, m, sl)}
		}
		return []step{itStep("Iterator.Concat(seq,it)", 1, func(it fp.Iterator[int]) fp.Iterator[int] {
			return iterator.FromSeq(append([]int(nil), xs...)).Concat(it)
		}, m, sl)}
	case "append":
		xs := sp.Xs
		m := func(up ir.P) ir.P { return ir.Append(up, xs) }
		sl := func(in []int) []int { return ir.ConcatS(in, xs) }
		switch {
		case v%3 == 1 && len(xs) == 1:
			return []step{itStep("Iterator.Appended", 1, func(it fp.Iterator[int]) fp.Iterator[int] { return it.Appended(xs[0]) }, m, sl)}
		case v%3 == 2 && len(xs) >= 2:
			h := len(xs) / 2
			return []step{itStep("Iterator.Concat(it,concat)", 2, func(it fp.Iterator[int]) fp.Iterator[int] {
				return it.Concat(iterator.FromSeq(append([]int(nil), xs[:h]...)).Concat(iterator.FromSeq(append([]int(nil), xs[h:]...))))
			}, m, sl)}
		}
		return []step{itStep("Iterator.Concat(it,seq)", 1, func(it fp.Iterator[int]) fp.Iterator[int] {
			return it.Concat(iterator.FromSeq(append([]int(nil), xs...)))
		}, m, sl)}
	case "zipIdx":
		m := func(up ir.P) ir.P { return ir.ZipWith(up, idxOther, mix, true) }
		sl := func(xs []int) []int { return ir.ZipWithS(xs, idxOther, mix) }
		return []step{itStep("iterator.ZipWithIndex", 2, func(it fp.Iterator[int]) fp.Iterator[int] {
			return iterator.Map(iterator.ZipWithIndex(it), func(t fp.Tuple2[int, int]) int { return mix(t.I2, t.I1) })
		}, m, sl)}
	case "zip":
		unb := sp.B == 1
		oth := otherOf(sp.Xs, unb, sp.A)
		mkOther := func() fp.Iterator[int] {
			if unb {
				i := 0
				return iterator.Generate(func() int { i++; return sp.A + i - 1 })
			}
			return iterator.FromSeq(append([]int(nil), sp.Xs...))
		}
		sl := func(xs []int) []int { return ir.ZipWithS(xs, oth, mix) }
		if v%2 == 0 {
			return []step{itStep("iterator.Zip(it,other)", 2, func(it fp.Iterator[int]) fp.Iterator[int] {
				return iterator.Map(iterator.Zip(it, mkOther()), func(t fp.Tuple2[int, int]) int { return mix(t.I1, t.I2) })
			}, func(up ir.P) ir.P { return ir.ZipWith(up, oth, mix, false) }, sl)}
		}
		return []step{itStep("iterator.Zip(other,it)", 2, func(it fp.Iterator[int]) fp.Iterator[int] {
			return iterator.Map(iterator.Zip(mkOther(), it), func(t fp.Tuple2[int, int]) int { return mix(t.I2, t.I1) })
		}, func(up ir.P) ir.P { return ir.ZipWith(up, oth, mix, true) }, sl)}
	case "zip3":
		unb := sp.B == 1
		oth := otherOf(sp.Xs, unb, sp.A)
		both := func(i int) (int, bool) {
			o, ok := oth(i)
			return mix(o, i), ok
		}
		sl := func(xs []int) []int { return ir.ZipWithS(xs, both, mix) }
		return []step{itStep("iterator.Zip3", 2, func(it fp.Iterator[int]) fp.Iterator[int] {
			var o fp.Iterator[int]
			if unb {
				i := 0
				o = iterator.Generate(func() int { i++; return sp.A + i - 1 })
			} else {
				o = iterator.FromSeq(append([]int(nil), sp.Xs...))
			}
			return iterator.Map(iterator.Zip3(it, o, iterator.Range(0, 1<<40)), func(t fp.Tuple3[int, int, int]) int { return mix(t.I1, mix(t.I2, t.I3)) })
		}, func(up ir.P) ir.P { return ir.ZipWith(up, both, mix, false) }, sl)}
	case "scan":
		g := scanOf(sp.A)
		z := sp.B
		lg := e.G(g)
		return []step{itStep("iterator.Scan", 1, func(it fp.Iterator[int]) fp.Iterator[int] { return iterator.Scan(it, z, lg) },
			func(up ir.P) ir.P { return ir.Scan(up, z, g) }, func(xs []int) []int { return ir.ScanS(xs, z, g) })}
	case "tap":
		return []step{itStep("Iterator.TapEach", 1, func(it fp.Iterator[int]) fp.Iterator[int] { return it.TapEach(func(int) { e.tick() }) }, ir.Identity, ident)}
	case "reverse":
		st := itStep("iterator.ReverseSeq", 2, func(it fp.Iterator[int]) fp.Iterator[int] {
			if v%2 == 0 {
				return iterator.ReverseSeq(it.ToSeq())
			}
			return iterator.ReverseSlice(it.ToSeq())
		}, func(up ir.P) ir.P { return ir.Barrier(up, ir.ReverseS) }, ir.ReverseS)
		st.barrier = true
		return []step{st}
	case "sort":
		desc := sp.A%2 == 1
		less := intLess
		if desc {
			less = intGreater
		}
		tr := func(xs []int) []int { return ir.SortS(xs, less) }
		st := itStep("iterator.Sort", 2, func(it fp.Iterator[int]) fp.Iterator[int] { return iterator.FromSeq(iterator.Sort(it, ordOf(desc))) },
			func(up ir.P) ir.P { return ir.Barrier(up, tr) }, tr)
		st.barrier = true
		return []step{st}
	case "pull":
		st := itStep("iterator.Pull", 2, func(it fp.Iterator[int]) fp.Iterator[int] { return iterator.Pull(it.All()) }, ir.Identity, ident)
		st.prefetch = true
		return []step{st}
	case "hop":
		to := wList
		if sp.A%2 == 1 {
			to = wSeq
		}
		return []step{hop(wIter, to, v)}
	}
	panic(fmt.Sprintf("harness: unknown op %q", sp.Op))
}

func listOf(xs []int) fp.List[int] { return list.Of(append([]int(nil), xs...)...) }

func planList(sp stageSpec, v int, e *env) []step {
	switch sp.Op {
	case "map":
		f := fnOf(sp.A)
		lf := e.F(f)
		m := func(up ir.P) ir.P { return ir.Map(up, f) }
		sl := func(xs []int) []int { return ir.MapS(xs, f) }
		if v%2 == 0 {
			return []step{liStep("list.Map", 1, false, func(l fp.List[int]) fp.List[int] { return list.Map(l, lf) }, m, sl)}
		}
		return []step{liStep("list.Lift", 1, false, func(l fp.List[int]) fp.List[int] { return list.Lift(lf)(l) }, m, sl)}
	case "filter":
		if v%2 == 1 {
			return nil // via Iterator.Filter
		}
		p := predOf(sp.A, sp.B)
		lo := func(x int) fp.Option[int] {
			e.tick()
			if p(x) {
				return fp.Some(x)
			}
			return fp.None[int]()
		}
		return []step{liStep("list.FilterMap", 2, true, func(l fp.List[int]) fp.List[int] { return list.FilterMap(l, lo) },
			func(up ir.P) ir.P { return ir.Filter(up, p) }, func(xs []int) []int { return ir.FilterS(xs, p) })}
	case "filterMap":
		o := optOf(sp.A)
		lo := optWrap(func(x int) (int, bool) { e.tick(); return o(x) })
		return []step{liStep("list.FilterMap", 2, true, func(l fp.List[int]) fp.List[int] { return list.FilterMap(l, lo) },
			func(up ir.P) ir.P { return ir.FilterMap(up, o) }, func(xs []int) []int { return ir.FilterMapS(xs, o) })}
	case "flatMap":
		ex := expOf(sp.A)
		m := func(up ir.P) ir.P { return ir.FlatMap(up, ex) }
		sl := func(xs []int) []int { return ir.FlatMapS(xs, ex) }
		switch v % 3 {
		case 0:
			return []step{liStep("list.FlatMap", 2, true, func(l fp.List[int]) fp.List[int] {
				return list.FlatMap(l, func(x int) fp.List[int] { e.tick(); return listOf(ex(x)) })
			}, m, sl)}
		case 1:
			return []step{liStep("list.Flatten", 3, true, func(l fp.List[int]) fp.List[int] {
				return list.Flatten(list.Map(l, func(x int) fp.List[int] { e.tick(); return listOf(ex(x)) }))
			}, m, sl)}
		}
		return []step{liStep("list.Compose", 2, true, func(l fp.List[int]) fp.List[int] {
			k := list.Compose(func(src fp.List[int]) fp.List[int] { return src }, func(x int) fp.List[int] { e.tick(); return listOf(ex(x)) })
			return k(l)
		}, m, sl)}
	case "prepend":
		xs := sp.Xs
		m := func(up ir.P) ir.P { return ir.Prepend(xs, up) }
		sl := func(in []int) []int { return ir.ConcatS(xs, in) }
		if v%2 == 1 && len(xs) == 1 {
			if v%4 == 1 {
				return []step{liStep("list.Concat", 1, false, func(l fp.List[int]) fp.List[int] { return list.Concat(xs[0], l) }, m, sl)}
			}
			return []step{liStep("list.Apply", 1, false, func(l fp.List[int]) fp.List[int] { return list.Apply(xs[0], l) }, m, sl)}
		}
		return []step{liStep("list.Combine(seq,list)", 1, false, func(l fp.List[int]) fp.List[int] { return list.Combine(listOf(xs), l) }, m, sl)}
	case "append":
		xs := sp.Xs
		return []step{liStep("list.Combine(list,seq)", 1, true, func(l fp.List[int]) fp.List[int] { return list.Combine(l, listOf(xs)) },
			func(up ir.P) ir.P { return ir.Append(up, xs) }, func(in []int) []int { return ir.ConcatS(in, xs) })}
	case "zipIdx":
		return []step{liStep("list.ZipWithIndex", 2, false, func(l fp.List[int]) fp.List[int] {
			return list.Map(list.ZipWithIndex(l), func(t fp.Tuple2[int, int]) int { return mix(t.I2, t.I1) })
		}, func(up ir.P) ir.P { return ir.ZipWith(up, idxOther, mix, true) }, func(xs []int) []int { return ir.ZipWithS(xs, idxOther, mix) })}
	case "zip", "zip3":
		unb := sp.B == 1
		oth := otherOf(sp.Xs, unb, sp.A)
		mkOther := func() fp.List[int] {
			if !unb {
				return listOf(sp.Xs)
			}
			switch v % 3 {
			case 0:
				return list.Generate(func(i int) fp.Option[int] { return fp.Some(sp.A + i) })
			case 1:
				return list.Recurrence1(sp.A, func(x int) int { return x + 1 })
			}
			return list.GenerateFrom(sp.A, func(i int) fp.Option[int] { return fp.Some(i) })
		}
		if sp.Op == "zip3" {
			both := func(i int) (int, bool) {
				o, ok := oth(i)
				return mix(o, i), ok
			}
			return []step{liStep("list.Zip3", 2, false, func(l fp.List[int]) fp.List[int] {
				return list.Map(list.Zip3(l, mkOther(), list.Range(0, 1<<40)), func(t fp.Tuple3[int, int, int]) int { return mix(t.I1, mix(t.I2, t.I3)) })
			}, func(up ir.P) ir.P { return ir.ZipWith(up, both, mix, false) }, func(xs []int) []int { return ir.ZipWithS(xs, both, mix) })}
		}
		sl := func(xs []int) []int { return ir.ZipWithS(xs, oth, mix) }
		if v%2 == 0 {
			return []step{liStep("list.Zip(list,other)", 2, false, func(l fp.List[int]) fp.List[int] {
				return list.Map(list.Zip(l, mkOther()), func(t fp.Tuple2[int, int]) int { return mix(t.I1, t.I2) })
			}, func(up ir.P) ir.P { return ir.ZipWith(up, oth, mix, false) }, sl)}
		}
		return []step{liStep("list.Zip(other,list)", 2, false, func(l fp.List[int]) fp.List[int] {
			return list.Map(list.Zip(mkOther(), l), func(t fp.Tuple2[int, int]) int { return mix(t.I2, t.I1) })
		}, func(up ir.P) ir.P { return ir.ZipWith(up, oth, mix, true) }, sl)}
	case "scan":
		g := scanOf(sp.A)
		z := sp.B
		lg := e.G(g)
		return []step{liStep("list.Scan", 1, false, func(l fp.List[int]) fp.List[int] { return list.Scan(l, z, lg) },
			func(up ir.P) ir.P { return ir.Scan(up, z, g) }, func(xs []int) []int { return ir.ScanS(xs, z, g) })}
	case "reverse":
		st := liStep("list.ReverseSeq", 2, false, func(l fp.List[int]) fp.List[int] {
			if v%2 == 0 {
				return list.ReverseSeq(l.ToSeq())
			}
			return list.ReverseSlice(l.ToSeq())
		}, func(up ir.P) ir.P { return ir.Barrier(up, ir.ReverseS) }, ir.ReverseS)
		st.barrier = true
		return []step{st}
	case "sort":
		desc := sp.A%2 == 1
		less := intLess
		if desc {
			less = intGreater
		}
		tr := func(xs []int) []int { return ir.SortS(xs, less) }
		st := liStep("list.Sort", 2, false, func(l fp.List[int]) fp.List[int] { return list.FromSeq(list.Sort(l, ordOf(desc))) },
			func(up ir.P) ir.P { return ir.Barrier(up, tr) }, tr)
		st.barrier = true
		return []step{st}
	case "hop":
		to := wIter
		if sp.A%2 == 1 {
			to = wSeq
		}
		return []step{hop(wList, to, v)}
	case "selfZip":
		j := 1 + abs(sp.A)%3
		f := func(w []int) int { return mix(w[len(w)-1], w[0]) }
		m := func(up ir.P) ir.P { return ir.Window(up, j, f) }
		sl := func(xs []int) []int { return ir.WindowS(xs, j, f) }
		if v%2 == 0 {
			return []step{liStep("list.Zip(l.Tail,l)", 2, false, func(l fp.List[int]) fp.List[int] {
				return list.Map(list.Zip(tailN(l, j), l), func(t fp.Tuple2[int, int]) int { return mix(t.I1, t.I2) })
			}, m, sl)}
		}
		return []step{liStep("list.Zip(l,l.Tail)", 2, false, func(l fp.List[int]) fp.List[int] {
			return list.Map(list.Zip(l, tailN(l, j)), func(t fp.Tuple2[int, int]) int { return mix(t.I2, t.I1) })
		}, m, sl)}
	case "selfZip3":
		f := func(w []int) int { return mix(w[0], mix(w[1], w[2])) }
		m := func(up ir.P) ir.P { return ir.Window(up, 2, f) }
		sl := func(xs []int) []int { return ir.WindowS(xs, 2, f) }
		if v%2 == 0 {
			return []step{liStep("list.Zip3(l,l.Tail,l.Tail.Tail)", 2, false, func(l fp.List[int]) fp.List[int] {
				return list.Map(list.Zip3(l, l.Tail(), l.Tail().Tail()), func(t fp.Tuple3[int, int, int]) int { return mix(t.I1, mix(t.I2, t.I3)) })
			}, m, sl)}
		}
		return []step{liStep("list.Zip3(l.Tail.Tail,l,l.Tail)", 2, false, func(l fp.List[int]) fp.List[int] {
			return list.Map(list.Zip3(tailN(l, 2), l, tailN(l, 1)), func(t fp.Tuple3[int, int, int]) int { return mix(t.I2, mix(t.I3, t.I1)) })
		}, m, sl)}
	case "selfCombine":
		j := abs(sp.A) % 3
		return []step{liStep("list.Combine(l,l.Tail)", 1, true, func(l fp.List[int]) fp.List[int] { return list.Combine(l, tailN(l, j)) },
			func(up ir.P) ir.P { return ir.SelfConcat(up, j) }, func(xs []int) []int { return ir.SelfConcatS(xs, j) })}
	}
	return nil
}

func planSeq(sp stageSpec, v int, e *env) []step {
	switch sp.Op {
	case "map", "tap":
		f := fnOf(sp.A)
		if sp.Op == "tap" {
			f = func(x int) int { return x }
		}
		lf := e.F(f)
		m := func(up ir.P) ir.P { return ir.Map(up, f) }
		sl := func(xs []int) []int { return ir.MapS(xs, f) }
		switch v % 3 {
		case 0:
			return []step{sqStep("Seq.Map", func(s fp.Seq[int]) fp.Seq[int] { return s.Map(lf) }, m, sl)}
		case 1:
			return []step{sqStep("seq.Map", func(s fp.Seq[int]) fp.Seq[int] { return seq.Map(s, lf) }, m, sl)}
		}
		return []step{sqStep("seq.Lift", func(s fp.Seq[int]) fp.Seq[int] { return seq.Lift(lf)(s) }, m, sl)}
	case "filter":
		p := predOf(sp.A, sp.B)
		lp := e.Pd(p)
		np := func(x int) bool { return !lp(x) }
		m := func(up ir.P) ir.P { return ir.Filter(up, p) }
		sl := func(xs []int) []int { return ir.FilterS(xs, p) }
		switch v % 4 {
		case 0:
			return []step{sqStep("Seq.Filter", func(s fp.Seq[int]) fp.Seq[int] { return s.Filter(lp) }, m, sl)}
		case 1:
			return []step{sqStep("Seq.FilterNot", func(s fp.Seq[int]) fp.Seq[int] { return s.FilterNot(np) }, m, sl)}
		case 2:
			return []step{sqStep("seq.Partition.left", func(s fp.Seq[int]) fp.Seq[int] { l, _ := seq.Partition(s, lp); return l }, m, sl)}
		}
		return []step{sqStep("seq.Partition.right", func(s fp.Seq[int]) fp.Seq[int] { _, r := seq.Partition(s, np); return r }, m, sl)}
	case "filterMap":
		o := optOf(sp.A)
		lo := optWrap(func(x int) (int, bool) { e.tick(); return o(x) })
		return []step{sqStep("seq.FilterMap", func(s fp.Seq[int]) fp.Seq[int] { return seq.FilterMap(s, lo) },
			func(up ir.P) ir.P { return ir.FilterMap(up, o) }, func(xs []int) []int { return ir.FilterMapS(xs, o) })}
	case "flatMap":
		ex := expOf(sp.A)
		m := func(up ir.P) ir.P { return ir.FlatMap(up, ex) }
		sl := func(xs []int) []int { return ir.FlatMapS(xs, ex) }
		switch v % 3 {
		case 0:
			return []step{sqStep("Seq.FlatMap", func(s fp.Seq[int]) fp.Seq[int] {
				return s.FlatMap(func(x int) fp.Seq[int] { e.tick(); return ex(x) })
			}, m, sl)}
		case 1:
			return []step{sqStep("seq.FlatMap", func(s fp.Seq[int]) fp.Seq[int] {
				return seq.FlatMap(s, func(x int) fp.Seq[int] { e.tick(); return ex(x) })
			}, m, sl)}
		}
		return []step{sqStep("seq.Flatten", func(s fp.Seq[int]) fp.Seq[int] {
			return seq.Flatten(seq.Map(s, func(x int) fp.Seq[int] { e.tick(); return ex(x) }))
		}, m, sl)}
	case "take":
		n := sp.A
		return []step{sqStep("Seq.Take", func(s fp.Seq[int]) fp.Seq[int] { return s.Take(n) },
			func(up ir.P) ir.P { return ir.Take(up, n) }, func(xs []int) []int { return ir.TakeS(xs, n) })}
	case "drop":
		n := sp.A
		return []step{sqStep("Seq.Drop", func(s fp.Seq[int]) fp.Seq[int] { return s.Drop(n) },
			func(up ir.P) ir.P { return ir.Drop(up, n) }, func(xs []int) []int { return ir.DropS(xs, n) })}
	case "takeWhile":
		p := predOf(sp.A, sp.B)
		lp := e.Pd(p)
		return []step{sqStep("seq.Span.left", func(s fp.Seq[int]) fp.Seq[int] { l, _ := seq.Span(s, lp); return l },
			func(up ir.P) ir.P { return ir.TakeWhile(up, p) }, func(xs []int) []int { return ir.TakeWhileS(xs, p) })}
	case "dropWhile":
		p := predOf(sp.A, sp.B)
		lp := e.Pd(p)
		return []step{sqStep("seq.Span.right", func(s fp.Seq[int]) fp.Seq[int] { _, r := seq.Span(s, lp); return r },
			func(up ir.P) ir.P { return ir.DropWhile(up, p) }, func(xs []int) []int { return ir.DropWhileS(xs, p) })}
	case "spanBoth":
		p := predOf(sp.A, sp.B)
		lp := e.Pd(p)
		return []step{sqStep("seq.Span.both", func(s fp.Seq[int]) fp.Seq[int] { l, r := seq.Span(s, lp); return l.Concat(r) }, ir.Identity, ident)}
	case "partBoth":
		p := predOf(sp.A, sp.B)
		lp := e.Pd(p)
		return []step{sqStep("seq.Partition.both", func(s fp.Seq[int]) fp.Seq[int] { l, r := seq.Partition(s, lp); return l.Concat(r) },
			func(up ir.P) ir.P { return ir.PartBoth(up, p) }, func(xs []int) []int { return ir.PartBothS(xs, p) })}
	case "prepend":
		xs := sp.Xs
		m := func(up ir.P) ir.P { return ir.Prepend(xs, up) }
		sl := func(in []int) []int { return ir.ConcatS(xs, in) }
		if v%2 == 1 && len(xs) == 1 {
			return []step{sqStep("seq.Concat", func(s fp.Seq[int]) fp.Seq[int] { return seq.Concat(xs[0], s) }, m, sl)}
		}
		return []step{sqStep("Seq.Concat(seq,s)", func(s fp.Seq[int]) fp.Seq[int] { return fp.Seq[int](append([]int(nil), xs...)).Concat(s) }, m, sl)}
	case "append":
		xs := sp.Xs
		m := func(up ir.P) ir.P { return ir.Append(up, xs) }
		sl := func(in []int) []int { return ir.ConcatS(in, xs) }
		switch {
		case v%3 == 1:
			return []step{sqStep("Seq.Append", func(s fp.Seq[int]) fp.Seq[int] { return s.Append(xs...) }, m, sl)}
		case v%3 == 2 && len(xs) == 1:
			return []step{sqStep("Seq.Add", func(s fp.Seq[int]) fp.Seq[int] { return s.Add(xs[0]) }, m, sl)}
		}
		return []step{sqStep("Seq.Concat(s,seq)", func(s fp.Seq[int]) fp.Seq[int] { return s.Concat(append([]int(nil), xs...)) }, m, sl)}
	case "zipIdx":
		return []step{sqStep("seq.ZipWithIndex", func(s fp.Seq[int]) fp.Seq[int] {
			return seq.Map(seq.ZipWithIndex(s), func(t fp.Tuple2[int, int]) int { return mix(t.I2, t.I1) })
		}, func(up ir.P) ir.P { return ir.ZipWith(up, idxOther, mix, true) }, func(xs []int) []int { return ir.ZipWithS(xs, idxOther, mix) })}
	case "zip":
		unb := sp.B == 1
		oth := otherOf(sp.Xs, unb, sp.A)
		return []step{sqStep("seq.Zip", func(s fp.Seq[int]) fp.Seq[int] {
			o := fp.Seq[int](append([]int(nil), sp.Xs...))
			if unb {
				o = make(fp.Seq[int], len(s)+3)
				for i := range o {
					o[i] = sp.A + i
				}
			}
			if v%2 == 0 {
				return seq.Map(seq.Zip(s, o), func(t fp.Tuple2[int, int]) int { return mix(t.I1, t.I2) })
			}
			return seq.Map(seq.Zip(o, s), func(t fp.Tuple2[int, int]) int { return mix(t.I2, t.I1) })
		}, func(up ir.P) ir.P { return ir.ZipWith(up, oth, mix, false) }, func(xs []int) []int { return ir.ZipWithS(xs, oth, mix) })}
	case "scan":
		g := scanOf(sp.A)
		z := sp.B
		lg := e.G(g)
		return []step{sqStep("seq.Scan", func(s fp.Seq[int]) fp.Seq[int] { return seq.Scan(s, z, lg) },
			func(up ir.P) ir.P { return ir.Scan(up, z, g) }, func(xs []int) []int { return ir.ScanS(xs, z, g) })}
	case "reverse":
		st := sqStep("Seq.Reverse", func(s fp.Seq[int]) fp.Seq[int] { return s.Reverse() }, func(up ir.P) ir.P { return ir.Barrier(up, ir.ReverseS) }, ir.ReverseS)
		st.barrier = true
		return []step{st}
	case "sort":
		desc := sp.A%2 == 1
		less := intLess
		if desc {
			less = intGreater
		}
		tr := func(xs []int) []int { return ir.SortS(xs, less) }
		st := sqStep("seq.Sort", func(s fp.Seq[int]) fp.Seq[int] { return seq.Sort(s, ordOf(desc)) }, func(up ir.P) ir.P { return ir.Barrier(up, tr) }, tr)
		st.barrier = true
		return []step{st}
	case "hop":
		to := wIter
		if sp.A%2 == 1 {
			to = wList
		}
		return []step{hop(wSeq, to, v)}
	}
	return nil
}

// planAll realises the whole pipeline from the source's world on.
func planAll(sp *caseSpec, e *env) []step {
	world := srcWorld(sp.Src)
	var out []step
	for _, st := range sp.Stages {
		ss := plan(st, world, e)
		out = append(out, ss...)
		world = ss[len(ss)-1].to
	}
	return out
}

var _ = as.Tuple[int, int]
