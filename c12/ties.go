package main

import (
	"fmt"
	"math/rand/v2"
	"sort"
	"strings"

	"verif/vrt"

	"github.com/csgura/fp"
	"github.com/csgura/fp/as"
	"github.com/csgura/fp/hash"
	"github.com/csgura/fp/iterator"
	"github.com/csgura/fp/lazy"
	"github.com/csgura/fp/list"
	"github.com/csgura/fp/ord"
	"github.com/csgura/fp/seq"
)

// Ties and identity. The pipelines of this check run on ints, where two Ord-equal elements are
// the same value and "which of them was returned" cannot be seen. The cases of this file use
// records ordered / hashed / tested by Key only, with a payload (ID = position in the input)
// that the Ord, the Hashable and the predicates ignore, and many duplicate keys. Every
// operation whose result is an element or a selection of elements is run in its three
// spellings (fp.Seq / seq.*, fp.Iterator / iterator.*, fp.List / list.*) on the same elements:
//   - each result is checked against the plain-Go reference where the operation's meaning
//     fixes it (order preserving selections, first match, last-wins maps, left folds), or for
//     being one of the correct answers where it does not (which of several tied minima);
//   - where several answers are correct, the property ties Iterator and List to "the
//     corresponding eager Seq computation": the element returned by the seq spelling is the
//     reference for which tied element the iterator and list spellings must return.
// Sort is compared as a sorted permutation only (stability is not demanded).

type rec struct{ Key, ID int }

func (r rec) String() string { return fmt.Sprintf("{k%d #%d}", r.Key, r.ID) }

type tieSpec struct {
	Keys  []int `json:"keys"` // element i is rec{Key: keys[i], ID: i}
	SqV   int   `json:"seq_constructor"`
	ItV   int   `json:"iterator_constructor"`
	LiV   int   `json:"list_constructor"`
	OrdV  int   `json:"ord_variant"`
	Desc  bool  `json:"descending,omitempty"`
	PredV int   `json:"predicate"`
	T     int   `json:"threshold"`
}

func (sp *tieSpec) elems() []rec {
	xs := make([]rec, len(sp.Keys))
	for i, k := range sp.Keys {
		xs[i] = rec{k, i}
	}
	return xs
}

func recKey(r rec) int { return r.Key }

var tieSeqNames = []string{"fp.Seq", "seq.Of", "seq.Map", "Iterator.ToSeq", "seq.Collect", "List.ToSeq"}
var tieIterNames = []string{"iterator.FromSeq", "iterator.Of", "fp.MakeIterator", "iterator.FromList", "seq.Iterator", "iterator.Map(Range)",
	"Iterator.Filter", "Iterator.Concat", "iterator.ReverseSeq", "iterator.FromSlice", "Iterator.TakeWhile", "iterator.Pull"}
var tieListNames = []string{"list.Of", "list.FromSeq", "list.Generate", "list.Collect", "iterator.ToList", "list.Apply", "list.Map(Range)",
	"list.Combine", "list.FlatMap", "list.ReverseSeq", "list.ZipWithIndex", "list.FilterMap"}

func cp(xs []rec) []rec { return append([]rec(nil), xs...) }

func revRec(xs []rec) []rec {
	out := make([]rec, len(xs))
	for i, x := range xs {
		out[len(xs)-1-i] = x
	}
	return out
}

func tieSeq(v int, xs []rec) fp.Seq[rec] {
	switch v % len(tieSeqNames) {
	case 0:
		return fp.Seq[rec](cp(xs))
	case 1:
		return seq.Of(cp(xs)...)
	case 2:
		idx := make(fp.Seq[int], len(xs))
		for i := range idx {
			idx[i] = i
		}
		return seq.Map(idx, func(i int) rec { return xs[i] })
	case 3:
		return iterator.FromSeq(cp(xs)).ToSeq()
	case 4:
		return seq.Collect(iterator.Of(cp(xs)...))
	}
	return list.Of(cp(xs)...).ToSeq()
}

func tieIter(v int, xs []rec) fp.Iterator[rec] {
	n := len(xs)
	switch v % len(tieIterNames) {
	case 0:
		return iterator.FromSeq(cp(xs))
	case 1:
		return iterator.Of(cp(xs)...)
	case 2:
		i := 0
		return fp.MakeIterator(func() bool { return i < n }, func() rec {
			if i >= n {
				panic("next on empty iterator")
			}
			i++
			return xs[i-1]
		})
	case 3:
		return iterator.FromList(list.Of(cp(xs)...))
	case 4:
		return seq.Iterator(cp(xs))
	case 5:
		return iterator.Map(iterator.Range(0, n), func(i int) rec { return xs[i] })
	case 6:
		return iterator.FromSeq(cp(xs)).Filter(func(rec) bool { return true })
	case 7:
		h := n / 2
		return iterator.FromSeq(cp(xs[:h])).Concat(iterator.FromSeq(cp(xs[h:])))
	case 8:
		return iterator.ReverseSeq(revRec(xs))
	case 9:
		return iterator.FromSlice(cp(xs))
	case 10:
		return iterator.FromSeq(cp(xs)).TakeWhile(func(rec) bool { return true })
	}
	return iterator.Pull(iterator.FromSeq(cp(xs)).All())
}

func tieList(v int, xs []rec) fp.List[rec] {
	n := len(xs)
	switch v % len(tieListNames) {
	case 0:
		return list.Of(cp(xs)...)
	case 1:
		return list.FromSeq(cp(xs))
	case 2:
		return list.Generate(func(i int) fp.Option[rec] {
			if i < n {
				return fp.Some(xs[i])
			}
			return fp.None[rec]()
		})
	case 3:
		return list.Collect(iterator.FromSeq(cp(xs)))
	case 4:
		return iterator.ToList(iterator.FromSeq(cp(xs)))
	case 5:
		l := list.Empty[rec]()
		for i := n - 1; i >= 0; i-- {
			l = list.Apply(xs[i], l)
		}
		return l
	case 6:
		return list.Map(list.Range(0, n), func(i int) rec { return xs[i] })
	case 7:
		h := n / 2
		return list.Combine(list.Of(cp(xs[:h])...), list.FromSeq(cp(xs[h:])))
	case 8:
		return list.FlatMap(list.Of(cp(xs)...), func(x rec) fp.List[rec] { return list.Of(x) })
	case 9:
		return list.ReverseSeq(revRec(xs))
	case 10:
		keys := make([]int, n)
		for i, x := range xs {
			keys[i] = x.Key
		}
		return list.Map(list.ZipWithIndex(list.Of(keys...)), func(t fp.Tuple2[int, int]) rec { return rec{t.I2, t.I1} })
	}
	return list.FilterMap(list.Of(cp(xs)...), func(x rec) fp.Option[rec] { return fp.Some(x) })
}

var tieOrdNames = []string{"fp.CompareFunc", "fp.LessFunc", "ord.ContraMap", "ord.GivenField", "ord.FromCompare"}

// tieOrd orders records by Key only (ascending or descending); the ID is ignored.
func tieOrd(v int, desc bool) fp.Ord[rec] {
	k := func(r rec) int {
		if desc {
			return -r.Key
		}
		return r.Key
	}
	switch v % len(tieOrdNames) {
	case 0:
		return fp.CompareFunc[rec](func(a, b rec) int { return k(a) - k(b) })
	case 1:
		return fp.LessFunc[rec](func(a, b rec) bool { return k(a) < k(b) })
	case 2:
		return ord.ContraMap(ord.Given[int](), k)
	case 3:
		return ord.GivenField(k)
	}
	return ord.FromCompare(func(a, b rec) int { return k(a) - k(b) })
}

var tiePredNames = []string{"Key==t", "Key>=t", "Key<t", "Key%2==0"}

func tiePred(v, t int) func(rec) bool {
	switch v % len(tiePredNames) {
	case 0:
		return func(r rec) bool { return r.Key == t }
	case 1:
		return func(r rec) bool { return r.Key >= t }
	case 2:
		return func(r rec) bool { return r.Key < t }
	}
	return func(r rec) bool { return r.Key%2 == 0 }
}

// lawful monoids on Option[rec] that select an element (associative, identity None): the result
// of Reduce / FoldMap is fixed by the monoid whatever the fold direction.
type firstMax struct{} // the FIRST element with the maximal key

func (firstMax) Empty() fp.Option[rec] { return fp.None[rec]() }
func (firstMax) Combine(a, b fp.Option[rec]) fp.Option[rec] {
	if !a.IsDefined() {
		return b
	}
	if !b.IsDefined() {
		return a
	}
	if b.Get().Key > a.Get().Key {
		return b
	}
	return a
}

type lastMin struct{} // the LAST element with the minimal key

func (lastMin) Empty() fp.Option[rec] { return fp.None[rec]() }
func (lastMin) Combine(a, b fp.Option[rec]) fp.Option[rec] {
	if !a.IsDefined() {
		return b
	}
	if !b.IsDefined() {
		return a
	}
	if b.Get().Key <= a.Get().Key {
		return b
	}
	return a
}

func someRec(r rec) fp.Option[rec] { return fp.Some(r) }

func optStr(o fp.Option[rec]) string {
	if o.IsDefined() {
		return "Some(" + o.Get().String() + ")"
	}
	return "None"
}

func recsStr(xs []rec) string {
	var b strings.Builder
	b.WriteString("[")
	for i, x := range xs {
		if i == 40 {
			fmt.Fprintf(&b, " … (%d elements)", len(xs))
			break
		}
		if i > 0 {
			b.WriteString(" ")
		}
		b.WriteString(x.String())
	}
	b.WriteString("]")
	return b.String()
}

func equalRecs(a, b []rec) bool {
	if len(a) != len(b) {
		return false
	}
	for i := range a {
		if a[i] != b[i] {
			return false
		}
	}
	return true
}

type tieFailure struct {
	key    string
	detail string
}

type tieObs struct {
	hits  []string
	notes []string
}

// tieExec runs every selecting operation in its three spellings on the elements of sp.
func tieExec(sp *tieSpec, site func(string)) (o tieObs, f *tieFailure) {
	if site == nil {
		site = func(string) {}
	}
	xs := sp.elems()
	n := len(xs)
	cur := "ties"
	at := func(s string) { cur = s; site(s); o.hits = append(o.hits, s) }
	defer func() {
		if r := recover(); r != nil {
			if be, ok := r.(vrt.BudgetExceeded); ok {
				f = &tieFailure{cur + "/nontermination", "logical budget exceeded at " + cur + ": " + be.What}
				return
			}
			f = &tieFailure{cur + "/panic", fmt.Sprintf("unexpected panic at %s: %v", cur, r)}
		}
	}()
	fail := func(kind, format string, a ...any) *tieFailure {
		return &tieFailure{cur + "/" + kind, fmt.Sprintf(format, a...) + "\ninput " + recsStr(xs)}
	}
	mkIt := func() fp.Iterator[rec] { return tieIter(sp.ItV, xs) }
	sq := tieSeq(sp.SqV, xs)
	li := tieList(sp.LiV, xs)
	o.notes = append(o.notes, "ties.seq_from."+tieSeqNames[sp.SqV%len(tieSeqNames)], "ties.iterator_from."+tieIterNames[sp.ItV%len(tieIterNames)],
		"ties.list_from."+tieListNames[sp.LiV%len(tieListNames)], "ties.ord."+tieOrdNames[sp.OrdV%len(tieOrdNames)])

	// 0. the three spellings hold the same elements
	at("ties.constructor:" + tieSeqNames[sp.SqV%len(tieSeqNames)])
	if !equalRecs(sq, xs) {
		return o, fail("disagrees", "the Seq holds %s", recsStr(sq))
	}
	at("ties.constructor:" + tieIterNames[sp.ItV%len(tieIterNames)])
	if got := mkIt().ToSeq(); !equalRecs(got, xs) {
		return o, fail("disagrees", "the Iterator yields %s", recsStr(got))
	}
	at("ties.constructor:" + tieListNames[sp.LiV%len(tieListNames)])
	if got := li.ToSeq(); !equalRecs(got, xs) {
		return o, fail("disagrees", "the List holds %s", recsStr(got))
	}

	// 1. Min / Max under an Ord that looks at Key only
	od := tieOrd(sp.OrdV, sp.Desc)
	for _, isMin := range []bool{true, false} {
		opn := "Max"
		if isMin {
			opn = "Min"
		}
		// plain reference: the set of correct answers = elements with the extreme key
		var ek int
		for i, x := range xs {
			k := x.Key
			if sp.Desc {
				k = -k
			}
			if i == 0 || (isMin && k < ek) || (!isMin && k > ek) {
				ek = k
			}
		}
		if sp.Desc {
			ek = -ek
		}
		tiedN := 0
		for _, x := range xs {
			if x.Key == ek {
				tiedN++
			}
		}
		if tiedN > 1 {
			o.notes = append(o.notes, "ties."+strings.ToLower(opn)+"_tied")
		}
		valid := func(got fp.Option[rec]) bool {
			if n == 0 {
				return !got.IsDefined()
			}
			return got.IsDefined() && got.Get().Key == ek && got.Get().ID >= 0 && got.Get().ID < n && xs[got.Get().ID] == got.Get()
		}
		var rs, ri, rl fp.Option[rec]
		at("seq." + opn)
		if isMin {
			rs = seq.Min(sq, od)
		} else {
			rs = seq.Max(sq, od)
		}
		if !valid(rs) {
			return o, fail("disagrees", "seq.%s = %s, not an element with the extreme key %d", opn, optStr(rs), ek)
		}
		at("iterator." + opn)
		if isMin {
			ri = iterator.Min(mkIt(), od)
		} else {
			ri = iterator.Max(mkIt(), od)
		}
		if !valid(ri) {
			return o, fail("disagrees", "iterator.%s = %s, not an element with the extreme key %d", opn, optStr(ri), ek)
		}
		if ri != rs {
			return o, fail("tie-choice", "iterator.%s = %s but the eager Seq computation seq.%s (same Ord %s by Key, descending=%v, same elements) = %s; %d elements tie for key %d", opn, optStr(ri), opn, tieOrdNames[sp.OrdV%len(tieOrdNames)], sp.Desc, optStr(rs), tiedN, ek)
		}
		at("list." + opn)
		if isMin {
			rl = list.Min(li, od)
		} else {
			rl = list.Max(li, od)
		}
		if !valid(rl) {
			return o, fail("disagrees", "list.%s = %s, not an element with the extreme key %d", opn, optStr(rl), ek)
		}
		if rl != rs {
			return o, fail("tie-choice", "list.%s = %s but the eager Seq computation seq.%s (same Ord %s by Key, descending=%v, same elements) = %s; %d elements tie for key %d", opn, optStr(rl), opn, tieOrdNames[sp.OrdV%len(tieOrdNames)], sp.Desc, optStr(rs), tiedN, ek)
		}
	}

	// 2. Find: the first element satisfying a predicate on Key
	p := tiePred(sp.PredV, sp.T)
	pb := func(name string) func(rec) bool {
		b := vrt.NewBudget(int64(2*n+4), name+" called its predicate more than 2·len(input)+4 times")
		return func(r rec) bool { b.Tick(); return p(r) }
	}
	first := fp.None[rec]()
	matches := 0
	for _, x := range xs {
		if p(x) {
			if matches == 0 {
				first = fp.Some(x)
			}
			matches++
		}
	}
	if matches > 1 {
		o.notes = append(o.notes, "ties.find_several_matches")
	}
	at("Seq.Find")
	if got := sq.Find(pb("Seq.Find")); got != first {
		return o, fail("disagrees", "Seq.Find(%s, t=%d) = %s, the first match is %s", tiePredNames[sp.PredV%len(tiePredNames)], sp.T, optStr(got), optStr(first))
	}
	at("Iterator.Find")
	if got := mkIt().Find(pb("Iterator.Find")); got != first {
		return o, fail("disagrees", "Iterator.Find(%s, t=%d) = %s, the first match is %s", tiePredNames[sp.PredV%len(tiePredNames)], sp.T, optStr(got), optStr(first))
	}

	// 3. GroupBy: every group in input order
	wantG := map[int][]rec{}
	for _, x := range xs {
		wantG[x.Key] = append(wantG[x.Key], x)
	}
	for _, g := range wantG {
		if len(g) > 1 {
			o.notes = append(o.notes, "ties.group_with_several_elements")
			break
		}
	}
	checkG := func(got map[int]fp.Seq[rec]) *tieFailure {
		if len(got) != len(wantG) {
			return fail("disagrees", "%d groups, reference %d", len(got), len(wantG))
		}
		for k, w := range wantG {
			if !equalRecs(got[k], w) {
				return fail("disagrees", "group of key %d = %s, reference (input order) %s", k, recsStr(got[k]), recsStr(w))
			}
		}
		return nil
	}
	at("seq.GroupBy")
	if gf := checkG(seq.GroupBy(sq, recKey)); gf != nil {
		return o, gf
	}
	at("iterator.GroupBy")
	if gf := checkG(iterator.GroupBy(mkIt(), recKey)); gf != nil {
		return o, gf
	}
	at("list.GroupBy")
	if gf := checkG(list.GroupBy(li, recKey)); gf != nil {
		return o, gf
	}

	// 4. ToSet under a Hashable/Eq that looks at Key only: one representative per key, and the
	//    iterator / list spellings keep the representative the eager Seq computation keeps
	hk := hash.ContraMap(hash.Number[int](), recKey)
	repOf := func(s fp.Set[rec]) (map[int]rec, *tieFailure) {
		m := map[int]rec{}
		it := s.Iterator()
		for it.HasNext() {
			x := it.Next()
			if _, dup := m[x.Key]; dup {
				return nil, fail("disagrees", "the set holds two elements with key %d", x.Key)
			}
			if x.ID < 0 || x.ID >= n || xs[x.ID] != x {
				return nil, fail("disagrees", "the set holds %s, which is not an input element", x)
			}
			m[x.Key] = x
		}
		if len(m) != len(wantG) || s.Size() != len(wantG) {
			return nil, fail("disagrees", "the set has %d elements (Size %d), the input has %d distinct keys", len(m), s.Size(), len(wantG))
		}
		return m, nil
	}
	if len(wantG) < n {
		o.notes = append(o.notes, "ties.set_with_eqv_duplicates")
	}
	at("seq.ToSet")
	repS, sf := repOf(seq.ToSet(sq, hk))
	if sf != nil {
		return o, sf
	}
	for _, c := range []struct {
		name string
		set  func() fp.Set[rec]
	}{{"iterator.ToSet", func() fp.Set[rec] { return iterator.ToSet(mkIt(), hk) }}, {"list.ToSet", func() fp.Set[rec] { return list.ToSet(li, hk) }}} {
		at(c.name)
		rep, sf := repOf(c.set())
		if sf != nil {
			return o, sf
		}
		for k, x := range rep {
			if repS[k] != x {
				return o, fail("tie-choice", "%s keeps %s for key %d, the eager Seq computation seq.ToSet (same Hashable by Key) keeps %s", c.name, x, k, repS[k])
			}
		}
	}
	// ToMap / ToGoMap keyed by Key: the last element of a key wins
	last := map[int]rec{}
	for _, x := range xs {
		last[x.Key] = x
	}
	pair := func(x rec) fp.Tuple2[int, rec] { return as.Tuple(x.Key, x) }
	hn := hash.Number[int]()
	checkM := func(size int, get func(k int) (rec, bool)) *tieFailure {
		if size != len(last) {
			return fail("disagrees", "%d entries, reference %d", size, len(last))
		}
		for k, w := range last {
			if g, ok := get(k); !ok || g != w {
				return fail("disagrees", "value of key %d = %v (present=%v), reference (last element with that key) %s", k, g, ok, w)
			}
		}
		return nil
	}
	fpGet := func(m fp.Map[int, rec]) func(int) (rec, bool) {
		return func(k int) (rec, bool) { v := m.Get(k); return v.OrZero(), v.IsDefined() }
	}
	goGet := func(m map[int]rec) func(int) (rec, bool) {
		return func(k int) (rec, bool) { v, ok := m[k]; return v, ok }
	}
	at("seq.ToMap")
	if m := seq.ToMap(seq.Map(sq, pair), hn); true {
		if mf := checkM(m.Size(), fpGet(m)); mf != nil {
			return o, mf
		}
	}
	at("iterator.ToMap")
	if m := iterator.ToMap(iterator.Map(mkIt(), pair), hn); true {
		if mf := checkM(m.Size(), fpGet(m)); mf != nil {
			return o, mf
		}
	}
	at("list.ToMap")
	if m := list.ToMap(list.Map(li, pair), hn); true {
		if mf := checkM(m.Size(), fpGet(m)); mf != nil {
			return o, mf
		}
	}
	at("seq.ToGoMap")
	if m := seq.ToGoMap(seq.Map(sq, pair)); true {
		if mf := checkM(len(m), goGet(m)); mf != nil {
			return o, mf
		}
	}
	at("iterator.ToGoMap")
	if m := iterator.ToGoMap(iterator.Map(mkIt(), pair)); true {
		if mf := checkM(len(m), goGet(m)); mf != nil {
			return o, mf
		}
	}
	at("list.ToGoMap")
	if m := list.ToGoMap(list.Map(li, pair)); true {
		if mf := checkM(len(m), goGet(m)); mf != nil {
			return o, mf
		}
	}

	// 5. order preserving selections
	var yes, no, pre, post []rec
	inPre := true
	for _, x := range xs {
		if p(x) {
			yes = append(yes, x)
		} else {
			no = append(no, x)
		}
		if inPre && p(x) {
			pre = append(pre, x)
		} else {
			inPre = false
			post = append(post, x)
		}
	}
	sel := func(name string, got, want []rec) *tieFailure {
		if !equalRecs(got, want) {
			return fail("disagrees", "%s(%s, t=%d) = %s, reference %s", name, tiePredNames[sp.PredV%len(tiePredNames)], sp.T, recsStr(got), recsStr(want))
		}
		return nil
	}
	type selCase struct {
		name string
		run  func() ([]rec, []rec)
		a, b []rec
	}
	for _, c := range []selCase{
		{"Seq.Filter", func() ([]rec, []rec) { return sq.Filter(p), sq.FilterNot(p) }, yes, no},
		{"Iterator.Filter", func() ([]rec, []rec) { return mkIt().Filter(p).ToSeq(), mkIt().FilterNot(p).ToSeq() }, yes, no},
		{"list.FilterMap", func() ([]rec, []rec) {
			return list.FilterMap(li, func(x rec) fp.Option[rec] {
				if p(x) {
					return fp.Some(x)
				}
				return fp.None[rec]()
			}).ToSeq(), no
		}, yes, no},
		{"seq.Partition", func() ([]rec, []rec) { return seq.Partition(sq, p) }, yes, no},
		{"iterator.Partition", func() ([]rec, []rec) { l, r := iterator.Partition(mkIt(), p); return l.ToSeq(), r.ToSeq() }, yes, no},
		{"iterator.Partition(right first)", func() ([]rec, []rec) {
			l, r := iterator.Partition(mkIt(), p)
			rs := r.ToSeq()
			return l.ToSeq(), rs
		}, yes, no},
		{"seq.Span", func() ([]rec, []rec) { return seq.Span(sq, p) }, pre, post},
		{"iterator.Span", func() ([]rec, []rec) { l, r := iterator.Span(mkIt(), p); return l.ToSeq(), r.ToSeq() }, pre, post},
		{"Iterator.TakeWhile", func() ([]rec, []rec) { return mkIt().TakeWhile(p).ToSeq(), mkIt().DropWhile(p).ToSeq() }, pre, post},
	} {
		at(c.name)
		ga, gb := c.run()
		if sf := sel(c.name, ga, c.a); sf != nil {
			return o, sf
		}
		if sf := sel(c.name+" (complement)", gb, c.b); sf != nil {
			return o, sf
		}
	}

	// 6. folds see the elements themselves, in order
	ids := func(acc []int, x rec) []int { return append(acc, x.ID*8+x.Key%8) }
	wantIDs := []int{}
	for _, x := range xs {
		wantIDs = ids(wantIDs, x)
	}
	wantRev := []int{}
	for i := n - 1; i >= 0; i-- {
		wantRev = ids(wantRev, xs[i])
	}
	eqI := func(a, b []int) bool {
		if len(a) != len(b) {
			return false
		}
		for i := range a {
			if a[i] != b[i] {
				return false
			}
		}
		return true
	}
	fr := func(x rec, rest lazy.Eval[[]int]) lazy.Eval[[]int] {
		return rest.Map(func(acc []int) []int { return ids(acc, x) })
	}
	// the same right fold by a fold function that looks at its lazy argument twice (in a condition
	// and again in the result): a lazy value has one value, and the fold function is still called
	// once per element
	fr2 := func(name string) func(x rec, rest lazy.Eval[[]int]) lazy.Eval[[]int] {
		b := vrt.NewBudget(int64(n), name+" called its fold function more than len(input) times (the fold function forces its lazy argument twice)")
		return func(x rec, rest lazy.Eval[[]int]) lazy.Eval[[]int] {
			b.Tick()
			if len(rest.Get()) > n {
				return lazy.Done([]int{-1})
			}
			return lazy.Done(ids(rest.Get(), x))
		}
	}
	for _, c := range []struct {
		name string
		run  func() []int
		want []int
	}{
		{"seq.FoldRight(rest forced twice)", func() []int { return seq.FoldRight(sq, []int{}, fr2("seq.FoldRight")).Get() }, wantRev},
		{"iterator.FoldRight(rest forced twice)", func() []int { return iterator.FoldRight(mkIt(), []int{}, fr2("iterator.FoldRight")).Get() }, wantRev},
		{"list.FoldRight(rest forced twice)", func() []int { return list.FoldRight(li, []int{}, fr2("list.FoldRight")).Get() }, wantRev},
		{"seq.Fold", func() []int { return seq.Fold(sq, []int{}, ids) }, wantIDs},
		{"iterator.Fold", func() []int { return iterator.Fold(mkIt(), []int{}, ids) }, wantIDs},
		{"list.Fold", func() []int { return list.Fold(li, []int{}, ids) }, wantIDs},
		{"list.FoldLeft", func() []int { return list.FoldLeft(li, []int{}, ids) }, wantIDs},
		{"seq.FoldRight", func() []int { return seq.FoldRight(sq, []int{}, fr).Get() }, wantRev},
		{"iterator.FoldRight", func() []int { return iterator.FoldRight(mkIt(), []int{}, fr).Get() }, wantRev},
		{"list.FoldRight", func() []int { return list.FoldRight(li, []int{}, fr).Get() }, wantRev},
	} {
		at(c.name)
		if got := c.run(); !eqI(got, c.want) {
			return o, fail("disagrees", "%s visited (ID*8+Key%%8) %v, reference %v", c.name, got, c.want)
		}
	}
	// Reduce / FoldMap with element-selecting monoids
	fm, lm := fp.None[rec](), fp.None[rec]()
	for _, x := range xs {
		fm = firstMax{}.Combine(fm, fp.Some(x))
		lm = lastMin{}.Combine(lm, fp.Some(x))
	}
	for _, c := range []struct {
		name string
		run  func(m fp.Monoid[fp.Option[rec]]) fp.Option[rec]
	}{
		{"seq.Reduce", func(m fp.Monoid[fp.Option[rec]]) fp.Option[rec] { return seq.Reduce(seq.Map(sq, someRec), m) }},
		{"iterator.Reduce", func(m fp.Monoid[fp.Option[rec]]) fp.Option[rec] {
			return iterator.Reduce(iterator.Map(mkIt(), someRec), m)
		}},
		{"list.Reduce", func(m fp.Monoid[fp.Option[rec]]) fp.Option[rec] { return list.Reduce(list.Map(li, someRec), m) }},
		{"seq.FoldMap", func(m fp.Monoid[fp.Option[rec]]) fp.Option[rec] { return seq.FoldMap(sq, m, someRec) }},
		{"list.FoldMap", func(m fp.Monoid[fp.Option[rec]]) fp.Option[rec] { return list.FoldMap(li, m, someRec) }},
	} {
		at(c.name)
		if got := c.run(firstMax{}); got != fm {
			return o, fail("disagrees", "%s with the monoid 'first element of maximal key' = %s, reference %s", c.name, optStr(got), optStr(fm))
		}
		if got := c.run(lastMin{}); got != lm {
			return o, fail("disagrees", "%s with the monoid 'last element of minimal key' = %s, reference %s", c.name, optStr(got), optStr(lm))
		}
	}

	// 7. Sort by Key: a sorted permutation of the input (stability is not demanded)
	for _, c := range []struct {
		name string
		run  func() []rec
	}{
		{"seq.Sort", func() []rec { return seq.Sort(sq, od) }},
		{"iterator.Sort", func() []rec { return iterator.Sort(mkIt(), od) }},
		{"list.Sort", func() []rec { return list.Sort(li, od) }},
	} {
		at(c.name)
		got := c.run()
		if len(got) != n {
			return o, fail("disagrees", "%s returns %d elements of %d", c.name, len(got), n)
		}
		seen := make([]bool, n)
		for i, x := range got {
			if x.ID < 0 || x.ID >= n || xs[x.ID] != x || seen[x.ID] {
				return o, fail("disagrees", "%s = %s is not a permutation of the input", c.name, recsStr(got))
			}
			seen[x.ID] = true
			if i > 0 && od.Less(x, got[i-1]) {
				return o, fail("disagrees", "%s = %s is not sorted by Key (descending=%v)", c.name, recsStr(got), sp.Desc)
			}
		}
	}
	// the inputs are still what they were (the three values were shared by all operations above)
	at("ties.inputs-unchanged")
	if !equalRecs(sq, xs) || !equalRecs(li.ToSeq(), xs) {
		return o, fail("disagrees", "after the operations the Seq holds %s, the List %s", recsStr(sq), recsStr(li.ToSeq()))
	}
	return o, nil
}

func genTieSpec(r *rand.Rand) *tieSpec {
	n := 0
	switch x := r.IntN(100); {
	case x < 4:
		n = 0
	case x < 9:
		n = 1
	case x < 55:
		n = 2 + r.IntN(8)
	default:
		n = 10 + r.IntN(39)
	}
	keys := make([]int, n)
	nk := 1 + r.IntN(4) // number of distinct keys
	switch r.IntN(6) {
	case 0: // one key only
		k := r.IntN(9) - 2
		for i := range keys {
			keys[i] = k
		}
	case 1: // all distinct (no ties)
		for i, p := range r.Perm(n) {
			keys[i] = p - 3
		}
	case 2: // sorted runs
		k := r.IntN(5) - 2
		for i := range keys {
			if r.IntN(3) == 0 {
				k++
			}
			keys[i] = k
		}
	default: // few keys, random
		base := r.IntN(7) - 3
		for i := range keys {
			keys[i] = base + r.IntN(nk)
		}
	}
	sp := &tieSpec{Keys: keys, SqV: r.IntN(len(tieSeqNames)), ItV: r.IntN(len(tieIterNames)), LiV: r.IntN(len(tieListNames)),
		OrdV: r.IntN(len(tieOrdNames)), Desc: r.IntN(2) == 0, PredV: r.IntN(len(tiePredNames))}
	sp.T = r.IntN(9) - 4
	if n > 0 && r.IntN(3) > 0 {
		sp.T = keys[r.IntN(n)]
	}
	return sp
}

func (sp *tieSpec) describe() string {
	return fmt.Sprintf("records %s; seq by %s, iterator by %s, list by %s; Ord %s by Key (descending=%v); predicate %s with t=%d", recsStr(sp.elems()),
		tieSeqNames[sp.SqV%len(tieSeqNames)], tieIterNames[sp.ItV%len(tieIterNames)], tieListNames[sp.LiV%len(tieListNames)], tieOrdNames[sp.OrdV%len(tieOrdNames)], sp.Desc,
		tiePredNames[sp.PredV%len(tiePredNames)], sp.T)
}

// shrinkTie removes elements as long as a failure with the same key remains.
func shrinkTie(sp *tieSpec, f *tieFailure) (*tieSpec, *tieFailure) {
	cur, cf := sp, f
	for changed := true; changed; {
		changed = false
		for i := len(cur.Keys) - 1; i >= 0; i-- {
			cand := *cur
			cand.Keys = append(append([]int{}, cur.Keys[:i]...), cur.Keys[i+1:]...)
			if _, nf := tieExec(&cand, nil); nf != nil && nf.key == cf.key {
				c2 := cand
				cur, cf, changed = &c2, nf, true
			}
		}
	}
	return cur, cf
}

func runTieCase(w *vrt.W, i int) {
	r := w.Rand(i)
	sp := genTieSpec(r)
	w.Begin(i, "ties")
	var o tieObs
	var f *tieFailure
	w.Guard(i, func() any { return sp }, func() {
		o, f = tieExec(sp, w.Site)
		if f != nil {
			msp, mf := shrinkTie(sp, f)
			w.Violation(i, mf.key, mf.detail+"\nminimised case: "+msp.describe()+"\noriginal case:  "+sp.describe(), map[string]any{"minimised": msp, "original": sp})
		}
	})
	w.Done(i)
	if f != nil {
		return
	}
	for _, h := range o.hits {
		w.Hit("ties:" + strings.TrimPrefix(h, "ties."))
	}
	seen := map[string]bool{}
	for _, n := range o.notes {
		if !seen[n] {
			seen[n] = true
			w.Add(n, 1)
		}
	}
	w.Add("ties.cases", 1)
	cnt := map[int]int{}
	dup := false
	for _, k := range sp.Keys {
		cnt[k]++
		if cnt[k] > 1 {
			dup = true
		}
	}
	if dup {
		w.Add("ties.cases_with_duplicate_keys", 1)
		ks := append([]int(nil), sp.Keys...)
		w.Distinct(fmt.Sprintf("ties|%d|%d|%d|%d|%v|%d|%d|%v", sp.SqV, sp.ItV, sp.LiV, sp.OrdV, sp.Desc, sp.PredV, sp.T, ks))
		if w.WantSample() && len(sp.Keys) <= 8 && i%50 == 0 {
			w.Sample(map[string]any{"ties_case": sp.describe()})
		}
	}
}

// tieSites: every library call site the tie cases must have exercised.
func tieSites() []string {
	out := []string{}
	for _, op := range []string{"Min", "Max", "GroupBy", "ToSet", "ToMap", "ToGoMap", "Fold", "FoldRight", "Reduce", "Sort"} {
		for _, p := range []string{"seq", "iterator", "list"} {
			out = append(out, p+"."+op)
		}
	}
	out = append(out, "Seq.Find", "Iterator.Find", "Seq.Filter", "Iterator.Filter", "list.FilterMap", "seq.Partition", "iterator.Partition", "iterator.Partition(right first)",
		"seq.Span", "iterator.Span", "Iterator.TakeWhile", "list.FoldLeft", "seq.FoldMap", "list.FoldMap",
		"seq.FoldRight(rest forced twice)", "iterator.FoldRight(rest forced twice)", "list.FoldRight(rest forced twice)")
	for _, n := range tieSeqNames {
		out = append(out, "constructor:"+n)
	}
	for _, n := range tieIterNames {
		out = append(out, "constructor:"+n)
	}
	for _, n := range tieListNames {
		out = append(out, "constructor:"+n)
	}
	for i := range out {
		out[i] = "ties:" + out[i]
	}
	sort.Strings(out)
	return out
}
