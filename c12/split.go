package main

import (
	"fmt"
	"math/rand/v2"
	"strings"

	ir "verif/refmodel/iterref"

	"github.com/csgura/fp"
	"github.com/csgura/fp/iterator"
	"github.com/csgura/fp/list"
)

// Multi-result combinators under interleaved consumption (terminal kind "split").
//
// iterator.Duplicate, iterator.Span and iterator.Partition return TWO iterators over one shared
// source; whatever one side has read and the other has not is buffered. The pipeline stages
// spanBoth / partBoth and the tie cases read one side completely and then the other one, which
// exercises the buffer in a single shape (it grows to n and is then drained). Here the outputs
// (2..4 of them: an output may be split again) are consumed by a SCHEDULE - pure data, a list
// of (side, next n | blind next n | peek | drain) - in which one side runs ahead of the other
// by 0, 1, 7, 8, 9, 15, 16, 17, 31, 32, 33, 64, 65 source elements after the other side has
// already consumed a few, the lagging side catches up (completely, partly, or overtakes: roles
// swap), and so on, over inputs of up to 400 elements. Each side is read as an Iterator
// (HasNext/Next or NextOption) or through a lazy List built on it (list.Collect /
// iterator.ToList: this is how a List takes part in a multi-result combinator - package list has
// none of its own). Oracle: every side delivers exactly its plain-slice reference sequence, in
// order, whatever the schedule; HasNext/NonEmpty agree with the reference at every point; when
// the source is the instrumented iterator itself, the number of elements pulled from it never
// exceeds what the most advanced side needs with one pre-computed output per stage, and equals
// what the drained sides strictly need at the end (every element pulled exactly once, nothing
// pulled at exhaustion); a List-backed side walked a second time evaluates nothing.

type splitNode struct {
	Op string     `json:"op"` // dup | span | part
	P  int        `json:"p,omitempty"`
	T  int        `json:"t,omitempty"`
	L  *splitNode `json:"left,omitempty"`  // the left output is split again
	R  *splitNode `json:"right,omitempty"` // the right output is split again
}

type schedOp struct {
	Side int    `json:"side"`
	Op   string `json:"op"` // next | blind | peek | drain
	N    int    `json:"n,omitempty"`
}

type splitSpec struct {
	Root *splitNode `json:"tree"`
	Via  []string   `json:"via"`  // per side (leaves left to right): how it is read
	Conv int        `json:"conv"` // how a final List / Seq becomes the iterator that is split
	Kind string     `json:"schedule"`
	Ops  []schedOp  `json:"ops"`
}

var splitVias = []string{"Iterator.Next", "Iterator.NextOption", "list.Collect", "iterator.ToList"}
var schedKinds = []string{"leadLag", "random", "alternate", "burst", "sequential"}
var splitOpName = map[string]string{"dup": "iterator.Duplicate", "span": "iterator.Span", "part": "iterator.Partition"}
var splitLeads = []int{0, 1, 7, 8, 9, 15, 16, 17, 31, 32, 33, 64, 65}

const nSplitPred = 13

// splitPred: the predicates of package env plus sparse / run-shaped ones, under which one output
// of Partition has to scan far ahead of the other one for its next element.
func splitPred(i, t int) func(int) bool {
	switch abs(i) % nSplitPred {
	case 8:
		return func(x int) bool { return abs(x)%12 == 11 }
	case 9:
		return func(x int) bool { return abs(x)%16 != 0 }
	case 10:
		return func(x int) bool { return abs(x)%32 == 5 }
	case 11:
		return func(x int) bool { return (abs(x)/10)%2 == 0 }
	case 12:
		return func(x int) bool { return (abs(x)/33)%2 == 0 }
	}
	return predOf(abs(i)%nSplitPred, t)
}

var splitPredNames = []string{"x%2==0", "x%3!=0", "x<t", "x>=t", "true", "false", "x%8==0", "x%5==1", "|x|%12==11", "|x|%16!=0", "|x|%32==5", "(|x|/10)%2==0", "(|x|/33)%2==0"}

func (n *splitNode) String() string {
	if n == nil {
		return "·"
	}
	s := splitOpName[n.Op]
	if n.Op != "dup" {
		s += fmt.Sprintf("[%s,t=%d]", splitPredNames[abs(n.P)%nSplitPred], n.T)
	}
	if n.L != nil || n.R != nil {
		s += "(" + n.L.String() + ", " + n.R.String() + ")"
	}
	return s
}

func (n *splitNode) leaves() int {
	if n == nil {
		return 1
	}
	return n.L.leaves() + n.R.leaves()
}

func (n *splitNode) depth() int {
	if n == nil {
		return 0
	}
	d := n.L.depth()
	if r := n.R.depth(); r > d {
		d = r
	}
	return d + 1
}

func (n *splitNode) opNames(set map[string]bool) {
	if n == nil {
		return
	}
	set[splitOpName[n.Op]] = true
	n.L.opNames(set)
	n.R.opNames(set)
}

// refSides: the plain-slice reference of every output (leaves left to right).
func (n *splitNode) refSides(xs []int) [][]int {
	if n == nil {
		return [][]int{xs}
	}
	p := splitPred(n.P, n.T)
	var l, r []int
	switch n.Op {
	case "dup":
		l, r = xs, xs
	case "span":
		l, r = ir.TakeWhileS(xs, p), ir.DropWhileS(xs, p)
	default:
		l, r = ir.FilterS(xs, p), ir.FilterS(xs, func(x int) bool { return !p(x) })
	}
	return append(n.L.refSides(l), n.R.refSides(r)...)
}

// sideModels: for every output the chain of pull-model stages from the shared source to it.
func (n *splitNode) sideModels(pre []func(ir.P) ir.P) [][]func(ir.P) ir.P {
	if n == nil {
		return [][]func(ir.P) ir.P{append([]func(ir.P) ir.P(nil), pre...)}
	}
	p := splitPred(n.P, n.T)
	np := func(x int) bool { return !p(x) }
	var l, r func(ir.P) ir.P
	switch n.Op {
	case "dup":
		l, r = ir.Identity, ir.Identity
	case "span":
		l, r = func(up ir.P) ir.P { return ir.TakeWhile(up, p) }, func(up ir.P) ir.P { return ir.DropWhile(up, p) }
	default:
		l, r = func(up ir.P) ir.P { return ir.Filter(up, p) }, func(up ir.P) ir.P { return ir.Filter(up, np) }
	}
	lp := append(append([]func(ir.P) ir.P(nil), pre...), l)
	rp := append(append([]func(ir.P) ir.P(nil), pre...), r)
	return append(n.L.sideModels(lp), n.R.sideModels(rp)...)
}

// needTable[k] = number of source elements the side has to read for its first k outputs
// (k = len+1: to find out that there is no further output). eager: every stage holds one
// pre-computed output once its first one was demanded (the look-ahead Filter / TakeWhile /
// DropWhile legitimately have).
func needTable(xs []int, chain []func(ir.P) ir.P, eager bool) []int {
	var c ir.Counter
	p := ir.FromSlice(xs, &c)
	for _, st := range chain {
		p = st(p)
		if eager {
			p = ir.Eager(p)
		}
	}
	out := []int{0}
	for {
		_, ok := p()
		out = append(out, c.Pulls)
		if !ok {
			return out
		}
	}
}

func tabAt(tab []int, k int) int {
	if k >= len(tab) {
		k = len(tab) - 1
	}
	return tab[k]
}

// build applies the tree to it; the outputs are returned leaves left to right.
func (n *splitNode) build(it fp.Iterator[int], e *env, site func(string)) []fp.Iterator[int] {
	if n == nil {
		return []fp.Iterator[int]{it}
	}
	p := e.Pd(splitPred(n.P, n.T))
	site(splitOpName[n.Op])
	var l, r fp.Iterator[int]
	switch n.Op {
	case "dup":
		l, r = iterator.Duplicate(it)
	case "span":
		l, r = iterator.Span(it, p)
	default:
		l, r = iterator.Partition(it, p)
	}
	return append(n.L.build(l, e, site), n.R.build(r, e, site)...)
}

// sideReader reads one output.
type sideReader struct {
	via  string
	it   fp.Iterator[int]
	root fp.List[int]
	cur  fp.List[int]
}

func newReader(via string, it fp.Iterator[int]) *sideReader {
	r := &sideReader{via: via, it: it}
	switch via {
	case "list.Collect":
		r.root = list.Collect(it)
		r.cur = r.root
	case "iterator.ToList":
		r.root = iterator.ToList(it)
		r.cur = r.root
	}
	return r
}

func (r *sideReader) listy() bool { return r.root != nil }

func (r *sideReader) peek() bool {
	if r.listy() {
		return r.cur.NonEmpty()
	}
	return r.it.HasNext()
}

func (r *sideReader) pull() (int, bool) {
	switch {
	case r.listy():
		if r.cur.IsEmpty() {
			return 0, false
		}
		h := r.cur.Head()
		r.cur = r.cur.Tail()
		return h, true
	case r.via == "Iterator.NextOption":
		o := r.it.NextOption()
		if !o.IsDefined() {
			return 0, false
		}
		return o.Get(), true
	}
	if !r.it.HasNext() {
		return 0, false
	}
	return r.it.Next(), true
}

// blind takes the next element without asking whether there is one.
func (r *sideReader) blind() int {
	if r.listy() {
		h, t := r.cur.Unapply()
		r.cur = t
		return h
	}
	return r.it.Next()
}

type splitStats struct {
	sides          int
	events         int
	maxLead        int // largest distance (in source elements) between the most and the least advanced output
	leadAfterDeq   int // the same, while the lagging output had already read buffered elements since the outputs were last level
	swaps          int // changes of the leading output
	pullChecked    bool
	maxOverNeed    int // max(pulls - strictly needed) observed
	listSides      int
	kinds          []string
	srcLen         int
	nested         bool
	blindNexts     int
	peeks          int
	exhaustedPeeks int
}

func runSplit(site func(string), c cur, sp *caseSpec, exp []int, e *env, o *obs) (string, *failure) {
	ss := sp.Split
	root := ss.Root
	if root == nil {
		return "split", failf("harness", "", "split case without a tree")
	}
	rootName := splitOpName[root.Op]
	m := root.leaves()
	refs := root.refSides(exp)
	chains := root.sideModels(nil)
	need := make([][]int, m)
	allow := make([][]int, m)
	for s := 0; s < m; s++ {
		need[s] = needTable(exp, chains[s], false)
		allow[s] = needTable(exp, chains[s], true)
	}
	// the iterator that is split
	var it fp.Iterator[int]
	switch c.world {
	case wIter:
		it = c.it
	default:
		h := hop(c.world, wIter, abs(ss.Conv))
		site(h.name)
		o.names = append(o.names, h.name)
		it = h.apply(c).it
	}
	pullCheck := sp.Src == "instrumented" && len(sp.Stages) == 0
	st := &splitStats{sides: m, pullChecked: pullCheck, srcLen: len(exp), nested: root.L != nil || root.R != nil}
	o.split = st
	set := map[string]bool{}
	root.opNames(set)
	for k := range set {
		st.kinds = append(st.kinds, k)
	}

	outs := root.build(it, e, site)
	site(rootName + "(interleaved)")
	rd := make([]*sideReader, m)
	del := make([]int, m)     // elements delivered per side
	touched := make([]int, m) // look-ahead the side may hold: 0 untouched, 1 asked, 2 asked through a list
	for s := 0; s < m; s++ {
		via := "Iterator.Next"
		if s < len(ss.Via) {
			via = ss.Via[s]
		}
		rd[s] = newReader(via, outs[s])
		if rd[s].listy() {
			st.listSides++
			touched[s] = 2
		}
	}
	fail := func(idx int, op schedOp, format string, a ...any) *failure {
		return failf("interleaved-disagrees", rootName, "%s, consumed by schedule %s: op #%d %s(side %d, n=%d): %s; after %v elements per side (reference lengths %v), source %s",
			root.String(), ss.Kind, idx, op.Op, op.Side, op.N, fmt.Sprintf(format, a...), del, lensOf(refs), clip(exp))
	}
	pos := func(s int) int { return tabAt(need[s], del[s]) }
	leader, sinceLevel := -1, false
	event := func(s int, consumed bool) *failure {
		st.events++
		// lead statistics, in source elements
		lo, hi, hs, others := 1<<30, -1, -1, -1
		for t := 0; t < m; t++ {
			p := pos(t)
			if p < lo {
				lo = p
			}
			switch {
			case p > hi:
				hi, hs = p, t
			case p == hi:
				hs = -1 // no unique leader
			}
			if t != s && p > others {
				others = p
			}
		}
		if consumed && pos(s) <= others {
			sinceLevel = true // s read an element another output had read before: it came out of the buffer
		}
		if lo == hi {
			sinceLevel = false
		} else if hs >= 0 && hs != leader {
			if leader >= 0 {
				st.swaps++
			}
			leader = hs
		}
		if d := hi - lo; d > st.maxLead {
			st.maxLead = d
		}
		if sinceLevel && hi-lo > st.leadAfterDeq {
			st.leadAfterDeq = hi - lo
		}
		if pullCheck {
			nd, al := 0, 0
			for t := 0; t < m; t++ {
				if v := pos(t); v > nd {
					nd = v
				}
				if touched[t] > 0 {
					if v := tabAt(allow[t], del[t]+touched[t]); v > al {
						al = v
					}
				}
			}
			if e.pulls-nd > st.maxOverNeed {
				st.maxOverNeed = e.pulls - nd
			}
			if e.pulls > al+root.depth() {
				return failf("over-pull", rootName, "%s: after %v elements per side the source was pulled %d times; strictly needed %d, with one pre-computed output per stage %d (+%d)", root.String(), del, e.pulls, nd, al, root.depth())
			}
		}
		return nil
	}
	for idx, op := range ss.Ops {
		s := op.Side
		if s < 0 || s >= m {
			continue
		}
		ref := refs[s]
		if touched[s] == 0 {
			touched[s] = 1
		}
		switch op.Op {
		case "peek":
			st.peeks++
			want := del[s] < len(ref)
			if !want {
				st.exhaustedPeeks++
			}
			if got := rd[s].peek(); got != want {
				return rootName, fail(idx, op, "HasNext/NonEmpty = %v, the reference sequence of this side has %d elements", got, len(ref))
			}
			if f := event(s, false); f != nil {
				return rootName, f
			}
		case "blind":
			for j := 0; j < op.N && del[s] < len(ref); j++ {
				st.blindNexts++
				if got := rd[s].blind(); got != ref[del[s]] {
					return rootName, fail(idx, op, "element #%d of this side = %d, reference %d (reference side %s)", del[s], got, ref[del[s]], clip(ref))
				}
				del[s]++
				if f := event(s, true); f != nil {
					return rootName, f
				}
			}
		case "next", "drain":
			n := op.N
			if op.Op == "drain" {
				n = len(ref) + 2
			}
			for j := 0; j < n; j++ {
				got, ok := rd[s].pull()
				if want := del[s] < len(ref); ok != want {
					return rootName, fail(idx, op, "the side ends=%v after %d elements, its reference sequence has %d (reference side %s)", !ok, del[s], len(ref), clip(ref))
				}
				if !ok {
					if f := event(s, false); f != nil {
						return rootName, f
					}
					break
				}
				if got != ref[del[s]] {
					return rootName, fail(idx, op, "element #%d of this side = %d, reference %d (reference side %s)", del[s], got, ref[del[s]], clip(ref))
				}
				del[s]++
				if f := event(s, true); f != nil {
					return rootName, f
				}
			}
		}
	}
	// every element the sides delivered was pulled (the upper bound was checked after every event)
	if pullCheck {
		lo := 0
		for s := 0; s < m; s++ {
			if v := pos(s); v > lo {
				lo = v
			}
		}
		if e.pulls < lo {
			return rootName, failf("interleaved-disagrees", rootName, "%s: the sides delivered %v elements, which needs %d source elements, but only %d were pulled", root.String(), del, lo, e.pulls)
		}
	}
	// a List-backed side is memoised: walking what was delivered once more evaluates nothing
	for s := 0; s < m; s++ {
		if !rd[s].listy() {
			continue
		}
		site(rd[s].via + "(re-traverse side)")
		pulls0, cb0 := e.pulls, e.cbCalls
		cl := rd[s].root
		for j := 0; j < del[s]; j++ {
			if !cl.NonEmpty() {
				return rootName, failf("interleaved-disagrees", rootName, "%s: second walk of the list on side %d ends after %d cells, the first walk delivered %d", root.String(), s, j, del[s])
			}
			if h := cl.Head(); h != refs[s][j] {
				return rootName, failf("interleaved-disagrees", rootName, "%s: second walk of the list on side %d: cell %d = %d, reference %d", root.String(), s, j, h, refs[s][j])
			}
			cl = cl.Tail()
		}
		if e.pulls != pulls0 || e.cbCalls != cb0 {
			return rootName, failf("re-evaluated-on-second-traversal", rootName, "%s: walking the memoised list on side %d again evaluated again: source pulls %d -> %d, callback calls %d -> %d", root.String(), s, pulls0, e.pulls, cb0, e.cbCalls)
		}
	}
	return rootName, nil
}

func lensOf(xs [][]int) []int {
	out := make([]int, len(xs))
	for i, x := range xs {
		out[i] = len(x)
	}
	return out
}

// ---- generation -----------------------------------------------------------------------

func genSplitLen(r *rand.Rand) int {
	switch x := r.IntN(100); {
	case x < 4:
		return r.IntN(2)
	case x < 10:
		return 2 + r.IntN(7)
	case x < 28:
		return 9 + r.IntN(32)
	case x < 58:
		return 41 + r.IntN(90)
	}
	return 131 + r.IntN(270)
}

func genSplitNode(r *rand.Rand, off, n int, depth int) *splitNode {
	nd := &splitNode{Op: []string{"dup", "dup", "span", "part", "part"}[r.IntN(5)]}
	if nd.Op != "dup" {
		nd.P = r.IntN(nSplitPred)
		nd.T = off + r.IntN(n+4) - 1
		if r.IntN(3) == 0 {
			nd.T = r.IntN(n + 2) // also meaningful for inputs that are not sequential from off
		}
	}
	if depth == 0 && r.IntN(100) < 22 {
		if r.IntN(2) == 0 {
			nd.L = genSplitNode(r, off, n, 1)
		}
		if nd.L == nil || r.IntN(3) == 0 {
			nd.R = genSplitNode(r, off, n, 1)
		}
	}
	return nd
}

// schedGen tracks, while it generates, how many elements each side has delivered, so that "runs
// ahead by d source elements" can be aimed at.
type schedGen struct {
	r    *rand.Rand
	need [][]int
	lens []int
	del  []int
	ops  []schedOp
}

func (g *schedGen) pos(s int) int { return tabAt(g.need[s], g.del[s]) }
func (g *schedGen) done() bool {
	for s := range g.lens {
		if g.del[s] < g.lens[s] {
			return false
		}
	}
	return true
}

func (g *schedGen) next(s, n int) {
	if n <= 0 {
		return
	}
	rem := g.lens[s] - g.del[s]
	op := "next"
	if n <= rem && g.r.IntN(7) == 0 {
		op = "blind"
	}
	g.ops = append(g.ops, schedOp{Side: s, Op: op, N: n})
	if n > rem {
		n = rem
	}
	g.del[s] += n
}

func (g *schedGen) peek(s int) { g.ops = append(g.ops, schedOp{Side: s, Op: "peek"}) }

// ahead: side s reads until it is d source elements ahead of side o (or exhausted).
func (g *schedGen) ahead(s, o, d int) {
	target := g.pos(o) + d
	n := 0
	for g.del[s]+n < g.lens[s] && tabAt(g.need[s], g.del[s]+n) < target {
		n++
	}
	if g.del[s]+n == g.lens[s] && g.r.IntN(4) == 0 {
		n++ // asks once more at the end
	}
	g.next(s, n)
}

func (g *schedGen) drains() {
	for _, s := range g.r.Perm(len(g.lens)) {
		g.ops = append(g.ops, schedOp{Side: s, Op: "drain"})
		g.del[s] = g.lens[s]
	}
}

func (g *schedGen) pair() (int, int) {
	m := len(g.lens)
	a := g.r.IntN(m)
	b := g.r.IntN(m - 1)
	if b >= a {
		b++
	}
	return a, b
}

func (g *schedGen) round(lead, lag int) (int, int) {
	r := g.r
	c := 1 + r.IntN(5)
	d := splitLeads[r.IntN(len(splitLeads))]
	// the leader gets a little ahead, the other side follows: it has consumed "a few"
	g.ahead(lead, lag, c+r.IntN(4))
	if r.IntN(4) == 0 {
		g.peek(lag)
	}
	g.next(lag, c)
	if r.IntN(5) == 0 {
		g.peek(lead)
	}
	// the leader runs ahead by d source elements
	g.ahead(lead, lag, d)
	if r.IntN(4) == 0 {
		g.peek([]int{lead, lag}[r.IntN(2)])
	}
	// the lagging side catches up
	switch r.IntN(5) {
	case 0:
		g.ahead(lag, lead, 0)
	case 1:
		g.next(lag, 1+r.IntN(5))
	case 2, 3:
		g.ahead(lag, lead, 1+r.IntN(9)) // overtakes: the roles swap
		lead, lag = lag, lead
	}
	if len(g.lens) > 2 && r.IntN(3) == 0 {
		lead, lag = g.pair()
	}
	return lead, lag
}

var schedChunks = []int{1, 1, 1, 2, 3, 4, 5, 7, 8, 9, 15, 16, 17, 31, 32, 33, 64, 65}

func genSched(r *rand.Rand, kind string, need [][]int, lens []int) []schedOp {
	m := len(lens)
	g := &schedGen{r: r, need: need, lens: lens, del: make([]int, m)}
	switch kind {
	case "leadLag":
		lead, lag := g.pair()
		for round := 0; round < 60 && !g.done(); round++ {
			lead, lag = g.round(lead, lag)
		}
	case "burst":
		lead, lag := g.pair()
		g.round(lead, lag)
	case "alternate":
		chunk := make([]int, m)
		for s := range chunk {
			chunk[s] = 1 + r.IntN(4)
		}
		for i := 0; i < 400 && !g.done(); i++ {
			for s := 0; s < m; s++ {
				g.next(s, chunk[s])
			}
		}
	case "sequential":
	default: // random
		for i := 0; i < 240 && !g.done(); i++ {
			s := r.IntN(m)
			switch x := r.IntN(100); {
			case x < 16:
				g.peek(s)
			default:
				g.next(s, schedChunks[r.IntN(len(schedChunks))])
			}
		}
	}
	g.drains()
	if r.IntN(3) == 0 { // after exhaustion: still exhausted
		g.peek(r.IntN(m))
		g.next(r.IntN(m), 1)
	}
	return g.ops
}

func fixDomain(sp *caseSpec) {
	switch sp.Src {
	case "iterator.Range", "iterator.RangeClosed", "list.Range", "list.RangeClosed":
		for i := range sp.Vals {
			sp.Vals[i] = sp.Off + i
		}
	case "iterator.FromOption", "iterator.FromPtr", "list.FromOption", "list.FromPtr":
		if len(sp.Vals) > 1 {
			sp.Vals = sp.Vals[:1]
		}
	case "iterator.Empty", "list.Empty":
		sp.Vals = sp.Vals[:0]
	}
}

// finiteSources: sources of the three worlds that can hold any finite input.
var longSources = []string{"instrumented", "iterator.FromSeq", "iterator.Of", "iterator.FromSlice", "iterator.Range", "iterator.FromList", "seq.Iterator",
	"list.Generate", "list.GenerateFrom", "list.Collect(instrumented)", "iterator.ToList(instrumented)", "list.Of", "list.FromSeq", "list.Range", "list.Apply",
	"fp.Seq", "seq.Of"}

// genFinite: a finite source of n elements followed by 0..maxStages stages whose output is at
// most maxLen elements long.
func genFinite(r *rand.Rand, n, maxStages, maxLen int, src string) *caseSpec {
	for try := 0; ; try++ {
		sp := &caseSpec{Mode: "terminal", Src: src}
		if src == "" {
			sp.Src = pick(r, longSources)
		}
		sp.Vals, sp.Off = genVals(r, n)
		fixDomain(sp)
		ns := 0
		if maxStages > 0 && try < 20 {
			ns = r.IntN(maxStages + 1)
		}
		flat := 0
		for len(sp.Stages) < ns {
			op := pick(r, opsFinite)
			if op == "flatMap" {
				if flat == 1 {
					continue
				}
				flat++
			}
			sp.Stages = append(sp.Stages, genStage(r, op, len(sp.Vals), false, sp.Off))
		}
		if len(sliceRef(sp)) <= maxLen {
			return sp
		}
	}
}

func genSplitCase(r *rand.Rand) *caseSpec {
	n := genSplitLen(r)
	var sp *caseSpec
	if r.IntN(100) < 55 {
		sp = genFinite(r, n, 0, 1<<30, "instrumented") // the pull counter sees the split directly
	} else {
		sp = genFinite(r, n, 2, 600, "")
	}
	sp.Term = "split"
	exp := sliceRef(sp)
	ss := &splitSpec{Root: genSplitNode(r, sp.Off, len(exp), 0), Conv: r.IntN(12)}
	m := ss.Root.leaves()
	for s := 0; s < m; s++ {
		switch x := r.IntN(100); {
		case x < 55:
			ss.Via = append(ss.Via, splitVias[0])
		case x < 65:
			ss.Via = append(ss.Via, splitVias[1])
		case x < 83:
			ss.Via = append(ss.Via, splitVias[2])
		default:
			ss.Via = append(ss.Via, splitVias[3])
		}
	}
	switch x := r.IntN(100); {
	case x < 45:
		ss.Kind = "leadLag"
	case x < 70:
		ss.Kind = "random"
	case x < 85:
		ss.Kind = "alternate"
	case x < 95:
		ss.Kind = "burst"
	default:
		ss.Kind = "sequential"
	}
	refs := ss.Root.refSides(exp)
	chains := ss.Root.sideModels(nil)
	need := make([][]int, m)
	for s := range need {
		need[s] = needTable(exp, chains[s], false)
	}
	ss.Ops = genSched(r, ss.Kind, need, lensOf(refs))
	sp.Split = ss
	return sp
}

func (ss *splitSpec) String() string {
	var b strings.Builder
	fmt.Fprintf(&b, "%s read via %v under schedule %s:", ss.Root.String(), ss.Via, ss.Kind)
	for i, o := range ss.Ops {
		if i == 60 {
			fmt.Fprintf(&b, " … (%d ops)", len(ss.Ops))
			break
		}
		switch o.Op {
		case "peek", "drain":
			fmt.Fprintf(&b, " %s(%d)", o.Op, o.Side)
		default:
			fmt.Fprintf(&b, " %s(%d)x%d", o.Op, o.Side, o.N)
		}
	}
	return b.String()
}

// shrinkSplit: single-node trees, plain readers, fewer schedule ops, shorter input.
func shrinkSplit(sp *caseSpec, f *failure) (*caseSpec, *failure) {
	cur, cf := sp, f
	try := func(cand *caseSpec) bool {
		if _, nf := exec(cand, nil); sameFailure(cf, nf) && nf.site == cf.site {
			cur, cf = cand, nf
			return true
		}
		return false
	}
	with := func(mod func(ss *splitSpec)) *caseSpec {
		c2 := *cur
		s2 := *cur.Split
		s2.Via = append([]string(nil), s2.Via...)
		s2.Ops = append([]schedOp(nil), s2.Ops...)
		mod(&s2)
		c2.Split = &s2
		return &c2
	}
	// plain readers
	try(with(func(ss *splitSpec) {
		for i := range ss.Via {
			ss.Via[i] = splitVias[0]
		}
	}))
	// a single node: the root alone (sides of a dropped subtree collapse into one side)
	if root := cur.Split.Root; root.L != nil || root.R != nil {
		nl := root.L.leaves()
		try(with(func(ss *splitSpec) {
			ss.Root = &splitNode{Op: root.Op, P: root.P, T: root.T}
			ss.Via = []string{splitVias[0], splitVias[0]}
			for i := range ss.Ops {
				if ss.Ops[i].Side < nl {
					ss.Ops[i].Side = 0
				} else {
					ss.Ops[i].Side = 1
				}
			}
		}))
	}
	// fewer ops
	for i := len(cur.Split.Ops) - 1; i >= 0 && len(cur.Split.Ops) > 1; i-- {
		if i >= len(cur.Split.Ops) {
			continue
		}
		try(with(func(ss *splitSpec) { ss.Ops = append(ss.Ops[:i:i], ss.Ops[i+1:]...) }))
	}
	// smaller counts
	for i := range cur.Split.Ops {
		for cur.Split.Ops[i].N > 1 {
			if !try(with(func(ss *splitSpec) { ss.Ops[i].N-- })) {
				break
			}
		}
	}
	// shorter input
	for len(cur.Vals) > 0 {
		c2 := *cur
		c2.Vals = append([]int(nil), cur.Vals[:len(cur.Vals)-1]...)
		if !try(&c2) {
			break
		}
	}
	return cur, cf
}
