package main

import (
	"fmt"
	"math"
	"math/rand/v2"
	"reflect"

	"verif/vrt"

	"github.com/csgura/fp"
	"github.com/csgura/fp/iterator"
	"github.com/csgura/fp/list"
	"github.com/csgura/fp/monoid"
	"github.com/csgura/fp/seq"
)

// Numeric arguments at the ends of the int range (family "extremes", last batches).
//
// Every constructor / combinator of the three worlds that takes an integer - iterator.Range /
// RangeClosed, list.Range / RangeClosed / GenerateFrom / Recurrence1 / Recurrence2 (seeds),
// Iterator.Take / Drop, Seq.Take / Drop, and ZipWithIndex, Collect, FromList, ToList, Fold,
// Count, Reduce on their results - is called with arguments from
// {MinInt, MinInt+1, MinInt+2, -2, -1, 0, 1, 2, MaxInt-2, MaxInt-1, MaxInt} and neighbours of
// them, bounds pairs (from, to) with to < from, to == from, to == from+1, short spans next to
// either end of the range, and spans that do not fit an int (from = MinInt.., to = ..MaxInt).
//
// The reference is plain Go with overflow-safe arithmetic: Range(from, to) has
// uint(to)-uint(from) elements when to > from and none otherwise, RangeClosed one more
// (none when to < from), element i is from+i (never overflows below the bound). Spans above
// extCap elements are only asked for a prefix of K elements (Take(K) / the first K cells).
// Termination is decided by logical budgets only: the walkers count HasNext/Next calls resp.
// cells, a value that still has elements n+extSlack steps after a reference of n elements is
// `<site>/nontermination` (an end after surplus elements is `<site>/disagrees`); generator and
// fold callbacks tick a vrt.Budget. Consumers without a callback (ToSeq, Count) run only on a
// value the walker has already seen end. Keys are `<site>[<argument class>]/<kind>`, argument
// class = `[bound=MinInt]` / `[bound=MaxInt]` for the second bound of a range,
// `[negative-count]` for Take/Drop counts.

const extCap = 200  // longest expected output that is consumed completely
const extSlack = 64 // steps a walker grants beyond the expected end before it says nontermination
const extMaxK = 40  // longest demanded prefix of a huge / unbounded value

var extAnchors = []int{math.MinInt, math.MinInt + 1, math.MinInt + 2, -2, -1, 0, 1, 2, math.MaxInt - 2, math.MaxInt - 1, math.MaxInt}

type extSpec struct {
	From int   `json:"from"`
	To   int   `json:"to"`
	N    int   `json:"count"` // Take / Drop argument
	K    int   `json:"k"`     // demanded prefix of huge / unbounded values
	M    int   `json:"m"`     // length of the finite source of Take / Drop, of the GenerateFrom output
	Rel  int   `json:"relation"`
	Vals []int `json:"input"`
}

func extSatAdd(a, d int) int {
	if d > 0 && a > math.MaxInt-d {
		return math.MaxInt
	}
	if d < 0 && a < math.MinInt-d {
		return math.MinInt
	}
	return a + d
}

func genExtInt(r *rand.Rand) int {
	switch x := r.IntN(100); {
	case x < 70:
		return extAnchors[r.IntN(len(extAnchors))]
	case x < 85:
		return r.IntN(81) - 40
	}
	return extSatAdd(extAnchors[r.IntN(len(extAnchors))], r.IntN(141)-70)
}

var extDeltas = []int{-65, -3, -2, -1, 0, 1, 2, 3, 7, 8, 9, 64, 65, 199, 200, 201, 300, 1 << 20}

func genExtCase(r *rand.Rand, i int) *extSpec {
	sp := &extSpec{K: []int{0, 1, 2, 3, 8, 17, extMaxK}[r.IntN(7)], Rel: r.IntN(len(extRels))}
	na := len(extAnchors)
	switch mode := r.IntN(3); {
	case i < na*na: // every pair of anchors once per batch
		sp.From, sp.To = extAnchors[i/na], extAnchors[i%na]
	case mode == 0:
		sp.From, sp.To = genExtInt(r), genExtInt(r)
	case mode == 1:
		sp.From = genExtInt(r)
		sp.To = extSatAdd(sp.From, extDeltas[r.IntN(len(extDeltas))])
	default:
		sp.To = genExtInt(r)
		sp.From = extSatAdd(sp.To, -extDeltas[r.IntN(len(extDeltas))])
	}
	sp.M = []int{0, 1, 2, 3, 8, 9, 33, 64}[r.IntN(8)]
	switch r.IntN(4) {
	case 0: // a count next to the length of the input
		sp.N = sp.M + r.IntN(5) - 2
	case 1:
		sp.N = extAnchors[(i+r.IntN(2)*r.IntN(len(extAnchors)))%len(extAnchors)]
	default:
		sp.N = genExtInt(r)
	}
	sp.Vals = make([]int, sp.M)
	for j := range sp.Vals {
		sp.Vals[j] = r.IntN(200) - 100
	}
	if sp.M > 0 && r.IntN(3) == 0 {
		sp.Vals[r.IntN(sp.M)] = extAnchors[r.IntN(len(extAnchors))]
	}
	return sp
}

// ---- reference --------------------------------------------------------------------------

// extRef: an expected output of n elements (n > extCap or unbounded: huge, only a prefix is known)
type extRef struct {
	n    int
	huge bool
	at   func(i int) int
}

func (rf extRef) prefix(k int) []int {
	if !rf.huge && k > rf.n {
		k = rf.n
	}
	if k < 0 {
		k = 0
	}
	out := make([]int, k)
	for i := range out {
		out[i] = rf.at(i)
	}
	return out
}

func extSliceRef(xs []int) extRef {
	return extRef{n: len(xs), at: func(i int) int { return xs[i] }}
}

func extRangeRef(from, to int, closed bool) extRef {
	at := func(i int) int { return from + i } // i < number of elements: never passes `to`
	var span uint
	switch {
	case closed && to < from, !closed && to <= from:
		return extRef{n: 0, at: at}
	case closed:
		span = uint(to) - uint(from) // number of elements - 1 (MaxUint for the whole int range)
		if span >= extCap {
			return extRef{huge: true, at: at}
		}
		return extRef{n: int(span) + 1, at: at}
	}
	span = uint(to) - uint(from)
	if span > extCap {
		return extRef{huge: true, at: at}
	}
	return extRef{n: int(span), at: at}
}

func boundClass(to int) string {
	switch to {
	case math.MinInt:
		return "[bound=MinInt]"
	case math.MaxInt:
		return "[bound=MaxInt]"
	}
	return ""
}

func countClass(n int) string {
	if n < 0 {
		return "[negative-count]"
	}
	return ""
}

var extRels = []struct {
	name string
	f    func(int) int
}{
	{"x+1", func(x int) int { return x + 1 }},
	{"x-1", func(x int) int { return x - 1 }},
	{"2x", func(x int) int { return 2 * x }},
	{"-x", func(x int) int { return -x }},
	{"x/2", func(x int) int { return x / 2 }},
	{"^x", func(x int) int { return ^x }},
	{"x+MaxInt", func(x int) int { return x + math.MaxInt }},
}

// ---- execution --------------------------------------------------------------------------

type extFail struct {
	key, detail string
}

type extRun struct {
	w     *vrt.W
	sp    *extSpec
	fails []extFail
	hits  []string
}

// site runs f with panics turned into failures of this site (the other sites of the case go on).
func (x *extRun) site(name, class string, f func(fail func(kind, detail string))) {
	key := name + class
	x.w.Site(key)
	x.hits = append(x.hits, "extremes:"+name)
	failed := false
	fail := func(kind, detail string) {
		if !failed {
			failed = true
			x.fails = append(x.fails, extFail{key + "/" + kind, detail})
		}
	}
	defer func() {
		if r := recover(); r != nil {
			if be, ok := r.(vrt.BudgetExceeded); ok {
				fail("nontermination", "logical budget exceeded: "+be.What)
				return
			}
			fail("panic", fmt.Sprintf("unexpected panic: %v", r))
		}
	}()
	f(fail)
}

// extWalkIter: HasNext/Next walk against the reference under a pull budget. ok = the value ended
// where the reference ends (finite) resp. delivered the demanded prefix (huge).
func extWalkIter(it fp.Iterator[int], rf extRef, k int, fail func(kind, detail string)) bool {
	want := rf.prefix(k)
	if !rf.huge {
		want = rf.prefix(rf.n)
	}
	for j := 0; ; j++ {
		if rf.huge && j == len(want) {
			return true
		}
		if j > len(want)+extSlack {
			fail("nontermination", fmt.Sprintf("still has elements %d pulls after the %d expected elements (pull budget)", extSlack, len(want)))
			return false
		}
		hn := it.HasNext()
		if j < len(want) {
			if !hn {
				fail("disagrees", fmt.Sprintf("ends after %d elements, expected %d elements %s", j, len(want), extShowInts(want)))
				return false
			}
			if v := it.Next(); v != want[j] {
				fail("disagrees", fmt.Sprintf("element %d is %d, expected %d (expected %s)", j, v, want[j], extShowInts(want)))
				return false
			}
			continue
		}
		if !hn {
			if j > len(want) {
				fail("disagrees", fmt.Sprintf("%d elements, expected %d elements %s", j, len(want), extShowInts(want)))
				return false
			}
			return true
		}
		it.Next()
	}
}

// extWalkList: IsEmpty/Head/Tail walk under a cell budget.
func extWalkList(l fp.List[int], rf extRef, k int, fail func(kind, detail string)) bool {
	want := rf.prefix(k)
	if !rf.huge {
		want = rf.prefix(rf.n)
	}
	for j := 0; ; j++ {
		if rf.huge && j == len(want) {
			return true
		}
		if j > len(want)+extSlack {
			fail("nontermination", fmt.Sprintf("still has cells %d cells after the %d expected elements (cell budget)", extSlack, len(want)))
			return false
		}
		empty := l.IsEmpty()
		if empty == l.NonEmpty() {
			fail("disagrees", fmt.Sprintf("cell %d: IsEmpty and NonEmpty both %v", j, empty))
			return false
		}
		if j < len(want) {
			if empty {
				fail("disagrees", fmt.Sprintf("ends after %d elements, expected %d elements %s", j, len(want), extShowInts(want)))
				return false
			}
			if v := l.Head(); v != want[j] {
				fail("disagrees", fmt.Sprintf("element %d is %d, expected %d (expected %s)", j, v, want[j], extShowInts(want)))
				return false
			}
		} else if empty {
			if j > len(want) {
				fail("disagrees", fmt.Sprintf("%d elements, expected %d elements %s", j, len(want), extShowInts(want)))
				return false
			}
			return true
		}
		l = l.Tail()
	}
}

func extShowInts(xs []int) string {
	if len(xs) > 6 {
		return fmt.Sprintf("%v.. (%d)", xs[:6], len(xs))
	}
	return fmt.Sprint(xs)
}

func extSameInts(a, b []int) bool {
	if len(a) != len(b) {
		return false
	}
	for i := range a {
		if a[i] != b[i] {
			return false
		}
	}
	return true
}

func extSumInts(xs []int) int {
	s := 0
	for _, v := range xs {
		s += v
	}
	return s
}

type extIdxPair = fp.Tuple2[int, int]

func extCheckIdx(got []extIdxPair, want []int) string {
	if len(got) != len(want) {
		return fmt.Sprintf("%d pairs, expected %d", len(got), len(want))
	}
	for i, p := range got {
		if p.I1 != i || p.I2 != want[i] {
			return fmt.Sprintf("pair %d is (%d,%d), expected (%d,%d)", i, p.I1, p.I2, i, want[i])
		}
	}
	return ""
}

// iterValue: everything done with an Iterator-valued expression mk (rebuilt for every consumer).
func (x *extRun) iterValue(name, class string, mk func() fp.Iterator[int], rf extRef) {
	k := x.sp.K
	x.site(name, class, func(fail func(kind, detail string)) {
		if !extWalkIter(mk(), rf, k, fail) {
			return
		}
		pre := rf.prefix(k)
		if got := mk().Take(k).ToSeq(); !extSameInts(got, pre) {
			fail("disagrees", fmt.Sprintf(".Take(%d).ToSeq() = %s, expected %s", k, extShowInts(got), extShowInts(pre)))
			return
		}
		if !extWalkList(list.Collect(mk()), rf, k, func(kind, d string) { fail(kind, "list.Collect of it: "+d) }) {
			return
		}
		if !extWalkList(iterator.ToList(mk()), rf, k, func(kind, d string) { fail(kind, "iterator.ToList of it: "+d) }) {
			return
		}
		if d := extCheckIdx(iterator.ZipWithIndex(mk()).Take(k).ToSeq(), pre); d != "" {
			fail("disagrees", "iterator.ZipWithIndex(it).Take(k): "+d)
			return
		}
		if e := mk().IsEmpty(); e != (len(rf.prefix(1)) == 0) {
			fail("disagrees", fmt.Sprintf("IsEmpty() = %v, expected %v", e, !e))
			return
		}
		if rf.huge {
			x.hits = append(x.hits, "extremes.prefix_of_huge:"+name)
			return
		}
		all := rf.prefix(rf.n)
		if got := mk().ToSeq(); !extSameInts(got, all) {
			fail("disagrees", fmt.Sprintf("ToSeq() = %s, expected %s", extShowInts(got), extShowInts(all)))
			return
		}
		if got := mk().Count(); got != rf.n {
			fail("disagrees", fmt.Sprintf("Count() = %d, expected %d", got, rf.n))
			return
		}
		b := vrt.NewBudget(int64(rf.n), "iterator.Fold function called more often than there are elements")
		if got := iterator.Fold(mk(), 0, func(acc, v int) int { b.Tick(); return acc + v }); got != extSumInts(all) {
			fail("disagrees", fmt.Sprintf("iterator.Fold(sum) = %d, expected %d", got, extSumInts(all)))
			return
		}
		if got := iterator.Reduce(mk(), monoid.Sum[int]()); got != extSumInts(all) {
			fail("disagrees", fmt.Sprintf("iterator.Reduce(sum) = %d, expected %d", got, extSumInts(all)))
			return
		}
		if got := seq.Collect(mk()); !extSameInts(got, all) {
			fail("disagrees", fmt.Sprintf("seq.Collect = %s, expected %s", extShowInts(got), extShowInts(all)))
		}
	})
}

// listValue: everything done with a List-valued expression.
func (x *extRun) listValue(name, class string, mk func() fp.List[int], rf extRef) {
	k := x.sp.K
	x.site(name, class, func(fail func(kind, detail string)) {
		l := mk()
		if !extWalkList(l, rf, k, fail) {
			return
		}
		if !extWalkList(l, rf, k, func(kind, d string) { fail(kind, "second walk of the same value: "+d) }) {
			return
		}
		pre := rf.prefix(k)
		if got := iterator.FromList(mk()).Take(k).ToSeq(); !extSameInts(got, pre) {
			fail("disagrees", fmt.Sprintf("iterator.FromList(l).Take(%d).ToSeq() = %s, expected %s", k, extShowInts(got), extShowInts(pre)))
			return
		}
		if d := extCheckIdx(iterator.FromList(list.ZipWithIndex(mk())).Take(k).ToSeq(), pre); d != "" {
			fail("disagrees", "list.ZipWithIndex(l), first k: "+d)
			return
		}
		if !extWalkIter(iterator.FromList(mk()), rf, k, func(kind, d string) { fail(kind, "iterator.FromList(l): "+d) }) {
			return
		}
		if rf.huge {
			x.hits = append(x.hits, "extremes.prefix_of_huge:"+name)
			return
		}
		all := rf.prefix(rf.n)
		if got := mk().ToSeq(); !extSameInts(got, all) {
			fail("disagrees", fmt.Sprintf("ToSeq() = %s, expected %s", extShowInts(got), extShowInts(all)))
			return
		}
		b := vrt.NewBudget(int64(rf.n), "list.Fold function called more often than there are elements")
		if got := list.Fold(mk(), 0, func(acc, v int) int { b.Tick(); return acc + v }); got != extSumInts(all) {
			fail("disagrees", fmt.Sprintf("list.Fold(sum) = %d, expected %d", got, extSumInts(all)))
			return
		}
		if got := list.Reduce(mk(), monoid.Sum[int]()); got != extSumInts(all) {
			fail("disagrees", fmt.Sprintf("list.Reduce(sum) = %d, expected %d", got, extSumInts(all)))
			return
		}
		n := 0
		mk().Foreach(func(int) { n++ })
		if n != rf.n {
			fail("disagrees", fmt.Sprintf("Foreach visited %d elements, expected %d", n, rf.n))
		}
	})
}

func extTakeRef(src extRef, n int) extRef {
	switch {
	case n <= 0:
		return extRef{n: 0, at: src.at}
	case src.huge && n > extCap:
		return extRef{huge: true, at: src.at}
	case src.huge, n < src.n:
		return extRef{n: n, at: src.at}
	}
	return src
}

func extDropRef(src extRef, n int) extRef { // src finite
	if n <= 0 {
		return src
	}
	if n >= src.n {
		return extRef{n: 0, at: src.at}
	}
	return extRef{n: src.n - n, at: func(i int) int { return src.at(i + n) }}
}

func execExt(w *vrt.W, sp *extSpec) *extRun {
	x := &extRun{w: w, sp: sp}
	from, to, n := sp.From, sp.To, sp.N
	bc, cc := boundClass(to), countClass(n)

	// ranges
	open, closed := extRangeRef(from, to, false), extRangeRef(from, to, true)
	x.iterValue("iterator.Range", bc, func() fp.Iterator[int] { return iterator.Range(from, to) }, open)
	x.iterValue("iterator.RangeClosed", bc, func() fp.Iterator[int] { return iterator.RangeClosed(from, to) }, closed)
	x.listValue("list.Range", bc, func() fp.List[int] { return list.Range(from, to) }, open)
	x.listValue("list.RangeClosed", bc, func() fp.List[int] { return list.RangeClosed(from, to) }, closed)
	rangesOK := len(x.fails) == 0

	// list.GenerateFrom(start): the generator sees start, start+1, .. (int arithmetic, wraps);
	// it is a pure function of the index that ends the list M cells after start
	{
		m := sp.M
		start := from
		rf := extRef{n: m, at: func(i int) int { return (start + i) ^ 0x55 }}
		x.listValue("list.GenerateFrom", "", func() fp.List[int] {
			b := vrt.NewBudget(int64(3*(m+extSlack)+8), "list.GenerateFrom generator called far more often than cells were demanded")
			return list.GenerateFrom(start, func(index int) fp.Option[int] {
				b.Tick()
				if uint(index)-uint(start) < uint(m) {
					return fp.Some(index ^ 0x55)
				}
				return fp.None[int]()
			})
		}, rf)
		// unbounded generator, prefix only
		x.listValue("list.GenerateFrom(unbounded)", "", func() fp.List[int] {
			b := vrt.NewBudget(int64(8*(sp.K+4)+8), "list.GenerateFrom generator called far more often than cells were demanded")
			return list.GenerateFrom(start, func(index int) fp.Option[int] { b.Tick(); return fp.Some(index) })
		}, extRef{huge: true, at: func(i int) int { return start + i }})
	}

	// recurrences with extreme seeds (unbounded: prefix only)
	{
		rel := extRels[sp.Rel%len(extRels)]
		mkRef1 := func() extRef {
			vals := []int{from}
			return extRef{huge: true, at: func(i int) int {
				for len(vals) <= i {
					vals = append(vals, rel.f(vals[len(vals)-1]))
				}
				return vals[i]
			}}
		}
		x.listValue("list.Recurrence1", "", func() fp.List[int] {
			b := vrt.NewBudget(int64(8*(sp.K+4)+8), "list.Recurrence1 relation called far more often than cells were demanded")
			return list.Recurrence1(from, func(v int) int { b.Tick(); return rel.f(v) })
		}, mkRef1())
		mkRef2 := func() extRef {
			vals := []int{from, to}
			return extRef{huge: true, at: func(i int) int {
				for len(vals) <= i {
					vals = append(vals, vals[len(vals)-2]+rel.f(vals[len(vals)-1]))
				}
				return vals[i]
			}}
		}
		x.listValue("list.Recurrence2", "", func() fp.List[int] {
			b := vrt.NewBudget(int64(8*(sp.K+4)+8), "list.Recurrence2 relation called far more often than cells were demanded")
			return list.Recurrence2(from, to, func(a, c int) int { b.Tick(); return a + rel.f(c) })
		}, mkRef2())
	}

	// Take / Drop with extreme counts: finite input, a range, an unbounded generator
	vals := sp.Vals
	fin := extSliceRef(vals)
	x.iterValue("Iterator.Take", cc, func() fp.Iterator[int] { return iterator.FromSlice(vals).Take(n) }, extTakeRef(fin, n))
	x.iterValue("Iterator.Drop", cc, func() fp.Iterator[int] { return iterator.FromSlice(vals).Drop(n) }, extDropRef(fin, n))
	x.iterValue("Iterator.Take(of list)", cc, func() fp.Iterator[int] { return iterator.FromList(list.FromSlice(vals)).Take(n) }, extTakeRef(fin, n))
	x.iterValue("Iterator.Drop(of list)", cc, func() fp.Iterator[int] { return iterator.FromList(list.FromSlice(vals)).Drop(n) }, extDropRef(fin, n))
	x.iterValue("Iterator.Take(of range)", cc, func() fp.Iterator[int] { return iterator.Range(from, to).Take(n) }, extTakeRef(open, n))
	x.iterValue("Iterator.Take(of unbounded)", cc, func() fp.Iterator[int] {
		c := from
		b := vrt.NewBudget(int64(extCap+3*extSlack), "unbounded generator pulled far beyond the Take count")
		return iterator.Generate(func() int { b.Tick(); v := c; c++; return v }).Take(n)
	}, extTakeRef(extRef{huge: true, at: func(i int) int { return from + i }}, n))
	if !open.huge {
		x.iterValue("Iterator.Drop(of range)", cc, func() fp.Iterator[int] { return iterator.Range(from, to).Drop(n) }, extDropRef(open, n))
	}
	x.site("Seq.Take", cc, func(fail func(kind, detail string)) {
		want := extTakeRef(fin, n).prefix(len(vals))
		if got := fp.Seq[int](vals).Take(n); !extSameInts(got, want) {
			fail("disagrees", fmt.Sprintf("Seq%v.Take(%d) = %s, expected %s", vals, n, extShowInts(got), extShowInts(want)))
		}
	})
	x.site("Seq.Drop", cc, func(fail func(kind, detail string)) {
		want := extDropRef(fin, n).prefix(len(vals))
		if got := fp.Seq[int](vals).Drop(n); !extSameInts(got, want) {
			fail("disagrees", fmt.Sprintf("Seq%v.Drop(%d) = %s, expected %s", vals, n, extShowInts(got), extShowInts(want)))
		}
	})
	// the three ZipWithIndex spellings on elements at the ends of the int range
	x.site("seq.ZipWithIndex", "", func(fail func(kind, detail string)) {
		if d := extCheckIdx(seq.ZipWithIndex(fp.Seq[int](vals)), vals); d != "" {
			fail("disagrees", d)
		}
		if !open.huge && rangesOK {
			all := open.prefix(open.n)
			a := seq.ZipWithIndex(fp.Seq[int](all))
			b := iterator.ZipWithIndex(iterator.Range(from, to)).ToSeq()
			c := iterator.FromList(list.ZipWithIndex(list.Range(from, to))).Take(open.n + 1).ToSeq()
			if !reflect.DeepEqual([]extIdxPair(a), b) && !(len(a) == 0 && len(b) == 0) {
				fail("disagrees", fmt.Sprintf("iterator.ZipWithIndex(iterator.Range(%d,%d)) differs from seq.ZipWithIndex of the same elements", from, to))
			} else if !reflect.DeepEqual([]extIdxPair(a), c) && !(len(a) == 0 && len(c) == 0) {
				fail("disagrees", fmt.Sprintf("list.ZipWithIndex(list.Range(%d,%d)) differs from seq.ZipWithIndex of the same elements", from, to))
			}
		}
	})
	return x
}

func isExtreme(v int) bool {
	return v <= math.MinInt+2 || v >= math.MaxInt-2
}

func extArgClass(v int) string {
	switch {
	case v == math.MinInt:
		return "MinInt"
	case v == math.MaxInt:
		return "MaxInt"
	case v <= math.MinInt+70:
		return "nearMinInt"
	case v >= math.MaxInt-70:
		return "nearMaxInt"
	case v < 0:
		return "negative"
	case v == 0:
		return "zero"
	}
	return "positive"
}

func runExtCase(w *vrt.W, i int) {
	r := w.Rand(i)
	sp := genExtCase(r, i)
	w.Begin(i, "extremes")
	var x *extRun
	w.Guard(i, func() any { return sp }, func() {
		x = execExt(w, sp)
		for _, f := range x.fails {
			w.Violation(i, f.key, fmt.Sprintf("%s\ncase: from=%d to=%d count=%d k=%d relation=%s input=%v", f.detail, sp.From, sp.To, sp.N, sp.K, extRels[sp.Rel%len(extRels)].name, sp.Vals), sp)
		}
	})
	w.Done(i)
	if x == nil {
		return
	}
	for _, h := range x.hits {
		w.Hit(h)
	}
	w.Add("extremes.cases", 1)
	w.Add("extremes.from."+extArgClass(sp.From), 1)
	w.Add("extremes.to."+extArgClass(sp.To), 1)
	w.Add("extremes.count."+extArgClass(sp.N), 1)
	open, closed := extRangeRef(sp.From, sp.To, false), extRangeRef(sp.From, sp.To, true)
	spanClass := "short"
	switch {
	case sp.To < sp.From:
		spanClass = "reversed"
	case sp.To == sp.From:
		spanClass = "equal"
	case sp.To == sp.From+1:
		spanClass = "singleton"
	case uint(sp.To)-uint(sp.From) > uint(math.MaxInt):
		spanClass = "overflows_int"
	case open.huge:
		spanClass = "huge"
	}
	w.Add("extremes.span."+spanClass, 1)
	if closed.huge != open.huge {
		w.Add("extremes.span.closed_huge_open_not", 1)
	}
	if isExtreme(sp.From) && isExtreme(sp.To) {
		w.Add("extremes.both_bounds_within_2_of_an_end", 1)
	}
	if isExtreme(sp.To) && !open.huge && open.n > 0 {
		w.Add("extremes.nonempty_finite_range_ending_at_an_end", 1)
	}
	if sp.N >= 0 && sp.N-sp.M >= -2 && sp.N-sp.M <= 2 {
		w.Add("extremes.count_next_to_input_length", 1)
	}
	w.Distinct(fmt.Sprintf("extremes|%s|%s|%s|%s|%d|%d|%d", extArgClass(sp.From), extArgClass(sp.To), spanClass, extArgClass(sp.N), sp.K, sp.M, sp.Rel))
	if w.WantSample() && i%97 == 0 {
		w.Sample(map[string]any{"extremes_case": sp})
	}
}

func extSites() []string {
	return []string{"iterator.Range", "iterator.RangeClosed", "list.Range", "list.RangeClosed", "list.GenerateFrom", "list.GenerateFrom(unbounded)",
		"list.Recurrence1", "list.Recurrence2", "Iterator.Take", "Iterator.Drop", "Iterator.Take(of list)", "Iterator.Drop(of list)",
		"Iterator.Take(of range)", "Iterator.Take(of unbounded)", "Iterator.Drop(of range)", "Seq.Take", "Seq.Drop", "seq.ZipWithIndex"}
}
