package gbk

import (
	"fmt"
	"sort"
	"strings"
)

// SupportSource is the fixed, unannotated part of every input package.
func SupportSource(pkg string) string {
	return "package " + pkg + `

// HandCalls counts calls of hand-written methods that carry the name of a generated method.
var HandCalls = map[string]int{}

type Emb struct{}

type EmbNE struct {
	Inner int
	Other string
}

// types for embedded fields and for field types that are instantiations / aliases (embedded.go)

type EmbP struct {
	Pid  int
	Ptag string
}

type EmbZ struct{}

type EmbQ struct{ Qid int }

type AliasP = EmbQ

type Level int

type AliasLevel = Level

type Tags []string

type Attr map[string]int

type Handler func(int) string

type Cell[T any] struct{ Val T }

type Bag[T any] []T

type Void[T any] struct{}

type level int

type inner struct{ X int }

type MyStr string

type MyInt int

type MyFloat float64

type StrInt int

func (r StrInt) String() string { return "strint" }

type Plain struct {
	A int
	B string
}

type Local interface{ Local() }

type Greeter interface{ Hello() string }

type Num interface {
	~int | ~int64 | ~float64
}

type Impl struct{ ID int }

func (r Impl) Local()                     {}
func (r Impl) Hello() string              { return "hello" }
func (r Impl) String() string             { return "impl" }
func (r Impl) Close() error               { return nil }
func (r Impl) Read(p []byte) (int, error) { return 0, nil }
`
}

func (s *Struct) recv() string { return s.Name + s.TypeParamsUse() }

// Source prints the struct declaration and its hand-written methods.
func (s *Struct) Source(p *Pkg) string {
	var b strings.Builder
	ind := ""
	if s.InGroup {
		b.WriteString("type (\n")
		ind = "\t"
	}
	for _, d := range s.Doc {
		fmt.Fprintf(&b, "%s// %s\n", ind, d)
	}
	for _, a := range s.AnnOrder {
		fmt.Fprintf(&b, "%s// %s\n", ind, a)
	}
	head := "type " + s.Name
	if s.InGroup {
		head = ind + s.Name
	}
	if s.Derived != "" {
		fmt.Fprintf(&b, "%s%s %s%s\n", head, s.TypeParamsDecl(), s.Derived, s.DerivedArgs)
	} else {
		tr := ""
		if s.Trailing {
			tr = " // " + s.Name
		}
		fmt.Fprintf(&b, "%s%s struct {%s\n", head, s.TypeParamsDecl(), tr)
		for i := 0; i < len(s.Fields); i++ {
			f := s.Fields[i]
			tag := ""
			if f.Tag != "" {
				tag = " `" + f.Tag + "`"
			}
			switch {
			case f.Embedded:
				fmt.Fprintf(&b, "%s\t%s%s\n", ind, f.Ty.Src, tag)
			case f.JoinNext && i+1 < len(s.Fields):
				names := []string{f.Name}
				for f.JoinNext && i+1 < len(s.Fields) {
					i++
					f = s.Fields[i]
					names = append(names, f.Name)
				}
				fmt.Fprintf(&b, "%s\t%s %s\n", ind, strings.Join(names, ", "), f.Ty.Src)
			default:
				fmt.Fprintf(&b, "%s\t%s %s%s\n", ind, f.Name, f.Ty.Src, tag)
			}
		}
		fmt.Fprintf(&b, "%s}\n", ind)
	}
	if s.InGroup {
		b.WriteString(")\n")
	}
	// hand-written members
	fields := s.Fields
	if s.Derived != "" {
		fields = p.Find(s.Derived).Fields
	}
	if s.HandBuilderType() {
		fmt.Fprintf(&b, "\ntype %sBuilder%s %s\n", s.Name, s.TypeParamsDecl(), s.recv())
	}
	for _, h := range s.Hands {
		switch h.Kind {
		case "getter":
			f := fields[h.Field]
			fmt.Fprintf(&b, "\nfunc (r %s) %s() %s {\n\tHandCalls[\"%s.%s\"]++\n\treturn r.%s\n}\n", s.recv(), f.PubName(), f.Ty.Src, s.Name, f.PubName(), f.Name)
		case "with":
			f := fields[h.Field]
			fmt.Fprintf(&b, "\nfunc (r %s) With%s(v %s) %s {\n\tHandCalls[\"%s.With%s\"]++\n\tr.%s = v\n\treturn r\n}\n", s.recv(), f.PubName(), f.Ty.Src, s.recv(), s.Name, f.PubName(), f.Name)
		case "bsetter":
			f := fields[h.Field]
			br := s.Name + "Builder" + s.TypeParamsUse()
			fmt.Fprintf(&b, "\nfunc (r %s) %s(v %s) %s {\n\tHandCalls[\"%sBuilder.%s\"]++\n\tr.%s = v\n\treturn r\n}\n", br, f.PubName(), f.Ty.Src, br, s.Name, f.PubName(), f.Name)
		case "string":
			fmt.Fprintf(&b, "\nfunc (r %s) String() string {\n\tHandCalls[\"%s.String\"]++\n\treturn \"hand-written\"\n}\n", s.recv(), s.Name)
		}
	}
	return b.String()
}

// Source prints in.go of the package.
func (p *Pkg) Source() string {
	imps := map[string]bool{}
	for _, s := range p.Structs {
		for _, f := range s.Fields {
			for _, i := range f.Ty.Imports {
				imps[i] = true
			}
		}
		for _, tp := range s.TParams {
			for _, i := range tp.Imports {
				imps[i] = true
			}
		}
	}
	for _, i := range p.ExtraImports {
		imps[i] = true
	}
	var il []string
	for i := range imps {
		il = append(il, i)
	}
	sort.Strings(il)
	var b strings.Builder
	fmt.Fprintf(&b, "package %s\n\n", p.Name)
	if len(il) > 0 {
		b.WriteString("import (\n")
		for _, i := range il {
			fmt.Fprintf(&b, "\t%s\n", i)
		}
		b.WriteString(")\n\n")
	}
	b.WriteString("//go:generate gombok\n\n")
	for _, s := range p.Structs {
		b.WriteString(s.Source(p))
		b.WriteString("\n")
	}
	if p.Extra != "" {
		b.WriteString(p.Extra)
		b.WriteString("\n")
	}
	return b.String()
}
