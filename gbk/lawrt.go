package gbk

// lawRuntime is the support code of every law test (written next to the generated package,
// same package). Everything is prefixed lw to stay clear of the input package's names.
const lawRuntime = `
// ---- law-test runtime (written by /verif/gbk, not by gombok) ----

var lwSink int

var (
	_ = json.Marshal
	_ = fmt.Sprint
	_ io.Reader
	_ = os.Stdin
	_ = strings.Join
	_ atomic.Bool
	_ = time.Now
	_ = context.Background
	_ = math.MaxInt64
	_ = utf8.ValidString
	_ = bytes.Equal
	_ = sort.Strings
	_ fp.Unit
	_ = mutable.MapOf[int, int]
	_ = errors.New
	_ = hlist.Empty
)

type lwRand struct {
	s     uint64
	json  bool // JSON mode: Option payloads must not encode as null unless the field is marked loose
	depth int  // nesting depth of container generators (bounds recursive struct values)
	nz    bool // every struct field gets a non-zero, non-empty value where its type has one (lwNZ)
	edge  int  // value-law edge iterations (C07 only, never in JSON mode): 0 = PRNG draw, 1..lwEdgeClasses = forced edge class, -1 = one class drawn per top-level value
}

// Edge classes of the forced value pool (lwPair). A generator consults at() first; only values at
// container depth 0 are forced, everything below is an ordinary draw unless a container asks for
// a class explicitly (lwAt).
//
//	1 NIL    nil pointer / slice / map / func / chan / interface, None, zero basic value, ""
//	2 EMPTY  empty non-nil slice / map (no capacity), pointer to the zero value, Some(<NIL>) = Some(typed nil)
//	3 CAP    empty slice WITH capacity, Some(<EMPTY>)
//	4 ONE    one-element slice / map whose element is <NIL>, pointer to <NIL>, Some(<CAP>)
//	5, 6     Some(<ONE>), Some(<5>); everything else an ordinary draw
const lwEdgeClasses = 6

func (r *lwRand) at() int {
	if r.edge == 0 || r.depth > 0 {
		return 0
	}
	if r.edge < 0 {
		return r.n(lwEdgeClasses + 1)
	}
	return r.edge
}

// lwAt draws a component value at an explicit edge class (as if it stood at depth 0).
func lwAt[T any](r *lwRand, g lwG[T], e int) T {
	oe, od := r.edge, r.depth
	r.edge, r.depth = e, 0
	defer func() { r.edge, r.depth = oe, od }()
	return g(r, false)
}

// lwPair draws the two values of one law iteration. k < 0: two ordinary draws (the PRNG stream of
// the random iterations). k >= 0: the forced pool - class e = k/3+1 for x and a random y, a random
// x and class e for y, or classes e / e+1 for both; k >= 3*lwEdgeClasses: every top-level field
// value draws its own class. The class stays switched on for the body of the iteration, so the
// payloads handed to WithSome / builder Some are edge values of the element type as well.
func lwPair[T any](r *lwRand, k int, g func(*lwRand, bool) T) (x, y T) {
	r.edge = 0
	if k < 0 {
		x, y = g(r, false), g(r, false)
		return
	}
	if k >= 3*lwEdgeClasses {
		r.edge = -1
		x, y = g(r, false), g(r, false)
		return
	}
	e := k/3 + 1
	switch k % 3 {
	case 0:
		r.edge = e
		x = g(r, false)
		r.edge = 0
		y = g(r, false)
	case 1:
		x = g(r, false)
		r.edge = e
		y = g(r, false)
	default:
		r.edge = e
		x = g(r, false)
		r.edge = e%lwEdgeClasses + 1
		y = g(r, false)
	}
	r.edge = e
	return
}

// lwEdgeIters: forced iterations appended to the random ones (3 per class + 6 mixed).
const lwEdgeIters = 3*lwEdgeClasses + 6

func lwNewRand(seed uint64, jsonMode bool) *lwRand { return &lwRand{s: seed*0x9e3779b97f4a7c15 + 0x1234567, json: jsonMode} }

func (r *lwRand) u64() uint64 {
	r.s += 0x9e3779b97f4a7c15
	z := r.s
	z = (z ^ (z >> 30)) * 0xbf58476d1ce4e5b9
	z = (z ^ (z >> 27)) * 0x94d049bb133111eb
	return z ^ (z >> 31)
}

func (r *lwRand) n(k int) int { return int(r.u64() % uint64(k)) }

// lwG generates a value; nn = the value must not have the JSON encoding null.
type lwG[T any] func(r *lwRand, nn bool) T

// lwZeroish: the zero value, a nil pointer / interface, or an empty string / slice / map.
func lwZeroish(v reflect.Value) bool {
	if !v.IsValid() {
		return true
	}
	switch v.Kind() {
	case reflect.Slice, reflect.Map, reflect.String:
		return v.Len() == 0
	case reflect.Interface, reflect.Ptr:
		return v.IsNil()
	}
	return v.IsZero()
}

// lwNZ draws a field value. In the ordinary mode it is exactly g(r, false); in nz mode the draw
// is repeated (bounded) until the value is neither zero nor empty.
func lwNZ[T any](r *lwRand, g lwG[T]) T {
	v := g(r, false)
	if !r.nz || r.depth > 0 {
		return v // nested below a container (pointer / slice / map / Option): ordinary draw, keeps recursive types finite
	}
	for k := 0; k < 40 && lwZeroish(reflect.ValueOf(&v).Elem()); k++ {
		v = g(r, true)
	}
	return v
}

type lwSigned interface {
	~int | ~int8 | ~int16 | ~int32 | ~int64
}
type lwUnsigned interface {
	~uint | ~uint8 | ~uint16 | ~uint32 | ~uint64 | ~uintptr
}

func lwInt[T lwSigned]() lwG[T] {
	return func(r *lwRand, nn bool) T {
		if e := r.at(); e == 1 || e == 2 {
			return 0
		}
		bits := uint(reflect.TypeOf(T(0)).Bits())
		min := int64(-1) << (bits - 1)
		max := ^min
		switch r.n(8) {
		case 0:
			return T(min)
		case 1:
			return T(max)
		case 2:
			return 0
		case 3:
			return T(-1)
		case 4, 5:
			return T(int64(r.n(200)) - 100)
		}
		return T(int64(r.u64()) >> (64 - bits))
	}
}

func lwUint[T lwUnsigned]() lwG[T] {
	return func(r *lwRand, nn bool) T {
		if e := r.at(); e == 1 || e == 2 {
			return 0
		}
		bits := uint(reflect.TypeOf(T(0)).Bits())
		switch r.n(6) {
		case 0:
			return 0
		case 1:
			return T(^uint64(0) >> (64 - bits))
		case 2, 3:
			return T(r.n(200))
		}
		return T(r.u64() >> (64 - bits))
	}
}

func lwFloat[T ~float32 | ~float64]() lwG[T] {
	return func(r *lwRand, nn bool) T {
		if e := r.at(); e == 1 || e == 2 {
			return 0
		}
		is32 := reflect.TypeOf(T(0)).Bits() == 32
		switch r.n(10) {
		case 0:
			return 0
		case 1:
			return T(1.5)
		case 2:
			return T(-2.25)
		case 3:
			if is32 {
				return T(math.MaxFloat32)
			}
			v := math.MaxFloat64
			return T(v)
		case 4:
			if is32 {
				return T(math.SmallestNonzeroFloat32)
			}
			v := math.SmallestNonzeroFloat64
			return T(v)
		case 5:
			return T(0.1)
		case 6:
			return T(1e21)
		case 7:
			return T(-1e-7)
		}
		for {
			var f float64
			if is32 {
				f = float64(math.Float32frombits(uint32(r.u64())))
			} else {
				f = math.Float64frombits(r.u64())
			}
			if !math.IsNaN(f) && !math.IsInf(f, 0) {
				return T(f)
			}
		}
	}
}

func lwComplex[T ~complex64 | ~complex128]() lwG[T] {
	return func(r *lwRand, nn bool) T {
		if e := r.at(); e == 1 || e == 2 {
			return 0
		}
		return T(complex(float64(r.n(100)), float64(r.n(100))-50))
	}
}

func lwBool[T ~bool]() lwG[T] {
	return func(r *lwRand, nn bool) T {
		if e := r.at(); e == 1 || e == 2 {
			return false
		}
		return T(r.n(2) == 0)
	}
}

var lwStrPieces = []string{"", "a", "hello world", "quote\"q", "back\\slash", "ctl\x00\x01\x1f\n\t\r\b\f", "<>&", "  ", "héllo",
	"日本語", "\U0001F600\U0001D11E", "null", "true", "123", "\x7f", "�", "{\"k\":[1]}", "'", "/", "\u0080߿ࠀ￿\U00010000\U0010FFFF"}

func lwStr[T ~string]() lwG[T] {
	return func(r *lwRand, nn bool) T {
		if e := r.at(); e == 1 || e == 2 {
			return ""
		}
		var sb strings.Builder
		for k := r.n(4); k > 0; k-- {
			if r.n(3) == 0 {
				for j := r.n(6); j >= 0; j-- {
					sb.WriteByte(byte(32 + r.n(95)))
				}
			} else {
				sb.WriteString(lwStrPieces[r.n(len(lwStrPieces))])
			}
		}
		return T(sb.String())
	}
}

func lwZero[T any]() lwG[T] {
	return func(r *lwRand, nn bool) T { var z T; return z }
}

// lwPick: vals[0] may be the null-encoding value (nil); it is skipped when nn is set.
func lwPick[T any](vals ...T) lwG[T] {
	return func(r *lwRand, nn bool) T {
		switch e := r.at(); {
		case e == 1:
			return vals[0]
		case e > 1 && len(vals) > 1:
			return vals[1+r.n(len(vals)-1)]
		}
		if nn && len(vals) > 1 {
			return vals[1+r.n(len(vals)-1)]
		}
		return vals[r.n(len(vals))]
	}
}

// lwIface: nil or one of the given implementations.
func lwIface[T any](vals ...T) lwG[T] {
	return func(r *lwRand, nn bool) T {
		switch e := r.at(); {
		case e == 1:
			var z T
			return z
		case e > 1:
			return vals[r.n(len(vals))]
		}
		if !nn && r.n(4) == 0 {
			var z T
			return z
		}
		return vals[r.n(len(vals))]
	}
}

func lwSliceOf[S ~[]E, E any](e lwG[E]) lwG[S] {
	return func(r *lwRand, nn bool) S {
		switch r.at() {
		case 1:
			return nil
		case 2:
			return S{}
		case 3:
			return make(S, 0, 4)
		case 4:
			return S{lwAt(r, e, 1)}
		}
		r.depth++
		defer func() { r.depth-- }()
		switch k := r.n(6); {
		case k == 0 && !nn:
			return nil
		case k <= 1 || r.depth > 4:
			return S{}
		default:
			out := make(S, 0, k)
			for i := 0; i < k-1; i++ {
				out = append(out, e(r, false))
			}
			return out
		}
	}
}

func lwMapOf[M ~map[K]V, K comparable, V any](kg lwG[K], vg lwG[V]) lwG[M] {
	return func(r *lwRand, nn bool) M {
		switch r.at() {
		case 1:
			return nil
		case 2, 3:
			return M{}
		case 4:
			r.depth++
			k := kg(r, true)
			r.depth--
			return M{k: lwAt(r, vg, 1)}
		}
		r.depth++
		defer func() { r.depth-- }()
		switch k := r.n(6); {
		case k == 0 && !nn:
			return nil
		case k <= 1 || r.depth > 4:
			return M{}
		default:
			out := M{}
			for i := 0; i < k-1; i++ {
				out[kg(r, true)] = vg(r, false)
			}
			return out
		}
	}
}

func lwPtrOf[T any](e lwG[T]) lwG[*T] {
	return func(r *lwRand, nn bool) *T {
		switch r.at() {
		case 1:
			return nil
		case 2:
			return new(T)
		case 4:
			v := lwAt(r, e, 1)
			return &v
		}
		r.depth++
		defer func() { r.depth-- }()
		if !nn && (r.n(4) == 0 || r.depth > 4) {
			return nil
		}
		v := e(r, false)
		return &v
	}
}

// lwOptOf: loose = Some(null-encoding) payloads allowed even in JSON mode.
func lwOptOf[T any](e lwG[T], loose bool) lwG[fp.Option[T]] {
	return func(r *lwRand, nn bool) fp.Option[T] {
		switch k := r.at(); {
		case k == 1:
			return fp.None[T]()
		case k > 1:
			return fp.Some(lwAt(r, e, k-1))
		}
		r.depth++
		defer func() { r.depth-- }()
		if !nn && (r.n(3) == 0 || r.depth > 4) {
			return fp.None[T]()
		}
		return fp.Some(e(r, r.json && !loose))
	}
}

var lwErrs = []error{errors.New("e0"), errors.New("e1"), errors.New("e2")}

func lwTryOf[T any](e lwG[T]) lwG[fp.Try[T]] {
	return func(r *lwRand, nn bool) fp.Try[T] {
		switch k := r.at(); {
		case k == 1:
			return fp.Try[T]{}
		case k > 1 && k < 5:
			return fp.Success(lwAt(r, e, k-1))
		}
		switch r.n(4) {
		case 0:
			return fp.Try[T]{}
		case 1:
			return fp.Failure[T](lwErrs[r.n(len(lwErrs))])
		}
		return fp.Success(e(r, false))
	}
}

func lwEitherOf[L, R any](l lwG[L], rg lwG[R]) lwG[fp.Either[L, R]] {
	return func(r *lwRand, nn bool) fp.Either[L, R] {
		switch r.at() {
		case 1:
			return nil
		case 2:
			return fp.Left[L, R](lwAt(r, l, 1))
		case 3:
			return fp.Right[L, R](lwAt(r, rg, 1))
		}
		switch r.n(4) {
		case 0:
			if !nn {
				return nil
			}
			fallthrough
		case 1:
			return fp.Left[L, R](l(r, false))
		}
		return fp.Right[L, R](rg(r, false))
	}
}

func lwFutureOf[T any](e lwG[T]) lwG[fp.Future[T]] {
	return func(r *lwRand, nn bool) fp.Future[T] {
		if r.at() == 1 {
			return fp.Future[T]{}
		}
		switch r.n(3) {
		case 0:
			return fp.Future[T]{}
		case 1:
			return fp.NewPromise[T]().Future()
		}
		p := fp.NewPromise[T]()
		p.Success(e(r, false))
		return p.Future()
	}
}

func lwFpMapOf[K comparable, V any](kg lwG[K], vg lwG[V]) lwG[fp.Map[K, V]] {
	return func(r *lwRand, nn bool) fp.Map[K, V] {
		switch r.at() {
		case 1:
			return fp.Map[K, V]{}
		case 2, 3:
			return mutable.MapOf(map[K]V{})
		}
		if r.n(3) == 0 {
			return fp.Map[K, V]{}
		}
		m := map[K]V{}
		for i := r.n(4); i > 0; i-- {
			m[kg(r, true)] = vg(r, false)
		}
		return mutable.MapOf(m)
	}
}

func lwTime() lwG[time.Time] {
	return func(r *lwRand, nn bool) time.Time {
		if e := r.at(); e == 1 || e == 2 {
			return time.Time{}
		}
		switch r.n(6) {
		case 0:
			return time.Time{}
		case 1:
			return time.Unix(253402300799, 999999999).UTC()
		case 2:
			return time.Unix(0, 0).UTC()
		}
		return time.Unix(int64(r.u64()%253402300799), int64(r.n(1000000000))).UTC()
	}
}

func lwGenPlain(r *lwRand, nn bool) Plain {
	return Plain{A: lwInt[int]()(r, false), B: lwStr[string]()(r, false)}
}

func lwGenImpl(r *lwRand, nn bool) Impl { return Impl{ID: r.n(1000)} }

// ---- equality: == where comparable, element-wise for slices/maps (nil ≡ empty), identity for func/chan ----

func lwEq(a, b any) bool { return lwEqV(reflect.ValueOf(a), reflect.ValueOf(b), 0) }

func lwEqV(a, b reflect.Value, d int) bool {
	if !a.IsValid() || !b.IsValid() {
		return a.IsValid() == b.IsValid()
	}
	if a.Type() != b.Type() {
		return false
	}
	if d > 60 {
		return true
	}
	switch a.Kind() {
	case reflect.Bool:
		return a.Bool() == b.Bool()
	case reflect.Int, reflect.Int8, reflect.Int16, reflect.Int32, reflect.Int64:
		return a.Int() == b.Int()
	case reflect.Uint, reflect.Uint8, reflect.Uint16, reflect.Uint32, reflect.Uint64, reflect.Uintptr:
		return a.Uint() == b.Uint()
	case reflect.Float32, reflect.Float64:
		x, y := a.Float(), b.Float()
		return x == y || (x != x && y != y)
	case reflect.Complex64, reflect.Complex128:
		return a.Complex() == b.Complex()
	case reflect.String:
		return a.String() == b.String()
	case reflect.Func:
		if a.IsNil() || b.IsNil() {
			return a.IsNil() == b.IsNil()
		}
		return a.Pointer() == b.Pointer()
	case reflect.Chan, reflect.UnsafePointer:
		return a.Pointer() == b.Pointer()
	case reflect.Ptr:
		if a.IsNil() || b.IsNil() {
			return a.IsNil() == b.IsNil()
		}
		if a.Pointer() == b.Pointer() {
			return true
		}
		return lwEqV(a.Elem(), b.Elem(), d+1)
	case reflect.Interface:
		if a.IsNil() || b.IsNil() {
			return a.IsNil() == b.IsNil()
		}
		return lwEqV(a.Elem(), b.Elem(), d+1)
	case reflect.Slice:
		if a.Len() != b.Len() {
			return false
		}
		for i := 0; i < a.Len(); i++ {
			if !lwEqV(a.Index(i), b.Index(i), d+1) {
				return false
			}
		}
		return true
	case reflect.Array:
		for i := 0; i < a.Len(); i++ {
			if !lwEqV(a.Index(i), b.Index(i), d+1) {
				return false
			}
		}
		return true
	case reflect.Map:
		if a.Len() != b.Len() {
			return false
		}
		it := a.MapRange()
		for it.Next() {
			bv := b.MapIndex(it.Key())
			if !bv.IsValid() || !lwEqV(it.Value(), bv, d+1) {
				return false
			}
		}
		return true
	case reflect.Struct:
		for i := 0; i < a.NumField(); i++ {
			if !lwEqV(a.Field(i), b.Field(i), d+1) {
				return false
			}
		}
		return true
	}
	return false
}

// lwIdent: shallow identity of two field values (same scalar, same pointer / map / chan /
// func identity, same slice header, same dynamic value of an interface).
func lwIdent(a, b any) bool { return lwIdentV(reflect.ValueOf(a), reflect.ValueOf(b), 0) }

func lwIdentV(a, b reflect.Value, d int) bool {
	if !a.IsValid() || !b.IsValid() {
		return a.IsValid() == b.IsValid()
	}
	if a.Type() != b.Type() {
		return false
	}
	switch a.Kind() {
	case reflect.Ptr, reflect.Map, reflect.Chan, reflect.Func, reflect.UnsafePointer:
		return a.Pointer() == b.Pointer()
	case reflect.Slice:
		return a.Pointer() == b.Pointer() && a.Len() == b.Len() && a.Cap() == b.Cap()
	case reflect.Interface:
		if a.IsNil() || b.IsNil() {
			return a.IsNil() == b.IsNil()
		}
		return lwIdentV(a.Elem(), b.Elem(), d+1)
	case reflect.Struct:
		for i := 0; i < a.NumField(); i++ {
			if !lwIdentV(a.Field(i), b.Field(i), d+1) {
				return false
			}
		}
		return true
	case reflect.Array:
		for i := 0; i < a.Len(); i++ {
			if !lwIdentV(a.Index(i), b.Index(i), d+1) {
				return false
			}
		}
		return true
	}
	return lwEqV(a, b, d)
}

func lwShow(v any) string {
	s := fmt.Sprintf("%#v", v)
	if len(s) > 160 {
		s = s[:160] + "…"
	}
	return strings.ReplaceAll(strings.ReplaceAll(s, "\n", "\\n"), "\t", "\\t")
}

// ---- reporting ----

type lwMeta struct {
	name   string
	names  []string // every field except blank ones, declaration order
	kinds  []string // field kind per field
	app    []bool   // applicable (part of tuples, maps, Mutable, ...)
	isOpt  []bool
	tags   []string
}

type lwRep struct {
	out   *os.File
	seen  map[string]int
	evals map[string]int64
	stats map[string]int64
	cur   string
}

func (p *lwRep) fail(st, law, field, kind, detail string) {
	k := st + "\t" + law + "\t" + field
	p.seen[k]++
	if p.seen[k] > 1 {
		return
	}
	detail = strings.ReplaceAll(strings.ReplaceAll(detail, "\n", "\\n"), "\t", " ")
	if len(detail) > 600 {
		detail = detail[:600] + "…"
	}
	fmt.Fprintf(p.out, "FAIL\t%s\t%s\t%s\t%s\t%s\n", st, law, field, kind, detail)
}

func (p *lwRep) ev(st string, n int) { p.evals[st] += int64(n) }
func (p *lwRep) stat(k string, n int) { p.stats[k] += int64(n) }

// one: got must equal want.
func (p *lwRep) one(m *lwMeta, law string, i int, got, want any) {
	p.ev(m.name, 1)
	if !lwEq(got, want) {
		p.fail(m.name, law, m.names[i], m.kinds[i], "got "+lwShow(got)+" want "+lwShow(want))
	}
}

// others: every field except i must be identical in got and base.
func (p *lwRep) others(m *lwMeta, law string, i int, got, base []any) {
	p.ev(m.name, 1)
	for j := range got {
		if j != i && !lwEq(got[j], base[j]) {
			p.fail(m.name, law+"-changes-other", m.names[j], m.kinds[j], "after "+law+" of "+m.names[i]+": field "+m.names[j]+" is "+lwShow(got[j])+" was "+lwShow(base[j]))
		}
	}
}

// all: got must equal want on every field.
func (p *lwRep) all(m *lwMeta, law string, got, want []any) {
	p.ev(m.name, 1)
	for j := range got {
		if !lwEq(got[j], want[j]) {
			p.fail(m.name, law, m.names[j], m.kinds[j], "got "+lwShow(got[j])+" want "+lwShow(want[j]))
		}
	}
}

// mix: applicable fields must come from x, the others from y.
func (p *lwRep) mix(m *lwMeta, law string, got, x, y []any) {
	p.ev(m.name, 1)
	for j := range got {
		want := y[j]
		if m.app[j] {
			want = x[j]
		}
		if !lwEq(got[j], want) {
			p.fail(m.name, law, m.names[j], m.kinds[j], "got "+lwShow(got[j])+" want "+lwShow(want))
		}
	}
}

// appOnly: applicable fields of got must equal those of x (nothing demanded of the others).
func (p *lwRep) appOnly(m *lwMeta, law string, got, x []any) {
	p.ev(m.name, 1)
	for j := range got {
		if m.app[j] && !lwEq(got[j], x[j]) {
			p.fail(m.name, law, m.names[j], m.kinds[j], "got "+lwShow(got[j])+" want "+lwShow(x[j]))
		}
	}
}

// seq: positional values (tuple components, Unapply results, ...) must equal the applicable
// fields of x in declaration order.
func (p *lwRep) seq(m *lwMeta, law string, got []any, x []any) {
	p.ev(m.name, 1)
	k := 0
	for j := range x {
		if !m.app[j] {
			continue
		}
		if k >= len(got) {
			p.fail(m.name, law, m.names[j], m.kinds[j], "too few positions")
			return
		}
		if !lwEq(got[k], x[j]) {
			p.fail(m.name, law, m.names[j], m.kinds[j], fmt.Sprintf("position %d is %s, field holds %s", k+1, lwShow(got[k]), lwShow(x[j])))
		}
		k++
	}
	if k != len(got) {
		p.fail(m.name, law, "-", "-", fmt.Sprintf("%d positions for %d applicable fields", len(got), k))
	}
}

// arity: a positional view (tuple components, Unapply results, Apply parameters) must have
// exactly one position per field of the spec that gombok keeps.
func (p *lwRep) arity(m *lwMeta, view string, got int, kept []string) {
	p.ev(m.name, 1)
	if got != len(kept) {
		p.fail(m.name, "field-set-"+view, "-", "-", fmt.Sprintf("%d positions, but the spec keeps %d fields %v", got, len(kept), kept))
	}
}

// twin: the Mutable twin has one field per field of the spec (all of them, skipped ones
// included), in declaration order; embedded fields stay embedded.
func (p *lwRep) twin(m *lwMeta, mt reflect.Type, names []string, anon []bool) {
	p.ev(m.name, 1)
	if mt.NumField() != len(names) {
		var got []string
		for i := 0; i < mt.NumField(); i++ {
			got = append(got, mt.Field(i).Name)
		}
		p.fail(m.name, "field-set-mutable", "-", "-", fmt.Sprintf("Mutable twin has %d fields %v, the spec has %d %v", mt.NumField(), got, len(names), names))
		return
	}
	for i := range names {
		f := mt.Field(i)
		if f.Name != names[i] || f.Anonymous != anon[i] {
			p.fail(m.name, "field-set-mutable", names[i], "-", fmt.Sprintf("field %d of the Mutable twin is %q (embedded=%v), expected %q (embedded=%v)", i, f.Name, f.Anonymous, names[i], anon[i]))
		}
	}
}

func (p *lwRep) strs(m *lwMeta, law string, got []string, want []string) {
	p.ev(m.name, 1)
	if len(got) != len(want) {
		p.fail(m.name, law, "-", "-", fmt.Sprintf("got %q want %q", got, want))
		return
	}
	for i := range got {
		if got[i] != want[i] {
			p.fail(m.name, law, want[i], "-", fmt.Sprintf("position %d: got %q want %q", i+1, got[i], want[i]))
		}
	}
}

// lwShape names the edge shape of a field value (evidence: which shapes the laws really saw).
func lwShape(v reflect.Value) string {
	if !v.IsValid() {
		return "nil"
	}
	switch v.Kind() {
	case reflect.Ptr:
		switch {
		case v.IsNil():
			return "nil"
		case lwZeroish(v.Elem()):
			return "to-zero"
		}
		return "other"
	case reflect.Slice:
		switch {
		case v.IsNil():
			return "nil"
		case v.Len() == 0 && v.Cap() > 0:
			return "empty-capacious"
		case v.Len() == 0:
			return "empty"
		case lwZeroish(v.Index(0)):
			return "zero-element"
		}
		return "other"
	case reflect.Map:
		switch {
		case v.IsNil():
			return "nil"
		case v.Len() == 0:
			return "empty"
		}
		return "other"
	case reflect.Func, reflect.Chan, reflect.Interface:
		if v.IsNil() {
			return "nil"
		}
		return "other"
	}
	if v.IsZero() {
		return "zero"
	}
	return "other"
}

func lwKindName(v reflect.Value) string {
	if !v.IsValid() {
		return "interface"
	}
	return v.Kind().String()
}

// pool counts, per field of the value the laws of this iteration are evaluated on, the shape of
// the field value: STAT pool.<kind>.<shape>, Option fields as pool.option.none /
// pool.option.some-<shape>-<element kind>. forced = the value comes from the forced pool.
func (p *lwRep) pool(m *lwMeta, x []any, forced bool) {
	if forced {
		p.stat("pool.forced-iterations", 1)
	}
	for j, v := range x {
		rv := reflect.ValueOf(&v).Elem().Elem()
		if m.isOpt[j] {
			if !rv.Field(0).Bool() {
				p.stat("pool.option.none", 1)
				continue
			}
			in := rv.Field(1)
			if in.Kind() == reflect.Interface && !in.IsNil() {
				p.stat("pool.option.some-other-interface", 1)
				continue
			}
			p.stat("pool.option.some-"+lwShape(in)+"-"+in.Kind().String(), 1)
			continue
		}
		k := lwKindName(rv)
		if rv.IsValid() && m.kinds[j] != "" && (m.kinds[j] == "iface" || m.kinds[j] == "any" || strings.HasPrefix(m.kinds[j], "emb-iface")) {
			k = "interface" // a non-nil interface value shows its dynamic kind through any
		}
		sh := "other"
		if k != "interface" || !rv.IsValid() {
			sh = lwShape(rv)
		}
		p.stat("pool."+k+"."+sh, 1)
	}
}

// recoverable: can FromMap recover this field value from AsMap by type assertion?
func lwRecoverable(v any, isOpt bool) bool {
	if v == nil {
		return false
	}
	if isOpt {
		rv := reflect.ValueOf(v)
		if !rv.Field(0).Bool() {
			return false
		}
		in := rv.Field(1)
		if in.Kind() == reflect.Interface && in.IsNil() {
			return false
		}
	}
	return true
}

// asMap law: keys are the applicable field names; Option fields are present iff defined and
// carry the payload.
func (p *lwRep) asMap(m *lwMeta, mp map[string]any, x []any, payload func(j int) (any, bool)) {
	p.ev(m.name, 1)
	want := 0
	for j := range x {
		if !m.app[j] {
			if _, ok := mp[m.names[j]]; ok {
				p.fail(m.name, "asmap", m.names[j], m.kinds[j], "skipped field present in AsMap")
			}
			continue
		}
		got, ok := mp[m.names[j]]
		if m.isOpt[j] {
			pv, def := payload(j)
			if def != ok {
				p.fail(m.name, "asmap", m.names[j], m.kinds[j], fmt.Sprintf("Option field defined=%v but key present=%v", def, ok))
			} else if def && !lwEq(got, pv) {
				p.fail(m.name, "asmap", m.names[j], m.kinds[j], "got "+lwShow(got)+" want payload "+lwShow(pv))
			}
			if def {
				want++
			}
			continue
		}
		want++
		if !ok {
			p.fail(m.name, "asmap", m.names[j], m.kinds[j], "key missing")
		} else if !lwEq(got, x[j]) {
			p.fail(m.name, "asmap", m.names[j], m.kinds[j], "got "+lwShow(got)+" want "+lwShow(x[j]))
		}
	}
	if len(mp) != want {
		p.fail(m.name, "asmap", "-", "-", fmt.Sprintf("%d keys, expected %d", len(mp), want))
	}
}

// fromMap law: recoverable applicable fields come from x; nothing is demanded of the others.
func (p *lwRep) fromMap(m *lwMeta, law string, got, x []any) {
	p.ev(m.name, 1)
	for j := range got {
		if m.app[j] && lwRecoverable(x[j], m.isOpt[j]) && !lwEq(got[j], x[j]) {
			p.fail(m.name, law, m.names[j], m.kinds[j], "got "+lwShow(got[j])+" want "+lwShow(x[j]))
		}
		if m.app[j] && m.isOpt[j] && lwRecoverable(x[j], true) {
			// nil == empty for lwEq: a defined Option must come back DEFINED (Some(typed nil) is not None)
			if in := reflect.ValueOf(x[j]).Field(1); lwShape(in) == "nil" {
				p.stat(law+".option-some-typed-nil-demanded", 1)
			}
		}
	}
}

func (p *lwRep) hand(m *lwMeta, key string, before int) {
	p.ev(m.name, 1)
	if HandCalls[key] != before+1 {
		p.fail(m.name, "hand-written-kept", key, "-", "the hand-written method was not the one called")
	}
}

func (p *lwRep) hasMethod(m *lwMeta, v any, name string, want bool) {
	p.ev(m.name, 1)
	_, ok := reflect.TypeOf(v).MethodByName(name)
	if ok != want {
		p.fail(m.name, "method-set", name, "-", fmt.Sprintf("method %s present=%v, expected %v", name, ok, want))
	}
}

func (p *lwRep) guard(st, law string, f func()) {
	defer func() {
		if e := recover(); e != nil {
			p.fail(st, "panic", law, "-", fmt.Sprint(e))
		}
	}()
	f()
}

type lwTagWant struct {
	name      string // Go name of the Mutable twin's field ("" = embedded: any name, Anonymous)
	anonymous bool
	tag       string // expected tag
	alt       string // accepted alternative ("" = none)
	kind      string
}

func (p *lwRep) mutableShape(st string, mt reflect.Type, xt reflect.Type, want []lwTagWant) {
	p.ev(st, 1)
	if mt.NumField() != len(want) || xt.NumField() != len(want) {
		p.fail(st, "mutable-shape", "-", "-", fmt.Sprintf("Mutable twin has %d fields, struct has %d, spec has %d", mt.NumField(), xt.NumField(), len(want)))
		return
	}
	for i, w := range want {
		f := mt.Field(i)
		if f.Anonymous != w.anonymous || (!w.anonymous && f.Name != w.name) {
			p.fail(st, "mutable-shape", w.name, w.kind, fmt.Sprintf("field %d is %q (anonymous=%v), expected %q", i, f.Name, f.Anonymous, w.name))
			continue
		}
		if f.Type != xt.Field(i).Type {
			p.fail(st, "mutable-shape", w.name, w.kind, fmt.Sprintf("field %d has type %v, struct field has %v", i, f.Type, xt.Field(i).Type))
		}
		if string(f.Tag) != w.tag && (w.alt == "" || string(f.Tag) != w.alt) {
			p.fail(st, "mutable-tag", w.name, w.kind, fmt.Sprintf("tag is %q, expected %q", string(f.Tag), w.tag))
		}
		if string(f.Tag) == w.tag {
			p.stat("tag.as-ruled", 1)
		} else {
			p.stat("tag.alternative."+w.kind, 1)
		}
	}
}

func lwRun(t *testing.T, seed uint64, body func(p *lwRep)) {
	f, err := os.Create("lw_result.txt")
	if err != nil {
		t.Fatal(err)
	}
	defer f.Close()
	p := &lwRep{out: f, seen: map[string]int{}, evals: map[string]int64{}, stats: map[string]int64{}}
	body(p)
	var ks []string
	for k := range p.evals {
		ks = append(ks, k)
	}
	sort.Strings(ks)
	for _, k := range ks {
		fmt.Fprintf(f, "EVALS\t%s\t%d\n", k, p.evals[k])
	}
	ks = ks[:0]
	for k := range p.stats {
		ks = append(ks, k)
	}
	sort.Strings(ks)
	for _, k := range ks {
		fmt.Fprintf(f, "STAT\t%s\t%d\n", k, p.stats[k])
	}
	ks = ks[:0]
	for k, n := range p.seen {
		if n > 1 {
			ks = append(ks, fmt.Sprintf("%s\t%d", k, n))
		}
	}
	sort.Strings(ks)
	for _, k := range ks {
		fmt.Fprintf(f, "REPEAT\t%s\n", k)
	}
	fmt.Fprintf(f, "DONE\n")
}
`
