package gbk

import (
	"fmt"
	"sort"
	"strings"
	"unicode"
)

// Field of a struct spec. Name is the Go field name ("_" for a blank field; the type name
// for an embedded field).
type Field struct {
	Name     string
	Ty       *Ty
	Tag      string // raw struct tag (without back quotes)
	Embedded bool
	EmptyEmb bool   // embedded struct type without fields (skipped by gombok)
	JoinNext bool   // printed as `a, b T` together with the next field
	EmbKind  string // embedded fields: which kind of type is embedded (see embedded.go); "" for the legacy Emb / EmbNE of the JSON flavour
}

// Public follows gombok's metafp.StructField.Public: first rune is not a lower-case letter
// (so `_x` counts as public: no getter, no With, no builder setter).
func (f Field) Public() bool { return !unicode.IsLower([]rune(f.Name)[0]) }

// Applicable follows gombok's applyFields: `_`-prefixed and empty embedded fields are left
// out of tuples, Apply/Unapply, maps, labelled, Mutable conversion and constructors.
func (f Field) Applicable() bool {
	return !strings.HasPrefix(f.Name, "_") && !(f.Embedded && f.EmptyEmb)
}

func (f Field) Vis() string {
	switch {
	case f.Embedded && f.EmptyEmb:
		return "embedded-empty"
	case f.Embedded:
		return "embedded"
	case strings.HasPrefix(f.Name, "_"):
		return "underscore"
	case f.Public():
		return "public"
	}
	return "private"
}

func (f Field) PubName() string { return strings.ToUpper(f.Name[:1]) + f.Name[1:] }

// MutableName is the name of the field's counterpart in the generated Mutable twin: the
// public spelling of the field name; an embedded field stays embedded (same name).
func (f Field) MutableName() string {
	if f.Embedded {
		return f.Name
	}
	return f.PubName()
}

// Kept lists the fields gombok is documented to keep in AsTuple / Unapply / Apply / AsMap /
// FromMap / AsMutable / AsImmutable / constructors, in declaration order: everything except
// `_`-prefixed fields and embedded EMPTY structs.
func (s *Struct) Kept() []Field {
	var out []Field
	for _, f := range s.Fields {
		if f.Applicable() {
			out = append(out, f)
		}
	}
	return out
}

// TParam is a type parameter of a struct spec.
type TParam struct {
	Name    string
	CSrc    string // constraint as spelled in the input package
	CK      string // constraint kind: any, comparable, named-iface, imported-iface, inline-methods, named-typeset, inline-typeset, typeset+method
	Inst    *Ty    // instantiation used by the law test
	Imports []string
}

// Hand is a hand-written method that has the name of a generated one.
type Hand struct {
	Kind  string // getter | with | bsetter | string
	Field int
}

type Struct struct {
	Name             string
	TParams          []TParam
	Fields           []Field
	Ann              map[string]bool // "@fp.Value", "@fp.Json", ...
	AnnOrder         []string
	InGroup          bool     // declared inside a `type ( ... )` group
	Doc              []string // extra doc-comment lines
	Trailing         bool     // `struct { // comment`
	Hands            []Hand
	Derived          string // `type Name Derived` (fields are those of the struct named Derived)
	DerivedArgs      string // `type Name Derived[int]`: type arguments when the base is generic ("" otherwise)
	TypeParamsJoined bool   // `[K, V any]` instead of `[K any, V any]` (all constraints equal)
	Origin           string // provenance: seed name or "grammar"
	Combo            *Combo // annotation-combination struct (combos.go): compile errors are keyed by the minimal failing subset
}

func (s *Struct) NApp() int {
	n := 0
	for _, f := range s.Fields {
		if f.Applicable() {
			n++
		}
	}
	return n
}

func (s *Struct) HasHand(kind string, field int) bool {
	for _, h := range s.Hands {
		if h.Kind == kind && (h.Field == field || kind == "string") {
			return true
		}
	}
	return false
}

func (s *Struct) HandBuilderType() bool {
	for _, h := range s.Hands {
		if h.Kind == "bsetter" {
			return true
		}
	}
	return false
}

// TypeArgsDecl is "[A any, B comparable]" or "".
func (s *Struct) TypeParamsDecl() string {
	if len(s.TParams) == 0 {
		return ""
	}
	var ps []string
	if s.TypeParamsJoined {
		for _, p := range s.TParams {
			ps = append(ps, p.Name)
		}
		return "[" + strings.Join(ps, ", ") + " " + s.TParams[0].CSrc + "]"
	}
	for _, p := range s.TParams {
		ps = append(ps, p.Name+" "+p.CSrc)
	}
	return "[" + strings.Join(ps, ", ") + "]"
}

// TypeParamsUse is "[A, B]" or "".
func (s *Struct) TypeParamsUse() string {
	if len(s.TParams) == 0 {
		return ""
	}
	var ps []string
	for _, p := range s.TParams {
		ps = append(ps, p.Name)
	}
	return "[" + strings.Join(ps, ", ") + "]"
}

// ConcArgs is "[int, string]" (the law test's instantiation) or "".
func (s *Struct) ConcArgs() string {
	if len(s.TParams) == 0 {
		return ""
	}
	var ps []string
	for _, p := range s.TParams {
		ps = append(ps, p.Inst.Conc)
	}
	return "[" + strings.Join(ps, ", ") + "]"
}

func ArityClass(n int) string {
	switch {
	case n == 0:
		return "0"
	case n <= 3:
		return fmt.Sprint(n)
	case n <= 8:
		return "4-8"
	case n <= 20:
		return "9-20"
	case n == 21:
		return "21"
	case n == 22:
		return "22"
	}
	return ">22"
}

// Fingerprint: multiset of field kind x visibility, annotation set, arity class, constraint kinds.
func (s *Struct) Fingerprint() string {
	var fs []string
	for _, f := range s.Fields {
		fs = append(fs, f.Ty.FK+"/"+f.Vis())
	}
	sort.Strings(fs)
	var as []string
	for a := range s.Ann {
		as = append(as, a)
	}
	sort.Strings(as)
	var cs []string
	for _, p := range s.TParams {
		cs = append(cs, p.CK)
	}
	sort.Strings(cs)
	hands := []string{}
	for _, h := range s.Hands {
		hands = append(hands, h.Kind)
	}
	sort.Strings(hands)
	return strings.Join(fs, ",") + "|" + strings.Join(as, ",") + "|" + ArityClass(s.NApp()) + "|" + strings.Join(cs, ",") + "|" + strings.Join(hands, ",")
}

// Summary is the short human description used in samples and witnesses.
func (s *Struct) Summary() string {
	var as []string
	for _, a := range s.AnnOrder {
		as = append(as, a)
	}
	kinds := map[string]int{}
	for _, f := range s.Fields {
		kinds[f.Ty.FK+"/"+f.Vis()]++
	}
	var ks []string
	for k, n := range kinds {
		ks = append(ks, fmt.Sprintf("%s×%d", k, n))
	}
	sort.Strings(ks)
	return fmt.Sprintf("%s%s %s fields=%d(applicable %d) {%s} origin=%s", s.Name, s.TypeParamsDecl(), strings.Join(as, " "), len(s.Fields), s.NApp(), strings.Join(ks, " "), s.Origin)
}

// Pkg is one generated input package.
type Pkg struct {
	Name         string
	Structs      []*Struct
	JSON         bool   // C15 flavour: law test runs the JSON laws
	Extra        string // extra verbatim declarations (seed shapes such as @fp.Deref aliases)
	ExtraImports []string
}

func (p *Pkg) Find(name string) *Struct {
	for _, s := range p.Structs {
		if s.Name == name {
			return s
		}
	}
	return nil
}

// Without returns a copy of the package without the named structs and without every struct
// that refers to one of them (transitively).
func (p *Pkg) Without(names map[string]bool) *Pkg {
	drop := map[string]bool{}
	for n := range names {
		drop[n] = true
	}
	for changed := true; changed; {
		changed = false
		for _, s := range p.Structs {
			if drop[s.Name] {
				continue
			}
			if s.Derived != "" && drop[s.Derived] {
				drop[s.Name], changed = true, true
				continue
			}
			for _, f := range s.Fields {
				for d := range drop {
					if refersTo(f.Ty.Src, d) {
						drop[s.Name], changed = true, true
					}
				}
			}
		}
	}
	q := *p
	q.Structs = nil
	for _, s := range p.Structs {
		if !drop[s.Name] {
			q.Structs = append(q.Structs, s)
		}
	}
	return &q
}

func refersTo(src, name string) bool {
	for i := 0; i+len(name) <= len(src); i++ {
		if src[i:i+len(name)] == name {
			before := i == 0 || !isIdent(src[i-1])
			after := i+len(name) == len(src) || !isIdent(src[i+len(name)])
			if before && after {
				return true
			}
		}
	}
	return false
}

func isIdent(c byte) bool {
	return c == '_' || c >= '0' && c <= '9' || c >= 'a' && c <= 'z' || c >= 'A' && c <= 'Z'
}
