package gbk

import (
	"fmt"
	"math/rand/v2"
	"regexp"
	"sort"
	"strings"
)

// Annotation combinations ON ONE STRUCT. gombok's annotations are implemented by separate
// passes over a tagged struct (processAllArgsCons, processValue, processGetter, processWith,
// processDeref, processString, processBuilder) that share one set of "methods generated so
// far"; whether two passes that emit the same member are kept apart depends on that
// bookkeeping, and the random grammar only draws the annotation sets of the in-repo examples.
// The combination packages hold one small struct per subset of ComboAnnotations - every single,
// pair and triple, the full set and a PRNG sample of larger subsets - over a layout that has
// every field kind the passes distinguish (private / public x plain / Option / pointer,
// embedded), and the singles and pairs once more over three reduced layouts (only private
// Option fields, only public fields, embedded + pointer).
//
// @fp.Deref is part of the subsets although it has nothing to forward to on a struct declaration
// (probed: gombok sets the right-hand-side type only for `type X pkg.T` / `type X G[A]`; a struct
// declaration and a local `type D Base` are accepted and ignored) - it must stay harmless next to
// every other annotation. Declarations `type D Base[int]` of a generic local struct are outside the
// grammar: gombok prints the uninstantiated field types there (`undefined: T`) under every annotation.
//
// What gombok makes of a subset is not assumed: the expectations of the law test follow from
// the annotations one by one (lawtest.go exp*), and a subset whose generated code does not
// compile is a violation keyed by the MINIMAL failing subsets (see ComboFindings).

// ComboAnnotations are the annotations whose subsets are enumerated.
var ComboAnnotations = []string{"@fp.Value", "@fp.Getter", "@fp.With", "@fp.Builder", "@fp.AllArgsConstructor", "@fp.RequiredArgsConstructor",
	"@fp.GetterPubField", "@fp.WithPubField", "@fp.Json", "@fp.GenLabelled", "@fp.String", "@fp.Deref"}

// Combo is the provenance of a combination struct.
type Combo struct {
	Anns   []string // subset, in ComboAnnotations order
	N      int      // number of the struct (suffix of its name and of its field names)
	Layout string   // all | private-option | public-only | embedded-pointer
}

// Label is the stable name of the subset: "Builder+Value" (sorted, without the @fp. prefix).
func (c *Combo) Label() string { return comboLabel(c.Anns) }

func comboLabel(anns []string) string {
	var xs []string
	for _, a := range anns {
		xs = append(xs, strings.TrimPrefix(a, "@fp."))
	}
	sort.Strings(xs)
	return strings.Join(xs, "+")
}

// ComboLayouts lists the field layouts of the combination structs.
var ComboLayouts = []string{"all", "private-option", "public-only", "embedded-pointer"}

// comboFields: the field names carry the struct's number, so that no struct borrows a package-level
// declaration (the Named<Field> types of @fp.GenLabelled) that gombok emitted for a sibling.
func (g *G) comboFields(layout string, n int) []Field {
	f := func(name string, t *Ty) Field { return fld(fmt.Sprintf("%s%d", name, n), t) }
	switch layout {
	case "private-option":
		return []Field{f("name", tStr()), f("opt", OptionT(tInt(), true)), f("osl", OptionT(SliceT(tInt()), true))}
	case "public-only":
		return []Field{f("Pub", tStr()), f("PubOpt", OptionT(tInt(), true)), f("PubPtr", PtrT(tInt()))}
	case "embedded-pointer":
		return []Field{g.Emb("ptr-struct"), f("ptr", PtrT(tInt())), g.Emb("named-basic")}
	}
	return []Field{f("name", tStr()), f("opt", OptionT(tInt(), true)), f("optp", OptionT(PtrT(tInt()), true)), f("ptr", PtrT(tInt())),
		f("Pub", tStr()), f("PubOpt", OptionT(SliceT(tStr()), true)), f("PubPtr", PtrT(tStr())), g.Emb("ptr-struct")}
}

// comboSubsets enumerates the subsets: all singles, pairs and triples, the full set, and
// extra PRNG subsets of 4..9 annotations.
func comboSubsets(r *rand.Rand, extra int) [][]string {
	n := len(ComboAnnotations)
	var out [][]string
	seen := map[string]bool{}
	add := func(idx ...int) {
		sort.Ints(idx)
		var s []string
		for _, i := range idx {
			s = append(s, ComboAnnotations[i])
		}
		k := strings.Join(s, ",")
		if !seen[k] {
			seen[k] = true
			out = append(out, s)
		}
	}
	for a := 0; a < n; a++ {
		add(a)
	}
	for a := 0; a < n; a++ {
		for b := a + 1; b < n; b++ {
			add(a, b)
		}
	}
	for a := 0; a < n; a++ {
		for b := a + 1; b < n; b++ {
			for c := b + 1; c < n; c++ {
				add(a, b, c)
			}
		}
	}
	all := make([]int, n)
	for i := range all {
		all[i] = i
	}
	add(all...)
	for k := 0; k < extra; k++ {
		sz := 4 + r.IntN(6)
		add(r.Perm(n)[:sz]...)
	}
	return out
}

// ComboPackages builds the combination structs and spreads them over nPkg packages named
// <prefix>0.. (round-robin, so that every package is a mix of subset sizes).
func ComboPackages(r *rand.Rand, prefix string, nPkg, extra int) []*Pkg {
	var gs []*G
	for k := 0; k < nPkg; k++ {
		gs = append(gs, NewG(r, fmt.Sprintf("%s%d", prefix, k), false))
	}
	n := 0
	put := func(anns []string, layout string) {
		g := gs[n%nPkg]
		order := append([]string(nil), anns...)
		if len(order) > 1 && r.IntN(100) < 30 { // the order of the annotation lines is free
			r.Shuffle(len(order), func(i, j int) { order[i], order[j] = order[j], order[i] })
		}
		s := g.mk(fmt.Sprintf("Q%d", n), "annotations/"+comboLabel(anns)+"/"+layout, order, g.comboFields(layout, n)...)
		s.Combo = &Combo{Anns: anns, Layout: layout, N: n}
		n++
	}
	for _, sub := range comboSubsets(r, extra) {
		put(sub, "all")
		if len(sub) <= 2 {
			for _, l := range ComboLayouts[1:] {
				put(sub, l)
			}
		}
	}
	var out []*Pkg
	for _, g := range gs {
		out = append(out, g.Pkg())
	}
	return out
}

// ComboCompileError is one compiler message about the generated code of a combination struct,
// with the struct's own name replaced by S (so that messages of different structs compare).
type ComboCompileError struct {
	Struct *Struct
	Class  string
	Msg    string // normalised
	Raw    string
}

var (
	reDupMethod  = regexp.MustCompile(`^method (\w+)\.\w+ already declared`)
	reNamedUndef = regexp.MustCompile(`^undefined: (?:Pub)?Named\w+`)
)

// normCompileMsg makes the compiler messages of different structs comparable: the struct's own
// name becomes S, its number is taken off the field-derived names, positions are dropped; duplicate
// methods are named by their owner only (S, SBuilder, SMutable) and undefined Named<Field> types of
// @fp.GenLabelled by their family, so that a superset with one more field-shaped member of the same
// family counts as explained by its subset.
func normCompileMsg(msg string, s *Struct) string {
	out := msg
	name := s.Name
	for _, suf := range []string{"Builder", "Mutable", ""} {
		out = replaceIdent(out, name+suf, "S"+suf)
	}
	out = replaceIdent(out, "New"+name, "NewS")
	if i := strings.Index(out, " at "); i >= 0 {
		out = out[:i]
	}
	if s.Combo != nil {
		out = regexp.MustCompile(fmt.Sprintf(`([A-Za-z_])%d\b`, s.Combo.N)).ReplaceAllString(out, "$1")
	}
	out = strings.TrimSpace(out)
	if m := reDupMethod.FindStringSubmatch(out); m != nil {
		return "method " + m[1] + ".* already declared"
	}
	if reNamedUndef.MatchString(out) {
		return "undefined: Named<Field>"
	}
	return out
}

func replaceIdent(s, name, by string) string {
	var b strings.Builder
	for i := 0; i < len(s); {
		if strings.HasPrefix(s[i:], name) {
			before := i == 0 || !isIdent(s[i-1])
			after := i+len(name) == len(s) || !isIdent(s[i+len(name)])
			if before && after {
				b.WriteString(by)
				i += len(name)
				continue
			}
		}
		b.WriteByte(s[i])
		i++
	}
	return b.String()
}

// ComboFindings turns the compile errors of combination structs (collected over all
// combination packages of a run) into findings keyed by the MINIMAL failing subsets: a subset
// whose every (normalised) compiler message already occurs for one of its failing proper
// subsets of the same layout is explained by them and only counted. So one defect in the
// bookkeeping between two passes gives one key <prefix>/compile/<class>/annotations/<A+B>, and
// a second defect elsewhere is still reported while the first is a known finding.
func ComboFindings(prefix string, errs []ComboCompileError, inputOf func(*Struct) string) (out []Finding, explained int) {
	type bucket struct {
		s    *Struct
		msgs map[string]ComboCompileError
	}
	by := map[*Struct]*bucket{}
	var order []*bucket
	for _, e := range errs {
		b := by[e.Struct]
		if b == nil {
			b = &bucket{s: e.Struct, msgs: map[string]ComboCompileError{}}
			by[e.Struct] = b
			order = append(order, b)
		}
		if _, ok := b.msgs[e.Msg]; !ok {
			b.msgs[e.Msg] = e
		}
	}
	subset := func(a, b []string) bool { // a proper subset of b
		if len(a) >= len(b) {
			return false
		}
		in := map[string]bool{}
		for _, x := range b {
			in[x] = true
		}
		for _, x := range a {
			if !in[x] {
				return false
			}
		}
		return true
	}
	sort.SliceStable(order, func(i, j int) bool { return len(order[i].s.Combo.Anns) < len(order[j].s.Combo.Anns) })
	for _, b := range order {
		covered := map[string]bool{}
		var by []string
		for _, o := range order {
			if o == b || o.s.Combo.Layout != b.s.Combo.Layout || !subset(o.s.Combo.Anns, b.s.Combo.Anns) {
				continue
			}
			hit := false
			for m := range o.msgs {
				if _, ok := b.msgs[m]; ok {
					covered[m] = true
					hit = true
				}
			}
			if hit {
				by = append(by, o.s.Combo.Label())
			}
		}
		var left []ComboCompileError
		for m, e := range b.msgs {
			if !covered[m] {
				left = append(left, e)
			}
		}
		if len(left) == 0 {
			explained++
			continue
		}
		sort.Slice(left, func(i, j int) bool { return left[i].Msg < left[j].Msg })
		classes := map[string]bool{}
		for _, e := range left {
			if classes[e.Class] {
				continue
			}
			classes[e.Class] = true
			key := prefix + "/compile/" + e.Class + "/annotations/" + b.s.Combo.Label()
			var msgs []string
			for _, x := range left {
				if x.Class == e.Class {
					msgs = append(msgs, x.Raw)
				}
			}
			detail := fmt.Sprintf("one struct annotated with %s (field layout %q): the generated code does not compile: %s\n%s",
				strings.Join(b.s.Combo.Anns, " "), b.s.Combo.Layout, strings.Join(msgs, "; "), inputOf(b.s))
			if len(by) > 0 {
				detail += "\n(other messages for this struct are those of its failing subsets " + strings.Join(by, ", ") + ")"
			}
			out = append(out, Finding{Key: key, Detail: clip(detail, 3000), Struct: b.s,
				Witness: map[string]any{"annotations": b.s.Combo.Anns, "layout": b.s.Combo.Layout, "struct_source": inputOf(b.s), "compiler_messages": msgs, "struct": b.s.Summary()}})
		}
	}
	return out, explained
}
