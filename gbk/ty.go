// Package gbk is shared by the gombok checks C07 and C15: the struct-spec grammar, its Go
// source printer, the law-test writer, and the scratch-module runner (build gombok once,
// run it on a generated package, compile the package together with the law test, run it).
package gbk

import (
	"fmt"
	"sort"
	"strings"
)

// Ty is a field type of the grammar. It knows how it is spelled in the input package (Src),
// how it is spelled in the law test once the struct's type parameters are instantiated
// (Conc), and a Go expression (Gen) that evaluates, inside the law test, to a generator
// lwG[Conc] of values of that type.
type Ty struct {
	FK       string // field-kind label used in fingerprints and violation keys
	Src      string
	Conc     string
	Gen      string
	Cmp      bool     // usable as map key / comparable type argument
	Faithful bool     // encoding/json round-trips every generated value (C15)
	JSONOK   bool     // json.Marshal does not fail for values of this type
	TagRule  string   // "omit" | "plain" | "either": omitempty rule for the Mutable twin's json tag
	Opt      *Ty      // inner type of an fp.Option
	IsPtr    bool     // unnamed pointer type (excluded by @fp.RequiredArgsConstructor)
	Imports  []string // import specs needed by Src in the input package
	Decls    []string // extra top-level declarations needed by Gen in the law test
	UsesTP   []string // names of the struct's type parameters occurring in Src
	InstNull bool     // type parameter whose instantiation has null-encoding values
}

func (t *Ty) merge(cs ...*Ty) *Ty {
	seen := map[string]bool{}
	for _, s := range t.Imports {
		seen[s] = true
	}
	for _, c := range cs {
		for _, s := range c.Imports {
			if !seen[s] {
				seen[s] = true
				t.Imports = append(t.Imports, s)
			}
		}
		t.Decls = append(t.Decls, c.Decls...)
		for _, p := range c.UsesTP {
			found := false
			for _, q := range t.UsesTP {
				if q == p {
					found = true
				}
			}
			if !found {
				t.UsesTP = append(t.UsesTP, p)
			}
		}
	}
	sort.Strings(t.Imports)
	return t
}

const impFP = `"github.com/csgura/fp"`

// ---- leaves ---------------------------------------------------------------------------

func basicGen(name string) string {
	switch name {
	case "int", "int8", "int16", "int32", "int64":
		return "lwInt[" + name + "]()"
	case "uint", "uint8", "uint16", "uint32", "uint64", "uintptr":
		return "lwUint[" + name + "]()"
	case "float32", "float64":
		return "lwFloat[" + name + "]()"
	case "bool":
		return "lwBool[bool]()"
	case "string":
		return "lwStr[string]()"
	case "complex64", "complex128":
		return "lwComplex[" + name + "]()"
	case "byte":
		return "lwUint[byte]()"
	case "rune":
		return "lwInt[rune]()"
	}
	panic("basicGen " + name)
}

// Basic is a predeclared non-interface type.
func Basic(name string) *Ty {
	t := &Ty{FK: "basic", Src: name, Conc: name, Gen: basicGen(name), Cmp: true, Faithful: true, JSONOK: true, TagRule: "plain"}
	if name == "string" {
		t.FK = "string"
		t.TagRule = "omit"
	}
	if strings.HasPrefix(name, "complex") {
		t.Faithful, t.JSONOK = false, false
	}
	if name == "uintptr" {
		t.Faithful = true
	}
	return t
}

// NamedBasic is a named type declared in the support file (MyStr, MyInt, MyFloat).
func NamedBasic(name, under string) *Ty {
	g := basicGen(under)
	g = strings.Replace(g, "["+under+"]", "["+name+"]", 1)
	return &Ty{FK: "named", Src: name, Conc: name, Gen: g, Cmp: true, Faithful: true, JSONOK: true, TagRule: "either"}
}

// Plain is the unannotated local struct `Plain{A int; B string}` of the support file.
func Plain() *Ty {
	return &Ty{FK: "named", Src: "Plain", Conc: "Plain", Gen: "lwG[Plain](lwGenPlain)", Cmp: true, Faithful: true, JSONOK: true, TagRule: "plain"}
}

// ImplT is the support type implementing every interface of the menu.
func ImplT() *Ty {
	return &Ty{FK: "named", Src: "Impl", Conc: "Impl", Gen: "lwG[Impl](lwGenImpl)", Cmp: true, Faithful: true, JSONOK: true, TagRule: "plain"}
}

func TimeT() *Ty {
	return &Ty{FK: "imported", Src: "time.Time", Conc: "time.Time", Gen: "lwTime()", Cmp: true, Faithful: true, JSONOK: true, TagRule: "plain", Imports: []string{`"time"`}}
}

func DurationT() *Ty {
	return &Ty{FK: "imported", Src: "time.Duration", Conc: "time.Duration", Gen: "lwInt[time.Duration]()", Cmp: true, Faithful: true, JSONOK: true, TagRule: "either", Imports: []string{`"time"`}}
}

func AtomicBoolT() *Ty {
	return &Ty{FK: "imported", Src: "atomic.Bool", Conc: "atomic.Bool", Gen: "lwZero[atomic.Bool]()", Cmp: false, JSONOK: true, TagRule: "plain", Imports: []string{`"sync/atomic"`}}
}

func OSFileT() *Ty {
	return &Ty{FK: "imported", Src: "os.File", Conc: "os.File", Gen: "lwZero[os.File]()", Cmp: false, JSONOK: true, TagRule: "plain", Imports: []string{`"os"`}}
}

// iface builds an interface-typed field; vals are Go expressions of non-nil implementations.
func iface(fk, src, conc, rule string, cmp bool, imports []string, vals ...string) *Ty {
	return &Ty{FK: fk, Src: src, Conc: conc, Gen: fmt.Sprintf("lwIface[%s](%s)", conc, strings.Join(vals, ", ")),
		Cmp: cmp, JSONOK: true, TagRule: rule, Imports: imports}
}

func AnyT() *Ty {
	// nil, ints, strings, Impl, bool, Plain (all comparable dynamic values, never an Option)
	t := iface("any", "any", "any", "either", true, nil, "7", `"s"`, "Impl{ID: 3}", "true", "Plain{A: 1, B: \"b\"}", "2.5")
	return t
}

// EmptyIfaceT is the spelled-out empty interface.
func EmptyIfaceT() *Ty {
	return iface("any", "interface{}", "interface{}", "either", true, nil, "7", `"s"`, "Impl{ID: 3}")
}

func LocalIfaceT() *Ty {
	return iface("iface", "Local", "Local", "either", true, nil, "Impl{ID: 1}", "Impl{ID: 2}", "&Impl{ID: 3}")
}

func GreeterT() *Ty {
	return iface("iface", "Greeter", "Greeter", "either", true, nil, "Impl{ID: 1}", "Impl{ID: 2}", "&Impl{ID: 3}")
}

func InlineIfaceT() *Ty {
	return iface("iface", "interface{ Hello() string }", "interface{ Hello() string }", "omit", true, nil, "Impl{ID: 1}", "Impl{ID: 2}", "&Impl{ID: 3}")
}

// InlineEmbedIfaceT mirrors AllKindTypes.i2: an inline interface embedding an imported one.
func InlineEmbedIfaceT() *Ty {
	s := "interface {\n\t\tio.Closer\n\t\tHello() string\n\t}"
	return iface("iface", s, "interface { io.Closer; Hello() string }", "omit", true, []string{`"io"`}, "Impl{ID: 1}", "Impl{ID: 4}")
}

func StringerT() *Ty {
	return iface("iface", "fmt.Stringer", "fmt.Stringer", "either", true, []string{`"fmt"`}, "Impl{ID: 1}", "Impl{ID: 5}")
}

func ReaderT() *Ty {
	return iface("iface", "io.Reader", "io.Reader", "either", true, []string{`"io"`}, "Impl{ID: 1}", "&Impl{ID: 6}")
}

// ReflectTypeT uses an aliased import in the input package, as AllKindTypes does.
func ReflectTypeT() *Ty {
	return iface("iface", "rf.Type", "reflect.Type", "either", true, []string{`rf "reflect"`}, "reflect.TypeOf(0)", `reflect.TypeOf("")`)
}

func ContextT() *Ty {
	return iface("iface", "context.Context", "context.Context", "either", true, []string{`"context"`}, "context.Background()", "context.TODO()")
}

// HlistT is the imported generic struct type of testpk2.Person.list.
func HlistT() *Ty {
	c := "hlist.Cons[string, hlist.Cons[int, hlist.Nil]]"
	return &Ty{FK: "imported", Src: c, Conc: c, Gen: "lwG[" + c + "](func(r *lwRand, nn bool) " + c + " { return hlist.Of2(lwStr[string]()(r, false), lwInt[int]()(r, false)) })",
		Cmp: true, JSONOK: true, TagRule: "plain", Imports: []string{`"github.com/csgura/fp/hlist"`}}
}

func OSFilePtrT() *Ty {
	return &Ty{FK: "ptr", Src: "*os.File", Conc: "*os.File", Gen: "lwPick[*os.File](nil, os.Stdin, os.Stdout, os.Stderr)", Cmp: true, JSONOK: true, TagRule: "omit", IsPtr: true, Imports: []string{`"os"`}}
}

// BlankStructT is the type of a blank padding field `_ struct{}` (never read or generated).
func BlankStructT() *Ty {
	return &Ty{FK: "blank", Src: "struct{}", Conc: "struct{}", Gen: "lwZero[struct{}]()", Cmp: true, Faithful: true, JSONOK: true, TagRule: "plain"}
}

// ---- composites -----------------------------------------------------------------------

// Nullable: some values of the type have the JSON encoding null.
func (t *Ty) Nullable() bool {
	switch t.FK {
	case "ptr", "slice", "bytes", "map", "option", "any", "iface", "seq", "func", "chan", "either":
		return true
	case "tparam":
		return t.InstNull
	}
	return false
}

func PtrT(e *Ty) *Ty {
	// a non-nil pointer to a null-encoding value decodes as a nil pointer: not faithful
	t := &Ty{FK: "ptr", Src: "*" + e.Src, Conc: "*" + e.Conc, Gen: "lwPtrOf(" + e.Gen + ")", Cmp: true, Faithful: e.Faithful && !e.Nullable(), JSONOK: e.JSONOK, TagRule: "omit", IsPtr: true}
	return t.merge(e)
}

func SliceT(e *Ty) *Ty {
	t := &Ty{FK: "slice", Src: "[]" + e.Src, Conc: "[]" + e.Conc, Gen: fmt.Sprintf("lwSliceOf[[]%s](%s)", e.Conc, e.Gen), Faithful: e.Faithful, JSONOK: e.JSONOK, TagRule: "omit"}
	return t.merge(e)
}

func BytesT() *Ty {
	return &Ty{FK: "bytes", Src: "[]byte", Conc: "[]byte", Gen: "lwSliceOf[[]byte](lwUint[byte]())", Faithful: true, JSONOK: true, TagRule: "omit"}
}

func ArrayT(n int, e *Ty) *Ty {
	c := fmt.Sprintf("[%d]%s", n, e.Conc)
	g := fmt.Sprintf("lwG[%s](func(r *lwRand, nn bool) %s { var a %s; for i := range a { a[i] = (%s)(r, false) }; return a })", c, c, c, e.Gen)
	t := &Ty{FK: "array", Src: fmt.Sprintf("[%d]%s", n, e.Src), Conc: c, Gen: g, Cmp: e.Cmp, Faithful: e.Faithful, JSONOK: e.JSONOK, TagRule: "plain"}
	return t.merge(e)
}

func MapT(k, v *Ty) *Ty {
	c := fmt.Sprintf("map[%s]%s", k.Conc, v.Conc)
	t := &Ty{FK: "map", Src: fmt.Sprintf("map[%s]%s", k.Src, v.Src), Conc: c, Gen: fmt.Sprintf("lwMapOf[%s](%s, %s)", c, k.Gen, v.Gen),
		Faithful: k.Faithful && v.Faithful && (k.Conc == "string" || k.Conc == "MyStr"), JSONOK: v.JSONOK && (k.Conc == "string" || k.Conc == "MyStr" || k.FK == "basic" && !strings.HasPrefix(k.Conc, "float") && !strings.HasPrefix(k.Conc, "complex") && k.Conc != "bool"), TagRule: "omit"}
	return t.merge(k, v)
}

// FuncT is a func type; params/results are given as already-built types. named results
// and parameter names are part of the spelling (AllKindTypes has both).
func FuncT(id string, params []*Ty, pnames []string, results []*Ty, rnames []string) *Ty {
	spell := func(conc bool) string {
		var ps, rs []string
		for i, p := range params {
			s := p.Src
			if conc {
				s = p.Conc
			}
			if pnames != nil {
				s = pnames[i] + " " + s
			}
			ps = append(ps, s)
		}
		for i, p := range results {
			s := p.Src
			if conc {
				s = p.Conc
			}
			if rnames != nil {
				s = rnames[i] + " " + s
			}
			rs = append(rs, s)
		}
		out := "func(" + strings.Join(ps, ", ") + ")"
		switch {
		case len(rs) == 1 && rnames == nil:
			out += " " + rs[0]
		case len(rs) > 0:
			out += " (" + strings.Join(rs, ", ") + ")"
		}
		return out
	}
	conc := spell(true)
	// three distinct top-level functions per func type: identity comparison can tell them apart
	var decls []string
	var names []string
	for k := 0; k < 3; k++ {
		name := fmt.Sprintf("lwFn_%s_%d", id, k)
		var ps, rs []string
		for i, p := range params {
			ps = append(ps, fmt.Sprintf("a%d %s", i, p.Conc))
		}
		for i, p := range results {
			rs = append(rs, fmt.Sprintf("r%d %s", i, p.Conc))
		}
		d := fmt.Sprintf("func %s(%s) (%s) { lwSink += %d; return }", name, strings.Join(ps, ", "), strings.Join(rs, ", "), k+1)
		decls = append(decls, d)
		names = append(names, name)
	}
	t := &Ty{FK: "func", Src: spell(false), Conc: conc, Gen: fmt.Sprintf("lwPick[%s](nil, %s)", conc, strings.Join(names, ", ")), TagRule: "omit", Decls: decls}
	all := append(append([]*Ty{}, params...), results...)
	t.merge(all...)
	return t
}

// Func1T is the named func type fp.Func1[A, R].
func Func1T(id string, a, r *Ty) *Ty {
	inner := FuncT(id, []*Ty{a}, nil, []*Ty{r}, nil)
	c := fmt.Sprintf("fp.Func1[%s, %s]", a.Conc, r.Conc)
	g := strings.Replace(inner.Gen, "lwPick["+inner.Conc+"]", "lwPick["+c+"]", 1)
	t := &Ty{FK: "func", Src: fmt.Sprintf("fp.Func1[%s, %s]", a.Src, r.Src), Conc: c, Gen: g, TagRule: "either", Decls: inner.Decls, Imports: []string{impFP}}
	return t.merge(a, r)
}

// ChanT: dir 0 = chan, 1 = chan<-, 2 = <-chan.
func ChanT(dir int, e *Ty) *Ty {
	pre := []string{"chan ", "chan<- ", "<-chan "}[dir]
	// `chan <-chan T` parses as `chan<- (chan T)`: a receive-only element needs parentheses
	elS, elC := e.Src, e.Conc
	if strings.HasPrefix(elC, "<-") {
		elS, elC = "("+elS+")", "("+elC+")"
	}
	c := pre + e.Conc
	src := pre + e.Src
	if dir == 0 {
		c, src = pre+elC, pre+elS
	}
	g := fmt.Sprintf("lwG[%s](func(r *lwRand, nn bool) %s { switch e := r.at(); { case e == 1: return nil; case e > 1: return make(chan %s, 1) }; if !nn && r.n(4) == 0 { return nil }; return make(chan %s, 1) })", c, c, elC, elC)
	t := &Ty{FK: "chan", Src: src, Conc: c, Gen: g, Cmp: true, TagRule: "omit"}
	return t.merge(e)
}

// OptionT is fp.Option[e]. loose = Some(null-encoding) values are generated even in JSON
// mode (then the enclosing struct is only used for the never-panics part).
func OptionT(e *Ty, loose bool) *Ty {
	faithful := e.Faithful && !loose
	if e.IsPtr || e.FK == "any" || e.FK == "iface" {
		faithful = false
	}
	t := &Ty{FK: "option", Src: "fp.Option[" + e.Src + "]", Conc: "fp.Option[" + e.Conc + "]", Gen: fmt.Sprintf("lwOptOf(%s, %v)", e.Gen, loose || !faithful),
		Cmp: e.Cmp, Faithful: faithful, JSONOK: e.JSONOK, TagRule: "omit", Opt: e, Imports: []string{impFP}}
	return t.merge(e)
}

func SeqT(e *Ty) *Ty {
	c := "fp.Seq[" + e.Conc + "]"
	t := &Ty{FK: "seq", Src: "fp.Seq[" + e.Src + "]", Conc: c, Gen: fmt.Sprintf("lwSliceOf[%s](%s)", c, e.Gen), Faithful: e.Faithful, JSONOK: e.JSONOK, TagRule: "either", Imports: []string{impFP}}
	return t.merge(e)
}

func FpMapT(k, v *Ty) *Ty {
	c := fmt.Sprintf("fp.Map[%s, %s]", k.Conc, v.Conc)
	g := fmt.Sprintf("lwZero[%s]()", c)
	if k.Cmp {
		g = fmt.Sprintf("lwFpMapOf(%s, %s)", k.Gen, v.Gen)
	}
	t := &Ty{FK: "fpmap", Src: fmt.Sprintf("fp.Map[%s, %s]", k.Src, v.Src), Conc: c, Gen: g, TagRule: "plain", Imports: []string{impFP}}
	return t.merge(k, v)
}

func TryT(e *Ty) *Ty {
	t := &Ty{FK: "try", Src: "fp.Try[" + e.Src + "]", Conc: "fp.Try[" + e.Conc + "]", Gen: "lwTryOf(" + e.Gen + ")", TagRule: "plain", Imports: []string{impFP}}
	return t.merge(e)
}

func EitherT(l, r *Ty) *Ty {
	t := &Ty{FK: "either", Src: fmt.Sprintf("fp.Either[%s, %s]", l.Src, r.Src), Conc: fmt.Sprintf("fp.Either[%s, %s]", l.Conc, r.Conc),
		Gen: fmt.Sprintf("lwEitherOf(%s, %s)", l.Gen, r.Gen), TagRule: "either", Imports: []string{impFP}}
	return t.merge(l, r)
}

func FutureT(e *Ty) *Ty {
	t := &Ty{FK: "future", Src: "fp.Future[" + e.Src + "]", Conc: "fp.Future[" + e.Conc + "]", Gen: "lwFutureOf(" + e.Gen + ")", TagRule: "plain", Imports: []string{impFP}}
	return t.merge(e)
}

func Tuple2T(a, b *Ty) *Ty {
	c := fmt.Sprintf("fp.Tuple2[%s, %s]", a.Conc, b.Conc)
	g := fmt.Sprintf("lwG[%s](func(r *lwRand, nn bool) %s { return %s{I1: (%s)(r, false), I2: (%s)(r, false)} })", c, c, c, a.Gen, b.Gen)
	t := &Ty{FK: "tuple2", Src: fmt.Sprintf("fp.Tuple2[%s, %s]", a.Src, b.Src), Conc: c, Gen: g, Cmp: a.Cmp && b.Cmp, Faithful: a.Faithful && b.Faithful, JSONOK: a.JSONOK && b.JSONOK, TagRule: "plain", Imports: []string{impFP}}
	return t.merge(a, b)
}

// AnonT is an anonymous struct type; embedEmpty adds the empty embedded `Emb` as in AllKindTypes.st.
func AnonT(embedEmpty bool, names []string, tys []*Ty) *Ty {
	var src, conc, sets []string
	if embedEmpty {
		src = append(src, "Emb")
		conc = append(conc, "Emb")
	}
	cmp, faithful, jsonok := true, true, true
	for i, n := range names {
		src = append(src, n+" "+tys[i].Src)
		conc = append(conc, n+" "+tys[i].Conc)
		sets = append(sets, fmt.Sprintf("s.%s = (%s)(r, false)", n, tys[i].Gen))
		cmp = cmp && tys[i].Cmp
		faithful = faithful && tys[i].Faithful && n[0] >= 'A' && n[0] <= 'Z'
		jsonok = jsonok && tys[i].JSONOK
	}
	c := "struct { " + strings.Join(conc, "; ") + " }"
	g := fmt.Sprintf("lwG[%s](func(r *lwRand, nn bool) %s { var s %s; %s; return s })", c, c, c, strings.Join(sets, "; "))
	t := &Ty{FK: "anon", Src: "struct {\n\t\t" + strings.Join(src, "\n\t\t") + "\n\t}", Conc: c, Gen: g, Cmp: cmp, Faithful: faithful, JSONOK: jsonok, TagRule: "plain"}
	return t.merge(tys...)
}

// StructRefT refers to another annotated struct of the same package (its canonical
// instantiation when it is generic).
func StructRefT(s *Struct) *Ty {
	faithful, jsonok, cmp := s.Ann["@fp.Json"] && s.Ann["@fp.Value"], true, true
	for _, f := range s.Fields {
		if f.Applicable() && !f.Ty.Faithful {
			faithful = false
		}
		if !f.Applicable() && !(f.Embedded && f.EmptyEmb) {
			// state in `_`-fields does not survive JSON
			faithful = false
		}
		if !f.Ty.JSONOK {
			jsonok = false
		}
		if !f.Ty.Cmp {
			cmp = false
		}
	}
	src := s.Name
	if len(s.TParams) > 0 {
		var as []string
		for _, p := range s.TParams {
			as = append(as, p.Inst.Src)
		}
		src += "[" + strings.Join(as, ", ") + "]"
	}
	t := &Ty{FK: "structref", Src: src, Conc: src, Gen: fmt.Sprintf("lwG[%s](lwGen_%s)", src, s.Name), Cmp: cmp, Faithful: faithful, JSONOK: jsonok, TagRule: "plain"}
	for _, p := range s.TParams {
		t.merge(p.Inst)
	}
	return t
}

// TParamT is a field whose type is the struct's type parameter `name`, instantiated by inst
// in the law test.
func TParamT(name string, inst *Ty) *Ty {
	t := &Ty{FK: "tparam", Src: name, Conc: inst.Conc, Gen: inst.Gen, Cmp: inst.Cmp, Faithful: inst.Faithful, JSONOK: inst.JSONOK, TagRule: "plain", Decls: inst.Decls, UsesTP: []string{name}, InstNull: inst.Nullable()}
	return t
}
