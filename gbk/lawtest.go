package gbk

import (
	_ "embed"
	"fmt"
	"reflect"
	"strings"
)

//go:embed hostile.go
var hostileSource string

func hostileText() string {
	const marker = "// ---- hostile decoder inputs (shared text) ----"
	i := strings.Index(hostileSource, marker)
	if i < 0 {
		panic("gbk: hostile.go marker missing")
	}
	return hostileSource[i:]
}

// expectations derived from the spec (never from gombok's output)

func (s *Struct) expValue() bool   { return s.Ann["@fp.Value"] && s.NApp() > 0 }
func (s *Struct) expGetters() bool { return s.expValue() || s.Ann["@fp.Getter"] }
func (s *Struct) expWiths() bool   { return s.expValue() || s.Ann["@fp.With"] }
func (s *Struct) expBuilder() bool { return s.expValue() || s.Ann["@fp.Builder"] }
func (s *Struct) expTuple() bool   { return s.NApp() < 22 }
func (s *Struct) expJSON() bool    { return s.expValue() && s.Ann["@fp.Json"] }

// ExpectsNothing: gombok is expected to emit nothing at all for the struct: no annotation of it has
// anything to generate (an @fp.Value struct without applicable fields; @fp.Getter / @fp.With without
// a private field; @fp.GetterPubField / @fp.WithPubField without a public field; @fp.Json /
// @fp.JsonTag / @fp.GenLabelled, which only modify @fp.Value; @fp.Deref on a struct declaration,
// which has no right-hand-side type to forward to).
func (s *Struct) ExpectsNothing() bool {
	priv, pub := false, false
	for _, f := range s.Fields {
		if f.Public() {
			pub = true
		} else {
			priv = true
		}
	}
	for a := range s.Ann {
		switch a {
		case "@fp.Value":
			if s.NApp() > 0 {
				return false
			}
		case "@fp.Getter", "@fp.With":
			if priv {
				return false
			}
		case "@fp.GetterPubField", "@fp.WithPubField":
			if pub {
				return false
			}
		case "@fp.Deref":
			if s.Derived != "" {
				return false
			}
		case "@fp.Json", "@fp.JsonTag", "@fp.GenLabelled":
		default:
			return false
		}
	}
	return true
}

// Faithful: every applicable field round-trips through encoding/json and no state lives in
// skipped fields that JSON cannot carry.
func (s *Struct) Faithful() bool {
	for _, f := range s.Fields {
		if f.Applicable() && !f.Ty.Faithful {
			return false
		}
		if f.Applicable() && strings.Contains(f.Tag, `json:"-"`) {
			return false
		}
	}
	return true
}

func (s *Struct) JSONOK() bool {
	for _, f := range s.Fields {
		if f.Applicable() && !f.Ty.JSONOK {
			return false
		}
	}
	return true
}

// MutableTag is gombok's documented/implemented rule for the tag of the Mutable twin's field.
func (s *Struct) MutableTag(f Field) (want, alt string) {
	tag := f.Tag
	if strings.HasPrefix(f.Name, "_") {
		return tag, ""
	}
	if !(s.Ann["@fp.Json"] || s.Ann["@fp.JsonTag"]) {
		return tag, ""
	}
	if strings.Contains(tag, "json") {
		return tag, ""
	}
	pre := tag
	if pre != "" {
		pre += " "
	}
	omit := pre + fmt.Sprintf(`json:"%s,omitempty"`, f.Name)
	plain := pre + fmt.Sprintf(`json:"%s"`, f.Name)
	switch f.Ty.TagRule {
	case "omit":
		return omit, ""
	case "plain":
		return plain, ""
	}
	// named / alias types whose underlying type is nilable: the documented rule does not say;
	// the implementation looks at the unnamed type only (no omitempty). Both are accepted.
	return plain, omit
}

type lawWriter struct {
	b     strings.Builder
	decls map[string]bool
	p     *Pkg
	n     int // values per struct
}

func (w *lawWriter) f(format string, a ...any) { fmt.Fprintf(&w.b, format, a...) }

// LawTestSource writes the law test of the package for the given structs (those gombok
// produced output for). values = generated values per struct; hostile = hostile inputs per
// struct (JSON flavour).
func LawTestSource(p *Pkg, structs []*Struct, seed uint64, values, hostile int, valueLaws bool) string {
	w := &lawWriter{decls: map[string]bool{}, p: p, n: values}
	w.f("// Law test written by /verif/gbk from the struct specs (not from gombok's output).\n")
	w.f("package %s\n\n", p.Name)
	w.f(`import (
	"bytes"
	"context"
	"encoding/json"
	"errors"
	"fmt"
	"io"
	"math"
	"os"
	"reflect"
	"sort"
	"strings"
	"sync/atomic"
	"testing"
	"time"
	"unicode/utf8"

	"github.com/csgura/fp"
	"github.com/csgura/fp/hlist"
	"github.com/csgura/fp/mutable"
)
`)
	w.b.WriteString(lawRuntime)
	w.b.WriteString("\n")
	w.b.WriteString(hostileText())
	w.b.WriteString("\n")
	w.b.WriteString(jsonRuntime)
	w.b.WriteString("\n")
	// generators are needed for every struct of the package that survived (struct refs)
	for _, s := range structs {
		w.structCommon(s)
	}
	for _, s := range structs {
		if s.ExpectsNothing() {
			continue
		}
		if valueLaws {
			w.valueLaws(s)
		}
		if p.JSON && s.expJSON() {
			w.jsonLaws(s, hostile)
		}
	}
	w.f("\nfunc TestLw(t *testing.T) {\n\tlwRun(t, %d, func(p *lwRep) {\n", seed)
	for i, s := range structs {
		if s.ExpectsNothing() {
			w.f("\t\tp.ev(%q, 0)\n", s.Name)
			continue
		}
		if valueLaws {
			w.f("\t\tp.guard(%q, \"value-laws\", func() { lwLaws_%s(p, %d) })\n", s.Name, s.Name, seed*1000+uint64(i))
		}
		if p.JSON && s.expJSON() {
			w.f("\t\tp.guard(%q, \"json-laws\", func() { lwJSON_%s(p, %d) })\n", s.Name, s.Name, seed*1000+500+uint64(i))
		}
	}
	w.f("\t})\n}\n")
	return w.b.String()
}

func (s *Struct) lawType() string { return "lwT_" + s.Name }

// named fields (everything except blank `_`), in declaration order
func (s *Struct) named() []Field {
	var out []Field
	for _, f := range s.Fields {
		if f.Name != "_" {
			out = append(out, f)
		}
	}
	return out
}

func (w *lawWriter) structCommon(s *Struct) {
	for _, f := range s.Fields {
		for _, d := range f.Ty.Decls {
			if !w.decls[d] {
				w.decls[d] = true
				w.f("%s\n", d)
			}
		}
		if f.Ty.Opt != nil {
			for _, d := range f.Ty.Opt.Decls {
				if !w.decls[d] {
					w.decls[d] = true
					w.f("%s\n", d)
				}
			}
		}
	}
	T := s.lawType()
	w.f("\ntype %s = %s%s\n", T, s.Name, s.ConcArgs())
	nf := s.named()
	q := func(f func(Field) string) string {
		var xs []string
		for _, x := range nf {
			xs = append(xs, f(x))
		}
		return strings.Join(xs, ", ")
	}
	w.f("var lwMeta_%s = &lwMeta{name: %q,\n\tnames: []string{%s},\n\tkinds: []string{%s},\n\tapp: []bool{%s},\n\tisOpt: []bool{%s},\n}\n", s.Name, s.Name,
		q(func(f Field) string { return fmt.Sprintf("%q", f.Name) }),
		q(func(f Field) string { return fmt.Sprintf("%q", f.Ty.FK) }),
		q(func(f Field) string { return fmt.Sprint(f.Applicable()) }),
		q(func(f Field) string { return fmt.Sprint(f.Ty.Opt != nil) }))
	w.f("func lwGen_%s(r *lwRand, nn bool) %s {\n\treturn %s{\n", s.Name, T, T)
	for _, f := range nf {
		w.f("\t\t%s: lwNZ(r, %s),\n", f.Name, f.Ty.Gen)
	}
	w.f("\t}\n}\n")
	w.f("func lwFields_%s(x %s) []any {\n\treturn []any{%s}\n}\n", s.Name, T, q(func(f Field) string { return "x." + f.Name }))
}

func (w *lawWriter) valueLaws(s *Struct) {
	T := s.lawType()
	nf := s.named()
	idx := map[string]int{}
	for i, f := range nf {
		idx[f.Name] = i
	}
	var app []Field
	for _, f := range nf {
		if f.Applicable() {
			app = append(app, f)
		}
	}
	conc := s.ConcArgs()
	fl := "lwFields_" + s.Name
	w.f("\nfunc lwLaws_%s(p *lwRep, seed uint64) {\n\tm := lwMeta_%s\n\tr := lwNewRand(seed, false)\n", s.Name, s.Name)
	// w.n PRNG iterations followed by the forced pool (lwPair): nil / None, Some(typed nil), empty, empty with
	// capacity, one nil element ... at every field at once, against a random partner and against another class
	w.f("\tfor it := 0; it < %d+lwEdgeIters; it++ {\n\t\tx, y := lwPair(r, it-%d, lwGen_%s)\n\t\tfx, fy := %s(x), %s(y)\n\t\t_, _ = fx, fy\n\t\tp.pool(m, fx, it >= %d)\n", w.n, w.n, s.Name, fl, fl, w.n)

	// getters / With
	for _, f := range nf {
		i := idx[f.Name]
		if !f.Public() && s.expGetters() {
			w.f("\t\tp.one(m, \"getter\", %d, x.%s(), x.%s)\n", i, f.PubName(), f.Name)
			if s.HasHand("getter", fieldIndex(s, f.Name)) {
				w.f("\t\t{ before := HandCalls[\"%s.%s\"]; _ = x.%s(); p.hand(m, \"%s.%s\", before) }\n", s.Name, f.PubName(), f.PubName(), s.Name, f.PubName())
			}
		}
		if f.Public() && s.Ann["@fp.GetterPubField"] {
			w.f("\t\tp.one(m, \"getter-pub\", %d, x.Get%s(), x.%s)\n", i, f.Name, f.Name)
		}
		if !f.Public() && s.expWiths() {
			w.f("\t\t{ z := x.With%s(y.%s); p.one(m, \"with\", %d, z.%s, y.%s); p.others(m, \"with\", %d, %s(z), fx) }\n", f.PubName(), f.Name, i, f.Name, f.Name, i, fl)
			if s.HasHand("with", fieldIndex(s, f.Name)) {
				w.f("\t\t{ before := HandCalls[\"%s.With%s\"]; _ = x.With%s(y.%s); p.hand(m, \"%s.With%s\", before) }\n", s.Name, f.PubName(), f.PubName(), f.Name, s.Name, f.PubName())
			}
			if f.Ty.Opt != nil {
				w.f("\t\t{ v := (%s)(r, false); z := x.WithSome%s(v); p.one(m, \"withsome\", %d, z.%s, fp.Some(v)); p.others(m, \"withsome\", %d, %s(z), fx)\n", f.Ty.Opt.Gen, f.PubName(), i, f.Name, i, fl)
				w.f("\t\t  z = x.WithNone%s(); p.one(m, \"withnone\", %d, z.%s, fp.None[%s]()); p.others(m, \"withnone\", %d, %s(z), fx) }\n", f.PubName(), i, f.Name, f.Ty.Opt.Conc, i, fl)
			}
		}
		if f.Public() && s.Ann["@fp.WithPubField"] {
			w.f("\t\t{ z := x.With%s(y.%s); p.one(m, \"with-pub\", %d, z.%s, y.%s); p.others(m, \"with-pub\", %d, %s(z), fx) }\n", f.Name, f.Name, i, f.Name, f.Name, i, fl)
		}
	}

	// constructors
	if s.Ann["@fp.AllArgsConstructor"] {
		var args []string
		for _, f := range app {
			args = append(args, "x."+f.Name)
		}
		w.f("\t\t{ z := New%s%s(%s); p.appOnly(m, \"allargs\", %s(z), fx) }\n", s.Name, conc, strings.Join(args, ", "), fl)
	} else if s.Ann["@fp.RequiredArgsConstructor"] {
		var args []string
		var checks []string
		for _, f := range app {
			if f.Ty.IsPtr || f.Ty.Opt != nil {
				continue
			}
			args = append(args, "x."+f.Name)
			checks = append(checks, fmt.Sprintf("p.one(m, \"requiredargs\", %d, z.%s, x.%s)", idx[f.Name], f.Name, f.Name))
		}
		w.f("\t\t{ z := New%s%s(%s); %s }\n", s.Name, conc, strings.Join(args, ", "), strings.Join(checks, "; "))
	}

	if s.expBuilder() {
		w.f("\t\tp.all(m, \"builder-build\", %s(x.Builder().Build()), fx)\n", fl)
		for _, f := range nf {
			i := idx[f.Name]
			if f.Public() {
				continue
			}
			w.f("\t\t{ z := x.Builder().%s(y.%s).Build(); p.one(m, \"builder-set\", %d, z.%s, y.%s); p.others(m, \"builder-set\", %d, %s(z), fx) }\n", f.PubName(), f.Name, i, f.Name, f.Name, i, fl)
			if s.HasHand("bsetter", fieldIndex(s, f.Name)) {
				w.f("\t\t{ before := HandCalls[\"%sBuilder.%s\"]; _ = x.Builder().%s(y.%s); p.hand(m, \"%sBuilder.%s\", before) }\n", s.Name, f.PubName(), f.PubName(), f.Name, s.Name, f.PubName())
			}
			if f.Ty.Opt != nil {
				w.f("\t\t{ v := (%s)(r, false); z := x.Builder().Some%s(v).Build(); p.one(m, \"builder-some\", %d, z.%s, fp.Some(v)); p.others(m, \"builder-some\", %d, %s(z), fx)\n", f.Ty.Opt.Gen, f.PubName(), i, f.Name, i, fl)
				w.f("\t\t  z = x.Builder().None%s().Build(); p.one(m, \"builder-none\", %d, z.%s, fp.None[%s]()); p.others(m, \"builder-none\", %d, %s(z), fx) }\n", f.PubName(), i, f.Name, f.Ty.Opt.Conc, i, fl)
			}
		}
		// Apply
		{
			var args []string
			for _, f := range app {
				args = append(args, "x."+f.Name)
			}
			w.f("\t\t{ z := y.Builder().Apply(%s).Build(); p.mix(m, \"apply\", %s(z), fx, fy) }\n", strings.Join(args, ", "), fl)
		}
		// FromTuple
		if s.expTuple() {
			var tys, inits []string
			for k, f := range app {
				tys = append(tys, f.Ty.Conc)
				inits = append(inits, fmt.Sprintf("I%d: x.%s", k+1, f.Name))
			}
			w.f("\t\t{ z := y.Builder().FromTuple(fp.Tuple%d[%s]{%s}).Build(); p.mix(m, \"fromtuple\", %s(z), fx, fy) }\n", len(app), strings.Join(tys, ", "), strings.Join(inits, ", "), fl)
		} else {
			w.f("\t\tif it == 0 { p.hasMethod(m, x.Builder(), \"FromTuple\", false); p.hasMethod(m, x.Builder(), \"Apply\", true) }\n")
		}
		// FromMap (literal map)
		{
			var ents []string
			for _, f := range app {
				ents = append(ents, fmt.Sprintf("%q: x.%s", f.Name, f.Name))
			}
			w.f("\t\t{ z := y.Builder().FromMap(map[string]any{%s}).Build(); p.fromMap(m, \"frommap-literal\", %s(z), fx) }\n", strings.Join(ents, ", "), fl)
		}
	}

	if s.expValue() {
		// field set of every view = the fields of the SPEC that gombok is documented to keep
		// (everything except `_`-prefixed fields and embedded EMPTY structs), in declaration order
		{
			var keptNames, twinNames, twinAnon []string
			for _, f := range app {
				keptNames = append(keptNames, fmt.Sprintf("%q", f.Name))
			}
			for _, f := range s.Fields {
				twinNames = append(twinNames, fmt.Sprintf("%q", f.MutableName()))
				twinAnon = append(twinAnon, fmt.Sprint(f.Embedded))
			}
			w.f("\t\tif it == 0 {\n")
			w.f("\t\t\tkept := []string{%s}\n", strings.Join(keptNames, ", "))
			if s.expTuple() {
				w.f("\t\t\tp.arity(m, \"astuple\", reflect.TypeOf(x.AsTuple()).NumField(), kept)\n")
				w.f("\t\t\tp.arity(m, \"fromtuple\", reflect.TypeOf(x.Builder().FromTuple).In(0).NumField(), kept)\n")
			}
			w.f("\t\t\tp.arity(m, \"unapply\", reflect.TypeOf(x.Unapply).NumOut(), kept)\n")
			w.f("\t\t\tp.arity(m, \"apply\", reflect.TypeOf(x.Builder().Apply).NumIn(), kept)\n")
			w.f("\t\t\tp.twin(m, reflect.TypeOf(x.AsMutable()), []string{%s}, []bool{%s})\n", strings.Join(twinNames, ", "), strings.Join(twinAnon, ", "))
			w.f("\t\t}\n")
		}
		// AsTuple / Unapply
		if s.expTuple() {
			var comps, tys []string
			for k, f := range app {
				comps = append(comps, fmt.Sprintf("t.I%d", k+1))
				tys = append(tys, f.Ty.Conc)
			}
			w.f("\t\t{ var t fp.Tuple%d[%s] = x.AsTuple(); p.seq(m, \"astuple\", []any{%s}, fx)\n", len(app), strings.Join(tys, ", "), strings.Join(comps, ", "))
			w.f("\t\t  z := y.Builder().FromTuple(x.AsTuple()).Build(); p.mix(m, \"fromtuple-astuple\", %s(z), fx, fy) }\n", fl)
		} else {
			w.f("\t\tif it == 0 { p.hasMethod(m, x, \"AsTuple\", false); p.hasMethod(m, x, \"Unapply\", true); p.hasMethod(m, x, \"AsLabelled\", false) }\n")
		}
		{
			var vars []string
			for k := range app {
				vars = append(vars, fmt.Sprintf("a%d", k+1))
			}
			w.f("\t\t{ %s := x.Unapply(); p.seq(m, \"unapply\", []any{%s}, fx)\n", strings.Join(vars, ", "), strings.Join(vars, ", "))
			w.f("\t\t  z := y.Builder().Apply(x.Unapply()).Build(); p.mix(m, \"apply-unapply\", %s(z), fx, fy) }\n", fl)
		}
		// Mutable
		{
			var comps, inits []string
			for _, f := range app {
				n := f.MutableName()
				comps = append(comps, "mu."+n)
				inits = append(inits, fmt.Sprintf("%s: y.%s", n, f.Name))
			}
			w.f("\t\t{ mu := x.AsMutable(); p.seq(m, \"asmutable\", []any{%s}, fx); p.appOnly(m, \"asimmutable\", %s(mu.AsImmutable()), fx)\n", strings.Join(comps, ", "), fl)
			w.f("\t\t  z := %sMutable%s{%s}.AsImmutable(); p.appOnly(m, \"asimmutable-literal\", %s(z), fy) }\n", s.Name, conc, strings.Join(inits, ", "), fl)
		}
		// AsMap / FromMap
		{
			var cases []string
			for _, f := range app {
				if f.Ty.Opt != nil {
					cases = append(cases, fmt.Sprintf("case %d: if x.%s.IsDefined() { return x.%s.Get(), true }", idx[f.Name], f.Name, f.Name))
				}
			}
			w.f("\t\t{ mp := x.AsMap(); p.asMap(m, mp, fx, func(j int) (any, bool) { switch j { %s }; return nil, false })\n", strings.Join(cases, "; "))
			w.f("\t\t  z := y.Builder().FromMap(mp).Build(); p.fromMap(m, \"frommap-asmap\", %s(z), fx) }\n", fl)
		}
		// Labelled
		if s.Ann["@fp.GenLabelled"] && s.expTuple() {
			var vals, names, tags, wantNames, wantTags, withs []string
			for k, f := range app {
				vals = append(vals, fmt.Sprintf("l.I%d.Value()", k+1))
				names = append(names, fmt.Sprintf("l.I%d.Name()", k+1))
				tags = append(tags, fmt.Sprintf("l.I%d.Tag()", k+1))
				wantNames = append(wantNames, fmt.Sprintf("%q", f.Name))
				wantTags = append(wantTags, fmt.Sprintf("%q", f.Tag))
				withs = append(withs, fmt.Sprintf("l2.I%d = l2.I%d.WithValue(x.%s)", k+1, k+1, f.Name))
			}
			w.f("\t\t{ l := x.AsLabelled(); p.seq(m, \"aslabelled\", []any{%s}, fx)\n", strings.Join(vals, ", "))
			w.f("\t\t  if it == 0 { p.strs(m, \"labelled-names\", []string{%s}, []string{%s}); p.strs(m, \"labelled-tags\", []string{%s}, []string{%s}) }\n",
				strings.Join(names, ", "), strings.Join(wantNames, ", "), strings.Join(tags, ", "), strings.Join(wantTags, ", "))
			w.f("\t\t  z := y.Builder().FromLabelled(l).Build(); p.mix(m, \"fromlabelled-aslabelled\", %s(z), fx, fy)\n", fl)
			w.f("\t\t  l2 := y.AsLabelled(); %s\n", strings.Join(withs, "; "))
			w.f("\t\t  z = y.Builder().FromLabelled(l2).Build(); p.mix(m, \"fromlabelled\", %s(z), fx, fy) }\n", fl)
		}
		if s.HasHand("string", 0) {
			w.f("\t\t{ before := HandCalls[\"%s.String\"]; _ = x.String(); p.hand(m, \"%s.String\", before) }\n", s.Name, s.Name)
		}
	}
	w.f("\t}\n}\n")
	_ = T
}

func fieldIndex(s *Struct, name string) int {
	for i, f := range s.Fields {
		if f.Name == name {
			return i
		}
	}
	return -1
}

func (w *lawWriter) jsonLaws(s *Struct, hostile int) {
	T := s.lawType()
	conc := s.ConcArgs()
	w.f("\nfunc lwJSON_%s(p *lwRep, seed uint64) {\n\tm := lwMeta_%s\n\tr := lwNewRand(seed, true)\n", s.Name, s.Name)
	// Mutable twin shape and tags
	w.f("\tp.mutableShape(%q, reflect.TypeOf(%sMutable%s{}), reflect.TypeOf(%s{}), []lwTagWant{\n", s.Name, s.Name, conc, T)
	for _, f := range s.Fields {
		want, alt := s.MutableTag(f)
		name := f.PubName()
		if f.Embedded {
			name = f.Name
		}
		w.f("\t\t{name: %q, anonymous: %v, tag: %q, alt: %q, kind: %q},\n", name, f.Embedded, want, alt, f.Ty.FK)
	}
	w.f("\t})\n")
	rfs, refOK := s.RefObject()
	w.f("\trfs := []lwRefField{\n")
	for _, f := range rfs {
		w.f("\t\t{idx: %d, key: %q, omit: %d},\n", f.Idx, f.Key, f.Omit)
	}
	w.f("\t}\n")
	w.f("\tlwJSONLaws(p, m, r, %v, %v, %d, %d, lwGen_%s, lwFields_%s,\n\t\tfunc(x %s) any { return x.AsMutable() },\n\t\tfunc(t *%s, b []byte) error { return t.UnmarshalJSON(b) },\n\t\tfunc(x %s) ([]byte, error) { return x.MarshalJSON() }, rfs, %v)\n",
		s.Faithful(), s.JSONOK(), w.n, hostile, s.Name, s.Name, T, T, T, refOK)
	w.f("}\n")
}

// RefField is one member of the JSON object the spec demands for a value of the struct.
type RefField struct {
	Idx  int // index into named()
	Key  string
	Omit int // 0 never omitted, 1 omitempty, 2 the tag rule leaves it open
}

// jsonKey reads the json key and the omitempty option out of a struct tag; goName is the
// Mutable twin's field name (encoding/json's default key).
func jsonKey(tag, goName string) (key string, omit, skip, ok bool) {
	v, found := reflect.StructTag(tag).Lookup("json")
	if !found {
		return goName, false, false, true
	}
	if v == "-" {
		return "", false, true, true
	}
	parts := strings.Split(v, ",")
	key = parts[0]
	if key == "" {
		key = goName
	}
	ok = true
	for _, o := range parts[1:] {
		switch o {
		case "omitempty":
			omit = true
		default:
			ok = false // ",string" and friends change the value encoding: no reference
		}
	}
	return key, omit, false, ok
}

// RefObject derives, from the spec alone, the members of the JSON object of an @fp.Json
// struct: every field that is not underscore-prefixed, in declaration order, under the key of
// its json tag (copied tag, or gombok's rule: json:"<field>" plus omitempty for nilable and
// Option types). ok = false when the spec has a shape for which encoding/json's own rules
// (promotion of untagged embedded structs, clashing keys, unexported embedded types) would
// have to be re-implemented; the reference check is then skipped for the struct.
func (s *Struct) RefObject() (out []RefField, ok bool) {
	ok = true
	seen := map[string]bool{}
	for j, f := range s.named() {
		if strings.HasPrefix(f.Name, "_") {
			continue
		}
		want, alt := s.MutableTag(f)
		key, omit, skip, kok := jsonKey(want, f.MutableName())
		if !kok {
			ok = false
		}
		if skip {
			continue
		}
		if _, tagged := reflect.StructTag(want).Lookup("json"); f.Embedded && (!tagged || !f.Public()) {
			ok = false
		}
		rf := RefField{Idx: j, Key: key}
		if omit {
			rf.Omit = 1
		}
		if alt != "" {
			if _, omit2, _, _ := jsonKey(alt, f.MutableName()); omit2 != omit {
				rf.Omit = 2
			}
		}
		if seen[key] {
			ok = false
		}
		seen[key] = true
		out = append(out, rf)
	}
	return out, ok
}
