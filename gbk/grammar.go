package gbk

import (
	"fmt"
	"math/rand/v2"
	"strings"
)

// G generates struct specs. All choices come from R.
type G struct {
	R     *rand.Rand
	JSON  bool // C15 flavour: @fp.Json structs over faithfully encodable field types
	fnID  int
	p     *Pkg
	names map[string]bool
}

func NewG(r *rand.Rand, pkg string, jsonMode bool) *G {
	return &G{R: r, JSON: jsonMode, p: &Pkg{Name: pkg, JSON: jsonMode}, names: map[string]bool{}}
}

func (g *G) Pkg() *Pkg { return g.p }

func (g *G) pick(xs ...string) string { return xs[g.R.IntN(len(xs))] }
func (g *G) chance(pct int) bool      { return g.R.IntN(100) < pct }
func (g *G) fid() string              { g.fnID++; return fmt.Sprintf("%s%d", g.p.Name, g.fnID) }

// field-name pools: ordinary identifiers only. Names whose derived method name collides
// with another generated or declared member (build, builder, string, ...), the receiver
// name `r`, and names of imported packages are never used: the property enumerates field
// kinds and visibilities, not adversarial names.
var privPool = []string{"name", "age", "addr", "phone", "email", "count", "score", "label", "owner", "amount", "active", "height", "blob",
	"list", "items", "extra", "note", "message", "timestamp", "language", "company", "model", "year", "country", "city", "street", "value",
	"key", "left", "right", "root", "hello", "world", "hi", "tpe", "arr", "mm", "intf", "ch", "fn", "str", "typ", "st", "a", "b", "c", "m", "p", "l", "t", "v", "x", "y", "z"}
var pubPool = []string{"Pub", "Title", "Visible", "PubField", "Total", "Ref", "Meta", "Flag", "Level", "Code"}
var underPool = []string{"_notExport", "_skip", "_x1", "_hidden"}

func (g *G) structName(base string) string {
	n := base
	for i := 2; g.names[n]; i++ {
		n = fmt.Sprintf("%s%d", base, i)
	}
	g.names[n] = true
	return n
}

// ---- random types ---------------------------------------------------------------------

type tyOpts struct {
	tps   []TParam // usable type parameters
	depth int
}

func (g *G) basic() *Ty {
	if g.JSON {
		return Basic(g.pick("int", "int", "int8", "int16", "int32", "int64", "uint", "uint8", "uint16", "uint32", "uint64", "float32", "float64", "float64", "bool", "string", "string", "string"))
	}
	return Basic(g.pick("int", "int", "int8", "int16", "int32", "int64", "uint", "uint8", "uint16", "uint32", "uint64", "uintptr", "float32", "float64", "bool", "string", "string", "complex128", "byte", "rune"))
}

func (g *G) cmpLeaf() *Ty {
	switch g.R.IntN(6) {
	case 0:
		return NamedBasic("MyStr", "string")
	case 1:
		return Basic("int")
	case 2:
		if g.JSON {
			return Basic("string")
		}
		return Plain()
	}
	return Basic("string")
}

func (g *G) refCandidates(jsonOnly bool) []*Struct {
	var out []*Struct
	for _, s := range g.p.Structs {
		if s.Derived != "" || s.NApp() == 0 {
			continue
		}
		risky := false
		for _, tp := range s.TParams {
			if tp.CK == "inline-typeset" {
				risky = true // never referenced: a known-bad shape must not take other structs down
			}
		}
		if risky {
			continue
		}
		if jsonOnly && !(s.Ann["@fp.Json"] && s.Ann["@fp.Value"]) {
			continue
		}
		out = append(out, s)
	}
	return out
}

func (g *G) leaf(o tyOpts) *Ty {
	if len(o.tps) > 0 && g.chance(35) {
		tp := o.tps[g.R.IntN(len(o.tps))]
		return TParamT(tp.Name, tp.Inst)
	}
	if g.JSON {
		switch g.R.IntN(12) {
		case 0:
			return NamedBasic("MyStr", "string")
		case 1:
			return NamedBasic("MyInt", "int")
		case 2:
			return NamedBasic("MyFloat", "float64")
		case 3:
			return Plain()
		case 4, 5:
			return TimeT()
		case 6:
			return DurationT()
		case 7:
			if c := g.refCandidates(true); len(c) > 0 {
				return StructRefT(c[g.R.IntN(len(c))])
			}
		}
		return g.basic()
	}
	switch g.R.IntN(24) {
	case 0:
		return NamedBasic("MyStr", "string")
	case 1:
		return NamedBasic("MyInt", "int")
	case 2:
		return Plain()
	case 3:
		return ImplT()
	case 4:
		return TimeT()
	case 5:
		return DurationT()
	case 6:
		return OSFilePtrT()
	case 7:
		return AnyT()
	case 8:
		return EmptyIfaceT()
	case 9:
		return LocalIfaceT()
	case 10:
		return GreeterT()
	case 11:
		return InlineIfaceT()
	case 12:
		return InlineEmbedIfaceT()
	case 13:
		return StringerT()
	case 14:
		return ReaderT()
	case 15:
		return ReflectTypeT()
	case 16:
		return ContextT()
	case 19:
		if g.chance(50) {
			return HlistT()
		}
	case 17, 18:
		if c := g.refCandidates(false); len(c) > 0 {
			return StructRefT(c[g.R.IntN(len(c))])
		}
	case 20:
		// instantiation of a local generic type, with a concrete type or with a type parameter of the struct
		e := g.basic()
		if len(o.tps) > 0 && g.chance(50) {
			tp := o.tps[g.R.IntN(len(o.tps))]
			e = TParamT(tp.Name, tp.Inst)
		}
		switch g.R.IntN(4) {
		case 0:
			return BagT(e)
		case 1:
			return PtrT(CellT(e))
		case 2:
			return VoidT(e)
		}
		return CellT(e)
	case 21:
		if g.chance(50) {
			return AliasPT()
		}
		return AliasLevelT()
	}
	return g.basic()
}

func (g *G) ty(o tyOpts) *Ty {
	if o.depth >= 2 || g.chance(45) {
		return g.leaf(o)
	}
	in := tyOpts{tps: o.tps, depth: o.depth + 1}
	if g.JSON && g.chance(3) {
		// the loose cases: only used for the never-panics part
		switch g.R.IntN(3) {
		case 0:
			return AnyT()
		case 1:
			return OptionT(PtrT(g.leaf(in)), true)
		}
		return OptionT(SliceT(g.leaf(in)), true)
	}
	if g.JSON {
		switch g.R.IntN(10) {
		case 0, 1:
			return SliceT(g.ty(in))
		case 2:
			return BytesT()
		case 3:
			return ArrayT(1+g.R.IntN(3), g.ty(in))
		case 4:
			return MapT(Basic("string"), g.ty(in))
		case 5:
			e := g.ty(in)
			if e.Nullable() {
				e = g.leaf(in)
			}
			return PtrT(e)
		case 6:
			return SeqT(g.ty(in))
		case 7, 8:
			e := g.ty(in)
			return OptionT(e, false)
		case 9:
			return Tuple2T(g.ty(in), g.ty(in))
		}
	}
	switch g.R.IntN(20) {
	case 0:
		return PtrT(g.ty(in))
	case 1, 2:
		return SliceT(g.ty(in))
	case 3:
		return BytesT()
	case 4:
		return ArrayT(1+g.R.IntN(3), g.ty(in))
	case 5, 6:
		k := g.cmpLeaf()
		v := g.ty(in)
		if g.chance(15) {
			v = AtomicBoolT()
		}
		return MapT(k, v)
	case 7:
		np := g.R.IntN(3)
		nr := g.R.IntN(3)
		var ps, rs []*Ty
		for i := 0; i < np; i++ {
			ps = append(ps, g.ty(in))
		}
		for i := 0; i < nr; i++ {
			rs = append(rs, g.ty(in))
		}
		var pn, rn []string
		if np > 0 && g.chance(40) {
			for i := 0; i < np; i++ {
				pn = append(pn, fmt.Sprintf("arg%d", i))
			}
		}
		if nr > 0 && g.chance(30) {
			for i := 0; i < nr; i++ {
				rn = append(rn, fmt.Sprintf("res%d", i))
			}
		}
		return FuncT(g.fid(), ps, pn, rs, rn)
	case 8:
		return Func1T(g.fid(), g.ty(in), g.ty(in))
	case 9:
		return ChanT(g.R.IntN(3), g.ty(in))
	case 10, 11:
		return OptionT(g.ty(in), true)
	case 12:
		return SeqT(g.ty(in))
	case 13:
		return FpMapT(g.cmpLeaf(), g.ty(in))
	case 14:
		return TryT(g.ty(in))
	case 15:
		return EitherT(g.ty(in), g.ty(in))
	case 16:
		return FutureT(g.ty(in))
	case 17:
		return Tuple2T(g.ty(in), g.ty(in))
	case 18:
		n := 1 + g.R.IntN(3)
		var ns []string
		var ts []*Ty
		for i := 0; i < n; i++ {
			ns = append(ns, []string{"A", "B", "C"}[i])
			ts = append(ts, g.ty(in))
		}
		return AnonT(g.chance(30), ns, ts)
	}
	if g.chance(10) {
		return SliceT(OSFileT())
	}
	return g.leaf(in)
}

// ---- type parameters --------------------------------------------------------------------

func (g *G) tparam(name string) TParam {
	type c struct {
		src, ck string
		insts   []*Ty
		imps    []string
	}
	menu := []c{
		{"any", "any", []*Ty{Basic("int"), Basic("string"), SliceT(Basic("int")), Plain(), PtrT(Basic("int")), Basic("float64")}, nil},
		{"any", "any", []*Ty{Basic("int"), Basic("string"), Basic("bool"), NamedBasic("MyStr", "string")}, nil},
		{"comparable", "comparable", []*Ty{Basic("int"), Basic("string"), Plain(), NamedBasic("MyStr", "string")}, nil},
		{"fmt.Stringer", "imported-iface", []*Ty{ImplT()}, []string{`"fmt"`}},
		{"Greeter", "named-iface", []*Ty{ImplT()}, nil},
		{"interface{ Hello() string }", "inline-methods", []*Ty{ImplT()}, nil},
		{"Num", "named-typeset", []*Ty{Basic("int"), Basic("float64"), NamedBasic("MyInt", "int")}, nil},
		{"interface{ ~int | ~string }", "inline-typeset", []*Ty{Basic("int"), Basic("string"), NamedBasic("MyStr", "string"), NamedBasic("MyInt", "int")}, nil},
		{"interface {\n\t~int\n\tString() string\n}", "typeset+method", []*Ty{NamedBasic("StrInt", "int")}, nil},
		{"interface {\n\tcomparable\n\tHello() string\n}", "comparable+method", []*Ty{ImplT()}, nil},
	}
	weights := []int{6, 4, 5, 2, 2, 2, 2, 1, 1, 1}
	if g.JSON {
		weights = []int{6, 4, 5, 0, 0, 0, 2, 0, 1, 0}
	}
	tot := 0
	for _, w := range weights {
		tot += w
	}
	k := g.R.IntN(tot)
	i := 0
	for ; k >= weights[i]; i++ {
		k -= weights[i]
	}
	m := menu[i]
	return TParam{Name: name, CSrc: m.src, CK: m.ck, Inst: m.insts[g.R.IntN(len(m.insts))], Imports: m.imps}
}

// ---- structs ----------------------------------------------------------------------------

var arities = []int{1, 2, 2, 3, 3, 3, 8, 8, 9, 9, 20, 21, 22, 30}

type annSet struct {
	anns   []string
	weight int
}

var annMenu = []annSet{
	{[]string{"@fp.Value"}, 10},
	{[]string{"@fp.Value", "@fp.Json"}, 4},
	{[]string{"@fp.Value", "@fp.GenLabelled"}, 4},
	{[]string{"@fp.Value", "@fp.Json", "@fp.GenLabelled"}, 3},
	{[]string{"@fp.Value", "@fp.JsonTag"}, 2},
	{[]string{"@fp.Value", "@fp.String"}, 1},
	{[]string{"@fp.Value", "@fp.AllArgsConstructor"}, 2},
	{[]string{"@fp.Value", "@fp.RequiredArgsConstructor"}, 1},
	{[]string{"@fp.Value", "@fp.GetterPubField", "@fp.WithPubField"}, 2},
	{[]string{"@fp.Getter"}, 1},
	{[]string{"@fp.With"}, 1},
	{[]string{"@fp.Getter", "@fp.With", "@fp.String", "@fp.AllArgsConstructor"}, 2},
	{[]string{"@fp.Getter", "@fp.With", "@fp.String", "@fp.AllArgsConstructor", "@fp.Builder"}, 2},
	{[]string{"@fp.Builder"}, 1},
	{[]string{"@fp.RequiredArgsConstructor"}, 1},
	{[]string{"@fp.GetterPubField", "@fp.WithPubField", "@fp.Getter"}, 1},
}

func (g *G) annotations() []string {
	if g.JSON {
		switch g.R.IntN(4) {
		case 0:
			return []string{"@fp.Value", "@fp.Json", "@fp.GenLabelled"}
		case 1:
			return []string{"@fp.Json", "@fp.Value"}
		}
		return []string{"@fp.Value", "@fp.Json"}
	}
	tot := 0
	for _, a := range annMenu {
		tot += a.weight
	}
	k := g.R.IntN(tot)
	for _, a := range annMenu {
		if k < a.weight {
			out := append([]string(nil), a.anns...)
			if g.chance(15) && len(out) > 1 { // annotation order is free
				out[0], out[len(out)-1] = out[len(out)-1], out[0]
			}
			return out
		}
		k -= a.weight
	}
	return []string{"@fp.Value"}
}

func hasAnn(as []string, a string) bool {
	for _, x := range as {
		if x == a {
			return true
		}
	}
	return false
}

var tagMenu = []string{`bson:"%s"`, `column:"%s"`, `fp:"String.Exclude"`, `yaml:"%s,omitempty" xml:"%s"`}

// RandomStruct draws one struct from the grammar with the given number of applicable fields
// (0 = draw the arity class as well) and adds it to the package.
func (g *G) RandomStruct(arity int) *Struct {
	if arity == 0 {
		arity = arities[g.R.IntN(len(arities))]
		if g.JSON && arity > 9 && g.chance(60) {
			arity = 3 + g.R.IntN(6)
		}
	}
	s := &Struct{Ann: map[string]bool{}, Origin: "grammar"}
	s.Name = g.structName(g.pick("Rec", "Item", "Node", "Box", "Pair", "Cfg", "Msg", "Row", "Doc", "Unit", "Shape", "Acct"))
	s.AnnOrder = g.annotations()
	for _, a := range s.AnnOrder {
		s.Ann[a] = true
	}
	pubAnn := s.Ann["@fp.GetterPubField"] || s.Ann["@fp.WithPubField"]
	// type parameters
	var tps []TParam
	if g.chance(25) {
		n := 1 + g.R.IntN(3)
		names := []string{"A", "B", "C", "D"}
		if g.chance(30) {
			names = []string{"K", "V", "T", "U"}
		}
		for i := 0; i < n; i++ {
			tps = append(tps, g.tparam(names[i]))
		}
		s.TParams = tps
	}
	usable := tps
	if len(tps) > 1 && g.chance(40) {
		usable = tps[:len(tps)-1] // last parameter stays unused
	}
	// names
	used := map[string]bool{}
	for _, tp := range tps {
		used[strings.ToLower(tp.Name)] = true // no field whose getter is named like a type parameter
	}
	numbered := arity > 9
	nextName := func(i int, pub bool) string {
		pool := privPool
		if pub {
			pool = pubPool
		}
		if numbered && !pub {
			return fmt.Sprintf("f%d", i+1)
		}
		for tries := 0; tries < 200; tries++ {
			n := pool[g.R.IntN(len(pool))]
			if len(tps) > 0 && len(n) == 1 {
				continue
			}
			if !used[strings.ToLower(n)] {
				used[strings.ToLower(n)] = true
				return n
			}
		}
		n := fmt.Sprintf("fld%d", i+1)
		if pub {
			n = fmt.Sprintf("Fld%d", i+1)
		}
		return n
	}
	var fields []Field
	var embs []Field // C07 flavour: embedded fields of every kind, put at random positions below
	napp := 0
	if g.JSON {
		// C15 flavour (unchanged): embedded empty / non-empty struct first, as in AllKindTypes
		if g.chance(20) {
			fields = append(fields, embEmpty())
		}
		if g.chance(15) && arity > 1 {
			fields = append(fields, embNE())
			used["inner"], used["other"] = true, true
			napp++
		}
	} else {
		embs = g.randomEmbedded(usable, used)
		kept := func() (n int) {
			for _, e := range embs {
				if e.Applicable() {
					n++
				}
			}
			return
		}
		// embedded fields that gombok keeps count towards the arity; now and then they are ALL the fields
		allEmbedded := g.chance(20)
		for len(embs) > 0 && (kept() > arity || (kept() == arity && !allEmbedded)) {
			embs = embs[:len(embs)-1]
		}
		napp = kept()
	}
	pubPct := 12
	if pubAnn {
		pubPct = 45
	}
	var prev *Ty
	for ; napp < arity; napp++ {
		pub := g.chance(pubPct)
		f := Field{Name: nextName(napp, pub)}
		join := false
		if g.JSON {
			join = prev != nil && !pub && g.chance(12) && len(fields) > 0 && !fields[len(fields)-1].Embedded && fields[len(fields)-1].Tag == "" && !fields[len(fields)-1].Public()
		} else {
			// any mix of private and public names: `a, b T`, `F, G T`, `h, I T`
			join = prev != nil && len(fields) > 0 && g.chance(14) && !fields[len(fields)-1].Embedded && fields[len(fields)-1].Tag == ""
		}
		if join {
			// `a, b T`
			f.Ty = prev
			fields[len(fields)-1].JoinNext = true
		} else {
			f.Ty = g.ty(tyOpts{tps: usable})
			if arity >= 20 && g.chance(60) {
				f.Ty = g.leaf(tyOpts{tps: usable})
			}
			if g.chance(14) {
				t := tagMenu[g.R.IntN(len(tagMenu))]
				f.Tag = strings.ReplaceAll(t, "%s", strings.ToLower(f.Name))
				if (s.Ann["@fp.Json"] || s.Ann["@fp.JsonTag"]) && g.chance(50) {
					js := g.pick(`json:"%s_x"`, `json:"%s_y,omitempty"`, `json:",omitempty"`)
					f.Tag = strings.ReplaceAll(js, "%s", strings.ToLower(f.Name))
					if g.chance(40) {
						f.Tag = `bson:"` + strings.ToLower(f.Name) + `" ` + f.Tag
					}
				}
			}
		}
		prev = f.Ty
		fields = append(fields, f)
	}
	// skipped fields do not count towards the arity
	if !pubAnn && g.chance(30) {
		n := underPool[g.R.IntN(len(underPool))]
		at := g.R.IntN(len(fields) + 1)
		uf := Field{Name: n, Ty: g.pickTy(Basic("string"), Basic("int"), SliceT(Basic("int")))}
		fields = append(fields[:at], append([]Field{uf}, fields[at:]...)...)
		if at > 0 && fields[at-1].JoinNext {
			fields[at-1].JoinNext = false
			fields[at].JoinNext = false
		}
		if g.chance(20) {
			fields = append(fields, Field{Name: "_", Ty: Basic("int")})
		}
	}
	insert := func(at int, f Field) {
		fields = append(fields[:at], append([]Field{f}, fields[at:]...)...)
	}
	if !g.JSON {
		if !pubAnn && g.chance(15) {
			// `_x, _y int`: several skipped names on one line
			t := g.pickTy(Basic("int"), Basic("string"))
			at := g.R.IntN(len(fields) + 1)
			insert(at, Field{Name: "_p1", Ty: t, JoinNext: true})
			insert(at+1, Field{Name: "_p2", Ty: t})
		}
		if !pubAnn && g.chance(18) {
			// blank fields in first / middle / last position
			for k := 1 + g.R.IntN(2); k > 0; k-- {
				t := g.pickTy(Basic("int"), Basic("string"), BlankStructT())
				switch g.R.IntN(3) {
				case 0:
					insert(0, Field{Name: "_", Ty: t})
				case 1:
					insert(len(fields), Field{Name: "_", Ty: t})
				default:
					insert(g.R.IntN(len(fields)+1), Field{Name: "_", Ty: t})
				}
			}
		}
		// embedded fields in first / middle / last position
		for _, e := range embs {
			switch g.R.IntN(3) {
			case 0:
				insert(0, e)
			case 1:
				insert(len(fields), e)
			default:
				insert(g.R.IntN(len(fields)+1), e)
			}
		}
	}
	// a JoinNext chain must not be interrupted
	for i := range fields {
		if fields[i].JoinNext && (i+1 >= len(fields) || fields[i+1].Ty != fields[i].Ty || fields[i+1].Tag != "" || fields[i+1].Embedded) {
			fields[i].JoinNext = false
		}
	}
	s.Fields = fields
	// @fp.RequiredArgsConstructor / AllArgs need at least one argument to stay inside the grammar
	if s.Ann["@fp.RequiredArgsConstructor"] && !s.Ann["@fp.AllArgsConstructor"] {
		ok := false
		for _, f := range s.Fields {
			if f.Applicable() && !f.Ty.IsPtr && f.Ty.Opt == nil {
				ok = true
			}
		}
		if !ok {
			done := false
			for i := range s.Fields {
				if s.Fields[i].Applicable() && !s.Fields[i].Embedded {
					s.Fields[i].Ty = Basic("string")
					s.Fields[i].JoinNext = false
					if i > 0 {
						s.Fields[i-1].JoinNext = false
					}
					done = true
					break
				}
			}
			if !done {
				s.Fields = append(s.Fields, Field{Name: "reqArg", Ty: Basic("string")})
			}
		}
	}
	// layout
	s.InGroup = g.chance(15)
	if g.chance(25) {
		s.Doc = []string{s.Name + " is a generated declaration", "with a doc comment in front of the annotations"}
	}
	s.Trailing = g.chance(10)
	// hand-written methods with generated names
	if !g.JSON && g.chance(25) {
		var priv []int
		for i, f := range s.Fields {
			if !f.Public() {
				priv = append(priv, i)
			}
		}
		if len(priv) > 0 {
			i := priv[g.R.IntN(len(priv))]
			if s.Ann["@fp.Value"] || s.Ann["@fp.Getter"] {
				if g.chance(60) {
					s.Hands = append(s.Hands, Hand{"getter", i})
				}
			}
			if s.Ann["@fp.Value"] || s.Ann["@fp.With"] {
				if g.chance(50) {
					s.Hands = append(s.Hands, Hand{"with", priv[g.R.IntN(len(priv))]})
				}
			}
			if s.Ann["@fp.Value"] || s.Ann["@fp.Builder"] {
				if g.chance(50) {
					s.Hands = append(s.Hands, Hand{"bsetter", priv[g.R.IntN(len(priv))]})
				}
			}
			if (s.Ann["@fp.Value"] || s.Ann["@fp.String"]) && g.chance(30) {
				s.Hands = append(s.Hands, Hand{"string", 0})
			}
		}
	}
	g.p.Structs = append(g.p.Structs, s)
	return s
}

func (g *G) pickTy(ts ...*Ty) *Ty { return ts[g.R.IntN(len(ts))] }

// Derived adds `type Name Base` with the same annotations family (as AliasedStruct World).
func (g *G) Derived(base *Struct) *Struct {
	s := &Struct{Ann: map[string]bool{"@fp.Value": true}, AnnOrder: []string{"@fp.Value"}, Origin: "grammar/derived", Derived: base.Name}
	s.Name = g.structName("Alias" + base.Name)
	for _, f := range base.Fields {
		f.JoinNext = false
		s.Fields = append(s.Fields, f)
	}
	g.p.Structs = append(g.p.Structs, s)
	return s
}

// RandomPackage draws a whole package: 1..6 structs.
func (g *G) RandomPackage() *Pkg {
	n := 1 + g.R.IntN(6)
	if g.JSON {
		n = 2 + g.R.IntN(4)
	}
	big := 0
	for i := 0; i < n; i++ {
		s := g.RandomStruct(0)
		if s.NApp() >= 20 {
			big++
			if big >= 2 {
				break
			}
		}
		if !g.JSON && len(s.TParams) == 0 && s.Ann["@fp.Value"] && s.NApp() > 0 && g.chance(8) {
			g.Derived(s)
		}
	}
	return g.p
}
