package gbk

import (
	"bytes"
	"encoding/json"
	"fmt"
	"strings"
)

// This file is compiled into the workers AND copied verbatim (everything below the marker
// line) into every generated law test, so it must only use the imports the law test has
// and must not refer to anything else of package gbk.

// ---- hostile decoder inputs (shared text) ----

// LwHostile derives hostile decoder inputs from valid documents: PRNG bytes, truncations,
// bit flips, byte replacements, type-swapped values, deep nesting, huge numbers, structural
// damage. rn(k) must return a number in [0,k). The result always starts with a fixed list
// of classics so that every run sees them.
func LwHostile(rn func(int) int, docs [][]byte, count int) [][]byte {
	out := [][]byte{
		nil, []byte(""), []byte(" "), []byte("nul"), []byte("n"), []byte("nulll"), []byte("null x"), []byte(" null"), []byte("null "),
		[]byte("{"), []byte("}"), []byte("["), []byte("]"), []byte("{}"), []byte("[]"), []byte("\""), []byte("\"\\"), []byte("\"\\u12\""),
		[]byte("\"\\ud800\""), []byte("\"\xff\xfe\""), []byte("tru"), []byte("true"), []byte("false"), []byte("-"), []byte("-0"), []byte("0"),
		[]byte("01"), []byte("1e999999"), []byte("-1e999999"), []byte("1E400"), []byte("1.5"), []byte("0.0000000000000000000000000000000000001"),
		[]byte(strings.Repeat("9", 400)), []byte("-" + strings.Repeat("9", 400)), []byte("18446744073709551616"), []byte("-9223372036854775809"),
		[]byte("9223372036854775808"), []byte("340282366920938463463374607431768211456"), []byte("1e39"), []byte("1e309"),
		[]byte(strings.Repeat("[", 10001) + strings.Repeat("]", 10001)),
		[]byte(strings.Repeat("[", 5000)),
		[]byte(strings.Repeat("{\"a\":", 3000) + "1" + strings.Repeat("}", 3000)),
		[]byte(strings.Repeat("{\"a\":", 10001) + "1" + strings.Repeat("}", 10001)),
		[]byte("{\"a\":1,\"a\":2}"), []byte("{\"a\":}"), []byte("{\"a\" 1}"), []byte("{a:1}"), []byte("{\"a\":1,}"), []byte("[1,]"), []byte("[1 2]"),
		[]byte("\"" + strings.Repeat("x", 70000) + "\""), []byte("\xef\xbb\xbfnull"), []byte("\x00"), []byte("nan"), []byte("NaN"), []byte("Infinity"),
		[]byte("\"null\""), []byte("[null]"), []byte("{\"null\":null}"), []byte("1 2"), []byte("{} {}"), []byte("\t\r\n null \t\r\n"),
	}
	mutate := func(doc []byte) []byte {
		if len(doc) == 0 {
			return []byte("{")
		}
		d := append([]byte(nil), doc...)
		switch rn(9) {
		case 0: // truncate
			return d[:rn(len(d))]
		case 1: // bit flip
			i := rn(len(d))
			d[i] ^= 1 << uint(rn(8))
			return d
		case 2: // byte replacement by a structural character
			const alpha = "{}[]\",:0-.eEntf\\ \x00\xff"
			d[rn(len(d))] = alpha[rn(len(alpha))]
			return d
		case 3: // type swap of one value
			return LwTypeSwap(rn, d)
		case 4: // a number becomes huge
			for tries := 0; tries < 8; tries++ {
				i := rn(len(d))
				if d[i] >= '0' && d[i] <= '9' {
					huge := []string{"1e400", strings.Repeat("7", 120), "-1e400", "1.7976931348623159e308", "0." + strings.Repeat("0", 400) + "1", "4294967296", "-2147483649", "65536", "256", "-129", "1.5"}[rn(11)]
					return append(append(append([]byte(nil), d[:i]...), huge...), d[i+1:]...)
				}
			}
			return append(d, '1')
		case 5: // delete a slice of bytes
			i := rn(len(d))
			j := i + rn(len(d)-i)
			return append(d[:i], d[j:]...)
		case 6: // duplicate a slice of bytes
			i := rn(len(d))
			j := i + rn(len(d)-i)
			return append(append(append([]byte(nil), d[:j]...), d[i:j]...), d[j:]...)
		case 7: // wrap
			switch rn(4) {
			case 0:
				return append(append([]byte("["), d...), ']')
			case 1:
				return append(append([]byte("{\"x\":"), d...), '}')
			case 2:
				return append(append([]byte("\""), bytes.ReplaceAll(d, []byte("\""), []byte("\\\""))...), '"')
			}
			return append(d, d...)
		}
		// invalid UTF-8 / control byte inside
		i := rn(len(d))
		return append(append(append([]byte(nil), d[:i]...), []byte{0xc3, 0x28, 0x01}[rn(3)]), d[i:]...)
	}
	for len(out) < count {
		switch k := rn(10); {
		case k == 0 || len(docs) == 0: // PRNG bytes
			b := make([]byte, rn(40))
			for i := range b {
				b[i] = byte(rn(256))
			}
			out = append(out, b)
		case k == 1: // PRNG bytes over the JSON alphabet
			b := make([]byte, rn(30))
			const alpha = "{}[]\",:0123456789-.eEntrufals\\ "
			for i := range b {
				b[i] = alpha[rn(len(alpha))]
			}
			out = append(out, b)
		default:
			d := docs[rn(len(docs))]
			m := mutate(d)
			if rn(4) == 0 {
				m = mutate(m)
			}
			out = append(out, m)
		}
	}
	return out
}

// LwTypeSwap re-encodes the document with one value replaced by a value of another JSON type.
func LwTypeSwap(rn func(int) int, doc []byte) []byte {
	var v any
	dec := json.NewDecoder(bytes.NewReader(doc))
	dec.UseNumber()
	if err := dec.Decode(&v); err != nil {
		return append([]byte("["), doc...)
	}
	repl := func(old any) any {
		cands := []any{nil, true, json.Number("7"), json.Number("-3.5"), "str", []any{}, []any{json.Number("1"), "x", nil}, map[string]any{}, map[string]any{"k": json.Number("1")}, json.Number("1e400"), "2006-01-02T15:04:05Z", "AQID", json.Number("300"), json.Number("-1")}
		for tries := 0; tries < 6; tries++ {
			c := cands[rn(len(cands))]
			if fmt.Sprintf("%T", c) != fmt.Sprintf("%T", old) {
				return c
			}
		}
		return nil
	}
	// count nodes, then replace the k-th
	var count func(x any) int
	count = func(x any) int {
		n := 1
		switch t := x.(type) {
		case map[string]any:
			for _, e := range t {
				n += count(e)
			}
		case []any:
			for _, e := range t {
				n += count(e)
			}
		}
		return n
	}
	target := rn(count(v))
	idx := 0
	var walk func(x any) any
	walk = func(x any) any {
		if idx == target {
			idx++
			return repl(x)
		}
		idx++
		switch t := x.(type) {
		case map[string]any:
			keys := make([]string, 0, len(t))
			for k := range t {
				keys = append(keys, k)
			}
			// deterministic order
			for i := 1; i < len(keys); i++ {
				for j := i; j > 0 && keys[j] < keys[j-1]; j-- {
					keys[j], keys[j-1] = keys[j-1], keys[j]
				}
			}
			for _, k := range keys {
				t[k] = walk(t[k])
			}
			return t
		case []any:
			for i := range t {
				t[i] = walk(t[i])
			}
			return t
		}
		return x
	}
	v = walk(v)
	b, err := json.Marshal(v)
	if err != nil {
		return doc
	}
	return b
}

// LwCatch runs f and reports a panic as a string.
func LwCatch(f func() error) (err error, panicked string) {
	defer func() {
		if e := recover(); e != nil {
			panicked = fmt.Sprint(e)
		}
	}()
	return f(), ""
}
