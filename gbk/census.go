package gbk

import (
	"fmt"
	"go/ast"
	"go/parser"
	"go/token"
	"sort"
	"strconv"
	"strings"
)

// Field-set census: a static comparison of the *shape* of every generated view of a struct
// with the struct SPEC. The expected field list comes from the spec alone: an embedded
// field of a non-empty or non-struct type is a field like any other; only `_`-prefixed
// fields and embedded EMPTY structs are left out. The observed side is read off gombok's
// output (number of tuple components, results, parameters, map keys, Mutable fields). The
// law test asserts the same through typed assignments, but a missing field makes the law test
// fail to COMPILE and the verdict then only says "arity mismatch"; the census names the
// view and the missing field, and it also works when the law test cannot be built.

type censusView struct {
	view      string
	got       int
	gotNames  []string // nil when the view has no names
	wantNames []string
}

type genIndex struct {
	methods map[string]*ast.FuncDecl // "Recv.Method"
	types   map[string]*ast.TypeSpec
}

func indexGenerated(src string) *genIndex {
	fset := token.NewFileSet()
	f, err := parser.ParseFile(fset, "gen.go", src, parser.SkipObjectResolution)
	if err != nil {
		return nil
	}
	ix := &genIndex{methods: map[string]*ast.FuncDecl{}, types: map[string]*ast.TypeSpec{}}
	base := func(e ast.Expr) string {
		for {
			switch t := e.(type) {
			case *ast.StarExpr:
				e = t.X
			case *ast.IndexExpr:
				e = t.X
			case *ast.IndexListExpr:
				e = t.X
			case *ast.ParenExpr:
				e = t.X
			case *ast.Ident:
				return t.Name
			default:
				return ""
			}
		}
	}
	for _, d := range f.Decls {
		switch t := d.(type) {
		case *ast.FuncDecl:
			if t.Recv != nil && len(t.Recv.List) > 0 {
				ix.methods[base(t.Recv.List[0].Type)+"."+t.Name.Name] = t
			}
		case *ast.GenDecl:
			for _, sp := range t.Specs {
				if ts, ok := sp.(*ast.TypeSpec); ok {
					ix.types[ts.Name.Name] = ts
				}
			}
		}
	}
	return ix
}

func typeArgCount(e ast.Expr) int {
	switch t := e.(type) {
	case *ast.IndexExpr:
		return 1
	case *ast.IndexListExpr:
		return len(t.Indices)
	}
	return -1
}

func numFields(fl *ast.FieldList) int {
	if fl == nil {
		return 0
	}
	return fl.NumFields()
}

// string keys used as `m["key"]` anywhere in the body
func mapKeys(fd *ast.FuncDecl) []string {
	seen := map[string]bool{}
	var out []string
	ast.Inspect(fd.Body, func(n ast.Node) bool {
		if ix, ok := n.(*ast.IndexExpr); ok {
			if id, ok := ix.X.(*ast.Ident); ok && id.Name == "m" {
				if lit, ok := ix.Index.(*ast.BasicLit); ok && lit.Kind == token.STRING {
					if k, err := strconv.Unquote(lit.Value); err == nil && !seen[k] {
						seen[k] = true
						out = append(out, k)
					}
				}
			}
		}
		return true
	})
	return out
}

// keys of the (first) keyed composite literal returned by the method
func literalKeys(fd *ast.FuncDecl) []string {
	var out []string
	done := false
	ast.Inspect(fd.Body, func(n ast.Node) bool {
		if done {
			return false
		}
		if cl, ok := n.(*ast.CompositeLit); ok {
			for _, e := range cl.Elts {
				if kv, ok := e.(*ast.KeyValueExpr); ok {
					if id, ok := kv.Key.(*ast.Ident); ok {
						out = append(out, id.Name)
					}
				}
			}
			done = true
			return false
		}
		return true
	})
	return out
}

// Census compares the generated views of s with its spec. checked = number of views found
// and compared.
func (ix *genIndex) census(s *Struct) (checked int, bad []censusView) {
	if ix == nil || !s.expValue() {
		return 0, nil
	}
	kept := s.Kept()
	var keptNames, twinNames, twinKept []string
	for _, f := range kept {
		keptNames = append(keptNames, f.Name)
		twinKept = append(twinKept, f.MutableName())
	}
	for _, f := range s.Fields {
		twinNames = append(twinNames, f.MutableName())
	}
	count := func(view string, got int) {
		if got < 0 {
			return
		}
		checked++
		if got != len(kept) {
			bad = append(bad, censusView{view: view, got: got, wantNames: keptNames})
		}
	}
	names := func(view string, got, want []string, ordered bool) {
		checked++
		g, w := append([]string{}, got...), append([]string{}, want...)
		if !ordered {
			sort.Strings(g)
			sort.Strings(w)
		}
		if strings.Join(g, "\x00") != strings.Join(w, "\x00") {
			bad = append(bad, censusView{view: view, got: len(got), gotNames: got, wantNames: want})
		}
	}
	B, M := s.Name+"Builder", s.Name+"Mutable"
	if fd := ix.methods[s.Name+".AsTuple"]; fd != nil && s.expTuple() && numFields(fd.Type.Results) == 1 {
		count("astuple", typeArgCount(fd.Type.Results.List[0].Type))
	}
	if fd := ix.methods[s.Name+".Unapply"]; fd != nil {
		count("unapply", numFields(fd.Type.Results))
	}
	if fd := ix.methods[s.Name+".AsLabelled"]; fd != nil && s.expTuple() && numFields(fd.Type.Results) == 1 {
		count("aslabelled", typeArgCount(fd.Type.Results.List[0].Type))
	}
	if fd := ix.methods[s.Name+".AsMap"]; fd != nil && fd.Body != nil {
		names("asmap", mapKeys(fd), keptNames, false)
	}
	if fd := ix.methods[B+".Apply"]; fd != nil {
		count("apply", numFields(fd.Type.Params))
	}
	if fd := ix.methods[B+".FromTuple"]; fd != nil && s.expTuple() && numFields(fd.Type.Params) == 1 {
		count("fromtuple", typeArgCount(fd.Type.Params.List[0].Type))
	}
	if fd := ix.methods[B+".FromLabelled"]; fd != nil && s.expTuple() && numFields(fd.Type.Params) == 1 {
		count("fromlabelled", typeArgCount(fd.Type.Params.List[0].Type))
	}
	if fd := ix.methods[B+".FromMap"]; fd != nil && fd.Body != nil {
		names("frommap", mapKeys(fd), keptNames, false)
	}
	if ts := ix.types[M]; ts != nil {
		if st, ok := ts.Type.(*ast.StructType); ok {
			var got []string
			for _, f := range st.Fields.List {
				if len(f.Names) == 0 {
					got = append(got, embeddedName(f.Type))
				}
				for _, n := range f.Names {
					got = append(got, n.Name)
				}
			}
			names("mutable-twin", got, twinNames, true)
		}
	}
	lowerEmb := false
	for _, f := range s.Fields {
		if f.Embedded && !f.Public() {
			lowerEmb = true // covered by its own finding (compile/embedded-unexported-type): one defect, one key
		}
	}
	if fd := ix.methods[s.Name+".AsMutable"]; fd != nil && fd.Body != nil && !lowerEmb {
		names("asmutable", literalKeys(fd), twinKept, false) // the order of literal keys means nothing
	}
	if fd := ix.methods[M+".AsImmutable"]; fd != nil && fd.Body != nil {
		names("asimmutable", literalKeys(fd), keptNames, false)
	}
	return checked, bad
}

func embeddedName(e ast.Expr) string {
	for {
		switch t := e.(type) {
		case *ast.StarExpr:
			e = t.X
		case *ast.IndexExpr:
			e = t.X
		case *ast.IndexListExpr:
			e = t.X
		case *ast.ParenExpr:
			e = t.X
		case *ast.SelectorExpr:
			return t.Sel.Name
		case *ast.Ident:
			return t.Name
		default:
			return "?"
		}
	}
}

// describe the difference: which spec fields are missing from / foreign to the view
func (v censusView) detail(s *Struct) (string, string) {
	kind := "-"
	var b strings.Builder
	fmt.Fprintf(&b, "view %s of struct %s carries %d fields", v.view, s.Name, v.got)
	if v.gotNames != nil {
		fmt.Fprintf(&b, " %v", v.gotNames)
	}
	fmt.Fprintf(&b, "; the spec keeps %d: %v (every field except `_`-prefixed ones and embedded EMPTY structs)", len(v.wantNames), v.wantNames)
	if v.gotNames != nil {
		have := map[string]bool{}
		for _, n := range v.gotNames {
			have[n] = true
		}
		var missing []string
		for _, f := range s.Fields {
			n := f.Name
			if v.view == "mutable-twin" || v.view == "asmutable" {
				n = f.MutableName()
			}
			want := false
			for _, w := range v.wantNames {
				if w == n {
					want = true
				}
			}
			if want && !have[n] {
				missing = append(missing, fmt.Sprintf("%s (%s, %s)", f.Name, f.Ty.FK, f.Vis()))
				if kind == "-" {
					kind = f.Ty.FK
				}
			}
		}
		if len(missing) > 0 {
			fmt.Fprintf(&b, "; missing: %s", strings.Join(missing, ", "))
		}
	}
	return b.String(), kind
}
