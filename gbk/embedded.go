package gbk

import (
	"fmt"
	"strings"
)

// Embedded fields. gombok treats an embedded field as a field like any other, named after the
// base name of the embedded type (`*pkg.T` -> T): it has no getter / With / builder setter
// when that name is exported, and it takes its declaration-order position in AsTuple /
// Unapply / Apply / AsLabelled, its own AsMap / FromMap key and an embedded counterpart in
// the Mutable twin. The only embedded fields that are left out are embedded struct types
// WITHOUT fields (`Emb`, `Void[int]`, `fp.Unit`). Established with the gombok of the
// unchanged tree, one probe package per kind (2026-10-04):
//
//	kept:    *EmbP (pointer to struct), *EmbZ (pointer to an EMPTY struct: nil / non-nil is
//	         state), Local / Greeter (local interfaces), fmt.Stringer (imported interface),
//	         Level / MyStr (named basic), Tags (named slice), Attr (named map), Handler
//	         (named func), Cell[int] / Cell[T] (generic struct instantiated with a type / with
//	         the struct's own type parameter), Bag[string] (generic non-struct), time.Time
//	         (imported struct), AliasP (alias of a struct), AliasLevel (alias of a non-struct),
//	         EmbNE (struct by value), all of them with or without a struct tag
//	dropped: Emb, Void[int], fp.Unit
//	refused: error (crash: universe type without package) -- same as a plain error field
//	broken:  an embedded UNEXPORTED type (level, inner, the predeclared any): the Mutable twin
//	         embeds it under its own name but AsMutable / AsImmutable spell the twin's field
//	         with an upper-case initial -> generated code does not compile (finding
//	         gombok/value/compile/embedded-unexported-type; UnexportedEmbeddedProbe)
//	left out of the grammar: an alias of an EMPTY struct (kept by gombok although the struct
//	         is empty: undocumented either way), sync.Mutex (go vet copylocks), an embedded
//	         fp.Option / embedded annotated struct (their promoted methods carry the names of
//	         generated methods: name-collision family, see Assumptions)
type embSpec struct {
	Kind    string // label of hit counters and violation keys (Ty.FK = "emb-"+Kind)
	Name    string // field name = base name of the embedded type
	Empty   bool   // embedded struct without fields: gombok leaves it out
	NeedsTP bool   // spelled with one of the struct's type parameters
	Reserve []string
	Make    func(g *G, tp *TParam) *Ty
}

func embTy(kind string, t *Ty) *Ty {
	c := *t
	c.FK = "emb-" + kind
	return &c
}

const genEmbP = "lwG[EmbP](func(r *lwRand, nn bool) EmbP { return EmbP{Pid: r.n(1000), Ptag: lwStr[string]()(r, false)} })"
const genEmbNE = "lwG[EmbNE](func(r *lwRand, nn bool) EmbNE { return EmbNE{Inner: r.n(1000), Other: lwStr[string]()(r, false)} })"

func plainTy(src, gen string, cmp bool, imports ...string) *Ty {
	return &Ty{FK: "named", Src: src, Conc: src, Gen: gen, Cmp: cmp, JSONOK: true, TagRule: "plain", Imports: imports}
}

// CellT is the local generic struct Cell[e] (as a plain field type or embedded).
func CellT(e *Ty) *Ty {
	c := "Cell[" + e.Conc + "]"
	t := &Ty{FK: "generic-local", Src: "Cell[" + e.Src + "]", Conc: c, Cmp: e.Cmp, JSONOK: e.JSONOK, TagRule: "plain",
		Gen: fmt.Sprintf("lwG[%s](func(r *lwRand, nn bool) %s { return %s{Val: (%s)(r, false)} })", c, c, c, e.Gen)}
	return t.merge(e)
}

// BagT is the local generic slice type Bag[e].
func BagT(e *Ty) *Ty {
	c := "Bag[" + e.Conc + "]"
	t := &Ty{FK: "generic-local", Src: "Bag[" + e.Src + "]", Conc: c, JSONOK: e.JSONOK, TagRule: "either", Gen: fmt.Sprintf("lwSliceOf[%s](%s)", c, e.Gen)}
	return t.merge(e)
}

// VoidT is the local generic EMPTY struct Void[e].
func VoidT(e *Ty) *Ty {
	c := "Void[" + e.Conc + "]"
	t := &Ty{FK: "generic-local", Src: "Void[" + e.Src + "]", Conc: c, Cmp: e.Cmp, JSONOK: true, TagRule: "plain", Gen: "lwZero[" + c + "]()"}
	t.merge(e)
	t.Decls = nil
	return t
}

// AliasPT is `type AliasP = EmbQ` (alias of a local struct).
func AliasPT() *Ty {
	t := plainTy("AliasP", "lwG[AliasP](func(r *lwRand, nn bool) AliasP { return AliasP{Qid: r.n(1000)} })", true)
	t.FK = "alias"
	return t
}

// AliasLevelT is `type AliasLevel = Level` (alias of a named non-struct).
func AliasLevelT() *Ty {
	t := NamedBasic("AliasLevel", "int")
	t.FK = "alias"
	return t
}

// HandlerT is the named func type `type Handler func(int) string`.
func HandlerT(id string) *Ty {
	in := FuncT(id, []*Ty{Basic("int")}, nil, []*Ty{Basic("string")}, nil)
	return &Ty{FK: "named", Src: "Handler", Conc: "Handler", Gen: strings.Replace(in.Gen, "lwPick["+in.Conc+"]", "lwPick[Handler]", 1), TagRule: "either", Decls: in.Decls}
}

// method names of time.Time (lower-cased): no field may be named like a promoted member
var timeMembers = []string{"add", "adddate", "after", "appendformat", "before", "clock", "compare", "date", "day", "equal", "format", "gobdecode", "gobencode",
	"gostring", "hour", "in", "isdst", "iszero", "isoweek", "local", "location", "marshalbinary", "marshaljson", "marshaltext", "minute", "month", "nanosecond",
	"round", "second", "string", "sub", "truncate", "utc", "unix", "unixmicro", "unixmilli", "unixnano", "unmarshalbinary", "unmarshaljson", "unmarshaltext",
	"weekday", "year", "yearday", "zone", "zonebounds"}

var embMenu = []embSpec{
	{Kind: "struct-empty", Name: "Emb", Empty: true, Make: func(g *G, tp *TParam) *Ty { return plainTy("Emb", "lwZero[Emb]()", true) }},
	{Kind: "struct", Name: "EmbNE", Reserve: []string{"inner", "other"}, Make: func(g *G, tp *TParam) *Ty { return plainTy("EmbNE", genEmbNE, true) }},
	{Kind: "ptr-struct", Name: "EmbP", Reserve: []string{"pid", "ptag"}, Make: func(g *G, tp *TParam) *Ty { return PtrT(plainTy("EmbP", genEmbP, true)) }},
	{Kind: "ptr-empty-struct", Name: "EmbZ", Make: func(g *G, tp *TParam) *Ty { return PtrT(plainTy("EmbZ", "lwZero[EmbZ]()", true)) }},
	{Kind: "iface-local", Name: "Local", Reserve: []string{"local"}, Make: func(g *G, tp *TParam) *Ty { return LocalIfaceT() }},
	{Kind: "iface-local", Name: "Greeter", Reserve: []string{"hello"}, Make: func(g *G, tp *TParam) *Ty { return GreeterT() }},
	{Kind: "iface-imported", Name: "Stringer", Reserve: []string{"string"}, Make: func(g *G, tp *TParam) *Ty { return StringerT() }},
	{Kind: "named-basic", Name: "Level", Make: func(g *G, tp *TParam) *Ty { return NamedBasic("Level", "int") }},
	{Kind: "named-basic", Name: "MyStr", Make: func(g *G, tp *TParam) *Ty { return NamedBasic("MyStr", "string") }},
	{Kind: "named-slice", Name: "Tags", Make: func(g *G, tp *TParam) *Ty { return plainTy("Tags", "lwSliceOf[Tags](lwStr[string]())", false) }},
	{Kind: "named-map", Name: "Attr", Make: func(g *G, tp *TParam) *Ty {
		return plainTy("Attr", "lwMapOf[Attr](lwStr[string](), lwInt[int]())", false)
	}},
	{Kind: "named-func", Name: "Handler", Make: func(g *G, tp *TParam) *Ty { return HandlerT(g.fid()) }},
	{Kind: "generic-struct", Name: "Cell", Reserve: []string{"val"}, Make: func(g *G, tp *TParam) *Ty { return CellT(Basic("int")) }},
	{Kind: "generic-struct-tparam", Name: "Cell", NeedsTP: true, Reserve: []string{"val"}, Make: func(g *G, tp *TParam) *Ty { return CellT(TParamT(tp.Name, tp.Inst)) }},
	{Kind: "generic-nonstruct", Name: "Bag", Make: func(g *G, tp *TParam) *Ty { return BagT(Basic("string")) }},
	{Kind: "generic-struct-empty", Name: "Void", Empty: true, Make: func(g *G, tp *TParam) *Ty { return VoidT(Basic("int")) }},
	{Kind: "imported-struct", Name: "Time", Reserve: timeMembers, Make: func(g *G, tp *TParam) *Ty { return TimeT() }},
	{Kind: "imported-struct-empty", Name: "Unit", Empty: true, Make: func(g *G, tp *TParam) *Ty {
		return plainTy("fp.Unit", "lwZero[fp.Unit]()", true, impFP)
	}},
	{Kind: "alias-struct", Name: "AliasP", Reserve: []string{"qid"}, Make: func(g *G, tp *TParam) *Ty { return AliasPT() }},
	{Kind: "alias-nonstruct", Name: "AliasLevel", Make: func(g *G, tp *TParam) *Ty { return AliasLevelT() }},
}

// EmbKinds lists the kinds of embedded field the grammar produces (hit counters
// "embedded.<kind>"); every one of them occurs in seed package 3.
func EmbKinds() []string {
	seen := map[string]bool{}
	var out []string
	for _, e := range embMenu {
		if !seen[e.Kind] {
			seen[e.Kind] = true
			out = append(out, e.Kind)
		}
	}
	return out
}

func embSpecOf(kind, name string) embSpec {
	for _, e := range embMenu {
		if e.Kind == kind && (name == "" || e.Name == name) {
			return e
		}
	}
	panic("gbk: no embedded kind " + kind + " " + name)
}

func (e embSpec) field(g *G, tp *TParam) Field {
	return Field{Name: e.Name, Ty: embTy(e.Kind, e.Make(g, tp)), Embedded: true, EmptyEmb: e.Empty, EmbKind: e.Kind}
}

// Emb builds an embedded field of the given kind (seed packages). name selects among several
// types of one kind ("" = the first).
func (g *G) Emb(kind string, name ...string) Field {
	n := ""
	if len(name) > 0 {
		n = name[0]
	}
	return embSpecOf(kind, n).field(g, nil)
}

// EmbTP is the embedded generic struct instantiated with the struct's own type parameter.
func (g *G) EmbTP(tp TParam) Field {
	return embSpecOf("generic-struct-tparam", "").field(g, &tp)
}

// randomEmbedded draws 0..3 embedded fields of distinct names for a struct with the given
// usable type parameters and reserves the names they take.
func (g *G) randomEmbedded(tps []TParam, used map[string]bool) []Field {
	n := 0
	switch k := g.R.IntN(100); {
	case k < 50:
		n = 0
	case k < 78:
		n = 1
	case k < 93:
		n = 2
	default:
		n = 3
	}
	var out []Field
	taken := map[string]bool{}
	for tries := 0; len(out) < n && tries < 20; tries++ {
		e := embMenu[g.R.IntN(len(embMenu))]
		if taken[e.Name] || (e.NeedsTP && len(tps) == 0) {
			continue
		}
		clash := used[strings.ToLower(e.Name)]
		for _, r := range e.Reserve {
			if used[r] {
				clash = true
			}
		}
		if clash {
			continue
		}
		var tp *TParam
		if e.NeedsTP {
			tp = &tps[g.R.IntN(len(tps))]
		}
		f := e.field(g, tp)
		if g.chance(15) {
			f.Tag = strings.ReplaceAll(tagMenu[g.R.IntN(2)], "%s", strings.ToLower(e.Name))
		}
		taken[e.Name] = true
		used[strings.ToLower(e.Name)] = true
		for _, r := range e.Reserve {
			used[r] = true
		}
		out = append(out, f)
	}
	return out
}

// UnexportedEmbeddedProbe: a struct that embeds an UNEXPORTED named type. The pinned gombok
// accepts it and writes AsMutable / AsImmutable that do not compile (see the table above);
// it lives in its own small package so that the extra round costs little.
func (g *G) UnexportedEmbeddedProbe() {
	lv := Field{Name: "level", Ty: embTy("unexported-named", NamedBasic("level", "int")), Embedded: true, EmbKind: "unexported-named"}
	in := Field{Name: "inner", Ty: embTy("unexported-struct", plainTy("inner", "lwG[inner](func(r *lwRand, nn bool) inner { return inner{X: r.n(1000)} })", true)), Embedded: true, EmbKind: "unexported-struct"}
	g.mk("EmbLower", "probe/embedded-unexported-named", vOnly, lv, fld("name", tStr()), fld("Pub", tInt()))
	g.mk("EmbLowerStruct", "probe/embedded-unexported-struct", vL, fld("name", tStr()), in)
	g.mk("Control", "probe/control", vL, g.Emb("named-basic"), fld("name", tStr()), g.Emb("ptr-struct"))
}
