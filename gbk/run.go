package gbk

import (
	"bytes"
	"fmt"
	"go/ast"
	"go/parser"
	"go/token"
	"os"
	"os/exec"
	"path/filepath"
	"regexp"
	"sort"
	"strconv"
	"strings"
	"time"
)

// RepoPath is the csgura/fp tree gombok is built from and the scratch modules are wired to.
// VERIF_REPO exists only so that mutants in a scratch copy can be checked.
func RepoPath() string {
	if p := os.Getenv("VERIF_REPO"); p != "" {
		return p
	}
	return "/repo"
}

func goEnv() []string {
	env := []string{}
	for _, e := range os.Environ() {
		if strings.HasPrefix(e, "GOFLAGS=") || strings.HasPrefix(e, "GOPROXY=") || strings.HasPrefix(e, "GOSUMDB=") || strings.HasPrefix(e, "GOTOOLCHAIN=") ||
			strings.HasPrefix(e, "GOPACKAGE=") || strings.HasPrefix(e, "GOFILE=") || strings.HasPrefix(e, "GOMAXPROCS=") {
			continue
		}
		env = append(env, e)
	}
	return append(env, "GOFLAGS=-mod=mod -trimpath", "GOPROXY=off", "GOSUMDB=off", "GOTOOLCHAIN=local")
}

// NewModule creates a throw-away module wired to RepoPath().
func NewModule(prefix string) (string, error) {
	dir, err := os.MkdirTemp("", prefix)
	if err != nil {
		return "", err
	}
	mod := "module scratch\n\ngo 1.23\n\nrequire github.com/csgura/fp v0.0.0\n\nreplace github.com/csgura/fp => " + RepoPath() + "\n"
	if err := os.WriteFile(filepath.Join(dir, "go.mod"), []byte(mod), 0o644); err != nil {
		return dir, err
	}
	sum, err := os.ReadFile(filepath.Join(RepoPath(), "go.sum"))
	if err != nil {
		return dir, err
	}
	return dir, os.WriteFile(filepath.Join(dir, "go.sum"), sum, 0o644)
}

// Tool is the gombok binary built from the working tree.
type Tool struct {
	Bin   string
	owned string // directory to remove
}

const toolEnv = "VERIF_GOMBOK_BIN"

// BuildTool builds gombok once from RepoPath(); the binary's base name must be "gombok"
// (it is printed into the header of generated files).
func BuildTool() (*Tool, error) {
	dir, err := NewModule("verif-gombok-")
	if err != nil {
		return nil, err
	}
	bin := filepath.Join(dir, "bin", "gombok")
	os.MkdirAll(filepath.Dir(bin), 0o755)
	cmd := exec.Command("go", "build", "-o", bin, "github.com/csgura/fp/cmd/gombok")
	cmd.Dir = dir
	cmd.Env = goEnv()
	out, err := cmd.CombinedOutput()
	if err != nil {
		os.RemoveAll(dir)
		return nil, fmt.Errorf("building gombok from %s failed: %v\n%s", RepoPath(), err, out)
	}
	return &Tool{Bin: bin, owned: dir}, nil
}

// ParentSetup is called by the parent process before vrt.Main: build gombok once and hand
// it to the workers through the environment. The returned function removes it.
func ParentSetup() (cleanup func(), err error) {
	if os.Getenv(toolEnv) != "" {
		return func() {}, nil
	}
	t, err := BuildTool()
	if err != nil {
		return func() {}, err
	}
	os.Setenv(toolEnv, t.Bin)
	return func() { os.RemoveAll(t.owned) }, nil
}

// WorkerTool returns the tool built by the parent, or builds one (replay runs).
func WorkerTool() (*Tool, func(), error) {
	if p := os.Getenv(toolEnv); p != "" {
		if _, err := os.Stat(p); err == nil {
			return &Tool{Bin: p}, func() {}, nil
		}
	}
	t, err := BuildTool()
	if err != nil {
		return nil, func() {}, err
	}
	return t, func() { os.RemoveAll(t.owned) }, nil
}

// GombokResult is what one gombok run did.
type GombokResult struct {
	Exit        int
	Output      string
	Generated   string // content of <pkg>_value_generated.go ("" = not written)
	FormatError bool   // gombok's own go/format step rejected its output
	Refusal     string // "", "cant-summon", "crash", "exit"
}

func RunGombok(t *Tool, pkgDir, pkgName string) GombokResult {
	cmd := exec.Command(t.Bin)
	cmd.Dir = pkgDir
	cmd.Env = append(goEnv(), "GOPACKAGE="+pkgName, "GOFILE=in.go")
	out, err := cmd.CombinedOutput()
	res := GombokResult{Output: string(out)}
	if err != nil {
		res.Exit = 1
		if ee, ok := err.(*exec.ExitError); ok {
			res.Exit = ee.ExitCode()
		}
	}
	if b, e := os.ReadFile(filepath.Join(pkgDir, pkgName+"_value_generated.go")); e == nil {
		res.Generated = string(b)
	}
	if res.Exit != 0 {
		switch {
		case strings.Contains(res.Output, "format error"):
			res.FormatError = true
		case strings.Contains(res.Output, "can't summon"):
			res.Refusal = "cant-summon"
		case strings.Contains(res.Output, "panic:") || strings.Contains(res.Output, "SIGSEGV"):
			res.Refusal = "crash"
		default:
			res.Refusal = "exit"
		}
	}
	return res
}

// CompileError is one line of compiler output.
type CompileError struct {
	File string
	Line int
	Msg  string
}

type LawFail struct {
	Struct, Law, Field, Kind, Detail string
	Repeats                          int
}

type TestResult struct {
	Output      string
	BuildFailed bool
	Errors      []CompileError
	Fails       []LawFail
	Evals       map[string]int64
	Stats       map[string]int64
	Done        bool
}

var errLine = regexp.MustCompile(`^(?:\./)?([A-Za-z0-9_./-]+\.go):(\d+)(?::\d+)?: (.*)$`)

// RunLawTest compiles the package together with lw_law_test.go and runs it.
func RunLawTest(pkgDir string) TestResult {
	os.Remove(filepath.Join(pkgDir, "lw_result.txt"))
	// -gcflags=-e: report every compile error, not only the first ten (one round is then enough to drop every failing struct)
	cmd := exec.Command("go", "test", "-vet=off", "-gcflags=-e", "-count=1", "-run", "^TestLw$", ".")
	cmd.Dir = pkgDir
	cmd.Env = goEnv()
	out, _ := cmd.CombinedOutput()
	for try := 0; try < 2 && strings.Contains(string(out), "/go-build/") && strings.Contains(string(out), "no such file or directory"); try++ {
		// the shared Go build cache was trimmed under the build (sibling checks do that when the disk fills): not a verdict, retry
		cmd = exec.Command("go", "test", "-vet=off", "-gcflags=-e", "-count=1", "-run", "^TestLw$", ".")
		cmd.Dir = pkgDir
		cmd.Env = goEnv()
		out, _ = cmd.CombinedOutput()
	}
	res := TestResult{Output: string(out), Evals: map[string]int64{}, Stats: map[string]int64{}}
	if strings.Contains(res.Output, "[build failed]") || strings.Contains(res.Output, "[setup failed]") {
		res.BuildFailed = true
		for _, l := range strings.Split(res.Output, "\n") {
			if m := errLine.FindStringSubmatch(strings.TrimSpace(l)); m != nil {
				n, _ := strconv.Atoi(m[2])
				res.Errors = append(res.Errors, CompileError{File: filepath.Base(m[1]), Line: n, Msg: m[3]})
			}
		}
		return res
	}
	b, err := os.ReadFile(filepath.Join(pkgDir, "lw_result.txt"))
	if err != nil {
		return res
	}
	rep := map[string]int{}
	for _, l := range strings.Split(string(b), "\n") {
		f := strings.Split(l, "\t")
		switch f[0] {
		case "FAIL":
			if len(f) >= 6 {
				res.Fails = append(res.Fails, LawFail{Struct: f[1], Law: f[2], Field: f[3], Kind: f[4], Detail: f[5], Repeats: 1})
			}
		case "EVALS":
			if len(f) >= 3 {
				n, _ := strconv.ParseInt(f[2], 10, 64)
				res.Evals[f[1]] += n
			}
		case "STAT":
			if len(f) >= 3 {
				n, _ := strconv.ParseInt(f[2], 10, 64)
				res.Stats[f[1]] += n
			}
		case "REPEAT":
			if len(f) >= 5 {
				n, _ := strconv.Atoi(f[4])
				rep[f[1]+"\t"+f[2]+"\t"+f[3]] = n
			}
		case "DONE":
			res.Done = true
		}
	}
	for i := range res.Fails {
		if n := rep[res.Fails[i].Struct+"\t"+res.Fails[i].Law+"\t"+res.Fails[i].Field]; n > 0 {
			res.Fails[i].Repeats = n
		}
	}
	return res
}

// declOwners maps every line of a generated file to the type / function the enclosing
// top-level declaration belongs to.
func declOwners(src string) (func(line int) string, map[string]bool) {
	fset := token.NewFileSet()
	f, err := parser.ParseFile(fset, "gen.go", src, parser.SkipObjectResolution)
	owners := map[string]bool{}
	if err != nil {
		return func(int) string { return "" }, owners
	}
	type span struct {
		from, to int
		owner    string
	}
	var spans []span
	base := func(e ast.Expr) string {
		for {
			switch t := e.(type) {
			case *ast.StarExpr:
				e = t.X
			case *ast.IndexExpr:
				e = t.X
			case *ast.IndexListExpr:
				e = t.X
			case *ast.ParenExpr:
				e = t.X
			case *ast.Ident:
				return t.Name
			default:
				return ""
			}
		}
	}
	for _, d := range f.Decls {
		from, to := fset.Position(d.Pos()).Line, fset.Position(d.End()).Line
		switch t := d.(type) {
		case *ast.FuncDecl:
			o := t.Name.Name
			if t.Recv != nil && len(t.Recv.List) > 0 {
				o = base(t.Recv.List[0].Type)
			}
			spans = append(spans, span{from, to, o})
			owners[o] = true
		case *ast.GenDecl:
			for _, s := range t.Specs {
				if ts, ok := s.(*ast.TypeSpec); ok {
					spans = append(spans, span{fset.Position(ts.Pos()).Line, fset.Position(ts.End()).Line, ts.Name.Name})
					owners[ts.Name.Name] = true
				}
			}
		}
	}
	return func(line int) string {
		for _, s := range spans {
			if line >= s.from && line <= s.to {
				return s.owner
			}
		}
		return ""
	}, owners
}

// ownerStruct resolves the owner of a generated declaration to a struct of the package.
func ownerStruct(p *Pkg, owner string) *Struct {
	var best *Struct
	for _, s := range p.Structs {
		for _, cand := range []string{s.Name, s.Name + "Builder", s.Name + "Mutable", "New" + s.Name, "Into" + s.Name} {
			if owner == cand && (best == nil || len(s.Name) > len(best.Name)) {
				best = s
			}
		}
	}
	return best
}

func classifyCompile(msg string, s *Struct) string {
	typeset := false
	if s != nil {
		for _, tp := range s.TParams {
			if tp.CK == "inline-typeset" {
				typeset = true
			}
		}
	}
	lowerEmb := false
	if s != nil {
		for _, f := range s.Fields {
			if f.Embedded && !f.Public() {
				lowerEmb = true
			}
		}
	}
	switch {
	case lowerEmb && (strings.Contains(msg, "unknown field") || strings.Contains(msg, "has no field or method")):
		// the Mutable twin embeds the unexported type under its own name, AsMutable / AsImmutable
		// spell it with an upper-case initial
		return "embedded-unexported-type"
	case strings.Contains(msg, "does not satisfy") && typeset:
		return "type-set-constraint"
	case strings.Contains(msg, "does not satisfy"):
		return "constraint-not-satisfied"
	case strings.Contains(msg, "redeclared") || strings.Contains(msg, "already declared") || strings.Contains(msg, "duplicate"):
		return "duplicate-declaration"
	case strings.Contains(msg, "undefined"):
		return "undefined-name"
	case strings.Contains(msg, "imported and not used"):
		return "unused-import"
	case strings.Contains(msg, "declared and not used"):
		return "unused-variable"
	case strings.Contains(msg, "cannot use") || strings.Contains(msg, "mismatched types") || strings.Contains(msg, "cannot convert"):
		return "type-mismatch"
	case strings.Contains(msg, "not enough") || strings.Contains(msg, "too many") || strings.Contains(msg, "assignment mismatch"):
		return "arity-mismatch"
	case strings.Contains(msg, "syntax error") || strings.Contains(msg, "expected"):
		return "syntax"
	case strings.Contains(msg, "unknown field") || strings.Contains(msg, "has no field or method") || strings.Contains(msg, "missing method"):
		return "missing-member"
	}
	return "other"
}

// Finding is a violation found while processing a package.
type Finding struct {
	Key     string
	Detail  string
	Witness map[string]any
	Struct  *Struct // the struct the finding is about, when known
}

// Outcome of one package.
type Outcome struct {
	Findings   []Finding
	Counters   map[string]int64
	Tested     []*Struct // structs whose laws ran
	Refused    []*Struct // structs gombok refused (crash / can't summon / no output)
	Lost       []*Struct // structs not tested because the package could not be compiled
	Notes      []string
	GombokRuns int
	ComboErrs  []ComboCompileError // compile errors of annotation-combination structs (keyed later, over all packages: ComboFindings)
}

func (o *Outcome) add(k string, n int64) { o.Counters[k] += n }

func (o *Outcome) refuse(s *Struct, why string) {
	for _, r := range o.Refused {
		if r.Name == s.Name {
			return
		}
	}
	o.Refused = append(o.Refused, s)
	o.add("refused."+why, 1)
}

type Options struct {
	Prefix    string // key prefix: "gombok/value" or "gombok/json"
	Seed      uint64
	Values    int
	Hostile   int
	ValueLaws bool
	KeepDir   string // debugging: copy the scratch package here
}

func clip(s string, n int) string {
	if len(s) > n {
		return s[:n] + "\n…(truncated)"
	}
	return s
}

func writePkg(dir string, p *Pkg) error {
	os.RemoveAll(dir)
	if err := os.MkdirAll(dir, 0o755); err != nil {
		return err
	}
	if err := os.WriteFile(filepath.Join(dir, "support.go"), []byte(SupportSource(p.Name)), 0o644); err != nil {
		return err
	}
	return os.WriteFile(filepath.Join(dir, "in.go"), []byte(p.Source()), 0o644)
}

// RunPackage: generate the input package, run gombok on it, compile it together with the
// law test, run the laws. Refusals are isolated (each struct alone) so that the accepted
// structs are still tested; structs whose generated code does not compile are reported and
// removed, and the rest is tested in a second round.
func RunPackage(t *Tool, p *Pkg, opt Options) *Outcome {
	o := &Outcome{Counters: map[string]int64{}}
	mod, err := NewModule("verif-gbk-")
	if err != nil {
		o.Notes = append(o.Notes, "cannot create scratch module: "+err.Error())
		return o
	}
	defer os.RemoveAll(mod)
	cur := p
	reported := map[string]bool{}
	for round := 0; round < 4 && len(cur.Structs) > 0; round++ {
		dir := filepath.Join(mod, fmt.Sprintf("r%d", round), p.Name)
		if err := writePkg(dir, cur); err != nil {
			o.Notes = append(o.Notes, err.Error())
			return o
		}
		src := cur.Source()
		t0 := time.Now()
		g := RunGombok(t, dir, p.Name)
		o.add("time_ms.gombok", time.Since(t0).Milliseconds())
		o.GombokRuns++
		if opt.KeepDir != "" {
			exec.Command("cp", "-r", dir, opt.KeepDir).Run()
		}
		if g.FormatError {
			// which struct? isolate
			bad := isolate(t, mod, cur, o, func(r GombokResult) bool { return r.FormatError })
			o.Findings = append(o.Findings, Finding{Key: opt.Prefix + "/format-error", Detail: "gombok's own go/format step rejected its output:\n" + clip(tailLines(g.Output, 12), 1500),
				Witness: map[string]any{"input": src, "gombok_output": clip(g.Output, 6000), "structs": names(bad)}})
			if len(bad) == 0 {
				o.Lost = append(o.Lost, cur.Structs...)
				return o
			}
			cur = cur.Without(nameSet(bad))
			continue
		}
		if g.Exit != 0 {
			bad := isolate(t, mod, cur, o, func(r GombokResult) bool { return r.Exit != 0 })
			if len(bad) == 0 {
				// fails only in combination: count the whole package as refused
				for _, s := range cur.Structs {
					o.refuse(s, g.Refusal)
				}
				o.Notes = append(o.Notes, "gombok refused the package as a whole ("+g.Refusal+"): "+firstLine(g.Output))
				return o
			}
			for _, s := range bad {
				o.refuse(s, g.Refusal)
			}
			o.Notes = append(o.Notes, fmt.Sprintf("gombok refused %v (%s): %s", names(bad), g.Refusal, panicLine(g.Output)))
			cur = cur.Without(nameSet(bad))
			continue
		}
		// structs without any output are refusals ("no output for it")
		_, owners := declOwners(g.Generated)
		var accepted []*Struct
		for _, s := range cur.Structs {
			has := false
			for _, cand := range []string{s.Name, s.Name + "Builder", s.Name + "Mutable", "New" + s.Name} {
				if owners[cand] {
					has = true
				}
			}
			if has || s.ExpectsNothing() {
				if !has {
					o.refuse(s, "no-output-expected")
				}
				accepted = append(accepted, s)
			} else {
				o.refuse(s, "no-output")
				o.Notes = append(o.Notes, "gombok wrote nothing for "+s.Summary())
			}
		}
		if len(accepted) != len(cur.Structs) {
			cur = cur.Without(nameSetExcept(cur.Structs, accepted))
			continue
		}
		if opt.ValueLaws {
			// field-set census: shape of every generated view against the spec (census.go)
			ix := indexGenerated(g.Generated)
			censusBad := map[string]bool{}
			for _, s := range cur.Structs {
				n, bad := ix.census(s)
				if len(bad) > 0 {
					censusBad[s.Name] = true
				}
				if n > 0 {
					o.add("census.structs", 1)
					o.add("census.views", int64(n))
				}
				for _, v := range bad {
					key := opt.Prefix + "/field-set/" + v.view
					if reported[key+"\x00"+s.Name] {
						continue
					}
					reported[key+"\x00"+s.Name] = true
					detail, kind := v.detail(s)
					o.Findings = append(o.Findings, Finding{Key: key, Detail: detail + "\nstruct: " + s.Summary() + "\n" + s.Source(cur),
						Witness: map[string]any{"input": src, "struct": s.Summary(), "struct_source": s.Source(cur), "view": v.view, "fields_in_view": v.got, "names_in_view": v.gotNames,
							"fields_kept_by_spec": v.wantNames, "first_missing_field_kind": kind}})
				}
			}
			if len(censusBad) > 0 {
				// the law test of such a struct cannot compile (typed tuple / Unapply / Apply uses): drop
				// them all at once so that the other structs of the package are still tested
				cur = cur.Without(censusBad)
				continue
			}
		}
		test := LawTestSource(cur, cur.Structs, opt.Seed, opt.Values, opt.Hostile, opt.ValueLaws)
		if err := os.WriteFile(filepath.Join(dir, "lw_law_test.go"), []byte(test), 0o644); err != nil {
			o.Notes = append(o.Notes, err.Error())
			return o
		}
		t0 = time.Now()
		tr := RunLawTest(dir)
		o.add("time_ms.gotest", time.Since(t0).Milliseconds())
		if opt.KeepDir != "" {
			exec.Command("cp", "-r", dir, opt.KeepDir).Run()
		}
		if tr.BuildFailed {
			ownerOf, _ := declOwners(g.Generated)
			bad := map[string]*Struct{}
			progress := false
			genName := p.Name + "_value_generated.go"
			var lawErrs []CompileError
			for _, e := range tr.Errors {
				switch e.File {
				case genName:
					s := ownerStruct(cur, ownerOf(e.Line))
					name := "?"
					if s != nil {
						name = s.Name
						bad[name] = s
					}
					class := classifyCompile(e.Msg, s)
					if s != nil && s.Combo != nil {
						if !strings.HasPrefix(e.Msg, "other declaration of") { // second line of a "redeclared" message
							o.ComboErrs = append(o.ComboErrs, ComboCompileError{Struct: s, Class: class, Msg: normCompileMsg(e.Msg, s), Raw: e.Msg})
						}
						continue
					}
					key := opt.Prefix + "/compile/" + class
					if !reported[key+name] {
						reported[key+name] = true
						w := map[string]any{"input": src, "compiler_output": clip(tr.Output, 4000), "generated_excerpt": excerpt(g.Generated, e.Line, 6)}
						detail := fmt.Sprintf("generated code does not compile with the package: %s:%d: %s", e.File, e.Line, e.Msg)
						if s != nil {
							w["struct"] = s.Summary()
							w["struct_source"] = s.Source(cur)
							detail += "\nstruct: " + s.Summary() + "\n" + s.Source(cur)
						}
						o.Findings = append(o.Findings, Finding{Key: key, Detail: detail, Witness: w})
					}
				case "lw_law_test.go":
					lawErrs = append(lawErrs, e)
				}
			}
			if len(bad) == 0 && len(lawErrs) > 0 {
				// the generated file compiles but a member the spec expects is missing / has another type.
				// Every struct named by an error is reported (once) and dropped, so that one round is enough
				for k, e := range lawErrs {
					line := lineOf(test, e.Line)
					var s *Struct
					for _, c := range cur.Structs {
						if refersTo(line, "lwT_"+c.Name) || refersTo(line, "lwLaws_"+c.Name) || refersTo(line, "lwFields_"+c.Name) || refersTo(line, "lwGen_"+c.Name) {
							s = c
						}
					}
					if s == nil {
						s = structOfLawLine(cur, test, e.Line)
					}
					if k > 0 && (s == nil || bad[s.Name] != nil) {
						continue // follow-up error of a struct already reported
					}
					key := opt.Prefix + "/lawtest-compile/" + classifyCompile(e.Msg, s)
					w := map[string]any{"input": src, "compiler_output": clip(tr.Output, 4000), "law_test_line": line}
					detail := fmt.Sprintf("the law test written from the spec does not compile against gombok's output: %s:%d: %s\n%s", e.File, e.Line, e.Msg, strings.TrimSpace(line))
					if s != nil {
						w["struct"] = s.Summary()
						detail += "\nstruct: " + s.Summary() + "\n" + s.Source(cur)
						bad[s.Name] = s
					}
					o.Findings = append(o.Findings, Finding{Key: key, Detail: detail, Witness: w})
				}
			}
			if len(bad) > 0 {
				progress = true
				ns := map[string]bool{}
				for n := range bad {
					ns[n] = true
				}
				cur = cur.Without(ns)
			}
			if !progress {
				if len(tr.Errors) == 0 {
					o.Notes = append(o.Notes, "go test could not be set up: "+clip(tr.Output, 600))
					o.add("harness.setup-failed", 1)
				}
				o.Lost = append(o.Lost, cur.Structs...)
				return o
			}
			continue
		}
		if !tr.Done && !strings.Contains(tr.Output, "panic:") && !strings.Contains(tr.Output, "fatal error:") {
			// the test binary did not run to the end for a reason that is not a crash of the code
			// under test (killed, resource exhaustion): harness problem, not a verdict
			o.Notes = append(o.Notes, "law test did not run to completion (no panic): "+clip(tailLines(tr.Output, 8), 600))
			o.add("harness.test-did-not-run", 1)
			o.Lost = append(o.Lost, cur.Structs...)
			return o
		}
		if !tr.Done {
			o.Findings = append(o.Findings, Finding{Key: opt.Prefix + "/lawtest-crash", Detail: "the law-test binary did not finish:\n" + clip(tailLines(tr.Output, 30), 3000),
				Witness: map[string]any{"input": src, "output": clip(tr.Output, 8000)}})
			o.Lost = append(o.Lost, cur.Structs...)
			return o
		}
		// laws ran
		for _, s := range cur.Structs {
			if !s.ExpectsNothing() {
				o.Tested = append(o.Tested, s)
			}
			o.add("law_evaluations", tr.Evals[s.Name])
		}
		for k, v := range tr.Stats {
			o.add(k, v)
		}
		for _, f := range tr.Fails {
			s := cur.Find(f.Struct)
			prefix := opt.Prefix
			key := prefix + "/" + f.Law + "/" + f.Kind
			if f.Kind == "-" || f.Kind == "" {
				key = prefix + "/" + f.Law
			}
			if f.Law == "json-error-aliased-storage-changed" {
				// one stable key: the mechanism is the same for every container kind
				key = prefix + "/unmarshal-error-mutates-shared-storage"
			}
			w := map[string]any{"input": src, "law": f.Law, "field": f.Field, "field_kind": f.Kind, "detail": f.Detail, "failing_evaluations": f.Repeats}
			detail := fmt.Sprintf("law %q fails for struct %s, field %s (%s): %s", f.Law, f.Struct, f.Field, f.Kind, f.Detail)
			if s != nil {
				w["struct"] = s.Summary()
				detail += "\n" + s.Source(cur)
			}
			o.Findings = append(o.Findings, Finding{Key: key, Detail: detail, Witness: w})
		}
		return o
	}
	if len(cur.Structs) > 0 {
		o.Lost = append(o.Lost, cur.Structs...)
	}
	return o
}

func structOfLawLine(p *Pkg, test string, line int) *Struct {
	lines := strings.Split(test, "\n")
	re := regexp.MustCompile(`^func lw(?:Laws|JSON|Gen|Fields)_([A-Za-z0-9_]+)\(`)
	for i := line - 1; i >= 0 && i < len(lines); i-- {
		if m := re.FindStringSubmatch(lines[i]); m != nil {
			return p.Find(m[1])
		}
	}
	return nil
}

func lineOf(src string, n int) string {
	lines := strings.Split(src, "\n")
	if n >= 1 && n <= len(lines) {
		return lines[n-1]
	}
	return ""
}

func excerpt(src string, line, ctx int) string {
	lines := strings.Split(src, "\n")
	var b bytes.Buffer
	for i := line - ctx; i <= line+ctx; i++ {
		if i >= 1 && i <= len(lines) {
			fmt.Fprintf(&b, "%d: %s\n", i, lines[i-1])
		}
	}
	return b.String()
}

func tailLines(s string, n int) string {
	l := strings.Split(strings.TrimRight(s, "\n"), "\n")
	if len(l) > n {
		l = l[len(l)-n:]
	}
	return strings.Join(l, "\n")
}

func firstLine(s string) string {
	for _, l := range strings.Split(s, "\n") {
		if strings.TrimSpace(l) != "" && !strings.HasPrefix(l, "gombok generate") {
			return l
		}
	}
	return ""
}

func panicLine(s string) string {
	for _, l := range strings.Split(s, "\n") {
		if strings.HasPrefix(l, "panic:") {
			return l
		}
	}
	return firstLine(s)
}

func names(ss []*Struct) []string {
	var out []string
	for _, s := range ss {
		out = append(out, s.Name)
	}
	sort.Strings(out)
	return out
}

func nameSet(ss []*Struct) map[string]bool {
	m := map[string]bool{}
	for _, s := range ss {
		m[s.Name] = true
	}
	return m
}

func nameSetExcept(all, keep []*Struct) map[string]bool {
	k := nameSet(keep)
	m := map[string]bool{}
	for _, s := range all {
		if !k[s.Name] {
			m[s.Name] = true
		}
	}
	return m
}

// isolate runs gombok on every struct alone (plus the structs it refers to) and returns
// those for which bad() holds.
func isolate(t *Tool, mod string, p *Pkg, o *Outcome, bad func(GombokResult) bool) []*Struct {
	type res struct {
		s   *Struct
		bad bool
	}
	ch := make(chan res, len(p.Structs))
	for i, s := range p.Structs {
		go func(i int, s *Struct) {
			// keep s and everything it depends on
			keep := map[string]bool{s.Name: true}
			for changed := true; changed; {
				changed = false
				for _, c := range p.Structs {
					if keep[c.Name] {
						continue
					}
					for _, k := range p.Structs {
						if !keep[k.Name] {
							continue
						}
						dep := k.Derived == c.Name
						for _, f := range k.Fields {
							if refersTo(f.Ty.Src, c.Name) {
								dep = true
							}
						}
						if dep {
							keep[c.Name], changed = true, true
						}
					}
				}
			}
			q := *p
			q.Structs = nil
			for _, c := range p.Structs {
				if keep[c.Name] {
					q.Structs = append(q.Structs, c)
				}
			}
			q.Extra, q.ExtraImports = "", nil
			dir := filepath.Join(mod, fmt.Sprintf("iso%d", i), p.Name)
			if err := writePkg(dir, &q); err != nil {
				ch <- res{s, false}
				return
			}
			g := RunGombok(t, dir, p.Name)
			ch <- res{s, bad(g)}
		}(i, s)
	}
	var out []*Struct
	for range p.Structs {
		r := <-ch
		o.GombokRuns++
		if r.bad {
			out = append(out, r.s)
		}
	}
	sort.Slice(out, func(i, j int) bool { return out[i].Name < out[j].Name })
	// a struct that only fails because a dependency fails is not itself bad
	var direct []*Struct
	for _, s := range out {
		dependsOnBad := false
		for _, b := range out {
			if b == s {
				continue
			}
			if s.Derived == b.Name {
				dependsOnBad = true
			}
			for _, f := range s.Fields {
				if refersTo(f.Ty.Src, b.Name) {
					dependsOnBad = true
				}
			}
		}
		if !dependsOnBad {
			direct = append(direct, s)
		}
	}
	return direct
}
