package gbk

import (
	"fmt"
	"math/rand/v2"
)

// Seed packages: the shapes of the in-repo examples (test/internal/testpk1, testpk2,
// docexample, testjson) plus the tuple-limit and constraint shapes. They are part of every
// run so that a supported shape is never mistaken for an unsupported one.

func fld(name string, ty *Ty, tag ...string) Field {
	f := Field{Name: name, Ty: ty}
	if len(tag) > 0 {
		f.Tag = tag[0]
	}
	return f
}

func embEmpty() Field {
	return Field{Name: "Emb", Ty: &Ty{FK: "structemb", Src: "Emb", Conc: "Emb", Gen: "lwZero[Emb]()", Cmp: true, Faithful: true, JSONOK: true, TagRule: "plain"}, Embedded: true, EmptyEmb: true}
}

func embNE() Field {
	return Field{Name: "EmbNE", Ty: &Ty{FK: "structemb", Src: "EmbNE", Conc: "EmbNE", Gen: "lwG[EmbNE](func(r *lwRand, nn bool) EmbNE { return EmbNE{Inner: r.n(1000), Other: lwStr[string]()(r, false)} })", Cmp: true, Faithful: true, JSONOK: true, TagRule: "plain"}, Embedded: true}
}

func (g *G) mk(name, origin string, anns []string, fields ...Field) *Struct {
	s := &Struct{Name: g.structName(name), Ann: map[string]bool{}, AnnOrder: anns, Fields: fields, Origin: origin}
	for _, a := range anns {
		s.Ann[a] = true
	}
	g.p.Structs = append(g.p.Structs, s)
	return s
}

var (
	tInt  = func() *Ty { return Basic("int") }
	tStr  = func() *Ty { return Basic("string") }
	tF64  = func() *Ty { return Basic("float64") }
	tBool = func() *Ty { return Basic("bool") }
	vOnly = []string{"@fp.Value"}
	vJL   = []string{"@fp.Value", "@fp.Json", "@fp.GenLabelled"}
	vL    = []string{"@fp.Value", "@fp.GenLabelled"}
	vJ    = []string{"@fp.Value", "@fp.Json"}
)

// SeedPackage returns the k-th seed package (k = 0..NumSeeds-1) of the C07 flavour.
const NumSeeds = 4

func SeedPackage(r *rand.Rand, k int, pkg string) *Pkg {
	g := NewG(r, pkg, false)
	switch k {
	case 0: // testpk1 + docexample
		world := g.mk("World", "testpk1.World", vJL, fld("message", tStr()), fld("timestamp", TimeT()), fld("Pub", tStr()), fld("_notExport", tStr()))
		g.mk("HasOption", "testpk1.HasOption", vL, fld("message", tStr()), fld("addr", OptionT(tStr(), true)), fld("phone", SliceT(tStr())), fld("emptySeq", SliceT(tInt())))
		cv := g.mk("CustomValue", "testpk1.CustomValue", vOnly, fld("a", tStr()), fld("b", tInt()))
		cv.Hands = []Hand{{"getter", 0}, {"with", 1}, {"bsetter", 1}}
		g.Derived(world).Origin = "testpk1.AliasedStruct"
		g.mk("HListInsideHList", "testpk1.HListInsideHList", vOnly, fld("tp", Tuple2T(tStr(), tInt())), fld("value", tStr()), fld("hello", StructRefT(world)))
		w := g.mk("Wrapper", "testpk1.Wrapper", vOnly)
		w.TParams = []TParam{{Name: "T", CSrc: "any", CK: "any", Inst: SliceT(tInt())}}
		w.Fields = []Field{fld("unwrap", TParamT("T", w.TParams[0].Inst))}
		g.mk("TestOrderedEq", "testpk1.TestOrderedEq", vOnly, fld("list", SeqT(tInt())), fld("tlist", SeqT(Tuple2T(tInt(), tInt()))))
		g.mk("MapEq", "testpk1.MapEq", vOnly, fld("m", MapT(tStr(), StructRefT(world))), fld("m2", FpMapT(tStr(), StructRefT(world))))
		mp := g.mk("MapEqParam", "testpk1.MapEqParam", vOnly)
		mp.TParams = []TParam{{Name: "K", CSrc: "any", CK: "any", Inst: tStr()}, {Name: "V", CSrc: "any", CK: "any", Inst: tInt()}}
		mp.TypeParamsJoined = true
		mp.Fields = []Field{fld("m", func() *Ty {
			t := FpMapT(TParamT("K", tStr()), TParamT("V", tInt()))
			return t
		}())}
		g.mk("NotUsedProblem", "testpk1.NotUsedProblem", vOnly, fld("m", StructRefT(mp)))
		node := g.mk("Node", "testpk1.Node", vOnly, fld("value", tStr()))
		nref := StructRefT(node)
		node.Fields = append(node.Fields, fld("left", PtrT(nref)), fld("right", PtrT(nref)))
		g.mk("NoPrivate", "testpk1.NoPrivate", vOnly, fld("Value", tInt()))
		g.mk("Person", "docexample.Person", vOnly, fld("name", tStr()), fld("age", tInt()))
		g.mk("Address", "docexample.Address", vJ, fld("country", tStr()), fld("city", tStr()), fld("street", tStr()))
		g.mk("Car", "docexample.Car", vL, fld("company", tStr(), `column:"company"`), fld("model", tStr()), fld("year", tInt()))
		g.mk("User", "docexample.User", vOnly, fld("name", tStr()), fld("email", OptionT(tStr(), true)), fld("active", tBool()))
		g.mk("ExplicitTag", "testpk1.ExplicitTag", []string{"@fp.Getter", "@fp.With", "@fp.String", "@fp.AllArgsConstructor"}, fld("ctx", ContextT(), `fp:"String.Exclude"`), fld("hello", tStr()), fld("world", tInt()))
		ge := g.mk("GenericExplicitTag", "testpk1.GenericExplicitTag", []string{"@fp.Getter", "@fp.With", "@fp.String", "@fp.AllArgsConstructor", "@fp.Builder"})
		ge.TParams = []TParam{{Name: "T", CSrc: "any", CK: "any", Inst: tF64()}}
		ge.Fields = []Field{fld("hello", tStr()), fld("world", tInt()), fld("message", TParamT("T", tF64()))}
		g.mk("RequiredArgs", "testpk1.RequiredArgs", []string{"@fp.RequiredArgsConstructor"}, fld("hello", tStr()), fld("world", PtrT(tInt())), fld("etc", OptionT(tStr(), true)))
		g.p.Extra = "// @fp.Deref\ntype MapEntry[K, V any] fp.Tuple2[K, V]\n\n// @fp.Deref\ntype OptionalInt fp.Option[int]\n\n// @fp.Deref\ntype OptionalStringer[T fmt.Stringer] fp.Option[T]\n"
		g.p.ExtraImports = []string{impFP, `"fmt"`}
	case 1: // testpk2
		h := g.mk("Hello", "testpk2.Hello", []string{"@fp.Value", "@fp.JsonTag"}, fld("world", tStr()), fld("hi", tInt(), `bson:"hi" json:"merong"`))
		h.InGroup, h.Doc, h.Trailing = true, []string{"Hello is hello"}, true
		ak := g.mk("AllKindTypes", "testpk2.AllKindTypes", vOnly,
			embEmpty(),
			fld("hi", OptionT(tInt(), true)),
			fld("tpe", ReflectTypeT()),
			fld("arr", SliceT(OSFileT())),
			fld("m", MapT(tStr(), tInt())),
			fld("a", AnyT()),
			fld("p", PtrT(tInt())),
			fld("l", LocalIfaceT()),
			fld("t", TryT(OptionT(LocalIfaceT(), true))),
			fld("m2", MapT(tStr(), AtomicBoolT())),
			fld("mm", FpMapT(tStr(), tInt())),
			fld("intf", FutureT(tInt())),
			fld("ch", ChanT(0, TryT(EitherT(tInt(), tStr())))),
			fld("ch2", ChanT(1, tInt())),
			fld("ch3", ChanT(2, tInt())),
			fld("fn3", Func1T(g.fid(), tInt(), TryT(tStr()))),
			fld("fn", FuncT(g.fid(), []*Ty{tStr()}, []string{"a"}, []*Ty{TryT(tInt())}, nil)),
			fld("fn2", FuncT(g.fid(), []*Ty{TryT(tStr())}, nil, []*Ty{tInt(), ErrorT()}, []string{"result", "err"})),
			fld("arr2", ArrayT(2, tInt())),
			fld("st", AnonT(true, []string{"A", "B"}, []*Ty{tInt(), OptionT(tStr(), true)})),
			fld("i2", InlineEmbedIfaceT()),
		)
		ak.Trailing = true
		person := g.mk("Person", "testpk2.Person", vOnly, fld("name", tStr()), fld("age", tInt()), fld("height", tF64()), fld("phone", OptionT(tStr(), true)), fld("addr", SliceT(tStr())),
			fld("list", HlistT()), fld("seq", SeqT(tF64())), fld("blob", BytesT()), fld("_notExport", tStr()))
		g.mk("Wallet", "testpk2.Wallet", vOnly, fld("owner", StructRefT(person)), fld("amount", Basic("int64")))
		e := g.mk("Entry", "testpk2.Entry", vOnly)
		e.TParams = []TParam{{Name: "A", CSrc: "comparable", CK: "comparable", Inst: tStr()}, {Name: "B", CSrc: "any", CK: "any", Inst: tInt()},
			{Name: "C", CSrc: "fmt.Stringer", CK: "imported-iface", Inst: ImplT(), Imports: []string{`"fmt"`}}, {Name: "D", CSrc: "interface{ Hello() string }", CK: "inline-methods", Inst: ImplT()}}
		e.Fields = []Field{fld("name", tStr()), fld("value", TParamT("A", tStr())), fld("tuple", Tuple2T(TParamT("A", tStr()), TParamT("B", tInt())))}
		g.mk("Key", "testpk2.Key", vOnly, fld("a", tInt()), fld("b", Basic("float32")), fld("c", BytesT()))
		pt := g.mk("Point", "testpk2.Point", vOnly, fld("x", tInt()), fld("y", tInt()), fld("z", Tuple2T(tInt(), tInt())))
		pt.Hands = []Hand{{"string", 0}}
		var ints []Field
		for i := 1; i <= 30; i++ {
			ints = append(ints, fld(fmt.Sprintf("i%d", i), tInt()))
		}
		g.mk("Over21", "testpk1.Over21", vL, ints...)
		g.mk("Three", "testpk2.Three", vL, fld("one", tInt()), fld("two", tStr()), fld("three", tF64()))
	case 2: // tuple limit, constraints, testjson shapes
		var f21, f22 []Field
		f21 = append(f21, embEmpty(), fld("_skip", tStr()))
		for i := 1; i <= 21; i++ {
			var t *Ty
			switch i % 5 {
			case 0:
				t = tStr()
			case 1:
				t = tInt()
			case 2:
				t = OptionT(tInt(), true)
			case 3:
				t = SliceT(tStr())
			default:
				t = tBool()
			}
			f21 = append(f21, fld(fmt.Sprintf("f%d", i), t))
			f22 = append(f22, fld(fmt.Sprintf("g%d", i), t))
		}
		f22 = append(f22, fld("g22", tF64()))
		g.mk("T21", "limit/21-applicable+skipped", vL, f21...)
		g.mk("T22", "limit/22", vL, f22...)
		gn := g.mk("GNum", "constraint/named-typeset", vOnly)
		gn.TParams = []TParam{{Name: "A", CSrc: "Num", CK: "named-typeset", Inst: tF64()}, {Name: "B", CSrc: "comparable", CK: "comparable", Inst: Plain()}, {Name: "C", CSrc: "any", CK: "any", Inst: tStr()}}
		gn.Fields = []Field{fld("num", TParamT("A", tF64())), fld("index", MapT(TParamT("B", Plain()), TParamT("A", tF64()))), fld("opt", OptionT(TParamT("A", tF64()), true)), fld("label", tStr())}
		ts := g.mk("TSet", "constraint/inline-typeset", vOnly)
		ts.TParams = []TParam{{Name: "W", CSrc: "interface{ ~int | ~string }", CK: "inline-typeset", Inst: NamedBasic("MyStr", "string")}}
		ts.Fields = []Field{fld("w", TParamT("W", NamedBasic("MyStr", "string"))), fld("n", tInt())}
		tm := g.mk("TSetMethod", "constraint/typeset+method", vOnly)
		tm.TParams = []TParam{{Name: "W", CSrc: "interface {\n\t~int\n\tString() string\n}", CK: "typeset+method", Inst: NamedBasic("StrInt", "int")},
			{Name: "C", CSrc: "interface {\n\tcomparable\n\tHello() string\n}", CK: "comparable+method", Inst: ImplT()}}
		tm.Fields = []Field{fld("w", TParamT("W", NamedBasic("StrInt", "int"))), fld("c", TParamT("C", ImplT())), fld("ws", SliceT(TParamT("W", NamedBasic("StrInt", "int"))))}
		child := g.mk("Child", "testjson.Child", vL, fld("a", MapT(tStr(), AnyT())), fld("b", AnyT()))
		g.mk("Root", "testjson.Root", vL, fld("a", tInt()), fld("b", tStr()), fld("c", tF64()), fld("d", tBool()), fld("e", PtrT(tInt())), fld("f", SliceT(tInt())), fld("g", MapT(tStr(), tInt())), fld("h", StructRefT(child)))
		en := g.mk("Entry", "testjson.Entry", vL)
		en.TParams = []TParam{{Name: "V", CSrc: "any", CK: "any", Inst: tStr()}}
		en.Fields = []Field{fld("name", tStr()), fld("value", TParamT("V", tStr()))}
		nu := g.mk("NotUsedParam", "testjson.NotUsedParam", vL)
		nu.TParams = []TParam{{Name: "K", CSrc: "any", CK: "any", Inst: tInt()}, {Name: "V", CSrc: "any", CK: "any", Inst: tStr()}}
		nu.TypeParamsJoined = true
		nu.Fields = []Field{fld("param", tStr()), fld("value", TParamT("V", tStr()))}
		g.mk("Movie", "testjson.Movie", vL, fld("name", tStr()), fld("casting", StructRefT(en)), fld("notUsed", StructRefT(nu)))
		g.mk("OnlySkipped", "no-applicable-field", vOnly, embEmpty(), fld("_only", tInt()))
		pb := g.mk("PubBoth", "pubfield-annotations", []string{"@fp.Value", "@fp.GetterPubField", "@fp.WithPubField"}, embNE(), fld("PubField", tStr()), fld("privField", tStr()), fld("Count", tInt()))
		_ = pb
		jt := g.mk("Tagged", "tags", []string{"@fp.Value", "@fp.Json"}, fld("plain", tInt()), fld("Title", tStr(), `json:"title_x,omitempty" bson:"t"`), fld("opt", OptionT(tInt(), true)), fld("when", TimeT()), fld("ptr", PtrT(tStr())), fld("names", SliceT(tStr())), fld("any1", AnyT()), fld("ms", NamedBasic("MyStr", "string")), fld("lbl", tStr(), `bson:"lbl"`))
		jt.Fields[0].JoinNext = false
	case 3: // embedded fields of every kind gombok keeps / drops, in first / middle / last position, next to
		// private / public / underscore siblings; blank fields; several names on one line; fields whose
		// type is an instantiation of a local generic type or an alias
		blank := func(t *Ty) Field { return Field{Name: "_", Ty: t} }
		g.mk("EmbPtrFirst", "embedded/ptr-struct first", vOnly, g.Emb("ptr-struct"), fld("name", tStr()), fld("Pub", tInt()), fld("_skip", tStr()))
		g.mk("EmbIfaceMiddle", "embedded/interfaces middle", vL, fld("name", tStr()), g.Emb("iface-imported"), g.Emb("iface-local"), fld("age", tInt()))
		g.mk("EmbNamedLast", "embedded/named-basic last", vL, fld("name", tStr()), fld("count", tInt()), g.Emb("named-basic"))
		g.mk("EmbNamedRefs", "embedded/named slice map func", vOnly, g.Emb("named-slice"), fld("_hidden", tInt()), g.Emb("named-map"), fld("Title", tStr()), g.Emb("named-func"), fld("label", tStr()), g.Emb("named-basic", "MyStr"))
		tagged := g.Emb("named-basic")
		tagged.Tag = `bson:"lv"`
		taggedP := g.Emb("ptr-struct")
		taggedP.Tag = `column:"embp"`
		g.mk("EmbTagged", "embedded/with struct tags", vL, taggedP, fld("name", tStr(), `column:"name"`), tagged)
		g.mk("EmbPtrEmpty", "embedded/pointer to empty struct next to an empty struct", vL, g.Emb("struct-empty"), fld("name", tStr()), g.Emb("ptr-empty-struct"))
		eg := g.mk("EmbGeneric", "embedded/generic instantiations", vL)
		eg.TParams = []TParam{{Name: "T", CSrc: "any", CK: "any", Inst: tStr()}}
		eg.Fields = []Field{g.EmbTP(eg.TParams[0]), fld("key", TParamT("T", tStr())), g.Emb("generic-nonstruct"), g.Emb("generic-struct-empty"), fld("Pub", tInt())}
		g.mk("EmbGenericInt", "embedded/generic instantiation", vOnly, fld("name", tStr()), g.Emb("generic-struct"), fld("_x1", tInt()))
		g.mk("EmbImported", "embedded/imported struct and imported empty struct", vL, g.Emb("imported-struct"), g.Emb("imported-struct-empty"), fld("name", tStr()))
		g.mk("EmbAlias", "embedded/aliases", vL, fld("name", tStr()), g.Emb("alias-struct"), g.Emb("alias-nonstruct"))
		g.mk("EmbOnly", "embedded/no other kept field", vOnly, g.Emb("ptr-struct"), fld("_only", tInt()), g.Emb("iface-local", "Greeter"))
		g.mk("EmbEvery", "embedded/every kept kind + constructor + PubField accessors", []string{"@fp.Value", "@fp.AllArgsConstructor", "@fp.GetterPubField", "@fp.WithPubField", "@fp.String"},
			fld("name", tStr()), g.Emb("ptr-struct"), g.Emb("iface-imported"), g.Emb("iface-local"), g.Emb("named-basic"), g.Emb("named-slice"), g.Emb("struct-empty"),
			g.Emb("named-map"), g.Emb("generic-struct"), g.Emb("imported-struct"), g.Emb("struct"), fld("Pub", tInt()), g.Emb("alias-struct"))
		g.mk("EmbStandalone", "embedded/stand-alone annotations", []string{"@fp.Getter", "@fp.With", "@fp.String", "@fp.AllArgsConstructor", "@fp.Builder"},
			fld("name", tStr()), g.Emb("ptr-struct"), g.Emb("iface-imported"), g.Emb("named-basic"), fld("opt", OptionT(tInt(), true)), g.Emb("named-slice"))
		g.mk("EmbRequired", "embedded/required-args constructor", []string{"@fp.RequiredArgsConstructor"}, fld("name", tStr()), g.Emb("ptr-struct"), g.Emb("iface-imported"), g.Emb("named-basic"), g.Emb("named-slice"))
		g.mk("EmbJson", "embedded/with @fp.Json", vJL, g.Emb("ptr-struct"), g.Emb("named-basic"), g.Emb("named-slice"), g.Emb("generic-struct"), g.Emb("imported-struct"), fld("name", tStr()))
		g.mk("Blanks", "blank fields first / middle / last", vL, blank(tInt()), fld("name", tStr()), blank(tStr()), fld("age", tInt()), blank(BlankStructT()))
		mu := g.mk("MultiName", "several names on one line", vL, fld("a", tInt()), fld("b", tInt()), fld("c", tStr()), fld("d", tStr()), fld("e", tStr()), fld("F", tF64()), fld("G", tF64()), fld("h", tBool()), fld("I", tBool()), fld("_x", tInt()), fld("_y", tInt()))
		for _, pair := range [][2]int{{0, 1}, {2, 3}, {3, 4}, {5, 6}, {7, 8}, {9, 10}} {
			mu.Fields[pair[1]].Ty = mu.Fields[pair[0]].Ty
			mu.Fields[pair[0]].JoinNext = true
		}
		gf := g.mk("GenericFields", "field types: instantiations of local generic types, aliases", vL)
		gf.TParams = []TParam{{Name: "T", CSrc: "any", CK: "any", Inst: tInt()}}
		tT := func() *Ty { return TParamT("T", tInt()) }
		gf.Fields = []Field{fld("ci", CellT(tInt())), fld("ct", CellT(tT())), fld("bt", BagT(tT())), fld("al", AliasPT()), fld("lv", AliasLevelT()), fld("pc", PtrT(CellT(tStr()))), fld("vd", VoidT(tInt())), fld("oc", OptionT(CellT(tT()), true))}
		gf.InGroup = true
	}
	return g.p
}

// ErrorT is the predeclared interface type error. Only used inside func signatures: a
// *field* of type error makes gombok crash (nil package of a universe type), i.e. refuse.
func ErrorT() *Ty {
	return &Ty{FK: "iface", Src: "error", Conc: "error", Gen: "lwIface[error](lwErrs[0], lwErrs[1])", Cmp: true, JSONOK: true, TagRule: "either"}
}

// RefusedProbe is a struct with a field of the predeclared type `error`, which the pinned
// gombok refuses by crashing; it exercises the refusal path of the harness.
func (g *G) RefusedProbe() *Struct {
	return g.mk("HasError", "probe/error-field", vOnly, fld("code", tInt()), fld("cause", ErrorT()))
}

// JSONSeedPackage returns the C15 seed package: the @fp.Json shapes of the repository.
func JSONSeedPackage(r *rand.Rand, pkg string) *Pkg {
	g := NewG(r, pkg, true)
	world := g.mk("World", "testpk1.World", vJL, fld("message", tStr()), fld("timestamp", TimeT()), fld("Pub", tStr()), fld("_notExport", tStr()))
	g.mk("Address", "docexample.Address", vJ, fld("country", tStr()), fld("city", tStr()), fld("street", tStr()))
	g.mk("Greeting", "testpk2.Greeting", vJL, fld("hello", StructRefT(world)), fld("language", tStr()))
	h := g.mk("Hello", "testpk2.Hello", vJ, fld("world", tStr()), fld("hi", tInt(), `bson:"hi" json:"merong"`))
	h.InGroup = true
	g.mk("Wide", "all-faithful-kinds", vJ,
		embNE(),
		fld("s", tStr()), fld("ms", NamedBasic("MyStr", "string")),
		fld("i8", Basic("int8")), fld("i16", Basic("int16")), fld("i32", Basic("int32")), fld("i64", Basic("int64")), fld("i", tInt()),
		fld("u8", Basic("uint8")), fld("u16", Basic("uint16")), fld("u32", Basic("uint32")), fld("u64", Basic("uint64")), fld("u", Basic("uint")),
		fld("f32", Basic("float32")), fld("f64", tF64()), fld("flag", tBool()),
		fld("strs", SliceT(tStr())), fld("blob", BytesT()), fld("byKey", MapT(tStr(), tF64())), fld("ptr", PtrT(Basic("int64"))),
		fld("seq", SeqT(tStr())), fld("when", TimeT()), fld("nested", StructRefT(world)), fld("Pub", tStr(), `json:"pub_name,omitempty"`), fld("_skip", tInt()))
	g.mk("Opts", "options", vJ,
		fld("os", OptionT(tStr(), false)), fld("oi", OptionT(tInt(), false)), fld("oo", OptionT(OptionT(tInt(), false), false)), fld("osl", OptionT(SliceT(tInt()), false)),
		fld("om", OptionT(MapT(tStr(), tStr()), false)), fld("ot", OptionT(TimeT(), false)), fld("ow", OptionT(StructRefT(world), false)), fld("opl", OptionT(Plain(), false)),
		fld("ob", OptionT(tBool(), false)), fld("of", OptionT(tF64(), false)), fld("sos", SliceT(OptionT(tStr(), false))), fld("mo", MapT(tStr(), OptionT(tInt(), false))))
	g.mk("Loose", "never-panics-only", vJ, fld("a", AnyT()), fld("op", OptionT(PtrT(tInt()), true)), fld("on", OptionT(SliceT(tInt()), true)), fld("m", MapT(tStr(), AnyT())), fld("name", tStr()))
	en := g.mk("Entry", "testjson.Entry", vJ)
	en.TParams = []TParam{{Name: "V", CSrc: "any", CK: "any", Inst: SliceT(tInt())}}
	en.Fields = []Field{fld("name", tStr()), fld("value", TParamT("V", SliceT(tInt()))), fld("opt", OptionT(TParamT("V", SliceT(tInt())), false))}
	node := g.mk("Node", "testjson.Node", vJ, fld("name", tStr()))
	nref := StructRefT(node)
	nref.Faithful = true
	node.Fields = append(node.Fields, fld("left", PtrT(nref)), fld("right", PtrT(nref)), fld("kids", SliceT(nref)))
	return g.p
}

// WideFieldCounts are the numbers of applicable fields of the structs of JSONWideSeedPackage:
// just below, at and above the tuple-arity limit (22), where gombok switches off the tuple /
// labelled views, and well above it.
var WideFieldCounts = []int{21, 22, 23, 30}

// JSONWideSeedPackage returns the second C15 seed package: @fp.Json structs with 21, 22, 23 and
// 30 applicable fields of mixed kinds (plain and omitempty kinds, private and public names,
// copied json tags), so that a field dropped or defaulted anywhere — in particular behind
// position 21 — shows in the JSON object and in the round trip.
func JSONWideSeedPackage(r *rand.Rand, pkg string) *Pkg {
	g := NewG(r, pkg, true)
	kinds := []func() *Ty{
		tInt, tStr, tBool, tF64,
		func() *Ty { return OptionT(tInt(), false) },
		func() *Ty { return SliceT(tStr()) },
		func() *Ty { return PtrT(Basic("int64")) },
		func() *Ty { return MapT(tStr(), tInt()) },
		func() *Ty { return Basic("uint16") },
		func() *Ty { return OptionT(tStr(), false) },
		TimeT,
		func() *Ty { return SeqT(tF64()) },
		func() *Ty { return NamedBasic("MyStr", "string") },
	}
	for _, n := range WideFieldCounts {
		var fs []Field
		for i := 1; i <= n; i++ {
			// the kind sequence is rotated per struct so that position 22.. holds plain kinds
			// (0 / false / "" when dropped) in one struct and omitempty kinds (absent) in another
			t := kinds[(i+n)%len(kinds)]()
			name := fmt.Sprintf("f%d", i)
			if i%7 == 3 {
				name = fmt.Sprintf("F%d", i)
			}
			f := fld(name, t)
			switch {
			case i%11 == 5:
				f.Tag = fmt.Sprintf(`json:"k%d_x"`, i)
			case i%11 == 9:
				f.Tag = fmt.Sprintf(`bson:"b%d" json:"k%d_y,omitempty"`, i, i)
			}
			fs = append(fs, f)
			if i == n/2 {
				fs = append(fs, fld("_skip", tStr()))
			}
		}
		g.mk(fmt.Sprintf("Wide%d", n), fmt.Sprintf("limit/%d-json", n), vJ, fs...)
	}
	return g.p
}

// NilableSeedPackage (C07, appended batch): Option / pointer / interface / slice / map / func / chan
// fields of every nil-able element kind, private and public, under @fp.Value (with and without
// @fp.GenLabelled / constructors / PubField accessors), under the stand-alone annotations and
// as instantiations of a type parameter. Together with the forced value pool of the law test
// (lwPair: None, Some(typed nil), Some(empty), nil, empty, empty-with-capacity, nil element)
// every round-trip law meets those values in every run; floors on the pool.* counters.
func NilableSeedPackage(r *rand.Rand, pkg string) *Pkg {
	g := NewG(r, pkg, false)
	fn := func() *Ty { return FuncT(g.fid(), []*Ty{tInt()}, nil, []*Ty{tStr()}, nil) }
	opt := func(e *Ty) *Ty { return OptionT(e, true) }
	tags := func() *Ty { return plainTy("Tags", "lwSliceOf[Tags](lwStr[string]())", false) }
	g.mk("OptKinds", "nilable/option-of-every-nilable-kind", vL,
		fld("op", opt(PtrT(tInt()))), fld("osl", opt(SliceT(tStr()))), fld("om", opt(MapT(tStr(), tInt()))), fld("ofn", opt(fn())), fld("och", opt(ChanT(0, tInt()))),
		fld("oif", opt(LocalIfaceT())), fld("oany", opt(AnyT())), fld("otags", opt(tags())), fld("oo", opt(opt(PtrT(tInt())))), fld("oseq", opt(SeqT(tInt()))),
		fld("obs", opt(BytesT())), fld("opp", opt(PtrT(PtrT(tInt())))), fld("oi", opt(tInt())), fld("os", opt(tStr())),
		fld("PubOp", opt(PtrT(tStr()))), fld("PubOsl", opt(SliceT(tInt()))), fld("PubOm", opt(MapT(tInt(), tStr()))))
	g.mk("NilKinds", "nilable/plain-fields-of-every-nilable-kind", vL,
		fld("p", PtrT(tInt())), fld("pp", PtrT(PtrT(tInt()))), fld("sl", SliceT(tStr())), fld("bs", BytesT()), fld("m", MapT(tStr(), tInt())), fld("fn", fn()),
		fld("ch", ChanT(0, tInt())), fld("ifc", LocalIfaceT()), fld("a", AnyT()), fld("sq", SeqT(PtrT(tInt()))), fld("slp", SliceT(PtrT(tInt()))), fld("mp", MapT(tStr(), PtrT(tInt()))),
		fld("ssl", SliceT(SliceT(tInt()))), fld("tg", tags()), fld("PubP", PtrT(tInt())), fld("PubSl", SliceT(tInt())), fld("PubM", MapT(tStr(), tInt())), fld("PubIf", GreeterT()))
	g.mk("OptStandalone", "nilable/stand-alone-annotations", []string{"@fp.Getter", "@fp.With", "@fp.Builder", "@fp.AllArgsConstructor"},
		fld("name", tStr()), fld("op", opt(PtrT(tInt()))), fld("osl", opt(SliceT(tInt()))), fld("om", opt(MapT(tStr(), tInt()))), fld("p", PtrT(tInt())), fld("sl", SliceT(tInt())))
	for k, inst := range []*Ty{PtrT(tInt()), SliceT(tInt()), MapT(tStr(), tInt())} {
		s := g.mk(fmt.Sprintf("OptGeneric%d", k+1), "nilable/type-parameter-instantiated-with-a-nilable-type", vOnly)
		s.TParams = []TParam{{Name: "T", CSrc: "any", CK: "any", Inst: inst}}
		s.Fields = []Field{fld("opt", opt(TParamT("T", inst))), fld("val", TParamT("T", inst)), fld("many", SliceT(TParamT("T", inst))), fld("label", tStr())}
	}
	g.mk("OptRequired", "nilable/required-args-constructor", []string{"@fp.Value", "@fp.RequiredArgsConstructor"}, fld("name", tStr()), fld("op", opt(PtrT(tInt()))), fld("p", PtrT(tInt())), fld("sl", SliceT(tInt())))
	g.mk("OptPub", "nilable/pubfield-accessors", []string{"@fp.Value", "@fp.GetterPubField", "@fp.WithPubField", "@fp.AllArgsConstructor"},
		fld("PubOp", opt(PtrT(tInt()))), fld("PubOsl", opt(SliceT(tInt()))), fld("PubFn", fn()), fld("name", tStr()), fld("op", opt(MapT(tStr(), tInt()))))
	g.mk("OptJson", "nilable/with-@fp.Json", vJL, fld("op", opt(PtrT(tInt()))), fld("osl", opt(SliceT(tStr()))), fld("sl", SliceT(tStr())), fld("p", PtrT(tStr())), fld("name", tStr()))
	return g.p
}
